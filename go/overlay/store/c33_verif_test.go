package store

// C33 driver: histories of writes (foreign-key violating ones included), snapshots and loads on a single node,
// shutdown, a generated peers.json, re-open.  Observed: logical dump and configuration after the re-open.
// Oracle (independent of the model): the dump equals the dump taken just before shutdown, and the configuration
// is the peers file; a peers file rqlite documents as invalid is refused and leaves the node as it was.

import (
	"encoding/json"
	"fmt"
	"math/rand"
	"net"
	"os"
	"path/filepath"
	"strings"
	"sync"
	"testing"
	"time"
)

type c33Input struct {
	FK            bool       `json:"fk"`
	NoSnapOnClose bool       `json:"no_snapshot_on_close"`
	Steps         []vfStep   `json:"steps"`
	PeersKind     string     `json:"peers_kind"`
	Peers         []vfServer `json:"peers"`               // "SELF" in an address stands for the node's real address
	PeersRaw      string     `json:"peers_raw,omitempty"` // written verbatim instead (malformed file)
}

// validity of a peers file as documented: id and host:port address on every server, no duplicates, a voter
func c33PeersValid(l []vfServer) (bool, string) {
	ids, addrs, voters := map[string]bool{}, map[string]bool{}, 0
	for _, s := range l {
		if s.ID == "" {
			return false, "empty-id"
		}
		if s.Address == "" {
			return false, "empty-address"
		}
		if strings.Contains(s.Address, "://") {
			return false, "protocol-in-address"
		}
		if _, _, err := net.SplitHostPort(s.Address); err != nil {
			return false, "not-host-port"
		}
		if ids[s.ID] {
			return false, "duplicate-id"
		}
		if addrs[s.Address] {
			return false, "duplicate-address"
		}
		ids[s.ID], addrs[s.Address] = true, true
		if !s.NonVoter {
			voters++
		}
	}
	if voters == 0 {
		return false, "no-voter"
	}
	return true, ""
}

func c33GenSteps(r *rand.Rand) []vfStep {
	steps := []vfStep{{Kind: "schema"}}
	n := 2 + r.Intn(9)
	id := func() int64 { return int64(1 + r.Intn(4)) }
	pid := func() int64 {
		if r.Intn(4) == 0 {
			return 9
		}
		return id()
	}
	for i := 0; i < n; i++ {
		switch k := r.Intn(20); {
		case k < 3:
			steps = append(steps, vfStep{Kind: "snap", Trail: uint64(r.Intn(3))})
		case k < 4:
			var d vfDB
			for p := int64(1); p <= 4; p++ {
				if r.Intn(2) == 0 {
					d.P = append(d.P, p)
				}
			}
			for c := int64(1); c <= 3; c++ {
				if r.Intn(2) == 0 {
					d.C = append(d.C, [2]int64{c, pid()})
				}
			}
			steps = append(steps, vfStep{Kind: "load", Load: &d})
		default:
			st := vfStep{Kind: "req", Tx: r.Intn(4) == 0}
			for j := 0; j <= r.Intn(3); j++ {
				switch r.Intn(10) {
				case 0, 1, 2:
					st.Stmts = append(st.Stmts, vfStmt{K: "insp", ID: id()})
				case 3, 4, 5, 6:
					st.Stmts = append(st.Stmts, vfStmt{K: "insc", ID: id(), PID: pid()})
				case 7:
					st.Stmts = append(st.Stmts, vfStmt{K: "delp", ID: id()})
				case 8:
					st.Stmts = append(st.Stmts, vfStmt{K: "delc", ID: id()})
				default:
					st.Stmts = append(st.Stmts, vfStmt{K: "updc", ID: id(), PID: pid()})
				}
			}
			steps = append(steps, st)
		}
	}
	return steps
}

func c33GenPeers(r *rand.Rand, in *c33Input) {
	self := vfServer{ID: "n0", Address: "SELF"}
	other := func(i int) vfServer {
		return vfServer{ID: fmt.Sprintf("n%d", i), Address: fmt.Sprintf("10.0.0.%d:4002", i), NonVoter: r.Intn(3) == 0}
	}
	kinds := []string{"self", "self", "self+others", "self+others", "moved", "others-only", "self-nonvoter+voter",
		"duplicate-id", "duplicate-address", "no-voter", "empty-id", "empty-address", "protocol-in-address", "no-port", "too-many-colons", "empty-list", "malformed-json"}
	in.PeersKind = kinds[r.Intn(len(kinds))]
	switch in.PeersKind {
	case "self":
		in.Peers = []vfServer{self}
	case "self+others":
		in.Peers = []vfServer{self, other(1), other(2)}
		if r.Intn(2) == 0 {
			in.Peers = []vfServer{other(2), self}
		}
	case "moved":
		in.Peers = []vfServer{{ID: "n0", Address: "localhost:4999"}, other(1)}
	case "others-only":
		o := other(1)
		o.NonVoter = false
		in.Peers = []vfServer{o, other(2)}
	case "self-nonvoter+voter":
		o := other(1)
		o.NonVoter = false
		in.Peers = []vfServer{{ID: "n0", Address: "SELF", NonVoter: true}, o}
	case "duplicate-id":
		in.Peers = []vfServer{self, {ID: "n0", Address: "10.0.0.9:4002"}}
	case "duplicate-address":
		in.Peers = []vfServer{self, {ID: "n7", Address: "SELF"}}
	case "no-voter":
		in.Peers = []vfServer{{ID: "n0", Address: "SELF", NonVoter: true}, {ID: "n1", Address: "10.0.0.1:4002", NonVoter: true}}
	case "empty-id":
		in.Peers = []vfServer{self, {ID: "", Address: "10.0.0.1:4002"}}
	case "empty-address":
		in.Peers = []vfServer{self, {ID: "n1", Address: ""}}
	case "protocol-in-address":
		in.Peers = []vfServer{self, {ID: "n1", Address: "http://10.0.0.1:4002"}}
	case "no-port":
		in.Peers = []vfServer{self, {ID: "n1", Address: "10.0.0.1"}}
	case "too-many-colons":
		in.Peers = []vfServer{self, {ID: "n1", Address: "10.0.0.1:4002:7"}}
	case "empty-list":
		in.Peers = []vfServer{}
	case "malformed-json":
		in.PeersRaw = []string{`[{"id": "n0", "address": "SELF"`, `{"id": "n0"}`, `not json`, ``}[r.Intn(4)]
	}
}

func c33Gen(r *rand.Rand) c33Input {
	in := c33Input{FK: r.Intn(10) < 6, NoSnapOnClose: r.Intn(4) != 0, Steps: c33GenSteps(r)}
	c33GenPeers(r, &in)
	return in
}

// the case of DESIGN.md section 7 row 23 and relatives
func c33Corpus() []c33Input {
	self := []vfServer{{ID: "n0", Address: "SELF"}}
	fkViol := []vfStep{{Kind: "schema"},
		{Kind: "req", Stmts: []vfStmt{{K: "insp", ID: 1}, {K: "insc", ID: 1, PID: 1}}},
		{Kind: "req", Stmts: []vfStmt{{K: "insc", ID: 2, PID: 99}}}}
	delParent := []vfStep{{Kind: "schema"},
		{Kind: "req", Stmts: []vfStmt{{K: "insp", ID: 1}, {K: "insp", ID: 2}, {K: "insc", ID: 1, PID: 1}}},
		{Kind: "snap", Trail: 1},
		{Kind: "req", Tx: true, Stmts: []vfStmt{{K: "insp", ID: 3}, {K: "delp", ID: 1}}},
		{Kind: "req", Stmts: []vfStmt{{K: "updc", ID: 1, PID: 7}, {K: "insc", ID: 2, PID: 2}}}}
	var out []c33Input
	for _, fk := range []bool{true, false} {
		for _, nos := range []bool{true, false} {
			out = append(out, c33Input{FK: fk, NoSnapOnClose: nos, Steps: fkViol, PeersKind: "self", Peers: self})
			out = append(out, c33Input{FK: fk, NoSnapOnClose: nos, Steps: delParent, PeersKind: "self", Peers: self})
		}
	}
	out = append(out, c33Input{FK: true, NoSnapOnClose: true, Steps: fkViol, PeersKind: "no-voter", Peers: []vfServer{{ID: "n0", Address: "SELF", NonVoter: true}}})
	out = append(out, c33Input{FK: true, NoSnapOnClose: true, Steps: []vfStep{{Kind: "schema"}}, PeersKind: "self", Peers: self})
	return out
}

func c33Run(w *vWriter, in c33Input) {
	vc := VCase{Input: in, Key: vJSON(in), Tags: []string{"peers:" + in.PeersKind, fmt.Sprintf("fk=%v", in.FK), fmt.Sprintf("nosnap-on-close=%v", in.NoSnapOnClose)}}
	fail := func(format string, a ...any) {
		vc.Inconcl = fmt.Sprintf(format, a...)
		w.Emit(vc)
	}
	dir, err := os.MkdirTemp("", "c33-")
	if err != nil {
		fail("tempdir: %v", err)
		return
	}
	defer os.RemoveAll(dir)
	s := vfNewStore("n0", dir, in.FK, nil)
	defer s.ly.Close()
	if err := s.Open(); err != nil {
		fail("open: %v", err)
		return
	}
	closed := false
	defer func() {
		if !closed {
			s.Close(true)
		}
	}()
	if err := s.Bootstrap(NewServer(s.ID(), s.Addr(), true)); err != nil {
		fail("bootstrap: %v", err)
		return
	}
	if _, err := s.WaitForLeader(10 * time.Second); err != nil {
		fail("leader: %v", err)
		return
	}
	cmds := map[uint64]vfStep{}
	nsnap, nload, nrej := 0, 0, 0
	for _, st := range in.Steps {
		if st.Kind == "snap" {
			if err := s.Snapshot(st.Trail); err != nil && err != ErrNothingNewToSnapshot && err != ErrNoWALToSnapshot {
				fail("snapshot: %v", err)
				return
			}
			nsnap++
			continue
		}
		idx, err := vfExec(s, st)
		if err != nil {
			fail("exec %v: %v", st, err)
			return
		}
		if st.Kind == "load" {
			nload++
		}
		cmds[idx] = st
	}
	live, err := vfDump(s)
	if err != nil {
		fail("dump: %v", err)
		return
	}
	conf0, err := vfConfig(s)
	if err != nil {
		fail("config: %v", err)
		return
	}
	addr := s.Addr()
	s.NoSnapshotOnClose = in.NoSnapOnClose
	if err := s.Close(true); err != nil {
		fail("close: %v", err)
		return
	}
	closed = true
	disk, err := vfReadDisk(s.raftDir)
	if err != nil {
		fail("read disk: %v", err)
		return
	}
	if err := disk.checkLog(cmds); err != nil {
		fail("log differs from the driver's record: %v", err)
		return
	}
	last := disk.Last
	if disk.SnapIndex > last {
		last = disk.SnapIndex
	}
	// the peers file
	peers := make([]vfServer, len(in.Peers))
	for i, p := range in.Peers {
		p.Address = strings.ReplaceAll(p.Address, "SELF", addr)
		peers[i] = p
	}
	raw := strings.ReplaceAll(in.PeersRaw, "SELF", addr)
	if in.PeersKind != "malformed-json" {
		raw = vfPeersJSON(peers)
	}
	if err := os.WriteFile(s.peersPath, []byte(raw), 0644); err != nil {
		fail("write peers: %v", err)
		return
	}
	valid, why := c33PeersValid(peers)
	if in.PeersKind == "malformed-json" {
		valid, why = false, "malformed-json"
	}

	s.NoSnapshotOnClose = true
	openErr := s.Open()
	var after vfDB
	var conf []vfServer
	var lastSnap uint64
	if openErr == nil {
		after, err = vfDump(s)
		if err == nil {
			conf, err = vfConfig(s)
		}
		if cerr := s.Close(true); err == nil {
			err = cerr
		}
		if err != nil {
			fail("after recovery: %v", err)
			return
		}
		d2, err := vfReadDisk(s.raftDir)
		if err != nil {
			fail("read disk after recovery: %v", err)
			return
		}
		lastSnap = d2.SnapIndex
	} else {
		// a failed Open leaves its file handles behind; release them and look at the node again without the file
		if s.boltStore != nil {
			s.boltStore.Close()
		}
		if s.snapshotStore != nil {
			s.snapshotStore.Close()
		}
		if s.raftTn != nil {
			s.raftTn.Close()
		}
		os.Remove(s.peersPath)
		s2 := vfNewStore("n0", dir, in.FK, nil)
		defer s2.ly.Close()
		s2.NoSnapshotOnClose = true
		if err := s2.Open(); err != nil {
			vc.OracleFail = fmt.Sprintf("peers file (%s) refused with %q, and the node does not open any more: %v", in.PeersKind, openErr, err)
			vc.Sig = "C33:refused-recovery-broke-node"
			w.Emit(vc)
			return
		}
		// the entries after the newest snapshot are applied once the node leads again
		if _, err = s2.WaitForLeader(10 * time.Second); err == nil {
			err = s2.raft.Barrier(10 * time.Second).Error()
		}
		if err == nil {
			after, err = vfDump(s2)
		}
		if err == nil {
			conf, err = vfConfig(s2)
		}
		s2.Close(true)
		if err != nil {
			fail("after refused recovery: %v", err)
			return
		}
	}

	hasTrunc := disk.First > 1
	rejected := false
	// statements the live node rejected: the dump of a history replayed without foreign keys would differ
	for _, st := range in.Steps {
		for _, x := range st.Stmts {
			if (x.K == "insc" || x.K == "updc") && x.PID == 9 {
				rejected = true
			}
		}
	}
	if rejected && in.FK {
		nrej++
	}
	vc.Tags = append(vc.Tags, fmt.Sprintf("snapshots-on-disk=%d", disk.NSnaps), fmt.Sprintf("log-truncated=%v", hasTrunc), fmt.Sprintf("loads=%d", nload))
	if nrej > 0 {
		vc.Tags = append(vc.Tags, "fk-violating-write")
	}
	replayed := disk.Last > disk.SnapIndex
	if replayed {
		vc.Tags = append(vc.Tags, "entries-after-snapshot")
	}
	vc.Nontrivial = valid && replayed && len(cmds) > 1
	vc.Coq = fmt.Sprintf("{| c_node := %s; c_hist := %s; c_live := %s; c_peers := %s; c_ok := %s; c_db := %s; c_conf := %s; c_last := %d%%nat |}",
		disk.coqNode(in.FK, cmds, conf0), vfEntries(cmds, 1, last), live.coq(), vfServersCoq(peers), coqBool(openErr == nil), after.coq(), vfServersCoq(conf), lastSnap)
	if in.PeersKind == "malformed-json" {
		vc.Coq = "" // the model starts from a parsed file
	}
	fkTag := "fk-off"
	if in.FK {
		fkTag = "fk-on"
	}
	switch {
	case valid && openErr != nil:
		vc.OracleFail = fmt.Sprintf("valid peers file %s refused: %v", raw, openErr)
		vc.Sig = "C33:valid-peers-refused"
	case !valid && openErr == nil:
		vc.OracleFail = fmt.Sprintf("invalid peers file (%s) %s accepted", why, raw)
		vc.Sig = "C33:invalid-peers-accepted:" + why
	case !after.equal(live):
		what := "recovered"
		if openErr != nil {
			what = "refused-recovery"
		}
		kind := "rows-differ"
		if len(after.P)+len(after.C) > len(live.P)+len(live.C) {
			kind = "extra-rows"
		} else if len(after.P)+len(after.C) < len(live.P)+len(live.C) {
			kind = "missing-rows"
		}
		vc.OracleFail = fmt.Sprintf("node held %s before shutdown and %s after the re-open (%s, %s, peers %s)", live, after, what, fkTag, in.PeersKind)
		vc.Sig = fmt.Sprintf("C33:%s-data-differs:%s:%s", what, kind, fkTag)
	case valid && vJSON(conf) != vJSON(peers):
		vc.OracleFail = fmt.Sprintf("configuration after recovery %s, peers file %s", vJSON(conf), raw)
		vc.Sig = "C33:configuration-differs-from-peers-file"
	case !valid && vJSON(conf) != vJSON(conf0):
		vc.OracleFail = fmt.Sprintf("refused peers file changed the configuration from %s to %s", vJSON(conf0), vJSON(conf))
		vc.Sig = "C33:refused-recovery-changed-configuration"
	case valid && lastSnap != last:
		vc.OracleFail = fmt.Sprintf("newest snapshot after recovery is at index %d, the node had applied up to %d", lastSnap, last)
		vc.Sig = "C33:recovery-snapshot-index"
	}
	w.Emit(vc)
}

func TestVerif_C33(t *testing.T) {
	w := vOpen()
	defer w.Close()
	if raw := vReplayInput(); raw != nil {
		var in c33Input
		if err := json.Unmarshal(raw, &in); err != nil {
			t.Fatal(err)
		}
		c33Run(w, in)
		return
	}
	rng := vRand()
	ins := c33Corpus()
	n := vN(90, 1500)
	for i := 0; i < n; i++ {
		ins = append(ins, c33Gen(rng))
	}
	ch := make(chan c33Input)
	var wg sync.WaitGroup
	for k := 0; k < 8; k++ {
		wg.Add(1)
		go func() {
			defer wg.Done()
			for in := range ch {
				c33Run(w, in)
			}
		}()
	}
	for _, in := range ins {
		ch <- in
	}
	close(ch)
	wg.Wait()
	_ = filepath.Join
}
