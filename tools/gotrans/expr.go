package main

import (
	"go/ast"
	"go/token"
	"strconv"
	"strings"
)

// result types of the few library functions whose result type cannot be read from the package
var libResult = map[string]string{"fmt.Sprintf": "string"}

// library functions that never return a nil error
var nonNilError = map[string]bool{"fmt.Errorf": true, "errors.New": true}

func coqString(s string, at ast.Node, t *tr) string {
	for _, ch := range s {
		if ch < 32 || ch > 126 {
			t.fail(at, "string literal with a non-printable or non-ASCII character")
		}
	}
	return "\"" + strings.ReplaceAll(s, "\"", "\"\"") + "\""
}

// expr: Gallina code and type of a Go expression.  want is the type the context expects
// ("" if unknown); it is used for nil, for calls of untranslated functions and for zero values.
func (c *fctx) expr(e ast.Expr, want string) (string, string) {
	t := c.t
	switch x := e.(type) {
	case *ast.ParenExpr:
		return c.expr(x.X, want)
	case *ast.BasicLit:
		switch x.Kind {
		case token.INT:
			if n, err := strconv.ParseInt(x.Value, 0, 64); err == nil {
				return strconv.FormatInt(n, 10), "Z"
			}
		case token.CHAR:
			if s, err := strconv.Unquote(x.Value); err == nil && len(s) >= 1 {
				if r := []rune(s); len(r) == 1 && r[0] < 256 {
					return strconv.Itoa(int(r[0])), "Z"
				}
			}
		case token.STRING:
			if s, err := strconv.Unquote(x.Value); err == nil && t.unit.bytestr {
				var bs []string
				for i := 0; i < len(s); i++ {
					bs = append(bs, strconv.Itoa(int(s[i])))
				}
				return "[" + strings.Join(bs, "; ") + "]", "list Z"
			} else if err == nil {
				return coqString(s, x, t), "string"
			}
		}
	case *ast.Ident:
		switch {
		case x.Name == "true" || x.Name == "false":
			return x.Name, "bool"
		case x.Name == "nil" && strings.HasPrefix(want, "option "):
			return "None", want
		case x.Name == "nil" && (strings.HasPrefix(want, "list ") || strings.HasPrefix(want, "alist ") || strings.HasPrefix(want, "balist ")):
			return "[]", want
		case x.Obj != nil && c.names[x.Obj] != "":
			return c.names[x.Obj], c.types[x.Obj]
		case x.Name == "iota" && x.Obj == nil:
			return strconv.Itoa(c.iota), "Z"
		case t.consts[x.Name] != nil: // package-level constant: defined once in the output
			old := c.iota
			c.iota = t.constIota[x.Name]
			v, ty := c.expr(t.consts[x.Name], "")
			c.iota = old
			if !t.constDone[x.Name] {
				t.constDone[x.Name] = true
				t.constDefs = append(t.constDefs, "Definition "+x.Name+" : "+ty+" := "+v+".")
			}
			return x.Name, ty
		case isMapLit(t.vars[x.Name]): // package-level map with a literal initialiser (never assigned by the listed functions): a constant
			v, ty := c.expr(t.vars[x.Name], "")
			if !t.constDone[x.Name] {
				t.constDone[x.Name] = true
				t.constDefs = append(t.constDefs, "Definition "+x.Name+" : "+ty+" := "+v+".")
			}
			return x.Name, ty
		case t.vars[x.Name] != nil: // package-level variable: a Section Variable typed by its initialiser
			ty := want
			if call, ok := t.vars[x.Name].(*ast.CallExpr); ok && nonNilError[t.src(call.Fun)] {
				ty = "option " + t.needOpaque("error_T")
			}
			if ty != "" {
				return t.svar(x.Name, ty, x), ty
			}
		}
	case *ast.SelectorExpr:
		if id, ok := x.X.(*ast.Ident); ok && id.Obj == nil && t.consts[id.Name+"_"+x.Sel.Name] != nil { // pkg.Const, from the hints
			return c.expr(&ast.Ident{Name: id.Name + "_" + x.Sel.Name, NamePos: x.Pos()}, want)
		}
		if v, ty := c.expr(x.X, ""); t.recs[ty] != nil {
			if fl := c.field(ty, x.Sel); fl != nil {
				return fl.coq + " " + paren(v), fl.typ
			}
			t.fail(x, "use of field %s.%s, which is not represented", ty, x.Sel.Name)
		}
	case *ast.UnaryExpr:
		switch x.Op {
		case token.NOT:
			v, _ := c.expr(x.X, "bool")
			return "negb " + paren(v), "bool"
		case token.SUB:
			v, _ := c.expr(x.X, "Z")
			return "- " + paren(v), "Z"
		case token.AND:
			if _, ok := x.X.(*ast.CompositeLit); ok {
				return c.expr(x.X, want)
			}
		}
	case *ast.BinaryExpr:
		return c.binary(x)
	case *ast.CompositeLit:
		return c.composite(x, want)
	case *ast.IndexExpr:
		if id, ok := x.Index.(*ast.Ident); ok && id.Obj != nil {
			if el, ok := c.elem[id.Obj]; ok && el[0] == t.src(x.X) { // xs[i] inside `for i := range xs`
				_, xt := c.expr(x.X, "")
				return el[1], unparen(strings.TrimPrefix(xt, "list "))
			}
		}
		m, mt := c.expr(x.X, "")
		if vt, look, _, ok := mapType(mt); ok {
			key, _ := c.expr(x.Index, "")
			return "odef " + t.zero(vt) + " (" + look + " " + paren(m) + " " + paren(key) + ")", vt
		}
		if strings.HasPrefix(mt, "list ") { // xs[k]: assumed in range (Go would panic); the zero value otherwise
			vt := unparen(strings.TrimPrefix(mt, "list "))
			k, _ := c.expr(x.Index, "Z")
			return "nth (Z.to_nat " + paren(k) + ") " + paren(m) + " " + paren(t.zero(vt)), vt
		}
	case *ast.SliceExpr:
		if v, ty := c.expr(x.X, want); strings.HasPrefix(ty, "list ") && !x.Slice3 {
			if x.High != nil {
				h, _ := c.expr(x.High, "Z")
				v = "slice_to " + paren(v) + " " + paren(h)
			}
			if x.Low != nil { // xs[a:b] = (xs[:b])[a:]
				l, _ := c.expr(x.Low, "Z")
				v = "slice_from " + paren(v) + " " + paren(l)
			}
			return v, ty
		}
	case *ast.CallExpr:
		return c.call(x, want)
	}
	t.fail(e, "expression %s", firstLine(t.src(e)))
	return "", ""
}

func (t *tr) isOpaque(ty string) bool {
	for _, o := range t.opaque {
		if o == ty {
			return true
		}
	}
	return false
}

// isDropped: a call the unit declares as not modelled (statistics, logging).
func (t *tr) isDropped(x *ast.CallExpr) bool {
	src := t.src(x.Fun)
	for _, p := range t.unit.drop {
		if strings.HasPrefix(src, p) {
			return true
		}
	}
	return false
}

// isConversion: T(x) where T is a type name (builtin, or a named type of the package / the hints that is not a struct).
func (c *fctx) isConversion(f ast.Expr) bool {
	switch x := f.(type) {
	case *ast.ArrayType: // []byte(s): a copy
		return x.Len == nil
	case *ast.Ident:
		if x.Obj != nil && c.names[x.Obj] != "" {
			return false
		}
		switch x.Name {
		case "int", "int8", "int16", "int32", "int64", "uint", "uint8", "uint16", "uint32", "uint64", "byte", "string":
			return true
		}
		return c.t.named[x.Name] != nil
	case *ast.SelectorExpr:
		id, ok := x.X.(*ast.Ident)
		if ok && id.Obj == nil && id.Name == "time" && (x.Sel.Name == "Duration") { // an integer number of nanoseconds
			return true
		}
		return ok && id.Obj == nil && c.t.named[id.Name+"_"+x.Sel.Name] != nil
	}
	return false
}

func isMapType(e ast.Expr) bool {
	_, ok := e.(*ast.MapType)
	return ok
}

func isMapLit(e ast.Expr) bool {
	cl, ok := e.(*ast.CompositeLit)
	if !ok {
		return false
	}
	_, ok = cl.Type.(*ast.MapType)
	return ok
}

func isLit(e ast.Expr) bool {
	_, ok := e.(*ast.BasicLit)
	return ok
}

func isNil(e ast.Expr) bool {
	id, ok := e.(*ast.Ident)
	return ok && id.Name == "nil"
}

func (c *fctx) binary(x *ast.BinaryExpr) (string, string) {
	t := c.t
	l, r := x.X, x.Y
	switch x.Op {
	case token.LAND, token.LOR:
		a, _ := c.expr(l, "bool")
		b, _ := c.expr(r, "bool")
		op := map[token.Token]string{token.LAND: " && ", token.LOR: " || "}[x.Op]
		return paren(a) + op + paren(b), "bool"
	case token.EQL, token.NEQ:
		if isNil(l) {
			l, r = r, l
		}
		if isNil(r) { // p != nil on a pointer / error
			v, ty := c.expr(l, "")
			if t.isOpaque(ty) { // a channel / interface value: nil-ness is a Section Variable
				isnil := t.svar(ty+"_is_nil", ty+" -> bool", x) + " " + paren(v)
				if x.Op == token.NEQ {
					return "negb (" + isnil + ")", "bool"
				}
				return isnil, "bool"
			}
			if !strings.HasPrefix(ty, "option ") {
				t.fail(x, "comparison with nil of a value of type %s", ty)
			}
			if x.Op == token.NEQ {
				return "isSome " + paren(v), "bool"
			}
			return "negb (isSome " + paren(v) + ")", "bool"
		}
		if isLit(l) && !isLit(r) { // literal on the right: a == "" and "" == a give the same text
			l, r = r, l
		}
		a, ta := c.expr(l, "")
		b, tb := c.expr(r, ta)
		eq := map[string]string{"Z": "Z.eqb", "string": "String.eqb", "bool": "Bool.eqb", "list Z": "bytes_eqb"}[ta]
		if eq == "" && t.isOpaque(ta) {
			eq = t.svar(ta+"_eqb", ta+" -> "+ta+" -> bool", x)
		}
		if eq == "" || ta != tb {
			t.fail(x, "comparison of %s with %s", ta, tb)
		}
		code := eq + " " + paren(a) + " " + paren(b)
		if x.Op == token.NEQ {
			code = "negb (" + code + ")"
		}
		return code, "bool"
	case token.LSS, token.LEQ, token.GTR, token.GEQ: // a > b is written b < a
		if x.Op == token.GTR || x.Op == token.GEQ {
			l, r = r, l
		}
		a, ta := c.expr(l, "Z")
		b, tb := c.expr(r, ta)
		strict := x.Op == token.LSS || x.Op == token.GTR
		switch {
		case ta == "Z" && tb == "Z" && strict:
			return "Z.ltb " + paren(a) + " " + paren(b), "bool"
		case ta == "Z" && tb == "Z":
			return "Z.leb " + paren(a) + " " + paren(b), "bool"
		case ta == "string" && tb == "string" && strict: // byte-wise lexicographic, as in Go
			return "String.ltb " + paren(a) + " " + paren(b), "bool"
		case ta == "string" && tb == "string":
			return "String.leb " + paren(a) + " " + paren(b), "bool"
		case ta == tb && t.isOpaque(ta): // ordered type parameter: one primitive, a < b is not (b <= a)
			leb := t.svar(ta+"_leb", ta+" -> "+ta+" -> bool", x)
			if strict {
				return "negb (" + leb + " " + paren(b) + " " + paren(a) + ")", "bool"
			}
			return leb + " " + paren(a) + " " + paren(b), "bool"
		}
		t.fail(x, "ordering of %s and %s", ta, tb)
	case token.ADD, token.SUB, token.MUL:
		a, ta := c.expr(l, "")
		b, tb := c.expr(r, ta)
		if ta == "string" && tb == "string" && x.Op == token.ADD {
			return "String.append " + paren(a) + " " + paren(b), "string"
		}
		if ta != "Z" || tb != "Z" {
			t.fail(x, "arithmetic on %s and %s", ta, tb)
		}
		return paren(a) + " " + x.Op.String() + " " + paren(b), "Z"
	}
	t.fail(x, "operator %s", x.Op)
	return "", ""
}

func (c *fctx) composite(x *ast.CompositeLit, want string) (string, string) {
	t := c.t
	if x.Type == nil {
		t.fail(x, "composite literal without a type")
	}
	ty := t.typ(x.Type)
	switch {
	case ty == "Z" && len(x.Elts) == 0: // time.Time{}
		return "0", "Z"
	case ty == "unit": // struct{}{}
		return "tt", "unit"
	case t.recs[ty] != nil:
		vals := map[string]string{}
		for _, el := range x.Elts {
			kv, ok := el.(*ast.KeyValueExpr)
			if !ok {
				t.fail(x, "struct literal without field names")
			}
			fl := c.field(ty, kv.Key.(*ast.Ident))
			if fl == nil {
				t.fail(kv, "use of field %s.%s, which is not represented", ty, t.src(kv.Key))
			}
			vals[fl.coq], _ = c.expr(kv.Value, fl.typ)
		}
		out := "mk_" + ty
		for _, fl := range t.recs[ty] {
			if v, ok := vals[fl.coq]; ok {
				out += " " + paren(v)
			} else {
				out += " " + t.zero(fl.typ)
			}
		}
		return out, ty
	case strings.HasPrefix(ty, "alist "), strings.HasPrefix(ty, "balist "):
		vt, _, _, _ := mapType(ty)
		var xs []string
		for _, e := range x.Elts {
			kv, ok := e.(*ast.KeyValueExpr)
			if !ok {
				t.fail(x, "map literal")
			}
			k, _ := c.expr(kv.Key, "")
			v, _ := c.expr(kv.Value, vt)
			xs = append(xs, "("+k+", "+v+")")
		}
		return "[" + strings.Join(xs, "; ") + "]", ty
	case strings.HasPrefix(ty, "list "):
		el := unparen(strings.TrimPrefix(ty, "list "))
		var xs []string
		for _, e := range x.Elts {
			v, _ := c.expr(e, el)
			xs = append(xs, v)
		}
		return "[" + strings.Join(xs, "; ") + "]", ty
	}
	t.fail(x, "composite literal %s", firstLine(t.src(x)))
	return "", ""
}

func (c *fctx) call(x *ast.CallExpr, want string) (string, string) {
	t := c.t
	if g, rcv := t.callee(x, c.typeOfIdent); g != nil {
		if !g.pure() {
			t.fail(x, "call of %s inside an expression (it modifies its receiver, has effects, may panic or has several results)", g.key)
		}
		return c.callCode(g, rcv, x)
	}
	name := t.src(x.Fun)
	arg := func(i int, want string) (string, string) { v, ty := c.expr(x.Args[i], want); return paren(v), ty }
	if id, ok := x.Fun.(*ast.Ident); ok && id.Obj != nil && c.lambdas[id.Obj] != "" { // a local function
		out := c.names[id.Obj]
		for i := range x.Args {
			v, _ := arg(i, "")
			out += " " + v
		}
		return out, c.lambdas[id.Obj]
	}
	switch {
	case t.unit.bytestr && (name == "strings.HasPrefix" || name == "strings.Index") && len(x.Args) == 2: // Lib/GoLib.v
		a, _ := arg(0, "list Z")
		b, _ := arg(1, "list Z")
		if name == "strings.Index" {
			return "bytes_index " + a + " " + b, "Z"
		}
		return "bytes_has_prefix " + a + " " + b, "bool"
	case t.unit.bytestr && name == "strings.IndexByte" && len(x.Args) == 2:
		a, _ := arg(0, "list Z")
		b, _ := arg(1, "Z")
		return "bytes_index_byte " + a + " " + b, "Z"
	case (name == "max" || name == "min") && len(x.Args) == 2:
		a, ta := arg(0, "Z")
		b, tb := arg(1, "Z")
		if ta == "Z" && tb == "Z" {
			return "Z." + name + " " + a + " " + b, "Z"
		}
	case name == "len" && len(x.Args) == 1:
		v, ty := arg(0, "")
		if ty == "string" {
			return "slen " + v, "Z"
		}
		return "zlen " + v, "Z"
	case len(x.Args) == 1 && c.isConversion(x.Fun): // T(x) between integer types, or between string types: the value
		v, ty := arg(0, "")
		if to := t.typ(x.Fun); to == ty {
			return v, ty
		}
		t.fail(x, "conversion %s", t.src(x))
	case name == "make" && len(x.Args) == 1: // make(map[string]T)
		if _, ok := x.Args[0].(*ast.MapType); ok {
			return "[]", t.typ(x.Args[0])
		}
		if _, ok := x.Args[0].(*ast.ChanType); ok && c.made == nil { // make(chan T): the channel this call of the function allocates
			c.made = x
			ty := t.typ(x.Args[0])
			return t.svar("make_"+ty, ty, x), ty
		}
	case name == "append" && len(x.Args) == 2:
		a, ta := arg(0, want)
		if x.Ellipsis.IsValid() {
			b, _ := arg(1, ta)
			return "app " + a + " " + b, ta
		}
		b, _ := arg(1, unparen(strings.TrimPrefix(ta, "list ")))
		return "app " + a + " [" + b + "]", ta
	case name == "make" && len(x.Args) == 2 && isMapType(x.Args[0]): // make(map[string]T, capacity)
		return "[]", t.typ(x.Args[0])
	case name == "make" && len(x.Args) == 2 && t.src(x.Args[1]) == "0": // make([]T, 0)
		if ty := t.typ(x.Args[0]); strings.HasPrefix(ty, "list ") {
			return "[]", ty
		}
	case name == "time.Now" && len(x.Args) == 0 && c.f.clk: // the explicit clock of the unit
		return "now_", "Z"
	case name == "time.Since" && len(x.Args) == 1 && c.f.clk:
		v, _ := arg(0, "Z")
		return "now_ - " + v, "Z"
	case name == "time.Now" && len(x.Args) == 0: // one clock reading per call of the translated function
		return t.svar("time_Now", "Z", x), "Z"
	case name == "time.Since" && len(x.Args) == 1:
		v, _ := arg(0, "Z")
		return t.svar("time_Now", "Z", x) + " - " + v, "Z"
	}
	if s, ok := x.Fun.(*ast.SelectorExpr); ok { // methods of time.Time / time.Duration values
		if id, isId := s.X.(*ast.Ident); !isId || id.Obj != nil {
			if v, ty := c.expr(s.X, ""); ty == "Z" {
				switch {
				case s.Sel.Name == "Nanoseconds" && len(x.Args) == 0:
					return v, "Z"
				case s.Sel.Name == "IsZero" && len(x.Args) == 0:
					return "Z.eqb " + paren(v) + " 0", "bool"
				case s.Sel.Name == "Sub" && len(x.Args) == 1: // saturation of Duration is not modelled
					b, _ := arg(0, "Z")
					return paren(v) + " - " + b, "Z"
				case s.Sel.Name == "Add" && len(x.Args) == 1:
					b, _ := arg(0, "Z")
					return paren(v) + " + " + b, "Z"
				case s.Sel.Name == "After" && len(x.Args) == 1:
					b, _ := arg(0, "Z")
					return "Z.ltb " + b + " " + paren(v), "bool"
				case s.Sel.Name == "Before" && len(x.Args) == 1:
					b, _ := arg(0, "Z")
					return "Z.ltb " + paren(v) + " " + b, "bool"
				}
			}
		}
	}
	// anything else: a Section Variable named after the callee, typed by the arguments and the context
	if c.isAction(x) {
		t.fail(x, "call %s inside an expression (calls through this field are traced: assign the result first)", t.src(x.Fun))
	}
	code, res, _ := c.foreign(x, want)
	if len(res) != 1 {
		t.fail(x, "call %s with %d results inside an expression", t.src(x.Fun), len(res))
	}
	return code, res[0]
}

// sigResults: result types of a declared signature.
func (t *tr) sigResults(ft *ast.FuncType) []string {
	var out []string
	if ft.Results != nil {
		for _, r := range ft.Results.List {
			n := len(r.Names)
			if n == 0 {
				n = 1
			}
			for i := 0; i < n; i++ {
				out = append(out, t.typ(r.Type))
			}
		}
	}
	return out
}

// methodSig: signature of method m of a value of (Gallina) type ty, from the package, the unit's hints or an interface.
func (t *tr) methodSig(ty, m string) *ast.FuncType {
	if d := t.decls[ty+"."+m]; d != nil {
		return d.Type
	}
	if it := t.ifaces[ty]; it != nil {
		for _, f := range it.Methods.List {
			if ft, ok := f.Type.(*ast.FuncType); ok && len(f.Names) == 1 && f.Names[0].Name == m {
				return ft
			}
		}
	}
	return nil
}

// foreign: a call of something that is not translated, as the application of a Section Variable named
// after the callee.  Returns the code, the result types and the name.  Result types come from the
// declaration (package, hints, interface) if there is one, else from a small table, else from the context.
func (c *fctx) foreign(x *ast.CallExpr, want string) (string, []string, string) {
	t := c.t
	name := t.src(x.Fun)
	var args, tys []string
	var res []string
	known := false
	coqName := ""
	switch f := x.Fun.(type) {
	case *ast.Ident:
		coqName = f.Name
		if d := t.decls[f.Name]; d != nil {
			res, known = t.sigResults(d.Type), true
		}
	case *ast.SelectorExpr:
		if id, ok := f.X.(*ast.Ident); ok && id.Obj == nil && t.consts[id.Name] == nil && t.vars[id.Name] == nil { // pkg.F
			coqName = id.Name + "_" + f.Sel.Name
			if d := t.decls[coqName]; d != nil {
				res, known = t.sigResults(d.Type), true
			} else if r, ok := libResult[name]; ok {
				res, known = []string{r}, true
			}
		} else { // method of a value that is not a listed receiver: the value is the first argument
			v, ty := c.expr(f.X, "")
			base := strings.TrimPrefix(ty, "option ")
			coqName = base + "_" + f.Sel.Name
			if strings.ContainsAny(coqName, " ()") {
				t.fail(x, "method call on a value of type %s", ty)
			}
			if ft := t.methodSig(base, f.Sel.Name); ft != nil {
				res, known = t.sigResults(ft), true
			}
			if t.unit.clock && t.recvMethod(x, c.f.recv) { // the outside world may answer differently at different times
				if !c.atStmt {
					t.fail(x, "call %s inside an expression (in a unit with a clock: assign the result first)", t.src(x.Fun))
				}
				args, tys = append(args, "now_"), append(tys, "Z")
			}
			args, tys = append(args, paren(v)), append(tys, paren(ty))
		}
	}
	if nonNilError[name] { // an opaque non-nil error identified by its first argument (the message / format)
		v, ty := c.expr(x.Args[0], "string")
		code := t.svar(coqName, ty+" -> "+t.needOpaque("error_T"), x) + " " + paren(v)
		return "Some (" + code + ")", []string{"option error_T"}, coqName
	}
	if !known && want != "" {
		res = []string{want}
	} else if !known {
		t.fail(x, "call %s (callee or result type not understood)", firstLine(t.src(x)))
	}
	for i := range x.Args {
		if sel, ok := x.Args[i].(*ast.SelectorExpr); ok { // f(x, pkg.G) with a function pkg.G: the Section variable f_pkg_G
			if id, ok := sel.X.(*ast.Ident); ok && id.Obj == nil && t.consts[id.Name+"_"+sel.Sel.Name] == nil && t.vars[id.Name] == nil && t.consts[id.Name] == nil {
				coqName += "_" + id.Name + "_" + sel.Sel.Name
				continue
			}
		}
		v, ty := c.expr(x.Args[i], "")
		args, tys = append(args, paren(v)), append(tys, paren(ty))
	}
	rt := "unit"
	if len(res) > 0 {
		rt = strings.Join(res, " * ")
	}
	if len(res) > 1 {
		rt = "(" + rt + ")"
	}
	code := strings.Join(append([]string{t.svar(coqName, strings.Join(append(tys, rt), " -> "), x)}, args...), " ")
	return code, res, coqName
}

// isAction: a method call through one of the receiver fields the unit lists in `actions`; such calls are
// recorded in the effect list in program order, in addition to returning a value.
func (c *fctx) isAction(x *ast.CallExpr) bool { return c.t.isAction(x, c.f.recv) }

func (t *tr) isAction(x *ast.CallExpr, recv *ast.Object) bool {
	sel, ok := x.Fun.(*ast.SelectorExpr)
	if !ok {
		return false
	}
	fs, ok := sel.X.(*ast.SelectorExpr)
	if !ok {
		return false
	}
	id, ok := fs.X.(*ast.Ident)
	if !ok || id.Obj == nil || id.Obj != recv {
		return false
	}
	for _, a := range t.unit.actions {
		if a == fs.Sel.Name {
			return true
		}
	}
	return false
}
