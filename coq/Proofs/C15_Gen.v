(* C15 — the source-derived isSQLSpace / isSQLIDChar / asciiLower / sqlToken / IsBreakingPragma
   (Gen/SqlToken.v, regenerated from db/state.go on every run) are the hand model's g_is_space,
   g_is_idchar, g_ascii_lower, g_token and — the statement theorem C15_guard_complete is about —
   `guard`: for enough fuel, IsBreakingPragma (zs text) = guard text.
   strings.TrimLeftFunc(s, unicode.IsSpace) is a Section variable of the generated file, instantiated
   with the model's go_trim_left (trim); BreakingPragmas is the generated map literal.
   Adapter.  The unit is translated with Go strings as byte lists (units.go `bytestr`: indexing,
   slicing, strings.HasPrefix / IndexByte / Index from Lib/GoLib.v); bytes are N in the model and Z in
   the generated file (zs); token kinds are the iota constants tkSpace..tkOther (kind_code).  sqlToken
   has general `for` loops, so the generated function is fuelled: with more fuel than the text has
   bytes it returns exactly (kind, length) of g_token.
   The loop lemmas (run_loop_spec, quote_loop_spec, var_loop_spec) state the body of each generated
   loop as an unfolding equation and prove its result by induction; an edit of a loop body needs the
   equation restated (see docs/gotrans.md, brittleness). *)
From Coq Require Import List String Bool NArith ZArith Lia ZifyBool ZifyN ZifyNat.
From RQ Require Import Lib.GoLib.
From RQ Require Import Lib.GenTac.
From RQ Require Import Model.C15_Sqlite.
From RQ Require Import Model.C15.
From RQ Require Import Gen.SqlToken.
Import ListNotations.
Local Open Scope Z_scope.

Definition zs (b : bytes) : list Z := map Z.of_N b.

Lemma zlen_zs : forall s, zlen (zs s) = Z.of_nat (List.length s).
Proof. intros. unfold zlen, zs. rewrite map_length. reflexivity. Qed.

Lemma nth_zs : forall s k, nth k (zs s) 0 = Z.of_N (nth k s 0%N).
Proof. intros s k. unfold zs. change 0 with (Z.of_N 0). apply map_nth. Qed.

Lemma skipn_zs : forall s k, slice_from (zs s) (Z.of_nat k) = zs (skipn k s).
Proof. intros. unfold slice_from, zs. rewrite Nat2Z.id. apply skipn_map. Qed.

(* comparisons of a byte with a constant *)
Lemma eqb_c : forall (c : N) (k : Z), 0 <= k -> Z.eqb (Z.of_N c) k = N.eqb c (Z.to_N k).
Proof. intros. destruct (Z.eqb_spec (Z.of_N c) k), (N.eqb_spec c (Z.to_N k)); try reflexivity; lia. Qed.
Lemma leb_cl : forall (c : N) (k : Z), 0 <= k -> Z.leb k (Z.of_N c) = N.leb (Z.to_N k) c.
Proof. intros. destruct (Z.leb_spec k (Z.of_N c)), (N.leb_spec (Z.to_N k) c); try reflexivity; lia. Qed.
Lemma leb_cr : forall (c : N) (k : Z), 0 <= k -> Z.leb (Z.of_N c) k = N.leb c (Z.to_N k).
Proof. intros. destruct (Z.leb_spec (Z.of_N c) k), (N.leb_spec c (Z.to_N k)); try reflexivity; lia. Qed.
Lemma eqb_nn : forall a b : N, Z.eqb (Z.of_N a) (Z.of_N b) = N.eqb a b.
Proof. intros. destruct (Z.eqb_spec (Z.of_N a) (Z.of_N b)), (N.eqb_spec a b); try reflexivity; lia. Qed.

Ltac n2z := rewrite ?eqb_nn, ?eqb_c, ?leb_cl, ?leb_cr by lia; cbn [Z.to_N].

Lemma space_zs : forall c, isSQLSpace (Z.of_N c) = g_is_space c.
Proof. intros. unfold isSQLSpace, g_is_space. n2z. reflexivity. Qed.

Lemma idchar_zs : forall c, isSQLIDChar (Z.of_N c) = g_is_idchar c.
Proof. intros. unfold isSQLIDChar, g_is_idchar. n2z. reflexivity. Qed.

Lemma has_prefix_zs : forall p s, bytes_has_prefix (zs s) (zs p) = g_has_prefix p s.
Proof.
  induction p as [|a p IH]; intros s; [destruct s; reflexivity|].
  destruct s as [|x s]; cbn [zs map bytes_has_prefix g_has_prefix]; [reflexivity|].
  rewrite eqb_nn. fold (zs s) (zs p). rewrite IH. reflexivity.
Qed.

Definition zopt (o : option nat) : Z := match o with Some n => Z.of_nat n | None => -1 end.

Lemma index_byte_zs : forall s c, bytes_index_byte (zs s) (Z.of_N c) = zopt (g_index_byte c s).
Proof.
  induction s as [|x s IH]; intros c; cbn [zs map bytes_index_byte g_index_byte]; [reflexivity|].
  rewrite eqb_nn. destruct (N.eqb x c); [reflexivity|].
  fold (zs s). rewrite IH. destruct (g_index_byte c s) as [n|]; cbn [zopt option_map].
  - replace (Z.ltb (Z.of_nat n) 0) with false by (symmetry; apply Z.ltb_ge; lia). lia.
  - reflexivity.
Qed.

Lemma bytes_index_eq : forall s sub,
  bytes_index s sub = if bytes_has_prefix s sub then 0
                      else match s with [] => -1 | _ :: r => let k := bytes_index r sub in if Z.ltb k 0 then -1 else k + 1 end.
Proof. destruct s; reflexivity. Qed.

Lemma index2_zs : forall s a b, bytes_index (zs s) (zs [a; b]) = zopt (g_index2 a b s).
Proof.
  induction s as [|x s IH]; intros a b; [reflexivity|].
  cbn [g_index2]. rewrite bytes_index_eq, has_prefix_zs. cbn [g_has_prefix].
  destruct s as [|y s'].
  - rewrite andb_false_r. reflexivity.
  - rewrite andb_true_r, (N.eqb_sym a x), (N.eqb_sym b y).
    destruct ((x =? a)%N && (y =? b)%N); [reflexivity|].
    change (zs (x :: y :: s')) with (Z.of_N x :: zs (y :: s')). cbv iota zeta. rewrite IH.
    destruct (g_index2 a b (y :: s')) as [n|]; cbn [zopt option_map].
    + replace (Z.ltb (Z.of_nat n) 0) with false by (symmetry; apply Z.ltb_ge; lia). lia.
    + reflexivity.
Qed.

Definition kind_code (k : gkind) : Z :=
  match k with TkSpace => 0 | TkWord => 1 | TkQuoted => 2 | TkSemi => 3 | TkDot => 4 | TkEq => 5 | TkLP => 6 | TkOther => 7 end.

Lemma nth_mid : forall (pre suf : bytes) x, nth (List.length pre) (pre ++ x :: suf) 0%N = x.
Proof. intros. rewrite app_nth2, Nat.sub_diag by lia. reflexivity. Qed.

Lemma len_mid : forall (pre suf : bytes) x, (List.length pre < List.length (pre ++ x :: suf))%nat.
Proof. intros. rewrite app_length. cbn. lia. Qed.

Section Loops.
  Variable R : Type.
  Variable s : bytes.

  (* for ; n < len(s) && p(s[n]); n++ {}  followed by K n *)
  Lemma run_loop_spec : forall (p : N -> bool) (pz : Z -> bool) (K : Z -> option R) (L : nat -> Z -> option R),
    (forall c, pz (Z.of_N c) = p c) ->
    (forall f n, L (S f) n = if (Z.ltb n (zlen (zs s))) && pz (nth (Z.to_nat n) (zs s) 0) then L f (n + 1) else K n) ->
    forall suf pre f, s = pre ++ suf -> (List.length suf < f)%nat ->
      L f (Z.of_nat (List.length pre)) = K (Z.of_nat (List.length pre + g_run p suf)).
  Proof.
    intros p pz K L Hp HL. induction suf as [|x suf IH]; intros pre f Hs Hf; (destruct f as [|f]; [lia|]); rewrite HL, zlen_zs, Nat2Z.id, nth_zs.
    - subst s. rewrite app_nil_r, Z.ltb_irrefl. cbn [andb g_run]. rewrite Nat.add_0_r. reflexivity.
    - subst s. rewrite nth_mid, Hp. cbn [g_run].
      replace (Z.ltb (Z.of_nat (List.length pre)) (Z.of_nat (List.length (pre ++ x :: suf)))) with true
        by (symmetry; apply Z.ltb_lt; pose proof (len_mid pre suf x); lia).
      cbn [andb]. destruct (p x).
      + specialize (IH (pre ++ [x]) f). rewrite <- app_assoc in IH. cbn [app] in IH.
        rewrite app_length in IH. cbn [List.length] in IH.
        replace (Z.of_nat (List.length pre) + 1) with (Z.of_nat (List.length pre + 1)) by lia.
        rewrite IH by (try reflexivity; cbn in Hf; lia). f_equal. lia.
      + rewrite Nat.add_0_r. reflexivity.
  Qed.
End Loops.

Lemma lt_len_true : forall (pre suf : bytes) x,
  Z.ltb (Z.of_nat (List.length pre)) (Z.of_nat (List.length (pre ++ x :: suf))) = true.
Proof. intros. apply Z.ltb_lt. pose proof (len_mid pre suf x). lia. Qed.

Section Loops2.
  Variable s : bytes.

  (* the quote loop *)
  Lemma quote_loop_spec : forall (c : N) (L : nat -> Z -> option (Z * Z)),
    (forall f n, L (S f) n =
       if Z.ltb n (zlen (zs s)) then
         if Z.eqb (nth (Z.to_nat n) (zs s) 0) (Z.of_N c) then
           if (Z.ltb (n + 1) (zlen (zs s))) && (Z.eqb (nth (Z.to_nat (n + 1)) (zs s) 0) (Z.of_N c))
           then L f (n + 1 + 1) else Some (tkQuoted, n + 1)
         else L f (n + 1)
       else Some (tkOther, n)) ->
    forall f suf pre, s = pre ++ suf -> (List.length suf < f)%nat ->
      L f (Z.of_nat (List.length pre)) =
        Some (if fst (g_quote_loop c suf) then tkQuoted else tkOther, Z.of_nat (List.length pre + snd (g_quote_loop c suf))).
  Proof.
    intros c L HL. induction f as [|f IH]; intros suf pre Hs Hf; [lia|].
    rewrite HL, zlen_zs, Nat2Z.id, nth_zs. destruct suf as [|x r].
    - subst s. rewrite app_nil_r, Z.ltb_irrefl. cbn. rewrite Nat.add_0_r. reflexivity.
    - subst s. rewrite lt_len_true, nth_mid, eqb_nn. cbn [g_quote_loop].
      destruct (N.eqb x c).
      + replace (Z.to_nat (Z.of_nat (List.length pre) + 1)) with (List.length (pre ++ [x])) by (rewrite app_length; cbn; lia).
        destruct r as [|y r'].
        * replace (Z.ltb (Z.of_nat (List.length pre) + 1) (Z.of_nat (List.length (pre ++ [x])))) with false
            by (symmetry; apply Z.ltb_ge; rewrite app_length; cbn; lia).
          cbn. do 2 f_equal. lia.
        * replace (pre ++ x :: y :: r') with ((pre ++ [x]) ++ y :: r') by (rewrite <- app_assoc; reflexivity).
          replace (Z.of_nat (List.length pre) + 1) with (Z.of_nat (List.length (pre ++ [x]))) by (rewrite app_length; cbn; lia).
          rewrite lt_len_true, nth_zs, nth_mid, eqb_nn. cbn [andb].
          destruct (N.eqb y c).
          -- specialize (IH r' ((pre ++ [x]) ++ [y])). rewrite <- !app_assoc in IH. cbn [app] in IH.
             replace (Z.of_nat (List.length (pre ++ [x])) + 1) with (Z.of_nat (List.length (pre ++ [x; y])))
               by (rewrite !app_length; cbn; lia).
             rewrite IH by (try reflexivity; cbn in Hf; lia).
             destruct (g_quote_loop c r') as [t k]. cbn [fst snd]. do 2 f_equal. rewrite !app_length. cbn. lia.
          -- cbn. do 2 f_equal. rewrite app_length. cbn. lia.
      + specialize (IH r (pre ++ [x])). rewrite <- app_assoc in IH. cbn [app] in IH.
        replace (Z.of_nat (List.length pre) + 1) with (Z.of_nat (List.length (pre ++ [x]))) by (rewrite app_length; cbn; lia).
        rewrite IH by (try reflexivity; cbn in Hf; lia).
        destruct (g_quote_loop c r) as [t k]. cbn [fst snd]. do 2 f_equal. rewrite app_length. cbn. lia.
  Qed.
End Loops2.

Lemma skipn_case : forall (k : nat) (r : bytes),
  (k < List.length r)%nat /\ (exists t, skipn k r = nth k r 0%N :: t) \/ (List.length r <= k)%nat /\ skipn k r = [].
Proof.
  induction k as [|k IH]; intros r; destruct r as [|y r]; cbn [skipn nth List.length].
  - right. split; [lia|reflexivity].
  - left. split; [lia|eexists; reflexivity].
  - right. split; [lia|reflexivity].
  - destruct (IH r) as [[H [t Ht]]|[H Ht]]; [left; split; [lia|exists t; exact Ht]|right; split; [lia|exact Ht]].
Qed.

Section Loops3.
  Variable s : bytes.

  Definition close_p (b : N) : bool := negb (g_is_space b) && negb (N.eqb b 41).

  Lemma var_loop_spec : forall (L : nat -> Z -> Z -> option (Z * Z)) (I : nat -> Z -> option (Z * Z)),
    (forall f n, I (S f) n =
       if ((Z.ltb n (zlen (zs s))) && (negb (isSQLSpace (nth (Z.to_nat n) (zs s) 0)))) && (negb (Z.eqb (nth (Z.to_nat n) (zs s) 0) 41))
       then I f (n + 1)
       else if (Z.ltb n (zlen (zs s))) && (Z.eqb (nth (Z.to_nat n) (zs s) 0) 41) then Some (tkOther, n + 1) else Some (tkOther, n)) ->
    (forall f n ids, L (S f) n ids =
       if Z.ltb n (zlen (zs s)) then
         if isSQLIDChar (nth (Z.to_nat n) (zs s) 0) then L f (n + 1) (ids + 1)
         else if (Z.eqb (nth (Z.to_nat n) (zs s) 0) 40) && (Z.ltb 0 ids) then I f (n + 1)
         else if bytes_has_prefix (slice_from (zs s) n) [58; 58] then L f (n + 1 + 1) ids
         else Some (tkOther, n)
       else Some (tkOther, n)) ->
    forall f suf pre ids, s = pre ++ suf -> (List.length suf < f)%nat -> 0 <= ids ->
      L f (Z.of_nat (List.length pre)) ids = Some (tkOther, Z.of_nat (List.length pre + g_var_loop (Z.ltb 0 ids) suf)).
  Proof.
    intros L I HI HL.
    assert (Hinner : forall suf pre f, s = pre ++ suf -> (List.length suf < f)%nat ->
      I f (Z.of_nat (List.length pre)) =
        Some (tkOther, Z.of_nat (List.length pre +
          let k := g_run close_p suf in match skipn k suf with y :: _ => if N.eqb y 41 then S k else k | [] => k end))).
    { intros suf pre f Hs Hf.
      rewrite (run_loop_spec _ s close_p (fun z => negb (isSQLSpace z) && negb (Z.eqb z 41))
                 (fun n => if (Z.ltb n (zlen (zs s))) && (Z.eqb (nth (Z.to_nat n) (zs s) 0) 41) then Some (tkOther, n + 1) else Some (tkOther, n))
                 I) with (suf := suf); try assumption.
      - cbv zeta. set (k := g_run close_p suf). rewrite zlen_zs, Nat2Z.id, nth_zs. subst s.
        rewrite app_nth2, app_length by lia. replace (List.length pre + k - List.length pre)%nat with k by lia.
        rewrite eqb_c by lia. cbn [Z.to_N].
        destruct (skipn_case k suf) as [[H [t Ht]]|[H Ht]]; rewrite Ht.
        + replace (Z.ltb (Z.of_nat (List.length pre + k)) (Z.of_nat (List.length pre + List.length suf))) with true
            by (symmetry; apply Z.ltb_lt; lia).
          cbn [andb]. destruct (N.eqb (nth k suf 0%N) 41); do 2 f_equal; lia.
        + replace (Z.ltb (Z.of_nat (List.length pre + k)) (Z.of_nat (List.length pre + List.length suf))) with false
            by (symmetry; apply Z.ltb_ge; lia).
          reflexivity.
      - intros c. unfold close_p. rewrite space_zs, eqb_c by lia. reflexivity.
      - intros f0 n. rewrite HI, <- andb_assoc. reflexivity. }
    induction f as [|f IH]; intros suf pre ids Hs Hf Hids; [lia|].
    rewrite HL, zlen_zs, Nat2Z.id, nth_zs. destruct suf as [|x r].
    - subst s. rewrite app_nil_r, Z.ltb_irrefl. cbn. rewrite Nat.add_0_r. reflexivity.
    - pose proof Hs as Hs'. subst s. rewrite lt_len_true, nth_mid, idchar_zs. cbn [g_var_loop].
      destruct (g_is_idchar x).
      + specialize (IH r (pre ++ [x]) (ids + 1)). rewrite <- app_assoc in IH. cbn [app] in IH.
        replace (Z.of_nat (List.length pre) + 1) with (Z.of_nat (List.length (pre ++ [x]))) by (rewrite app_length; cbn; lia).
        rewrite IH by (try reflexivity; cbn in Hf; lia).
        replace (Z.ltb 0 (ids + 1)) with true by (symmetry; apply Z.ltb_lt; lia).
        do 2 f_equal. rewrite app_length. cbn. lia.
      + rewrite eqb_c by lia. cbn [Z.to_N]. destruct ((x =? 40)%N && (0 <? ids)) eqn:Ep.
        * specialize (Hinner r (pre ++ [x]) f). rewrite <- app_assoc in Hinner. cbn [app] in Hinner.
          replace (Z.of_nat (List.length pre) + 1) with (Z.of_nat (List.length (pre ++ [x]))) by (rewrite app_length; cbn; lia).
          rewrite Hinner by (try reflexivity; cbn in Hf; lia). cbv zeta. fold close_p.
          set (k := g_run close_p r). do 2 f_equal. rewrite app_length. cbn [List.length].
          destruct (skipn k r) as [|y t]; [lia|]. destruct (N.eqb y 41); lia.
        * replace (slice_from (zs (pre ++ x :: r)) (Z.of_nat (List.length pre))) with (zs (x :: r))
            by (rewrite skipn_zs, skipn_app, skipn_all, Nat.sub_diag; reflexivity).
          change [58; 58] with (zs [58; 58]%N). rewrite has_prefix_zs.
          destruct (g_has_prefix [58%N; 58%N] (x :: r)) eqn:Eh.
          -- destruct r as [|y r']; [cbn in Eh; rewrite andb_false_r in Eh; discriminate|].
             specialize (IH r' (pre ++ [x; y]) ids). rewrite <- app_assoc in IH. cbn [app] in IH.
             replace (Z.of_nat (List.length pre) + 1 + 1) with (Z.of_nat (List.length (pre ++ [x; y]))) by (rewrite app_length; cbn; lia).
             rewrite IH by (try reflexivity; cbn in Hf; lia).
             do 2 f_equal. rewrite app_length. cbn. lia.
          -- rewrite Nat.add_0_r. reflexivity.
  Qed.
End Loops3.

Arguments sqlToken _ _ : assert.

Lemma zopt_lt0 : forall o, Z.ltb (zopt o) 0 = match o with Some _ => false | None => true end.
Proof. intros [n|]; cbn [zopt]; [apply Z.ltb_ge; lia|reflexivity]. Qed.

Lemma ltb_nat_c : forall (k : Z) (n : nat), 0 <= k -> Z.ltb k (Z.of_nat n) = Nat.ltb (Z.to_nat k) n.
Proof. intros. destruct (Z.ltb_spec k (Z.of_nat n)), (Nat.ltb_spec (Z.to_nat k) n); try reflexivity; lia. Qed.

(* The top of sqlToken is a chain of tests on the first byte.  Rather than following the chain in
   the order of the source, the proof decides one atomic test at a time, on whichever side still has
   an undecided `if`, so the order of the cases and of the operands of && / || does not matter. *)
Ltac left_atom b :=
  lazymatch b with
  | ?x && _ => left_atom x
  | ?x || _ => left_atom x
  | negb ?x => left_atom x
  | match ?o with Some _ => _ | None => _ end => o
  | _ => b
  end.
Ltac decide_atom b := let a := left_atom b in let E := fresh "E" in destruct a eqn:E; cbn [andb orb negb zopt].
Ltac step_lhs := lazymatch goal with |- (if ?b then _ else _) = _ => decide_atom b end.
Ltac step_rhs :=
  lazymatch goal with
  | |- _ = ?rhs => lazymatch rhs with
                   | context [if ?b then _ else _] => decide_atom b
                   | context [match ?o with Some _ => _ | None => _ end] => let E := fresh "E" in destruct o eqn:E
                   | context [let '(_, _) := ?p in _] => let E := fresh "E" in destruct p eqn:E
                   end
  end.
(* contradictory decisions about the first byte *)
Ltac byte_facts :=
  repeat match goal with
         | H : (_ =? _)%N = true |- _ => apply N.eqb_eq in H
         | H : (_ =? _)%N = false |- _ => apply N.eqb_neq in H
         end;
  subst; try discriminate; try congruence;
  try (match goal with H : _ = true |- _ => vm_compute in H; discriminate H | H : _ = false |- _ => vm_compute in H; discriminate H end).

Theorem gen_sqlToken_eq : forall (s : bytes) (fuel : nat), s <> [] -> (List.length s < fuel)%nat ->
  sqlToken (zs s) fuel = Some (kind_code (fst (g_token s)), Z.of_nat (snd (g_token s))).
Proof.
  intros s fuel Hne Hf. destruct s as [|c r]; [congruence|]. clear Hne.
  assert (Hs : c :: r = [c] ++ r) by reflexivity.
  assert (Hf' : (List.length r < fuel)%nat) by (cbn in Hf; lia).
  unfold sqlToken, g_token. aux.
  change (nth (Z.to_nat 0) (zs (c :: r)) 0) with (Z.of_N c).
  change (nth (Z.to_nat 1) (zs (c :: r)) 0) with (nth 1 (zs (c :: r)) 0).
  cbv zeta.
  rewrite ?space_zs, ?idchar_zs, ?nth_zs.
  repeat match goal with
         | |- context [bytes_has_prefix (zs (c :: r)) ?l] =>
             let l' := eval cbv in (map Z.to_N l) in change l with (zs l'); rewrite has_prefix_zs
         | |- context [bytes_index_byte ?t ?k] =>
             lazymatch k with Z.of_N _ => fail | _ => let k' := eval cbv in (Z.to_N k) in change (bytes_index_byte t k) with (bytes_index_byte t (Z.of_N k')) end
         | |- context [bytes_index ?t ?l] =>
             lazymatch l with zs _ => fail | _ => let l' := eval cbv in (map Z.to_N l) in change (bytes_index t l) with (bytes_index t (zs l')) end
         | |- context [slice_from (zs (c :: r)) ?k] =>
             lazymatch k with Z.of_nat _ => fail | _ => let k' := eval cbv in (Z.to_nat k) in change (slice_from (zs (c :: r)) k) with (slice_from (zs (c :: r)) (Z.of_nat k')) end
         end.
  rewrite ?skipn_zs, ?index_byte_zs, ?index2_zs, ?zopt_lt0, !zlen_zs.
  rewrite ?ltb_nat_c by lia. n2z. cbn [Z.to_nat Pos.to_nat Pos.iter_op Nat.add].
  repeat step_lhs;
  (* every leaf: a result, or one of the four loops entered at n = 1 *)
  try (change 1 with (Z.of_nat (List.length [c]));
       first
         [ erewrite (run_loop_spec _ (c :: r) g_is_space isSQLSpace) with (suf := r);
             [|exact space_zs|intros; rewrite zlen_zs; reflexivity|exact Hs|exact Hf']
         | erewrite (run_loop_spec _ (c :: r) g_is_idchar isSQLIDChar) with (suf := r);
             [|exact idchar_zs|intros; rewrite zlen_zs; reflexivity|exact Hs|exact Hf']
         | erewrite (quote_loop_spec (c :: r) c) with (suf := r); [|intros; rewrite zlen_zs; reflexivity|exact Hs|exact Hf']
         | erewrite (var_loop_spec (c :: r)) with (suf := r); cycle 2;
             [intros ? ? ?; rewrite zlen_zs; reflexivity|exact Hs|exact Hf'|lia| |intros ? ?; rewrite zlen_zs; reflexivity] ]);
  cbv beta;
  repeat step_rhs;
  cbn [fst snd kind_code zopt];
  first [reflexivity | (do 2 f_equal; clear; lia) | solve [byte_facts] | (exfalso; lia)].
Qed.

(* ------------------------------------------------------------------ IsBreakingPragma *)
From RQ Require Import Proofs.C15_Token.
From RQ Require Import Proofs.C15.

Definition ns (l : list Z) : bytes := map Z.to_N l.
Lemma ns_zs : forall b, ns (zs b) = b.
Proof. induction b as [|x b IH]; cbn; [reflexivity|]. rewrite N2Z.id. f_equal. exact IH. Qed.

Lemma zs_if : forall (b : bool) (x y : bytes), (if b then zs x else zs y) = zs (if b then x else y).
Proof. intros [] x y; reflexivity. Qed.

Lemma firstn_zs : forall s k, slice_to (zs s) (Z.of_nat k) = zs (firstn k s).
Proof. intros. unfold slice_to, zs. rewrite Nat2Z.id. apply firstn_map. Qed.

Lemma bytes_eqb_zs : forall a b, GoLib.bytes_eqb (zs a) (zs b) = C15_Sqlite.bytes_eqb a b.
Proof.
  induction a as [|x a IH]; intros [|y b]; cbn [zs map GoLib.bytes_eqb C15_Sqlite.bytes_eqb]; try reflexivity.
  rewrite eqb_nn. fold (zs a) (zs b). rewrite IH. reflexivity.
Qed.

Lemma cstring_zs : forall t,
  (let i := bytes_index_byte (zs t) 0 in if Z.leb 0 i then slice_to (zs t) i else zs t) = zs (cstring t).
Proof.
  induction t as [|x t IH]; [reflexivity|]. cbv zeta in *. cbn [zs map bytes_index_byte cstring].
  rewrite eqb_c by lia. cbn [Z.to_N]. destruct (N.eqb x 0); [reflexivity|].
  fold (zs t). destruct (Z.ltb (bytes_index_byte (zs t) 0) 0) eqn:E.
  - replace (Z.leb 0 (bytes_index_byte (zs t) 0)) with false in IH by (symmetry; apply Z.leb_gt; apply Z.ltb_lt; exact E).
    cbn. fold (zs t) (zs (cstring t)). rewrite <- IH. reflexivity.
  - apply Z.ltb_ge in E.
    replace (Z.leb 0 (bytes_index_byte (zs t) 0)) with true in IH by (symmetry; apply Z.leb_le; lia).
    replace (Z.leb 0 (bytes_index_byte (zs t) 0 + 1)) with true by (symmetry; apply Z.leb_le; lia).
    unfold slice_to in *. replace (Z.to_nat (bytes_index_byte (zs t) 0 + 1)) with (S (Z.to_nat (bytes_index_byte (zs t) 0))) by lia.
    cbn [firstn map]. fold (zs t) (zs (cstring t)). rewrite IH. reflexivity.
Qed.

Lemma list_set_mid : forall (A : Type) (a b : list A) (x v : A),
  list_set (a ++ x :: b) (Z.of_nat (List.length a)) v = a ++ v :: b.
Proof.
  intros A a b x v. unfold list_set. rewrite Nat2Z.id. induction a as [|y a IH]; cbn; [reflexivity|]. rewrite IH. reflexivity.
Qed.

Definition lower_z (z : Z) : Z := if (Z.leb 65 z) && (Z.leb z 90) then z + 97 - 65 else z.

Lemma asciiLower_map : forall l, asciiLower l = map lower_z l.
Proof.
  intros l. unfold asciiLower. cbv zeta.
  lazymatch goal with |- ?lhs = _ => lazymatch lhs with ?F ?a0 ?b0 ?c0 => pose (LOOP := F) end end.
  enough (H : forall suf done, LOOP suf (Z.of_nat (List.length done)) (done ++ suf) = done ++ map lower_z suf) by exact (H l []).
  induction suf as [|x suf IH]; intros done.
  - reflexivity.
  - unfold LOOP; fold LOOP. unfold lower_z at 1. cbn [map].
    specialize (IH (done ++ [if (Z.leb 65 x) && (Z.leb x 90) then x + 97 - 65 else x])).
    rewrite app_length, Nat2Z.inj_add in IH. cbn [List.length Z.of_nat] in IH. change (Z.pos (Pos.of_succ_nat 0)) with 1 in IH.
    rewrite <- !app_assoc in IH. cbn [app] in IH.
    destruct ((Z.leb 65 x) && (Z.leb x 90)); [rewrite list_set_mid|]; exact IH.
Qed.

Lemma asciiLower_zs : forall t, asciiLower (zs t) = zs (g_ascii_lower t).
Proof.
  intros t. rewrite asciiLower_map. unfold zs, g_ascii_lower. rewrite !map_map. apply map_ext. intros x.
  unfold lower_z. n2z. destruct ((65 <=? x)%N && (x <=? 90)%N) eqn:E; [|reflexivity].
  apply andb_prop in E. destruct E as [E1 E2]. apply N.leb_le in E1. lia.
Qed.

Lemma blookup_zs : forall (m : list (bytes * bool)) k,
  blookup (map (fun p => (zs (fst p), snd p)) m) (zs k) = map_lookup m k.
Proof.
  induction m as [|[k' v] m IH]; intros k; cbn [map blookup map_lookup fst snd]; [reflexivity|].
  rewrite bytes_eqb_zs. destruct (C15_Sqlite.bytes_eqb k' k); [reflexivity|apply IH].
Qed.

Lemma pragmas_zs : BreakingPragmas = map (fun p => (zs (fst p), snd p)) breaking_pragmas.
Proof. reflexivity. Qed.

Lemma inner_zs : forall tok,
  slice_from (slice_to (zs tok) (zlen (zs tok) - 1)) 1 = zs (g_inner tok).
Proof.
  intros tok. destruct tok as [|a tok]; [reflexivity|]. rewrite zlen_zs. unfold g_inner.
  replace (Z.of_nat (List.length (a :: tok)) - 1) with (Z.of_nat (List.length (a :: tok) - 1)) by (cbn [List.length]; lia).
  rewrite firstn_zs. change 1 with (Z.of_nat 1). rewrite skipn_zs. f_equal.
  destruct tok as [|b t]; [reflexivity|].
  rewrite firstn_skipn_comm. f_equal. f_equal. cbn [List.length]. lia.
Qed.

Definition scode (g : gstate) : Z :=
  match g with AtStart => 0 | AtExplain => 1 | AtPragma => 2 | AtName => 3 | AtDot => 4 | AtName2 => 5 | AtRest => 6 end.

Lemma scode_eqb : forall a b, Z.eqb (scode a) (scode b) = gstate_eqb a b.
Proof. intros [] []; reflexivity. Qed.
Lemma kcode_eqb : forall a b, Z.eqb (kind_code a) (kind_code b) = gkind_eqb a b.
Proof. intros [] []; reflexivity. Qed.

Lemma sc0 g : Z.eqb (scode g) 0 = gstate_eqb g AtStart. Proof. destruct g; reflexivity. Qed.
Lemma sc1 g : Z.eqb (scode g) 1 = gstate_eqb g AtExplain. Proof. destruct g; reflexivity. Qed.
Lemma sc2 g : Z.eqb (scode g) 2 = gstate_eqb g AtPragma. Proof. destruct g; reflexivity. Qed.
Lemma sc3 g : Z.eqb (scode g) 3 = gstate_eqb g AtName. Proof. destruct g; reflexivity. Qed.
Lemma sc4 g : Z.eqb (scode g) 4 = gstate_eqb g AtDot. Proof. destruct g; reflexivity. Qed.
Lemma sc5 g : Z.eqb (scode g) 5 = gstate_eqb g AtName2. Proof. destruct g; reflexivity. Qed.
Lemma sc6 g : Z.eqb (scode g) 6 = gstate_eqb g AtRest. Proof. destruct g; reflexivity. Qed.
Lemma kc_space k : Z.eqb (kind_code k) tkSpace = gkind_eqb k TkSpace. Proof. destruct k; reflexivity. Qed.
Lemma kc_word k : Z.eqb (kind_code k) tkWord = gkind_eqb k TkWord. Proof. destruct k; reflexivity. Qed.
Lemma kc_quoted k : Z.eqb (kind_code k) tkQuoted = gkind_eqb k TkQuoted. Proof. destruct k; reflexivity. Qed.
Lemma kc_semi k : Z.eqb (kind_code k) tkSemi = gkind_eqb k TkSemi. Proof. destruct k; reflexivity. Qed.
Lemma kc_dot k : Z.eqb (kind_code k) tkDot = gkind_eqb k TkDot. Proof. destruct k; reflexivity. Qed.
Lemma kc_eq k : Z.eqb (kind_code k) tkEq = gkind_eqb k TkEq. Proof. destruct k; reflexivity. Qed.
Lemma kc_lp k : Z.eqb (kind_code k) tkLP = gkind_eqb k TkLP. Proof. destruct k; reflexivity. Qed.
Lemma kc_other k : Z.eqb (kind_code k) tkOther = gkind_eqb k TkOther. Proof. destruct k; reflexivity. Qed.
Ltac codes := rewrite ?sc0, ?sc1, ?sc2, ?sc3, ?sc4, ?sc5, ?sc6, ?kc_space, ?kc_word, ?kc_quoted, ?kc_semi, ?kc_dot, ?kc_eq, ?kc_lp, ?kc_other.

Definition trim (z : list Z) : list Z := zs (go_trim_left (ns z)).

Arguments IsBreakingPragma strings_TrimLeftFunc_unicode_IsSpace _ _ : assert.

Lemma g_loop_S : forall f g b s,
  g_loop (S f) g b s =
    let s := if gstate_eqb g AtStart then go_trim_left s else s in
    match s with
    | [] => Some false
    | _ :: _ => let '(kind, n) := g_token s in
                match g_switch g b kind (firstn n s) with
                | GReturn r => Some r
                | GNext g' b' => g_loop f g' b' (skipn n s)
                end
    end.
Proof. reflexivity. Qed.

Theorem gen_IsBreakingPragma_loop : forall text fuel, (List.length text + 1 < fuel)%nat ->
  IsBreakingPragma trim (zs text) fuel = g_loop fuel AtStart false (cstring text).
Proof.
  intros text fuel Hf. unfold IsBreakingPragma. aux.
  pose proof (cstring_zs text) as Hc. cbv zeta in Hc |- *. rewrite Hc. clear Hc.
  assert (Hl : (List.length (cstring text) + 1 < fuel)%nat).
  { assert (List.length (cstring text) <= List.length text)%nat; [|lia].
    clear. induction text as [|x t IH]; cbn; [lia|]. destruct (x =? 0)%N; cbn; lia. }
  lazymatch goal with |- ?lhs = _ => lazymatch lhs with ?F ?a0 ?b0 ?c0 ?d0 => pose (LOOP := F) end end.
  enough (H : forall f s g b, (List.length s + 1 < f)%nat -> LOOP f (zs s) (scode g) b = g_loop f g b s)
    by exact (H fuel (cstring text) AtStart false Hl).
  clear. induction f as [|f IH]; intros s g b Hl; [lia|].
  rewrite g_loop_S. unfold LOOP; fold LOOP. cbv zeta.
  rewrite !sc0. unfold trim. rewrite ns_zs, zs_if.
  assert (Hle : (List.length (if gstate_eqb g AtStart then go_trim_left s else s) <= List.length s)%nat)
    by (destruct (gstate_eqb g AtStart); [apply (trim_le _ _ (le_n _))|lia]).
  destruct (if gstate_eqb g AtStart then go_trim_left s else s) as [|c r] eqn:Es; [reflexivity|].
  assert (Hle' : (List.length (c :: r) <= List.length s)%nat) by (rewrite <- Es; exact Hle).
  change (GoLib.bytes_eqb (zs (c :: r)) []) with false. cbv iota.
  rewrite gen_sqlToken_eq by (try discriminate; lia).
  destruct (tok_sim (c :: r) ltac:(discriminate)) as (t0 & rest & _ & _ & _ & Hn).
  destruct (g_token (c :: r)) as [kind n]. cbn [fst snd] in *.
  rewrite ?firstn_zs, ?skipn_zs. codes.
  rewrite ?inner_zs, ?zs_if, ?asciiLower_zs, pragmas_zs, ?blookup_zs.
  repeat match goal with
         | |- context [GoLib.bytes_eqb (zs ?x) ?l] =>
             lazymatch l with zs _ => fail | _ => let l' := eval cbv in (map Z.to_N l) in change (GoLib.bytes_eqb (zs x) l) with (GoLib.bytes_eqb (zs x) (zs l')) end
         end.
  rewrite ?bytes_eqb_zs.
  unfold g_switch, g_is_keyword.
  repeat match goal with |- context [bytes_of_string ?w] => let v := eval vm_compute in (bytes_of_string w) in change (bytes_of_string w) with v end.
  assert (IH' : forall s' sc b' g', sc = scode g' -> (List.length s' + 1 < f)%nat -> LOOP f (zs s') sc b' = g_loop f g' b' s')
    by (intros; subst; apply IH; assumption).
  assert (Hrest : (List.length (skipn n (c :: r)) + 1 < f)%nat) by (rewrite skipn_length; lia).
  clear IH Hl Hle Hle' Es Hn.
  repeat step_lhs; repeat step_rhs;
  first [ reflexivity
        | apply IH'; [reflexivity|exact Hrest]
        | (destruct kind; try discriminate; destruct g; try discriminate; fail) ].
Qed.

Theorem gen_IsBreakingPragma_eq : forall text fuel, (List.length text + 1 < fuel)%nat ->
  IsBreakingPragma trim (zs text) fuel = guard text.
Proof.
  intros text fuel Hf. rewrite gen_IsBreakingPragma_loop by exact Hf. unfold guard. cbv zeta.
  assert (Hl : (List.length (cstring text) <= List.length text)%nat).
  { clear. induction text as [|x t IH]; cbn; [lia|]. destruct (x =? 0)%N; cbn; lia. }
  revert Hl. generalize (cstring text) as s. intros s Hl.
  assert (H : forall f1 f2 g b (s : bytes), (List.length s < f1)%nat -> (List.length s < f2)%nat -> g_loop f1 g b s = g_loop f2 g b s).
  { clear. induction f1 as [|f1 IH]; intros f2 g b s H1 H2; [lia|]. destruct f2 as [|f2]; [lia|].
    rewrite !g_loop_S. cbv zeta.
    assert (Hle : (List.length (if gstate_eqb g AtStart then go_trim_left s else s) <= List.length s)%nat)
      by (destruct (gstate_eqb g AtStart); [apply (trim_le _ _ (le_n _))|lia]).
    destruct (if gstate_eqb g AtStart then go_trim_left s else s) as [|c r] eqn:Es; [reflexivity|].
    assert (Hle' : (List.length (c :: r) <= List.length s)%nat) by (rewrite <- Es; exact Hle).
    destruct (tok_sim (c :: r) ltac:(discriminate)) as (t0 & rest & _ & _ & _ & Hn).
    destruct (g_token (c :: r)) as [kind n]. cbn [fst snd] in *.
    destruct (g_switch g b kind (firstn n (c :: r))); [reflexivity|].
    apply IH; rewrite skipn_length; lia. }
  apply H; lia.
Qed.
