(* C23 — specification (from the property text) and proofs about Model.C23. *)
From Coq Require Import List NArith ZArith Bool Lia Sorted.
From Coq Require Import ZifyBool ZifyNat ZifyN.
From RQ Require Import Model.C24 Proofs.C24 Model.C23.
Import ListNotations.

(* ------------------------------------------------------------------ specification side *)

(* requests accepted on the queued-write path: the Write calls before Service.Close closes the queue *)
Fixpoint accepted23 (l : list act) : list (list N * option N) :=
  match l with
  | [] => []
  | SClose :: _ => []
  | HWrite o f :: r => (o, f) :: accepted23 r
  | _ :: r => accepted23 r
  end.

(* the statements that reached the store, in order, retries included *)
Definition applied_raw (cs : list (list N * outcome)) : list N :=
  flat_map (fun x => if applies (snd x) then fst x else []) cs.

Fixpoint times (n : nat) (o : list N) : list N := match n with O => [] | S k => o ++ times k o end.

(* a run-length log: each entry is one request's statements and how many times in a row it was applied *)
Definition expand (rl : list (list N * nat)) : list N := flat_map (fun x => times (snd x) (fst x)) rl.

Definition nonempty (o : list N) : bool := match o with [] => false | _ => true end.

(* the run-length log of a state: closed requests, then the current one if it reached the store already *)
Definition rl (s : st) : list (list N * nat) :=
  rl_done s ++ match cur s with
               | Some b => if (0 <? cur_n s)%nat then [(b_objs b, cur_n s)] else []
               | None => []
               end.

(* statements accepted but not yet applied *)
Definition pending (s : st) : list N :=
  match cur s with Some b => if (0 <? cur_n s)%nat then [] else b_objs b | None => [] end
  ++ flat_map q_objs (in_flight (q s)).

(* ------------------------------------------------------------------ the queue part is a C24 run *)

Definition proj (a : act) : list action :=
  match a with
  | HWrite o f => [AWrite o f]
  | QTake => [ATake] | QTimer => [ATimer] | QExit => [AExit] | SClose => [AClose]
  | RRecv => [AConsume] | RFinish => [AReqClose]
  | RExec _ => [] | RStop => []
  end.

Lemma run_from_app : forall c l1 l2 s,
  run_from c s (l1 ++ l2) = match run_from c s l1 with Some s1 => run_from c s1 l2 | None => None end.
Proof.
  intros c l1. induction l1 as [|a l1 IH]; intros l2 s; cbn; [reflexivity|].
  destruct (step c s a); [apply IH|reflexivity].
Qed.

Lemma lift_q : forall c s a s', lift c s a = Some s' -> step c (q s) a = Some (q s').
Proof. intros c s a s' H. unfold lift in H. destruct (step c (q s) a); inversion H; reflexivity. Qed.

Lemma step23_proj : forall c s a s', step23 c s a = Some s' -> run_from c (q s) (proj a) = Some (q s').
Proof.
  intros c s a s' H. destruct a; cbn [step23 proj] in *;
    try (apply lift_q in H; cbn [run_from]; rewrite H; reflexivity).
  - destruct (stopped s); [discriminate|]. destruct (cur s); [discriminate|]. destruct (slot (q s)); [|discriminate].
    destruct (step c (q s) AConsume) eqn:E; [|discriminate]. inversion H; subst. cbn [run_from]. rewrite E. reflexivity.
  - destruct (stopped s); [discriminate|]. destruct (cur s); [|discriminate].
    destruct (cur_ok s || negb (has_stmts b)); [discriminate|]. inversion H; subst. reflexivity.
  - destruct (stopped s); [discriminate|]. destruct (cur s); [|discriminate].
    destruct (cur_ok s || negb (has_stmts b)); [|discriminate].
    destruct (step c (q s) AReqClose) eqn:E; [|discriminate]. inversion H; subst. cbn [run_from]. rewrite E. reflexivity.
  - destruct (cur s); [destruct (cur_ok s || negb (has_stmts b)); [discriminate|]|]; inversion H; subst; reflexivity.
Qed.

Lemma run23_proj : forall c l s s', run23_from c s l = Some s' ->
  run_from c (q s) (flat_map proj l) = Some (q s').
Proof.
  intros c l. induction l as [|a l IH]; intros s s' H; cbn in H.
  - inversion H; subst. reflexivity.
  - destruct (step23 c s a) as [s1|] eqn:E; [|discriminate]. cbn [flat_map]. rewrite run_from_app.
    rewrite (step23_proj c s a s1 E). apply IH. exact H.
Qed.

Lemma accepted_proj : forall l, accepted (flat_map proj l) = accepted23 l.
Proof.
  induction l as [|a l IH]; [reflexivity|]. destruct a; cbn [flat_map proj app accepted accepted23]; try rewrite IH; reflexivity.
Qed.

Lemma queue_reachable : forall c l s, run23 c l = Some s ->
  run c (flat_map proj l) = Some (q s) /\ accepted (flat_map proj l) = accepted23 l.
Proof. intros c l s H. split; [exact (run23_proj c l (init23 c) s H)|apply accepted_proj]. Qed.

(* ------------------------------------------------------------------ invariant *)

Record Inv23 (c : cfg) (s : st) : Prop := {
  K_q : Inv c (q s);
  K_none : cur s = None -> nclosed (q s) = length (out (q s)) /\ cur_n s = 0%nat /\ cur_ok s = false;
  K_some : forall b, cur s = Some b ->
             nth_error (out (q s)) (nclosed (q s)) = Some b /\ length (out (q s)) = S (nclosed (q s));
  K_raw : applied_raw (calls s) = expand (rl s);
  K_done : map fst (rl_done s) = filter nonempty (map b_objs (firstn (nclosed (q s)) (out (q s))));
  K_cnt : Forall (fun x => (1 <= snd x)%nat) (rl_done s);
  K_ok : forall b, cur s = Some b -> cur_ok s = true -> In (b_objs b, OOk) (calls s) /\ (0 < cur_n s)%nat;
  K_empty : forall b, cur s = Some b -> has_stmts b = false -> cur_n s = 0%nat;
  K_closed : forall b, In b (firstn (nclosed (q s)) (out (q s))) -> has_stmts b = false \/ In (b_objs b, OOk) (calls s)
}.

Lemma write_fn_out : forall s ch qq ar, out (write_fn s ch qq ar) = out s /\ nclosed (write_fn s ch qq ar) = nclosed s.
Proof. intros. unfold write_fn. destruct (merge qq); [destruct (slot s)|]; auto. Qed.

(* the producer / loop / Close steps of the queue do not touch what the consumer has received or closed *)
Lemma step_out_same : forall c s a s', step c s a = Some s' -> a <> AConsume -> a <> AReqClose ->
  out s' = out s /\ nclosed s' = nclosed s.
Proof.
  intros c s a s' H H1 H2. destruct a; cbn [step] in H; try congruence.
  - destruct (done s); [inversion H; subst; auto|]. destruct (Nat.ltb _ _); inversion H; subst; auto.
  - destruct (Nat.ltb _ _); inversion H; subst; auto.
  - destruct (loop_free s); [|discriminate]. destruct (chan s) as [|[w|] r]; [discriminate| |].
    + destruct (Nat.eqb _ _); inversion H; subst; [apply write_fn_out|auto].
    + inversion H; subst. apply write_fn_out.
  - destruct (loop_free s && armed s); inversion H; subst. apply write_fn_out.
  - inversion H; subst; auto.
  - destruct (done s && loop_free s); inversion H; subst; auto.
Qed.

Lemma times_comm : forall n o, o ++ times n o = times n o ++ o.
Proof. induction n as [|n IH]; intros o; cbn [times]; [rewrite app_nil_r; reflexivity|]. rewrite <- app_assoc, <- IH. reflexivity. Qed.

Lemma applied_raw_app : forall a b, applied_raw (a ++ b) = applied_raw a ++ applied_raw b.
Proof. intros. unfold applied_raw. apply flat_map_app. Qed.

Lemma expand_app : forall a b, expand (a ++ b) = expand a ++ expand b.
Proof. intros. unfold expand. apply flat_map_app. Qed.

Lemma inv23_init : forall c, (0 < batchSize c)%nat -> Inv23 c (init23 c).
Proof.
  intros c Hb. constructor; cbn; auto; try discriminate.
  all: try (apply inv_init; exact Hb).
  all: try (intros b []).
Qed.

Lemma inv23_lift : forall c s a s', (0 < batchSize c)%nat -> Inv23 c s -> lift c s a = Some s' ->
  a <> AConsume -> a <> AReqClose -> Inv23 c s'.
Proof.
  intros c s a s' Hb I H H1 H2. unfold lift in H. destruct (step c (q s) a) as [q'|] eqn:E; [|discriminate].
  inversion H; subst; clear H. destruct (step_out_same c (q s) a q' E H1 H2) as [Ho Hn].
  destruct I as [Kq Kn Ks Kr Kd Kc Kok Ke Kcl].
  constructor; unfold with_q, rl in *; cbn [q cur cur_n cur_ok calls rl_done stopped] in *; try rewrite Ho; try rewrite Hn; auto.
  eapply step_inv; eauto.
Qed.

Lemma filter_map_snoc : forall (l : list batch) b,
  filter nonempty (map b_objs (l ++ [b])) =
  filter nonempty (map b_objs l) ++ (if has_stmts b then [b_objs b] else []).
Proof.
  intros l b. rewrite map_app, filter_app. cbn. unfold has_stmts, nonempty. destruct (b_objs b); reflexivity.
Qed.

Lemma step23_inv : forall c s a s', (0 < batchSize c)%nat -> Inv23 c s -> step23 c s a = Some s' -> Inv23 c s'.
Proof.
  intros c s a s' Hb I H. destruct a; cbn [step23] in H;
    try (eapply inv23_lift; eauto; discriminate).
  - (* RRecv *)
    destruct (stopped s); [discriminate|]. destruct (cur s) eqn:Hc; [discriminate|].
    destruct (slot (q s)) as [b|] eqn:Hsl; [|discriminate].
    destruct (step c (q s) AConsume) as [q'|] eqn:E; [|discriminate]. inversion H; subst; clear H.
    destruct I as [Kq Kn Ks Kr Kd Kc Kok Ke Kcl]. unfold rl in *. rewrite Hc in *. destruct (Kn eq_refl) as (Hn & Hcn & Hco).
    assert (Hq' : out q' = out (q s) ++ [b] /\ nclosed q' = nclosed (q s)).
    { cbn [step] in E. rewrite Hsl in E. inversion E; subst. cbn. auto. }
    destruct Hq' as [Ho Hncl].
    assert (Hfn : firstn (nclosed (q s)) (out (q s) ++ [b]) = firstn (nclosed (q s)) (out (q s))).
    { rewrite firstn_app. replace (nclosed (q s) - length (out (q s)))%nat with 0%nat by lia. cbn. apply app_nil_r. }
    constructor; unfold rl in *; cbn [q cur cur_n cur_ok calls rl_done stopped] in *; try rewrite Ho; try rewrite Hncl; try rewrite Hfn; auto.
    + eapply step_inv; eauto.
    + discriminate.
    + intros b0 Hb0. inversion Hb0; subst. rewrite Hn. split.
      * rewrite nth_error_app2 by lia. rewrite Nat.sub_diag. reflexivity.
      * rewrite app_length. cbn. lia.
    + intros b0 _ X. discriminate X.
  - (* RExec *)
    destruct (stopped s); [discriminate|]. destruct (cur s) as [b|] eqn:Hc; [|discriminate].
    destruct (cur_ok s || negb (has_stmts b)) eqn:Hg; [discriminate|]. inversion H; subst; clear H.
    apply orb_false_iff in Hg as [Hok Hst]. apply negb_false_iff in Hst.
    destruct I as [Kq Kn Ks Kr Kd Kc Kok Ke Kcl]. unfold rl in *. rewrite Hc in *.
    constructor; unfold rl in *; cbn [q cur cur_n cur_ok calls rl_done stopped] in *; auto.
    + discriminate.
    + rewrite applied_raw_app, Kr. cbn [applied_raw flat_map snd fst]. rewrite app_nil_r.
      destruct (applies o) eqn:Ha.
      * rewrite !expand_app. destruct (cur_n s) as [|n] eqn:Hn; cbn.
        -- rewrite !app_nil_r. reflexivity.
        -- rewrite !app_nil_r, <- !app_assoc. do 2 f_equal. symmetry. apply times_comm.
      * rewrite app_nil_r. reflexivity.
    + intros b0 Hb0 Hio. inversion Hb0; subst. destruct o; try discriminate. split.
      * apply in_or_app. right. left. reflexivity.
      * cbn. lia.
    + intros b0 Hb0 He. inversion Hb0; subst. congruence.
    + intros b0 Hb0. destruct (Kcl b0 Hb0) as [Hl|Hr]; [left; exact Hl|right; apply in_or_app; left; exact Hr].
  - (* RFinish *)
    destruct (stopped s); [discriminate|]. destruct (cur s) as [b|] eqn:Hc; [|discriminate].
    destruct (cur_ok s || negb (has_stmts b)) eqn:Hg; [|discriminate].
    destruct (step c (q s) AReqClose) as [q'|] eqn:E; [|discriminate]. inversion H; subst; clear H.
    destruct I as [Kq Kn Ks Kr Kd Kc Kok Ke Kcl]. unfold rl in *. rewrite Hc in *. destruct (Ks b eq_refl) as [Hnth Hlen].
    assert (Hq' : out q' = out (q s) /\ nclosed q' = S (nclosed (q s))).
    { cbn [step] in E. rewrite Hnth in E. inversion E; subst. cbn. auto. }
    destruct Hq' as [Ho Hncl].
    assert (Hcase : (has_stmts b = true /\ cur_ok s = true) \/ has_stmts b = false).
    { destruct (has_stmts b); [left|right; reflexivity]. split; [reflexivity|]. destruct (cur_ok s); [reflexivity|discriminate]. }
    constructor; unfold rl in *; cbn [q cur cur_n cur_ok calls rl_done stopped] in *; try rewrite Ho; try rewrite Hncl; auto; try discriminate.
    + eapply step_inv; eauto.
    + rewrite Kr, app_nil_r. destruct Hcase as [[Hs Hk]|Hs]; rewrite Hs.
      * destruct (Kok b eq_refl Hk) as [_ Hpos]. destruct (cur_n s); [lia|]. reflexivity.
      * rewrite (Ke b eq_refl Hs). cbn. rewrite app_nil_r. reflexivity.
    + rewrite (firstn_S_nth _ _ _ _ Hnth), filter_map_snoc. destruct (has_stmts b).
      * rewrite map_app, Kd. reflexivity.
      * rewrite app_nil_r. exact Kd.
    + destruct Hcase as [[Hs Hk]|Hs]; rewrite Hs; [|exact Kc].
      apply Forall_app. split; [exact Kc|]. constructor; [|constructor]. cbn. destruct (Kok b eq_refl Hk). lia.
    + intros b0 Hb0. rewrite (firstn_S_nth _ _ _ _ Hnth) in Hb0. apply in_app_or in Hb0 as [Hb0|[<-|[]]]; [auto|].
      destruct Hcase as [[Hs Hk]|Hs]; [right|left; exact Hs]. apply (Kok b eq_refl Hk).
  - (* RStop *)
    destruct I as [Kq Kn Ks Kr Kd Kc Kok Ke Kcl]. unfold rl in *.
    destruct (cur s) as [b|] eqn:Hc.
    + destruct (cur_ok s || negb (has_stmts b)); [discriminate|]. inversion H; subst; clear H.
      constructor; unfold rl; cbn [q cur cur_n cur_ok calls rl_done stopped] in *; try rewrite Hc; auto.
    + inversion H; subst; clear H.
      constructor; unfold rl; cbn [q cur cur_n cur_ok calls rl_done stopped] in *; try rewrite Hc; auto.
Qed.

Lemma run23_from_inv : forall c l s s', (0 < batchSize c)%nat -> Inv23 c s -> run23_from c s l = Some s' -> Inv23 c s'.
Proof.
  intros c l. induction l as [|a l IH]; intros s s' Hb I H; cbn in H.
  - inversion H; subst. exact I.
  - destruct (step23 c s a) as [s1|] eqn:E; [|discriminate].
    exact (IH s1 s' Hb (step23_inv c s a s1 Hb I E) H).
Qed.

Lemma run23_inv : forall c l s, (0 < batchSize c)%nat -> run23 c l = Some s -> Inv23 c s.
Proof. intros c l s Hb H. exact (run23_from_inv c l (init23 c) s Hb (inv23_init c Hb) H). Qed.

(* ------------------------------------------------------------------ the property *)

Lemma concat_filter_nonempty : forall (l : list (list N)), concat (filter nonempty l) = concat l.
Proof. induction l as [|x l IH]; [reflexivity|]. destruct x; cbn; [exact IH|]. rewrite IH. reflexivity. Qed.

Lemma flat_map_concat_map : forall (bs : list batch), flat_map b_objs bs = concat (map b_objs bs).
Proof. induction bs as [|b bs IH]; [reflexivity|]. cbn. rewrite IH. reflexivity. Qed.

Section Property.
Variable c : cfg.
Hypothesis Hbs : (0 < batchSize c)%nat.

(* Applied in acceptance order, requests whole, nothing dropped:
   - what reached the store is a run-length log expanded: each entry's statements applied 1 or more times in a row
     (more than once only when an attempt failed after applying);
   - the entries are exactly the first k requests delivered by the queue that have statements, in order;
   - the entries followed by what is still pending are the accepted statements in acceptance order. *)
Lemma applied_in_order : forall l s, run23 c l = Some s ->
  applied_raw (calls s) = expand (rl s) /\
  Forall (fun x => (1 <= snd x)%nat) (rl s) /\
  (exists k, map fst (rl s) = filter nonempty (map b_objs (firstn k (out (q s))))) /\
  concat (map fst (rl s)) ++ pending s = flat_map fst (accepted23 l).
Proof.
  intros l s H. pose proof (run23_inv c l s Hbs H) as I. destruct (queue_reachable c l s H) as [Hq Hacc].
  destruct I as [Kq Kn Ks Kr Kd Kc Kok Ke Kcl].
  destruct (fifo_lossless_unsplit c Hbs _ _ Hq) as [_ Hobj]. rewrite Hacc in Hobj.
  split; [exact Kr|]. unfold rl, pending in *.
  destruct (cur s) as [b|] eqn:Hc.
  - destruct (Ks b eq_refl) as [Hnth Hlen].
    assert (Hout : out (q s) = firstn (nclosed (q s)) (out (q s)) ++ [b]).
    { rewrite <- (firstn_S_nth _ _ _ _ Hnth). rewrite <- Hlen. symmetry. apply firstn_all. }
    destruct (0 <? cur_n s)%nat eqn:Hpos.
    + assert (Hst : has_stmts b = true).
      { destruct (has_stmts b) eqn:E; [reflexivity|]. rewrite (Ke b eq_refl E) in Hpos. discriminate. }
      split; [|split].
      * apply Forall_app. split; [exact Kc|]. constructor; [cbn; lia|constructor].
      * exists (S (nclosed (q s))). rewrite (firstn_S_nth _ _ _ _ Hnth), filter_map_snoc, Hst, map_app, Kd. reflexivity.
      * rewrite <- Hobj. rewrite Hout at 1. rewrite flat_map_concat_map, !map_app, !concat_app, Kd, concat_filter_nonempty.
        cbn. rewrite ?app_nil_r, <- ?app_assoc. reflexivity.
    + split; [|split].
      * rewrite app_nil_r. exact Kc.
      * exists (nclosed (q s)). rewrite app_nil_r. exact Kd.
      * rewrite <- Hobj. rewrite Hout at 1. rewrite flat_map_concat_map, !map_app, !concat_app, Kd, concat_filter_nonempty.
        cbn. rewrite ?app_nil_r, <- ?app_assoc. reflexivity.
  - destruct (Kn eq_refl) as (Hn & _ & _). split; [|split].
    + rewrite app_nil_r. exact Kc.
    + exists (nclosed (q s)). rewrite app_nil_r. exact Kd.
    + rewrite <- Hobj. rewrite app_nil_r, Kd, concat_filter_nonempty. rewrite Hn, firstn_all, flat_map_concat_map. reflexivity.
Qed.

(* the requests runQueue receives are whole accepted writes, in sequence-number order (C24 applied to the queue part) *)
Lemma requests_are_whole_writes_in_order : forall l s, run23 c l = Some s ->
  members (out (q s)) ++ in_flight (q s) = number (seq0 c) (accepted23 l) /\
  Forall (batch_ok c) (out (q s)) /\
  StronglySorted Z.lt (map b_seq (out (q s))).
Proof.
  intros l s H. destruct (queue_reachable c l s H) as [Hq Hacc].
  destruct (fifo_lossless_unsplit c Hbs _ _ Hq) as [Hm _]. unfold spec_writes in Hm. rewrite Hacc in Hm.
  pose proof (every_batch_ok c Hbs _ _ Hq) as Hok. unfold batches in Hok. apply Forall_app in Hok as [Hok _].
  destruct (seq_increasing c Hbs _ _ Hq) as [Hs _]. unfold batches in Hs. rewrite map_app in Hs.
  apply sorted_app_inv in Hs as [Hs _]. auto.
Qed.

(* a `wait` request is released (its flush channel closed) only after an Execute call carrying the whole
   request that contains its statements returned without error *)
Lemma wait_returns_after_apply : forall l s cid, run23 c l = Some s -> In cid (closedch (q s)) ->
  exists b w, In b (out (q s)) /\ In w (b_ws b) /\ q_fc w = Some cid /\
              (b_objs b = [] \/ In (b_objs b, OOk) (calls s)).
Proof.
  intros l s cid H Hin. pose proof (run23_inv c l s Hbs H) as I. destruct (queue_reachable c l s H) as [Hq _].
  apply (flush_only_with_batch c Hbs _ _ cid Hq) in Hin as (b & w & Hb & Hw & Hfc).
  exists b, w. repeat split; auto.
  - eapply firstn_in; eauto.
  - destruct (K_closed c s I b Hb) as [He|Hok]; [left|right; exact Hok].
    unfold has_stmts in He. destruct (b_objs b); [reflexivity|discriminate].
Qed.

(* a request is closed (and the next one taken) only after it was executed successfully: none is skipped *)
Lemma closed_requests_were_applied : forall l s b, run23 c l = Some s ->
  In b (firstn (nclosed (q s)) (out (q s))) -> b_objs b = [] \/ In (b_objs b, OOk) (calls s).
Proof.
  intros l s b H Hb. destruct (K_closed c s (run23_inv c l s Hbs H) b Hb) as [He|Hok]; [left|right; exact Hok].
  unfold has_stmts in He. destruct (b_objs b); [reflexivity|discriminate].
Qed.

End Property.

(* ------------------------------------------------------------------ concrete instance *)
Definition ex23_cfg := {| maxSize := 8; batchSize := 2; timed := true; seq0 := 1000%Z |}.
Definition ex23_l :=
  [HWrite [1; 2]%N (Some 1%N); QTake; HWrite [3]%N None; QTake; RRecv;
   RExec ONoLeader; RExec OErrApplied; HWrite [4]%N None; QTake; RExec OOk; RFinish;
   QTimer; RRecv; RExec OOk; HWrite [5]%N (Some 5%N); QTake].

Example ex23_run : exists s, run23 ex23_cfg ex23_l = Some s /\
  calls s = [([1; 2; 3]%N, ONoLeader); ([1; 2; 3]%N, OErrApplied); ([1; 2; 3]%N, OOk); ([4]%N, OOk)] /\
  applied_raw (calls s) = [1; 2; 3; 1; 2; 3; 4]%N /\
  rl s = [([1; 2; 3]%N, 2%nat); ([4]%N, 1%nat)] /\ pending s = [5%N] /\ closedch (q s) = [1%N].
Proof. eexists. split; [vm_compute; reflexivity|]. vm_compute. repeat split. Qed.
