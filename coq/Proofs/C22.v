From Coq Require Import List NArith Arith Bool Lia.
From RQ Require Import Model.C04 Proofs.C04 Model.C22.
Import ListNotations.
Open Scope N_scope.

(* ---- specification, from the property text ----
   the database of the cluster: a write overrides the cells it names; a successful load (file or SQL text)
   or boot installs the loaded database; everything else -- snapshots, restarts, joins, rejected loads, a boot
   refused because the cluster has several nodes -- changes nothing.  The number of nodes is tracked because
   a boot is only accepted by a single-node cluster. *)
Definition cspec_step (x : cells * nat) (o : cop) (res : N) : cells * nat :=
  let '(d, k) := x in
  match o with
  | CWrite ks v => (apply_frames d (map (fun q => (q, v)) ks), k)
  | CLoad c => (cells_of_vec c, k)
  | CLoadSQL c => (apply_frames d (sql_frames c), k)
  | CBoot c => if (res =? 0) then (cells_of_vec c, k) else (d, k)    (* a refused boot changes nothing *)
  | CJoin => (d, S k)
  | _ => (d, k)
  end.
(* model and specification side by side; the specification only takes each operation's result code from the
   model (the driver compares the codes with the real ones) *)
Definition cboth_step (x : cluster * (cells * nat)) (o : cop) : cluster * (cells * nat) :=
  let '(c, y) := x in let '(c', res) := cstep c o in (c', cspec_step y o res).
Definition cboth (ops : list cop) : cluster * (cells * nat) := fold_left cboth_step ops (cinit, ([], 1%nat)).
Definition cspec (ops : list cop) : cells * nat := snd (cboth ops).

(* a node holds the database d, and so does what a restart of it, or a transfer of its newest snapshot and
   log suffix to another node, rebuilds *)
Definition node_ok (d : cells) (s : st) : Prop :=
  cells_eq (live s) d /\ exists r, rebuilt s = Some r /\ cells_eq r d.

(* ---- cluster invariant ---- *)
Definition good (d : cells) (l : list entry) (s : st) : Prop := Inv s /\ cells_eq (live s) d /\ log s = l.

Record CInv (c : cluster) (d : cells) (k : nat) : Prop := {
  ci_len : length (nodes c) = k;
  ci_leader : exists L r, nodes c = L :: r;
  ci_nodes : forall L r, nodes c = L :: r -> Forall (good d (log L)) (nodes c);
  ci_log : forall L r, nodes c = L :: r -> compacted c = false -> cells_eq (replay (log L) []) d;
  ci_snap : forall L r, nodes c = L :: r -> compacted c = true -> snaps L <> [];
}.

Lemma good_node_ok d l s : good d l s -> node_ok d s.
Proof.
  intros ((r & Hr & _ & H3 & _) & Hl & _). split; [exact Hl|].
  exists (replay (suffix s) r). unfold rebuilt. rewrite Hr. split; [reflexivity|].
  eapply cells_eq_trans; [exact H3 | exact Hl].
Qed.

(* the log and the snapshots of a node after one of its own steps *)
Lemma begin_log s : log (fst (snap_begin true s)) = log s.
Proof.
  unfold snap_begin. destruct (pending s); [reflexivity|]. destruct (full_due s); [reflexivity|].
  destruct (wal s); reflexivity.
Qed.
Lemma begin_snaps s : snaps (fst (snap_begin true s)) = snaps s.
Proof.
  unfold snap_begin. destruct (pending s); [reflexivity|]. destruct (full_due s); [reflexivity|].
  destruct (wal s); reflexivity.
Qed.
Lemma blocked_log s : log (fst (snap_blocked s)) = log s.
Proof.
  unfold snap_blocked. destruct (pending s); [reflexivity|]. destruct (full_due s); [reflexivity|].
  destruct (wal s); reflexivity.
Qed.
Lemma blocked_snaps s : snaps (fst (snap_blocked s)) = snaps s.
Proof.
  unfold snap_blocked. destruct (pending s); [reflexivity|]. destruct (full_due s); [reflexivity|].
  destruct (wal s); reflexivity.
Qed.
Lemma persist_log s o : log (fst (snap_persist true s o)) = log s.
Proof.
  unfold snap_persist. destruct (pending s) as [[i img sw|i sw]|]; [| |reflexivity].
  - destruct o; cbn [andb was_swapped]; destruct sw; cbn; try reflexivity; destruct (staging s); reflexivity.
  - destruct o; cbn [andb was_swapped]; [destruct (full_needed (set_pending s None))| | |]; destruct sw; reflexivity.
Qed.
Lemma persist_snaps s o : snaps s <> [] -> snaps (fst (snap_persist true s o)) <> [].
Proof.
  intros H. unfold snap_persist. destruct (pending s) as [[i img sw|i sw]|]; [| |exact H].
  - destruct o; cbn [andb was_swapped]; destruct sw; cbn; try exact H; try discriminate; destruct (staging s); exact H.
  - destruct o; cbn [andb was_swapped]; [destruct (full_needed (set_pending s None))| | |]; destruct sw; cbn; try exact H; discriminate.
Qed.
(* a snapshot persisted with result 0 and outcome ok is visible *)
Lemma persist_ok_nonempty s : snd (snap_persist true s POk) = 0 -> snaps (fst (snap_persist true s POk)) <> [].
Proof.
  unfold snap_persist. destruct (pending s) as [[i img sw|i sw]|]; [| |cbn; discriminate].
  - cbn [andb was_swapped]. destruct sw; cbn; discriminate.
  - cbn [andb was_swapped]. destruct (full_needed (set_pending s None)); destruct sw; cbn; discriminate.
Qed.

Lemma restart_log s : log (fst (step s ORestart)) = log s.
Proof.
  unfold step, step_gen. destruct (restored s) as [r|]; [|reflexivity]. cbn [fst].
  destruct (phys_fold (suffix s) (set_pending (set_mnewer (set_staging (set_dbf s r []) []) false) None) eq_refl) as (_ & H & _). exact H.
Qed.

Lemma restart_snaps s : snaps (fst (step s ORestart)) = snaps s.
Proof.
  unfold step, step_gen. destruct (restored s) as [r|]; [|reflexivity]. cbn [fst].
  destruct (phys_fold (suffix s) (set_pending (set_mnewer (set_staging (set_dbf s r []) []) false) None) eq_refl) as (H & _). exact H.
Qed.

(* the operations one node performs on its own: nothing of the log, nothing of the applied database changes *)
Inductive local_op : op -> Prop :=
| lo_begin : local_op OSnapBegin
| lo_persist o : local_op (OSnapPersist o)
| lo_blocked : local_op OSnapBlocked
| lo_restart : local_op ORestart.

Lemma local_log s o : local_op o -> log (fst (step s o)) = log s.
Proof.
  intros [ |out| | ].
  - unfold step, step_gen. apply begin_log.
  - unfold step, step_gen. apply persist_log.
  - unfold step, step_gen. apply blocked_log.
  - apply restart_log.
Qed.

Lemma local_snaps s o : local_op o -> snaps s <> [] -> snaps (fst (step s o)) <> [].
Proof.
  intros [ |out| | ] H.
  - unfold step, step_gen. rewrite begin_snaps. exact H.
  - unfold step, step_gen. apply persist_snaps. exact H.
  - unfold step, step_gen. rewrite blocked_snaps. exact H.
  - rewrite restart_snaps. exact H.
Qed.

Lemma local_step d l s o : local_op o -> good d l s -> good d l (fst (step s o)).
Proof.
  intros Ho (I & Hl & Hlog).
  destruct (step_preserves s o I) as [I' Hl'].
  split; [exact I'|]. split.
  - eapply cells_eq_trans; [exact Hl'|]. destruct Ho; exact Hl.
  - rewrite local_log by exact Ho. exact Hlog.
Qed.

Definition local_lop (l : lop) : Prop := match l with LSnap2 _ => True | LOp o => local_op o end.

Lemma snap2_unfold s o :
  fst (snap2 s o) = (if snd (step s OSnapBegin) =? 0 then fst (step (fst (step s OSnapBegin)) (OSnapPersist o)) else fst (step s OSnapBegin)).
Proof. unfold snap2. destruct (step s OSnapBegin) as [s1 r1]. cbn. destruct (r1 =? 0); reflexivity. Qed.

Lemma llocal_step d l s o : local_lop o -> good d l s -> good d l (fst (lstep s o)).
Proof.
  destruct o as [out|o]; cbn [local_lop lstep]; intros Ho G.
  - rewrite snap2_unfold. destruct (snd (step s OSnapBegin) =? 0).
    + apply local_step; [constructor|]. apply local_step; [constructor | exact G].
    + apply local_step; [constructor | exact G].
  - apply local_step; assumption.
Qed.

Lemma llocal_log s o : local_lop o -> log (fst (lstep s o)) = log s.
Proof.
  destruct o as [out|o]; cbn [local_lop lstep]; intros Ho.
  - rewrite snap2_unfold. destruct (snd (step s OSnapBegin) =? 0).
    + rewrite local_log by constructor. apply local_log. constructor.
    + apply local_log. constructor.
  - apply local_log. exact Ho.
Qed.

Lemma llocal_snaps s o : local_lop o -> snaps s <> [] -> snaps (fst (lstep s o)) <> [].
Proof.
  destruct o as [out|o]; cbn [local_lop lstep]; intros Ho H.
  - rewrite snap2_unfold. destruct (snd (step s OSnapBegin) =? 0).
    + apply local_snaps; [constructor|]. apply local_snaps; [constructor | exact H].
    + apply local_snaps; [constructor | exact H].
  - apply local_snaps; assumption.
Qed.

(* a whole snapshot that reports success with outcome ok is visible in the store *)
Lemma snap2_ok_nonempty s : snd (snap2 s POk) = 0 -> snaps (fst (snap2 s POk)) <> [].
Proof.
  unfold snap2. destruct (step s OSnapBegin) as [s1 r1]. destruct (r1 =? 0) eqn:E.
  - unfold step, step_gen. apply persist_ok_nonempty.
  - cbn. intros H. rewrite H in E. discriminate.
Qed.

Lemma at_node_good d l o : local_lop o ->
  forall ns i, Forall (good d l) ns -> Forall (good d l) (at_node ns i o).
Proof.
  intros Ho ns. induction ns as [|s r IH]; intros i F; [destruct i; constructor|].
  inversion F as [|? ? Hs Hr]; subst.
  destruct i; cbn [at_node]; constructor; auto using llocal_step.
Qed.

Lemma at_node_length ns : forall i o, length (at_node ns i o) = length ns.
Proof. induction ns as [|s r IH]; intros [|i] o; cbn; auto. Qed.

Lemma at_node_head L r i o : exists L' r', at_node (L :: r) i o = L' :: r'
  /\ (L' = L \/ (i = 0%nat /\ L' = fst (lstep L o))).
Proof. destruct i; cbn; eauto 6. Qed.

(* an entry applied by every node *)
Lemma entry_all d d' l e (f : st -> st) ns :
  (forall s, good d l s -> Inv (f s) /\ cells_eq (live (f s)) d' /\ log (f s) = l ++ [e]) ->
  Forall (good d l) ns -> Forall (good d' (l ++ [e])) (map f ns).
Proof.
  intros H F. induction F as [|s r Hs _ IH]; cbn; constructor; [|exact IH].
  destruct (H s Hs) as (A & B & C). split; [exact A|]. split; assumption.
Qed.

Lemma step_entry d l s o e d' res0 :
  (forall s0, log (fst (step s0 o)) = log s0 ++ [e]) ->
  (forall s0, snd (step s0 o) = res0) ->
  cells_eq (spec_step d o res0) d' ->
  good d l s -> Inv (fst (step s o)) /\ cells_eq (live (fst (step s o))) d' /\ log (fst (step s o)) = l ++ [e].
Proof.
  intros Hlog Hres Hd (I & Hl & Hlg).
  destruct (step_preserves s o I) as [I' Hl']. rewrite Hres in Hl'. split; [exact I'|]. split.
  - eapply cells_eq_trans; [exact Hl'|]. eapply cells_eq_trans; [apply spec_step_congr; exact Hl | exact Hd].
  - rewrite Hlog, Hlg. reflexivity.
Qed.

Lemma join_ok c d k : CInv c d k -> exists s L r, nodes c = L :: r /\ join_node c = Some s /\ good d (log L) s.
Proof.
  intros CI. destruct (ci_leader _ _ _ CI) as (L & r & E).
  pose proof (ci_nodes _ _ _ CI L r E) as F. rewrite E in F. inversion F as [|? ? HL _]; subst.
  destruct HL as (IL & HlL & _).
  unfold join_node. rewrite E. destruct (compacted c) eqn:Ec.
  - (* snapshot install *)
    pose proof (ci_snap _ _ _ CI L r E Ec) as Hne.
    destruct IL as (r0 & Hr & H2 & H3 & H4 & _ & _).
    destruct (restored_nonempty L Hne r0 Hr) as (db & ws & Hres & ->).
    destruct (snaps L) as [|x xs] eqn:Es; [congruence|]. rewrite Hres.
    set (s0 := {| dbf := apply_segs db ws; wal := []; staging := []; snaps := [SFull (newest_idx L) db ws];
                  full_needed := false; log := log L; mnewer := false; pending := None |}).
    pose proof (phys_fold (suffix L) s0 eq_refl) as P. cbv zeta in P. destruct P as (P1 & P2 & P3 & P4 & P5 & P6 & P7).
    set (s' := fold_left apply_phys (suffix L) s0) in *.
    exists s', L, r. split; [reflexivity|]. split; [reflexivity|].
    assert (Hsuf : suffix s' = suffix L).
    { unfold suffix, newest_idx. rewrite P1, P2. reflexivity. }
    assert (Hlive : live s' = replay (suffix L) (apply_segs db ws)).
    { rewrite P4. reflexivity. }
    split; [|split].
    + exists (apply_segs db ws). split; [|split; [|split; [|split; [|split]]]].
      * unfold restored. rewrite P1. reflexivity.
      * intros Hf. rewrite P3. cbn [staging s0 apply_segs fold_left].
        rewrite P5; [apply cells_eq_refl|].
        unfold full_due in Hf. apply orb_false_iff in Hf as [Hf _]. apply orb_false_iff in Hf. tauto.
      * rewrite Hsuf, Hlive. apply cells_eq_refl.
      * unfold newest_idx at 1. rewrite P1, P2. cbn [s0 snaps snap_idx log]. exact H4.
      * apply P7. cbn. discriminate.
      * unfold pend_ok. rewrite P6. exact I.
    + rewrite Hlive. eapply cells_eq_trans; [exact H3 | exact HlL].
    + exact P2.
  - (* log replay from the first entry *)
    pose proof (ci_log _ _ _ CI L r E Ec) as Hrep.
    pose proof (phys_fold (log L) (blank (log L)) eq_refl) as P. cbv zeta in P. destruct P as (P1 & P2 & P3 & P4 & P5 & P6 & P7).
    set (s' := fold_left apply_phys (log L) (blank (log L))) in *.
    exists s', L, r. split; [reflexivity|]. split; [reflexivity|].
    assert (Hlive : live s' = replay (log L) []) by (rewrite P4; reflexivity).
    split; [|split].
    + exists []. split; [|split; [|split; [|split; [|split]]]].
      * unfold restored. rewrite P1. reflexivity.
      * intros Hf. unfold full_due in Hf. rewrite P1 in Hf. cbn in Hf. rewrite orb_true_r in Hf. discriminate.
      * unfold suffix, newest_idx. rewrite P1, P2. cbn. rewrite Hlive. apply cells_eq_refl.
      * unfold newest_idx. rewrite P1. cbn. lia.
      * apply P7. cbn. discriminate.
      * unfold pend_ok. rewrite P6. exact I.
    + rewrite Hlive. exact Hrep.
    + exact P2.
Qed.

Lemma Forall_good_hd d ns L r : ns = L :: r -> (forall L0 r0, ns = L0 :: r0 -> Forall (good d (log L0)) ns) -> Forall (good d (log L)) ns.
Proof. intros E H. apply (H L r E). Qed.

Lemma cstep_preserves c o d k :
  CInv c d k ->
  CInv (fst (cstep c o)) (fst (cspec_step (d, k) o (snd (cstep c o)))) (snd (cspec_step (d, k) o (snd (cstep c o)))).
Proof.
  intros CI. destruct (ci_leader _ _ _ CI) as (L & r & E).
  pose proof (ci_nodes _ _ _ CI L r E) as F.
  assert (entry_case : forall o1 e d' res0,
    (forall s0, log (fst (step s0 o1)) = log s0 ++ [e]) ->
    (forall s0, snd (step s0 o1) = res0) ->
    (forall s0, snaps s0 <> [] -> snaps (fst (step s0 o1)) <> []) ->
    cells_eq (spec_step d o1 res0) d' ->
    cells_eq (replay_entry d e) d' ->
    CInv (all_nodes c o1) d' k).
  { intros o1 e d' res0 Hlog Hres Hsn Hd He.
    assert (F' : Forall (good d' (log L ++ [e])) (map (fun s => fst (step s o1)) (nodes c))).
    { apply (entry_all d d' (log L) e); [|exact F].
      intros s Hs. apply (step_entry d (log L) s o1 e d' res0); auto. }
    constructor; cbn [all_nodes nodes compacted].
    - rewrite map_length. apply (ci_len _ _ _ CI).
    - rewrite E. cbn. eauto.
    - intros L1 r1 E1. rewrite E in E1. cbn in E1. inversion E1; subst. rewrite Hlog. exact F'.
    - intros L1 r1 E1 Hc. rewrite E in E1. cbn in E1. inversion E1; subst. rewrite Hlog, replay_snoc.
      eapply cells_eq_trans; [|exact He]. apply replay_entry_congr. apply (ci_log _ _ _ CI L r E Hc).
    - intros L1 r1 E1 Hc. rewrite E in E1. cbn in E1. inversion E1; subst. apply Hsn. apply (ci_snap _ _ _ CI L r E Hc). }
  (* something one node does on its own, possibly a leader snapshot that compacts the log *)
  assert (local_case : forall i lo cm' cmp, local_lop lo -> cm' = (compacted c || cmp)%bool ->
    (cmp = true -> i = 0%nat /\ snaps (fst (lstep L lo)) <> []) ->
    CInv {| nodes := at_node (nodes c) i lo; compacted := cm' |} d k).
  { intros i lo cm' cmp Hlo Hcm Hcmp.
    destruct (at_node_head L r i lo) as (L' & r' & E' & HL').
    assert (HlogL : log L' = log L).
    { destruct HL' as [-> | [_ ->]]; [reflexivity|]. apply llocal_log. exact Hlo. }
    constructor; cbn [nodes compacted].
    - rewrite at_node_length. apply (ci_len _ _ _ CI).
    - rewrite E, E'. eauto.
    - intros L1 r1 E1. rewrite E, E' in E1. inversion E1; subst L1 r1. rewrite HlogL.
      apply at_node_good; assumption.
    - intros L1 r1 E1 Hc. rewrite E, E' in E1. inversion E1; subst L1 r1. rewrite HlogL.
      rewrite Hcm in Hc. apply orb_false_iff in Hc as [Hc _]. apply (ci_log _ _ _ CI L r E Hc).
    - intros L1 r1 E1 Hc. rewrite E, E' in E1. inversion E1; subst L1 r1.
      rewrite Hcm in Hc. apply orb_true_iff in Hc as [Hc | Hc].
      + pose proof (ci_snap _ _ _ CI L r E Hc) as Hne.
        destruct HL' as [-> | [_ ->]]; [exact Hne|]. apply llocal_snaps; assumption.
      + destruct (Hcmp Hc) as [-> Hne]. cbn in E'. inversion E'; subst L' r'. exact Hne. }
  destruct o as [ks v|cc|cc| |cc|i o compact|i|i o|i|i| ]; cbn [cstep cspec_step fst snd].
  - (* write *)
    apply (entry_case (OWrite ks v) (EWrite (map (fun q => (q, v)) ks)) _ 0); auto using cells_eq_refl.
  - (* load *)
    apply (entry_case (OLoad cc) (ELoad (cells_of_vec cc)) _ 0); auto using cells_eq_refl.
  - (* SQL-text load *)
    set (w := sql_frames cc).
    assert (F' : Forall (good (apply_frames d w) (log L ++ [EWrite w]))
                   (map (fun s => apply_phys (add_log s (EWrite w)) (EWrite w)) (nodes c))).
    { apply (entry_all d _ (log L) (EWrite w)); [|exact F].
      intros s (I & Hl & Hlg). destruct (write_frames_preserves s w I) as [I' Hl'].
      split; [exact I'|]. split.
      - rewrite Hl'. apply apply_frames_congr. exact Hl.
      - cbn. rewrite Hlg. reflexivity. }
    constructor; cbn [nodes compacted].
    + rewrite map_length. apply (ci_len _ _ _ CI).
    + rewrite E. cbn. eauto.
    + intros L1 r1 E1. rewrite E in E1. cbn in E1. inversion E1; subst. cbn [log apply_phys set_dbf add_log]. exact F'.
    + intros L1 r1 E1 Hc. rewrite E in E1. cbn in E1. inversion E1; subst. cbn [log apply_phys set_dbf add_log].
      rewrite replay_snoc. cbn [replay_entry]. apply apply_frames_congr. apply (ci_log _ _ _ CI L r E Hc).
    + intros L1 r1 E1 Hc. rewrite E in E1. cbn in E1. inversion E1; subst. cbn. apply (ci_snap _ _ _ CI L r E Hc).
  - (* rejected load *)
    apply (entry_case OLoadBad ELoadBad _ 3); auto using cells_eq_refl.
  - (* boot *)
    pose proof (ci_len _ _ _ CI) as Hk.
    destruct (nodes c) as [|s [|s2 r2]] eqn:En.
    + discriminate.
    + inversion E; subst s r. cbn in Hk. subst k. cbn [fst snd].
      inversion F as [|? ? (I & Hl & _) _]; subst.
      destruct (step_preserves L (OBoot cc) I) as [I' Hl'].
      assert (Hcase : snd (step L (OBoot cc)) = 0 \/ (snd (step L (OBoot cc)) =? 0) = false /\ fst (step L (OBoot cc)) = L).
      { unfold step, step_gen. destruct (pending L) eqn:Ep; [right; split; reflexivity|]. left.
        unfold snap_begin, snap_persist; cbn. rewrite Ep. cbn. reflexivity. }
      destruct Hcase as [H0 | [Hn0 HsL]].
      * (* booted *)
        rewrite H0 in *. cbn [N.eqb fst snd] in *.
        constructor; cbn [nodes compacted].
        -- reflexivity.
        -- eauto.
        -- intros L1 r1 E1. inversion E1; subst. constructor; [|constructor].
           split; [exact I'|]. split; [exact Hl' | reflexivity].
        -- rewrite orb_true_r. discriminate.
        -- intros L1 r1 E1 _. injection E1 as <- _.
           unfold step, step_gen in *. destruct (pending L) eqn:Ep; [cbn in H0; discriminate|].
           unfold snap_begin, snap_persist; cbn. rewrite Ep. cbn. discriminate.
      * (* refused: a snapshot of the node is in flight *)
        rewrite Hn0. rewrite HsL. cbn [fst snd]. rewrite orb_false_r. rewrite <- En.
        destruct c as [nc cc0]. cbn in *. subst nc. exact CI.
    + cbn in Hk. subst k. cbn [fst snd]. cbn [N.eqb]. exact CI.
  - (* whole snapshot on node i *)
    destruct (nth_error (nodes c) i) as [s|] eqn:En; cbn [fst snd]; [|exact CI].
    apply (local_case i (LSnap2 o) _ (compact && Nat.eqb i 0 && (snd (snap2 s o) =? 0) && match o with POk => true | _ => false end)%bool); [exact I | reflexivity |].
    intros Hc. apply andb_true_iff in Hc as [Hc Hout]. apply andb_true_iff in Hc as [Hc Hres].
    apply andb_true_iff in Hc as [_ Hi]. apply PeanoNat.Nat.eqb_eq in Hi. subst i.
    split; [reflexivity|]. destruct o; try discriminate.
    rewrite E in En. cbn in En. inversion En; subst s.
    apply N.eqb_eq in Hres. cbn [lstep]. apply snap2_ok_nonempty. exact Hres.
  - (* snapshot begins on node i *)
    destruct (nth_error (nodes c) i) as [s|] eqn:En; cbn [fst snd]; [|exact CI].
    apply (local_case i (LOp OSnapBegin) _ false); [constructor | symmetry; apply orb_false_r | discriminate].
  - (* snapshot persisted on node i *)
    destruct (nth_error (nodes c) i) as [s|] eqn:En; cbn [fst snd]; [|exact CI].
    apply (local_case i (LOp (OSnapPersist o)) _ false); [constructor | symmetry; apply orb_false_r | discriminate].
  - (* blocked attempt on node i *)
    destruct (nth_error (nodes c) i) as [s|] eqn:En; cbn [fst snd]; [|exact CI].
    apply (local_case i (LOp OSnapBlocked) _ false); [constructor | symmetry; apply orb_false_r | discriminate].
  - (* restart of node i *)
    destruct (nth_error (nodes c) i) as [s|] eqn:En; cbn [fst snd]; [|exact CI].
    apply (local_case i (LOp ORestart) _ false); [constructor | symmetry; apply orb_false_r | discriminate].
  - (* join *)
    destruct (join_ok c d k CI) as (s & L0 & r0 & E0 & Hj & Hg). rewrite Hj. cbn [fst snd].
    rewrite E in E0. inversion E0; subst L0 r0.
    constructor; cbn [nodes compacted].
    + rewrite app_length. cbn. rewrite (ci_len _ _ _ CI). lia.
    + rewrite E. cbn. eauto.
    + intros L1 r1 E1. rewrite E in E1. cbn in E1. inversion E1; subst. apply Forall_app. split; [exact F|].
      constructor; [exact Hg | constructor].
    + intros L1 r1 E1 Hc. rewrite E in E1. cbn in E1. inversion E1; subst. apply (ci_log _ _ _ CI L1 r E Hc).
    + intros L1 r1 E1 Hc. rewrite E in E1. cbn in E1. inversion E1; subst. apply (ci_snap _ _ _ CI L1 r E Hc).
Qed.

Lemma cinv_init : CInv cinit [] 1.
Proof.
  constructor; cbn.
  - reflexivity.
  - eauto.
  - intros L r E. inversion E; subst. constructor; [|constructor].
    split; [apply inv_init|]. split; [apply cells_eq_refl | reflexivity].
  - intros L r E _. inversion E; subst. apply cells_eq_refl.
  - discriminate.
Qed.

Lemma cboth_inv ops : forall c x, CInv c (fst x) (snd x) ->
  CInv (fst (fold_left cboth_step ops (c, x))) (fst (snd (fold_left cboth_step ops (c, x)))) (snd (snd (fold_left cboth_step ops (c, x)))).
Proof.
  induction ops as [|o ops IH]; intros c [d k] CI; cbn [fold_left]; [exact CI|].
  replace (cboth_step (c, (d, k)) o) with (fst (cstep c o), cspec_step (d, k) o (snd (cstep c o)))
    by (unfold cboth_step; destruct (cstep c o); reflexivity).
  apply IH. apply cstep_preserves. exact CI.
Qed.

Lemma cboth_fst ops : forall c x, fst (fold_left cboth_step ops (c, x)) = fold_left (fun c o => fst (cstep c o)) ops c.
Proof.
  induction ops as [|o ops IH]; intros c x; cbn [fold_left]; [reflexivity|].
  replace (cboth_step (c, x) o) with (fst (cstep c o), cspec_step x o (snd (cstep c o)))
    by (unfold cboth_step; destruct (cstep c o); reflexivity).
  apply IH.
Qed.

Theorem load_everywhere ops :
  Forall (node_ok (fst (cspec ops))) (nodes (crun ops)) /\ length (nodes (crun ops)) = snd (cspec ops).
Proof.
  pose proof (cboth_inv ops cinit ([], 1%nat) cinv_init) as CI.
  change (fold_left cboth_step ops (cinit, ([], 1%nat))) with (cboth ops) in CI.
  assert (Ec : crun ops = fst (cboth ops)) by (unfold crun, cboth; rewrite cboth_fst; reflexivity).
  rewrite Ec. unfold cspec.
  split; [|apply (ci_len _ _ _ CI)].
  destruct (ci_leader _ _ _ CI) as (L & r & E).
  eapply Forall_impl; [|apply (ci_nodes _ _ _ CI L r E)].
  intros s. apply good_node_ok.
Qed.

(* a load of invalid data is answered with an error and leaves the database file, the WAL and the snapshots
   of every node exactly as they were -- in any cluster state whatsoever *)
Theorem invalid_load_rejected c :
  snd (cstep c CLoadBad) = 3
  /\ map dbf (nodes (fst (cstep c CLoadBad))) = map dbf (nodes c)
  /\ map wal (nodes (fst (cstep c CLoadBad))) = map wal (nodes c)
  /\ map snaps (nodes (fst (cstep c CLoadBad))) = map snaps (nodes c).
Proof.
  cbn. split; [reflexivity|]. rewrite !map_map. repeat split; apply map_ext; intros s; reflexivity.
Qed.

(* non-vacuity *)
Definition v24 (v : N) : list N := map (fun _ => v) universe.
Example ex_cluster :
  let ops := [CWrite [1; 2] 1; CSnap 0 POk false; CBoot (v24 3); CWrite [2] 4; CJoin; CLoadBad; CSnapBegin 0; CLoad (v24 5); CSnapPersist 0 POk;
              CWrite [3] 7; CSnapBlocked 0; CSnap 1 PNotInvoked false; CSnap 0 PNotInvoked false; CSnap 1 POk false; CSnap 0 POk true; CRestart 1; CJoin; CWrite [1] 6] in
  map (fun s => dump (live s)) (nodes (crun ops)) = [dump (fst (cspec ops)); dump (fst (cspec ops)); dump (fst (cspec ops))]
  /\ get (fst (cspec ops)) 1 = 6 /\ get (fst (cspec ops)) 2 = 5 /\ compacted (crun ops) = true
  /\ map (fun s => map cat_of (snaps s)) (nodes (crun ops)) <> [].
Proof. vm_compute. repeat split; discriminate. Qed.
