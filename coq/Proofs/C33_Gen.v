(* C33 — the source-derived checkRaftConfiguration (Gen/RaftConfig.v, regenerated from store/state.go
   on every run) accepts exactly the configurations the hand model Model.C33.check_configuration accepts.
   Adapter.  hashicorp/raft's Configuration / Server / ServerID / ServerAddress / Voter are described to
   the translator by the unit's hints (tools/gotrans/units.go); the hand model keeps the two "seen" sets
   as lists where the Go code keeps map[...]bool, a voter flag where the Go code keeps a Suffrage, and a
   nat voter count.  strings.Contains and net.SplitHostPort are Section variables of the generated
   file, instantiated with the model's has_sub and split_host_port_ok. *)
From Coq Require Import List String Bool ZArith Lia ZifyBool ZifyNat.
From RQ Require Import Lib.AList.
From RQ Require Import Lib.GoLib.
From RQ Require Import Lib.GenTac.
From RQ Require Import Model.C33.
From RQ Require Import Gen.RaftConfig.
Import ListNotations.
Local Open Scope string_scope.

(* The Section variables of the generated file are instantiated by position below; these lines pin
   their names, so a change of callee cannot go unnoticed. *)
Arguments checkRaftConfiguration error_T fmt_Errorf net_SplitHostPort strings_Contains _ : assert.

Definition gserver (s : server) : raft_Server :=
  mk_raft_Server (if sv_voter s then 0%Z else 1%Z) (sv_id s) (sv_addr s).
Definition gconf (l : list server) : raft_Configuration := mk_raft_Configuration (map gserver l).
(* the "seen" sets: a map[...]bool holding true, or a map[...]struct{} *)
Class SetVal (V : Type) := setval : V.
#[export] Instance setval_bool : SetVal bool := true.
#[export] Instance setval_unit : SetVal unit := tt.
Definition set_of {V : Type} `{SetVal V} (l : list string) : alist V := map (fun x => (x, setval)) l.

Lemma lookup_set_of : forall l x, odef false (lookup (set_of l) x) = mem_str x l.
Proof.
  induction l as [|y l IH]; intros x; cbn; [reflexivity|].
  rewrite (String.eqb_sym x y). destruct (String.eqb y x); cbn; [reflexivity|apply IH].
Qed.

Lemma lookup_set_of_ok : forall (V : Type) (H : SetVal V) l x, isSome (lookup (set_of l) x) = mem_str x l.
Proof.
  induction l as [|y l IH]; intros x; cbn; [reflexivity|].
  rewrite (String.eqb_sym x y). destruct (String.eqb y x); cbn; [reflexivity|apply IH].
Qed.

Lemma update_set_of : forall (V : Type) (H : SetVal V) l k, update (set_of l) k setval = set_of (k :: l).
Proof. reflexivity. Qed.

Section Check.
  Variable E : Type.
  Variable e : E.
  Variable errorf : string -> E.
  Definition contains (s sub : string) : bool := has_sub sub s.
  Definition split (a : string) : string * string * option E :=
    ("", "", if split_host_port_ok a then None else Some e).
  Definition gen_check (l : list server) : option E := checkRaftConfiguration E errorf split contains (gconf l).

  Lemma gen_checkRaftConfiguration_eq : forall l, isSome (gen_check l) = negb (check_configuration l).
  Proof.
    intros l. unfold gen_check, checkRaftConfiguration, check_configuration, gconf. aux.
    cbn [raft_Configuration_Servers].
    lazymatch goal with |- isSome (?F ?a0 ?b0 ?c0 ?d0) = _ => pose (LOOP := F) end.
    enough (H : forall l voters addrs ids,
      isSome (LOOP (map gserver l) (set_of ids) (set_of addrs) (Z.of_nat voters))
      = negb (check_servers l ids addrs voters)) by exact (H l 0%nat [] []).
    clear l. induction l as [|s l IH]; intros voters addrs ids; unfold LOOP; cbn [map check_servers]; fold LOOP.
    - destruct voters; reflexivity.
    - cbn [gserver raft_Server_ID raft_Server_Address raft_Server_Suffrage].
      unfold contains, split at 1. rewrite ?lookup_set_of, ?lookup_set_of_ok.
      rewrite ?update_set_of.
      unfold raft_Voter.
      clearbody LOOP.
      destruct (sv_voter s); cbn [Z.eqb];
        [replace (Z.of_nat voters + 1)%Z with (Z.of_nat (S voters)) by lia|];
        gen_cases;
        first [exact (IH (S voters) (sv_addr s :: addrs) (sv_id s :: ids))|exact (IH voters (sv_addr s :: addrs) (sv_id s :: ids))].
  Qed.
End Check.

Lemma gen_raftconfig_eq : forall (E : Type) (e : E) (errorf : string -> E) (l : list server),
  isSome (gen_check E e errorf l) = negb (check_configuration l).
Proof. exact gen_checkRaftConfiguration_eq. Qed.
