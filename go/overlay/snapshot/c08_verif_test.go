package snapshot

// C08 driver: upgrading old snapshot formats is crash-safe.
//
// Generated v7 ("snapshots": <id>/meta.json + <id>/state.bin = 16-byte header + gzip of the
// database) and v8 ("rsnapshots": <id>.db + <id>/meta.json) directories -- the checked-in
// fixtures under testdata/upgrade plus generated databases, one or more snapshots -- are put
// under a raft directory and the start-up sequence of store.Open is run on it:
//     Upgrade7To8(snapshots, rsnapshots); Upgrade8To10(rsnapshots, wsnapshots); NewStore(wsnapshots)
// Crash images of the REAL code are produced by running that sequence in a child process (this
// test binary re-executed) under `strace -e inject=<syscall>:signal=SIGKILL:when=K`: the child is
// killed just before its K-th mkdirat / renameat / unlinkat / fsync / ... (thorough: also
// write / pwrite64), for every K.  What is left on disk is the crash image.  The
// sequence is then run again (in-process; optionally once more in a killed child first).
//   oracle : the restart succeeds, the store has exactly one snapshot with the (index, term)
//            of the newest original one, and it restores to the same rows
//   model  : the crash image, read through the abstraction function c08Abs, is one of the
//            model's crash images (Model/C08.v), and the model's restart from it ends as observed.

import (
	"bytes"
	"compress/gzip"
	"crypto/sha256"
	"encoding/binary"
	"encoding/hex"
	"encoding/json"
	"fmt"
	"io"
	"log"
	"math/rand"
	"os"
	"os/exec"
	"path/filepath"
	"runtime"
	"sort"
	"strings"
	"syscall"
	"testing"

	"github.com/hashicorp/raft"
	"github.com/rqlite/rqlite/v10/db"
)

// ---------------------------------------------------------------- input

type c08Snap struct {
	Term    uint64 `json:"term"`
	Index   uint64 `json:"index"`
	NoState bool   `json:"no_state,omitempty"` // an older, partial snapshot: v7 directory without state.bin (as in the fixture), v8 directory without its <id>.db
}

type c08Crash struct {
	Sys string `json:"sys"` // syscall the child is killed before ...
	K   int    `json:"k"`   // ... its K-th invocation
}

// c08Synth names a synthesised crash image: the disk just after the rename of an upgrade step
// with the first Removed entries of the old directory's removal (children before their
// directory; directory entries in sorted or reverse order) already unlinked.
type c08Synth struct {
	Step    string `json:"step"`  // "7to8" (old = snapshots) or "8to10" (old = rsnapshots)
	Order   string `json:"order"` // "sorted" or "reverse"
	Removed int    `json:"removed"`
}

type c08Input struct {
	Kind    string     `json:"kind"`    // "v7" or "v8"
	Fixture bool       `json:"fixture"` // the checked-in fixture instead of a generated directory
	Snaps   []c08Snap  `json:"snaps"`
	Seed    int64      `json:"seed"`
	Crash   []c08Crash `json:"crash"`
	Synth   *c08Synth  `json:"synth,omitempty"`
}

func (in c08Input) storeKey() string {
	return fmt.Sprintf("%s fixture=%v snaps=%v seed=%d", in.Kind, in.Fixture, in.Snaps, in.Seed)
}

// ---------------------------------------------------------------- helpers

func c08Exists(p string) bool { _, err := os.Lstat(p); return err == nil }

func c08Hash(b []byte) string { h := sha256.Sum256(b); return hex.EncodeToString(h[:8]) }

func c08HashFile(p string) string {
	b, err := os.ReadFile(p)
	if err != nil {
		return ""
	}
	return c08Hash(b)
}

func c08CopyDir(src, dst string) error {
	os.RemoveAll(dst)
	return filepath.Walk(src, func(p string, fi os.FileInfo, err error) error {
		if err != nil {
			return err
		}
		rel, _ := filepath.Rel(src, p)
		to := filepath.Join(dst, rel)
		if fi.IsDir() {
			return os.MkdirAll(to, 0755)
		}
		b, err := os.ReadFile(p)
		if err != nil {
			return err
		}
		return os.WriteFile(to, b, 0644)
	})
}

func c08TempDir(t *testing.T) string {
	if fi, err := os.Stat("/dev/shm"); err == nil && fi.IsDir() {
		if d, err := os.MkdirTemp("/dev/shm", "verif-c08-"); err == nil {
			t.Cleanup(func() { os.RemoveAll(d) })
			return d
		}
	}
	return t.TempDir()
}

// c08CountTree: number of files and directories below root (root itself excluded); -1 if root is gone.
func c08CountTree(root string) int {
	if !c08Exists(root) {
		return -1
	}
	n := 0
	filepath.Walk(root, func(p string, fi os.FileInfo, err error) error {
		if err == nil && p != root {
			n++
		}
		return nil
	})
	return n
}

func c08Rows(path string) (string, error) {
	d, err := db.Open(path, false, true)
	if err != nil {
		return "", err
	}
	defer d.Close()
	var sb strings.Builder
	tabs, err := d.QueryStringStmt("SELECT name FROM sqlite_master WHERE type='table' ORDER BY name")
	if err != nil {
		return "", err
	}
	b, _ := json.Marshal(tabs)
	sb.Write(b)
	var names []string
	for _, r := range tabs {
		for _, v := range r.Values {
			for _, p := range v.Parameters {
				names = append(names, p.GetS())
			}
		}
	}
	for _, n := range names {
		r, err := d.QueryStringStmt(fmt.Sprintf("SELECT * FROM %q ORDER BY rowid", n))
		if err != nil {
			return "", err
		}
		b, _ := json.Marshal(r)
		sb.Write(b)
	}
	return c08Hash([]byte(sb.String())), nil
}

func c08GenDB(dir string, rng *rand.Rand, wal bool) ([]byte, error) {
	path := filepath.Join(dir, fmt.Sprintf("gen-%d.db", rng.Int63()))
	d, err := db.Open(path, false, wal)
	if err != nil {
		return nil, err
	}
	ex := func(q string) error {
		r, err := d.ExecuteStringStmt(q)
		if err != nil {
			return err
		}
		for _, x := range r {
			if e := x.GetError(); e != "" {
				return fmt.Errorf("%s: %s", q, e)
			}
		}
		return nil
	}
	if err := ex("CREATE TABLE t (id INTEGER PRIMARY KEY, v TEXT)"); err != nil {
		return nil, err
	}
	const al = "abcdefghijklmnopqrstuvwxyz"
	for i, n := 0, 1+rng.Intn(12); i < n; i++ {
		l := 3 + rng.Intn(30)
		if rng.Intn(4) == 0 {
			l = 2000 + rng.Intn(5000)
		}
		b := make([]byte, l)
		for j := range b {
			b[j] = al[rng.Intn(len(al))]
		}
		if err := ex(fmt.Sprintf("INSERT INTO t(v) VALUES('%s')", b)); err != nil {
			return nil, err
		}
	}
	if wal {
		if _, err := d.Checkpoint(db.CheckpointTruncate); err != nil {
			return nil, err
		}
	}
	if err := d.Close(); err != nil {
		return nil, err
	}
	return os.ReadFile(path)
}

func c08Meta(id string, index, term uint64) *raft.SnapshotMeta {
	return &raft.SnapshotMeta{ID: id, Index: index, Term: term, Version: 1, ConfigurationIndex: 1,
		Configuration: raft.Configuration{Servers: []raft.Server{{ID: "node1", Address: "localhost:4002"}}}}
}

// ---------------------------------------------------------------- the node under test

type c08Env struct {
	in   c08Input
	base string
	tmpl string // pristine raft directory
	raft string // the raft directory the node runs on (the 8->10 plan holds absolute paths)

	newestID   string
	wantNewest [2]uint64
	wantRows   string

	n7, n8 int // entries below snapshots / below the complete rsnapshots

	synth *c08Synth // set while a synthesised image is being evaluated

	// hashes of the complete files the upgrades produce (learnt from the un-crashed run)
	h8meta, h8db, h10meta, h10db, h10crc string
}

func c08Less(a, b c08Snap, ida, idb string) bool {
	if a.Term != b.Term {
		return a.Term < b.Term
	}
	if a.Index != b.Index {
		return a.Index < b.Index
	}
	return ida < idb
}

func c08Build(t *testing.T, in c08Input) (*c08Env, error) {
	base := c08TempDir(t)
	e := &c08Env{in: in, base: base, tmpl: filepath.Join(base, "tmpl"), raft: filepath.Join(base, "raft")}
	os.MkdirAll(e.tmpl, 0755)
	rng := rand.New(rand.NewSource(in.Seed))
	gen := filepath.Join(base, "gen")
	os.MkdirAll(gen, 0755)
	if in.Fixture {
		switch in.Kind {
		case "v7":
			if err := c08CopyDir("testdata/upgrade/v7.20.3-snapshots", filepath.Join(e.tmpl, "snapshots")); err != nil {
				return nil, err
			}
			e.newestID, e.wantNewest = "2-18-1686659761026", [2]uint64{18, 2}
			// the rows of the fixture's database: gunzip it ourselves
			b, err := os.ReadFile("testdata/upgrade/v7.20.3-snapshots/2-18-1686659761026/state.bin")
			if err != nil {
				return nil, err
			}
			zr, err := gzip.NewReader(bytes.NewReader(b[16:]))
			if err != nil {
				return nil, err
			}
			raw, err := io.ReadAll(zr)
			if err != nil {
				return nil, err
			}
			p := filepath.Join(gen, "fixture7.db")
			os.WriteFile(p, raw, 0644)
			if e.wantRows, err = c08Rows(p); err != nil {
				return nil, err
			}
		default:
			if err := c08CopyDir("testdata/upgrade/v9.4.1-snapshots", filepath.Join(e.tmpl, "rsnapshots")); err != nil {
				return nil, err
			}
			e.newestID, e.wantNewest = "2-9-1771175155788", [2]uint64{9, 2}
			p := filepath.Join(gen, "fixture8.db")
			b, err := os.ReadFile("testdata/upgrade/v9.4.1-snapshots/2-9-1771175155788.db")
			if err != nil {
				return nil, err
			}
			os.WriteFile(p, b, 0644)
			if e.wantRows, err = c08Rows(p); err != nil {
				return nil, err
			}
		}
	} else {
		var newest c08Snap
		for i, sn := range in.Snaps {
			id := fmt.Sprintf("%d-%d-%d", sn.Term, sn.Index, 1686659750000+int64(i)*1000)
			if e.newestID == "" || c08Less(newest, sn, e.newestID, id) {
				newest, e.newestID = sn, id
			}
		}
		for i, sn := range in.Snaps {
			id := fmt.Sprintf("%d-%d-%d", sn.Term, sn.Index, 1686659750000+int64(i)*1000)
			content, err := c08GenDB(gen, rng, in.Kind == "v8")
			if err != nil {
				return nil, err
			}
			if id == e.newestID {
				p := filepath.Join(gen, "newest.db")
				os.WriteFile(p, content, 0644)
				if e.wantRows, err = c08Rows(p); err != nil {
					return nil, err
				}
				os.Remove(p + "-wal")
				os.Remove(p + "-shm")
				e.wantNewest = [2]uint64{sn.Index, sn.Term}
			}
			if in.Kind == "v7" {
				dir := filepath.Join(e.tmpl, "snapshots", id)
				os.MkdirAll(dir, 0755)
				if err := writeMeta(dir, c08Meta(id, sn.Index, sn.Term)); err != nil {
					return nil, err
				}
				if sn.NoState && id != e.newestID {
					continue
				}
				var buf bytes.Buffer
				hdr := make([]byte, 16)
				for j := 0; j < 8; j++ {
					hdr[j] = 0xff
				}
				var z bytes.Buffer
				zw := gzip.NewWriter(&z)
				zw.Write(content)
				zw.Close()
				binary.LittleEndian.PutUint64(hdr[8:], uint64(z.Len()))
				buf.Write(hdr)
				buf.Write(z.Bytes())
				if err := os.WriteFile(filepath.Join(dir, v7StateFile), buf.Bytes(), 0644); err != nil {
					return nil, err
				}
			} else {
				root := filepath.Join(e.tmpl, "rsnapshots")
				dir := filepath.Join(root, id)
				os.MkdirAll(dir, 0755)
				if err := writeMeta(dir, c08Meta(id, sn.Index, sn.Term)); err != nil {
					return nil, err
				}
				if sn.NoState && id != e.newestID {
					continue
				}
				if err := os.WriteFile(filepath.Join(root, id+".db"), content, 0644); err != nil {
					return nil, err
				}
			}
		}
	}
	e.n7 = c08CountTree(filepath.Join(e.tmpl, "snapshots"))
	return e, nil
}

func (e *c08Env) reset() error { return c08CopyDir(e.tmpl, e.raft) }

// c08OpenNode is the snapshot part of store.Open (store/store.go: upgrade 7->8, upgrade 8->10,
// NewStore) on a raft directory.
func c08OpenNode(raftDir string) (*Store, error) {
	logger := log.New(io.Discard, "", 0)
	old7 := filepath.Join(raftDir, "snapshots")
	old8 := filepath.Join(raftDir, "rsnapshots")
	dir10 := filepath.Join(raftDir, "wsnapshots")
	if err := Upgrade7To8(old7, old8, logger); err != nil {
		return nil, fmt.Errorf("failed to upgrade v7 snapshots: %s", err)
	}
	if err := Upgrade8To10(old8, dir10, logger); err != nil {
		return nil, fmt.Errorf("failed to upgrade v8 snapshots: %s", err)
	}
	return NewStore(dir10)
}

// TestVerif_C08Child is the process that gets killed: it runs the start-up sequence on the
// directory named by VERIF_C08_CHILD.  (Skipped unless that variable is set.)
func TestVerif_C08Child(t *testing.T) {
	dir := os.Getenv("VERIF_C08_CHILD")
	if dir == "" {
		t.Skip("helper process of TestVerif_C08")
	}
	runtime.LockOSThread()
	s, err := c08OpenNode(dir)
	if err != nil {
		fmt.Println("C08CHILD-ERR", err)
		os.Exit(3)
	}
	s.Close()
	os.Exit(0)
}

// crashRun runs the start-up sequence on e.raft in a child that is killed before its K-th
// invocation of syscall sys.  It reports whether the child was killed (false: it ran to the end).
func (e *c08Env) crashRun(c c08Crash) (killed bool, err error) {
	cmd := exec.Command("strace", "-f", "-o", "/dev/null", "-e", "trace="+c.Sys,
		"-e", fmt.Sprintf("inject=%s:signal=SIGKILL:when=%d", c.Sys, c.K),
		os.Args[0], "-test.run=^TestVerif_C08Child$", "-test.count=1")
	cmd.Env = append(os.Environ(), "VERIF_C08_CHILD="+e.raft, "VERIF_OUT="+e.base)
	out, rerr := cmd.CombinedOutput()
	if rerr == nil {
		return false, nil
	}
	if ee, ok := rerr.(*exec.ExitError); ok {
		if ws, ok := ee.Sys().(syscall.WaitStatus); ok {
			if ws.Signaled() || ws.ExitStatus() == 128+9 || ws.ExitStatus() == 9 {
				return true, nil
			}
			if ws.ExitStatus() == 3 {
				return false, fmt.Errorf("child: start-up sequence failed: %s", bytes.TrimSpace(out))
			}
		}
	}
	if bytes.Contains(out, []byte("killed by SIGKILL")) || bytes.Contains(out, []byte("+++ killed")) {
		return true, nil
	}
	return false, fmt.Errorf("child: %v: %s", rerr, bytes.TrimSpace(out))
}

// ---------------------------------------------------------------- abstraction function

// file state: 0 absent, 1 present with other (partial) content, 2 complete
type c08Obs struct {
	D7      int    // entries below snapshots, -1 gone
	T8      bool   // rsnapshots.tmp exists
	T8ID    bool   // its <id> directory
	T8Meta  int
	T8DB    int
	D8      int    // entries below rsnapshots, -1 gone
	Plan    bool
	PlanTmp bool
	T10     bool
	T10ID   bool
	T10Meta int
	T10DB   int
	T10CRC  int
	D10     bool
	D10ID   bool
	D10Meta int
	D10DB   int
	D10CRC  int
	Other   string // anything the model has no place for
}

func c08FileState(path, want string) int {
	if !c08Exists(path) {
		return 0
	}
	if want != "" && c08HashFile(path) == want {
		return 2
	}
	return 1
}

func (e *c08Env) abs(raftDir string) c08Obs {
	var o c08Obs
	id := e.newestID
	o.D7 = c08CountTree(filepath.Join(raftDir, "snapshots"))
	t8 := filepath.Join(raftDir, "rsnapshots.tmp")
	o.T8 = c08Exists(t8)
	o.T8ID = c08Exists(filepath.Join(t8, id))
	o.T8Meta = c08FileState(filepath.Join(t8, id, metaFileName), e.h8meta)
	o.T8DB = c08FileState(filepath.Join(t8, id+".db"), e.h8db)
	o.D8 = c08CountTree(filepath.Join(raftDir, "rsnapshots"))
	o.Plan = c08Exists(filepath.Join(raftDir, upgrade8To10Plan))
	o.PlanTmp = c08Exists(filepath.Join(raftDir, upgrade8To10Plan+".tmp"))
	rd := func(root string) (ex, idd bool, m, d, c int) {
		ex = c08Exists(root)
		idd = c08Exists(filepath.Join(root, id))
		m = c08FileState(filepath.Join(root, id, metaFileName), e.h10meta)
		d = c08FileState(filepath.Join(root, id, dbfileName), e.h10db)
		c = c08FileState(filepath.Join(root, id, dbfileName+crcSuffix), e.h10crc)
		return
	}
	o.T10, o.T10ID, o.T10Meta, o.T10DB, o.T10CRC = rd(filepath.Join(raftDir, "wsnapshots.tmp"))
	o.D10, o.D10ID, o.D10Meta, o.D10DB, o.D10CRC = rd(filepath.Join(raftDir, "wsnapshots"))
	// anything unexpected at the top level
	ents, _ := os.ReadDir(raftDir)
	var other []string
	for _, en := range ents {
		switch en.Name() {
		case "snapshots", "rsnapshots", "rsnapshots.tmp", "wsnapshots", "wsnapshots.tmp", upgrade8To10Plan, upgrade8To10Plan + ".tmp":
		default:
			other = append(other, en.Name())
		}
	}
	sort.Strings(other)
	o.Other = strings.Join(other, ",")
	return o
}

// ---------------------------------------------------------------- observing a (re)started node

type c08Final struct {
	Open   bool
	Err    string
	Newest [2]uint64
	NSnap  int
	Rows   string
	Tidy   bool // no old directories, temporary directories or plan files left
}

func (e *c08Env) restart() c08Final {
	var f c08Final
	s, err := c08OpenNode(e.raft)
	if err != nil {
		f.Err = err.Error()
		return f
	}
	defer s.Close()
	s.fatalFn = nil
	metas, err := s.ListAll()
	if err != nil {
		f.Err = "List: " + err.Error()
		return f
	}
	f.NSnap = len(metas)
	if len(metas) == 0 {
		f.Err = "upgraded store is empty"
		return f
	}
	f.Newest = [2]uint64{metas[0].Index, metas[0].Term}
	_, rc, err := s.Open(metas[0].ID)
	if err != nil {
		f.Err = "Open: " + err.Error()
		return f
	}
	rdir, err := os.MkdirTemp(e.base, "restore-")
	if err != nil {
		rc.Close()
		f.Err = err.Error()
		return f
	}
	defer os.RemoveAll(rdir)
	dst := filepath.Join(rdir, "restored.db")
	_, err = Restore(rc, dst)
	rc.Close()
	if err != nil {
		f.Err = "Restore: " + err.Error()
		return f
	}
	if f.Rows, err = c08Rows(dst); err != nil {
		f.Err = "query restored db: " + err.Error()
		return f
	}
	o := e.abs(e.raft)
	f.Tidy = o.D7 == -1 && !o.T8 && o.D8 == -1 && !o.Plan && !o.PlanTmp && !o.T10
	f.Open = true
	return f
}

// ---------------------------------------------------------------- Gallina

func c08CoqFS(v int) string { return [...]string{"FA", "FT", "FW"}[v] }

func c08CoqCount(v int) string {
	if v < 0 {
		return "None"
	}
	return "(Some " + coqNat(v) + ")"
}

func c08CoqObs(o c08Obs) string {
	t8 := "None"
	if o.T8 {
		t8 = fmt.Sprintf("(Some {| a_id := %s; a_meta := %s; a_db := %s |})", coqBool(o.T8ID), c08CoqFS(o.T8Meta), c08CoqFS(o.T8DB))
	}
	t10 := func(ex, id bool, m, d, c int) string {
		if !ex {
			return "None"
		}
		return fmt.Sprintf("(Some {| b_id := %s; b_meta := %s; b_db := %s; b_crc := %s |})", coqBool(id), c08CoqFS(m), c08CoqFS(d), c08CoqFS(c))
	}
	return fmt.Sprintf("{| d7 := %s; t8 := %s; d8 := %s; pl := %s; pltmp := %s; t10 := %s; d10 := %s |}",
		c08CoqCount(o.D7), t8, c08CoqCount(o.D8), coqBool(o.Plan), coqBool(o.PlanTmp),
		t10(o.T10, o.T10ID, o.T10Meta, o.T10DB, o.T10CRC), t10(o.D10, o.D10ID, o.D10Meta, o.D10DB, o.D10CRC))
}

func (e *c08Env) coqCase(obs []c08Obs, f c08Final) string {
	os_ := make([]string, len(obs))
	for i, o := range obs {
		os_[i] = c08CoqObs(o)
	}
	snaps := make([]string, len(e.in.Snaps))
	for i, sn := range e.in.Snaps {
		snaps[i] = coqPair(coqPair(coqN(sn.Term), coqN(sn.Index)), coqN(uint64(i)))
	}
	if e.in.Fixture {
		snaps = []string{coqPair(coqPair(coqN(e.wantNewest[1]), coqN(e.wantNewest[0])), coqN(0))}
	}
	return fmt.Sprintf("{| c_v7 := %s; c_n7 := %s; c_n8 := %s; c_snaps := %s; c_crash := %s; c_open := %s; c_newest := %s; c_nsnap := %s; c_same_db := %s; c_tidy := %s |}",
		coqBool(e.in.Kind == "v7"), coqNat(max(e.n7, 0)), coqNat(max(e.n8, 0)), coqList(snaps), coqList(os_), coqBool(f.Open),
		coqPair(coqN(f.Newest[1]), coqN(f.Newest[0])), coqNat(f.NSnap), coqBool(f.Open && f.Rows == e.wantRows), coqBool(f.Tidy))
}

// ---------------------------------------------------------------- one store

var c08SysQuick = []string{"mkdirat", "renameat", "renameat2", "unlinkat", "unlink", "rmdir", "fsync", "fdatasync", "ftruncate"}
var c08SysThorough = append(append([]string{}, c08SysQuick...), "write", "pwrite64")

func (e *c08Env) emit(w *vWriter, path []c08Crash, obs []c08Obs, f c08Final) {
	in := e.in
	in.Crash = append([]c08Crash{}, path...)
	in.Synth = e.synth
	nontriv := false
	if len(obs) > 0 {
		o := obs[0]
		start := e.abs(e.tmpl)
		first := o != start                                        // after the first mutation
		last := o.D10 && o.D8 == -1 && o.D7 == -1 && !o.Plan && !o.T10 // nothing left to do
		nontriv = first && !last
	}
	c := VCase{Input: in, Coq: e.coqCase(obs, f), Nontrivial: nontriv, Key: fmt.Sprintf("%s crash=%v", e.in.storeKey(), path),
		Tags: []string{"kind=" + e.in.Kind, fmt.Sprintf("crashes=%d", len(obs)), fmt.Sprintf("snaps=%d", len(e.in.Snaps))}}
	if e.synth != nil {
		c.Key = fmt.Sprintf("%s synth=%+v", e.in.storeKey(), *e.synth)
		c.Tags = append(c.Tags, "synthesised:"+e.synth.Step+":"+e.synth.Order)
	} else if len(path) > 0 {
		c.Tags = append(c.Tags, "killed:"+path[0].Sys)
	}
	at := "none"
	if len(obs) > 0 {
		o := obs[len(obs)-1]
		switch {
		case o.Plan && o.D10 && o.D8 >= 0 && o.D8 < e.n8:
			at = "8to10:inside-remove_all-old"
		case o.Plan && o.D10 && o.D8 == -1:
			at = "8to10:after-remove_all-old"
		case o.Plan && o.D10:
			at = "8to10:after-rename"
		case o.Plan:
			at = "8to10:plan-before-rename"
		case o.PlanTmp:
			at = "8to10:writing-plan"
		case o.T8:
			at = "7to8:building-tmp"
		case o.D8 >= 0 && o.D7 >= 0:
			at = "7to8:after-rename"
		case o.D10:
			at = "done"
		default:
			at = "before-first-step"
		}
		c.Tags = append(c.Tags, "at:"+at)
	}
	what := fmt.Sprintf("%s, killed before %v (crash state: %s)", e.in.storeKey(), path, at)
	if e.synth != nil {
		what = fmt.Sprintf("%s, crash after the %s rename with the first %d entries of the old directory removed in %s order (crash state: %s)",
			e.in.storeKey(), e.synth.Step, e.synth.Removed, e.synth.Order, at)
	}
	switch {
	case !f.Open:
		c.OracleFail = what + ": next start fails: " + f.Err
		c.Sig = "C08:restart-fails:" + at
	case f.Newest != e.wantNewest || f.NSnap != 1:
		c.OracleFail = fmt.Sprintf("%s: upgraded store has %d snapshot(s), newest (index,term)=%v, original newest %v", what, f.NSnap, f.Newest, e.wantNewest)
		c.Sig = "C08:newest-index-term-differs:" + at
	case f.Rows != e.wantRows:
		c.OracleFail = what + ": the upgraded snapshot restores to a different database"
		c.Sig = "C08:restored-content-differs:" + at
	case !f.Tidy:
		c.OracleFail = what + ": old directory, temporary directory or plan file left behind after a successful start"
		c.Sig = "C08:leftovers:" + at
	}
	w.Emit(c)
}

func c08Store(t *testing.T, w *vWriter, in c08Input, syscalls []string, second func(n int) bool) {
	e, err := c08Build(t, in)
	if err != nil {
		t.Fatalf("building %s: %v", in.storeKey(), err)
	}
	// the un-crashed run: learn what the complete files look like, and check it
	if err := e.reset(); err != nil {
		t.Fatal(err)
	}
	if in.Kind == "v7" {
		// complete v8 directory: stop after the first upgrade on a scratch copy
		scratch := filepath.Join(e.base, "scratch")
		c08CopyDir(e.tmpl, scratch)
		if err := Upgrade7To8(filepath.Join(scratch, "snapshots"), filepath.Join(scratch, "rsnapshots"), log.New(io.Discard, "", 0)); err != nil {
			w.Emit(VCase{Input: in, Key: in.storeKey() + " uncrashed", OracleFail: in.storeKey() + ": un-crashed Upgrade7To8 fails: " + err.Error(), Sig: "C08:uncrashed-upgrade-fails"})
			return
		}
		e.n8 = c08CountTree(filepath.Join(scratch, "rsnapshots"))
		e.h8meta = c08HashFile(filepath.Join(scratch, "rsnapshots", e.newestID, metaFileName))
		e.h8db = c08HashFile(filepath.Join(scratch, "rsnapshots", e.newestID+".db"))
		os.RemoveAll(scratch)
	} else {
		e.n8 = c08CountTree(filepath.Join(e.tmpl, "rsnapshots"))
	}
	f0 := e.restart()
	if !f0.Open {
		w.Emit(VCase{Input: in, Key: in.storeKey() + " uncrashed", OracleFail: in.storeKey() + ": un-crashed start fails: " + f0.Err, Sig: "C08:uncrashed-upgrade-fails"})
		return
	}
	e.h10meta = c08HashFile(filepath.Join(e.raft, "wsnapshots", e.newestID, metaFileName))
	e.h10db = c08HashFile(filepath.Join(e.raft, "wsnapshots", e.newestID, dbfileName))
	e.h10crc = c08HashFile(filepath.Join(e.raft, "wsnapshots", e.newestID, dbfileName+crcSuffix))
	if len(in.Crash) == 0 {
		e.emit(w, nil, nil, f0)
	}

	run := func(path []c08Crash) (ok bool) {
		if err := e.reset(); err != nil {
			t.Fatal(err)
		}
		var obs []c08Obs
		for i, c := range path {
			killed, err := e.crashRun(c)
			if err != nil {
				if i == len(path)-1 || true {
					// a failing (not killed) child is a failing start: report through the oracle below
					obs = append(obs, e.abs(e.raft))
					e.emit(w, path[:i+1], obs, c08Final{Err: err.Error()})
					return true
				}
			}
			if !killed {
				return false // K is beyond the last invocation
			}
			obs = append(obs, e.abs(e.raft))
		}
		e.emit(w, path, obs, e.restart())
		return true
	}

	if in.Synth != nil {
		if err := e.synthRun(w, *in.Synth); err != nil {
			t.Fatalf("replaying %+v: %v", *in.Synth, err)
		}
		return
	}
	if len(in.Crash) > 0 {
		if !run(in.Crash) {
			t.Logf("crash path %v: the child was not killed (ran to completion)", in.Crash)
		}
		return
	}
	e.synthAll(t, w)
	n := 0
	for _, sys := range syscalls {
		for k := 1; k < 400; k++ {
			c1 := c08Crash{Sys: sys, K: k}
			if !run([]c08Crash{c1}) {
				break
			}
			n++
			if second != nil && second(n) {
				// a second crash during the recovery from this image: same syscall class, early and late
				for _, k2 := range []int{1, 2, 4} {
					if !run([]c08Crash{c1, {Sys: sys, K: k2}}) {
						break
					}
				}
			}
		}
	}
}

// ---------------------------------------------------------------- synthesised images of the old-directory removal

// c08RemovalSeq lists what os.RemoveAll(root) unlinks, children before their directory, the
// entries of every directory in sorted or reverse order; the root itself ("") comes last.
func c08RemovalSeq(root string, reverse bool) []string {
	var out []string
	var walk func(rel string)
	walk = func(rel string) {
		ents, _ := os.ReadDir(filepath.Join(root, rel))
		names := make([]string, 0, len(ents))
		isDir := map[string]bool{}
		for _, en := range ents {
			names = append(names, en.Name())
			isDir[en.Name()] = en.IsDir()
		}
		sort.Strings(names)
		if reverse {
			for i, j := 0, len(names)-1; i < j; i, j = i+1, j-1 {
				names[i], names[j] = names[j], names[i]
			}
		}
		for _, n := range names {
			if isDir[n] {
				walk(filepath.Join(rel, n))
			}
			out = append(out, filepath.Join(rel, n))
		}
	}
	walk("")
	return append(out, "")
}

// synthBase builds, with the real upgrade functions, the disk as it is just after the rename
// of the given step and before the removal of its old directory starts.
func (e *c08Env) synthBase(step string) (string, error) {
	logger := log.New(io.Discard, "", 0)
	base := filepath.Join(e.base, "synth-"+step)
	if c08Exists(base) {
		return base, nil
	}
	if err := e.reset(); err != nil {
		return "", err
	}
	old7, old8, dir10 := filepath.Join(e.raft, "snapshots"), filepath.Join(e.raft, "rsnapshots"), filepath.Join(e.raft, "wsnapshots")
	if e.in.Kind == "v7" {
		if err := Upgrade7To8(old7, old8, logger); err != nil {
			return "", err
		}
	}
	if step == "7to8" {
		// the rename is done, the old directory is still complete
		if err := c08CopyDir(filepath.Join(e.tmpl, "snapshots"), old7); err != nil {
			return "", err
		}
		return base, c08CopyDir(e.raft, base)
	}
	saved := filepath.Join(e.base, "synth-rsnapshots")
	if err := c08CopyDir(old8, saved); err != nil {
		return "", err
	}
	// let the real Upgrade8To10 build and serialise its plan without executing it: with a
	// non-empty directory in the plan file's place WriteToFile's final rename fails
	planPath := filepath.Join(e.raft, upgrade8To10Plan)
	os.MkdirAll(filepath.Join(planPath, "x"), 0755)
	uerr := Upgrade8To10(old8, dir10, logger)
	planJSON, rerr := os.ReadFile(planPath + ".tmp")
	os.RemoveAll(planPath)
	os.Remove(planPath + ".tmp")
	if rerr != nil {
		return "", fmt.Errorf("no plan serialised (Upgrade8To10: %v)", uerr)
	}
	if err := Upgrade8To10(old8, dir10, logger); err != nil {
		return "", err
	}
	if err := c08CopyDir(saved, old8); err != nil {
		return "", err
	}
	if err := os.WriteFile(planPath, planJSON, 0644); err != nil {
		return "", err
	}
	return base, c08CopyDir(e.raft, base)
}

// synthRun evaluates one synthesised image.
func (e *c08Env) synthRun(w *vWriter, sy c08Synth) error {
	base, err := e.synthBase(sy.Step)
	if err != nil {
		return err
	}
	oldName := "snapshots"
	if sy.Step == "8to10" {
		oldName = "rsnapshots"
	}
	seq := c08RemovalSeq(filepath.Join(base, oldName), sy.Order == "reverse")
	if sy.Removed > len(seq) {
		return fmt.Errorf("only %d entries to remove", len(seq))
	}
	if err := c08CopyDir(base, e.raft); err != nil {
		return err
	}
	for _, rel := range seq[:sy.Removed] {
		if err := os.Remove(filepath.Join(e.raft, oldName, rel)); err != nil {
			return err
		}
	}
	e.synth = &sy
	defer func() { e.synth = nil }()
	e.emit(w, nil, []c08Obs{e.abs(e.raft)}, e.restart())
	return nil
}

// synthAll: every prefix of the old-directory removal of both upgrade steps, in both orders.
func (e *c08Env) synthAll(t *testing.T, w *vWriter) {
	steps := []string{"8to10"}
	if e.in.Kind == "v7" {
		steps = []string{"7to8", "8to10"}
	}
	for _, step := range steps {
		base, err := e.synthBase(step)
		if err != nil {
			e.synth = &c08Synth{Step: step}
			e.emit(w, nil, nil, c08Final{Err: "cannot reach the state after the " + step + " rename with the real code: " + err.Error()})
			e.synth = nil
			continue
		}
		oldName := "snapshots"
		if step == "8to10" {
			oldName = "rsnapshots"
		}
		n := len(c08RemovalSeq(filepath.Join(base, oldName), false))
		for _, order := range []string{"sorted", "reverse"} {
			for j := 0; j <= n; j++ {
				if err := e.synthRun(w, c08Synth{Step: step, Order: order, Removed: j}); err != nil {
					t.Fatalf("synthesising %s/%s/%d: %v", step, order, j, err)
				}
			}
		}
	}
}

// ---------------------------------------------------------------- stores

func c08Corpus() []c08Input {
	return []c08Input{
		{Kind: "v8", Fixture: true, Seed: 1},
		{Kind: "v7", Fixture: true, Seed: 2},
		{Kind: "v8", Snaps: []c08Snap{{Term: 2, Index: 18}}, Seed: 3},
		{Kind: "v8", Snaps: []c08Snap{{Term: 2, Index: 30}, {Term: 3, Index: 7}, {Term: 2, Index: 41}}, Seed: 4}, // newest by term, not by index
		{Kind: "v7", Snaps: []c08Snap{{Term: 1, Index: 5, NoState: true}, {Term: 2, Index: 9}}, Seed: 5},
		{Kind: "v7", Snaps: []c08Snap{{Term: 2, Index: 9}, {Term: 1, Index: 5}}, Seed: 6},                        // two complete snapshots, the newest first
		{Kind: "v7", Snaps: []c08Snap{{Term: 1, Index: 40}, {Term: 2, Index: 3, NoState: true}, {Term: 2, Index: 12}}, Seed: 7},
		{Kind: "v8", Snaps: []c08Snap{{Term: 4, Index: 2}, {Term: 3, Index: 90, NoState: true}}, Seed: 8},        // older v8 snapshot without its database
	}
}

func c08Random(rng *rand.Rand) c08Input {
	in := c08Input{Kind: []string{"v7", "v8"}[rng.Intn(2)], Seed: rng.Int63n(1 << 30)}
	for i, n := 0, 1+rng.Intn(3); i < n; i++ {
		in.Snaps = append(in.Snaps, c08Snap{Term: uint64(1 + rng.Intn(3)), Index: uint64(1 + rng.Intn(50)), NoState: rng.Intn(3) == 0})
	}
	return in
}

func TestVerif_C08(t *testing.T) {
	if os.Getenv("VERIF_C08_CHILD") != "" {
		t.Skip()
	}
	w := vOpen()
	defer w.Close()
	rng := vRand()
	if _, err := exec.LookPath("strace"); err != nil {
		t.Fatalf("strace is needed to produce crash images of the real upgrade code: %v", err)
	}
	if raw := vReplayInput(); raw != nil {
		var in c08Input
		if err := json.Unmarshal(raw, &in); err != nil {
			t.Fatal(err)
		}
		c08Store(t, w, in, nil, nil)
		return
	}
	if vTier() == "thorough" {
		for _, in := range c08Corpus() {
			c08Store(t, w, in, c08SysThorough, func(n int) bool { return true })
		}
		for i, n := 0, vN(0, 12); i < n; i++ {
			c08Store(t, w, c08Random(rng), c08SysThorough, func(n int) bool { return n%3 == 0 })
		}
		return
	}
	// quick: every hand-picked node gets the synthesised removal images; the kill enumeration
	// runs on both fixtures, the three-snapshot v8 directory and the two-snapshot v7 directory
	for i, in := range c08Corpus() {
		sys := c08SysQuick
		if i == 2 || i == 4 || i == 6 || i == 7 {
			sys = nil
		}
		c08Store(t, w, in, sys, func(n int) bool { return n%7 == 0 })
	}
}
