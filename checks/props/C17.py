# C17 — configuration read by bin/check (see checks/registry.py)
SPEC = dict(
    title="Reads never modify data; databases change only through the log",
    pkg="./store", files=["store/c17_verif_test.go"],
    rule="every case is a HISTORY on one live single-node Store, each operation observed: 19 hand-picked + 110 (quick) / 2500 (thorough) generated histories of 5-12 operations: "
         "probes (a request of 1-3 texts, each 0-4 SQL statements: read-only head + writing tail, writing head, read-only only, prepare error, empty; SELECT, EXPLAIN, PRAGMA, ATTACH, CTE write, "
         "RETURNING, CREATE TABLE, temp table, no-op UPDATE, comments/semicolons in literals) at one of 14 endpoints (db.Query/Request/Execute, Store.Query and Store.Request at none/weak/linearizable/strong/auto, Store.Execute); "
         "Store.Backup of every format x vacuum x compress into a fresh file, a pre-filled file (VACUUM/open fails), a buffer, a writer failing after 100 bytes or at once; Store.Snapshot; "
         "breaking-PRAGMA attempts in 11 spellings through Store.Query/Request/Execute (must be refused); and query-endpoint requests that ATTACH the node's OWN database file under another name "
         "(plain path and file: URI with mode=rwc) and INSERT/DELETE/CREATE TABLE/PRAGMA user_version through it, plus temp-schema writes, at every level. "
         "A history is non-trivial when a read follows a failing/refused operation, or a text has a writing statement that is not its first, or ATTACH/temp/PRAGMA; distinct by JSON of the input",
    trusted=["SQLite: a mode=ro + query_only connection changes nothing (`ro_pool_inert`), a statement sqlite3_stmt_readonly calls read-only changes nothing (`honest`) - premises of the theorems; "
             "the driver checks both on every generated statement (flag asked of the vendored driver directly, effect measured by running the statement alone on a scratch database)",
             "vendored go-sqlite3: Query steps only the LAST statement of a multi-statement text, Exec all of them (read in sqlite3.go, modelled as q_text / e_text, confirmed by the differential run)",
             "contents = rows of t, existence of tables u1..u3, user_version; observed from a separate read-only connection together with PRAGMA data_version",
             "the read-only pool's query_only flag is read back after every operation through the pool itself (db.Query of `PRAGMA query_only`, three times; database/sql hands out the connection released last); "
             "connections idle deeper in the pool are not inspected",
             "the breaking-PRAGMA guard (C15, fixed in 82eb221) lets no query_only-setting statement reach SQLite: footprint RoTexts carries that assumption; the driver sends such attempts and checks the flag afterwards",
             "single-node cluster: 'every node' is the node that applies the entry (CommandProcessor.Process is the same code on every node); followers/non-voters and leader changes are not run",
             "raft, snapshot install and boot are events of the model (EvApply/EvSnapshot/EvBoot), not run by the driver"],
    assumptions=["no user-defined SQL functions or virtual tables with side effects are loaded", "PRAGMAs that change rqlite-critical settings (query_only, journal_mode ...) are C15's subject and not generated"],
    level_text="Proved for ANY history of API calls on a node with a pristine pool (C17_ro_pool_invariant: every operation, wherever it stops, returns its pooled read-only connection with query_only set; "
               "C17_history_reads_never_write / C17_history_step_inert: queries at every level, locally served unified requests, refused requests, backups of every format and snapshots leave the contents alone; "
               "C17_change_needs_log_entry: a Store operation that did not grow the log did not change the contents). Proved for every request, level, contents and event sequence: the query endpoint never changes any database, whether served locally or logged and applied (C17_query_endpoint_never_writes); "
               "a unified request served without the log never writes (C17_unified_local_never_writes_partial); a node's database stays the same over any sequence of client calls, loads and "
               "log appends - it changes only by applying a log entry, installing a snapshot or boot, and a load is a log entry (C17_db_changes_only_via_log_snapshot_boot_load, C17_load_is_logged). "
               "The unified-endpoint half of the property is FALSE for the pinned code and recorded as an open finding: C17_unified_ro_never_writes_refuted exhibits 'SELECT 1; DELETE ...' "
               "(classified by its first statement, executed by its last, on the read-write connection, on every node when logged); C17_unified_ro_never_writes_partial proves it for texts whose last statement is read-only (all single-statement texts).",
    level_note="Model = q_text/e_text (driver), classify (StmtReadOnlyWithConn), db_query/db_execute/db_request, RORWCount, Store.Query/Request/Execute routing per level, CommandProcessor.Process, cluster events; histories: per-operation footprint on the read-only pool (ro_footprint), hstep/hrun over (contents, pool flag); "
               "tie = differential run of every step of every history (contents after, whether the log grew, Store.Request's read-write count, pool flag) + Go oracle per step on contents, data_version, log growth and the pool flag.",
    technique="Coq proofs over all requests/event sequences with SQLite's guarantees as premises + refutation witness + differential run on a live single-node Store",
    design_ref="6/C17",
    timeout_quick=600, timeout_thorough=7200,
)
