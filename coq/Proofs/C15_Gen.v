(* C15 — the source-derived isSQLSpace / isSQLIDChar / sqlToken (Gen/SqlToken.v, regenerated from
   db/state.go on every run) are the tokenizer of the hand model: Model.C15.g_is_space, g_is_idchar,
   g_token (on which the guard model `guard` and theorem C15_guard_complete rest).
   Adapter.  The unit is translated with Go strings as byte lists (units.go `bytestr`: indexing,
   slicing, strings.HasPrefix / IndexByte / Index from Lib/GoLib.v); bytes are N in the model and Z in
   the generated file (zs); token kinds are the iota constants tkSpace..tkOther (kind_code).  sqlToken
   has general `for` loops, so the generated function is fuelled: with more fuel than the text has
   bytes it returns exactly (kind, length) of g_token.
   The loop lemmas (run_loop_spec, quote_loop_spec, var_loop_spec) state the body of each generated
   loop as an unfolding equation and prove its result by induction; an edit of a loop body needs the
   equation restated (see docs/gotrans.md, brittleness). *)
From Coq Require Import List String Bool NArith ZArith Lia ZifyBool ZifyN ZifyNat.
From RQ Require Import Lib.GoLib Lib.GenTac Model.C15_Sqlite Model.C15 Gen.SqlToken.
Import ListNotations.
Local Open Scope Z_scope.

Definition zs (b : bytes) : list Z := map Z.of_N b.

Lemma zlen_zs : forall s, zlen (zs s) = Z.of_nat (List.length s).
Proof. intros. unfold zlen, zs. rewrite map_length. reflexivity. Qed.

Lemma nth_zs : forall s k, nth k (zs s) 0 = Z.of_N (nth k s 0%N).
Proof. intros s k. unfold zs. change 0 with (Z.of_N 0). apply map_nth. Qed.

Lemma skipn_zs : forall s k, slice_from (zs s) (Z.of_nat k) = zs (skipn k s).
Proof. intros. unfold slice_from, zs. rewrite Nat2Z.id. apply skipn_map. Qed.

(* comparisons of a byte with a constant *)
Lemma eqb_c : forall (c : N) (k : Z), 0 <= k -> Z.eqb (Z.of_N c) k = N.eqb c (Z.to_N k).
Proof. intros. destruct (Z.eqb_spec (Z.of_N c) k), (N.eqb_spec c (Z.to_N k)); try reflexivity; lia. Qed.
Lemma leb_cl : forall (c : N) (k : Z), 0 <= k -> Z.leb k (Z.of_N c) = N.leb (Z.to_N k) c.
Proof. intros. destruct (Z.leb_spec k (Z.of_N c)), (N.leb_spec (Z.to_N k) c); try reflexivity; lia. Qed.
Lemma leb_cr : forall (c : N) (k : Z), 0 <= k -> Z.leb (Z.of_N c) k = N.leb c (Z.to_N k).
Proof. intros. destruct (Z.leb_spec (Z.of_N c) k), (N.leb_spec c (Z.to_N k)); try reflexivity; lia. Qed.
Lemma eqb_nn : forall a b : N, Z.eqb (Z.of_N a) (Z.of_N b) = N.eqb a b.
Proof. intros. destruct (Z.eqb_spec (Z.of_N a) (Z.of_N b)), (N.eqb_spec a b); try reflexivity; lia. Qed.

Ltac n2z := rewrite ?eqb_nn, ?eqb_c, ?leb_cl, ?leb_cr by lia; cbn [Z.to_N].

Lemma space_zs : forall c, isSQLSpace (Z.of_N c) = g_is_space c.
Proof. intros. unfold isSQLSpace, g_is_space. n2z. reflexivity. Qed.

Lemma idchar_zs : forall c, isSQLIDChar (Z.of_N c) = g_is_idchar c.
Proof. intros. unfold isSQLIDChar, g_is_idchar. n2z. reflexivity. Qed.

Lemma has_prefix_zs : forall p s, bytes_has_prefix (zs s) (zs p) = g_has_prefix p s.
Proof.
  induction p as [|a p IH]; intros s; [destruct s; reflexivity|].
  destruct s as [|x s]; cbn [zs map bytes_has_prefix g_has_prefix]; [reflexivity|].
  rewrite eqb_nn. fold (zs s) (zs p). rewrite IH. reflexivity.
Qed.

Definition zopt (o : option nat) : Z := match o with Some n => Z.of_nat n | None => -1 end.

Lemma index_byte_zs : forall s c, bytes_index_byte (zs s) (Z.of_N c) = zopt (g_index_byte c s).
Proof.
  induction s as [|x s IH]; intros c; cbn [zs map bytes_index_byte g_index_byte]; [reflexivity|].
  rewrite eqb_nn. destruct (N.eqb x c); [reflexivity|].
  fold (zs s). rewrite IH. destruct (g_index_byte c s) as [n|]; cbn [zopt option_map].
  - replace (Z.ltb (Z.of_nat n) 0) with false by (symmetry; apply Z.ltb_ge; lia). lia.
  - reflexivity.
Qed.

Lemma bytes_index_eq : forall s sub,
  bytes_index s sub = if bytes_has_prefix s sub then 0
                      else match s with [] => -1 | _ :: r => let k := bytes_index r sub in if Z.ltb k 0 then -1 else k + 1 end.
Proof. destruct s; reflexivity. Qed.

Lemma index2_zs : forall s a b, bytes_index (zs s) (zs [a; b]) = zopt (g_index2 a b s).
Proof.
  induction s as [|x s IH]; intros a b; [reflexivity|].
  cbn [g_index2]. rewrite bytes_index_eq, has_prefix_zs. cbn [g_has_prefix].
  destruct s as [|y s'].
  - rewrite andb_false_r. reflexivity.
  - rewrite andb_true_r, (N.eqb_sym a x), (N.eqb_sym b y).
    destruct ((x =? a)%N && (y =? b)%N); [reflexivity|].
    change (zs (x :: y :: s')) with (Z.of_N x :: zs (y :: s')). cbv iota zeta. rewrite IH.
    destruct (g_index2 a b (y :: s')) as [n|]; cbn [zopt option_map].
    + replace (Z.ltb (Z.of_nat n) 0) with false by (symmetry; apply Z.ltb_ge; lia). lia.
    + reflexivity.
Qed.

Definition kind_code (k : gkind) : Z :=
  match k with TkSpace => 0 | TkWord => 1 | TkQuoted => 2 | TkSemi => 3 | TkDot => 4 | TkEq => 5 | TkLP => 6 | TkOther => 7 end.

Lemma nth_mid : forall (pre suf : bytes) x, nth (List.length pre) (pre ++ x :: suf) 0%N = x.
Proof. intros. rewrite app_nth2, Nat.sub_diag by lia. reflexivity. Qed.

Lemma len_mid : forall (pre suf : bytes) x, (List.length pre < List.length (pre ++ x :: suf))%nat.
Proof. intros. rewrite app_length. cbn. lia. Qed.

Section Loops.
  Variable R : Type.
  Variable s : bytes.

  (* for ; n < len(s) && p(s[n]); n++ {}  followed by K n *)
  Lemma run_loop_spec : forall (p : N -> bool) (pz : Z -> bool) (K : Z -> option R) (L : nat -> Z -> option R),
    (forall c, pz (Z.of_N c) = p c) ->
    (forall f n, L (S f) n = if (Z.ltb n (zlen (zs s))) && pz (nth (Z.to_nat n) (zs s) 0) then L f (n + 1) else K n) ->
    forall suf pre f, s = pre ++ suf -> (List.length suf < f)%nat ->
      L f (Z.of_nat (List.length pre)) = K (Z.of_nat (List.length pre + g_run p suf)).
  Proof.
    intros p pz K L Hp HL. induction suf as [|x suf IH]; intros pre f Hs Hf; (destruct f as [|f]; [lia|]); rewrite HL, zlen_zs, Nat2Z.id, nth_zs.
    - subst s. rewrite app_nil_r, Z.ltb_irrefl. cbn [andb g_run]. rewrite Nat.add_0_r. reflexivity.
    - subst s. rewrite nth_mid, Hp. cbn [g_run].
      replace (Z.ltb (Z.of_nat (List.length pre)) (Z.of_nat (List.length (pre ++ x :: suf)))) with true
        by (symmetry; apply Z.ltb_lt; pose proof (len_mid pre suf x); lia).
      cbn [andb]. destruct (p x).
      + specialize (IH (pre ++ [x]) f). rewrite <- app_assoc in IH. cbn [app] in IH.
        rewrite app_length in IH. cbn [List.length] in IH.
        replace (Z.of_nat (List.length pre) + 1) with (Z.of_nat (List.length pre + 1)) by lia.
        rewrite IH by (try reflexivity; cbn in Hf; lia). f_equal. lia.
      + rewrite Nat.add_0_r. reflexivity.
  Qed.
End Loops.

Lemma lt_len_true : forall (pre suf : bytes) x,
  Z.ltb (Z.of_nat (List.length pre)) (Z.of_nat (List.length (pre ++ x :: suf))) = true.
Proof. intros. apply Z.ltb_lt. pose proof (len_mid pre suf x). lia. Qed.

Section Loops2.
  Variable s : bytes.

  (* the quote loop *)
  Lemma quote_loop_spec : forall (c : N) (L : nat -> Z -> option (Z * Z)),
    (forall f n, L (S f) n =
       if Z.ltb n (zlen (zs s)) then
         if Z.eqb (nth (Z.to_nat n) (zs s) 0) (Z.of_N c) then
           if (Z.ltb (n + 1) (zlen (zs s))) && (Z.eqb (nth (Z.to_nat (n + 1)) (zs s) 0) (Z.of_N c))
           then L f (n + 1 + 1) else Some (tkQuoted, n + 1)
         else L f (n + 1)
       else Some (tkOther, n)) ->
    forall f suf pre, s = pre ++ suf -> (List.length suf < f)%nat ->
      L f (Z.of_nat (List.length pre)) =
        Some (if fst (g_quote_loop c suf) then tkQuoted else tkOther, Z.of_nat (List.length pre + snd (g_quote_loop c suf))).
  Proof.
    intros c L HL. induction f as [|f IH]; intros suf pre Hs Hf; [lia|].
    rewrite HL, zlen_zs, Nat2Z.id, nth_zs. destruct suf as [|x r].
    - subst s. rewrite app_nil_r, Z.ltb_irrefl. cbn. rewrite Nat.add_0_r. reflexivity.
    - subst s. rewrite lt_len_true, nth_mid, eqb_nn. cbn [g_quote_loop].
      destruct (N.eqb x c).
      + replace (Z.to_nat (Z.of_nat (List.length pre) + 1)) with (List.length (pre ++ [x])) by (rewrite app_length; cbn; lia).
        destruct r as [|y r'].
        * replace (Z.ltb (Z.of_nat (List.length pre) + 1) (Z.of_nat (List.length (pre ++ [x])))) with false
            by (symmetry; apply Z.ltb_ge; rewrite app_length; cbn; lia).
          cbn. do 2 f_equal. lia.
        * replace (pre ++ x :: y :: r') with ((pre ++ [x]) ++ y :: r') by (rewrite <- app_assoc; reflexivity).
          replace (Z.of_nat (List.length pre) + 1) with (Z.of_nat (List.length (pre ++ [x]))) by (rewrite app_length; cbn; lia).
          rewrite lt_len_true, nth_zs, nth_mid, eqb_nn. cbn [andb].
          destruct (N.eqb y c).
          -- specialize (IH r' ((pre ++ [x]) ++ [y])). rewrite <- !app_assoc in IH. cbn [app] in IH.
             replace (Z.of_nat (List.length (pre ++ [x])) + 1) with (Z.of_nat (List.length (pre ++ [x; y])))
               by (rewrite !app_length; cbn; lia).
             rewrite IH by (try reflexivity; cbn in Hf; lia).
             destruct (g_quote_loop c r') as [t k]. cbn [fst snd]. do 2 f_equal. rewrite !app_length. cbn. lia.
          -- cbn. do 2 f_equal. rewrite app_length. cbn. lia.
      + specialize (IH r (pre ++ [x])). rewrite <- app_assoc in IH. cbn [app] in IH.
        replace (Z.of_nat (List.length pre) + 1) with (Z.of_nat (List.length (pre ++ [x]))) by (rewrite app_length; cbn; lia).
        rewrite IH by (try reflexivity; cbn in Hf; lia).
        destruct (g_quote_loop c r) as [t k]. cbn [fst snd]. do 2 f_equal. rewrite app_length. cbn. lia.
  Qed.
End Loops2.

Lemma skipn_case : forall (k : nat) (r : bytes),
  (k < List.length r)%nat /\ (exists t, skipn k r = nth k r 0%N :: t) \/ (List.length r <= k)%nat /\ skipn k r = [].
Proof.
  induction k as [|k IH]; intros r; destruct r as [|y r]; cbn [skipn nth List.length].
  - right. split; [lia|reflexivity].
  - left. split; [lia|eexists; reflexivity].
  - right. split; [lia|reflexivity].
  - destruct (IH r) as [[H [t Ht]]|[H Ht]]; [left; split; [lia|exists t; exact Ht]|right; split; [lia|exact Ht]].
Qed.

Section Loops3.
  Variable s : bytes.

  Definition close_p (b : N) : bool := negb (g_is_space b) && negb (N.eqb b 41).

  Lemma var_loop_spec : forall (L : nat -> Z -> Z -> option (Z * Z)) (I : nat -> Z -> option (Z * Z)),
    (forall f n, I (S f) n =
       if ((Z.ltb n (zlen (zs s))) && (negb (isSQLSpace (nth (Z.to_nat n) (zs s) 0)))) && (negb (Z.eqb (nth (Z.to_nat n) (zs s) 0) 41))
       then I f (n + 1)
       else if (Z.ltb n (zlen (zs s))) && (Z.eqb (nth (Z.to_nat n) (zs s) 0) 41) then Some (tkOther, n + 1) else Some (tkOther, n)) ->
    (forall f n ids, L (S f) n ids =
       if Z.ltb n (zlen (zs s)) then
         if isSQLIDChar (nth (Z.to_nat n) (zs s) 0) then L f (n + 1) (ids + 1)
         else if (Z.eqb (nth (Z.to_nat n) (zs s) 0) 40) && (Z.ltb 0 ids) then I f (n + 1)
         else if bytes_has_prefix (slice_from (zs s) n) [58; 58] then L f (n + 1 + 1) ids
         else Some (tkOther, n)
       else Some (tkOther, n)) ->
    forall f suf pre ids, s = pre ++ suf -> (List.length suf < f)%nat -> 0 <= ids ->
      L f (Z.of_nat (List.length pre)) ids = Some (tkOther, Z.of_nat (List.length pre + g_var_loop (Z.ltb 0 ids) suf)).
  Proof.
    intros L I HI HL.
    assert (Hinner : forall suf pre f, s = pre ++ suf -> (List.length suf < f)%nat ->
      I f (Z.of_nat (List.length pre)) =
        Some (tkOther, Z.of_nat (List.length pre +
          let k := g_run close_p suf in match skipn k suf with y :: _ => if N.eqb y 41 then S k else k | [] => k end))).
    { intros suf pre f Hs Hf.
      rewrite (run_loop_spec _ s close_p (fun z => negb (isSQLSpace z) && negb (Z.eqb z 41))
                 (fun n => if (Z.ltb n (zlen (zs s))) && (Z.eqb (nth (Z.to_nat n) (zs s) 0) 41) then Some (tkOther, n + 1) else Some (tkOther, n))
                 I) with (suf := suf); try assumption.
      - cbv zeta. set (k := g_run close_p suf). rewrite zlen_zs, Nat2Z.id, nth_zs. subst s.
        rewrite app_nth2, app_length by lia. replace (List.length pre + k - List.length pre)%nat with k by lia.
        rewrite eqb_c by lia. cbn [Z.to_N].
        destruct (skipn_case k suf) as [[H [t Ht]]|[H Ht]]; rewrite Ht.
        + replace (Z.ltb (Z.of_nat (List.length pre + k)) (Z.of_nat (List.length pre + List.length suf))) with true
            by (symmetry; apply Z.ltb_lt; lia).
          cbn [andb]. destruct (N.eqb (nth k suf 0%N) 41); do 2 f_equal; lia.
        + replace (Z.ltb (Z.of_nat (List.length pre + k)) (Z.of_nat (List.length pre + List.length suf))) with false
            by (symmetry; apply Z.ltb_ge; lia).
          reflexivity.
      - intros c. unfold close_p. rewrite space_zs, eqb_c by lia. reflexivity.
      - intros f0 n. rewrite HI, <- andb_assoc. reflexivity. }
    induction f as [|f IH]; intros suf pre ids Hs Hf Hids; [lia|].
    rewrite HL, zlen_zs, Nat2Z.id, nth_zs. destruct suf as [|x r].
    - subst s. rewrite app_nil_r, Z.ltb_irrefl. cbn. rewrite Nat.add_0_r. reflexivity.
    - pose proof Hs as Hs'. subst s. rewrite lt_len_true, nth_mid, idchar_zs. cbn [g_var_loop].
      destruct (g_is_idchar x).
      + specialize (IH r (pre ++ [x]) (ids + 1)). rewrite <- app_assoc in IH. cbn [app] in IH.
        replace (Z.of_nat (List.length pre) + 1) with (Z.of_nat (List.length (pre ++ [x]))) by (rewrite app_length; cbn; lia).
        rewrite IH by (try reflexivity; cbn in Hf; lia).
        replace (Z.ltb 0 (ids + 1)) with true by (symmetry; apply Z.ltb_lt; lia).
        do 2 f_equal. rewrite app_length. cbn. lia.
      + rewrite eqb_c by lia. cbn [Z.to_N]. destruct ((x =? 40)%N && (0 <? ids)) eqn:Ep.
        * specialize (Hinner r (pre ++ [x]) f). rewrite <- app_assoc in Hinner. cbn [app] in Hinner.
          replace (Z.of_nat (List.length pre) + 1) with (Z.of_nat (List.length (pre ++ [x]))) by (rewrite app_length; cbn; lia).
          rewrite Hinner by (try reflexivity; cbn in Hf; lia). cbv zeta. fold close_p.
          set (k := g_run close_p r). do 2 f_equal. rewrite app_length. cbn [List.length].
          destruct (skipn k r) as [|y t]; [lia|]. destruct (N.eqb y 41); lia.
        * replace (slice_from (zs (pre ++ x :: r)) (Z.of_nat (List.length pre))) with (zs (x :: r))
            by (rewrite skipn_zs, skipn_app, skipn_all, Nat.sub_diag; reflexivity).
          change [58; 58] with (zs [58; 58]%N). rewrite has_prefix_zs.
          destruct (g_has_prefix [58%N; 58%N] (x :: r)) eqn:Eh.
          -- destruct r as [|y r']; [cbn in Eh; rewrite andb_false_r in Eh; discriminate|].
             specialize (IH r' (pre ++ [x; y]) ids). rewrite <- app_assoc in IH. cbn [app] in IH.
             replace (Z.of_nat (List.length pre) + 1 + 1) with (Z.of_nat (List.length (pre ++ [x; y]))) by (rewrite app_length; cbn; lia).
             rewrite IH by (try reflexivity; cbn in Hf; lia).
             do 2 f_equal. rewrite app_length. cbn. lia.
          -- rewrite Nat.add_0_r. reflexivity.
  Qed.
End Loops3.

Arguments sqlToken _ _ : assert.

Lemma zopt_lt0 : forall o, Z.ltb (zopt o) 0 = match o with Some _ => false | None => true end.
Proof. intros [n|]; cbn [zopt]; [apply Z.ltb_ge; lia|reflexivity]. Qed.

Lemma ltb_nat_c : forall (k : Z) (n : nat), 0 <= k -> Z.ltb k (Z.of_nat n) = Nat.ltb (Z.to_nat k) n.
Proof. intros. destruct (Z.ltb_spec k (Z.of_nat n)), (Nat.ltb_spec (Z.to_nat k) n); try reflexivity; lia. Qed.

(* The top of sqlToken is a chain of tests on the first byte.  Rather than following the chain in
   the order of the source, the proof decides one atomic test at a time, on whichever side still has
   an undecided `if`, so the order of the cases and of the operands of && / || does not matter. *)
Ltac left_atom b :=
  lazymatch b with
  | ?x && _ => left_atom x
  | ?x || _ => left_atom x
  | negb ?x => left_atom x
  | match ?o with Some _ => _ | None => _ end => o
  | _ => b
  end.
Ltac decide_atom b := let a := left_atom b in let E := fresh "E" in destruct a eqn:E; cbn [andb orb negb zopt].
Ltac step_lhs := lazymatch goal with |- (if ?b then _ else _) = _ => decide_atom b end.
Ltac step_rhs :=
  lazymatch goal with
  | |- _ = ?rhs => lazymatch rhs with
                   | context [if ?b then _ else _] => decide_atom b
                   | context [match ?o with Some _ => _ | None => _ end] => let E := fresh "E" in destruct o eqn:E
                   | context [let '(_, _) := ?p in _] => let E := fresh "E" in destruct p eqn:E
                   end
  end.
(* contradictory decisions about the first byte *)
Ltac byte_facts :=
  repeat match goal with
         | H : (_ =? _)%N = true |- _ => apply N.eqb_eq in H
         | H : (_ =? _)%N = false |- _ => apply N.eqb_neq in H
         end;
  subst; try discriminate; try congruence;
  try (match goal with H : _ = true |- _ => vm_compute in H; discriminate H | H : _ = false |- _ => vm_compute in H; discriminate H end).

Theorem gen_sqlToken_eq : forall (s : bytes) (fuel : nat), s <> [] -> (List.length s < fuel)%nat ->
  sqlToken (zs s) fuel = Some (kind_code (fst (g_token s)), Z.of_nat (snd (g_token s))).
Proof.
  intros s fuel Hne Hf. destruct s as [|c r]; [congruence|]. clear Hne.
  assert (Hs : c :: r = [c] ++ r) by reflexivity.
  assert (Hf' : (List.length r < fuel)%nat) by (cbn in Hf; lia).
  unfold sqlToken, g_token.
  change (nth (Z.to_nat 0) (zs (c :: r)) 0) with (Z.of_N c).
  change (nth (Z.to_nat 1) (zs (c :: r)) 0) with (nth 1 (zs (c :: r)) 0).
  cbv zeta.
  rewrite ?space_zs, ?idchar_zs, ?nth_zs.
  repeat match goal with
         | |- context [bytes_has_prefix (zs (c :: r)) ?l] =>
             let l' := eval cbv in (map Z.to_N l) in change l with (zs l'); rewrite has_prefix_zs
         | |- context [bytes_index_byte ?t ?k] =>
             lazymatch k with Z.of_N _ => fail | _ => let k' := eval cbv in (Z.to_N k) in change (bytes_index_byte t k) with (bytes_index_byte t (Z.of_N k')) end
         | |- context [bytes_index ?t ?l] =>
             lazymatch l with zs _ => fail | _ => let l' := eval cbv in (map Z.to_N l) in change (bytes_index t l) with (bytes_index t (zs l')) end
         | |- context [slice_from (zs (c :: r)) ?k] =>
             lazymatch k with Z.of_nat _ => fail | _ => let k' := eval cbv in (Z.to_nat k) in change (slice_from (zs (c :: r)) k) with (slice_from (zs (c :: r)) (Z.of_nat k')) end
         end.
  rewrite ?skipn_zs, ?index_byte_zs, ?index2_zs, ?zopt_lt0, !zlen_zs.
  rewrite ?ltb_nat_c by lia. n2z. cbn [Z.to_nat Pos.to_nat Pos.iter_op Nat.add].
  repeat step_lhs;
  (* every leaf: a result, or one of the four loops entered at n = 1 *)
  try (change 1 with (Z.of_nat (List.length [c]));
       first
         [ erewrite (run_loop_spec _ (c :: r) g_is_space isSQLSpace) with (suf := r);
             [|exact space_zs|intros; rewrite zlen_zs; reflexivity|exact Hs|exact Hf']
         | erewrite (run_loop_spec _ (c :: r) g_is_idchar isSQLIDChar) with (suf := r);
             [|exact idchar_zs|intros; rewrite zlen_zs; reflexivity|exact Hs|exact Hf']
         | erewrite (quote_loop_spec (c :: r) c) with (suf := r); [|intros; rewrite zlen_zs; reflexivity|exact Hs|exact Hf']
         | erewrite (var_loop_spec (c :: r)) with (suf := r); cycle 2;
             [intros ? ? ?; rewrite zlen_zs; reflexivity|exact Hs|exact Hf'|lia| |intros ? ?; rewrite zlen_zs; reflexivity] ]);
  cbv beta;
  repeat step_rhs;
  cbn [fst snd kind_code zopt];
  first [reflexivity | (do 2 f_equal; clear; lia) | solve [byte_facts] | (exfalso; lia)].
Qed.
