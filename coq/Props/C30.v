(* C30 — property theorems only. *)
From Coq Require Import List String NArith ZArith.
From RQ Require Import Lib.AList Model.C30 Proofs.C30.

(* binding: whatever the API accepts is stored as the value the JSON denotes (full) *)
Theorem C30_bind_preserves : forall j p, make_parameter j = POk p -> denotes j (bind p).
Proof. exact bind_sound. Qed.
Print Assumptions C30_bind_preserves.

(* binding: every JSON value with a SQLite counterpart is accepted and bound as exactly that value (full) *)
Theorem C30_bind_accepts : forall j v, denotes j v -> exists p, make_parameter j = POk p /\ bind p = v.
Proof. exact bind_complete. Qed.
Print Assumptions C30_bind_accepts.

Theorem C30_int64_exact : forall z, int64 z -> parse_int64 (print_Z z) = Some z.
Proof. exact parse_print_Z. Qed.
Print Assumptions C30_int64_exact.

Theorem C30_positional_slot : forall items ps k j,
  make_parameters items = (ps, nil) -> nth_error items k = Some (EmptyString, j) ->
  denotes j (slot_value ps (SlotPos (S k))).
Proof. exact positional_slot. Qed.
Print Assumptions C30_positional_slot.

Theorem C30_named_slot : forall pre post ps nm j,
  make_parameters (pre ++ (nm, j) :: post) = (ps, nil) -> Forall (fun it => fst it <> nm) post ->
  denotes j (slot_value ps (SlotName nm)).
Proof. exact named_slot. Qed.
Print Assumptions C30_named_slot.

(* read-back, standard form: every cell that is not a BLOB under an untyped/text-like column comes back exactly (partial) *)
Theorem C30_readback_lossless_partial_std : forall remote ba cols decls rows oc ot ov i row j v d,
  resp_matches remote false ba cols decls rows (RStd oc ot ov) = true ->
  nth_error rows i = Some row -> nth_error row j = Some v -> nth_error decls j = Some d ->
  wf_sval v -> returned_exactly v d ->
  exists o, std_cell ov i j = Some o /\ reads_as ba o v.
Proof. exact table_lossless_std. Qed.
Print Assumptions C30_readback_lossless_partial_std.

(* read-back, associative form (distinct column names) (partial) *)
Theorem C30_readback_lossless_partial_assoc : forall remote ba cols decls rows ot orows i row j v d c,
  resp_matches remote true ba cols decls rows (RAssoc ot orows) = true ->
  NoDup cols -> nth_error cols j = Some c ->
  nth_error rows i = Some row -> nth_error row j = Some v -> nth_error decls j = Some d ->
  wf_sval v -> returned_exactly v d ->
  exists o, assoc_cell orows i c = Some o /\ reads_as ba o v.
Proof. exact table_lossless_assoc. Qed.
Print Assumptions C30_readback_lossless_partial_assoc.

(* a JSON cell read as a given storage class determines the value: no two values share a JSON form *)
Theorem C30_json_form_injective : forall f o v1 v2,
  reads_as f o v1 -> reads_as f o v2 -> class_of v1 = class_of v2 -> wf_sval v1 -> wf_sval v2 -> v1 = v2.
Proof. exact reads_as_determines. Qed.
Print Assumptions C30_json_form_injective.

(* the pinned tree: BLOBs under an untyped/text-like type lose information (refuted) *)
Theorem C30_readback_lossless_refuted :
  exists ty v1 v2, is_text_type ty = true /\ v1 <> v2 /\ class_of v1 = KBlob /\ class_of v2 = KBlob
    /\ wf_sval v1 /\ wf_sval v2
    /\ encode_cell false (normalize_cell ty v1) = encode_cell false (normalize_cell ty v2)
    /\ (forall o, cell_matches (encode_cell false (normalize_cell ty v1)) o = true -> ~ reads_as false o v1).
Proof. exact readback_refuted. Qed.
Print Assumptions C30_readback_lossless_refuted.

Theorem C30_forwarded_query_refuted :
  exists cols decls rows, resp_matches true false false cols decls rows RFail = true
     /\ forall oc ot ov, resp_matches true false false cols decls rows (RStd oc ot ov) = false.
Proof. exact forwarded_query_refuted. Qed.
Print Assumptions C30_forwarded_query_refuted.
