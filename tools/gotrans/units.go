package main

// The functions that are translated.  One unit = one output file coq/Gen/<name>.v.
// funcs are keys "Func" or "ReceiverType.Method" looked up in the non-test files of dir;
// file is only used in messages.
type unit struct {
	name, dir, file string
	funcs           []string
	hints           string   // Go declarations (types, constants, bodyless funcs) of what is used from other packages, pkg.X written pkg_X
	actions         []string // receiver fields (interfaces to the outside) whose method calls are recorded, in order, as effects
	bytestr         bool     // a Go string is a list of bytes (list Z): indexing, slicing, strings.HasPrefix/IndexByte/Index from Lib/GoLib.v
	join            bool     // an `if` that only assigns variables becomes `let vars := if .. in` instead of duplicating the code after it
	clock           bool     // time.Now() reads, and time.Sleep(d) advances, an explicit clock `now_` that is also passed to the untranslated methods of the receiver
	foreign         []string // functions of the package that stay Section Variables even though they could be translated
	drop            []string // statements calling something whose source text starts with one of these are left out (statistics, logging)
}

var units = []unit{
	{name: "Auth", dir: "auth", file: "credential_store.go", funcs: []string{
		"CredentialsStore.Check", "CredentialsStore.HasPerm", "CredentialsStore.HasAnyPerm", "CredentialsStore.AA"}},
	{name: "StoreState", dir: "store", file: "state.go", funcs: []string{"IsStaleRead"}},
	{name: "Throttler", dir: "store/throttler", file: "throttler.go", funcs: []string{
		"Throttler.touch", "Throttler.Signal", "Throttler.Release", "Throttler.Reset"}},
	{name: "Cas", dir: "internal/rsync", file: "cas.go", funcs: []string{"CheckAndSet.Begin", "CheckAndSet.End", "CheckAndSet.Owner"}},
	{name: "Mrsw", dir: "internal/rsync", file: "multir_singlew.go", funcs: []string{
		"MultiRSW.BeginRead", "MultiRSW.EndRead", "MultiRSW.BeginWrite", "MultiRSW.EndWrite", "MultiRSW.UpgradeToWriter"}},
	{name: "ReadyTarget", dir: "internal/rsync", file: "ready_target.go", funcs: []string{
		"ReadyTarget.Subscribe", "ReadyTarget.Unsubscribe", "ReadyTarget.Signal", "ReadyTarget.Reset"}},
	{name: "WalResetWatch", dir: "db", file: "wal_reset_watch.go", funcs: []string{
		"WALResetWatch.Arm", "WALResetWatch.Disarm", "WALResetWatch.Check"}},
	{name: "Marshal", dir: "command", file: "marshal.go", funcs: []string{"RequestMarshaler.Marshal"}, foreign: []string{"gzCompress"},
		drop: []string{"stats."},
		hints: `
type proto_Request interface{}
type proto_Statement struct{ Sql string }
func (r proto_Request) GetStatements() []*proto_Statement
func pb_Marshal(m Requester) ([]byte, error)
`},
	{name: "RaftConfig", dir: "store", file: "state.go", funcs: []string{"checkRaftConfiguration"},
		hints: `
type raft_ServerID string
type raft_ServerAddress string
type raft_ServerSuffrage int
const raft_Voter raft_ServerSuffrage = 0
type raft_Server struct {
	Suffrage raft_ServerSuffrage
	ID       raft_ServerID
	Address  raft_ServerAddress
}
type raft_Configuration struct{ Servers []raft_Server }
func strings_Contains(s, substr string) bool
func net_SplitHostPort(hostport string) (host, port string, err error)
`},
	{name: "Queue", dir: "queue", file: "queue.go", funcs: []string{"mergeQueued"}},
	{name: "Uploader", dir: "auto/backup", file: "uploader.go", funcs: []string{"Uploader.upload"}, foreign: []string{"tempFD"},
		actions: []string{"dataProvider", "storageClient"},
		drop:    []string{"stats.", "u.logger."},
		hints: `
type os_File interface{}
type progress_CountingReader interface{}
const io_SeekStart = 0
func (f os_File) Name() string
func (f os_File) Seek(offset int64, whence int) (int64, error)
func strconv_FormatUint(i uint64, base int) string
func progress_NewCountingReader(r os_File) progress_CountingReader
`},
	{name: "SnapshotSet", dir: "snapshot", file: "snapshot.go", funcs: []string{
		"Snapshot.Less", "SnapshotSet.NewestFull", "SnapshotSet.PartitionAtFull"},
		hints: `
type raft_SnapshotMeta struct {
	Index uint64
	Term  uint64
}
`},
	{name: "CasRetry", dir: "internal/rsync", file: "cas.go", funcs: []string{"CheckAndSet.BeginWithRetry"}, clock: true, foreign: []string{"CheckAndSet.Begin"},
		hints: `
func errors_Is(err, target error) bool
`},
	{name: "SqlToken", dir: "db", file: "state.go", funcs: []string{"isSQLSpace", "isSQLIDChar", "asciiLower", "sqlToken", "IsBreakingPragma"}, bytestr: true, join: true},
}

// layouts: the struct layouts the lemmas were written against ("Unit.Struct" -> field:GallinaType in the order of the
// generated Record).  A struct of the tree is matched against its layout first by field name; fields that are left
// over on both sides (a rename) are paired in order when their types agree.  The generated Record always uses the
// names and the order given here, so renaming or reordering fields does not change the generated definitions.
var layouts = map[string]string{
	"Auth.CredentialsStore":       "store:alist string, perms:alist (alist bool)",
	"Cas.CheckAndSet":             "state:bool, owner:string, startT:Z",
	"CasRetry.CheckAndSet":        "state:bool, owner:string, startT:Z",
	"Marshal.RequestMarshaler":    "BatchThreshold:Z, SizeThreshold:Z, ForceCompression:bool",
	"Mrsw.MultiRSW":               "owner:string, numReaders:Z",
	"Queue.queuedObjects":         "SequenceNumber:Z, Objects:list T, flushChan:FlushChannel",
	"Queue.Request":               "SequenceNumber:Z, Objects:list T, flushChans:list FlushChannel",
	"ReadyTarget.Subscriber":      "target:T, ch:chan_T",
	"ReadyTarget.ReadyTarget":     "currentTarget:T, subscribers:list Subscriber",
	"SnapshotSet.Snapshot":        "id:string, path:string, typ:Z, raftMeta:raft_SnapshotMeta, dbFile:ChecksummedFile, walFiles:list ChecksummedFile",
	"SnapshotSet.SnapshotSet":     "dir:string, items:list Snapshot",
	"Throttler.Throttler":         "delayFactor:Z, delays:list Z, releaseRate:Z, idleTimeout:Z, timer:option time_Timer",
	"Uploader.Uploader":           "storageClient:StorageClient, dataProvider:DataProvider, interval:Z, logger:option log_Logger, lastUploadTime:Z, lastUploadDuration:Z, lastIndex:Z",
	"WalResetWatch.WALResetWatch": "armed:bool, salt:wal_Salt, resumeFrameIdx:Z",
}
