# C33 — configuration read by bin/check (see checks/registry.py)
SPEC = dict(
    title="Manual recovery keeps all applied data",
    pkg="./store", files=["store/c33_verif_test.go", "store/c33_c01_common_verif_test.go"],
    rule="single-node histories (q: 53 hand-picked + 60 generated, t: 1500) of 2-10 steps over a parent/child database: multi-statement and transactional requests "
         "with primary-key and foreign-key violating statements, user snapshots that truncate the log or not, whole-database loads, loads of unreadable data that every node refuses (4 kinds); foreign keys on/off and "
         "snapshot-on-close on/off as configuration dimensions; shutdown; one of 17 kinds of peers.json (valid: self, self+others, moved address, others only, "
         "self as non-voter; invalid: duplicate id/address, no voter, empty id/address, protocol in address, no port, too many colons, empty list, malformed JSON); "
         "before the re-open 0-2 recovery attempts that fail (I/O error from the snapshot store or the log store) or die (crash image of the data directory) at one of 11 points inside RecoverNode (list, open snapshot, first/last GetLog, Create, sink Write, sink Close, after Close, FirstIndex, DeleteRange, after DeleteRange); re-open. A case is non-trivial when the peers file is valid and log entries after the newest snapshot had to be replayed; distinct by the whole input",
    exhaustive=False,
    trusted=["SQLite's primary-key / foreign-key semantics for the five statement forms of the model database (exec_stmt) — checked on every case against the live node's dump",
             "hashicorp/raft restores the newest snapshot of the snapshot store on start and applies later log entries (contents); raft.ReadConfigJSON",
             "the driver's reading of the closed node (raft log via store/log, newest snapshot via snapshot.Restore) and its record of which command went to which index (cross-checked against the log)"],
    assumptions=["addresses in generated peers files contain no brackets (IPv6 literals are outside the model of net.SplitHostPort)",
                 "a failed Open is followed by a process exit (the driver releases the file handles a failed Open leaves behind)"],
    level_text="C33_recover holds for every node that is a snapshot-plus-log view of any history (wf), every foreign-key setting and every peers file; "
               "C33_configuration_check characterises the accepted peers files. The state machine is abstract in Lib/C33_Log.v (replay_split) and instantiated with the "
               "parent/child database the driver uses.",
    level_note="Model = RecoverNode + checkRaftConfiguration + what a restart yields; tie = real Store on generated histories, disk state read back into the model; "
               "oracle = dump before shutdown vs dump after re-open, configuration vs peers file.",
    technique="Coq proof (generic log split lemma + instance) + differential run of real recovery + dump/configuration oracle",
    design_ref="6/C33",
    case_preamble="Open Scope string_scope.\nOpen Scope N_scope.\n",
    go_args=[],
    timeout_quick=400, timeout_thorough=3600,
)
