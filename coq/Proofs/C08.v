(* C08 — proofs about Model/C08.v, with the crash schema of Lib/C07_Crash.v.
   Specification (from the property text): whatever micro-step the start-up sequence is
   interrupted at, and however often, the next start completes the upgrade: the node ends with
   the v10 store holding one complete snapshot (meta.json and database of the newest old
   snapshot), and nothing else. *)
From Coq Require Import List NArith Bool Arith Lia.
From RQ Require Import Lib.C07_Crash Model.C08.
Import ListNotations.

Lemma rm_tree_triple : forall (I P : node -> Prop) get set,
  (forall v s, P s -> P (set v s)) -> (forall v s, get (set v s) = v) -> (forall s, P s -> I s) ->
  triple I P (rm_tree get set) (fun s => P s /\ get s = None).
Proof.
  intros I P get set Hframe Hget HI. unfold rm_tree. apply triple_dyn. intros s1 HP.
  destruct (get s1) as [k|] eqn:E.
  - eapply triple_seq with (Q := P).
    + eapply triple_conseq; [| |apply (triple_seqs_map I (fun _ => P))].
      * intros s ->. exact HP.
      * intros s H. exact H.
      * intros a rest. apply triple_step. intros s Hs. split; [apply HI|]; apply Hframe; exact Hs.
    + apply triple_step. intros s Hs. split; [apply HI; apply Hframe; exact Hs|].
      split; [apply Hframe; exact Hs|apply Hget].
  - intros s ->. split; [constructor|]. exists s1. split; [reflexivity|]. split; assumption.
Qed.

Lemma triple_noop : forall {S} (I P : S -> Prop) (r : C07_Crash.run S),
  (forall s, P s -> r s = ([], Some s)) -> triple I P r P.
Proof.
  intros S I P r H s HP. unfold trace, result. rewrite (H s HP). cbn. split; [constructor|].
  exists s. split; [reflexivity|exact HP].
Qed.

Section Proofs.
  Variables n7 n8 : nat.
  Hypothesis Hn7 : n7 <> 0.     (* the old directory holds at least one snapshot *)
  Hypothesis Hn8 : n8 <> 0.

  Notation up78 := (up78 n8).
  Notation up810 := (up810 n8).
  Notation open_node := (open_node n8).

  (* phases of the whole sequence; a field not mentioned is unconstrained *)
  (* 7->8 before its rename: the v7 directory is intact, the temporary directory is anything *)
  Definition Q0 (s : node) : Prop :=
    d7 s = Some n7 /\ d8 s = None /\ pl s = false /\ pltmp s = false /\ t10 s = None /\ d10 s = None.
  (* complete v8 directory in place, 8->10 plan not yet written; the v7 directory is being removed *)
  Definition Q1 (s : node) : Prop :=
    t8 s = None /\ d8 s = Some n8 /\ pl s = false /\ t10 s = None /\ d10 s = None.
  (* plan written, its rename not yet done; the v10 temporary directory is anything *)
  Definition Q2 (s : node) : Prop :=
    d7 s = None /\ t8 s = None /\ d8 s = Some n8 /\ pl s = true /\ pltmp s = false /\ d10 s = None.
  (* plan's rename done; the v8 directory is being removed *)
  Definition Q3 (s : node) : Prop :=
    d7 s = None /\ t8 s = None /\ pl s = true /\ pltmp s = false /\ t10 s = None /\ d10 s = Some whole10.
  Definition Q4 (s : node) : Prop :=
    d7 s = None /\ t8 s = None /\ d8 s = None /\ pl s = false /\ pltmp s = false /\ t10 s = None /\ d10 s = Some whole10.
  Definition Inv (s : node) : Prop := Q0 s \/ Q1 s \/ Q2 s \/ Q3 s \/ Q4 s.

  Lemma Q4_upgraded : forall s, Q4 s -> upgraded s = true.
  Proof. intros s (H1 & H2 & H3 & H4 & H5 & H6 & H7). unfold upgraded. rewrite H1, H2, H3, H4, H5, H6, H7. reflexivity. Qed.

  Lemma I0 : forall s, Q0 s -> Inv s. Proof. intros; left; assumption. Qed.
  Lemma I1 : forall s, Q1 s -> Inv s. Proof. intros; right; left; assumption. Qed.
  Lemma I2 : forall s, Q2 s -> Inv s. Proof. intros; right; right; left; assumption. Qed.
  Lemma I3 : forall s, Q3 s -> Inv s. Proof. intros; right; right; right; left; assumption. Qed.
  Lemma I4 : forall s, Q4 s -> Inv s. Proof. intros; right; right; right; right; assumption. Qed.

  (* ---------- Upgrade7To8 ---------- *)
  Lemma Q0_t8 : forall v s, Q0 s -> Q0 (set_t8 v s).
  Proof. intros v s H. exact H. Qed.

  Lemma step_Q0 : forall f, (forall s, Q0 s -> Q0 (f s)) -> triple Inv Q0 (step f) Q0.
  Proof. intros f H. apply triple_step. intros s Hs. split; [apply I0|]; apply H; exact Hs. Qed.

  Lemma build8_triple : triple Inv Q0 (build8 n8) (fun s => Q1 s /\ d7 s = Some n7).
  Proof.
    unfold build8. cbn [seqs].
    do 6 (eapply triple_seq; [apply step_Q0; intros s Hs; unfold upd_t8; apply Q0_t8; exact Hs|]).
    eapply triple_seq; [|apply triple_ret]. apply triple_step.
    intros s (H1 & H2 & H3 & H4 & H5 & H6).
    assert (HQ : Q1 (set_t8 None (set_d8 (Some n8) s))) by (repeat split; assumption).
    split; [apply I1; exact HQ|]. split; [exact HQ|exact H1].
  Qed.

  Lemma Q1_d7 : forall v s, Q1 s -> Q1 (set_d7 v s).
  Proof. intros v s H. exact H. Qed.

  Lemma up78_Q0 : triple Inv Q0 up78 (fun s => Q1 s /\ d7 s = None).
  Proof.
    unfold C08.up78. eapply triple_seq with (Q := Q0).
    - apply triple_dyn. intros s1 H1. destruct (is_some (t8 s1)).
      + apply triple_step. intros s ->. split; [apply I0|]; apply Q0_t8; exact H1.
      + intros s ->. split; [constructor|]. exists s1. split; [reflexivity|exact H1].
    - apply triple_dyn. intros s1 H1. pose proof H1 as (Hd7 & Hd8 & _). rewrite Hd7, Hd8.
      destruct (Nat.eqb_spec n7 0) as [E0|_]; [contradiction|]. cbn [is_some].
      eapply triple_seq with (Q := fun s => Q1 s /\ d7 s = Some n7).
      + eapply triple_conseq; [| |apply build8_triple]; [intros s ->; exact H1|intros s H; exact H].
      + eapply triple_conseq; [| |apply (rm_tree_triple Inv Q1 d7 set_d7 Q1_d7 (fun v s => eq_refl) I1)].
        * intros s (H & _). exact H.
        * intros s H. exact H.
  Qed.

  Lemma up78_Q1 : triple Inv Q1 up78 (fun s => Q1 s /\ d7 s = None).
  Proof.
    unfold C08.up78. eapply triple_seq with (Q := Q1).
    - apply triple_dyn. intros s1 H1. pose proof H1 as (Ht8 & _). rewrite Ht8. cbn [is_some].
      intros s ->. split; [constructor|]. exists s1. split; [reflexivity|exact H1].
    - apply triple_dyn. intros s1 H1. pose proof H1 as (_ & Hd8 & _).
      destruct (d7 s1) as [k|] eqn:E; [destruct (Nat.eqb_spec k 0) as [E0|E0]|].
      + apply triple_step. intros s ->. split; [apply I1; apply Q1_d7; exact H1|]. split; [apply Q1_d7; exact H1|reflexivity].
      + rewrite Hd8. cbn [is_some].
        eapply triple_conseq; [| |apply (rm_tree_triple Inv Q1 d7 set_d7 Q1_d7 (fun v s => eq_refl) I1)].
        * intros s ->. exact H1.
        * intros s H. exact H.
      + intros s ->. split; [constructor|]. exists s1. split; [reflexivity|]. split; assumption.
  Qed.

  Lemma up78_noop : forall s, d7 s = None -> t8 s = None -> up78 s = ([], Some s).
  Proof. intros s H7 H8. unfold C08.up78, seq, dyn. rewrite H8. cbn. rewrite H7. reflexivity. Qed.

  (* ---------- Upgrade8To10 ---------- *)
  Lemma Q2_t10 : forall v s, Q2 s -> Q2 (set_t10 v s).
  Proof. intros v s H. exact H. Qed.

  Definition B (P : tmp10 -> Prop) (s : node) : Prop := Q2 s /\ exists t, t10 s = Some t /\ P t.

  Lemma step_upd_t10 : forall (P P' : tmp10 -> Prop) f, (forall t, P t -> P' (f t)) ->
    triple Inv (B P) (step (upd_t10 f)) (B P').
  Proof.
    intros P P' f H. apply triple_step. intros s (HQ & t & Ht & HP).
    assert (HB : B P' (upd_t10 f s)).
    { split; [unfold upd_t10; apply Q2_t10; exact HQ|]. exists (f t). unfold upd_t10. cbn. rewrite Ht. split; [reflexivity|apply H; exact HP]. }
    split; [apply I2; exact (proj1 HB)|exact HB].
  Qed.

  Lemma plan_build_triple : triple Inv Q2
    (seqs [op_mkdir_tmp; op_mkdir_id; op_write_meta; op_copy n8; op_crc])
    (fun s => Q2 s /\ t10 s = Some whole10).
  Proof.
    cbn [seqs].
    (* mkdir tmp *)
    eapply triple_seq with (Q := B (fun _ => True)).
    { unfold op_mkdir_tmp. apply triple_dyn. intros s1 H1. destruct (t10 s1) as [t|] eqn:E; cbn [is_some].
      - intros s ->. split; [constructor|]. exists s1. split; [reflexivity|]. split; [exact H1|exists t; split; [exact E|exact I]].
      - apply triple_step. intros s ->. split; [apply I2; apply Q2_t10; exact H1|].
        split; [apply Q2_t10; exact H1|]. exists empty10. split; [reflexivity|exact I]. }
    (* mkdir tmp/<id> *)
    eapply triple_seq with (Q := B (fun t => b_id t = true)).
    { unfold op_mkdir_id. apply triple_dyn. intros s1 (H1 & t & Ht & _). rewrite Ht. destruct (b_id t) eqn:Eid.
      - intros s ->. split; [constructor|]. exists s1. split; [reflexivity|]. split; [exact H1|exists t; split; assumption].
      - eapply triple_conseq; [| |apply (step_upd_t10 (fun _ => True) (fun t => b_id t = true))].
        + intros s ->. split; [exact H1|exists t; split; [exact Ht|exact I]].
        + intros s H. exact H.
        + intros t0 _. reflexivity. }
    (* write meta *)
    eapply triple_seq with (Q := B (fun t => b_id t = true /\ b_meta t = FW)).
    { unfold op_write_meta. apply triple_dyn. intros s1 (H1 & t & Ht & Hid). unfold has_id. rewrite Ht, Hid.
      eapply triple_seq with (Q := B (fun t => b_id t = true)).
      - eapply triple_conseq; [| |apply (step_upd_t10 (fun t => b_id t = true) (fun t => b_id t = true))].
        + intros s ->. split; [exact H1|exists t; split; assumption].
        + intros s H. exact H.
        + intros t0 H. exact H.
      - apply step_upd_t10. intros t0 H. split; [exact H|reflexivity]. }
    (* copy *)
    eapply triple_seq with (Q := B (fun t => b_id t = true /\ b_meta t = FW /\ b_db t = FW)).
    { unfold op_copy. apply triple_dyn. intros s1 (H1 & t & Ht & Hid & Hmeta).
      pose proof H1 as (_ & _ & Hd8 & _). rewrite Hd8, Nat.eqb_refl. unfold has_id. rewrite Ht, Hid. cbn [andb].
      eapply triple_seq with (Q := B (fun t => b_id t = true /\ b_meta t = FW)).
      - eapply triple_conseq; [| |apply (step_upd_t10 (fun t => b_id t = true /\ b_meta t = FW) (fun t => b_id t = true /\ b_meta t = FW))].
        + intros s ->. split; [exact H1|exists t; split; [exact Ht|split; assumption]].
        + intros s H. exact H.
        + intros t0 H. exact H.
      - apply step_upd_t10. intros t0 (Ha & Hb). repeat split; assumption. }
    (* crc *)
    eapply triple_seq; [|apply triple_ret].
    unfold op_crc. apply triple_dyn. intros s1 (H1 & t & Ht & Hid & Hmeta & Hdb). unfold has_db. rewrite Ht, Hdb. cbn [fst_eqb negb].
    eapply triple_seq with (Q := B (fun t => b_id t = true /\ b_meta t = FW /\ b_db t = FW)).
    - eapply triple_conseq; [| |apply (step_upd_t10 (fun t => b_id t = true /\ b_meta t = FW /\ b_db t = FW) (fun t => b_id t = true /\ b_meta t = FW /\ b_db t = FW))].
      + intros s ->. split; [exact H1|exists t; split; [exact Ht|repeat split; assumption]].
      + intros s H. exact H.
      + intros t0 H. exact H.
    - eapply triple_conseq; [| |apply (step_upd_t10 (fun t => b_id t = true /\ b_meta t = FW /\ b_db t = FW) (fun t => t = whole10))].
      + intros s H. exact H.
      + intros s (HQ & t0 & Ht0 & ->). split; [exact HQ|exact Ht0].
      + intros t0 (Ha & Hb & Hc). destruct t0; cbn in *; subst; reflexivity.
  Qed.

  Lemma Q3_d8 : forall v s, Q3 s -> Q3 (set_d8 v s).
  Proof. intros v s H. exact H. Qed.

  Lemma plan_tail_triple : triple Inv (fun s => Q2 s /\ t10 s = Some whole10)
    (seqs [op_rename; op_remove_old]) (fun s => Q3 s /\ d8 s = None).
  Proof.
    cbn [seqs]. eapply triple_seq with (Q := Q3).
    - unfold op_rename. apply triple_dyn. intros s1 ((H1 & H2 & H3 & H4 & H5 & H6) & Ht). rewrite Ht, H6. cbn [is_some].
      apply triple_step. intros s ->.
      assert (HQ : Q3 (set_t10 None (set_d10 (Some whole10) s1))) by (repeat split; assumption).
      split; [apply I3; exact HQ|exact HQ].
    - eapply triple_seq; [|apply triple_ret]. unfold op_remove_old.
      apply (rm_tree_triple Inv Q3 d8 set_d8 Q3_d8 (fun v s => eq_refl) I3).
  Qed.

  Lemma plan_triple : triple Inv Q2 (seqs (plan_ops n8)) (fun s => Q3 s /\ d8 s = None).
  Proof.
    change (plan_ops n8) with ([op_mkdir_tmp; op_mkdir_id; op_write_meta; op_copy n8; op_crc] ++ [op_rename; op_remove_old]).
    eapply triple_seqs_app; [apply plan_build_triple|apply plan_tail_triple].
  Qed.

  Lemma finish_triple : triple Inv (fun s => Q3 s /\ d8 s = None) (step (set_pl false)) Q4.
  Proof.
    apply triple_step. intros s ((H1 & H2 & H3 & H4 & H5 & H6) & H8).
    assert (HQ : Q4 (set_pl false s)) by (repeat split; assumption).
    split; [apply I4; exact HQ|exact HQ].
  Qed.

  Lemma Q1_pltmp : forall v s, Q1 s -> Q1 (set_pltmp v s).
  Proof. intros v s H. exact H. Qed.

  Lemma up810_Q1 : triple Inv (fun s => Q1 s /\ d7 s = None) up810 Q4.
  Proof.
    unfold C08.up810. eapply triple_seq with (Q := fun s => Q1 s /\ d7 s = None /\ pltmp s = false).
    - apply triple_dyn. intros s1 (H1 & H7). destruct (pltmp s1) eqn:E.
      + apply triple_step. intros s ->. split; [apply I1; apply Q1_pltmp; exact H1|].
        split; [apply Q1_pltmp; exact H1|]. split; [exact H7|reflexivity].
      + intros s ->. split; [constructor|]. exists s1. split; [reflexivity|]. split; [exact H1|split; [exact H7|exact E]].
    - apply triple_dyn. intros s1 (H1 & H7 & Htmp). pose proof H1 as (Ht8 & Hd8 & Hpl & Ht10 & Hd10).
      rewrite Hpl, Hd8, Hd10. destruct (Nat.eqb_spec n8 0) as [E0|_]; [contradiction|]. cbn [is_some].
      eapply triple_seq with (Q := fun s => Q1 s /\ d7 s = None).
      { apply triple_step. intros s ->. split; [apply I1; apply Q1_pltmp; exact H1|]. split; [apply Q1_pltmp; exact H1|exact H7]. }
      eapply triple_seq with (Q := Q2).
      { apply triple_step. intros s ((Ha & Hb & Hc & Hd & He) & Hf).
        assert (HQ : Q2 (set_pltmp false (set_pl true s))) by (repeat split; assumption).
        split; [apply I2; exact HQ|exact HQ]. }
      eapply triple_seq; [apply plan_triple|apply finish_triple].
  Qed.

  Lemma up810_Q2 : triple Inv Q2 up810 Q4.
  Proof.
    unfold C08.up810. eapply triple_seq with (Q := Q2).
    - apply triple_dyn. intros s1 H1. pose proof H1 as (_ & _ & _ & _ & Htmp & _). rewrite Htmp.
      intros s ->. split; [constructor|]. exists s1. split; [reflexivity|exact H1].
    - apply triple_dyn. intros s1 H1. pose proof H1 as (_ & _ & _ & Hpl & _ & Hd10). rewrite Hpl.
      eapply triple_seq; [|apply finish_triple].
      apply triple_dyn. intros s2 ->. unfold pending, rename_done. rewrite Hd10. cbn [is_some]. rewrite andb_false_r.
      eapply triple_conseq; [| |apply plan_triple]; [intros s ->; exact H1|intros s H; exact H].
  Qed.

  Lemma up810_Q3 : triple Inv Q3 up810 Q4.
  Proof.
    unfold C08.up810. eapply triple_seq with (Q := Q3).
    - apply triple_dyn. intros s1 H1. pose proof H1 as (_ & _ & _ & Htmp & _). rewrite Htmp.
      intros s ->. split; [constructor|]. exists s1. split; [reflexivity|exact H1].
    - apply triple_dyn. intros s1 H1. pose proof H1 as (_ & _ & Hpl & _ & Ht10 & Hd10). rewrite Hpl.
      eapply triple_seq; [|apply finish_triple].
      apply triple_dyn. intros s2 ->. unfold pending, rename_done. rewrite Ht10, Hd10. cbn [is_some is_none negb andb seqs].
      eapply triple_seq; [|apply triple_ret]. unfold op_remove_old.
      eapply triple_conseq; [| |apply (rm_tree_triple Inv Q3 d8 set_d8 Q3_d8 (fun v s => eq_refl) I3)];
        [intros s ->; exact H1|intros s H; exact H].
  Qed.

  Lemma up810_Q4 : forall s, Q4 s -> up810 s = ([], Some s).
  Proof.
    intros s (H1 & H2 & H3 & H4 & H5 & H6 & H7). unfold C08.up810, seq, dyn. rewrite H5. cbn. rewrite H4, H3. reflexivity.
  Qed.

  (* ---------- one restart ---------- *)
  Lemma open_triple : forall s, Inv s -> triple Inv (fun x => x = s) open_node Q4.
  Proof.
    intros s HI. unfold C08.open_node. destruct HI as [H|[H|[H|[H|H]]]].
    - eapply triple_seq; [|apply up810_Q1]. eapply triple_conseq; [| |apply up78_Q0]; [intros x ->; exact H|intros x Hx; exact Hx].
    - eapply triple_seq; [|apply up810_Q1]. eapply triple_conseq; [| |apply up78_Q1]; [intros x ->; exact H|intros x Hx; exact Hx].
    - eapply triple_seq with (Q := Q2); [|apply up810_Q2].
      eapply triple_conseq; [| |apply (triple_noop Inv Q2 up78)]; [intros x ->; exact H|intros x Hx; exact Hx|].
      intros x (Ha & Hb & _). apply up78_noop; assumption.
    - eapply triple_seq with (Q := Q3); [|apply up810_Q3].
      eapply triple_conseq; [| |apply (triple_noop Inv Q3 up78)]; [intros x ->; exact H|intros x Hx; exact Hx|].
      intros x (Ha & Hb & _). apply up78_noop; assumption.
    - eapply triple_seq with (Q := Q4).
      + eapply triple_conseq; [| |apply (triple_noop Inv Q4 up78)]; [intros x ->; exact H|intros x Hx; exact Hx|].
        intros x (Ha & Hb & _). apply up78_noop; assumption.
      + apply triple_noop. exact up810_Q4.
  Qed.

  Definition init7 : node := {| d7 := Some n7; t8 := None; d8 := None; pl := false; pltmp := false; t10 := None; d10 := None |}.
  Definition init8 : node := {| d7 := None; t8 := None; d8 := Some n8; pl := false; pltmp := false; t10 := None; d10 := None |}.

  (* any number of crashes, each at any micro-step of the start-up sequence (the first run and
     every recovery run are the same sequence) *)
  Theorem upgrade_crash_safe_v7 : forall s, reach open_node init7 s ->
    exists f, result open_node s = Some f /\ upgraded f = true.
  Proof.
    intros s Hr. assert (H0 : Q0 init7) by (repeat split).
    destruct (crash_any_number open_node Inv Q4 init7 (I0 _ H0) open_triple s Hr) as [_ (f & Hf & HQ)].
    exists f. split; [exact Hf|apply Q4_upgraded; exact HQ].
  Qed.

  Theorem upgrade_crash_safe_v8 : forall s, reach open_node init8 s ->
    exists f, result open_node s = Some f /\ upgraded f = true.
  Proof.
    intros s Hr. assert (H0 : Q1 init8) by (repeat split).
    destruct (crash_any_number open_node Inv Q4 init8 (I1 _ H0) open_triple s Hr) as [_ (f & Hf & HQ)].
    exists f. split; [exact Hf|apply Q4_upgraded; exact HQ].
  Qed.

  (* with explicit crash positions *)
  Theorem upgrade_crash_sequence : forall (v7 : bool) ks,
    exists f, result open_node (fold_left (fun s k => crash_at open_node k s) ks (if v7 then init7 else init8)) = Some f
              /\ upgraded f = true.
  Proof.
    intros v7 ks. destruct v7.
    - apply upgrade_crash_safe_v7. apply reach_crashes.
    - apply upgrade_crash_safe_v8. apply reach_crashes.
  Qed.

  (* a successful start changes nothing afterwards: the upgrades are skipped on every later open *)
  Theorem upgraded_stable : forall s, upgraded s = true -> open_node s = ([], Some s).
  Proof.
    intros s H. unfold upgraded in H. repeat (apply andb_true_iff in H; destruct H as [H ?]).
    destruct (d7 s) eqn:E7; [discriminate|]. destruct (t8 s) eqn:E8; [discriminate|].
    destruct (d8 s) eqn:Ed8; [discriminate|]. destruct (pl s) eqn:Epl; [discriminate|].
    destruct (pltmp s) eqn:Etmp; [discriminate|].
    unfold C08.open_node, seq. rewrite (up78_noop s E7 E8).
    unfold C08.up810, seq, dyn. rewrite Etmp. cbn. rewrite Epl, Ed8. reflexivity.
  Qed.
  (* ---------- any removal order of the old directories ---------- *)
  (* os.RemoveAll unlinks directory entries in an order the file system decides.  The abstraction
     keeps only HOW MANY entries are left, and the phase invariants do not constrain that number:
     whatever subset of the old directory has been unlinked when the process dies -- any order,
     any prefix of it -- the disk is in Q1 (7->8) resp. Q3 (8->10), and every restart from there,
     crashed again any number of times, completes the upgrade. *)
  Theorem recovers_from_inv : forall s0, Inv s0 -> forall s, reach open_node s0 s ->
    exists f, result open_node s = Some f /\ upgraded f = true.
  Proof.
    intros s0 H0 s Hr.
    destruct (crash_any_number open_node Inv Q4 s0 H0 open_triple s Hr) as [_ (f & Hf & HQ)].
    exists f. split; [exact Hf|apply Q4_upgraded; exact HQ].
  Qed.

  Definition after_rename8 (left : option nat) (tmpfile : bool) : node :=
    {| d7 := left; t8 := None; d8 := Some n8; pl := false; pltmp := tmpfile; t10 := None; d10 := None |}.
  Definition after_rename10 (left : option nat) : node :=
    {| d7 := None; t8 := None; d8 := left; pl := true; pltmp := false; t10 := None; d10 := Some whole10 |}.

  Theorem any_remainder_of_v7 : forall left tmpfile s, reach open_node (after_rename8 left tmpfile) s ->
    exists f, result open_node s = Some f /\ upgraded f = true.
  Proof. intros left tmpfile. apply recovers_from_inv. apply I1. repeat split. Qed.

  Theorem any_remainder_of_v8 : forall left s, reach open_node (after_rename10 left) s ->
    exists f, result open_node s = Some f /\ upgraded f = true.
  Proof. intros left. apply recovers_from_inv. apply I3. repeat split. Qed.
End Proofs.

(* ---------- the snapshot that is upgraded is a newest one in (term, index, id) order ---------- *)
Lemma snap_lt_trans : forall a b c, snap_lt a b = true -> snap_lt b c = true -> snap_lt a c = true.
Proof.
  intros [[ta ia] xa] [[tb ib] xb] [[tc ic] xc]. unfold snap_lt.
  destruct (N.eqb_spec ta tb), (N.eqb_spec tb tc), (N.eqb_spec ta tc),
           (N.eqb_spec ia ib), (N.eqb_spec ib ic), (N.eqb_spec ia ic); cbn [negb];
    repeat match goal with |- context [N.ltb ?x ?y] => destruct (N.ltb_spec x y) end;
    intros; try reflexivity; try discriminate; lia.
Qed.

Theorem pick_newest_max : forall l b, pick_newest l = Some b ->
  In b l /\ forall a, In a l -> snap_lt b a = false.
Proof.
  induction l as [|a r IH]; intros b H; cbn [pick_newest] in H; [discriminate|].
  destruct (pick_newest r) as [b'|] eqn:E.
  - destruct (IH b' eq_refl) as [Hin Hmax]. destruct (snap_lt b' a) eqn:Elt; inversion H; subst b.
    + split; [left; reflexivity|]. intros x [<-|Hx].
      * destruct a as [[t i] x]. unfold snap_lt. rewrite !N.eqb_refl. cbn. apply N.ltb_irrefl.
      * destruct (snap_lt a x) eqn:E2; [|reflexivity].
        pose proof (snap_lt_trans b' a x Elt E2) as T. rewrite (Hmax x Hx) in T. discriminate.
    + split; [right; exact Hin|]. intros x [<-|Hx]; [exact Elt|apply Hmax; exact Hx].
  - inversion H; subst b. destruct r; [|cbn in E; destruct (pick_newest r); [destruct (snap_lt s0 s)|]; discriminate].
    split; [left; reflexivity|]. intros x [<-|[]].
    destruct a as [[t i] x]. unfold snap_lt. rewrite !N.eqb_refl. cbn. apply N.ltb_irrefl.
Qed.

(* ---------- concrete instances ---------- *)
Example ex_v7_images : length (images (open_node 4) (init7 3)) = 29.
Proof. vm_compute. reflexivity. Qed.
(* killed while the old v8 directory is being removed, after the plan's rename: the state the
   unfixed resume could not recover from *)
Example ex_after_rename :
  match nth_error (images (open_node 4) (init8 4)) 13 with
  | Some s => Some (pl s, is_some (d10 s), d8 s, option_map upgraded (result (open_node 4) s))
  | None => None
  end = Some (true, true, Some 2, Some true).
Proof. vm_compute. reflexivity. Qed.
Example ex_pick : pick_newest [((2, 30), 0); ((3, 7), 1); ((2, 41), 2)]%N = Some ((3, 7), 1)%N.
Proof. vm_compute. reflexivity. Qed.

(* the v8 start does not involve a v7 directory: instantiate the unused size *)
Theorem upgrade_crash_safe_v8_only : forall n8, n8 <> 0 ->
  forall s, reach (open_node n8) (init8 n8) s ->
  exists f, result (open_node n8) s = Some f /\ upgraded f = true.
Proof. intros n8 H8. apply (upgrade_crash_safe_v8 1 n8); [discriminate|exact H8]. Qed.

(* the statements about what is left of an old directory do not involve the v7 size *)
Theorem any_remainder_of_v7_only : forall n8, n8 <> 0 -> forall left tmpfile s,
  reach (open_node n8) (after_rename8 n8 left tmpfile) s ->
  exists f, result (open_node n8) s = Some f /\ upgraded f = true.
Proof. intros n8 H8. apply (any_remainder_of_v7 1 n8); [discriminate|exact H8]. Qed.
Theorem any_remainder_of_v8_only : forall n8, n8 <> 0 -> forall left s,
  reach (open_node n8) (after_rename10 left) s ->
  exists f, result (open_node n8) s = Some f /\ upgraded f = true.
Proof. intros n8 H8. apply (any_remainder_of_v8 1 n8); [discriminate|exact H8]. Qed.
