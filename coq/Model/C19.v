(* C19 — model of auth/credential_store.go: Load, Check, HasPerm, HasAnyPerm, AA.
   Executable definitions only; proofs are in Proofs/C19.v. *)
From Coq Require Import List String Bool.
From RQ Require Import Lib.AList.
Import ListNotations.
Open Scope string_scope.

Definition AllUsers := "*".
Definition PermAll := "all".

(* One element of the JSON array in the credentials file.  A field omitted in the JSON
   is the empty string / empty list (each element is decoded into a fresh struct). *)
Record cred := { username : string; password : string; perms : list string }.

(* CredentialsStore: store map[string]string, perms map[string]map[string]bool.
   The inner map is built fresh per entry from the perms list, so membership in the
   inner map = membership in the list. *)
Record cstore := { st_pw : alist string; st_perms : alist (list string) }.

Definition empty_store := {| st_pw := []; st_perms := [] |}.

Definition load_one (c : cstore) (e : cred) : cstore :=
  {| st_pw := update (st_pw c) (username e) (password e);
     st_perms := update (st_perms c) (username e) (perms e) |}.

Definition load (file : list cred) : cstore := fold_left load_one file empty_store.

Definition mem (p : string) (l : list string) : bool := existsb (String.eqb p) l.

Definition check (c : cstore) (u p : string) : bool :=
  match lookup (st_pw c) u with Some pw => String.eqb pw p | None => false end.

Definition has_perm (c : cstore) (u perm : string) : bool :=
  (match lookup (st_perms c) u with Some m => mem perm m | None => false end)
  || (match lookup (st_perms c) AllUsers with Some m => mem perm m | None => false end).

Definition has_any_perm (c : cstore) (u : string) (ps : list string) : bool :=
  existsb (has_perm c u) ps.

(* AA on a non-nil store *)
Definition aa (c : cstore) (u p perm : string) : bool :=
  if has_any_perm c AllUsers [perm; PermAll] then true
  else if String.eqb u "" then false
  else if negb (check c u p) then false
  else has_any_perm c u [perm; PermAll].

(* ---- correspondence ---- *)
(* The query universe of the driver, in the driver's order (users x passwords x perms). *)
Definition q_users := ["a"; "*"; ""; "b"].
Definition q_pass := ["x"; "y"; ""].
Definition q_perms := ["p"; "q"; "all"].
Definition queries : list (string * string * string) :=
  flat_map (fun u => flat_map (fun p => map (fun perm => (u, p, perm)) q_perms) q_pass) q_users.

(* a case: the file, and the decisions the implementation returned for `queries` *)
Record case := { c_file : list cred; c_impl : list bool }.
Definition model_out (file : list cred) : list bool :=
  let s := load file in map (fun '(u, p, perm) => aa s u p perm) queries.
Definition check_case (c : case) : bool :=
  if list_eq_dec Bool.bool_dec (model_out (c_file c)) (c_impl c) then true else false.
