(* C22 — property theorems only. *)
From Coq Require Import List NArith.
From RQ Require Import Model.C04 Proofs.C04 Model.C22 Proofs.C22.

(* after any history of writes, loads (file or SQL text), rejected loads, boots, snapshots and restarts of any
   node and later joins: every node's database is the loaded database plus later writes, and so is what a
   restart of the node, or a transfer of its newest snapshot and log suffix, rebuilds *)
Theorem C22_load_everywhere : forall ops,
  Forall (node_ok (fst (cspec ops))) (nodes (crun ops)) /\ length (nodes (crun ops)) = snd (cspec ops).
Proof. exact load_everywhere. Qed.
Print Assumptions C22_load_everywhere.

(* a load of invalid data is answered with an error and changes the database of no node, in any cluster state *)
Theorem C22_invalid_load_rejected_without_change : forall c,
  snd (cstep c CLoadBad) = 3%N
  /\ map dbf (nodes (fst (cstep c CLoadBad))) = map dbf (nodes c)
  /\ map wal (nodes (fst (cstep c CLoadBad))) = map wal (nodes c)
  /\ map snaps (nodes (fst (cstep c CLoadBad))) = map snaps (nodes c).
Proof. exact invalid_load_rejected. Qed.
Print Assumptions C22_invalid_load_rejected_without_change.
