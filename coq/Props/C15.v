(* C15 — property theorems only. *)
From Coq Require Import List NArith.
From RQ Require Import Model.C15_Sqlite Model.C15 Proofs.C15_Token Proofs.C15.
Import ListNotations.

(* Every byte string that SQLite (as modelled from its lexical rules, the PRAGMA grammar and
   go-sqlite3's statement loop) reads as changing journal_mode / wal_autocheckpoint /
   synchronous / query_only or running a WAL checkpoint is flagged by IsBreakingPragma. *)
Theorem C15_guard_complete : forall text effs,
  sqlite_effects text = Some effs -> effs <> [] -> guard text = Some true.
Proof. exact guard_complete. Qed.
Print Assumptions C15_guard_complete.

(* "Some" is never "None": neither model runs out of fuel, so the theorem above is not vacuous. *)
Theorem C15_models_total : forall text, sqlite_effects text <> None /\ guard text <> None.
Proof. exact models_total. Qed.
Print Assumptions C15_models_total.

(* A request with such a statement anywhere in it is refused at Execute, Query and Request,
   whatever flags (SqlExplain, ForceQuery) the statements carry. *)
Theorem C15_applied_everywhere : forall (e : entry) (stmts : list statement) sql explain force_query effs,
  In {| st_sql := sql; st_explain := explain; st_force_query := force_query |} stmts ->
  sqlite_effects sql = Some effs -> effs <> [] -> store_refuses e stmts = Some true.
Proof. exact applied_everywhere_flags. Qed.
Print Assumptions C15_applied_everywhere.

(* Second tie (DESIGN 3.5, docs/gotrans.md): the guard itself.  IsBreakingPragma and sqlToken as translated from
   db/state.go on this run (fuelled; strings as byte lists; strings.TrimLeftFunc(_, unicode.IsSpace) = the model's
   go_trim_left) are, for enough fuel, the hand model's `guard` (what C15_guard_complete is about) and its tokenizer
   g_token. *)
From Coq Require Import ZArith List.
From RQ Require Import Lib.GoLib.
From RQ Require Import Gen.SqlToken.
From RQ Require Import Proofs.C15_Gen.
Theorem C15_source_derived_eq :
  (forall (text : bytes) (fuel : nat), (List.length text + 1 < fuel)%nat ->
     IsBreakingPragma trim (zs text) fuel = guard text) /\
  (forall (s : bytes) (fuel : nat), s <> nil -> (List.length s < fuel)%nat ->
     sqlToken (zs s) fuel = Some (kind_code (fst (g_token s)), Z.of_nat (snd (g_token s)))).
Proof. exact (conj gen_IsBreakingPragma_eq gen_sqlToken_eq). Qed.
Print Assumptions C15_source_derived_eq.
