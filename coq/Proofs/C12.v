(* C12 — proofs about Model/C12.v.  Specification from the property text: whatever a consumer
   (transfer, restore, reap) uses is data whose checksum is the one it had when it was written. *)
From Coq Require Import List NArith Bool Lia.
From RQ Require Import Model.C12.
Import ListNotations.
Open Scope N_scope.

(* the file's bytes are the bytes that were written *)
Definition clean (f : file) : Prop := actual f = orig f.

(* the checksum detects the corruption: a corrupted file no longer matches its sidecar, a
   corrupted sidecar no longer matches its file *)
Definition valid_event (s : store) (e : event) : Prop :=
  match e with
  | ECorruptData i v => forall f, nth_error (files s) i = Some f -> v <> recorded f
  | ECorruptSidecar i v => forall f, nth_error (files s) i = Some f -> v <> actual f
  | _ => True     (* a record that becomes unusable needs no premise: it is refused, not trusted *)
  end.

Fixpoint valid_run (s : store) (es : list event) : Prop :=
  match es with [] => True | e :: r => valid_event s e /\ valid_run (fst (step s e)) r end.

(* per file: checksummed, and if file and sidecar agree then the file is as written *)
Definition sound (f : file) : Prop := disabled f = false /\ (unknown f = false -> actual f = recorded f -> clean f).
Definition inv (s : store) : Prop := Forall sound (files s).

Lemma Forall_set_nth (P : file -> Prop) l : forall i f, Forall P l -> P f -> Forall P (set_nth l i f).
Proof.
  induction l as [|x r IH]; intros i f H Hf; [constructor|]. inversion H; subst.
  destruct i; cbn [set_nth]; constructor; auto.
Qed.

Lemma Forall_pick (P : file -> Prop) l ids : Forall P l -> Forall P (pick l ids).
Proof.
  intros H. unfold pick. induction ids as [|i r IH]; cbn [flat_map]; [constructor|].
  destruct (nth_error l i) eqn:E; cbn [app]; [|exact IH].
  constructor; [|exact IH]. rewrite Forall_forall in H. apply H. eapply nth_error_In. exact E.
Qed.

Lemma Forall_remove_ids (P : file -> Prop) l : forall pos ids, Forall P l -> Forall P (remove_ids l pos ids).
Proof.
  induction l as [|x r IH]; intros pos ids H; [constructor|]. inversion H; subst. cbn [remove_ids].
  destruct (existsb (Nat.eqb pos) ids); [apply IH; assumption | constructor; [assumption | apply IH; assumption]].
Qed.

Lemma ensure_files s : files (fst (ensure_verified s)) = files s.
Proof. unfold ensure_verified. destruct (verified s); reflexivity. Qed.

Lemma ensure_props s :
  files (fst (ensure_verified s)) = files s /\ plan (fst (ensure_verified s)) = plan s /\
  (verified (fst (ensure_verified s)) = verified s \/ verified s = None).
Proof.
  unfold ensure_verified. destruct (verified s) eqn:E; cbn [fst files plan verified]; repeat split; auto.
Qed.

Lemma sound_checked f : sound f -> fcheck f = true -> clean f.
Proof.
  intros [Hd Hc] H. unfold fcheck in H. apply andb_true_iff in H. destruct H as [Hu H].
  apply negb_true_iff in Hu. rewrite Hd in H. cbn [orb] in H. apply N.eqb_eq in H. auto.
Qed.

Lemma sound_accepted f : sound f -> unknown f = false -> (header_crc f =? actual f) = true -> clean f.
Proof.
  intros [Hd Hc] Hu H. unfold header_crc in H. rewrite Hd in H. apply N.eqb_eq in H. auto.
Qed.

Lemma scan_ok_known l f : scan_ok l = true -> In f l -> unknown f = false.
Proof.
  unfold scan_ok. intros H Hin. rewrite forallb_forall in H. specialize (H f Hin). apply negb_true_iff in H. exact H.
Qed.

Lemma pick_incl l ids f : In f (pick l ids) -> In f l.
Proof.
  unfold pick. induction ids as [|i r IH]; cbn [flat_map]; [intros []|].
  destruct (nth_error l i) eqn:E; cbn [app]; [|exact IH].
  intros [<-|H]; [eapply nth_error_In; exact E | apply IH; exact H].
Qed.

Lemma step_sound s e : inv s -> valid_event s e ->
  inv (fst (step s e)) /\ forall fs, snd (step s e) = Used fs -> Forall clean fs.
Proof.
  intros Hi Hv. destruct e as [i v|i v|i|ids|ids gone v|]; cbn [step].
  - destruct (nth_error (files s) i) as [f|] eqn:E; cbn [fst snd]; [|split; [assumption | discriminate]].
    split; [|discriminate]. unfold inv. cbn [files]. apply Forall_set_nth; [assumption|].
    assert (Hf : sound f) by (unfold inv in Hi; rewrite Forall_forall in Hi; apply Hi; eapply nth_error_In; exact E).
    destruct Hf as [Hd _]. split; cbn [disabled actual recorded unknown]; [exact Hd|]. intros _ X. exfalso. apply (Hv f E). exact X.
  - destruct (nth_error (files s) i) as [f|] eqn:E; cbn [fst snd]; [|split; [assumption | discriminate]].
    split; [|discriminate]. unfold inv. cbn [files]. apply Forall_set_nth; [assumption|].
    assert (Hf : sound f) by (unfold inv in Hi; rewrite Forall_forall in Hi; apply Hi; eapply nth_error_In; exact E).
    destruct Hf as [Hd _]. split; cbn [disabled actual recorded unknown]; [exact Hd|]. intros _ X. exfalso. apply (Hv f E). symmetry. exact X.
  - destruct (nth_error (files s) i) as [f|] eqn:E; cbn [fst snd]; [|split; [assumption | discriminate]].
    split; [|discriminate]. unfold inv. cbn [files]. apply Forall_set_nth; [assumption|].
    assert (Hf : sound f) by (unfold inv in Hi; rewrite Forall_forall in Hi; apply Hi; eapply nth_error_In; exact E).
    destruct Hf as [Hd _]. split; cbn [disabled actual recorded unknown]; [exact Hd | discriminate].
  - pose proof (ensure_files s) as Ef. destruct (ensure_verified s) as [s1 ok]. cbn [fst] in Ef.
    assert (Hi1 : inv s1) by (unfold inv; rewrite Ef; exact Hi).
    destruct ok; cbn [negb]; [|split; [exact Hi1 | discriminate]].
    destruct (scan_ok (files s1)) eqn:Es; cbn [negb]; [|split; [exact Hi1 | discriminate]].
    destruct (receiver_accepts (pick (files s1) ids)) eqn:Ea; cbn [fst snd]; (split; [exact Hi1|]); [|discriminate].
    intros fs X. inversion X; subst fs. clear X.
    pose proof (Forall_pick sound (files s1) ids Hi1) as Hp.
    unfold receiver_accepts in Ea. rewrite forallb_forall in Ea. rewrite Forall_forall in *.
    intros f Hf. apply sound_accepted; [apply Hp; exact Hf | eapply scan_ok_known; [exact Es | eapply pick_incl; exact Hf] | apply Ea; exact Hf].
  - pose proof (ensure_files s) as Ef. destruct (ensure_verified s) as [s1 ok]. cbn [fst] in Ef.
    assert (Hi1 : inv s1) by (unfold inv; rewrite Ef; exact Hi).
    destruct ok; cbn [negb]; [|split; [exact Hi1 | discriminate]].
    destruct (scan_ok (files s1)) eqn:Es; cbn [negb]; [|split; [exact Hi1 | discriminate]].
    destruct (forallb fcheck (pick (files s1) ids)) eqn:Ea; cbn [negb fst snd]; [|split; [exact Hi1 | discriminate]].
    split.
    + unfold inv. cbn [files]. constructor; [split; [reflexivity | intros _ _; reflexivity]|].
      apply Forall_remove_ids. exact Hi1.
    + intros fs X. inversion X; subst fs. clear X.
      pose proof (Forall_pick sound (files s1) ids Hi1) as Hp.
      rewrite forallb_forall in Ea. rewrite Forall_forall in *.
      intros f Hf. apply sound_checked; [apply Hp; exact Hf | apply Ea; exact Hf].
  - cbn [fst snd]. split; [exact Hi | discriminate].
Qed.

Lemma inv_fresh crcs : inv (fresh crcs).
Proof.
  unfold inv, fresh. cbn [files]. induction crcs as [|c r IH]; cbn [map]; constructor; [|exact IH].
  split; [reflexivity | intros _ _; reflexivity].
Qed.

Lemma run_sound es : forall s, inv s -> valid_run s es ->
  forall fs, In (Used fs) (snd (run s es)) -> Forall clean fs.
Proof.
  induction es as [|e r IH]; intros s Hi Hv fs Hin; cbn [run] in Hin; [destruct Hin|].
  destruct Hv as [Hv1 Hv2]. destruct (step_sound s e Hi Hv1) as [Hi1 Hu].
  destruct (step s e) as [s1 o] eqn:Es. cbn [fst snd] in *.
  destruct (run s1 r) as [s2 os] eqn:Er. cbn [snd] in Hin. destruct Hin as [Ho|Hin].
  - apply Hu. exact Ho.
  - apply (IH s1 Hi1 Hv2 fs). rewrite Er. exact Hin.
Qed.

(* whatever happens to files and sidecars, and whenever (before the store is opened, after its
   one-time verification, between consumers, across restarts, before or after reaps): every
   transfer, restore and reap that succeeds used only files that are as they were written *)
Theorem late_corruption_not_installed crcs es :
  valid_run (fresh crcs) es ->
  forall fs, In (Used fs) (snd (run (fresh crcs) es)) -> Forall clean fs.
Proof. intros Hv. apply run_sound; [apply inv_fresh | exact Hv]. Qed.

(* corruption that is there when the process first touches snapshot data stops every consumer,
   whether or not it resolves the corrupt file, and keeps stopping them in that process *)
Theorem startup_corruption_detected s :
  verified s = None -> (exists f, In f (files s) /\ fcheck f = false) ->
  forall e, (exists ids, e = EOpen ids) \/ (exists ids gone v, e = EReap ids gone v) ->
  snd (step s e) = Refused /\ verified (fst (step s e)) = Some false.
Proof.
  intros Hn (f & Hf & Hc) e He.
  assert (Hb : forallb fcheck (files s) = false).
  { destruct (forallb fcheck (files s)) eqn:E; [|reflexivity]. rewrite forallb_forall in E. rewrite (E f Hf) in Hc. discriminate. }
  destruct He as [[ids ->]|[ids [gone [v ->]]]]; cbn [step]; unfold ensure_verified; rewrite Hn, Hb; cbn [negb fst snd verified]; auto.
Qed.

Theorem failed_verification_is_sticky s :
  verified s = Some false ->
  forall e, (exists ids, e = EOpen ids) \/ (exists ids gone v, e = EReap ids gone v) ->
  snd (step s e) = Refused /\ verified (fst (step s e)) = Some false.
Proof.
  intros Hn e He.
  destruct He as [[ids ->]|[ids [gone [v ->]]]]; cbn [step]; unfold ensure_verified; rewrite Hn; cbn [negb fst snd]; auto.
Qed.

(* fail closed: while any checksum record of the store cannot be used (not JSON, no or unknown
   checksum type, malformed value), nothing is opened, transferred, restored or consolidated --
   whether or not the store was verified before, and whether or not the consumer resolves that file *)
Theorem unknown_record_is_rejected s :
  (exists f, In f (files s) /\ unknown f = true) ->
  forall e, (exists ids, e = EOpen ids) \/ (exists ids gone v, e = EReap ids gone v) ->
  snd (step s e) = Refused.
Proof.
  intros (f & Hf & Hu) e He.
  assert (Hs : forall s1, files s1 = files s -> scan_ok (files s1) = false).
  { intros s1 E. rewrite E. unfold scan_ok. destruct (forallb (fun f0 => negb (unknown f0)) (files s)) eqn:X; [|reflexivity].
    rewrite forallb_forall in X. specialize (X f Hf). rewrite Hu in X. discriminate. }
  pose proof (ensure_props s) as (P1 & _). 
  destruct He as [[ids ->]|[ids [gone [v ->]]]]; cbn [step]; destruct (ensure_verified s) as [s1 ok]; cbn [fst] in P1;
    destruct ok; cbn [negb]; try reflexivity; rewrite (Hs s1 P1); reflexivity.
Qed.

(* ---------------------------------------------------------------- concrete instances *)
(* file 1 is corrupted after the first (successful) use; the reap refuses, so does the next open *)
Example ex_late :
  let all := [0; 1; 2]%nat in
  let es := [EOpen all; ECorruptData 1%nat 99; EReap all [] 7; EOpen all; EOpen [0%nat]] in
  valid_run (fresh [10; 11; 12]) es /\
  map out_code (snd (run (fresh [10; 11; 12]) es)) = [1; 0; 2; 2; 1].
Proof. vm_compute. repeat split; intros f E; inversion E; subst; discriminate. Qed.

Example ex_startup :
  let es := [ECorruptSidecar 0%nat 5; EOpen [1%nat]; ERestart; ECorruptSidecar 0%nat 10; EReap [0; 1]%nat [] 3; EOpen [0%nat]] in
  map out_code (snd (run (fresh [10; 11]) es)) = [0; 2; 0; 0; 1; 1].
Proof. vm_compute. reflexivity. Qed.

(* ---------------------------------------------------------------- a failed consumer leaves the store as it was *)

(* a refused reap has changed no file and written no plan (the check comes before the plan);
   the only thing it may have done is cache the verdict of the one-time verification *)
Theorem failed_reap_leaves_store_unchanged s ids gone v :
  snd (step s (EReap ids gone v)) = Refused ->
  files (fst (step s (EReap ids gone v))) = files s /\
  plan (fst (step s (EReap ids gone v))) = plan s /\
  (verified (fst (step s (EReap ids gone v))) = verified s \/ verified s = None).
Proof.
  cbn [step]. pose proof (ensure_props s) as P. destruct (ensure_verified s) as [s1 ok]. cbn [fst] in P.
  destruct ok; cbn [negb]; [|intros _; exact P].
  destruct (scan_ok (files s1)); cbn [negb]; [|intros _; exact P].
  destruct (forallb fcheck (pick (files s1) ids)); cbn [negb fst snd]; [discriminate | intros _; exact P].
Qed.

Theorem failed_open_leaves_store_unchanged s ids :
  snd (step s (EOpen ids)) = Refused ->
  files (fst (step s (EOpen ids))) = files s /\ plan (fst (step s (EOpen ids))) = plan s.
Proof.
  cbn [step]. pose proof (ensure_props s) as (P1 & P2 & _). destruct (ensure_verified s) as [s1 ok]. cbn [fst] in P1, P2.
  destruct ok; cbn [negb]; [|intros _; auto].
  destruct (scan_ok (files s1)); cbn [negb]; [|intros _; auto].
  destruct (receiver_accepts (pick (files s1) ids)); cbn [fst snd]; auto.
Qed.

(* no history leaves a reap plan (or any temporary entry) in the store directory *)
Lemma step_plan s e : plan s = false -> plan (fst (step s e)) = false.
Proof.
  intros H. destruct e as [i v|i v|i|ids|ids gone v|]; cbn [step].
  - destruct (nth_error (files s) i); exact H.
  - destruct (nth_error (files s) i); exact H.
  - destruct (nth_error (files s) i); exact H.
  - pose proof (ensure_props s) as (_ & P2 & _). destruct (ensure_verified s) as [s1 ok]. cbn [fst] in P2.
    rewrite H in P2. destruct ok; cbn [negb]; [|exact P2].
    destruct (scan_ok (files s1)); cbn [negb]; [|exact P2].
    destruct (receiver_accepts (pick (files s1) ids)); exact P2.
  - pose proof (ensure_props s) as (_ & P2 & _). destruct (ensure_verified s) as [s1 ok]. cbn [fst] in P2.
    rewrite H in P2. destruct ok; cbn [negb]; [|exact P2].
    destruct (scan_ok (files s1)); cbn [negb]; [|exact P2].
    destruct (forallb fcheck (pick (files s1) ids)); cbn [negb fst plan]; [reflexivity | exact P2].
  - exact H.
Qed.

Theorem no_plan_left_behind crcs es : plan (fst (run (fresh crcs) es)) = false.
Proof.
  assert (G : forall es s, plan s = false -> plan (fst (run s es)) = false).
  { induction es0 as [|e r IH]; intros s H; cbn [run]; [exact H|].
    pose proof (step_plan s e H) as H1. destruct (step s e) as [s1 o]. cbn [fst] in H1.
    specialize (IH s1 H1). destruct (run s1 r) as [s2 os]. exact IH. }
  apply G. reflexivity.
Qed.

(* a record that loses its type after the store was verified: every consumer is refused, also
   those that do not touch the file, until the record is usable again *)
Example ex_unknown_record :
  let es := [EOpen [0; 1]%nat; ECorruptRecord 1%nat; ECorruptData 1%nat 77; EOpen [0; 1]%nat; EOpen [0%nat]; EReap [0; 1]%nat [] 9;
             ERestart; EOpen [0%nat]] in
  run_codes (fresh [10; 11]) es = [1; 0; 0; 2; 2; 2; 0; 2].
Proof. vm_compute. reflexivity. Qed.
