# C29 — configuration read by bin/check (see checks/registry.py)
SPEC = dict(
    title="Commands survive encoding into the log unchanged",
    pkg="./store", files=["store/c29_verif_test.go"],
    model="Model.C29_Wire Model.C29",
    rule="requests sent through a live single-node Store with every API that writes a command (Execute, Query at level strong, Request, Load, Noop) plus load chunks "
         "through command.MarshalLoadChunkRequest; hand-picked: 511/512/513 statements and 4095/4096/4097 bytes of compressible and incompressible SQL at the default "
         "thresholds, every parameter kind, forced compression, zero thresholds, a size sweep (oracle only; generated from parameters) of compressed and uncompressed requests - many-statement batches, one huge SQL literal, one huge blob - whose encoding lies just below / above each power of two from 64 KiB to 16 MiB (12 quick / 108 thorough), batches of 2-8 distinct really-compressed requests (and load requests) that are ALL marshalled before any result is wrapped and decoded (8 / 200 batches), 8 goroutines x 40 (thorough 6 runs x 8 x 150) concurrent compressed Execute/Query/Request calls whose log entries must be exactly the requests sent, requests whose gzip output is exactly one byte shorter than / as long as / one byte longer than their encoding; generated: 0-10 statements with SQL lengths just below/at/above the size threshold, "
         "statement counts just below/at/above the batch threshold (thresholds 3-8 statements / 24-200 bytes so that both are crossed often), parameters of all five "
         "kinds plus unset (int64 extremes, NaN/-0/inf doubles, empty and non-UTF-8 blobs, multi-byte names), all flags, int64 extremes in timeouts.  A case is "
         "non-trivial when a statement count or an SQL length is within 2 of its threshold or the request carries every parameter kind; distinct by type, thresholds and request bytes",
    exhaustive=False,
    case_preamble="Open Scope string_scope.\nOpen Scope list_scope.\n",
    trusted=["compress/gzip: gunzip (gzip b) = Some b is a premise of C29_roundtrip; a driver case carries the real gzip output for the request's real encoding",
             "google.golang.org/protobuf: tied, not trusted blindly - the model's wire encoder must reproduce proto.Marshal's bytes for every generated request and log entry, "
             "and the model's decoder must read every real log entry back; messages outside the generated ones rely on the wire model being the proto3 encoding",
             "strings are byte lists: proto3's UTF-8 validation of string fields (Marshal fails on invalid UTF-8 in SQL/names) is outside the model; the driver generates valid UTF-8",
             "raft log store: the driver reads the entry back with raftLog.GetLog"],
    assumptions=["gunzip (gzip b) = Some b", "marshalling is a function of configuration and request (no state shared between calls): a modelling assumption, tied by the held-result and concurrent cases", "wf_body: int64 fields within 64 bits, doubles as 64-bit patterns (typing constraints of the Go structs)",
                 "Go's deterministic field order for these messages: plain fields by number, then the set oneof member (checked byte-for-byte by the tie)"],
    level_text="C29_roundtrip: for every marshaler configuration and every well-typed request of every command type (query, execute, execute-query, load, load-chunk, noop), "
               "unmarshal (marshal r) = Some r with the proto3 wire codec modelled in Gallina (C29_wire_codec_body / C29_wire_codec_command: decode (encode m) = Some m, varints of any size, "
               "zig-zag, two's complement, fixed64, nested length-delimited messages, oneof) - only gzip is a premise; C29_roundtrip_any_codec: the same for any codec satisfying the "
               "inversion law; C29_decision_spec (iff) and C29_compressed_only_if_smaller_or_forced for every codec and gzip; C29_marshal_results_independent: a batch marshalled before any result is used yields each request's own result and decodes to it.  The model pipeline with the wire codec is run on every driver case.",
    level_note="Model = RequestMarshaler.Marshal + the Command construction of Store.execute/Query/Request/load/Noop + CommandProcessor.Process decoding + proto3 wire format of "
               "Command/QueryRequest/ExecuteRequest/ExecuteQueryRequest/LoadRequest/LoadChunkRequest/Noop/Request/Statement/Parameter; gzip a hypothesis.",
    technique="Coq proof of codec inversion (generic field parser + per-message folds) and of the marshal pipeline + byte-for-byte differential run against the real store's log entries",
    design_ref="6/C29",
    timeout_quick=600, timeout_thorough=7200, shard=30, coq_jobs=8,
)
