(* C02 — model of rqlite's part of a linearizable history: the replicated log as one sequence
   of entries, the sequential database it defines, and the read protocol of
   Store.Query/Request at level linearizable (Model/C02_ReadIndex.v, dispatch in Model/C16.v).
   Executable definitions only; proofs are in Proofs/C02.v. *)
From Coq Require Import List NArith Bool.
From RQ Require Export Model.C02_ReadIndex.
Import ListNotations.
Local Open Scope N_scope.

(* ---------- the sequential database ---------- *)

(* a committed log entry as the register workload sees it: a write of v to key k, or anything
   else (a strong-read command, no-op, configuration change, barrier) *)
Inductive lentry := LWrite (k v : N) | LOther.

(* the value of key k after the entries have been applied in order; 0 = never written *)
Fixpoint replay (es : list lentry) (k : N) (cur : N) : N :=
  match es with
  | [] => cur
  | LWrite k' v :: r => replay r k (if k' =? k then v else cur)
  | LOther :: r => replay r k cur
  end.

(* the database a node holds once its FSM has applied the first a entries *)
Definition db_at (log : list lentry) (a : N) (k : N) : N := replay (firstn (N.to_nat a) log) k 0.

(* ---------- client operations and their linearization points ---------- *)

(* what is known of a completed linearizable read: what waitForLinearizableRead read, when it
   read the commit index, what the FSM had applied when the local query ran, and when that was *)
Record lin_read := {
  lr_obs : lin_obs;
  lr_t0 : N;
  lr_applied : N;
  lr_tq : N
}.

Inductive op :=
  | OpWrite (inv resp idx k v : N)            (* acknowledged write and the index of its log entry *)
  | OpStrong (inv resp idx k ret : N)         (* strong read: a log entry of its own *)
  | OpLin (inv resp : N) (r : lin_read) (k ret : N).

Definition op_inv (o : op) : N := match o with OpWrite i _ _ _ _ | OpStrong i _ _ _ _ | OpLin i _ _ _ _ => i end.
Definition op_resp (o : op) : N := match o with OpWrite _ r _ _ _ | OpStrong _ r _ _ _ | OpLin _ r _ _ _ => r end.

(* where the operation takes effect: entries are at even points, a linearizable read that saw
   the first a entries sits just after entry a *)
Definition op_point (o : op) : N :=
  match o with
  | OpWrite _ _ idx _ _ | OpStrong _ _ idx _ _ => 2 * idx
  | OpLin _ _ r _ _ => 2 * lr_applied r + 1
  end.

(* the order of the linearization: by point, reads at the same point by invocation *)
Definition lin_before (x y : op) : Prop :=
  op_point x < op_point y \/ (op_point x = op_point y /\ op_inv x < op_inv y).

(* ---------- strongReadTerm ---------- *)

(* what happens to the strong reads a node sends through its log (Query at level strong or
   upgraded, Request carrying a read): handed to raft.Apply, come back applied, or fail.
   Store.Query/Request store the read term in strongReadTerm only after the apply future has
   answered without error, i.e. after the FSM has applied the read's own entry. *)
Inductive srt_event :=
  | SQueued (read_term : N)
  | SApplied (read_term : N)
  | SFailed (read_term : N).

Definition srt_step (srt : N) (e : srt_event) : N :=
  match e with SApplied t => t | SQueued _ | SFailed _ => srt end.

Definition srt_run (srt : N) (es : list srt_event) : N := fold_left srt_step es srt.

(* ---------- writes: what the caller is told, and what may be re-submitted ---------- *)

(* how raft's apply future of a submitted entry ends *)
Inductive apply_end :=
  | AOk               (* committed and applied here *)
  | ANotLeader        (* raft.ErrNotLeader: never appended *)
  | ALeadershipLost   (* raft.ErrLeadershipLost: appended, fate unknown - the next leader may commit it *)
  | AOther.           (* enqueue timeout, shutdown, ... *)

(* the class of what Store.Execute / Store.Request (write path) return *)
Inductive write_class :=
  | WAcked            (* nil *)
  | WNotLeader        (* store.ErrNotLeader: nothing was appended here *)
  | WNotReady         (* store.ErrNotReady: nothing was appended here *)
  | WUnknown.         (* any other error: the statement may or may not take effect *)

(* Store.Execute / execute, Store.Request: leader and readiness are checked before anything is
   handed to raft; of the apply future's errors only raft.ErrNotLeader becomes store.ErrNotLeader *)
Definition execute_class (leader ready : bool) (a : apply_end) : write_class :=
  if negb leader then WNotLeader
  else if negb ready then WNotReady
  else match a with
       | AOk => WAcked
       | ANotLeader => WNotLeader
       | ALeadershipLost | AOther => WUnknown
       end.

(* proxy.Execute / proxy.Request: the request is sent on to the leader exactly when the local
   store answered ErrNotLeader *)
Definition forwards (c : write_class) : bool :=
  match c with WNotLeader => true | _ => false end.

(* one submission of the statement to a store: the node as the call finds it, how the future
   ends, and whether an entry carrying the statement was put into that node's log *)
Record attempt := {
  at_leader : bool;
  at_ready : bool;
  at_end : apply_end;
  at_appended : bool
}.

Definition attempt_class (a : attempt) : write_class := execute_class (at_leader a) (at_ready a) (at_end a).

(* was anything appended: nothing is submitted when a pre-check fails *)
Definition attempt_appended (a : attempt) : bool := at_leader a && at_ready a && at_appended a.

(* one client call through the proxy: entries carrying the statement that exist afterwards *)
Definition call_entries (local remote : attempt) : N :=
  (if attempt_appended local then 1 else 0)
  + (if forwards (attempt_class local) then (if attempt_appended remote then 1 else 0) else 0).

(* what the client is told *)
Definition call_class (local remote : attempt) : write_class :=
  if forwards (attempt_class local) then attempt_class remote else attempt_class local.

(* ---------- correspondence ---------- *)

(* a step trace of one waitForLinearizableRead call *)
Record trace := {
  c_obs : lin_obs;           (* what the call read, observed around it on the live node *)
  c_result : lin_result;     (* what it returned *)
  c_verified : bool          (* a VerifyLeader was counted during the call *)
}.

(* one linearizable read (Query/Request) of a group started while a strong read of the term is
   still in flight: what it read when it began, except strongReadTerm - that is the model's -
   and whether it was turned into a strong read *)
Record mid_read := {
  m_obs : lin_obs;           (* lo_srt is ignored *)
  m_upgraded : bool
}.

(* first reads of a term: strongReadTerm before, the strong-read events up to the moment
   strongReadTerm was sampled (reads queued, none applied yet), the sampled value, the reads
   started in that window, and the value after all of them have come back *)
Record first_reads := {
  f_term : N;
  f_srt0 : N;
  f_events : list srt_event;
  f_sampled : N;
  f_reads : list mid_read;
  f_done : list srt_event;   (* what happened afterwards: the queued reads applied *)
  f_srt_after : N
}.

(* one write call observed: the node when the call was made, how raft ended the future (known from
   how the scenario was built), whether the node's log grew by the entry, the class of the error
   returned and whether the proxy rule sent the statement on *)
Record write_seen := {
  ws_attempt : attempt;
  ws_class : write_class;
  ws_forwarded : bool
}.

Inductive case :=
  | CTrace (t : trace)
  | CFirst (f : first_reads)
  | CWrite (x : write_seen).

Definition lin_result_eqb (a b : lin_result) : bool :=
  match a, b with
  | LinOk, LinOk | LinStrongNeeded, LinStrongNeeded | LinNotLeader, LinNotLeader | LinNotReady, LinNotReady
  | LinVerifyFailed, LinVerifyFailed | LinTermChanged, LinTermChanged | LinTimeout, LinTimeout => true
  | _, _ => false
  end.

Definition with_srt (o : lin_obs) (srt : N) : lin_obs :=
  {| lo_term := lo_term o; lo_srt := srt; lo_leader := lo_leader o; lo_ready := lo_ready o;
     lo_commit := lo_commit o; lo_verify := lo_verify o; lo_term_after := lo_term_after o;
     lo_fsm_idx := lo_fsm_idx o; lo_kinds := lo_kinds o; lo_reached := lo_reached o |}.

(* is the read turned into a strong read, strongReadTerm being what the model says it is *)
Definition predicts_upgrade (srt : N) (r : mid_read) : bool :=
  lin_result_eqb (wait_lin (with_srt (m_obs r) srt)) LinStrongNeeded.

Definition check_first (f : first_reads) : bool :=
  let srt_mid := srt_run (f_srt0 f) (f_events f) in
  (srt_mid =? f_sampled f)
  && forallb (fun r => Bool.eqb (predicts_upgrade srt_mid r) (m_upgraded r)) (f_reads f)
  && (srt_run srt_mid (f_done f) =? f_srt_after f).

Definition check_case (c : case) : bool :=
  match c with
  | CTrace t =>
      lin_result_eqb (wait_lin (c_obs t)) (c_result t)
      && Bool.eqb (lin_calls_verify (c_obs t)) (c_verified t)
  | CFirst f => check_first f
  | CWrite x =>
      let c := attempt_class (ws_attempt x) in
      match c, ws_class x with
      | WAcked, WAcked | WNotLeader, WNotLeader | WNotReady, WNotReady | WUnknown, WUnknown => true
      | _, _ => false
      end
      && Bool.eqb (forwards c) (ws_forwarded x)
  end.
