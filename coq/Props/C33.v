(* C33 — property theorems only. *)
From Coq Require Import List String.
From RQ Require Import Lib.C33_Log Model.C33 Proofs.C33.

(* Recovery with a valid peers file rebuilds, from the newest snapshot and all later log entries, exactly the
   data the node had applied (and held before), installs exactly the peers-file configuration, and leaves a
   snapshot at the last index with an empty log; an invalid peers file is rejected. *)
Theorem C33_recover : forall nd h peers,
  wf nd h ->
  (valid_peers peers ->
     exists nd', recover nd peers = Recovered nd'
       /\ contents nd' = applied (n_fk nd) h /\ contents nd' = contents nd
       /\ n_conf nd' = peers /\ n_log nd' = nil
       /\ exists d, n_snap nd' = Some (List.length h, d))
  /\ (~ valid_peers peers -> recover nd peers = Rejected).
Proof. exact C33_recover_thm. Qed.
Print Assumptions C33_recover.

(* the configuration check accepts exactly the valid peers files *)
Theorem C33_configuration_check : forall conf, check_configuration conf = true <-> valid_peers conf.
Proof. exact check_configuration_spec. Qed.
Print Assumptions C33_configuration_check.

(* Recovery can be repeated: after any number of attempts that failed or died after any number of RecoverNode's
   effects (restore, replay, checkpoint, write snapshot, delete log), the attempt that completes still yields exactly
   the applied history and the peers-file configuration.  (Invariant: the log is deleted only once the snapshot
   covering it is visible.) *)
Theorem C33_recover_retry : forall nd h peers (fails : list nat),
  wf nd h -> check_configuration peers = true ->
  let nd1 := fold_left (fun n k => partial peers k n) fails nd in
  exists nd', recover nd1 peers = Recovered nd'
    /\ contents nd' = applied (n_fk nd) h
    /\ n_conf nd' = peers
    /\ n_log nd' = nil
    /\ exists d, n_snap nd' = Some (List.length h, d).
Proof. exact recover_retry. Qed.
Print Assumptions C33_recover_retry.

(* the same for the fault points the driver injects (what check_case evaluates) *)
Theorem C33_recover_retry_points : forall nd h peers (fs : list (point * bool)),
  wf nd h -> check_configuration peers = true ->
  let nd1 := fold_left (failed_attempt peers) fs nd in
  exists nd', recover nd1 peers = Recovered nd'
    /\ contents nd' = applied (n_fk nd) h
    /\ n_conf nd' = peers
    /\ n_log nd' = nil
    /\ exists d, n_snap nd' = Some (List.length h, d).
Proof. exact recover_retry_points. Qed.
Print Assumptions C33_recover_retry_points.

(* Second tie (DESIGN 3.5, docs/gotrans.md): checkRaftConfiguration as translated from store/state.go on this run
   rejects exactly what check_configuration rejects (gen_check = the generated function on the model's servers,
   with strings.Contains / net.SplitHostPort instantiated by the model's has_sub / split_host_port_ok). *)
From RQ Require Import Lib.GoLib.
From RQ Require Import Gen.RaftConfig.
From RQ Require Import Proofs.C33_Gen.
Theorem C33_source_derived_eq : forall (E : Type) (e : E) (errorf : string -> E) (l : list server),
  isSome (gen_check E e errorf l) = negb (check_configuration l).
Proof. exact gen_raftconfig_eq. Qed.
Print Assumptions C33_source_derived_eq.
