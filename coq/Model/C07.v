(* C07 — model of snapshot reaping (snapshot/store.go reapInternal / executeReapPlan / check,
   snapshot/plan/{plan,executor,checker}.go) at micro-step granularity.
   Executable definitions only; proofs are in Proofs/C07.v.

   Abstract store.  The newest full snapshot's directory is explicit (meta.json, data.db, its
   CRC sidecar, a WAL sitting in checkpoint position data.db-wal, whether the directory still
   has its old name or already the new one).  The WAL files the plan will checkpoint -- those of
   the full snapshot followed by those of every incremental, in catalog order -- form one table
   [wals] (slot k = k-th path of the plan's checkpoint operation; [owner] tells which directory
   holds the file).  The directories the plan removes -- the incrementals (oldest first), then
   the snapshots older than the full -- form the table [dirs]; of a directory only the number
   of entries other than planned WAL files matters ([d_rest]), and the (index, term) of its
   meta.json.  SQLite is a parameter: [ckpt d w] is the database file after WAL w has been
   checkpointed into d completely, [part d w j] the file after the first j page writes of
   that checkpoint. *)
From Coq Require Import List NArith Bool Arith.
From RQ Require Import Lib.C07_Crash.
Import ListNotations.

Definition is_some {A} (o : option A) : bool := match o with Some _ => true | None => false end.
Definition is_none {A} (o : option A) : bool := negb (is_some o).
Definition upd {A} (f : nat -> A) (i : nat) (v : A) : nat -> A := fun j => if Nat.eqb j i then v else f j.

Record dir := { d_meta : N * N; d_rest : nat }.

Inductive op :=
| OpCkpt (ks : list nat)      (* checkpoint(db, wals): the WAL slots, in order *)
| OpCrc                       (* calc_crc32(data.db) *)
| OpRm (i : nat)              (* remove_all(directory i) *)
| OpMeta (m : N * N)          (* write_meta(full dir, meta with this index/term) *)
| OpVerify                    (* verify_db(data.db) *)
| OpRename.                   (* rename(full dir -> new id) *)

Section Reap.
  Variables D W : Type.
  Variable ckpt : D -> W -> D.
  Variable part : D -> W -> nat -> D.
  Variable nwrites : W -> nat.

  Record st := {
    nw : nat; nd : nat; ninc : nat;        (* table sizes; dirs 0..ninc-1 are the incrementals *)
    owner : nat -> nat;                    (* 0 = the full's own directory, S i = directory i *)
    wals : nat -> option W;                (* None: consumed by the checkpoint, or removed *)
    dirs : nat -> option dir;              (* None: directory gone *)
    f_new : bool;                          (* full directory already renamed to the new id *)
    f_meta : option (N * N);               (* None: meta.json torn *)
    f_db : D;
    f_crc : bool;                          (* sidecar complete and matching data.db *)
    f_dbwal : option W;                    (* data.db-wal *)
    plan : option (list op);               (* REAP_PLAN *)
    plantmp : bool }.                      (* REAP_PLAN.tmp *)

  Definition set_wals v s := {| nw := nw s; nd := nd s; ninc := ninc s; owner := owner s; wals := v; dirs := dirs s; f_new := f_new s;
    f_meta := f_meta s; f_db := f_db s; f_crc := f_crc s; f_dbwal := f_dbwal s; plan := plan s; plantmp := plantmp s |}.
  Definition set_dirs v s := {| nw := nw s; nd := nd s; ninc := ninc s; owner := owner s; wals := wals s; dirs := v; f_new := f_new s;
    f_meta := f_meta s; f_db := f_db s; f_crc := f_crc s; f_dbwal := f_dbwal s; plan := plan s; plantmp := plantmp s |}.
  Definition set_new v s := {| nw := nw s; nd := nd s; ninc := ninc s; owner := owner s; wals := wals s; dirs := dirs s; f_new := v;
    f_meta := f_meta s; f_db := f_db s; f_crc := f_crc s; f_dbwal := f_dbwal s; plan := plan s; plantmp := plantmp s |}.
  Definition set_meta v s := {| nw := nw s; nd := nd s; ninc := ninc s; owner := owner s; wals := wals s; dirs := dirs s; f_new := f_new s;
    f_meta := v; f_db := f_db s; f_crc := f_crc s; f_dbwal := f_dbwal s; plan := plan s; plantmp := plantmp s |}.
  Definition set_db v s := {| nw := nw s; nd := nd s; ninc := ninc s; owner := owner s; wals := wals s; dirs := dirs s; f_new := f_new s;
    f_meta := f_meta s; f_db := v; f_crc := f_crc s; f_dbwal := f_dbwal s; plan := plan s; plantmp := plantmp s |}.
  Definition set_crc v s := {| nw := nw s; nd := nd s; ninc := ninc s; owner := owner s; wals := wals s; dirs := dirs s; f_new := f_new s;
    f_meta := f_meta s; f_db := f_db s; f_crc := v; f_dbwal := f_dbwal s; plan := plan s; plantmp := plantmp s |}.
  Definition set_dbwal v s := {| nw := nw s; nd := nd s; ninc := ninc s; owner := owner s; wals := wals s; dirs := dirs s; f_new := f_new s;
    f_meta := f_meta s; f_db := f_db s; f_crc := f_crc s; f_dbwal := v; plan := plan s; plantmp := plantmp s |}.
  Definition set_plan v s := {| nw := nw s; nd := nd s; ninc := ninc s; owner := owner s; wals := wals s; dirs := dirs s; f_new := f_new s;
    f_meta := f_meta s; f_db := f_db s; f_crc := f_crc s; f_dbwal := f_dbwal s; plan := v; plantmp := plantmp s |}.
  Definition set_plantmp v s := {| nw := nw s; nd := nd s; ninc := ninc s; owner := owner s; wals := wals s; dirs := dirs s; f_new := f_new s;
    f_meta := f_meta s; f_db := f_db s; f_crc := f_crc s; f_dbwal := f_dbwal s; plan := plan s; plantmp := v |}.

  Notation run := (run st).

  (* ---- plan/executor.go ---- *)

  (* os.Stat of the k-th WAL path of the plan: files of the full's directory are looked up
     under the directory's OLD name *)
  Definition wal_at (s : st) (k : nat) : option W :=
    if k <? nw s then
      match owner s k with
      | 0 => if f_new s then None else wals s k
      | S _ => wals s k
      end
    else None.

  (* os.Stat(dbPath + "-wal"), dbPath being under the old name *)
  Definition leftover (s : st) : option W := if f_new s then None else f_dbwal s.

  (* db.CheckpointRemove with w in checkpoint position: page writes one by one, then the WAL
     is truncated and removed *)
  Definition page_write (w : W) (j : nat) : run :=
    step (fun s => set_crc false (set_db (part (f_db s) w j) s)).
  Definition finish_ckpt (w : W) : run :=
    seq (seqs (map (page_write w) (List.seq 1 (nwrites w))))
        (step (fun s => set_crc false (set_dbwal None (set_db (ckpt (f_db s) w) s)))).

  (* os.Rename(wal, dbPath+"-wal") *)
  Definition move_wal (k : nat) (w : W) (s : st) : st := set_dbwal (Some w) (set_wals (upd (wals s) k None) s).

  Definition ckpt_one (k : nat) : run :=
    dyn (fun s => match wal_at s k with
                  | Some w => seq (step (move_wal k w)) (finish_ckpt w)
                  | None => fail
                  end).

  Definition ckpt_op (ks : list nat) : run :=
    seq (dyn (fun s => match leftover s with Some w => finish_ckpt w | None => ret end))
        (dyn (fun s => match filter (fun k => is_some (wal_at s k)) ks with
                       | [] => ret
                       | ex => if f_new s then fail (* dbPath does not exist *) else seqs (map ckpt_one ex)
                       end)).

  Definition crc_op : run :=
    dyn (fun s => if f_new s then fail else seq (step (set_crc false)) (step (set_crc true))).

  (* os.RemoveAll(directory i): entries one by one (planned WAL files still there first), then the directory *)
  Definition owned (s : st) (i : nat) : list nat :=
    filter (fun k => Nat.eqb (owner s k) (S i) && is_some (wals s k)) (List.seq 0 (nw s)).
  Definition clr_wal (k : nat) (s : st) : st := set_wals (upd (wals s) k None) s.
  Definition set_rest (i : nat) (m : N * N) (r : nat) (s : st) : st :=
    set_dirs (upd (dirs s) i (Some {| d_meta := m; d_rest := r |})) s.
  Definition drop_dir (i : nat) (s : st) : st := set_dirs (upd (dirs s) i None) s.
  Definition rm_op (i : nat) : run :=
    dyn (fun s => match dirs s i with
                  | None => ret
                  | Some d =>
                      seq (seqs (map (fun k => step (clr_wal k)) (owned s i)))
                     (seq (seqs (map (fun r => step (set_rest i (d_meta d) r)) (rev (List.seq 0 (d_rest d)))))
                          (step (drop_dir i)))
                  end).

  (* WriteMeta: os.WriteFile truncates, then writes; a missing directory is not an error *)
  Definition meta_op (m : N * N) : run :=
    dyn (fun s => if f_new s then ret else seq (step (set_meta None)) (step (set_meta (Some m)))).
  Definition verify_op : run := dyn (fun s => if f_new s then fail else ret).
  (* Rename: source missing and destination present is success *)
  Definition rename_op : run := dyn (fun s => if f_new s then ret else step (set_new true)).

  Definition exec_op (o : op) : run :=
    match o with
    | OpCkpt ks => ckpt_op ks
    | OpCrc => crc_op
    | OpRm i => rm_op i
    | OpMeta m => meta_op m
    | OpVerify => verify_op
    | OpRename => rename_op
    end.
  Definition exec (p : list op) : run := seqs (map exec_op p).
  Definition rmplan : run := step (set_plan None).

  (* ---- plan/checker.go, Plan.LastOpDone ---- *)
  Definition meta_eqb (a b : N * N) : bool := N.eqb (fst a) (fst b) && N.eqb (snd a) (snd b).
  Definition op_done (s : st) (o : op) : bool :=
    match o with
    | OpRename => f_new s
    | OpRm i => is_none (dirs s i)
    | OpCkpt ks => is_none (leftover s) && forallb (fun k => is_none (wal_at s k)) ks
    | OpMeta m => if f_new s then false else match f_meta s with Some m' => meta_eqb m m' | None => false end
    | OpCrc => negb (f_new s)
    | OpVerify => false
    end.
  Definition last_op_done (s : st) (p : list op) : bool :=
    match rev p with [] => true | o :: _ => op_done s o end.

  (* ---- store.go ---- *)

  (* the catalog's view: newest snapshot = newest existing incremental, else the full *)
  Fixpoint last_inc (f : nat -> option dir) (n : nat) : option dir :=
    match n with 0 => None | S n' => match f n' with Some d => Some d | None => last_inc f n' end end.
  Definition newest (s : st) : option (N * N) :=
    match last_inc (dirs s) (ninc s) with Some d => Some (d_meta d) | None => f_meta s end.
  (* ResolveFiles + Restore of the newest snapshot: the full's database with every WAL of the
     full and of the incrementals checkpointed in order *)
  Fixpoint dk (f : nat -> option W) (k : nat) (d : D) : D :=
    match k with 0 => d | S k' => match f k' with Some w => ckpt (dk f k' d) w | None => dk f k' d end end.
  Definition resolve (s : st) : D := dk (wals s) (nw s) (f_db s).

  Definition default_meta : N * N := (0%N, 0%N).
  Definition build_plan (s : st) : option (list op) :=
    if nd s =? 0 then None                                        (* snapSet.Len() == 1 *)
    else if (ninc s =? 0) && (nw s =? 0) then Some (map OpRm (List.seq 0 (nd s)))
    else if 0 <? nw s then
      Some ([OpCkpt (List.seq 0 (nw s)); OpCrc] ++ map OpRm (List.seq 0 (nd s))
            ++ [OpMeta (match newest s with Some m => m | None => default_meta end); OpVerify; OpRename])
    else Some [].

  Definition write_plan (p : list op) : run :=
    seq (step (set_plantmp true)) (step (fun s => set_plantmp false (set_plan (Some p) s))).

  (* reapInternal + executeReapPlan *)
  Definition reap_run : run :=
    dyn (fun s => match plan s with
                  | Some p => seq (exec p) rmplan
                  | None => match build_plan s with
                            | None => ret
                            | Some p => seq (write_plan p) (seq (exec p) rmplan)
                            end
                  end).

  (* NewStore -> check() *)
  Definition recover : run :=
    seq (dyn (fun s => if plantmp s then step (set_plantmp false) else ret))
        (dyn (fun s => match plan s with
                       | None => ret
                       | Some p => if last_op_done s p then rmplan else seq (exec p) rmplan
                       end)).

  (* a store that opens: no plan artefacts, no WAL in checkpoint position, valid sidecar and meta *)
  Definition clean (s : st) : bool :=
    is_none (plan s) && negb (plantmp s) && is_none (f_dbwal s) && f_crc s && is_some (f_meta s).
  Definition count_dirs (s : st) : nat := length (filter (fun i => is_some (dirs s i)) (List.seq 0 (nd s))).
End Reap.

Arguments nw {D W}. Arguments nd {D W}. Arguments ninc {D W}. Arguments owner {D W}. Arguments wals {D W}.
Arguments dirs {D W}. Arguments f_new {D W}. Arguments f_meta {D W}. Arguments f_db {D W}. Arguments f_crc {D W}.
Arguments f_dbwal {D W}. Arguments plan {D W}. Arguments plantmp {D W}.
Arguments clean {D W}. Arguments newest {D W}. Arguments count_dirs {D W}. Arguments resolve {D W}.

(* ================= concrete SQLite instance used for the driver cases ================= *)
(* database file = list of page contents (ids); WAL = committed frames in log order
   (0-based page number, content) and the database size in pages recorded by the last commit *)
Definition pages := list N.
Record cwal := { cw_frames : list (nat * N); cw_size : nat }.

Fixpoint set_page (p : nat) (c : N) (l : pages) : pages :=
  match p, l with
  | 0, [] => [c]
  | 0, _ :: r => c :: r
  | S p', [] => 0%N :: set_page p' c []
  | S p', x :: r => x :: set_page p' c r
  end.
Definition apply_frames (fs : list (nat * N)) (d : pages) : pages :=
  fold_left (fun d f => set_page (fst f) (snd f) d) fs d.
Definition c_ckpt (d : pages) (w : cwal) : pages := firstn (cw_size w) (apply_frames (cw_frames w) d).
Definition c_part (d : pages) (w : cwal) (j : nat) : pages := apply_frames (firstn j (cw_frames w)) d.
Definition c_nwrites (w : cwal) : nat := length (cw_frames w).

Definition cst := st pages cwal.
Definition c_reap : run cst := reap_run pages cwal c_ckpt c_part c_nwrites.
Definition c_recover : run cst := recover pages cwal c_ckpt c_part c_nwrites.

(* ---- correspondence interface ---- *)
Fixpoint list_eqb {A B} (e : A -> B -> bool) (a : list A) (b : list B) : bool :=
  match a, b with
  | [], [] => true
  | x :: a', y :: b' => e x y && list_eqb e a' b'
  | _, _ => false
  end.
Definition opt_eqb {A} (e : A -> A -> bool) (a b : option A) : bool :=
  match a, b with Some x, Some y => e x y | None, None => true | _, _ => false end.
Definition frame_eqb (a b : nat * N) : bool := Nat.eqb (fst a) (fst b) && N.eqb (snd a) (snd b).
Definition cwal_eqb (a b : cwal) : bool := list_eqb frame_eqb (cw_frames a) (cw_frames b) && Nat.eqb (cw_size a) (cw_size b).

(* what the driver's abstraction function reads off a crash image (a copy of the store directory) *)
Record obs := {
  o_wals : list (option nat);     (* per plan WAL path: file still there -> index of its content in the case's WAL table *)
  o_dirs : list (option nat);     (* per removable directory: number of entries other than planned WAL files *)
  o_new : bool;
  o_meta : option (N * N);
  o_db : pages;
  o_dbwal : option nat;
  o_plan : bool;
  o_plantmp : bool }.

Record case := {
  c_db : pages;                         (* data.db of the newest full *)
  c_meta : N * N;                       (* its (index, term) *)
  c_wals : list (nat * cwal);           (* owner and content of each WAL file, plan order *)
  c_dirs : list ((N * N) * nat);        (* incrementals, then older snapshots: (index, term), entry count *)
  c_ninc : nat;
  c_crash : list (nat * obs);           (* crash path: image number within the reap run, then within each recovery run *)
  c_open : bool;                        (* last restart: NewStore and Open of the newest snapshot succeeded *)
  c_newest : option (N * N);
  c_nsnap : nat;
  c_final_db : pages }.                 (* database restored from the newest snapshot after the last restart *)

Definition init (c : case) : cst :=
  {| nw := length (c_wals c); nd := length (c_dirs c); ninc := c_ninc c;
     owner := fun k => match nth_error (c_wals c) k with Some (o, _) => o | None => 0 end;
     wals := fun k => match nth_error (c_wals c) k with Some (_, w) => Some w | None => None end;
     dirs := fun i => match nth_error (c_dirs c) i with Some (m, r) => Some {| d_meta := m; d_rest := r |} | None => None end;
     f_new := false; f_meta := Some (c_meta c); f_db := c_db c; f_crc := true; f_dbwal := None;
     plan := None; plantmp := false |}.

Definition wal_is (c : case) (i : nat) (w : cwal) : bool :=
  match nth_error (c_wals c) i with Some (_, w') => cwal_eqb w w' | None => false end.
Definition obs_ok (c : case) (s : cst) (o : obs) : bool :=
  list_eqb (fun a b => match a, b with Some w, Some i => wal_is c i w | None, None => true | _, _ => false end)
           (map (wals s) (List.seq 0 (nw s))) (o_wals o)
  && list_eqb (opt_eqb Nat.eqb) (map (fun i => option_map d_rest (dirs s i)) (List.seq 0 (nd s))) (o_dirs o)
  && Bool.eqb (f_new s) (o_new o)
  && opt_eqb (meta_eqb) (f_meta s) (o_meta o)
  && list_eqb N.eqb (f_db s) (o_db o)
  && match f_dbwal s, o_dbwal o with Some w, Some i => wal_is c i w | None, None => true | _, _ => false end
  && Bool.eqb (is_some (plan s)) (o_plan o)
  && Bool.eqb (plantmp s) (o_plantmp o).

(* follow the crash path; None if an image number is out of range or an image differs from the model state *)
Fixpoint follow (c : case) (r : run cst) (s : cst) (path : list (nat * obs)) : option cst :=
  match path with
  | [] => Some s
  | (k, o) :: rest =>
      match nth_error (images r s) k with
      | Some s' => if obs_ok c s' o then follow c c_recover s' rest else None
      | None => None
      end
  end.

Definition check_case (c : case) : bool :=
  match follow c c_reap (init c) (c_crash c) with
  | None => false
  | Some s =>
      match result c_recover s with
      | None => negb (c_open c)
      | Some f =>
          c_open c && clean f
          && opt_eqb meta_eqb (newest f) (c_newest c)
          && Nat.eqb (S (count_dirs f)) (c_nsnap c)
          && list_eqb N.eqb (resolve c_ckpt f) (c_final_db c)
      end
  end.
