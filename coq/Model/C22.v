(* C22 — loads and boots on a cluster: C04's node model (store/store.go load/ReadFrom/fsmApply(LOAD),
   store/command_processor.go LOAD, db/swappable_db.go Swap, snapshots, restart) lifted to several nodes that
   apply the same log, plus SQL-text loads, rejected loads and nodes that join later (log replay, or snapshot
   install when the leader's log was compacted by a boot).
   Executable definitions only; proofs are in Proofs/C22.v. *)
From Coq Require Import List NArith Bool.
From RQ Require Export Model.C04.
Import ListNotations.
Open Scope N_scope.

Record cluster := {
  nodes : list st;          (* node 0 is the leader; every node applies the same log *)
  compacted : bool;         (* the leader's log no longer starts at entry 1 (a boot, or a snapshot of the leader taken
                               with one trailing entry, compacts it) *)
}.

Definition cinit : cluster := {| nodes := [init]; compacted := false |}.

Inductive cop :=
| CWrite (ks : list N) (v : N)
| CLoad (c : list N)              (* load of a database file (WAL or DELETE mode), through the log *)
| CLoadSQL (c : list N)           (* load of SQL text: DROP/CREATE/INSERT statements executed through the log *)
| CLoadBad                        (* load of data that is not a readable database *)
| CBoot (c : list N)              (* boot: only on a single-node cluster *)
| CSnap (i : nat) (o : outcome) (compact : bool)
                                  (* node i snapshots (fsmSnapshot, then persist with outcome o, nothing applied in
                                     between); compact: the leader keeps one trailing log entry *)
| CSnapBegin (i : nat)            (* node i: fsmSnapshot; the snapshot is in flight while entries go on being applied *)
| CSnapPersist (i : nat) (o : outcome)   (* node i: the snapshot in flight is persisted / released with outcome o *)
| CSnapBlocked (i : nat)          (* node i: a snapshot attempt whose checkpoint is blocked by a reader *)
| CRestart (i : nat)              (* node i stops and starts *)
| CJoin.                          (* a new node joins and catches up *)

Definition all_nodes (c : cluster) (o : op) : cluster :=
  {| nodes := map (fun s => fst (step s o)) (nodes c); compacted := compacted c |}.

(* fsmSnapshot immediately followed by the persist: one snapshot as raft takes it when nothing is applied meanwhile *)
Definition snap2 (s : st) (o : outcome) : st * N :=
  let '(s1, r1) := step s OSnapBegin in
  if r1 =? 0 then step s1 (OSnapPersist o) else (s1, r1).

(* what one node does on its own *)
Inductive lop := LSnap2 (o : outcome) | LOp (o : op).
Definition lstep (s : st) (l : lop) : st * N :=
  match l with LSnap2 o => snap2 s o | LOp o => step s o end.

Fixpoint at_node (l : list st) (i : nat) (o : lop) : list st :=
  match l, i with
  | [], _ => []
  | s :: r, O => fst (lstep s o) :: r
  | s :: r, S j => s :: at_node r j o
  end.

(* cells 1..len assigned one by one: what executing the SQL text of a dump does *)
Definition sql_frames (c : list N) : frames := vec_cells 1 c.

(* a node that joins: an empty node given the leader's log.  If the log still starts at entry 1 raft replays
   it; otherwise raft installs the leader's newest snapshot (database + WAL files of the chain) and replays
   the entries after it. *)
Definition blank (l : list entry) : st :=
  {| dbf := []; wal := []; staging := []; snaps := []; full_needed := false; log := l; mnewer := false; pending := None |}.

Definition join_node (c : cluster) : option st :=
  match nodes c with
  | [] => None
  | L :: _ =>
      if compacted c then
        match snaps L, resolve (snaps L) with
        | _ :: _, Some (db, ws) =>
            let s0 := {| dbf := apply_segs db ws; wal := []; staging := [];
                         snaps := [SFull (newest_idx L) db ws]; full_needed := false; log := log L;
                         mnewer := false; pending := None |} in
            Some (fold_left apply_phys (suffix L) s0)
        | _, _ => None
        end
      else Some (fold_left apply_phys (log L) (blank (log L)))
  end.

(* result codes: 0 done, 1 nothing to snapshot, 3 load rejected, 5 boot refused (not a single node),
   6 no such node / cannot join, 7 checkpoint blocked by a reader, 8 not possible now (snapshot in flight / none),
   10 incremental persist refused (full needed) *)
Definition cstep (c : cluster) (o : cop) : cluster * N :=
  match o with
  | CWrite ks v => (all_nodes c (OWrite ks v), 0)
  | CLoad d => (all_nodes c (OLoad d), 0)
  | CLoadSQL d =>
      ({| nodes := map (fun s => apply_phys (add_log s (EWrite (sql_frames d))) (EWrite (sql_frames d))) (nodes c);
          compacted := compacted c |}, 0)
  | CLoadBad => (all_nodes c OLoadBad, 3)
  | CBoot d =>
      match nodes c with
      | [s] =>
          let res := snd (step s (OBoot d)) in        (* 8: refused while a snapshot of the node is in flight *)
          ({| nodes := [fst (step s (OBoot d))]; compacted := compacted c || (res =? 0) |}, res)
      | _ => (c, 5)
      end
  | CSnap i out compact =>
      match nth_error (nodes c) i with
      | Some s =>
          let res := snd (snap2 s out) in
          ({| nodes := at_node (nodes c) i (LSnap2 out);
              compacted := compacted c
                           || (compact && Nat.eqb i 0 && (res =? 0) && match out with POk => true | _ => false end) |}, res)
      | None => (c, 6)
      end
  | CSnapBegin i =>
      match nth_error (nodes c) i with
      | Some s => ({| nodes := at_node (nodes c) i (LOp OSnapBegin); compacted := compacted c |}, snd (step s OSnapBegin))
      | None => (c, 6)
      end
  | CSnapPersist i out =>
      match nth_error (nodes c) i with
      | Some s => ({| nodes := at_node (nodes c) i (LOp (OSnapPersist out)); compacted := compacted c |}, snd (step s (OSnapPersist out)))
      | None => (c, 6)
      end
  | CSnapBlocked i =>
      match nth_error (nodes c) i with
      | Some s => ({| nodes := at_node (nodes c) i (LOp OSnapBlocked); compacted := compacted c |}, snd (step s OSnapBlocked))
      | None => (c, 6)
      end
  | CRestart i =>
      match nth_error (nodes c) i with
      | Some s => ({| nodes := at_node (nodes c) i (LOp ORestart); compacted := compacted c |}, 0)
      | None => (c, 6)
      end
  | CJoin =>
      match join_node c with
      | Some s => ({| nodes := nodes c ++ [s]; compacted := compacted c |}, 0)
      | None => (c, 6)
      end
  end.

Definition crun (ops : list cop) : cluster := fold_left (fun c o => fst (cstep c o)) ops cinit.

(* ---- correspondence ---- *)
(* per node: live dump, FULL_NEEDED, catalog (is-full, index, WAL files) *)
Record nobs := { no_live : list N; no_full : bool; no_cat : list (bool * N * N); no_pend : N }.
Record cobs := { co_res : N; co_nodes : list nobs }.

Definition nobserve (s : st) : nobs :=
  {| no_live := dump (live s); no_full := full_needed s; no_cat := map cat_of (snaps s);
     no_pend := match pending s with None => 0 | Some (PendFull _ _ _) => 1 | Some (PendInc _ _) => 2 end |}.

Definition nobs_eqb (a b : nobs) : bool :=
  list_eqb N.eqb (no_live a) (no_live b) && Bool.eqb (no_full a) (no_full b) && list_eqb cat_eqb (no_cat a) (no_cat b)
  && (no_pend a =? no_pend b).

Definition cobs_eqb (a b : cobs) : bool :=
  (co_res a =? co_res b) && list_eqb nobs_eqb (co_nodes a) (co_nodes b).

Definition cinit_driver : cluster := fst (cstep cinit (CWrite [] 0)).   (* the table is created by a first entry *)

Fixpoint ctrace (c : cluster) (ops : list cop) : list cobs :=
  match ops with
  | [] => []
  | o :: r => let '(c', res) := cstep c o in
              {| co_res := res; co_nodes := map nobserve (nodes c') |} :: ctrace c' r
  end.

Record case := { c_ops : list cop; c_obs : list cobs }.
Definition check_case (c : case) : bool := list_eqb cobs_eqb (ctrace cinit_driver (c_ops c)) (c_obs c).
