package store

// C32 driver: membership histories (discovery notifies, bootstraps, joins, re-joins, removals,
// reaper decisions) on live in-process clusters of up to 4 Stores.  After every event the raft
// configuration is read on the leader (Nodes()) and on every other node; the whole history with
// its observations is emitted as one Gallina `case` for Model.C32.check_case, and the property
// (unique ids/addresses, role as requested, reaped only after the timeout, nobody else removed)
// is evaluated here in Go on the observed configurations, independently of the model.
//
// Requests go to the node that is leader at that moment: "lead" events transfer leadership (Store.Stepdown to a named
// voter) between membership events, so a node's role may be changed under one leader and its failed heartbeats be judged
// under another.  The reaper must decide from the role the node holds NOW in the leader's configuration.
//
// Addresses: every Store has its real listener address (a0..a3); every node also has an alias
// (b0..b3), a TCP forwarder to the real listener, so that "the same node at a new address" and
// "another node at an address used before" exist without restarting anything and every configured
// address stays responsive (raft needs a quorum to commit each change).  "px" is a dead address.

import (
	"bytes"
	"context"
	"encoding/json"
	"fmt"
	"io"
	"log"
	"math/rand"
	"net"
	"os"
	"sort"
	"strings"
	"sync"
	"testing"
	"time"

	"github.com/hashicorp/raft"
	"github.com/rqlite/rqlite/v10/command/proto"
)

type c32Ev struct {
	K       string      `json:"k"` // notify | bootstrap | join | remove | reap | livereap | lead
	ID      string      `json:"id,omitempty"`
	Addr    string      `json:"addr,omitempty"` // abstract address name
	Voter   bool        `json:"voter,omitempty"`
	Servers [][2]string `json:"servers,omitempty"` // bootstrap: (id, abstract address)
	DurMs   int64       `json:"dur_ms,omitempty"`  // reap: silence carried by the injected observation; livereap: how long to wait at most
}

type c32Hist struct {
	Expect   int     `json:"expect"`
	ReapMs   int64   `json:"reap_ms"`
	ReapROMs int64   `json:"reap_ro_ms"`
	Evs      []c32Ev `json:"evs"`
}

type c32Srv struct {
	ID, Addr string
	Voter    bool
}

type c32Obs struct {
	Res       string // ok | ignored | err | timeout
	Cfg       []c32Srv
	Boot      bool
	HasLeader bool  // notify: HasLeader() before the call
	Resolves  bool  // join/notify: the address resolves
	DurMs     int64 // reap / livereap: silence given to the model
	Lead      string // id of the node serving requests after the event
	LeadEv    string // lead: the node that won the election the transfer started (normally the one named)
}

// ---------------------------------------------------------------- world

type c32LogW struct {
	mu  sync.Mutex
	buf bytes.Buffer
}

func (w *c32LogW) Write(p []byte) (int, error) {
	w.mu.Lock()
	defer w.mu.Unlock()
	if w.buf.Len() > 1<<20 {
		w.buf.Reset()
	}
	return w.buf.Write(p)
}
func (w *c32LogW) has(s string) bool {
	w.mu.Lock()
	defer w.mu.Unlock()
	return strings.Contains(w.buf.String(), s)
}

type c32World struct {
	nodes   []*Store
	lns     []net.Listener
	proxies []net.Listener
	real    map[string]string // abstract name -> host:port
	name    map[string]string // host:port -> abstract name
	logws   []*c32LogW
	lead    int // index of the node that serves the requests (the leader)
	sent    int
	mu      sync.Mutex
	conns   []net.Conn
	closed  bool
}

func c32Proxy(w *c32World, target string) net.Listener {
	ln, err := net.Listen("tcp", "127.0.0.1:0")
	if err != nil {
		panic(err)
	}
	go func() {
		for {
			c, err := ln.Accept()
			if err != nil {
				return
			}
			d, err := net.DialTimeout("tcp", target, 2*time.Second)
			if err != nil {
				c.Close()
				continue
			}
			w.mu.Lock()
			if w.closed {
				w.mu.Unlock()
				c.Close()
				d.Close()
				return
			}
			w.conns = append(w.conns, c, d)
			w.mu.Unlock()
			go func() { io.Copy(d, c); d.Close(); c.Close() }()
			go func() { io.Copy(c, d); d.Close(); c.Close() }()
		}
	}()
	return ln
}

func c32DeadAddr() string {
	ln, err := net.Listen("tcp", "127.0.0.1:0")
	if err != nil {
		panic(err)
	}
	a := ln.Addr().String()
	ln.Close()
	return a
}

func c32NewWorld(t *testing.T, h c32Hist, n int) *c32World {
	w := &c32World{real: map[string]string{}, name: map[string]string{}}
	for i := 0; i < n; i++ {
		cfg := NewDBConfig()
		ly := mustMockLayer("127.0.0.1:0")
		c := &Config{DBConf: cfg, Dir: t.TempDir(), ID: fmt.Sprintf("n%d", i)}
		lw := &c32LogW{}
		w.logws = append(w.logws, lw)
		c.Logger = log.New(lw, "[store] ", 0)
		s := New(c, ly)
		if i == 0 {
			s.BootstrapExpect = h.Expect
		}
		// every node may become the leader: same reap settings everywhere
		s.ReapTimeout = time.Duration(h.ReapMs) * time.Millisecond
		s.ReapReadOnlyTimeout = time.Duration(h.ReapROMs) * time.Millisecond
		if err := s.Open(); err != nil {
			t.Fatalf("open: %v", err)
		}
		w.nodes = append(w.nodes, s)
		w.lns = append(w.lns, ly)
		a := fmt.Sprintf("a%d", i)
		w.real[a] = s.Addr()
		w.name[s.Addr()] = a
		{
			p := c32Proxy(w, s.Addr())
			w.proxies = append(w.proxies, p)
			b := fmt.Sprintf("b%d", i)
			w.real[b] = p.Addr().String()
			w.name[p.Addr().String()] = b
		}
	}
	d := c32DeadAddr()
	w.real["px"] = d
	w.name[d] = "px"
	w.real[""] = ""
	w.name[""] = ""
	return w
}

func (w *c32World) close() {
	for _, s := range w.nodes {
		s.Close(false)
	}
	w.mu.Lock()
	w.closed = true
	for _, c := range w.conns {
		c.Close()
	}
	w.mu.Unlock()
	for _, p := range w.proxies {
		p.Close()
	}
	for _, l := range w.lns {
		l.Close()
	}
}

func (w *c32World) addr(name string) string {
	if a, ok := w.real[name]; ok {
		return a
	}
	return name
}

func (w *c32World) cfgOf(s *Store) ([]c32Srv, error) {
	ns, err := s.Nodes()
	if err != nil {
		return nil, err
	}
	out := make([]c32Srv, 0, len(ns))
	for _, n := range ns {
		nm, ok := w.name[n.Addr]
		if !ok {
			nm = "?" + n.Addr
		}
		out = append(out, c32Srv{ID: n.ID, Addr: nm, Voter: n.Suffrage == proto.Suffrage_VOTER})
	}
	return out, nil
}

func c32CfgStr(c []c32Srv) string {
	ss := make([]string, len(c))
	for i, s := range c {
		r := "nonvoter"
		if s.Voter {
			r = "voter"
		}
		ss[i] = s.ID + "@" + s.Addr + "/" + r
	}
	sort.Strings(ss)
	return "[" + strings.Join(ss, " ") + "]"
}

// c32With runs f with a watchdog; false = did not return in time.
func c32With(d time.Duration, f func()) bool {
	done := make(chan struct{})
	go func() { f(); close(done) }()
	select {
	case <-done:
		return true
	case <-time.After(d):
		return false
	}
}

const c32Watchdog = 25 * time.Second

// ---------------------------------------------------------------- the property, on observed configurations

type c32Fail struct{ sig, msg string }

func c32Unique(where string, cfg []c32Srv) *c32Fail {
	ids, addrs := map[string]bool{}, map[string]bool{}
	for _, s := range cfg {
		if ids[s.ID] {
			return &c32Fail{"C32:duplicate-id", fmt.Sprintf("%s: two entries with id %q in %s", where, s.ID, c32CfgStr(cfg))}
		}
		ids[s.ID] = true
		if addrs[s.Addr] {
			return &c32Fail{"C32:duplicate-address", fmt.Sprintf("%s: two entries with address %q in %s", where, s.Addr, c32CfgStr(cfg))}
		}
		addrs[s.Addr] = true
	}
	return nil
}

func c32Find(cfg []c32Srv, id string) *c32Srv {
	for i := range cfg {
		if cfg[i].ID == id {
			return &cfg[i]
		}
	}
	return nil
}

func c32Role(v bool) string {
	if v {
		return "voter"
	}
	return "non-voter"
}

// c32Oracle judges one event from the configuration before and after it.
func c32Oracle(h c32Hist, i int, ev c32Ev, pre []c32Srv, o c32Obs) *c32Fail {
	where := fmt.Sprintf("event %d %s", i, vJSON(ev))
	if f := c32Unique(where+" (leader)", o.Cfg); f != nil {
		return f
	}
	// nobody but the node the event names may leave the configuration
	for _, s := range pre {
		if c32Find(o.Cfg, s.ID) == nil && (s.ID != ev.ID || ev.K == "lead") {
			return &c32Fail{"C32:other-node-removed:" + ev.K, fmt.Sprintf("%s: node %s left the configuration %s -> %s", where, s.ID, c32CfgStr(pre), c32CfgStr(o.Cfg))}
		}
	}
	switch ev.K {
	case "join":
		if o.Res == "ok" || o.Res == "ignored" {
			got := c32Find(o.Cfg, ev.ID)
			if got == nil || got.Addr != ev.Addr {
				return &c32Fail{"C32:join-ok-but-not-member", fmt.Sprintf("%s: Join returned nil, configuration is %s", where, c32CfgStr(o.Cfg))}
			}
			if got.Voter != ev.Voter {
				was := c32Find(pre, ev.ID)
				if was != nil && was.Addr == ev.Addr {
					return &c32Fail{"C32:rejoin-same-id-addr-other-suffrage-ignored:" + c32Role(was.Voter) + "-to-" + c32Role(ev.Voter),
						fmt.Sprintf("%s: Join returned nil, node asked to be %s and is %s: %s", where, c32Role(ev.Voter), c32Role(got.Voter), c32CfgStr(o.Cfg))}
				}
				return &c32Fail{"C32:join-ok-wrong-role", fmt.Sprintf("%s: Join returned nil, node asked to be %s and is %s: %s", where, c32Role(ev.Voter), c32Role(got.Voter), c32CfgStr(o.Cfg))}
			}
		}
	case "reap", "livereap":
		was := c32Find(pre, ev.ID)
		if was != nil && c32Find(o.Cfg, ev.ID) == nil {
			to := h.ReapMs
			if !was.Voter {
				to = h.ReapROMs
			}
			if to == 0 {
				return &c32Fail{"C32:reaped-with-timeout-disabled:" + c32Role(was.Voter), fmt.Sprintf("%s: %s removed although its reap timeout is 0", where, ev.ID)}
			}
			if o.DurMs <= to {
				return &c32Fail{"C32:reaped-before-timeout:" + c32Role(was.Voter), fmt.Sprintf("%s: %s removed after at most %d ms of silence, timeout %d ms", where, ev.ID, o.DurMs, to)}
			}
		}
	}
	return nil
}

// ---------------------------------------------------------------- running a history

func (w *c32World) cur() *Store { return w.nodes[w.lead] }
func (w *c32World) curID() string { return fmt.Sprintf("n%d", w.lead) }

func (w *c32World) waitLeader(d time.Duration) bool {
	dl := time.Now().Add(d)
	for time.Now().Before(dl) {
		if w.cur().IsLeader() {
			return true
		}
		time.Sleep(20 * time.Millisecond)
	}
	return false
}

// leaderReady: a node without a vote in its own configuration cannot be (or become) the leader: nothing to wait for,
// the call is made and must be refused.  Otherwise the serving node is the one leadership was given to: wait for it.
func (w *c32World) leaderReady(pre []c32Srv) bool {
	if me := c32Find(pre, w.curID()); me == nil || !me.Voter {
		return true
	}
	return w.waitLeader(10 * time.Second)
}

// barrier: returns once the observer goroutine of the serving node has handled everything sent before.
func (w *c32World) reapBarrier() bool {
	w.sent++
	id := fmt.Sprintf("zz-barrier-%d", w.sent)
	// a leader observation naming nobody real: handled in order by the same goroutine, logged, and (unlike a failed heartbeat
	// of an unknown peer) it does not make the Store look at the configuration
	w.cur().observerChan <- raft.Observation{Data: raft.LeaderObservation{LeaderID: raft.ServerID(id), LeaderAddr: "nowhere"}}
	dl := time.Now().Add(c32Watchdog)
	for time.Now().Before(dl) {
		if w.logws[w.lead].has(id) {
			return true
		}
		time.Sleep(5 * time.Millisecond)
	}
	return false
}

type c32Run struct {
	obs     []c32Obs
	pres    [][]c32Srv
	finals  [][]c32Srv
	fail    *c32Fail
	inconcl string
	nEv     int // events actually executed
}

// c32Gen, when not nil, chooses the next event from what is observed (configuration on the serving node, its id);
// the events it returns are recorded, so the history replays without it.
type c32Gen func(i int, cfg []c32Srv, lead string) *c32Ev

func c32Exec(t *testing.T, h c32Hist, gen c32Gen) (r c32Run, done c32Hist) {
	done = h
	w := c32NewWorld(t, h, 4)
	defer w.close()
	var joinStart = map[string]time.Time{}
	// raft term in which the serving node leads; an election nobody asked for in the middle of a history (starved heartbeats
	// on a loaded machine) makes raft answer "leadership lost" for changes that commit later: such a run is repeated, not judged
	var leadTerm uint64
	stable := func() bool {
		if !w.cur().IsLeader() {
			return leadTerm == 0
		}
		t := w.cur().raft.CurrentTerm()
		if leadTerm == 0 {
			leadTerm = t
		}
		return t == leadTerm
	}
	for i := 0; ; i++ {
		s0 := w.cur()
		pre, err := w.cfgOf(s0)
		if err != nil {
			r.inconcl = "cannot read configuration: " + err.Error()
			return
		}
		if n := len(r.obs); n > 0 && c32CfgStr(r.obs[n-1].Cfg) != c32CfgStr(pre) {
			r.inconcl = fmt.Sprintf("configuration changed between events %d and %d: %s -> %s", n-1, n, c32CfgStr(r.obs[n-1].Cfg), c32CfgStr(pre))
			return
		}
		var ev c32Ev
		if gen != nil {
			e := gen(i, pre, w.curID())
			if e == nil {
				break
			}
			ev = *e
			done.Evs = append(done.Evs, ev)
		} else {
			if i >= len(h.Evs) {
				break
			}
			ev = h.Evs[i]
		}
		o := c32Obs{Resolves: ev.Addr != "", DurMs: ev.DurMs}
		completed := true
		opErr := ""
		switch ev.K {
		case "notify": // discovery always addresses node 0 (the only node with BootstrapExpect)
			n0 := w.nodes[0]
			o.HasLeader = n0.HasLeader()
			var err error
			completed = c32With(c32Watchdog, func() { err = n0.Notify(&proto.NotifyRequest{Id: ev.ID, Address: w.addr(ev.Addr)}) })
			o.Res = "ok"
			if err != nil {
				o.Res = "err"
			}
		case "bootstrap":
			var srvs []*Server
			for _, p := range ev.Servers {
				srvs = append(srvs, NewServer(p[0], w.addr(p[1]), true))
			}
			err := w.nodes[0].Bootstrap(srvs...)
			o.Res = "ok"
			if err != nil {
				o.Res = "err"
			}
		case "join":
			if !w.leaderReady(pre) {
				r.inconcl = "serving node is not the leader"
				return
			}
			before := s0.numIgnoredJoins
			joinStart[ev.ID] = time.Now()
			var err error
			completed = c32With(c32Watchdog, func() { err = s0.Join(&proto.JoinRequest{Id: ev.ID, Address: w.addr(ev.Addr), Voter: ev.Voter}) })
			if completed {
				switch {
				case err != nil:
					o.Res = "err"
					opErr = err.Error()
				case s0.numIgnoredJoins != before:
					o.Res = "ignored"
				default:
					o.Res = "ok"
				}
			}
		case "remove":
			if !w.leaderReady(pre) {
				r.inconcl = "serving node is not the leader"
				return
			}
			var err error
			completed = c32With(c32Watchdog, func() { err = s0.Remove(context.Background(), &proto.RemoveNodeRequest{Id: ev.ID}) })
			o.Res = "ok"
			if err != nil {
				o.Res = "err"
				opErr = err.Error()
			}
		case "reap":
			if !w.leaderReady(pre) {
				r.inconcl = "serving node is not the leader"
				return
			}
			s0.observerChan <- raft.Observation{Data: raft.FailedHeartbeatObservation{PeerID: raft.ServerID(ev.ID), LastContact: time.Now().Add(-time.Duration(ev.DurMs) * time.Millisecond)}}
			completed = w.reapBarrier()
			o.Res = "ok"
		case "livereap":
			// the real thing: ev.ID sits at a dead address; raft reports failed heartbeats by itself.
			// Silence is measured from just before the node was (last) joined (an over-estimate of what the reaper saw).
			st, ok := joinStart[ev.ID]
			if !ok {
				st = time.Now()
			}
			dl := time.Now().Add(time.Duration(ev.DurMs) * time.Millisecond)
			for time.Now().Before(dl) {
				c, err := w.cfgOf(s0)
				if err == nil && c32Find(c, ev.ID) == nil {
					break
				}
				time.Sleep(10 * time.Millisecond)
			}
			o.DurMs = time.Since(st).Milliseconds()
			o.Res = "ok"
		case "lead":
			if !w.leaderReady(pre) {
				r.inconcl = "serving node is not the leader"
				return
			}
			var err error
			completed = c32With(c32Watchdog, func() { err = s0.Stepdown(true, ev.ID) })
			o.Res = "ok"
			if err != nil {
				o.Res = "err"
				opErr = err.Error()
				tgt := c32Find(pre, ev.ID)
				if tgt != nil && tgt.Voter && ev.ID != w.curID() {
					// raft could not complete a legitimate transfer in time: not a membership matter
					r.inconcl = "leadership transfer failed: " + opErr
					return
				}
			} else if completed {
				// raft hands leadership to the named voter, but the election it triggers may be won by another voter:
				// whoever leads now serves the next requests (the model is told who that is)
				old, k := w.lead, -1
				dl0 := time.Now().Add(10 * time.Second)
				for k < 0 && time.Now().Before(dl0) {
					for j, n := range w.nodes {
						if j != old && n.IsLeader() {
							k = j
						}
					}
					time.Sleep(20 * time.Millisecond)
				}
				if k < 0 {
					r.inconcl = "no other node became leader after the transfer to " + ev.ID
					return
				}
				w.lead = k
				o.LeadEv = w.curID()
				leadTerm = 0
				// the new leader's configuration must be current before the next request is judged against it
				dl := time.Now().Add(5 * time.Second)
				for c32CfgStr(pre) != func() string { c, _ := w.cfgOf(w.cur()); return c32CfgStr(c) }() {
					if time.Now().After(dl) {
						r.inconcl = "new leader has another configuration than the old one"
						return
					}
					time.Sleep(10 * time.Millisecond)
				}
			}
		default:
			t.Fatalf("unknown event %q", ev.K)
		}
		if !completed {
			o.Res = "timeout"
		}
		if ev.K == "bootstrap" || ev.K == "notify" {
			// a configuration naming node 0 as voter elects it; wait so that later events find a leader
			if c, err := w.cfgOf(w.nodes[0]); err == nil {
				if me := c32Find(c, "n0"); me != nil && me.Voter {
					if !w.waitLeader(15 * time.Second) {
						r.inconcl = "no leader after bootstrap"
						return
					}
				}
			}
		}
		s0 = w.cur()
		cfg, err := w.cfgOf(s0)
		if err != nil {
			r.inconcl = "cannot read configuration: " + err.Error()
			return
		}
		if me := c32Find(cfg, w.curID()); me != nil && me.Voter && !stable() {
			r.inconcl = fmt.Sprintf("leadership changed by itself during event %d (%s)", i, opErr)
			return
		}
		o.Cfg = cfg
		o.Boot = w.nodes[0].bootstrapped
		o.Lead = w.curID()
		if opErr != "" {
			t.Logf("event %d %s: %s", i, vJSON(ev), opErr)
		}
		r.obs = append(r.obs, o)
		r.pres = append(r.pres, pre)
		r.nEv = i + 1
		if r.fail == nil {
			r.fail = c32Oracle(h, i, ev, pre, o)
		}
		// every other node, whatever it has learned so far
		for k := 0; k < len(w.nodes) && r.fail == nil; k++ {
			if c, err := w.cfgOf(w.nodes[k]); err == nil && k != w.lead {
				r.fail = c32Unique(fmt.Sprintf("event %d %s (node n%d)", i, vJSON(ev), k), c)
			}
		}
		if !completed {
			return
		}
		if me := c32Find(cfg, w.curID()); len(cfg) > 0 && (me == nil || !me.Voter) {
			// the serving node removed or demoted itself: it steps down and what the others do next is not driven from here
			break
		}
	}
	// convergence: every node that a configured address leads to must end with the leader's configuration
	last, err := w.cfgOf(w.cur())
	if err != nil {
		r.inconcl = "cannot read configuration: " + err.Error()
		return
	}
	for k := 0; k < len(w.nodes); k++ {
		reach := false
		for _, s := range last {
			if s.Addr == fmt.Sprintf("a%d", k) || s.Addr == fmt.Sprintf("b%d", k) {
				reach = true
			}
		}
		if !reach || k == w.lead {
			continue
		}
		dl := time.Now().Add(10 * time.Second)
		var c []c32Srv
		for {
			c, _ = w.cfgOf(w.nodes[k])
			if c32CfgStr(c) == c32CfgStr(last) {
				break
			}
			if time.Now().After(dl) {
				r.inconcl = fmt.Sprintf("node n%d did not converge: has %s, leader has %s", k, c32CfgStr(c), c32CfgStr(last))
				return
			}
			time.Sleep(20 * time.Millisecond)
		}
		r.finals = append(r.finals, c)
		if r.fail == nil {
			r.fail = c32Unique(fmt.Sprintf("final (node n%d)", k), c)
		}
	}
	return
}

// ---------------------------------------------------------------- Gallina

func c32CoqCfg(c []c32Srv) string {
	it := make([]string, len(c))
	for i, s := range c {
		it[i] = fmt.Sprintf("mk_server %s %s %s", coqStr(s.ID), coqStr(s.Addr), coqBool(s.Voter))
	}
	return coqList(it)
}

func c32CoqEv(ev c32Ev, o c32Obs) string {
	switch ev.K {
	case "notify":
		return fmt.Sprintf("ENotify %s %s %s %s", coqStr(ev.ID), coqStr(ev.Addr), coqBool(o.Resolves), coqBool(o.HasLeader))
	case "bootstrap":
		it := make([]string, len(ev.Servers))
		for i, p := range ev.Servers {
			it[i] = coqPair(coqStr(p[0]), coqStr(p[1]))
		}
		return "EBootstrap " + coqList(it)
	case "join":
		return fmt.Sprintf("EJoin %s %s %s %s", coqStr(ev.ID), coqStr(ev.Addr), coqBool(ev.Voter), coqBool(o.Resolves))
	case "remove":
		return "ERemove " + coqStr(ev.ID)
	case "lead":
		if o.LeadEv != "" {
			return "ELead " + coqStr(o.LeadEv)
		}
		return "ELead " + coqStr(ev.ID)
	default: // reap, livereap
		return fmt.Sprintf("EReap %s %s", coqStr(ev.ID), coqN(uint64(o.DurMs)))
	}
}

func c32CoqRes(r string) string {
	switch r {
	case "ok":
		return "ROk"
	case "ignored":
		return "RIgnored"
	case "err":
		return "RErr"
	}
	return "RTimeout"
}

func c32Coq(h c32Hist, r c32Run) string {
	steps := make([]string, r.nEv)
	for i := 0; i < r.nEv; i++ {
		o := r.obs[i]
		steps[i] = fmt.Sprintf("(%s, mk_obs %s %s %s %s)", c32CoqEv(h.Evs[i], o), c32CoqRes(o.Res), c32CoqCfg(o.Cfg), coqBool(o.Boot), coqStr(o.Lead))
	}
	fin := make([]string, len(r.finals))
	for i, c := range r.finals {
		fin[i] = c32CoqCfg(c)
	}
	return fmt.Sprintf("mk_case \"n0\" %s %s %s %s %s", coqN(uint64(h.Expect)), coqN(uint64(h.ReapMs)), coqN(uint64(h.ReapROMs)), coqList(steps), coqList(fin))
}

// ---------------------------------------------------------------- classification of a history

func c32Classify(h c32Hist, r c32Run) (nontrivial bool, tags []string) {
	seen := map[string]bool{}
	tag := func(s string) {
		if !seen[s] {
			seen[s] = true
			tags = append(tags, s)
		}
	}
	tag(fmt.Sprintf("expect=%d", h.Expect))
	roleSetUnder := map[string]string{}
	for i := 0; i < r.nEv; i++ {
		ev, pre, o := h.Evs[i], r.pres[i], r.obs[i]
		tag("ev:" + ev.K + ":" + o.Res)
		if (ev.K == "reap" || ev.K == "livereap") && roleSetUnder[ev.ID] != "" && roleSetUnder[ev.ID] != o.Lead {
			tag("reap:role-was-set-under-another-leader")
		}
		if ev.K == "join" && o.Res == "ok" {
			roleSetUnder[ev.ID] = o.Lead
		}
		if ev.K != "join" {
			if ev.K == "reap" || ev.K == "livereap" {
				if c32Find(pre, ev.ID) != nil && c32Find(o.Cfg, ev.ID) == nil {
					tag("reaped")
				}
			}
			continue
		}
		byID := c32Find(pre, ev.ID)
		var byAddr *c32Srv
		for k := range pre {
			if pre[k].Addr == ev.Addr {
				byAddr = &pre[k]
			}
		}
		switch {
		case byID != nil && byID.Addr == ev.Addr && byID.Voter == ev.Voter:
			tag("join:identical")
		case byID != nil && byID.Addr == ev.Addr:
			nontrivial = true
			tag("rejoin:other-suffrage:" + c32Role(byID.Voter) + "-to-" + c32Role(ev.Voter))
		case byID != nil && byAddr == nil:
			nontrivial = true
			tag("rejoin:new-address")
		case byID != nil && byAddr != nil:
			nontrivial = true
			tag("rejoin:to-address-of-other-node")
		case byAddr != nil:
			nontrivial = true
			tag("join:new-id-at-used-address")
		default:
			tag("join:fresh")
		}
	}
	return
}

func c32One(t *testing.T, out *vWriter, h c32Hist, mkGen func() c32Gen) {
	var r c32Run
	done := h
	t0 := time.Now()
	defer func() { t.Logf("history with %d events: %v", len(done.Evs), time.Since(t0)) }()
	for attempt := 0; attempt < 2; attempt++ {
		var g c32Gen
		if mkGen != nil && attempt == 0 {
			g = mkGen()
		}
		// a second attempt replays the events chosen in the first one
		r, done = c32Exec(t, done, g)
		if r.inconcl == "" {
			break
		}
		done.Evs = done.Evs[:min(len(done.Evs), max(r.nEv+1, len(h.Evs)))]
	}
	h = done
	key := vJSON(h)
	if r.inconcl != "" {
		out.Emit(VCase{Input: h, Key: key, Inconcl: r.inconcl})
		return
	}
	h.Evs = h.Evs[:r.nEv]
	nt, tags := c32Classify(h, r)
	c := VCase{Input: h, Coq: c32Coq(h, r), Nontrivial: nt, Key: key, Tags: tags}
	if r.fail != nil {
		c.OracleFail = r.fail.msg
		c.Sig = r.fail.sig
	}
	out.Emit(c)
}

// ---------------------------------------------------------------- generators

func c32Boot0() c32Ev { return c32Ev{K: "bootstrap", Servers: [][2]string{{"n0", "a0"}}} }

// hand-picked histories: one per re-join case of the property text, the reaper in both roles, live reaping
func c32Corpus() []c32Hist {
	j := func(id, addr string, v bool) c32Ev { return c32Ev{K: "join", ID: id, Addr: addr, Voter: v} }
	rm := func(id string) c32Ev { return c32Ev{K: "remove", ID: id} }
	reap := func(id string, ms int64) c32Ev { return c32Ev{K: "reap", ID: id, DurMs: ms} }
	nt := func(id, addr string) c32Ev { return c32Ev{K: "notify", ID: id, Addr: addr} }
	ld := func(id string) c32Ev { return c32Ev{K: "lead", ID: id} }
	return []c32Hist{
		// same node, new address; new node at an address in use; new node with an id in use; role changes both ways
		{Expect: 0, ReapMs: 20000, ReapROMs: 40000, Evs: []c32Ev{c32Boot0(), j("n1", "a1", true), j("n2", "a2", false), j("n1", "b1", true),
			j("n3", "a2", true), j("n2", "a3", true), j("n2", "a3", false), j("n2", "a3", true), j("n1", "b1", false), j("n1", "b1", false),
			rm("n2"), rm("n2"), j("n0", "a0", true)}},
		// reaper decisions: voter and non-voter, below / above / disabled
		{Expect: 0, ReapMs: 20000, ReapROMs: 40000, Evs: []c32Ev{c32Boot0(), j("n1", "a1", true), j("n2", "a2", false), j("n3", "a3", true),
			reap("n1", 5000), reap("n2", 30000), reap("n9", 100000), reap("n2", 100000), reap("n1", 30000), reap("n3", 0)}},
		{Expect: 0, ReapMs: 0, ReapROMs: 20000, Evs: []c32Ev{c32Boot0(), j("n1", "a1", true), j("n2", "a2", false), reap("n1", 100000), reap("n2", 5000), reap("n2", 100000)}},
		{Expect: 0, ReapMs: 20000, ReapROMs: 0, Evs: []c32Ev{c32Boot0(), j("n1", "a1", true), j("n2", "a2", false), reap("n2", 100000), reap("n1", 100000)}},
		// discovery: three notifies bootstrap three voters, later notifies and bootstraps change nothing
		{Expect: 3, ReapMs: 0, ReapROMs: 0, Evs: []c32Ev{nt("n0", "a0"), nt("n1", "a1"), nt("n1", "b1"), nt("n2", "a2"), nt("n3", "a3"), c32Boot0(), j("n3", "a3", false), j("n1", "b1", true)}},
		// discovery with two ids at one address: raft refuses, the node never bootstraps by itself again
		{Expect: 2, ReapMs: 0, ReapROMs: 0, Evs: []c32Ev{nt("n0", "a0"), nt("n1", "a0"), nt("n2", "a2"), {K: "bootstrap", Servers: [][2]string{{"n0", "a0"}, {"n0", "a1"}}},
			{K: "bootstrap", Servers: [][2]string{{"n0", "a0"}, {"n1", "a1"}}}, j("n2", "a2", true), j("n2", "a1", true)}},
		// sole voter cannot be removed, re-addressed or demoted; empty id / address
		{Expect: 1, ReapMs: 0, ReapROMs: 0, Evs: []c32Ev{nt("n0", "a0"), rm("n0"), j("n0", "px", true), j("n0", "a0", false), j("", "a1", true), j("n1", "", true), j("n1", "a1", false), j("n1", "a1", true)}},
		// the serving node itself re-joins at a new address / as non-voter: it removes (demotes) itself and steps down
		{Expect: 0, ReapMs: 0, ReapROMs: 0, Evs: []c32Ev{c32Boot0(), j("n1", "a1", true), j("n2", "a2", true), j("n0", "b0", true), rm("n1")}},
		{Expect: 0, ReapMs: 0, ReapROMs: 0, Evs: []c32Ev{c32Boot0(), j("n1", "a1", true), j("n2", "a2", false), j("n0", "a0", false), rm("n1")}},
		// leadership moves between membership events: a role changed under another leader, failed heartbeats of that node seen by the
		// first leader before and after (reap timeouts distinct, one of them 0, then both enabled)
		{Expect: 0, ReapMs: 0, ReapROMs: 20000, Evs: []c32Ev{c32Boot0(), j("n1", "a1", true), j("n2", "a2", true), j("n3", "a3", false), reap("n3", 5000),
			ld("n1"), j("n3", "a3", true), reap("n3", 30000), ld("n0"), reap("n3", 30000), reap("n3", 100000), ld("n0"), ld("n7")}},
		{Expect: 0, ReapMs: 20000, ReapROMs: 0, Evs: []c32Ev{c32Boot0(), j("n1", "a1", true), j("n2", "a2", true), j("n3", "a3", true), reap("n3", 5000),
			ld("n2"), j("n3", "a3", false), reap("n3", 30000), ld("n0"), reap("n3", 30000), reap("n3", 100000)}},
		{Expect: 0, ReapMs: 20000, ReapROMs: 40000, Evs: []c32Ev{c32Boot0(), j("n1", "a1", true), j("n2", "a2", true), j("n3", "a3", true), reap("n2", 0),
			ld("n1"), j("n3", "b3", false), ld("n2"), reap("n3", 30000), ld("n0"), reap("n3", 30000), reap("n3", 100000)}},
		// the same with a really unresponsive node: read replica at a dead address (3 s), promoted under another leader, voters are never
		// reaped (raft backs off its heartbeats to a dead peer: failures are reported about 2.6, 5.1, 10.2 s after it starts leading)
		{Expect: 0, ReapMs: 0, ReapROMs: 3000, Evs: []c32Ev{c32Boot0(), j("n1", "a1", true), j("n2", "a2", true), j("px", "px", false), reap("px", 0),
			ld("n1"), j("px", "px", true), ld("n0"), reap("px", 0), {K: "livereap", ID: "px", DurMs: 8500}}},
		// live: an unresponsive non-voter is reaped by the real observer after its timeout, an unresponsive voter is not (disabled)
		{Expect: 0, ReapMs: 0, ReapROMs: 1500, Evs: []c32Ev{c32Boot0(), j("n1", "a1", true), j("n2", "a2", true), j("px", "px", false), {K: "livereap", ID: "px", DurMs: 20000}}},
		{Expect: 0, ReapMs: 1500, ReapROMs: 0, Evs: []c32Ev{c32Boot0(), j("n1", "a1", true), j("n2", "a2", true), j("px", "px", true), {K: "livereap", ID: "px", DurMs: 20000},
			j("px", "px", false), {K: "livereap", ID: "px", DurMs: 1200}}},
	}
}

// random history; `sim` is a deliberately crude picture of the configuration used only to keep the
// cluster alive (never touch the leader while it is not the sole voter) and to aim events at interesting states.
func c32Random(rng *rand.Rand) c32Hist {
	h := c32Hist{Expect: []int{0, 0, 1, 2, 3}[rng.Intn(5)]}
	tos := [][2]int64{{0, 0}, {20000, 0}, {0, 20000}, {20000, 40000}, {20000, 40000}}
	to := tos[rng.Intn(len(tos))]
	h.ReapMs, h.ReapROMs = to[0], to[1]
	live := []string{"n1", "n2", "n3"}
	own := func(id string) string { return "a" + id[1:] }
	if h.Expect > 0 {
		n := h.Expect + rng.Intn(2)
		ids := []string{"n0", "n1", "n2", "n3"}
		for i := 0; i < n; i++ {
			id := ids[i%4]
			if rng.Intn(6) == 0 {
				id = ids[rng.Intn(4)]
			}
			ad := own(id)
			if id != "n0" && rng.Intn(8) == 0 { // node 0 always advertises its real address (it serves the requests)
				ad = own(ids[rng.Intn(4)])
			}
			h.Evs = append(h.Evs, c32Ev{K: "notify", ID: id, Addr: ad})
		}
	}
	// explicit bootstrap: needed when discovery did not produce a configuration, refused otherwise
	switch rng.Intn(4) {
	case 0:
		h.Evs = append(h.Evs, c32Ev{K: "bootstrap", Servers: [][2]string{{"n0", "a0"}, {"n1", "a1"}}})
	case 1:
		h.Evs = append(h.Evs, c32Ev{K: "bootstrap", Servers: [][2]string{{"n0", "a0"}, {"n1", "a0"}}}, c32Boot0())
	default:
		h.Evs = append(h.Evs, c32Boot0())
	}
	if rng.Intn(3) == 0 {
		h.Evs = append(h.Evs, c32Ev{K: "notify", ID: live[rng.Intn(3)], Addr: "a" + fmt.Sprint(1+rng.Intn(3))})
	}
	n := 6 + rng.Intn(7)
	for i := 0; i < n; i++ {
		id := live[rng.Intn(3)]
		switch x := rng.Intn(10); {
		case x < 6:
			var ad string
			switch y := rng.Intn(20); {
			case y < 8:
				ad = own(id)
			case y < 13:
				ad = "b" + id[1:]
			case y < 18:
				ad = []string{"a", "b"}[rng.Intn(2)] + fmt.Sprint(1+rng.Intn(3))
			default:
				ad = "a0"
			}
			h.Evs = append(h.Evs, c32Ev{K: "join", ID: id, Addr: ad, Voter: rng.Intn(2) == 0})
			if rng.Intn(4) == 0 { // same id and address again, perhaps with the other role
				h.Evs = append(h.Evs, c32Ev{K: "join", ID: id, Addr: ad, Voter: rng.Intn(2) == 0})
			}
		case x < 8:
			h.Evs = append(h.Evs, c32Ev{K: "remove", ID: id})
		default:
			h.Evs = append(h.Evs, c32Ev{K: "reap", ID: id, DurMs: []int64{0, 5000, 30000, 100000}[rng.Intn(4)]})
		}
	}
	if rng.Intn(3) == 0 {
		h.Evs = append(h.Evs, c32Ev{K: "join", ID: "n0", Addr: "a0", Voter: true})
	}
	return h
}

// histories in which leadership moves between the membership events.  Every node keeps its own addresses (a_i or b_i), the
// serving leader is never the subject of an event, leadership only goes to voters: the events are chosen from the observed
// configuration and recorded.
func c32LeadHist(rng *rand.Rand) (c32Hist, func() c32Gen) {
	tos := [][2]int64{{0, 20000}, {20000, 0}, {20000, 40000}, {40000, 20000}}
	to := tos[rng.Intn(len(tos))]
	h := c32Hist{ReapMs: to[0], ReapROMs: to[1]}
	n := 10 + rng.Intn(9)
	pre := []c32Ev{c32Boot0(), {K: "join", ID: "n1", Addr: "a1", Voter: true}, {K: "join", ID: "n2", Addr: "a2", Voter: true},
		{K: "join", ID: "n3", Addr: "a3", Voter: rng.Intn(2) == 0}}
	return h, func() c32Gen {
		return func(i int, cfg []c32Srv, lead string) *c32Ev {
			if i < len(pre) {
				return &pre[i]
			}
			if i >= len(pre)+n {
				return nil
			}
			var others, voters []string
			for _, id := range []string{"n0", "n1", "n2", "n3"} {
				if id == lead {
					continue
				}
				others = append(others, id)
				if s := c32Find(cfg, id); s != nil && s.Voter && s.Addr == "a"+id[1:] { // at its real address: a transfer to a node configured at its alias often elects nobody in time
					voters = append(voters, id)
				}
			}
			id := others[rng.Intn(len(others))]
			switch x := rng.Intn(20); {
			case x < 6 && len(voters) > 0:
				return &c32Ev{K: "lead", ID: voters[rng.Intn(len(voters))]}
			case x < 12:
				ad := []string{"a", "a", "b"}[rng.Intn(3)] + id[1:]
				if s := c32Find(cfg, id); s != nil && rng.Intn(3) > 0 {
					return &c32Ev{K: "join", ID: id, Addr: s.Addr, Voter: !s.Voter} // same id and address, other role
				}
				return &c32Ev{K: "join", ID: id, Addr: ad, Voter: rng.Intn(2) == 0}
			case x < 19:
				return &c32Ev{K: "reap", ID: id, DurMs: []int64{0, 5000, 30000, 100000}[rng.Intn(4)]}
			default:
				return &c32Ev{K: "remove", ID: id}
			}
		}
	}
}

func TestVerif_C32(t *testing.T) {
	out := vOpen()
	defer out.Close()
	if raw := vReplayInput(); raw != nil {
		var h c32Hist
		if err := json.Unmarshal(raw, &h); err != nil {
			t.Fatal(err)
		}
		c32One(t, out, h, nil)
		return
	}
	rng := vRand()
	corpus := c32Corpus()
	if os.Getenv("VERIF_C32_ONLY") != "" {
		var k int
		fmt.Sscan(os.Getenv("VERIF_C32_ONLY"), &k)
		corpus = corpus[k : k+1]
	}
	for _, h := range corpus {
		c32One(t, out, h, nil)
	}
	n := vN(10, 400)
	for i := 0; i < n; i++ {
		if i%2 == 0 {
			c32One(t, out, c32Random(rng), nil)
		} else {
			h, g := c32LeadHist(rng)
			c32One(t, out, h, g)
		}
	}
}
