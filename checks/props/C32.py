# C32 — configuration read by bin/check (see checks/registry.py)
SPEC = dict(
    title="Membership changes keep node IDs and addresses unique",
    pkg="./store", files=["store/c32_verif_test.go"],
    rule="membership histories (discovery notifies, bootstraps, joins, re-joins, removals, reaper observations, leadership transfers between "
         "them; 5-25 events, requests served by whichever node leads) on live in-process clusters of 4 Stores: 15 hand-picked histories (one per "
         "re-join case of the property text, reaper decisions for both roles, discovery with duplicate addresses, the serving node re-joining itself, "
         "role changed under one leader and failed heartbeats judged under another with distinct / disabled timeouts, live reaping of a dead address "
         "with and without such a leader change) plus 10 (quick) / 400 (thorough) random ones, half of them with leadership transfers; a history is non-trivial when it contains a join that finds its id or its address already in the configuration and "
         "changes address, id or role; distinct by the JSON text of the history",
    exhaustive=False,
    trusted=["hashicorp/raft v1.7.3 nextConfiguration/checkConfiguration/liveBootstrap guard are transcribed by hand into Model.C32 "
             "(raft_change, raft_bootstrap); validated per run: every configuration observed on the live library is compared with the model's",
             "an accepted configuration change commits (the driver keeps a quorum of responsive voters); leadership moves only when the driver transfers it (a history in which raft elects by itself is repeated, then set aside as inconclusive)",
             "cluster/join.go, bootstrap.go, remove.go only carry the requests (id, address, voter flag) to Store.Join/Notify/Remove; they are not in the model",
             "raft suffrage Staging is never produced by rqlite and is not modelled"],
    assumptions=["membership requests are served by one node at a time (Store.Join/Remove and the reaper run on the current leader, Notify/Bootstrap on the discovered node; raft serialises configuration changes); every decision is a function of the current replicated configuration, not of which node led when it was changed",
                 "time enters only as the silence carried by raft's FailedHeartbeatObservation, compared in ms"],
    level_text="C32_config_unique, C32_role_as_requested(_reachable), C32_role_kept, C32_reaped_only_after_timeout, C32_removed_only_when_justified hold for every "
               "event sequence of any length and every parameter setting (no bound); the model's step function is run against live 4-node clusters on the histories above.",
    level_note="Model = raft configuration arithmetic + Store.Bootstrap/Notify/Join/Remove + reaper decision; tie = per-event comparison of answer, leader configuration and "
               "bootstrapped flag, final configuration of every reachable node; oracle in Go on observed configurations.",
    technique="Coq invariant proof over all membership histories + differential run of the model against live in-process clusters with an independent Go oracle",
    design_ref="6/C32",
    timeout_quick=600, timeout_thorough=7200,
    shard=40,
)
