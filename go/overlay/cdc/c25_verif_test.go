package cdc

// C25 driver.  A real database with the real CDCStreamer produces the event groups of a generated log
// (single- and multi-statement requests, with and without the transaction flag).  The groups are fed, entry by
// entry, into a real cdc.Service (real batcher, real FIFO, real HTTP sink) that talks to a recording endpoint,
// while a scenario switches leadership, takes the endpoint down and up, flushes (snapshot sync), injects
// high-watermark broadcasts and restarts the service with a replay of a log suffix.  After every action the
// driver waits for the service to become quiescent (conditions on white-box counters and FIFO queries, no sleeps).
//
//   model  : Model.C25.play on the same log/actions must give the same accepted requests, FIFO keys and watermark
//   oracle : the row changes of every applied entry (from a shadow database diff, independent of the hooks) must
//            appear in a request accepted by the endpoint under that entry's index (or be covered by a watermark
//            another node broadcast); within a tenure the requests' highest indices must not decrease

import (
	"context"
	"crypto/sha1"
	"database/sql"
	"encoding/json"
	"fmt"
	"io"
	"math/rand"
	"net/http"
	"net/http/httptest"
	"os"
	"path/filepath"
	"reflect"
	"sort"
	"strings"
	"sync"
	"testing"
	"time"

	cdcjson "github.com/rqlite/rqlite/v10/cdc/json"
	"github.com/rqlite/rqlite/v10/command/proto"
	rdb "github.com/rqlite/rqlite/v10/db"
	"go.etcd.io/bbolt"
)

type c25Stmt struct {
	SQL  string `json:"sql"`
	Kind string `json:"kind"` // insert update delete
}
type c25Req struct {
	Tx    bool      `json:"tx"`
	Stmts []c25Stmt `json:"stmts"`
}
type c25Action struct {
	A string `json:"a"`           // apply flush leader endpoint hwm restart
	I uint64 `json:"i,omitempty"` // apply: log index; hwm: value
	B bool   `json:"b,omitempty"` // leader / endpoint
}
type c25Input struct {
	Bsz   int         `json:"bsz"`
	First uint64      `json:"first"` // index of the first request
	Gap   []int       `json:"gap"`   // index distance to the next request (>= 1)
	Reqs  []c25Req    `json:"reqs"`
	Acts  []c25Action `json:"acts"`
}

var c25Schema = []string{
	"CREATE TABLE t (id INTEGER PRIMARY KEY, a TEXT UNIQUE, b)",
	"CREATE TABLE u (x)",
}
var c25Tables = []string{"t", "u"}

// ---------------------------------------------------------------- fake cluster, endpoint

type c25Cluster struct {
	mu     sync.Mutex
	leader chan<- bool
	snap   chan<- chan struct{}
	hwm    chan<- uint64
	bcast  []uint64
}

func (c *c25Cluster) RegisterLeaderChange(ch chan<- bool)          { c.mu.Lock(); c.leader = ch; c.mu.Unlock() }
func (c *c25Cluster) RegisterSnapshotSync(ch chan<- chan struct{}) { c.mu.Lock(); c.snap = ch; c.mu.Unlock() }
func (c *c25Cluster) RegisterHWMUpdate(ch chan<- uint64)           { c.mu.Lock(); c.hwm = ch; c.mu.Unlock() }
func (c *c25Cluster) BroadcastHighWatermark(v uint64) error {
	c.mu.Lock()
	c.bcast = append(c.bcast, v)
	c.mu.Unlock()
	return nil
}

type c25Msg struct {
	Index uint64
	Evs   []string // sorted tokens "table OP old>new"
}
type c25Request struct {
	Tenure int
	Msgs   []c25Msg
}

type c25Endpoint struct {
	// gate is held (write-locked) by the driver while it feeds the groups of one log entry: the endpoint does not
	// answer during that time, so the high watermark cannot move between two groups of the same entry (in the store
	// they reach writeToBatcher within microseconds of each other; fed one by one with waits in between, a fast
	// send could otherwise advance the watermark in the middle of an entry and writeToBatcher would drop the rest -
	// a legal but different schedule from the one Model.C25.act describes)
	gate     sync.RWMutex
	mu       sync.Mutex
	up       bool
	tenure   int
	accepted []c25Request
	failed   int
	srv      *httptest.Server
}

func c25Token(table, op string, oldID, newID int64) string {
	switch op {
	case "INSERT":
		return fmt.Sprintf("%s INSERT %d", table, newID)
	case "DELETE":
		return fmt.Sprintf("%s DELETE %d", table, oldID)
	}
	return fmt.Sprintf("%s %s %d>%d", table, op, oldID, newID)
}

func c25NewEndpoint() *c25Endpoint {
	e := &c25Endpoint{up: true}
	e.srv = httptest.NewServer(http.HandlerFunc(func(w http.ResponseWriter, r *http.Request) {
		body, _ := io.ReadAll(r.Body)
		r.Body.Close()
		e.gate.RLock()
		defer e.gate.RUnlock()
		e.mu.Lock()
		defer e.mu.Unlock()
		if !e.up {
			e.failed++
			w.WriteHeader(http.StatusServiceUnavailable)
			return
		}
		var env cdcjson.CDCMessagesEnvelope
		if err := cdcjson.UnmarshalFromEnvelopeJSON(body, &env); err != nil {
			e.failed++
			w.WriteHeader(http.StatusBadRequest)
			return
		}
		req := c25Request{Tenure: e.tenure}
		for _, m := range env.Payload {
			msg := c25Msg{Index: m.Index}
			for _, ev := range m.Events {
				msg.Evs = append(msg.Evs, c25Token(ev.Table, ev.Op, ev.OldRowID, ev.NewRowID))
			}
			sort.Strings(msg.Evs)
			req.Msgs = append(req.Msgs, msg)
		}
		e.accepted = append(e.accepted, req)
		w.WriteHeader(http.StatusOK)
	}))
	return e
}

// ---------------------------------------------------------------- the log: real streamer + shadow oracle

type c25Row struct{ vals []any }

func c25Snap(ctx context.Context, c *sql.Conn) (map[string]map[int64]c25Row, error) {
	out := map[string]map[int64]c25Row{}
	for _, t := range c25Tables {
		rows, err := c.QueryContext(ctx, "SELECT rowid, * FROM "+t)
		if err != nil {
			return nil, err
		}
		cols, _ := rows.Columns()
		m := map[int64]c25Row{}
		for rows.Next() {
			dest := make([]any, len(cols))
			ptrs := make([]any, len(cols))
			for i := range dest {
				ptrs[i] = &dest[i]
			}
			if err := rows.Scan(ptrs...); err != nil {
				rows.Close()
				return nil, err
			}
			for i, v := range dest {
				if b, ok := v.([]byte); ok {
					dest[i] = string(b)
				}
			}
			m[dest[0].(int64)] = c25Row{vals: dest[1:]}
		}
		rows.Close()
		out[t] = m
	}
	return out, nil
}

func c25Diff(before, after map[string]map[int64]c25Row) []string {
	var toks []string
	for _, t := range c25Tables {
		b, a := before[t], after[t]
		for id, r := range b {
			if r2, ok := a[id]; !ok {
				toks = append(toks, c25Token(t, "DELETE", id, 0))
			} else if !reflect.DeepEqual(r.vals, r2.vals) {
				toks = append(toks, c25Token(t, "UPDATE", id, id))
			}
		}
		for id := range a {
			if _, ok := b[id]; !ok {
				toks = append(toks, c25Token(t, "INSERT", 0, id))
			}
		}
	}
	sort.Strings(toks)
	return toks
}

type c25Entry struct {
	Index   uint64
	Groups  []*proto.CDCIndexedEventGroup // what the real streamer produced
	Commits [][]string                    // shadow oracle: the row changes of each commit (sorted tokens), empty ones dropped
}

func c25RegisterRollback(d *rdb.DB, st *rdb.CDCStreamer) {
	m := reflect.ValueOf(d).MethodByName("RegisterRollbackHook")
	sm := reflect.ValueOf(st).MethodByName("RollbackHook")
	if !m.IsValid() || !sm.IsValid() {
		return
	}
	m.Call([]reflect.Value{reflect.MakeFunc(m.Type().In(0), func([]reflect.Value) []reflect.Value { sm.Call(nil); return nil })})
}

func c25BuildLog(in c25Input, dir string) ([]*c25Entry, error) {
	d, err := rdb.Open(filepath.Join(dir, "real.db"), false, true)
	if err != nil {
		return nil, err
	}
	defer d.Close()
	sdb, err := sql.Open("sqlite3", filepath.Join(dir, "shadow.db"))
	if err != nil {
		return nil, err
	}
	defer sdb.Close()
	sdb.SetMaxOpenConns(1)
	ctx := context.Background()
	sc, err := sdb.Conn(ctx)
	if err != nil {
		return nil, err
	}
	defer sc.Close()
	for _, s := range c25Schema {
		if _, err := d.ExecuteStringStmt(s); err != nil {
			return nil, err
		}
		if _, err := sc.ExecContext(ctx, s); err != nil {
			return nil, err
		}
	}
	ch := make(chan *proto.CDCIndexedEventGroup, 256)
	st, err := rdb.NewCDCStreamer(ch, d)
	if err != nil {
		return nil, err
	}
	d.RegisterPreUpdateHook(st.PreupdateHook, nil, true)
	d.RegisterCommitHook(st.CommitHook)
	c25RegisterRollback(d, st)

	var log []*c25Entry
	idx := in.First
	for ri, r := range in.Reqs {
		e := &c25Entry{Index: idx}
		// real
		st.Reset(idx)
		req := &proto.Request{Transaction: r.Tx}
		for _, s := range r.Stmts {
			req.Statements = append(req.Statements, &proto.Statement{Sql: s.SQL})
		}
		d.Execute(req, false)
	drain:
		for {
			select {
			case g := <-ch:
				e.Groups = append(e.Groups, g)
			default:
				break drain
			}
		}
		// shadow
		if r.Tx {
			sc.ExecContext(ctx, "BEGIN")
			ok := true
			var all []string
			for _, s := range r.Stmts {
				before, err := c25Snap(ctx, sc)
				if err != nil {
					return nil, err
				}
				if _, err := sc.ExecContext(ctx, s.SQL); err != nil {
					ok = false
					break
				}
				after, err := c25Snap(ctx, sc)
				if err != nil {
					return nil, err
				}
				all = append(all, c25Diff(before, after)...)
			}
			if ok {
				sc.ExecContext(ctx, "COMMIT")
				if len(all) > 0 {
					sort.Strings(all)
					e.Commits = append(e.Commits, all)
				}
			} else {
				sc.ExecContext(ctx, "ROLLBACK")
			}
		} else {
			for _, s := range r.Stmts {
				before, err := c25Snap(ctx, sc)
				if err != nil {
					return nil, err
				}
				sc.ExecContext(ctx, s.SQL)
				after, err := c25Snap(ctx, sc)
				if err != nil {
					return nil, err
				}
				if d := c25Diff(before, after); len(d) > 0 {
					e.Commits = append(e.Commits, d)
				}
			}
		}
		log = append(log, e)
		gap := 1
		if ri < len(in.Gap) && in.Gap[ri] > 0 {
			gap = in.Gap[ri]
		}
		idx += uint64(gap)
	}
	return log, nil
}

// ---------------------------------------------------------------- running the service

type c25Run struct {
	in     c25Input
	dir    string
	cl     *c25Cluster
	ep     *c25Endpoint
	svc    *Service
	leader bool
	lastH  uint64 // last watermark injected in this follower tenure
	qlen   int    // objects the driver knows to be queued in the batcher
	stuck  bool   // a stored batch above the high watermark is not being offered to a stable leader with a working endpoint
	err    string
}

func (r *c25Run) cfg() *Config {
	c := DefaultConfig()
	c.Endpoint = r.ep.srv.URL
	c.MaxBatchSz = r.in.Bsz
	c.MaxBatchDelay = time.Hour
	c.HighWatermarkInterval = 10 * time.Millisecond
	c.TransmitTimeout = 5 * time.Second
	c.TransmitMinBackoff = 2 * time.Millisecond
	c.TransmitMaxBackoff = 2 * time.Millisecond
	return c
}

func (r *c25Run) start() error {
	svc, err := NewService("n1", r.dir, r.cl, r.cfg())
	if err != nil {
		return err
	}
	svc.logger.SetOutput(io.Discard)
	if err := svc.Start(); err != nil {
		return err
	}
	r.svc, r.leader, r.lastH, r.qlen = svc, false, 0, 0
	return nil
}

func (r *c25Run) wait(what string, cond func() bool) bool {
	deadline := time.Now().Add(20 * time.Second)
	for !cond() {
		if time.Now().After(deadline) {
			if r.err == "" {
				r.err = "timeout waiting for " + what
			}
			return false
		}
		time.Sleep(500 * time.Microsecond)
	}
	return true
}

func c25Stat(name string) int64 {
	if v := stats.Get(name); v != nil {
		var n int64
		fmt.Sscanf(v.String(), "%d", &n)
		return n
	}
	return 0
}

// syncMainLoop returns when mainLoop has finished whatever it was doing when called: leaderObCh has room for
// leaderChanLen values, so the (leaderChanLen+1)-th no-op notification can only be queued after the first was consumed
func (r *c25Run) syncMainLoop() {
	for i := 0; i <= leaderChanLen; i++ {
		r.svc.SetLeader(r.leader)
	}
}

func (r *c25Run) settle() {
	svc := r.svc
	r.syncMainLoop()
	if r.leader {
		r.ep.mu.Lock()
		up := r.ep.up
		failed0 := r.ep.failed
		r.ep.mu.Unlock()
		pendingWork := func() bool {
			// something stored that the leader loop has not dealt with
			hk, _ := svc.fifo.HighestKey()
			return svc.fifo.HasNext() || (svc.fifo.Len() > 0 && svc.HighWatermark() < hk)
		}
		if up {
			// correct code needs milliseconds here; after 3 s with nothing offered the batch is stuck below the FIFO cursor
			deadline := time.Now().Add(3 * time.Second)
			for pendingWork() {
				if time.Now().After(deadline) {
					if svc.fifo.HasNext() {
						r.err = "timeout waiting for the leader to send what is stored"
					} else {
						r.stuck = true
					}
					break
				}
				time.Sleep(500 * time.Microsecond)
			}
		} else {
			deadline := time.Now().Add(3 * time.Second)
			for {
				r.ep.mu.Lock()
				f := r.ep.failed
				r.ep.mu.Unlock()
				if f > failed0+1 || !pendingWork() {
					break
				}
				if time.Now().After(deadline) {
					if svc.fifo.HasNext() {
						r.err = "timeout waiting for a send attempt"
					} else {
						r.stuck = true // stored above the watermark, not offered, nothing in flight
					}
					break
				}
				time.Sleep(500 * time.Microsecond)
			}
		}
		if hwm := svc.HighWatermark(); hwm != 0 {
			r.wait("the prune up to the high watermark", func() bool {
				fk, _ := svc.fifo.FirstKey()
				return svc.fifo.Len() == 0 || fk > svc.HighWatermark()
			})
		}
	}
}

func (r *c25Run) do(a c25Action, byIndex map[uint64]*c25Entry) {
	svc := r.svc
	switch a.A {
	case "apply":
		e := byIndex[a.I]
		if e == nil {
			return
		}
		r.ep.gate.Lock()
		defer func() {
			if e != nil {
				r.ep.gate.Unlock()
				e = nil
			}
		}()
		for _, g := range e.Groups {
			w0, ig0, rd0 := svc.writesToBatcher.Load(), c25Stat(numBatcherWriteIgnored), c25Stat(numBatcherReads)
			svc.C() <- g
			r.wait("writeToBatcher", func() bool {
				return svc.writesToBatcher.Load()+uint64(c25Stat(numBatcherWriteIgnored)) == w0+uint64(ig0)+1
			})
			if svc.writesToBatcher.Load() == w0+1 {
				r.qlen++
				if r.qlen == r.in.Bsz {
					r.qlen = 0
					r.wait("the batcher to hand over a full batch", func() bool { return c25Stat(numBatcherReads) == rd0+1 })
				}
			}
		}
		r.ep.gate.Unlock()
		e = nil
	case "flush":
		ch := make(chan struct{})
		r.cl.snap <- ch
		select {
		case <-ch:
		case <-time.After(20 * time.Second):
			r.err = "timeout waiting for snapshot sync"
		}
		r.qlen = 0
	case "leader":
		if a.B != r.leader {
			if a.B {
				r.ep.mu.Lock()
				r.ep.tenure++
				r.ep.mu.Unlock()
			}
			svc.SetLeader(a.B)
			r.wait("leadership change", func() bool { return svc.IsLeader() == a.B })
			r.leader, r.lastH = a.B, 0
		}
	case "endpoint":
		r.ep.mu.Lock()
		r.ep.up = a.B
		r.ep.mu.Unlock()
	case "hwm":
		if !r.leader && a.I > r.lastH && a.I != 0 {
			c0 := svc.hwmFollowerUpdated.Load()
			r.cl.hwm <- a.I
			r.wait("follower watermark update", func() bool { return svc.hwmFollowerUpdated.Load() == c0+1 })
			r.lastH = a.I
		}
	case "restart":
		svc.Stop()
		r.ep.mu.Lock()
		r.ep.tenure++
		r.ep.mu.Unlock()
		if err := r.start(); err != nil {
			r.err = "restart: " + err.Error()
			return
		}
	}
	if r.err == "" {
		r.settle()
	}
}

func c25FifoKeys(path string) ([]uint64, error) {
	db, err := bbolt.Open(path, 0600, &bbolt.Options{Timeout: time.Second, ReadOnly: true})
	if err != nil {
		return nil, err
	}
	defer db.Close()
	var ks []uint64
	err = db.View(func(tx *bbolt.Tx) error {
		if b := tx.Bucket(bucketName); b != nil {
			return b.ForEach(func(k, _ []byte) error { ks = append(ks, btouint64(k)); return nil })
		}
		return nil
	})
	return ks, err
}

// ---------------------------------------------------------------- one case

func c25CoqAct(a c25Action) string {
	switch a.A {
	case "apply":
		return "AApply " + coqN(a.I)
	case "flush":
		return "AFlush"
	case "leader":
		return "ALeader " + coqBool(a.B)
	case "endpoint":
		return "AEndpoint " + coqBool(a.B)
	case "hwm":
		return "AHWM " + coqN(a.I)
	}
	return "ARestart"
}

func c25RunCase(w *vWriter, in c25Input) {
	key := fmt.Sprintf("%x", sha1.Sum([]byte(vJSON(in))))
	dir, err := os.MkdirTemp("", "c25")
	if err != nil {
		w.Emit(VCase{Input: in, Key: key, Inconcl: err.Error()})
		return
	}
	defer os.RemoveAll(dir)
	log, err := c25BuildLog(in, dir)
	if err != nil {
		w.Emit(VCase{Input: in, Key: key, Inconcl: "log: " + err.Error()})
		return
	}
	byIndex := map[uint64]*c25Entry{}
	for _, e := range log {
		byIndex[e.Index] = e
	}
	r := &c25Run{in: in, dir: filepath.Join(dir, "svc"), cl: &c25Cluster{}, ep: c25NewEndpoint()}
	defer r.ep.srv.Close()
	os.MkdirAll(r.dir, 0o755)
	if err := r.start(); err != nil {
		w.Emit(VCase{Input: in, Key: key, Inconcl: "start: " + err.Error()})
		return
	}
	// scenario bookkeeping for the oracle
	applied := map[uint64]bool{}
	coveredByOthers := uint64(0) // a watermark broadcast by another node: everything at or below it was delivered there
	inflightLost := false        // leadership was lost while the endpoint was down and a batch was waiting, and came back later
	downWithWork := false
	var acts []string
	nRestart, nFlap, nOutage, nHWM := 0, 0, 0, 0
	for _, a := range in.Acts {
		switch a.A {
		case "apply":
			applied[a.I] = true
		case "hwm":
			if !r.leader && a.I > r.lastH {
				if a.I > coveredByOthers {
					coveredByOthers = a.I
				}
				nHWM++
			}
		case "endpoint":
			if !a.B {
				nOutage++
			}
		case "leader":
			if r.leader && !a.B {
				r.ep.mu.Lock()
				up := r.ep.up
				r.ep.mu.Unlock()
				if !up && r.svc.fifo.Len() > 0 {
					downWithWork = true
				}
				nFlap++
			}
			if !r.leader && a.B && downWithWork {
				inflightLost = true
			}
		case "restart":
			nRestart++
			downWithWork = false
		}
		r.do(a, byIndex)
		acts = append(acts, c25CoqAct(a))
		if r.err != "" {
			break
		}
	}
	if r.err != "" {
		r.svc.Stop()
		w.Emit(VCase{Input: in, Key: key, Inconcl: r.err})
		return
	}
	hwm := r.svc.HighWatermark()
	r.svc.Stop()
	keys, kerr := c25FifoKeys(filepath.Join(r.dir, "cdc", cdcDB))
	r.ep.mu.Lock()
	accepted := append([]c25Request{}, r.ep.accepted...)
	r.ep.mu.Unlock()

	// ---- oracle
	fail, sig := "", ""
	note := func(f, s string) {
		if fail == "" {
			fail, sig = f, s
		}
	}
	if kerr != nil {
		note("reading the FIFO file: "+kerr.Error(), "C25:fifo-unreadable")
	}
	deliveredUnder := map[uint64]map[string]int{}
	anywhere := map[string][]uint64{}
	for _, rq := range accepted {
		for _, m := range rq.Msgs {
			if deliveredUnder[m.Index] == nil {
				deliveredUnder[m.Index] = map[string]int{}
			}
			for _, tk := range m.Evs {
				deliveredUnder[m.Index][tk]++
				anywhere[tk] = append(anywhere[tk], m.Index)
			}
		}
	}
	multiCommit := false
	for _, e := range log {
		if len(e.Commits) > 1 {
			multiCommit = true
		}
		if !applied[e.Index] || e.Index <= coveredByOthers {
			continue
		}
		for _, c := range e.Commits {
			for _, tk := range c {
				if deliveredUnder[e.Index][tk] > 0 {
					continue
				}
				s := "C25:change-not-delivered"
				what := fmt.Sprintf("entry %d: %q was never delivered under index %d", e.Index, tk, e.Index)
				zero := false
				for _, ix := range anywhere[tk] {
					if ix == 0 {
						zero = true
					}
				}
				switch {
				case zero:
					s = "C25:later-commits-of-an-entry-labelled-index-0"
					what += " (it was delivered under index 0)"
				case len(e.Commits) > 1:
					s = "C25:same-index-second-batch-dropped"
				case inflightLost || (r.stuck && nFlap > 0):
					s = "C25:unsent-batch-skipped-when-leadership-returns"
				}
				note(what, s)
			}
		}
	}
	// order within a tenure
	lastTenure, lastMax := -1, uint64(0)
	for _, rq := range accepted {
		mx := uint64(0)
		for _, m := range rq.Msgs {
			if m.Index > mx {
				mx = m.Index
			}
		}
		if rq.Tenure == lastTenure && mx < lastMax {
			note(fmt.Sprintf("within one tenure a request with highest index %d followed one with %d", mx, lastMax), "C25:index-order-violated-within-tenure")
		}
		lastTenure, lastMax = rq.Tenure, mx
	}

	// ---- model case
	var logCoq []string
	for _, e := range log {
		var cs []string
		for _, c := range e.Commits {
			cs = append(cs, coqStrList(c))
		}
		logCoq = append(logCoq, coqPair(coqN(e.Index), coqList(cs)))
	}
	var sentCoq []string
	for _, rq := range accepted {
		mx := uint64(0)
		var gs []string
		for _, m := range rq.Msgs {
			if m.Index > mx {
				mx = m.Index
			}
			gs = append(gs, fmt.Sprintf("{| g_idx := %s; g_evs := %s |}", coqN(m.Index), coqStrList(m.Evs)))
		}
		sentCoq = append(sentCoq, coqPair(coqN(mx), coqList(gs)))
	}
	var keysCoq []string
	for _, k := range keys {
		keysCoq = append(keysCoq, coqN(k))
	}
	c := VCase{Input: in, Key: key}
	c.Coq = fmt.Sprintf("{| c_log := %s; c_bsz := %s; c_acts := %s; c_sent := %s; c_keys := %s; c_hwm := %s |}",
		coqList(logCoq), coqNat(in.Bsz), coqList(acts), coqList(sentCoq), coqList(keysCoq), coqN(hwm))
	c.Nontrivial = multiCommit && (nOutage > 0 || nFlap > 0 || nRestart > 0) && len(accepted) >= 2
	c.Tags = []string{fmt.Sprintf("bsz=%d", in.Bsz)}
	if multiCommit {
		c.Tags = append(c.Tags, "entry-with-several-commits")
	}
	if nOutage > 0 {
		c.Tags = append(c.Tags, "endpoint-outage")
	}
	if nFlap > 0 {
		c.Tags = append(c.Tags, "leadership-lost")
	}
	if inflightLost {
		c.Tags = append(c.Tags, "leadership-returns-after-outage")
	}
	if nRestart > 0 {
		c.Tags = append(c.Tags, "restart")
	}
	if nHWM > 0 {
		c.Tags = append(c.Tags, "watermark-from-cluster")
	}
	if fail != "" {
		c.OracleFail, c.Sig = fail, sig
	}
	w.Emit(c)
}

// ---------------------------------------------------------------- generator

func c25GenReq(rng *rand.Rand, ctr *int) c25Req {
	stmt := func() c25Stmt {
		*ctr++
		switch x := rng.Intn(10); {
		case x < 4:
			n := 1 + rng.Intn(3)
			var rows []string
			for i := 0; i < n; i++ {
				rows = append(rows, fmt.Sprintf("(NULL,'a%d_%d',%d)", *ctr, i, rng.Intn(100)))
			}
			return c25Stmt{SQL: "INSERT INTO t(id,a,b) VALUES " + strings.Join(rows, ","), Kind: "insert"}
		case x < 5:
			return c25Stmt{SQL: fmt.Sprintf("INSERT INTO u(x) VALUES (%d),(%d)", rng.Intn(9), rng.Intn(9)), Kind: "insert"}
		case x < 6: // fails on its only row: UNIQUE(a) - nothing changes, no hook fires
			return c25Stmt{SQL: "INSERT INTO t(id,a,b) SELECT NULL, a, 0 FROM t ORDER BY id LIMIT 1", Kind: "insert"}
		case x < 8:
			return c25Stmt{SQL: fmt.Sprintf("UPDATE t SET b = 'u%d' WHERE id %% %d = 0", *ctr, 2+rng.Intn(2)), Kind: "update"}
		case x < 9:
			return c25Stmt{SQL: fmt.Sprintf("DELETE FROM t WHERE id = (SELECT min(id) FROM t) OR id %% 7 = %d", rng.Intn(7)), Kind: "delete"}
		default:
			return c25Stmt{SQL: "DELETE FROM u WHERE rowid = (SELECT max(rowid) FROM u)", Kind: "delete"}
		}
	}
	r := c25Req{}
	switch x := rng.Intn(10); {
	case x < 3:
		r.Stmts = []c25Stmt{stmt()}
	case x < 7:
		for i, n := 0, 2+rng.Intn(2); i < n; i++ {
			r.Stmts = append(r.Stmts, stmt())
		}
	default:
		r.Tx = true
		for i, n := 0, 1+rng.Intn(3); i < n; i++ {
			r.Stmts = append(r.Stmts, stmt())
		}
	}
	return r
}

func c25Gen(rng *rand.Rand) c25Input {
	in := c25Input{Bsz: []int{1, 2, 3, 50}[rng.Intn(4)], First: uint64(1 + rng.Intn(5))}
	n := 4 + rng.Intn(5)
	ctr := 0
	// a first request that fills the tables a little
	in.Reqs = append(in.Reqs, c25Req{Stmts: []c25Stmt{{SQL: "INSERT INTO t(id,a,b) VALUES (NULL,'s1',1),(NULL,'s2',2),(NULL,'s3',3),(NULL,'s4',4)", Kind: "insert"}, {SQL: "INSERT INTO u(x) VALUES (1),(2)", Kind: "insert"}}})
	in.Gap = append(in.Gap, 1+rng.Intn(3))
	for i := 1; i < n; i++ {
		in.Reqs = append(in.Reqs, c25GenReq(rng, &ctr))
		in.Gap = append(in.Gap, 1+rng.Intn(3))
	}
	idx := make([]uint64, n)
	k := in.First
	for i := 0; i < n; i++ {
		idx[i] = k
		k += uint64(in.Gap[i])
	}
	leader, up := false, true
	add := func(a c25Action) { in.Acts = append(in.Acts, a) }
	if rng.Intn(4) > 0 {
		add(c25Action{A: "leader", B: true})
		leader = true
	}
	next := 0
	lastH := uint64(0)
	for next < n {
		switch x := rng.Intn(100); {
		case x < 45:
			add(c25Action{A: "apply", I: idx[next]})
			next++
		case x < 57:
			add(c25Action{A: "flush"})
		case x < 67:
			up = !up
			add(c25Action{A: "endpoint", B: up})
		case x < 80:
			leader = !leader
			add(c25Action{A: "leader", B: leader})
			lastH = 0
		case x < 88:
			// a watermark from the node that is leader elsewhere: only what this node has applied and flushed is claimed
			if !leader && next > 0 {
				h := idx[rng.Intn(next)]
				if h > lastH {
					add(c25Action{A: "flush"})
					add(c25Action{A: "hwm", I: h})
					lastH = h
				}
			}
		default:
			// snapshot (flush), restart, the log after some earlier point is applied again
			add(c25Action{A: "flush"})
			add(c25Action{A: "restart"})
			leader, lastH = false, 0
			if next > 0 {
				for j := rng.Intn(next + 1); j < next; j++ {
					add(c25Action{A: "apply", I: idx[j]})
				}
			}
		}
	}
	// heal: a stable leader, a working endpoint, everything flushed
	add(c25Action{A: "endpoint", B: true})
	add(c25Action{A: "leader", B: true})
	add(c25Action{A: "flush"})
	return in
}

func c25Corpus() []c25Input {
	ins := func(q string) c25Req { return c25Req{Stmts: []c25Stmt{{SQL: q, Kind: "insert"}}} }
	two := c25Req{Stmts: []c25Stmt{{SQL: "INSERT INTO t(id,a,b) VALUES (NULL,'p',1)", Kind: "insert"}, {SQL: "INSERT INTO t(id,a,b) VALUES (NULL,'q',2)", Kind: "insert"}}}
	L := func(b bool) c25Action { return c25Action{A: "leader", B: b} }
	E := func(b bool) c25Action { return c25Action{A: "endpoint", B: b} }
	A := func(i uint64) c25Action { return c25Action{A: "apply", I: i} }
	F := c25Action{A: "flush"}
	return []c25Input{
		// plain: three single-statement entries
		{Bsz: 2, First: 1, Gap: []int{1, 1, 1}, Reqs: []c25Req{ins("INSERT INTO t(id,a,b) VALUES (NULL,'x',1)"), ins("INSERT INTO u(x) VALUES (5)"), ins("INSERT INTO t(id,a,b) VALUES (NULL,'y',2)")},
			Acts: []c25Action{L(true), A(1), A(2), A(3), F}},
		// an entry that commits twice, batch size 1: the two groups go into different batches
		{Bsz: 1, First: 3, Gap: []int{1, 1}, Reqs: []c25Req{ins("INSERT INTO t(id,a,b) VALUES (NULL,'x',1)"), two},
			Acts: []c25Action{L(true), A(3), A(4), F}},
		// the same with a batch size that keeps them together
		{Bsz: 50, First: 3, Gap: []int{1, 1}, Reqs: []c25Req{ins("INSERT INTO t(id,a,b) VALUES (NULL,'x',1)"), two},
			Acts: []c25Action{L(true), A(3), A(4), F}},
		// endpoint outage, leadership lost and regained in the same process
		{Bsz: 50, First: 1, Gap: []int{1, 1}, Reqs: []c25Req{ins("INSERT INTO t(id,a,b) VALUES (NULL,'x',1)"), ins("INSERT INTO t(id,a,b) VALUES (NULL,'y',2)")},
			Acts: []c25Action{L(true), E(false), A(1), F, L(false), L(true), A(2), F, E(true), F}},
		// outage, then the endpoint comes back: retried and delivered
		{Bsz: 50, First: 1, Gap: []int{1, 1}, Reqs: []c25Req{ins("INSERT INTO t(id,a,b) VALUES (NULL,'x',1)"), ins("INSERT INTO t(id,a,b) VALUES (NULL,'y',2)")},
			Acts: []c25Action{L(true), E(false), A(1), F, A(2), F, E(true), F}},
		// follower with a watermark, restart with replay, then leader
		{Bsz: 2, First: 2, Gap: []int{2, 1, 1}, Reqs: []c25Req{ins("INSERT INTO t(id,a,b) VALUES (NULL,'x',1)"), ins("INSERT INTO u(x) VALUES (5)"), ins("INSERT INTO t(id,a,b) VALUES (NULL,'y',2)")},
			Acts: []c25Action{A(2), A(4), F, {A: "hwm", I: 2}, F, {A: "restart"}, A(4), A(5), L(true), F}},
	}
}

func TestVerif_C25(t *testing.T) {
	w := vOpen()
	defer w.Close()
	rng := vRand()
	if raw := vReplayInput(); raw != nil {
		var in c25Input
		if err := json.Unmarshal(raw, &in); err != nil {
			t.Fatal(err)
		}
		c25RunCase(w, in)
		return
	}
	for _, in := range c25Corpus() {
		c25RunCase(w, in)
	}
	n := vN(40, 400)
	for i := 0; i < n; i++ {
		c25RunCase(w, c25Gen(rng))
		w.mu.Lock()
		w.w.Flush() // keep what was explored if the run is cut short
		w.mu.Unlock()
	}
}
