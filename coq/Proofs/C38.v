(* C38 — linearizable reads complete on a healthy leader without further writes. *)
From Coq Require Import List NArith Bool Lia ZifyBool ZifyNat ZifyN.
From RQ Require Import Model.C02_ReadIndex Model.C38 Proofs.C02_ReadIndex.
Import ListNotations.
Open Scope N_scope.

Definition nocmd (ks : list (option kind)) : Prop := forall x, In x ks -> okind_is_cmd x = false.

(* ---- split_cmd / fsm_step ---- *)

Lemma split_cmd_some ks pre post :
  split_cmd ks = Some (pre, post) ->
  ks = pre ++ post /\ exists pre' c, pre = pre' ++ [c] /\ okind_is_cmd c = true /\ nocmd pre'.
Proof.
  revert pre post. induction ks as [|k r IH]; intros pre post H; cbn [split_cmd] in H; [discriminate|].
  destruct (okind_is_cmd k) eqn:Ek.
  - injection H as <- <-. split; [reflexivity|]. exists [], k. repeat split; [assumption|]. intros x [].
  - destruct (split_cmd r) as [[pre0 post0]|] eqn:Er; [|discriminate].
    injection H as <- <-. destruct (IH _ _ eq_refl) as (-> & pre' & c & -> & Hc & Hn).
    split; [reflexivity|]. exists (k :: pre'), c. repeat split; [assumption|].
    intros x [<- | Hx]; [assumption | now apply Hn].
Qed.

Lemma split_cmd_none ks : split_cmd ks = None <-> nocmd ks.
Proof.
  induction ks as [|k r IH]; cbn [split_cmd].
  - split; [intros _ x [] | reflexivity].
  - destruct (okind_is_cmd k) eqn:Ek.
    + split; [discriminate|]. intros H. specialize (H k (or_introl eq_refl)). congruence.
    + destruct (split_cmd r) as [[pre post]|] eqn:Er.
      * split; [discriminate|]. intros H.
        assert (X : nocmd r) by (intros x Hx; apply H; now right).
        apply IH in X. discriminate.
      * split; [|reflexivity]. intros _ x [<- | Hx]; [assumption|]. now apply (proj1 IH).
Qed.

(* an FSM step never touches the log or the commit index: no further entry is needed *)
Lemma fsm_step_log n : n_log (fsm_step n) = n_log n /\ n_commit (fsm_step n) = n_commit n.
Proof.
  unfold fsm_step. destruct (split_cmd (n_todo n)) as [[pre post]|] eqn:E; [|split; reflexivity].
  apply split_cmd_some in E as (E & _).
  unfold n_log, n_commit, n_fsm. cbn [n_done n_todo n_rest]. rewrite E.
  rewrite <- !app_assoc. split; [reflexivity|]. rewrite !app_length. lia.
Qed.

Lemma fsm_run_log k : forall n, n_log (fsm_run k n) = n_log n /\ n_commit (fsm_run k n) = n_commit n.
Proof.
  induction k as [|k IH]; intros n; cbn [fsm_run]; [split; reflexivity|].
  destruct (IH (fsm_step n)) as [H1 H2]. destruct (fsm_step_log n) as [H3 H4]. split; congruence.
Qed.

(* the FSM moves a prefix of the committed entries behind it *)
Lemma fsm_run_prefix k : forall n, exists mid,
  n_done (fsm_run k n) = n_done n ++ mid /\ n_todo n = mid ++ n_todo (fsm_run k n).
Proof.
  induction k as [|k IH]; intros n; cbn [fsm_run].
  - exists []. rewrite app_nil_r. split; reflexivity.
  - destruct (IH (fsm_step n)) as (mid & H1 & H2). unfold fsm_step in *.
    destruct (split_cmd (n_todo n)) as [[pre post]|] eqn:E.
    + apply split_cmd_some in E as (E & _). cbn [n_done n_todo] in H1, H2.
      set (m := fsm_run k _) in *.
      exists (pre ++ mid). rewrite H1, E, H2, <- !app_assoc. split; reflexivity.
    + exists mid. split; assumption.
Qed.

(* on a node whose committed entries hold no command the FSM has nothing to do *)
Lemma fsm_step_idle n : nocmd (n_todo n) -> fsm_step n = n.
Proof.
  intros H. unfold fsm_step. apply split_cmd_none in H. rewrite H. reflexivity.
Qed.

Lemma fsm_run_idle k : forall n, nocmd (n_todo n) -> fsm_run k n = n.
Proof.
  induction k as [|k IH]; intros n H; cbn [fsm_run]; [reflexivity|].
  rewrite fsm_step_idle by assumption. now apply IH.
Qed.

Lemma fsm_run_nocmd k : forall n, (length (n_todo n) <= k)%nat -> nocmd (n_todo (fsm_run k n)).
Proof.
  induction k as [|k IH]; intros n Hk; cbn [fsm_run].
  - destruct (n_todo n); [intros x [] | cbn in Hk; lia].
  - destruct (split_cmd (n_todo n)) as [[pre post]|] eqn:E.
    + apply IH. unfold fsm_step. rewrite E. cbn [n_todo].
      apply split_cmd_some in E as (E & pre' & c & -> & _). rewrite E in Hk.
      rewrite !app_length in Hk. cbn [length] in Hk. lia.
    + apply split_cmd_none in E. rewrite fsm_step_idle by assumption.
      rewrite fsm_run_idle by assumption. assumption.
Qed.

(* ---- the backwards scan against the drained FSM ---- *)

Lemma scan_down_nocmd_prefix lo a : forall i b,
  nocmd a ->
  scan_down lo i (a ++ b) = lo \/ scan_down lo i (a ++ b) = scan_down lo (i - N.of_nat (length a)) b.
Proof.
  induction a as [|x a IH]; intros i b Hn; cbn [app length scan_down].
  - right. f_equal. lia.
  - destruct x as [k|]; [|now left].
    assert (Ek : is_cmd k = false) by (apply (Hn (Some k)); now left).
    rewrite Ek.
    destruct (IH (N.pred i) b) as [H | H]; [intros y Hy; apply Hn; now right | now left |].
    right. rewrite H. f_equal. lia.
Qed.

Lemma nocmd_rev ks : nocmd ks -> nocmd (rev ks).
Proof. intros H x Hx. apply H. now apply in_rev. Qed.

(* the index the read waits for is at or below where the drained FSM stands *)
Lemma target_le_drained n :
  last_command_index (n_fsm n) (n_commit n) (n_todo n) = n_fsm n \/
  last_command_index (n_fsm n) (n_commit n) (n_todo n) <= n_fsm (drained n).
Proof.
  unfold drained.
  destruct (fsm_run_prefix (length (n_todo n)) n) as (mid & Hd & Ht).
  assert (Hn := fsm_run_nocmd (length (n_todo n)) n (le_n _)).
  set (n' := fsm_run (length (n_todo n)) n) in *.
  unfold last_command_index. rewrite Ht. rewrite rev_app_distr.
  destruct (scan_down_nocmd_prefix (n_fsm n) (rev (n_todo n')) (n_commit n) (rev mid) (nocmd_rev _ Hn)) as [H | H];
    [now left|].
  right. rewrite H. rewrite rev_length.
  assert (R := scan_down_range (n_fsm n) (rev mid) (n_commit n - N.of_nat (length (n_todo n')))).
  assert (L : n_commit n = n_fsm n + N.of_nat (length mid) + N.of_nat (length (n_todo n'))).
  { unfold n_commit. rewrite Ht at 1. rewrite app_length. lia. }
  rewrite rev_length in R. specialize (R ltac:(lia)).
  assert (F : n_fsm n' = n_fsm n + N.of_nat (length mid)).
  { unfold n_fsm. rewrite Hd, app_length. lia. }
  lia.
Qed.

(* ---- the property ---- *)

(* On a leader in good standing, whatever the committed log looks like (entries of any
   kind in any order, compacted or not, anything appended beyond the commit index), once
   the FSM goroutine has applied the commands that are already committed the read is
   served — and the log and the commit index are what they were when the read began. *)
Theorem completes t n :
  wait_lin (healthy_obs t n (n_fsm (drained n))) = LinOk
  /\ n_log (drained n) = n_log n /\ n_commit (drained n) = n_commit n.
Proof.
  split; [|apply fsm_run_log].
  unfold wait_lin, healthy_obs. cbn [lo_term lo_srt lo_leader lo_ready lo_verify lo_term_after negb].
  rewrite N.eqb_refl. cbn [negb].
  unfold lin_wait, lin_target. cbn [lo_commit lo_fsm_idx lo_kinds lo_reached].
  destruct (n_commit n <=? n_fsm n) eqn:Ec.
  - (* nothing committed beyond the FSM *)
    assert (E : n_todo n = []).
    { unfold n_commit in Ec. destruct (n_todo n); [reflexivity | cbn [length] in Ec; lia]. }
    unfold drained. rewrite E. cbn [length fsm_run].
    unfold n_commit in *. rewrite E in *. cbn [length] in *.
    destruct (n_fsm n + N.of_nat 0 <=? n_fsm n) eqn:E2; [reflexivity | lia].
  - destruct (target_le_drained n) as [H | H].
    + rewrite H, N.eqb_refl. reflexivity.
    + destruct (last_command_index (n_fsm n) (n_commit n) (n_todo n) =? n_fsm n); [reflexivity|].
      destruct (last_command_index (n_fsm n) (n_commit n) (n_todo n) <=? n_fsm (drained n)) eqn:E; [reflexivity | lia].
Qed.

(* "It never fails only because the latest committed log entry does not change the
   database": when the committed entries the FSM has not got past hold no command (they
   are configuration changes, barriers, no-ops), the read is served at once — the FSM
   does not have to move at all. *)
Theorem completes_at_once t n :
  nocmd (n_todo n) -> wait_lin (healthy_obs t n (n_fsm n)) = LinOk.
Proof.
  intros H. destruct (completes t n) as [C _].
  unfold drained in C. rewrite fsm_run_idle in C by assumption. exact C.
Qed.

(* the same over every history of the leader's log: appends of any kind, commit
   advances and FSM steps in any interleaving, starting from the empty log *)
Theorem completes_after_any_history t es :
  let n := run empty_node es in
  wait_lin (healthy_obs t n (n_fsm (drained n))) = LinOk /\ n_log (drained n) = n_log n.
Proof.
  intros n. destruct (completes t n) as (H1 & H2 & _). split; assumption.
Qed.

(* ---- the wait as it was before the fix: subscribe to the commit index itself ---- *)

Definition old_lin_wait (o : lin_obs) : lin_result :=
  if lo_commit o <=? lo_reached o then LinOk else LinTimeout.

(* a command followed by a configuration change, both committed and the command applied:
   however long the FSM is given, the old wait times out *)
Lemma old_wait_blocks :
  exists n, forall k, old_lin_wait (healthy_obs 1 n (n_fsm (fsm_run k n))) = LinTimeout.
Proof.
  exists {| n_done := [Some KNoop; Some KCommand]; n_todo := [Some KConfig]; n_rest := [] |}.
  intros k. rewrite fsm_run_idle.
  - reflexivity.
  - intros x [<- | []]. reflexivity.
Qed.

Example ex_node : node :=
  {| n_done := [Some KNoop; Some KConfig; Some KCommand];
     n_todo := [Some KCommand; Some KConfig; Some KBarrier];
     n_rest := [Some KCommand] |}.
Example ex_completes :
  n_fsm (drained ex_node) = 4 /\ lin_target (healthy_obs 2 ex_node 0) = Some 4
  /\ wait_lin (healthy_obs 2 ex_node 4) = LinOk /\ wait_lin (healthy_obs 2 ex_node 3) = LinTimeout.
Proof. vm_compute. auto. Qed.
Example ex_at_once :
  wait_lin (healthy_obs 2 {| n_done := [Some KNoop; Some KCommand]; n_todo := [Some KConfig]; n_rest := [] |} 2) = LinOk.
Proof. vm_compute. auto. Qed.
