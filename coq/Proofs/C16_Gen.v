(* C16 — the source-derived IsStaleRead (Gen/StoreState.v, regenerated from store/state.go on
   every run) is the hand model Model.C16.is_stale.  The adapter obs_of states what the Go
   function derives from its arguments: since = now - leaderLastContact,
   delta = lastFSMUpdateTime - lastAppendedAtTime, IsZero = (time is the zero Time);
   times are nanoseconds counted from the zero Time, the uint64 indexes are naturals. *)
From Coq Require Import List NArith ZArith Bool Lia ZifyBool ZifyN.
From RQ Require Import Lib.GoLib.
From RQ Require Import Lib.GenTac.
From RQ Require Import Model.C16.
From RQ Require Import Gen.StoreState.
Local Open Scope Z_scope.

(* The Section variables of the generated file (the calls that are not translated) are instantiated
   by position below; these lines pin their names, so a change of callee cannot go unnoticed. *)
Arguments IsStaleRead time_Now _ _ _ _ _ _ _ : assert.

Definition obs_of (now llc lfu lat : Z) (fsm commit : N) : stale_obs :=
  {| so_since := now - llc; so_delta := lfu - lat; so_appended_zero := (lat =? 0);
     so_fsm_idx := fsm; so_cmd_commit := commit |}.

Lemma gen_IsStaleRead_eq : forall now llc lfu lat fsm commit fresh strict,
  IsStaleRead now llc lfu lat (Z.of_N fsm) (Z.of_N commit) fresh strict
  = is_stale (obs_of now llc lfu lat fsm commit) fresh strict.
Proof. unfold IsStaleRead, is_stale, obs_of. gen_cases. Qed.
