(* C19 — property theorems only. *)
From Coq Require Import List String.
From RQ Require Import Model.C19 Proofs.C19.

Theorem C19_decision_rule : forall file u p perm,
  aa (load file) u p perm = true <-> authorized file u p perm.
Proof. exact aa_spec. Qed.
Print Assumptions C19_decision_rule.

Theorem C19_last_definition_wins : forall file1 file2 u p perm,
  (forall v, last_def file1 v = last_def file2 v) ->
  aa (load file1) u p perm = aa (load file2) u p perm.
Proof. exact aa_last_wins. Qed.
Print Assumptions C19_last_definition_wins.

Theorem C19_redefinition_hides : forall pre e post u,
  username e = u -> (forall x, In x post -> username x <> u) ->
  last_def (pre ++ e :: post) u = Some e.
Proof. exact redefinition_hides. Qed.
Print Assumptions C19_redefinition_hides.

(* Second tie (DESIGN 3.5, docs/gotrans.md): Check / HasPerm / HasAnyPerm / AA as translated from
   auth/credential_store.go on this run are the hand model's functions (rep = the Go-side store of a
   model store; Some/None = non-nil / nil *CredentialsStore). *)
From RQ Require Import Gen.Auth.
From RQ Require Import Proofs.C19_Gen.
Theorem C19_source_derived_eq :
  (forall c u p, CredentialsStore_Check (rep c) u p = check c u p) /\
  (forall c u p, CredentialsStore_HasPerm (rep c) u p = has_perm c u p) /\
  (forall c u ps, CredentialsStore_HasAnyPerm (rep c) u ps = has_any_perm c u ps) /\
  (forall c u p perm, CredentialsStore_AA (Some (rep c)) u p perm = aa c u p perm) /\
  (forall u p perm, CredentialsStore_AA None u p perm = true).
Proof. exact gen_auth_eq. Qed.
Print Assumptions C19_source_derived_eq.
