# C11 — configuration read by bin/check (see checks/registry.py)
SPEC = dict(
    title="Open snapshot streams never race with reaping",
    pkg="./snapshot", files=["snapshot/c11_verif_test.go"],
    rule="TODO",
    trusted=[],
    assumptions=[],
    level_text="TODO", level_note="TODO", technique="TODO",
    design_ref="6/C11",
    timeout_quick=600, timeout_thorough=7200,
)
