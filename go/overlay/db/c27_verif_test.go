package db

// C27 driver.  A generated write program is executed three times:
//   A  real DB + RegisterPreUpdateHook(streamer.PreupdateHook, filter, idsOnly) + commit/rollback hooks
//      + CDCStreamer; every group that arrives is marshalled with cdc/json and decoded again  -> observed
//   B  twin real DB, no filter, full values, hooks wrapped by a recorder                      -> callback trace for the model
//   S  shadow: plain database/sql connection without hooks; all tables are read before and after every
//      statement; the row differences are the oracle (what was inserted/updated/deleted, with images)
// Within one statement the order of events is compared up to permutation; across statements and groups exactly.

import (
	"context"
	"crypto/sha1"
	"database/sql"
	"encoding/base64"
	"encoding/hex"
	"encoding/json"
	"fmt"
	"math"
	"math/rand"
	"os"
	"reflect"
	"regexp"
	"sort"
	"strconv"
	"strings"
	"testing"

	cdcjson "github.com/rqlite/rqlite/v10/cdc/json"
	command "github.com/rqlite/rqlite/v10/command/proto"
)

type c27Stmt struct {
	SQL  string `json:"sql"`
	Kind string `json:"kind"` // insert replace update update-rowid delete begin commit rollback ddl
}
type c27Req struct {
	Tx    bool      `json:"tx"`
	Stmts []c27Stmt `json:"stmts"`
	Read  bool      `json:"read,omitempty"` // no write: a read on the pooled read-only connection
	DDL   string    `json:"ddl,omitempty"`  // the request consists of schema changes to this table
}
type c27Input struct {
	Filter  string   `json:"filter"` // regexp, "" = none
	IDsOnly bool     `json:"ids_only"`
	Reqs    []c27Req `json:"reqs"`
	NoModel bool     `json:"no_model,omitempty"`
}

var c27Schema = []string{
	"CREATE TABLE items (id INTEGER PRIMARY KEY, name TEXT UNIQUE, qty INTEGER, price REAL, data BLOB, note)",
	"CREATE TABLE logs (msg TEXT NOT NULL, lvl INTEGER)",
	"CREATE TABLE aux_tbl (k INTEGER PRIMARY KEY, v)",
	"CREATE TABLE ledger (k INTEGER PRIMARY KEY, acct TEXT, amt REAL, memo)",
	"CREATE TABLE big_tbl (a, b, c)",
}
var c27Tables = []string{"items", "logs", "aux_tbl", "ledger", "big_tbl"}
// the columns at the start of every program (schema-change programs alter them)
var c27Cols = map[string][]string{
	"items":   {"id", "name", "qty", "price", "data", "note"},
	"logs":    {"msg", "lvl"},
	"aux_tbl": {"k", "v"},
	"ledger":  {"k", "acct", "amt", "memo"},
	"big_tbl": {"a", "b", "c"},
}

// ---------------------------------------------------------------- canonical events

type c27Ev struct {
	Op     string
	Table  string
	Old    int64
	New    int64
	Before []any // nil = absent; values: nil, int64, float64, string, []byte
	After  []any
	Err    string
	Cols   []string // expected events: the table's columns when the statement ran (shadow database)
	// observed events only
	PCols            []string // ColumnNames as attached by the streamer
	ImgOld, ImgNew   []any    // row images of the event group as the streamer delivered it (before marshalling)
	HasOld, HasNew   bool
	JBefore, JAfter  map[string]json.RawMessage // the before/after maps of the marshalled event
}

func c27Tok(v any) string {
	switch x := v.(type) {
	case nil:
		return "null"
	case int64:
		return "i:" + strconv.FormatInt(x, 10)
	case float64:
		return "r:" + strconv.FormatUint(math.Float64bits(x), 16)
	case string:
		return "s:" + x
	case []byte:
		return "y:" + hex.EncodeToString(x)
	case bool:
		return "b:" + strconv.FormatBool(x)
	}
	return fmt.Sprintf("?:%v", v)
}

func c27Toks(vs []any) []string {
	if vs == nil {
		return nil
	}
	out := make([]string, len(vs))
	for i, v := range vs {
		out[i] = c27Tok(v)
	}
	return out
}

func (e c27Ev) String() string {
	if e.PCols != nil || e.HasOld || e.HasNew || e.JBefore != nil || e.JAfter != nil {
		return fmt.Sprintf("%s %s old=%d new=%d names=%v old-image=%v new-image=%v err=%q", e.Op, e.Table, e.Old, e.New, e.PCols, c27Toks(e.ImgOld), c27Toks(e.ImgNew), e.Err)
	}
	return fmt.Sprintf("%s %s old=%d new=%d before=%v after=%v err=%q", e.Op, e.Table, e.Old, e.New, c27Toks(e.Before), c27Toks(e.After), e.Err)
}

func c27SortKey(e c27Ev) string { return fmt.Sprintf("%s|%s|%020d|%020d", e.Table, e.Op, e.Old, e.New) }

func c27ProtoVal(v *command.CDCValue) any {
	if v == nil {
		return nil
	}
	switch x := v.GetValue().(type) {
	case *command.CDCValue_I:
		return x.I
	case *command.CDCValue_D:
		return x.D
	case *command.CDCValue_S:
		return x.S
	case *command.CDCValue_Y:
		return x.Y
	case *command.CDCValue_B:
		return x.B
	}
	return nil
}

func c27ProtoRow(r *command.CDCRow) []any {
	if r == nil {
		return nil
	}
	out := make([]any, len(r.Values))
	for i, v := range r.Values {
		out[i] = c27ProtoVal(v)
	}
	return out
}

// ---------------------------------------------------------------- the three executions

type c27Target struct {
	db   *DB
	path string
	st   *CDCStreamer
	ch   chan *command.CDCIndexedEventGroup
}

func c27Open() (*c27Target, error) {
	path := mustTempFile()
	d, err := Open(path, false, true)
	if err != nil {
		return nil, err
	}
	for _, s := range c27Schema {
		mustExecute(d, s)
	}
	t := &c27Target{db: d, path: path, ch: make(chan *command.CDCIndexedEventGroup, 256)}
	t.st, err = NewCDCStreamer(t.ch, d)
	return t, err
}

func (t *c27Target) close() {
	t.db.Close()
	os.Remove(t.path)
	os.Remove(t.path + "-wal")
	os.Remove(t.path + "-shm")
}

func (t *c27Target) exec(r c27Req, idx uint64) error {
	t.st.Reset(idx)
	req := &command.Request{Transaction: r.Tx}
	for _, s := range r.Stmts {
		req.Statements = append(req.Statements, &command.Statement{Sql: s.SQL})
	}
	_, err := t.db.Execute(req, false)
	return err
}

func (t *c27Target) drain() []*command.CDCIndexedEventGroup {
	var gs []*command.CDCIndexedEventGroup
	for {
		select {
		case g := <-t.ch:
			gs = append(gs, g)
		default:
			return gs
		}
	}
}

// what one JSON event looked like
type c27JEv struct {
	Op     string                     `json:"op"`
	Table  string                     `json:"table"`
	New    int64                      `json:"new_row_id"`
	Old    int64                      `json:"old_row_id"`
	Before map[string]json.RawMessage `json:"before"`
	After  map[string]json.RawMessage `json:"after"`
	Err    string                     `json:"error"`
}
type c27JMsg struct {
	Index  uint64   `json:"index"`
	Events []c27JEv `json:"events"`
}
type c27JEnv struct {
	Payload []c27JMsg `json:"payload"`
}

// jsonIs: does the JSON value stand for the SQLite value v
func c27JSONIs(raw json.RawMessage, v any) bool {
	s := strings.TrimSpace(string(raw))
	switch x := v.(type) {
	case nil:
		return s == "null"
	case int64:
		return s == strconv.FormatInt(x, 10)
	case float64:
		f, err := strconv.ParseFloat(s, 64)
		return err == nil && f == x && !strings.HasPrefix(s, `"`)
	case string:
		var d string
		return strings.HasPrefix(s, `"`) && json.Unmarshal(raw, &d) == nil && d == x
	case []byte:
		var d string
		return strings.HasPrefix(s, `"`) && json.Unmarshal(raw, &d) == nil && d == base64.StdEncoding.EncodeToString(x)
	}
	return false
}

// ---------------------------------------------------------------- shadow

type c27Row struct {
	id   int64
	vals []any
}

type c27TableSnap struct {
	cols []string
	rows map[int64]c27Row
}

// c27SnapAll reads every table that exists right now: its columns and its rows
func c27SnapAll(ctx context.Context, c *sql.Conn) (map[string]*c27TableSnap, error) {
	out := map[string]*c27TableSnap{}
	for _, table := range c27Tables {
		rows, err := c.QueryContext(ctx, "SELECT rowid, * FROM "+table)
		if err != nil {
			if strings.Contains(err.Error(), "no such table") {
				continue
			}
			return nil, err
		}
		cols, _ := rows.Columns()
		ts := &c27TableSnap{cols: cols[1:], rows: map[int64]c27Row{}}
		n := len(ts.cols)
		for rows.Next() {
			dest := make([]any, n+1)
			ptrs := make([]any, n+1)
			for i := range dest {
				ptrs[i] = &dest[i]
			}
			if err := rows.Scan(ptrs...); err != nil {
				rows.Close()
				return nil, err
			}
			id := dest[0].(int64)
			vals := make([]any, n)
			for i := 0; i < n; i++ {
				if b, ok := dest[i+1].([]byte); ok {
					vals[i] = append([]byte{}, b...)
				} else {
					vals[i] = dest[i+1]
				}
			}
			ts.rows[id] = c27Row{id: id, vals: vals}
		}
		err = rows.Err()
		rows.Close()
		if err != nil {
			return nil, err
		}
		out[table] = ts
	}
	return out, nil
}

// the row changes between two snapshots, read as the effect of a (non-DDL) statement of the given kind
func c27Diff(before, after map[string]*c27TableSnap, kind string) []c27Ev {
	var evs []c27Ev
	for _, t := range c27Tables {
		bs, as := before[t], after[t]
		if bs == nil || as == nil {
			continue
		}
		b, a, cols := bs.rows, as.rows, as.cols
		var removed, added, changed []int64
		for id, r := range b {
			if r2, ok := a[id]; !ok {
				removed = append(removed, id)
			} else if !reflect.DeepEqual(r.vals, r2.vals) {
				changed = append(changed, id)
			}
		}
		for id := range a {
			if _, ok := b[id]; !ok {
				added = append(added, id)
			}
		}
		if (kind == "update" || kind == "update-rowid") && len(removed) == 1 && len(added) == 1 {
			// a single row got a new rowid
			evs = append(evs, c27Ev{Op: "UPDATE", Table: t, Old: removed[0], New: added[0], Before: b[removed[0]].vals, After: a[added[0]].vals, Cols: cols})
			removed, added = nil, nil
		}
		for _, id := range removed {
			evs = append(evs, c27Ev{Op: "DELETE", Table: t, Old: id, Before: b[id].vals, Cols: cols})
		}
		for _, id := range changed {
			if kind == "replace" || kind == "insert" {
				evs = append(evs, c27Ev{Op: "DELETE", Table: t, Old: id, Before: b[id].vals, Cols: cols})
				evs = append(evs, c27Ev{Op: "INSERT", Table: t, New: id, After: a[id].vals, Cols: cols})
			} else {
				evs = append(evs, c27Ev{Op: "UPDATE", Table: t, Old: id, New: id, Before: b[id].vals, After: a[id].vals, Cols: cols})
			}
		}
		for _, id := range added {
			evs = append(evs, c27Ev{Op: "INSERT", Table: t, New: id, After: a[id].vals, Cols: cols})
		}
	}
	sort.Slice(evs, func(i, j int) bool { return c27SortKey(evs[i]) < c27SortKey(evs[j]) })
	return evs
}

// expected groups: per group, per statement, the (sorted) events
type c27ReqExpect struct {
	groups     [][][]c27Ev
	undoneInTx bool // a statement failed inside an explicit transaction that then committed
	failedAuto bool // an autocommit statement failed, or an explicit transaction was rolled back, with more statements in the request
	envAfter   map[string][]string // the tables' columns after the request
}
type c27Expect struct {
	reqs         []*c27ReqExpect
	undoneInTx   bool
	failedAuto   bool
	failedStmts  int
	multiRowStmt int
}

func c27Shadow(in c27Input) (*c27Expect, error) {
	path := mustTempFile()
	defer os.Remove(path)
	sdb, err := sql.Open("sqlite3", path)
	if err != nil {
		return nil, err
	}
	defer sdb.Close()
	sdb.SetMaxOpenConns(1)
	ctx := context.Background()
	c, err := sdb.Conn(ctx)
	if err != nil {
		return nil, err
	}
	defer c.Close()
	for _, s := range c27Schema {
		if _, err := c.ExecContext(ctx, s); err != nil {
			return nil, err
		}
	}
	ex := &c27Expect{}
	for _, r := range in.Reqs {
		inTx := false
		var pending [][]c27Ev
		failedInThisTx := false
		rx := &c27ReqExpect{}
		ex.reqs = append(ex.reqs, rx)
		commit := func() {
			var g [][]c27Ev
			n := 0
			for _, s := range pending {
				if len(s) > 0 {
					g = append(g, s)
					n += len(s)
				}
			}
			if n > 0 {
				rx.groups = append(rx.groups, g)
			}
			if failedInThisTx {
				ex.undoneInTx, rx.undoneInTx = true, true
			}
			pending, failedInThisTx = nil, false
		}
		if r.Tx && !r.Read {
			if _, err := c.ExecContext(ctx, "BEGIN"); err != nil {
				return nil, err
			}
			inTx = true
		}
		aborted := false
		for _, s := range r.Stmts {
			if s.SQL == "" || r.Read {
				continue
			}
			if s.Kind == "ddl" {
				if _, xerr := c.ExecContext(ctx, s.SQL); xerr != nil {
					return nil, fmt.Errorf("generated schema change failed: %s: %v", s.SQL, xerr)
				}
				continue
			}
			before, err := c27SnapAll(ctx, c)
			if err != nil {
				return nil, err
			}
			_, xerr := c.ExecContext(ctx, s.SQL)
			after, err := c27SnapAll(ctx, c)
			if err != nil {
				return nil, err
			}
			if xerr != nil {
				ex.failedStmts++
			}
			if r.Tx {
				if xerr != nil {
					c.ExecContext(ctx, "ROLLBACK")
					inTx, aborted = false, true
					pending = nil
					break
				}
				pending = append(pending, c27Diff(before, after, s.Kind))
				continue
			}
			switch s.Kind {
			case "begin":
				if xerr == nil {
					inTx = true
				}
			case "commit":
				if xerr == nil {
					inTx = false
					commit()
				}
			case "rollback":
				if xerr == nil {
					inTx = false
					pending, failedInThisTx = nil, false
					rx.failedAuto = true // its rows were undone by a transaction rollback, like a failed autocommit statement
				}
			default:
				d := c27Diff(before, after, s.Kind)
				if len(d) > 1 {
					ex.multiRowStmt++
				}
				if inTx {
					if xerr != nil {
						failedInThisTx = true
					}
					pending = append(pending, d)
				} else {
					if xerr != nil {
						ex.failedAuto, rx.failedAuto = true, true
					}
					pending = [][]c27Ev{d}
					commit()
				}
			}
		}
		if r.Tx && !r.Read && !aborted {
			if _, err := c.ExecContext(ctx, "COMMIT"); err != nil {
				return nil, err
			}
			commit()
		}
		if inTx && !r.Tx {
			return nil, fmt.Errorf("generated request leaves a transaction open")
		}
		snap, err := c27SnapAll(ctx, c)
		if err != nil {
			return nil, err
		}
		rx.envAfter = map[string][]string{}
		for t, ts := range snap {
			rx.envAfter[t] = ts.cols
		}
	}
	return ex, nil
}

// ---------------------------------------------------------------- one case

func c27CoqStrs(ss []string) string { return coqStrList(ss) }

func c27CoqOptPairs(cols []string, toks []string) string {
	if toks == nil {
		return "None"
	}
	it := make([]string, len(toks))
	for i := range toks {
		name := "?"
		if i < len(cols) {
			name = cols[i]
		}
		it[i] = coqPair(coqStr(name), coqStr(toks[i]))
	}
	return "(Some " + coqList(it) + ")"
}

func c27Ascii(s string) bool {
	for _, r := range s {
		if r < 32 || r > 126 {
			return false
		}
	}
	return true
}

func c27CoqEnv(env map[string][]string) string {
	var it []string
	for _, t := range c27Tables {
		if cols, ok := env[t]; ok {
			it = append(it, coqPair(coqStr(t), coqStrList(cols)))
		}
	}
	return coqList(it)
}

const c27ReadSQL = "SELECT count(*) FROM sqlite_master"

func c27Run(w *vWriter, in c27Input) {
	var re *regexp.Regexp
	if in.Filter != "" {
		re = regexp.MustCompile(in.Filter)
	}
	selected := func(table string) bool { return re == nil || re.MatchString(table) }
	key := fmt.Sprintf("%x", sha1.Sum([]byte(vJSON(in))))

	// ---- oracle first: the shadow database gives, per request, the row changes and the tables' columns
	ex, err := c27Shadow(in)
	if err != nil {
		w.Emit(VCase{Input: in, Key: key, Inconcl: "shadow: " + err.Error()})
		return
	}

	A, err := c27Open()
	if err != nil {
		w.Emit(VCase{Input: in, Key: key, Inconcl: "open: " + err.Error()})
		return
	}
	defer A.close()
	B, err := c27Open()
	if err != nil {
		w.Emit(VCase{Input: in, Key: key, Inconcl: "open: " + err.Error()})
		return
	}
	defer B.close()

	// A: the configuration under test
	A.db.RegisterPreUpdateHook(A.st.PreupdateHook, re, in.IDsOnly)
	A.db.RegisterCommitHook(A.st.CommitHook)
	c27RegisterRollback(A.db, A.st, nil)

	// B: recorder around the streamer's hooks.  The trace also gets the marker "Schema env" at the point from which
	// A's ColumnNames answers env: the first statement A's pooled read connection steps after a schema change - a read
	// request, or the column-name lookup of the first commit that has a selected event (whose own answer is still old).
	var trace []string
	var pendingEnv map[string][]string // set by a schema change, until the read connection has stepped
	selectedPending := 0
	B.db.RegisterPreUpdateHook(func(ev *command.CDCEvent) error {
		op := "ROther"
		switch ev.Op {
		case command.CDCEvent_INSERT:
			op = "RInsert"
		case command.CDCEvent_UPDATE:
			op = "RUpdate"
		case command.CDCEvent_DELETE:
			op = "RDelete"
		}
		trace = append(trace, fmt.Sprintf("Pre {| r_op := %s; r_table := %s; r_old := %s; r_new := %s; r_oldv := %s; r_newv := %s |}",
			op, coqStr(ev.Table), coqZ(ev.OldRowId), coqZ(ev.NewRowId),
			c27CoqStrs(c27Toks(c27ProtoRow(ev.OldRow))), c27CoqStrs(c27Toks(c27ProtoRow(ev.NewRow)))))
		if selected(ev.Table) {
			selectedPending++
		}
		return B.st.PreupdateHook(ev)
	}, nil, false)
	B.db.RegisterCommitHook(func() bool {
		trace = append(trace, "Commit")
		if selectedPending > 0 && pendingEnv != nil {
			trace = append(trace, "Schema "+c27CoqEnv(pendingEnv))
			pendingEnv = nil
		}
		selectedPending = 0
		return B.st.CommitHook()
	})
	c27RegisterRollback(B.db, B.st, func() { trace = append(trace, "Rollback"); selectedPending = 0 })

	var observed [][][]c27Ev // per request, per group
	var obsCoq []string      // per group
	var obsProblems []string // JSON-level problems
	nDDL, nRead := 0, 0
	for i, r := range in.Reqs {
		observed = append(observed, nil)
		if r.Read {
			nRead++
			A.db.QueryStringStmt(c27ReadSQL)
			B.db.QueryStringStmt(c27ReadSQL)
			if pendingEnv != nil {
				trace = append(trace, "Schema "+c27CoqEnv(pendingEnv))
				pendingEnv = nil
			}
			continue
		}
		trace = append(trace, "Reset")
		selectedPending = 0
		A.exec(r, uint64(i+10))
		B.exec(r, uint64(i+10))
		B.drain()
		if r.DDL != "" {
			nDDL++
			pendingEnv = ex.reqs[i].envAfter
		}
		for _, g := range A.drain() {
			b, err := cdcjson.MarshalToEnvelopeJSON("", "n", false, []*command.CDCIndexedEventGroup{g})
			if err != nil {
				obsProblems = append(obsProblems, "marshal: "+err.Error())
				continue
			}
			var env c27JEnv
			if err := json.Unmarshal(b, &env); err != nil || len(env.Payload) != 1 {
				obsProblems = append(obsProblems, "envelope: "+string(b))
				continue
			}
			msg := env.Payload[0]
			var grp []c27Ev
			var coq []string
			for j, je := range msg.Events {
				e := c27Ev{Op: je.Op, Table: je.Table, Old: je.Old, New: je.New, Err: je.Err, JBefore: je.Before, JAfter: je.After}
				var pe *command.CDCEvent
				if j < len(g.Events) {
					pe = g.Events[j]
				}
				// for the model: the JSON maps as (name, value) pairs in the order of the streamer's ColumnNames; the
				// value token is the event's own value if the JSON value stands for it
				pairs := func(m map[string]json.RawMessage, prow *command.CDCRow) string {
					if m == nil {
						return "None"
					}
					var it []string
					seen := map[string]bool{}
					if pe != nil {
						for k, cn := range pe.ColumnNames {
							raw, ok := m[cn]
							if !ok {
								continue
							}
							seen[cn] = true
							tok := "?json:" + string(raw)
							if prow != nil && k < len(prow.Values) {
								if hint := c27ProtoVal(prow.Values[k]); c27JSONIs(raw, hint) {
									tok = c27Tok(hint)
								}
							}
							it = append(it, coqPair(coqStr(cn), coqStr(tok)))
						}
					}
					for cn, raw := range m {
						if !seen[cn] {
							it = append(it, coqPair(coqStr(cn), coqStr("?extra:"+string(raw))))
						}
					}
					return "(Some " + coqList(it) + ")"
				}
				var cb, ca string
				if pe != nil {
					e.PCols = pe.ColumnNames
					e.ImgOld, e.HasOld = c27ProtoRow(pe.OldRow), pe.OldRow != nil
					e.ImgNew, e.HasNew = c27ProtoRow(pe.NewRow), pe.NewRow != nil
					cb, ca = pairs(je.Before, pe.OldRow), pairs(je.After, pe.NewRow)
				} else {
					cb, ca = pairs(je.Before, nil), pairs(je.After, nil)
				}
				grp = append(grp, e)
				coq = append(coq, fmt.Sprintf("{| j_op := %s; j_table := %s; j_new := %s; j_old := %s; j_before := %s; j_after := %s; j_err := %s |}",
					coqStr(e.Op), coqStr(e.Table), coqZ(e.New), coqZ(e.Old), cb, ca, coqStr(e.Err)))
			}
			observed[len(observed)-1] = append(observed[len(observed)-1], grp)
			obsCoq = append(obsCoq, coqList(coq))
		}
	}

	fail, sig := "", ""
	note := func(f, s string) {
		if fail == "" {
			fail, sig = f, s
		}
	}
	for _, p := range obsProblems {
		note(p, "C27:marshal-problem")
	}
	opsSeen := map[string]bool{}
	nGroups := 0
	// the window after a schema change: it ends with a read request or with the first commit that has a selected event
	window := false
	altered := map[string]bool{}
	for ri, rx := range ex.reqs {
		if in.Reqs[ri].Read {
			window = false
			continue
		}
		if t := in.Reqs[ri].DDL; t != "" {
			window = true
			altered[t] = true
		}
		// project the expectation through the settings
		var want [][][]c27Ev
		for _, g := range rx.groups {
			var pg [][]c27Ev
			n := 0
			for _, st := range g {
				var ps []c27Ev
				for _, e := range st {
					if !selected(e.Table) {
						continue
					}
					if in.IDsOnly {
						e.Before, e.After = nil, nil
					}
					ps = append(ps, e)
				}
				if len(ps) > 0 {
					pg = append(pg, ps)
					n += len(ps)
				}
			}
			if n > 0 {
				want = append(want, pg)
			}
		}
		nGroups += len(want)
		var got [][]c27Ev
		if ri < len(observed) {
			got = observed[ri]
		}
		for gi := 0; gi < len(want) || gi < len(got); gi++ {
			inWindow := window
			if gi < len(want) {
				window = false // this commit's column-name lookup makes the read connection see the new schema
			}
			classify := func(s string, table string) string {
				if rx.undoneInTx {
					return "C27:undone-statement-rows-reported-at-commit"
				}
				if rx.failedAuto && s != "C27:events-differ:wrong-values" && s != "C27:events-differ:json-columns" {
					return "C27:undone-statement-rows-leak-into-next-group"
				}
				if s == "C27:events-differ:json-columns" || s == "C27:events-differ:event-error" || s == "C27:events-differ:wrong-json-values" {
					if inWindow {
						return "C27:stale-column-names-first-commit-after-schema-change"
					}
					if altered[table] {
						return "C27:events-differ:json-columns:persistently-stale-after-schema-change"
					}
				}
				if s == "C27:events-differ:wrong-json-values" {
					return "C27:events-differ:wrong-values"
				}
				return s
			}
			if gi >= len(got) {
				note(fmt.Sprintf("request %d: group %d missing: expected %v", ri, gi, want[gi]), classify("C27:events-differ:missing-group", ""))
				break
			}
			if gi >= len(want) {
				note(fmt.Sprintf("request %d: extra group %d: %v", ri, gi, got[gi]), classify("C27:events-differ:extra-group", ""))
				break
			}
			pos := 0
			for _, st := range want[gi] {
				if pos+len(st) > len(got[gi]) {
					note(fmt.Sprintf("request %d group %d: events missing; expected statement events %v, delivered group %v", ri, gi, st, got[gi]), classify("C27:events-differ:missing-event", ""))
					break
				}
				seg := append([]c27Ev{}, got[gi][pos:pos+len(st)]...)
				sort.SliceStable(seg, func(i, j int) bool { return c27SortKey(seg[i]) < c27SortKey(seg[j]) })
				for k := range st {
					opsSeen[st[k].Op] = true
					if f, s := c27Cmp(st[k], seg[k], in); f != "" {
						note(fmt.Sprintf("request %d group %d: %s", ri, gi, f), classify(s, st[k].Table))
					}
				}
				pos += len(st)
			}
			if fail == "" && pos < len(got[gi]) {
				note(fmt.Sprintf("request %d group %d: %d event(s) more than the rows changed: %v", ri, gi, len(got[gi])-pos, got[gi][pos:]), classify("C27:events-differ:extra-event", ""))
			}
			if fail != "" {
				break
			}
		}
		if fail != "" {
			break
		}
	}
	// settings, checked on everything delivered
	for _, rg := range observed {
		for _, g := range rg {
			for _, e := range g {
				if in.IDsOnly && (e.JBefore != nil || e.JAfter != nil || e.HasOld || e.HasNew) {
					note("row-ids-only, but values delivered: "+e.String(), "C27:values-in-ids-only-mode")
				}
				if !selected(e.Table) {
					note("table does not match the filter: "+e.String(), "C27:filtered-table-delivered")
				}
			}
		}
	}

	c := VCase{Input: in, Key: key}
	ascii := true
	for _, s := range trace {
		if !c27Ascii(s) {
			ascii = false
		}
	}
	for _, s := range obsCoq {
		if !c27Ascii(s) {
			ascii = false
		}
	}
	if !in.NoModel && ascii {
		filt := "None"
		if re != nil {
			var m []string
			for _, t := range c27Tables {
				if re.MatchString(t) {
					m = append(m, t)
				}
			}
			filt = "(Some " + coqStrList(m) + ")"
		}
		c.Coq = fmt.Sprintf("{| c_cfg := {| ids_only := %s; filt := %s |}; c_env := %s; c_trace := %s; c_impl := %s |}",
			coqBool(in.IDsOnly), filt, c27CoqEnv(c27Cols), coqList(trace), coqList(obsCoq))
	}
	multiReq := false
	for _, r := range in.Reqs {
		if len(r.Stmts) > 1 {
			multiReq = true
		}
	}
	c.Nontrivial = multiReq && ex.failedStmts > 0 && ex.multiRowStmt > 0 && len(opsSeen) >= 2
	if in.Filter != "" {
		c.Tags = append(c.Tags, "filter")
	}
	if in.IDsOnly {
		c.Tags = append(c.Tags, "ids-only")
	}
	if ex.failedStmts > 0 {
		c.Tags = append(c.Tags, "failing-statement")
	}
	if ex.undoneInTx {
		c.Tags = append(c.Tags, "statement-undone-inside-committed-transaction")
	}
	if ex.failedAuto {
		c.Tags = append(c.Tags, "autocommit-statement-failed")
	}
	if nDDL > 0 {
		c.Tags = append(c.Tags, "schema-change")
	}
	c.Tags = append(c.Tags, fmt.Sprintf("groups=%d", nGroups))
	if fail != "" {
		c.OracleFail, c.Sig = fail, sig
	}
	w.Emit(c)
}

// c27SameValue: the value the hook reported against the value stored in the shadow row.  A REAL-affinity
// column stores an integer literal as a real; the hook sees it before that conversion (same JSON number).
func c27SameValue(got, want any) bool {
	if gi, ok := got.(int64); ok {
		if wf, ok := want.(float64); ok {
			return float64(gi) == wf && int64(wf) == gi
		}
	}
	return c27Tok(got) == c27Tok(want)
}

func c27Keys(m map[string]json.RawMessage) []string {
	if m == nil {
		return nil
	}
	ks := make([]string, 0, len(m))
	for k := range m {
		ks = append(ks, k)
	}
	sort.Strings(ks)
	return ks
}

func c27Cmp(want, got c27Ev, in c27Input) (string, string) {
	if want.Op != got.Op || want.Table != got.Table {
		return fmt.Sprintf("expected %s, delivered %s", want, got), "C27:events-differ:wrong-op"
	}
	if want.Old != got.Old || want.New != got.New {
		return fmt.Sprintf("expected %s, delivered %s", want, got), "C27:events-differ:wrong-ids"
	}
	cols := want.Cols // the table's columns when the statement ran, from the shadow database
	// 1. the row images of the event as the streamer delivered it: present exactly when the shadow has an image,
	//    exactly one value per column of THIS table, each equal to the shadow row's value
	img := func(which string, has bool, g []any, w []any) (string, string) {
		if (w != nil) != has {
			if in.IDsOnly && has {
				return "row-ids-only, but a " + which + " row image is present: " + got.String(), "C27:values-in-ids-only-mode"
			}
			return fmt.Sprintf("%s row image present=%v, expected present=%v: expected %s, delivered %s", which, has, w != nil, want, got), "C27:events-differ:row-image-presence"
		}
		if w == nil {
			return "", ""
		}
		if len(g) != len(cols) {
			return fmt.Sprintf("%s row image of a %s event on %s has %d values %v, the table has %d columns (shadow row: %v)",
				which, got.Op, got.Table, len(g), c27Toks(g), len(cols), c27Toks(w)), "C27:events-differ:row-image-length"
		}
		for i := range w {
			if !c27SameValue(g[i], w[i]) {
				return fmt.Sprintf("%s row image of a %s event on %s: column %s is %s, the shadow row has %s",
					which, got.Op, got.Table, cols[i], c27Tok(g[i]), c27Tok(w[i])), "C27:events-differ:wrong-values"
			}
		}
		return "", ""
	}
	if f, s := img("old", got.HasOld, got.ImgOld, want.Before); f != "" {
		return f, s
	}
	if f, s := img("new", got.HasNew, got.ImgNew, want.After); f != "" {
		return f, s
	}
	// 2. the marshalled event: no error, before/after maps present with exactly this table's column names
	if got.Err != "" {
		return fmt.Sprintf("marshalled event carries an error: %s (expected %s, columns %v)", got, want, cols), "C27:events-differ:event-error"
	}
	sortedCols := append([]string{}, cols...)
	sort.Strings(sortedCols)
	keysOK := func(w []any, m map[string]json.RawMessage) bool {
		if w == nil {
			return m == nil
		}
		return m != nil && reflect.DeepEqual(c27Keys(m), sortedCols)
	}
	if !keysOK(want.Before, got.JBefore) || !keysOK(want.After, got.JAfter) {
		if in.IDsOnly && (got.JBefore != nil || got.JAfter != nil) {
			return "row-ids-only, but values delivered: " + got.String(), "C27:values-in-ids-only-mode"
		}
		return fmt.Sprintf("%s event on %s: JSON before keys %v / after keys %v, the table's columns are %v",
			got.Op, got.Table, c27Keys(got.JBefore), c27Keys(got.JAfter), cols), "C27:events-differ:json-columns"
	}
	// 3. the JSON values, column by column
	same := func(w []any, m map[string]json.RawMessage) string {
		for i := range w {
			if raw := m[cols[i]]; raw == nil || !c27JSONIs(raw, w[i]) {
				return fmt.Sprintf("column %s is %s in the JSON, the shadow row has %s", cols[i], string(m[cols[i]]), c27Tok(w[i]))
			}
		}
		return ""
	}
	if d := same(want.Before, got.JBefore); d != "" {
		return fmt.Sprintf("%s event on %s, before: %s", got.Op, got.Table, d), "C27:events-differ:wrong-json-values"
	}
	if d := same(want.After, got.JAfter); d != "" {
		return fmt.Sprintf("%s event on %s, after: %s", got.Op, got.Table, d), "C27:events-differ:wrong-json-values"
	}
	return "", ""
}

// c27RegisterRollback registers the streamer's rollback hook when the tree has one (reflection keeps
// this file compiling on a tree without it)
func c27RegisterRollback(d *DB, st *CDCStreamer, rec func()) {
	m := reflect.ValueOf(d).MethodByName("RegisterRollbackHook")
	sm := reflect.ValueOf(st).MethodByName("RollbackHook")
	if !m.IsValid() || !sm.IsValid() {
		return
	}
	hook := reflect.MakeFunc(m.Type().In(0), func([]reflect.Value) []reflect.Value {
		if rec != nil {
			rec()
		}
		sm.Call(nil)
		return nil
	})
	m.Call([]reflect.Value{hook})
}

// ---------------------------------------------------------------- generator

type c27Gen struct {
	rng  *rand.Rand
	uctr int
	tbl  map[string]*c27TblModel
}

func (g *c27Gen) pick(ss ...string) string { return ss[g.rng.Intn(len(ss))] }

func (g *c27Gen) name() string {
	if g.rng.Intn(8) == 0 {
		return "NULL"
	}
	return fmt.Sprintf("'n%d'", g.rng.Intn(6))
}
func (g *c27Gen) intLit() string {
	return g.pick("0", "1", "-5", "42", "9007199254740993", "-9223372036854775808", "'12'", "NULL", "7")
}
func (g *c27Gen) realLit() string {
	return g.pick("1.5", "-0.25", "3", "1e100", "2.5e-7", "NULL", "0.1", "'4.75'")
}
func (g *c27Gen) blobLit() string {
	return g.pick("x''", "x'00ff'", "x'deadbeef00'", "NULL", "x'7f'", "'text in blob column'")
}
func (g *c27Gen) anyLit() string {
	return g.pick("NULL", "17", "2.75", "'it''s'", "x'0102'", "'plain'", "-1", "''", "'{\"k\": [1,2]}'")
}
func (g *c27Gen) id() string {
	if g.rng.Intn(4) == 0 {
		return "NULL"
	}
	return strconv.Itoa(1 + g.rng.Intn(9))
}
func (g *c27Gen) u() string { g.uctr++; return fmt.Sprintf("'u%d'", g.uctr) }

func (g *c27Gen) stmt() c27Stmt {
	switch x := g.rng.Intn(100); {
	case x < 30: // insert into items
		n := 1 + g.rng.Intn(3)
		var rows []string
		for i := 0; i < n; i++ {
			rows = append(rows, fmt.Sprintf("(%s,%s,%s,%s,%s,%s)", g.id(), g.name(), g.intLit(), g.realLit(), g.blobLit(), g.anyLit()))
		}
		or := g.pick("", "", "", " OR IGNORE", " OR FAIL", " OR REPLACE")
		kind := "insert"
		if or == " OR REPLACE" {
			// one row only: a row inserted and replaced again inside one statement is invisible to the shadow diff
			kind = "replace"
			rows = []string{fmt.Sprintf("(%s,%s,%s,%s,%s,%s)", g.id(), g.name(), g.intLit(), g.realLit(), g.blobLit(), g.u())}
		}
		return c27Stmt{SQL: "INSERT" + or + " INTO items(id,name,qty,price,data,note) VALUES " + strings.Join(rows, ","), Kind: kind}
	case x < 42: // insert into logs
		n := 1 + g.rng.Intn(3)
		var rows []string
		for i := 0; i < n; i++ {
			msg := g.pick("'started'", "'warn: disk'", "NULL", "'x'", "'a b c'")
			rows = append(rows, fmt.Sprintf("(%s,%s)", msg, g.pick("0", "1", "2", "NULL")))
		}
		return c27Stmt{SQL: "INSERT INTO logs(msg,lvl) VALUES " + strings.Join(rows, ","), Kind: "insert"}
	case x < 48:
		k := 1 + g.rng.Intn(3)
		return c27Stmt{SQL: fmt.Sprintf("INSERT OR REPLACE INTO aux_tbl(k,v) VALUES (%d,%s),(%d,%s)", k, g.u(), k+1+g.rng.Intn(2), g.u()), Kind: "replace"}
	case x < 62: // update items, range
		a := 1 + g.rng.Intn(8)
		set := "note = " + g.u()
		switch g.rng.Intn(4) {
		case 0:
			set += ", qty = coalesce(qty, 0) + 1"
		case 1:
			set += ", name = " + g.name() // may violate UNIQUE, on the first or on a later row
		case 2:
			set += ", price = " + g.realLit() + ", data = " + g.blobLit()
		}
		return c27Stmt{SQL: fmt.Sprintf("UPDATE items SET %s WHERE id BETWEEN %d AND %d", set, a, a+g.rng.Intn(4)), Kind: "update"}
	case x < 68: // rowid change of one row
		return c27Stmt{SQL: fmt.Sprintf("UPDATE items SET id = id + %d, note = %s WHERE id = %d", 10*(1+g.rng.Intn(3)), g.u(), 1+g.rng.Intn(9)), Kind: "update-rowid"}
	case x < 76: // update logs
		if g.rng.Intn(4) == 0 {
			return c27Stmt{SQL: fmt.Sprintf("UPDATE logs SET msg = NULL WHERE rowid >= %d", 1+g.rng.Intn(4)), Kind: "update"}
		}
		return c27Stmt{SQL: fmt.Sprintf("UPDATE logs SET msg = msg || '!', lvl = %s WHERE rowid <= %d", g.pick("lvl", "3", "NULL"), 1+g.rng.Intn(5)), Kind: "update"}
	case x < 82:
		return c27Stmt{SQL: g.pick(
			fmt.Sprintf("DELETE FROM items WHERE id > %d", 3+g.rng.Intn(8)),
			fmt.Sprintf("DELETE FROM items WHERE id = %d", 1+g.rng.Intn(9)),
			"DELETE FROM logs WHERE rowid % 2 = 0",
			fmt.Sprintf("DELETE FROM logs WHERE rowid <= %d", 1+g.rng.Intn(3)),
			"DELETE FROM aux_tbl",
			"DELETE FROM items WHERE name IS NULL"), Kind: "delete"}
	case x < 85:
		return c27Stmt{SQL: fmt.Sprintf("UPDATE aux_tbl SET v = %s WHERE k <= %d", g.u(), 1+g.rng.Intn(3)), Kind: "update"}
	case x < 94:
		// the other two widths: ledger (4 columns, rowid alias) and big_tbl (3 columns)
		k := 1 + g.rng.Intn(4)
		switch g.rng.Intn(6) {
		case 0:
			return c27Stmt{SQL: fmt.Sprintf("INSERT OR REPLACE INTO ledger(k,acct,amt,memo) VALUES (%d,'acc%d',%s,%s)", k, k, g.realLit(), g.u()), Kind: "replace"}
		case 1:
			return c27Stmt{SQL: fmt.Sprintf("UPDATE ledger SET memo = %s, amt = %s WHERE k <= %d", g.u(), g.realLit(), k), Kind: "update"}
		case 2:
			return c27Stmt{SQL: fmt.Sprintf("DELETE FROM ledger WHERE k = %d", k), Kind: "delete"}
		case 3:
			return c27Stmt{SQL: fmt.Sprintf("INSERT INTO big_tbl(a,b,c) VALUES (%s,%s,%s),(%s,%s,%s)", g.anyLit(), g.intLit(), g.blobLit(), g.anyLit(), g.realLit(), g.u()), Kind: "insert"}
		case 4:
			return c27Stmt{SQL: fmt.Sprintf("UPDATE big_tbl SET c = %s WHERE rowid <= %d", g.u(), k), Kind: "update"}
		}
		return c27Stmt{SQL: "DELETE FROM big_tbl WHERE rowid % 2 = 1", Kind: "delete"}
	default:
		return c27Stmt{SQL: g.pick("SELECT count(*) FROM items", "INSERT INTO nosuch VALUES (1)", "UPDATE items SET note = note WHERE 0"), Kind: "update"}
	}
}

func (g *c27Gen) req() c27Req {
	r := c27Req{}
	switch x := g.rng.Intn(10); {
	case x < 3: // single statement
		r.Stmts = []c27Stmt{g.stmt()}
	case x < 6: // several autocommit statements
		for i, n := 0, 2+g.rng.Intn(3); i < n; i++ {
			r.Stmts = append(r.Stmts, g.stmt())
		}
	case x < 8: // transaction flag
		r.Tx = true
		for i, n := 0, 1+g.rng.Intn(3); i < n; i++ {
			r.Stmts = append(r.Stmts, g.stmt())
		}
	default: // explicit transaction inside a plain request
		if g.rng.Intn(2) == 0 {
			r.Stmts = append(r.Stmts, g.stmt())
		}
		r.Stmts = append(r.Stmts, c27Stmt{SQL: "BEGIN", Kind: "begin"})
		for i, n := 0, 1+g.rng.Intn(3); i < n; i++ {
			r.Stmts = append(r.Stmts, g.stmt())
		}
		if g.rng.Intn(4) == 0 {
			r.Stmts = append(r.Stmts, c27Stmt{SQL: "ROLLBACK", Kind: "rollback"})
		} else {
			r.Stmts = append(r.Stmts, c27Stmt{SQL: "COMMIT", Kind: "commit"})
		}
		if g.rng.Intn(2) == 0 {
			r.Stmts = append(r.Stmts, g.stmt())
		}
	}
	return r
}

func c27GenInput(rng *rand.Rand) c27Input {
	g := &c27Gen{rng: rng}
	in := c27Input{
		Filter:  g.pick("", "", "^items$", "^(items|logs)$", "^l", "tbl", "nomatch"),
		IDsOnly: rng.Intn(4) == 0,
	}
	// seed rows so that updates and deletes have something to work on
	in.Reqs = append(in.Reqs, c27Req{Stmts: []c27Stmt{
		{SQL: "INSERT INTO items(id,name,qty,price,data,note) VALUES (1,'n0',1,1.5,x'00ff','a'),(2,'n1',NULL,2,NULL,2),(3,NULL,3,NULL,x'',NULL)", Kind: "insert"},
		{SQL: "INSERT INTO ledger(k,acct,amt,memo) VALUES (1,'acc1',10.5,'open'),(2,'acc2',0,NULL)", Kind: "insert"},
		{SQL: "INSERT INTO big_tbl(a,b,c) VALUES ('x',1,x'01'),(NULL,2.5,'y')", Kind: "insert"},
		{SQL: "INSERT INTO logs(msg,lvl) VALUES ('boot',0),('ready',1)", Kind: "insert"},
		{SQL: "INSERT INTO aux_tbl(k,v) VALUES (1,'one'),(2,2)", Kind: "insert"},
	}})
	for i, n := 0, 2+rng.Intn(5); i < n; i++ {
		in.Reqs = append(in.Reqs, g.req())
	}
	if rng.Intn(3) == 0 {
		// schema changes: each followed by at least three committed writes to the changed table in separate requests,
		// with or without reads (on the pooled read-only connection) in between
		for k, n := 0, 1+rng.Intn(2); k < n; k++ {
			g.schemaBlock(&in)
			for i, m := 0, rng.Intn(3); i < m; i++ {
				in.Reqs = append(in.Reqs, g.req())
			}
		}
	}
	return in
}

// the generator's picture of the tables whose schema it changes (the others keep their columns)
type c27TblModel struct {
	cols   []string
	firstK bool // first column is an INTEGER PRIMARY KEY (give NULL for it)
}

func (g *c27Gen) model(t string) *c27TblModel {
	if g.tbl == nil {
		g.tbl = map[string]*c27TblModel{
			"logs":    {cols: []string{"msg", "lvl"}},
			"aux_tbl": {cols: []string{"k", "v"}, firstK: true},
			"big_tbl": {cols: []string{"a", "b", "c"}},
		}
	}
	return g.tbl[t]
}

// a write that certainly commits a change to table t, whatever its current columns are called
func (g *c27Gen) writeTo(t string, insert bool) c27Stmt {
	m := g.model(t)
	g.uctr++
	x := g.rng.Intn(4)
	if insert {
		x = 0
	}
	switch x {
	case 0, 1:
		vals := make([]string, len(m.cols))
		for i := range vals {
			vals[i] = g.pick(fmt.Sprintf("'w%d_%d'", g.uctr, i), strconv.Itoa(g.uctr*10+i), "2.5", "x'beef'")
		}
		if m.firstK {
			vals[0] = "NULL"
		} else {
			vals[0] = fmt.Sprintf("'w%d'", g.uctr)
		}
		return c27Stmt{SQL: fmt.Sprintf("INSERT INTO %s VALUES (%s)", t, strings.Join(vals, ",")), Kind: "insert"}
	case 2:
		return c27Stmt{SQL: fmt.Sprintf("UPDATE %s SET \"%s\" = 'w%d' WHERE rowid = (SELECT max(rowid) FROM %s)", t, m.cols[len(m.cols)-1], g.uctr, t), Kind: "update"}
	}
	// keep the table from running empty: insert then delete the oldest row in one transaction request is overkill; delete only when there are rows
	return c27Stmt{SQL: fmt.Sprintf("INSERT INTO %s SELECT * FROM (SELECT %s) WHERE 1", t, g.rowLiteral(m)), Kind: "insert"}
}

func (g *c27Gen) rowLiteral(m *c27TblModel) string {
	vals := make([]string, len(m.cols))
	for i := range vals {
		vals[i] = fmt.Sprintf("'s%d_%d'", g.uctr, i)
	}
	if m.firstK {
		vals[0] = "NULL"
	}
	return strings.Join(vals, ",")
}

func (g *c27Gen) schemaBlock(in *c27Input) {
	t := g.pick("logs", "aux_tbl", "big_tbl")
	m := g.model(t)
	g.uctr++
	n := g.uctr
	last := len(m.cols) - 1
	var stmts []c27Stmt
	ddl := func(q string) { stmts = append(stmts, c27Stmt{SQL: q, Kind: "ddl"}) }
	// something must have been delivered for the table before, so that the read connection (and any cache) knows the old schema
	in.Reqs = append(in.Reqs, c27Req{Stmts: []c27Stmt{g.writeTo(t, true)}})
	switch g.rng.Intn(6) {
	case 0, 1: // same width: rename a column
		i := g.rng.Intn(len(m.cols))
		if m.firstK && i == 0 && g.rng.Intn(2) == 0 {
			i = last
		}
		nn := fmt.Sprintf("%s_r%d", m.cols[i], n)
		ddl(fmt.Sprintf("ALTER TABLE %s RENAME COLUMN \"%s\" TO \"%s\"", t, m.cols[i], nn))
		m.cols[i] = nn
	case 2: // same width: drop the last column, add another
		nn := fmt.Sprintf("n%d", n)
		ddl(fmt.Sprintf("ALTER TABLE %s DROP COLUMN \"%s\"", t, m.cols[last]))
		ddl(fmt.Sprintf("ALTER TABLE %s ADD COLUMN \"%s\"", t, nn))
		m.cols[last] = nn
	case 3: // same width: drop the table, create it again with the columns renamed and in another order
		cols := make([]string, len(m.cols))
		for i := range cols {
			cols[i] = fmt.Sprintf("%s_v%d", m.cols[len(m.cols)-1-i], n)
		}
		ddl("DROP TABLE " + t)
		ddl(fmt.Sprintf("CREATE TABLE %s (\"%s\")", t, strings.Join(cols, "\", \"")))
		m.cols, m.firstK = cols, false
	case 4: // wider
		nn := fmt.Sprintf("x%d", n)
		ddl(fmt.Sprintf("ALTER TABLE %s ADD COLUMN \"%s\"", t, nn))
		m.cols = append(m.cols, nn)
	default: // narrower (or recreate wider when there is nothing to drop)
		if len(m.cols) > 2 {
			ddl(fmt.Sprintf("ALTER TABLE %s DROP COLUMN \"%s\"", t, m.cols[last]))
			m.cols = m.cols[:last]
		} else {
			cols := []string{fmt.Sprintf("p%d", n), fmt.Sprintf("q%d", n), fmt.Sprintf("r%d", n)}
			ddl("DROP TABLE " + t)
			ddl(fmt.Sprintf("CREATE TABLE %s (\"%s\")", t, strings.Join(cols, "\", \"")))
			m.cols, m.firstK = cols, false
		}
	}
	in.Reqs = append(in.Reqs, c27Req{Stmts: stmts, DDL: t})
	read := c27Req{Read: true}
	if g.rng.Intn(2) == 0 {
		in.Reqs = append(in.Reqs, read)
	}
	for i, k := 0, 3+g.rng.Intn(2); i < k; i++ {
		in.Reqs = append(in.Reqs, c27Req{Stmts: []c27Stmt{g.writeTo(t, i == 0)}})
		if g.rng.Intn(2) == 0 {
			in.Reqs = append(in.Reqs, read)
		}
	}
}

func c27Corpus() []c27Input {
	s := func(kind, q string) c27Stmt { return c27Stmt{SQL: q, Kind: kind} }
	seed := c27Req{Stmts: []c27Stmt{s("insert", "INSERT INTO items(id,name,qty,price,data,note) VALUES (1,'n0',1,1.5,x'00ff','a'),(2,'n1',2,2.5,NULL,NULL)")}}
	return []c27Input{
		// an autocommit statement fails on its third row, between two statements that succeed
		{Reqs: []c27Req{seed, {Stmts: []c27Stmt{
			s("insert", "INSERT INTO items(id,name) VALUES (5,'n5')"),
			s("insert", "INSERT INTO items(id,name) VALUES (6,'n6'),(7,'n7'),(8,'n0')"),
			s("insert", "INSERT INTO items(id,name) VALUES (9,'n9')")}}}},
		// the same inside an explicit transaction that commits
		{Reqs: []c27Req{seed, {Stmts: []c27Stmt{
			s("begin", "BEGIN"),
			s("insert", "INSERT INTO items(id,name) VALUES (5,'n5')"),
			s("insert", "INSERT INTO items(id,name) VALUES (6,'n6'),(7,'n7'),(8,'n0')"),
			s("commit", "COMMIT")}}}},
		// transaction flag, failing statement: nothing may be delivered, and nothing may leak into the next request
		{Reqs: []c27Req{seed, {Tx: true, Stmts: []c27Stmt{
			s("insert", "INSERT INTO items(id,name) VALUES (5,'n5')"),
			s("insert", "INSERT INTO items(id,name) VALUES (6,'n0')")}},
			{Stmts: []c27Stmt{s("delete", "DELETE FROM items WHERE id = 2")}}}},
		// OR FAIL keeps the rows before the failure
		{Reqs: []c27Req{seed, {Stmts: []c27Stmt{
			s("insert", "INSERT OR FAIL INTO items(id,name) VALUES (6,'n6'),(7,'n7'),(8,'n0')"),
			s("update", "UPDATE items SET note = 'u' WHERE id >= 6")}}}},
		// replace, rowid change, all storage classes, filter and ids-only
		{Filter: "^items$", Reqs: []c27Req{seed, {Stmts: []c27Stmt{
			s("replace", "INSERT OR REPLACE INTO items(id,name,qty,price,data,note) VALUES (9,'n0',-5,1e100,x'deadbeef','it''s')"),
			s("update-rowid", "UPDATE items SET id = 77, note = 'moved' WHERE id = 2"),
			s("insert", "INSERT INTO logs(msg,lvl) VALUES ('x',1)"),
			s("delete", "DELETE FROM items")}}}},
		// a wider table is changed before a narrower one, under every filter that selects two widths
		{Filter: "", Reqs: []c27Req{seed, {Stmts: []c27Stmt{
			s("insert", "INSERT INTO ledger(k,acct,amt,memo) VALUES (1,'a',1.5,'m')"),
			s("insert", "INSERT INTO logs(msg,lvl) VALUES ('narrow after wide',1)"),
			s("update", "UPDATE items SET note = 'w' WHERE id = 1"),
			s("update", "UPDATE logs SET lvl = 7 WHERE rowid = 1"),
			s("delete", "DELETE FROM ledger"),
			s("delete", "DELETE FROM logs")}}}},
		{Filter: "^l", Reqs: []c27Req{seed, {Stmts: []c27Stmt{
			s("insert", "INSERT INTO ledger(k,acct,amt,memo) VALUES (1,'a',1.5,x'cafe')"),
			s("insert", "INSERT INTO logs(msg,lvl) VALUES ('narrow after wide',1)"),
			s("update", "UPDATE logs SET lvl = 7 WHERE rowid = 1"),
			s("delete", "DELETE FROM logs")}}}},
		{Filter: "tbl", Reqs: []c27Req{seed, {Stmts: []c27Stmt{
			s("insert", "INSERT INTO big_tbl(a,b,c) VALUES (1,'two',3.5)"),
			s("insert", "INSERT INTO aux_tbl(k,v) VALUES (1,'narrow after wide')"),
			s("update", "UPDATE aux_tbl SET v = 'u' WHERE k = 1"),
			s("delete", "DELETE FROM aux_tbl")}}}},
		{Filter: "^(items|logs)$", Reqs: []c27Req{seed, {Tx: true, Stmts: []c27Stmt{
			s("update", "UPDATE items SET note = 'w' WHERE id = 1"),
			s("insert", "INSERT INTO logs(msg,lvl) VALUES ('narrow after wide',1)")}}}},
		// schema changes: same width (rename; drop+add; drop table+create reordered) and other width, three commits after each
		{Reqs: []c27Req{seed,
			{Stmts: []c27Stmt{s("insert", "INSERT INTO logs VALUES ('before',0)")}},
			{DDL: "logs", Stmts: []c27Stmt{s("ddl", "ALTER TABLE logs RENAME COLUMN lvl TO level")}},
			{Stmts: []c27Stmt{s("insert", "INSERT INTO logs VALUES ('first after rename',1)")}},
			{Stmts: []c27Stmt{s("insert", "INSERT INTO logs VALUES ('second after rename',2)")}},
			{Stmts: []c27Stmt{s("update", "UPDATE logs SET level = 9 WHERE rowid = 1")}},
			{Stmts: []c27Stmt{s("delete", "DELETE FROM logs WHERE rowid = 1")}}}},
		{Reqs: []c27Req{seed,
			{Stmts: []c27Stmt{s("insert", "INSERT INTO logs VALUES ('before',0)")}},
			{DDL: "logs", Stmts: []c27Stmt{s("ddl", "ALTER TABLE logs RENAME COLUMN lvl TO level")}},
			{Read: true},
			{Stmts: []c27Stmt{s("insert", "INSERT INTO logs VALUES ('first after rename and read',1)")}},
			{Read: true},
			{Stmts: []c27Stmt{s("insert", "INSERT INTO logs VALUES ('second',2)")}},
			{Stmts: []c27Stmt{s("update", "UPDATE logs SET level = 9 WHERE rowid = 1")}}}},
		{Filter: "tbl", Reqs: []c27Req{seed,
			{Stmts: []c27Stmt{s("insert", "INSERT INTO big_tbl VALUES (1,2,3)")}},
			{DDL: "big_tbl", Stmts: []c27Stmt{s("ddl", "ALTER TABLE big_tbl DROP COLUMN c"), s("ddl", "ALTER TABLE big_tbl ADD COLUMN d")}},
			{Read: true},
			{Stmts: []c27Stmt{s("insert", "INSERT INTO big_tbl VALUES (4,5,6)")}},
			{Stmts: []c27Stmt{s("insert", "INSERT INTO big_tbl VALUES (7,8,9)")}},
			{Stmts: []c27Stmt{s("update", "UPDATE big_tbl SET d = 'u' WHERE rowid = 1")}}}},
		{Reqs: []c27Req{seed,
			{Stmts: []c27Stmt{s("insert", "INSERT INTO aux_tbl VALUES (5,'before')")}},
			{DDL: "aux_tbl", Stmts: []c27Stmt{s("ddl", "DROP TABLE aux_tbl"), s("ddl", "CREATE TABLE aux_tbl (v2, k2)")}},
			{Read: true},
			{Stmts: []c27Stmt{s("insert", "INSERT INTO aux_tbl VALUES ('value first','key second')")}},
			{Read: true},
			{Stmts: []c27Stmt{s("insert", "INSERT INTO aux_tbl VALUES ('v','k')")}},
			{Stmts: []c27Stmt{s("delete", "DELETE FROM aux_tbl WHERE rowid = 1")}}}},
		{Reqs: []c27Req{seed,
			{Stmts: []c27Stmt{s("insert", "INSERT INTO logs VALUES ('before',0)")}},
			{DDL: "logs", Stmts: []c27Stmt{s("ddl", "ALTER TABLE logs ADD COLUMN extra")}},
			{Stmts: []c27Stmt{s("insert", "INSERT INTO logs VALUES ('first after add column',1,'e')")}},
			{Stmts: []c27Stmt{s("insert", "INSERT INTO logs VALUES ('second',2,'e')")}},
			{Stmts: []c27Stmt{s("update", "UPDATE logs SET extra = 'u' WHERE rowid <= 2")}}}},
		{IDsOnly: true, Reqs: []c27Req{seed, {Stmts: []c27Stmt{
			s("update", "UPDATE items SET note = 'u1', qty = qty + 1 WHERE id BETWEEN 1 AND 2"),
			s("delete", "DELETE FROM items WHERE id = 1")}}}},
	}
}


// ---------------------------------------------------------------- schema-change probes
// Column names are looked up (on a read connection) when the commit hook runs.  Two situations in
// which that lookup does not describe the row: the table was created in the transaction that is
// committing, and the table was altered just before.  Checked on their own, outside the generated
// programs (whose tables are fixed).

type c27ProbeInput struct {
	Probe string `json:"probe"`
}

// c27Probe: a table created in the transaction that commits (its column names cannot be looked up yet)
func c27Probe(w *vWriter, which string) {
	A, err := c27Open()
	if err != nil {
		w.Emit(VCase{Input: c27ProbeInput{which}, Key: "probe:" + which, Inconcl: err.Error()})
		return
	}
	defer A.close()
	A.db.RegisterPreUpdateHook(A.st.PreupdateHook, nil, false)
	A.db.RegisterCommitHook(A.st.CommitHook)
	c27RegisterRollback(A.db, A.st, nil)
	r := c27Req{Tx: true, Stmts: []c27Stmt{{SQL: "CREATE TABLE fresh (k INTEGER PRIMARY KEY, v)"}, {SQL: "INSERT INTO fresh VALUES (1,'x')"}}}
	A.exec(r, 6)
	c := VCase{Input: c27ProbeInput{which}, Key: "probe:" + which, Tags: []string{"schema-change-probe"}}
	gs := A.drain()
	if len(gs) != 1 || len(gs[0].Events) != 1 {
		c.OracleFail, c.Sig = fmt.Sprintf("expected one group with one event, got %v", gs), "C27:events-differ:missing-event"
		w.Emit(c)
		return
	}
	b, _ := cdcjson.MarshalToEnvelopeJSON("", "n", false, gs)
	var env c27JEnv
	json.Unmarshal(b, &env)
	if len(env.Payload) == 1 && len(env.Payload[0].Events) == 1 {
		je := env.Payload[0].Events[0]
		if je.Err != "" || len(je.After) != 2 {
			c.OracleFail = "event does not carry the inserted row: " + string(b)
			c.Sig = "C27:events-differ:event-error"
			if strings.Contains(je.Err, "failed to get column names") {
				c.Sig = "C27:no-column-names-for-table-created-in-same-transaction"
			}
		}
	} else {
		c.OracleFail, c.Sig = "envelope: "+string(b), "C27:marshal-problem"
	}
	w.Emit(c)
}

func TestVerif_C27(t *testing.T) {
	w := vOpen()
	defer w.Close()
	rng := vRand()
	if raw := vReplayInput(); raw != nil {
		var pi c27ProbeInput
		if json.Unmarshal(raw, &pi) == nil && pi.Probe != "" {
			c27Probe(w, pi.Probe)
			return
		}
		var in c27Input
		if err := json.Unmarshal(raw, &in); err != nil {
			t.Fatal(err)
		}
		c27Run(w, in)
		return
	}
	for _, in := range c27Corpus() {
		c27Run(w, in)
	}
	c27Probe(w, "create-table-and-insert-in-one-transaction")
	n := vN(300, 5000)
	for i := 0; i < n; i++ {
		c27Run(w, c27GenInput(rng))
		w.mu.Lock()
		w.w.Flush() // keep what was explored if the run is cut short
		w.mu.Unlock()
	}
}
