(* C18 — model of the permission enforcement of every HTTP route (http/service.go ServeHTTP and
   its handlers) and every inter-node command type (cluster/service.go handleConn).
   A handler is a term of a tiny language, transcribed from the source in source order; one
   interpreter runs all of them.  Executable definitions only; proofs are in Proofs/C18.v.
   The credential decision is Model.C19's [aa] (auth/credential_store.go). *)
From Coq Require Import List String Bool.
From RQ Require Import Lib.AList Model.C19.
Import ListNotations.
Open Scope string_scope.

(* ---- the language ---- *)

(* what a handler asks of the credential store *)
Inductive guard :=
| GPerm (p : string)          (* CheckRequestPerm / checkCommandPerm *)
| GAll (ps : list string)     (* CheckRequestPermAll / checkCommandPermAll *)
| GJoin.                      (* (voter && join) || (!voter && join-read-only) || (!voter && join-read-replica) *)

Inductive instr :=
| NilCheck (e : string)       (* if payload == nil { resp.Error = e } ...                         *)
| Auth (g : guard)            (* ... else if !check(g) { resp.Error = "unauthorized" } / HTTP 401 *)
| Method                      (* HTTP: method not accepted by this handler -> 405                 *)
| Fail (e : string)           (* resp.Error = e, unconditionally                                  *)
| Bail                        (* error pending: write the error response and return               *)
| Do (c : string) (uses_payload : bool)  (* the else-branch call into store / manager / proxy    *)
| Write (ok : string)         (* write the response: the pending error, else the success value    *)
| StopIfErr                   (* if resp.Error != "" { continue }                                 *)
| Deref                       (* unconditional use of the payload (br.Compress = true)            *)
| Stream (c : string) (uses_payload : bool).  (* call that writes raw database bytes to the connection *)

(* what appears on the wire: a response whose first field / status class is [s]
   ("" = success), or raw data written by call [c] *)
Inductive out := OFrame (s : string) | OData (c : string).

Record hstate := { s_err : option string; s_calls : list string; s_out : list out; s_crash : bool }.
Definition s0 := {| s_err := None; s_calls := []; s_out := []; s_crash := false |}.

Definition set_err (s : hstate) (m : string) : hstate :=
  match s_err s with
  | Some _ => s
  | None => {| s_err := Some m; s_calls := s_calls s; s_out := s_out s; s_crash := s_crash s |}
  end.
Definition add_call (s : hstate) (c : string) : hstate :=
  {| s_err := s_err s; s_calls := s_calls s ++ [c]; s_out := s_out s; s_crash := s_crash s |}.
Definition add_out (s : hstate) (o : out) : hstate :=
  {| s_err := s_err s; s_calls := s_calls s; s_out := s_out s ++ [o]; s_crash := s_crash s |}.
Definition crashed (s : hstate) : hstate :=
  {| s_err := s_err s; s_calls := s_calls s; s_out := s_out s; s_crash := true |}.

(* [a g]   : does the credential store grant guard g to the presented credentials
   [pnil]  : the command carries no payload of the kind its type needs (inter-node only)
   [mok]   : the HTTP method is one the handler accepts *)
Fixpoint exec (a : guard -> bool) (pnil mok : bool) (h : list instr) (s : hstate) : hstate :=
  match h with
  | [] => s
  | i :: r =>
    match i with
    | NilCheck m => exec a pnil mok r (if pnil then set_err s m else s)
    | Auth g => exec a pnil mok r (if a g then s else set_err s "unauthorized")
    | Method => exec a pnil mok r (if mok then s else set_err s "method not allowed")
    | Fail m => exec a pnil mok r (set_err s m)
    | Bail => match s_err s with
              | Some m => add_out s (OFrame m)
              | None => exec a pnil mok r s
              end
    | Do c up => match s_err s with
                 | Some _ => exec a pnil mok r s
                 | None => if up && pnil then crashed s else exec a pnil mok r (add_call s c)
                 end
    | Write ok => exec a pnil mok r
                    (add_out s (OFrame (match s_err s with Some m => m | None => ok end)))
    | StopIfErr => match s_err s with Some _ => s | None => exec a pnil mok r s end
    | Deref => if pnil then crashed s else exec a pnil mok r s
    | Stream c up => if up && pnil then crashed s else exec a pnil mok r (add_out (add_call s c) (OData c))
    end
  end.

Definition run (a : guard -> bool) (pnil mok : bool) (h : list instr) : hstate := exec a pnil mok h s0.

(* ---- guards against the credential store ---- *)

(* no store configured: every check succeeds (s.credentialStore == nil) *)
Definition authz (st : option cstore) (u p perm : string) : bool :=
  match st with None => true | Some s => aa s u p perm end.

Definition holds (perm_ok : string -> bool) (voter : bool) (g : guard) : bool :=
  match g with
  | GPerm p => perm_ok p
  | GAll ps => forallb perm_ok ps     (* ALL of them: AA is asked once per permission and each must hold *)
  | GJoin => (voter && perm_ok "join") || (negb voter && perm_ok "join-read-only")
             || (negb voter && perm_ok "join-read-replica")
  end.

(* ---- the handlers, one per ServeHTTP switch case and per Command_Type ---- *)

Definition http_h (g : guard) (body : list instr) : list instr :=
  [Auth g; Bail; Method; Bail] ++ body.

Definition node_h (nilmsg : string) (g : guard) (c : string) : list instr :=
  [NilCheck nilmsg; Auth g; Do c true; Write ""].

Definition table : list (string * list instr) := [
  (* http/service.go ServeHTTP, in switch order *)
  ("http:OPTIONS",      [Write ""]);
  ("http:/",            [Write ""]);
  ("http:/console",     http_h (GPerm "ui") [Write ""]);
  ("http:/db/execute",  http_h (GPerm "execute") [Do "Execute" false; Write ""]);
  ("http:/db/query",    http_h (GPerm "query") [Do "Query" false; Write ""]);
  ("http:/db/request",  http_h (GAll ["query"; "execute"]) [Do "Request" false; Write ""]);
  ("http:/db/backup",   http_h (GPerm "backup") [Write ""; Stream "Backup" false]);
  ("http:/db/load",     http_h (GPerm "load") [Do "Load" false; Write ""]);
  ("http:/db/load#sql", http_h (GPerm "load") [Do "Execute" false; Write ""]);
  ("http:/db/sql",      http_h (GPerm "query") [Write ""]);
  ("http:/boot",        http_h (GPerm "load") [Do "ReadFrom" false; Write ""]);
  ("http:/snapshot",    http_h (GPerm "snapshot") [Do "Snapshot" false; Write ""]);
  ("http:/reap",        http_h (GPerm "snapshot") [Do "Reap" false; Write ""]);
  ("http:/remove",      http_h (GPerm "remove") [Do "Remove" false; Write ""]);
  ("http:/status",      http_h (GPerm "status") [Do "Stats" false; Do "ClusterStats" false; Write ""]);
  ("http:/nodes",       http_h (GPerm "status") [Do "Nodes" false; Do "Leader" false; Do "GetNodeMeta" false; Write ""]);
  ("http:/leader",      http_h (GPerm "leader-ops") [Do "Leader" false; Do "GetNodeMeta" false; Write ""]);
  ("http:/leader#POST", http_h (GPerm "leader-ops") [Do "Stepdown" false; Write ""]);
  ("http:/readyz",      http_h (GPerm "ready") [Do "Leader" false; Do "GetNodeMeta" false; Do "Ready" false; Do "Query" false; Write ""]);
  ("http:/licenses",    http_h (GPerm "status") [Write ""]);
  ("http:/debug/vars",  [Auth (GPerm "status"); Bail; Write ""]);
  ("http:/debug/pprof", [Auth (GPerm "status"); Bail; Write ""]);
  ("http:default",      [Write ""]);
  (* cluster/service.go handleConn, in switch order *)
  ("COMMAND_TYPE_GET_NODE_META", [Do "CommitIndex" false; Write "http://"]);
  ("COMMAND_TYPE_EXECUTE",       node_h "ExecuteRequest is nil" (GPerm "execute") "Execute");
  ("COMMAND_TYPE_QUERY",         node_h "QueryRequest is nil" (GPerm "query") "Query");
  ("COMMAND_TYPE_REQUEST",       node_h "RequestRequest is nil" (GAll ["query"; "execute"]) "Request");
  ("COMMAND_TYPE_BACKUP",        node_h "BackupRequest is nil" (GPerm "backup") "Backup");
  ("COMMAND_TYPE_BACKUP_STREAM", [NilCheck "BackupRequest is nil"; Auth (GPerm "backup"); Write "";
                                  StopIfErr; Deref; Stream "Backup" true]);
  ("COMMAND_TYPE_LOAD",          node_h "LoadRequest is nil" (GPerm "load") "Load");
  ("COMMAND_TYPE_LOAD_CHUNK",    [Fail "unsupported"; Write ""]);
  ("COMMAND_TYPE_REMOVE_NODE",   node_h "RemoveNodeRequest is nil" (GPerm "remove") "Remove");
  ("COMMAND_TYPE_NOTIFY",        node_h "NotifyRequest is nil" (GPerm "join") "Notify");
  ("COMMAND_TYPE_JOIN",          node_h "JoinRequest is nil" GJoin "Join");
  ("COMMAND_TYPE_STEPDOWN",      node_h "StepdownRequest is nil" (GPerm "leader-ops") "Stepdown");
  ("COMMAND_TYPE_HIGHWATER_MARK_UPDATE",
                                 [NilCheck "HighwaterMarkUpdateRequest is nil"; Do "HWM" true; Write ""]);
  (* no case in the switch: nothing is called, nothing is written *)
  ("COMMAND_TYPE_UNKNOWN",       []);
  ("unknown-type",               [])
].

Definition term_of (name : string) : option (list instr) := lookup table name.

(* ---- correspondence ---- *)

Definition out_eqb (x y : out) : bool :=
  match x, y with
  | OFrame a, OFrame b => String.eqb a b
  | OData a, OData b => String.eqb a b
  | _, _ => false
  end.
Fixpoint list_eqb {A} (eqb : A -> A -> bool) (l1 l2 : list A) : bool :=
  match l1, l2 with
  | [], [] => true
  | x :: r1, y :: r2 => eqb x y && list_eqb eqb r1 r2
  | _, _ => false
  end.

(* ---- requests, connections ---- *)

(* one request as it arrives: credentials presented, endpoint, request shape *)
Record request := {
  q_user : string; q_pass : string;
  q_endpoint : string;
  q_nil : bool; q_voter : bool; q_method_ok : bool
}.

Definition run_request (st : option cstore) (q : request) : option hstate :=
  match term_of (q_endpoint q) with
  | None => None
  | Some h => Some (run (holds (authz st (q_user q) (q_pass q)) (q_voter q)) (q_nil q) (q_method_ok q) h)
  end.

(* One connection (the for-loop of cluster.Service.handleConn; a keep-alive HTTP connection):
   the requests are served one after the other; the only thing carried from one to the next is
   what has been called and written so far.  Nothing a request did or presented is consulted
   when the next one is judged. *)
Fixpoint conn_loop (st : option cstore) (qs : list request) (calls : list string) (outs : list out)
  : option (list string * list out) :=
  match qs with
  | [] => Some (calls, outs)
  | q :: r => match run_request st q with
              | None => None
              | Some h => conn_loop st r (calls ++ s_calls h) (outs ++ s_out h)
              end
  end.

(* ---- correspondence ---- *)

(* One request of a connection and what the real service was observed to do for it
   (mock-store calls in order; wire items in order). *)
Record step := {
  p_req : request;
  p_calls : list string;
  p_out : list out
}.

(* One connection: the credentials file the real store was loaded from (None = no store
   configured) and the requests sent over it, in order, each with its own observation. *)
Record case := {
  c_file : option (list cred);
  c_steps : list step
}.

Definition check_step (st : option cstore) (p : step) : bool :=
  match run_request st (p_req p) with
  | None => false          (* an endpoint the model has no term for *)
  | Some r => negb (s_crash r) && list_eqb String.eqb (s_calls r) (p_calls p)
              && list_eqb out_eqb (s_out r) (p_out p)
  end.

Definition check_case (c : case) : bool :=
  let st := option_map load (c_file c) in
  match c_steps c with
  | [] => false
  | ps => forallb (check_step st) ps
          (* and the connection as a whole did what the per-request runs add up to *)
          && match conn_loop st (map p_req ps) [] [] with
             | None => false
             | Some (cs, os) => list_eqb String.eqb cs (List.concat (map p_calls ps))
                                && list_eqb out_eqb os (List.concat (map p_out ps))
             end
  end.
