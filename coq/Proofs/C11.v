(* C11 — proofs.  Property text: reaping waits until no stream is open; a stalled stream is
   force-closed after its idle timeout so reaping can proceed; each stream releases its hold
   exactly once however it is closed; an open stream never coexists with a reap. *)
From Coq Require Import List String Bool ZArith Arith Lia Permutation.
From Coq Require Import ZifyBool ZifyNat.
From RQ Require Import Lib.C34_Sched Model.C34 Proofs.C34 Model.C11.
Import ListNotations.
Open Scope string_scope.

Definition blk (l : mrsw) : list (nat * wkind) := (m_wait l ++ m_woken l)%list.

(* ------------------------------------------------------------------ effects of lock calls *)
Lemma remove1_In_other : forall a b l, In a l -> a <> b -> In a (remove1 b l).
Proof.
  induction l as [|x l IH]; intros Hin Hne; [destruct Hin|].
  cbn [remove1]. destruct (Nat.eqb x b) eqn:E.
  - apply Nat.eqb_eq in E. subst x. destruct Hin as [->|H]; [contradiction|exact H].
  - destruct Hin as [->|H]; [left; reflexivity|right; apply IH; assumption].
Qed.

Lemma remove1_In_sub : forall a b l, In a (remove1 b l) -> In a l.
Proof.
  induction l as [|x l IH]; intros Hin; [destruct Hin|].
  cbn [remove1] in Hin. destruct (Nat.eqb x b); [right; exact Hin|].
  destruct Hin as [->|H]; [left; reflexivity|right; apply IH; exact H].
Qed.

Lemma not_blocked : forall l t, (forall u k, In (u, k) (blk l) -> u = tid_loop) -> t <> tid_loop ->
  is_blocked l t = false.
Proof.
  intros l t H Hne. unfold is_blocked. apply orb_false_iff. split; apply memn_false; intros Hin;
    apply in_map_iff in Hin as ([u k] & He & Hin); cbn in He; subst u; apply Hne; apply (H t k);
    unfold blk; apply in_or_app; [left|right]; exact Hin.
Qed.

Lemma lock_endread : forall l t, linv l -> In t (m_rd l) -> is_blocked l t = false ->
  let r := mrsw_step_obs l (MEndRead t) in
  snd r = Ok /\ linv (fst r) /\ m_rd (fst r) = remove1 t (m_rd l) /\ m_wr (fst r) = m_wr l /\
  m_nr (fst r) = (m_nr l - 1)%Z /\ m_owner (fst r) = m_owner l /\
  (forall x, In x (blk (fst r)) <-> In x (blk l)).
Proof.
  intros l t Hinv Hin Hnb r.
  assert (Hen : mrsw_enabled l (MEndRead t) = true).
  { cbn [mrsw_enabled]. rewrite Hnb. apply memn_In in Hin. now rewrite Hin. }
  pose proof (mrsw_linv_step l _ Hinv Hen) as Hinv'. unfold mrsw_step in Hinv'. fold r in Hinv'.
  pose proof (remove1_length t (m_rd l) Hin) as Hlen. pose proof (i_nr l Hinv) as Hnr.
  subst r. cbn [mrsw_step_obs] in *. cbn [m_nr] in *.
  destruct (m_nr l - 1 <? 0)%Z eqn:E1; [lia|].
  destruct (m_nr l - 1 =? 0)%Z eqn:E2; cbn [fst snd broadcast m_rd m_wr m_nr m_owner m_wait m_woken] in *.
  - split; [reflexivity|]. split; [exact Hinv'|]. do 4 (split; [reflexivity|]).
    intros x. unfold blk, broadcast; cbn [m_wait m_woken app]. split; intros Hx;
      apply in_app_or in Hx; apply in_or_app; tauto.
  - split; [reflexivity|]. split; [exact Hinv'|]. do 4 (split; [reflexivity|]).
    intros x. split; intros Hx; exact Hx.
Qed.

Lemma lock_endwrite : forall l t, linv l -> In t (m_wr l) -> is_blocked l t = false ->
  let r := mrsw_step_obs l (MEndWrite t) in
  snd r = Ok /\ linv (fst r) /\ m_rd (fst r) = m_rd l /\ m_wr (fst r) = remove1 t (m_wr l) /\
  m_nr (fst r) = m_nr l /\ m_owner (fst r) = "" /\
  (forall x, In x (blk (fst r)) <-> In x (blk l)).
Proof.
  intros l t Hinv Hin Hnb r.
  assert (Hen : mrsw_enabled l (MEndWrite t) = true).
  { cbn [mrsw_enabled]. rewrite Hnb. apply memn_In in Hin. now rewrite Hin. }
  pose proof (mrsw_linv_step l _ Hinv Hen) as Hinv'. unfold mrsw_step in Hinv'. fold r in Hinv'.
  assert (Hh : is_empty (m_owner l) = false).
  { destruct (is_empty (m_owner l)) eqn:E; [|reflexivity].
    rewrite (i_free l Hinv) in Hin; [destruct Hin|]. rewrite E. reflexivity. }
  subst r. cbn [mrsw_step_obs] in *. rewrite Hh in *.
  cbn [fst snd broadcast m_rd m_wr m_nr m_owner m_wait m_woken] in *.
  split; [reflexivity|]. split; [exact Hinv'|]. do 4 (split; [reflexivity|]).
  intros x. unfold blk, broadcast; cbn [m_wait m_woken app]. split; intros Hx;
    apply in_app_or in Hx; apply in_or_app; tauto.
Qed.

(* ------------------------------------------------------------------ list helpers *)
Lemma nholding_app : forall l st, nholding (l ++ [st]) = nholding l + (if holding st then 1 else 0).
Proof.
  intros l st. unfold nholding. rewrite filter_app, app_length. cbn [filter].
  destruct (holding st); cbn; lia.
Qed.

Lemma nth_error_upd : forall f l i j,
  nth_error (upd_nth i f l) j = if Nat.eqb j i then option_map f (nth_error l i) else nth_error l j.
Proof.
  induction l as [|x l IH]; intros i j.
  - cbn [upd_nth]. destruct (Nat.eqb j i) eqn:E; destruct i, j; cbn; try reflexivity; discriminate.
  - destruct i as [|i]; destruct j as [|j]; cbn [upd_nth nth_error Nat.eqb option_map]; try reflexivity.
    apply IH.
Qed.

Lemma nholding_upd : forall f l i st, nth_error l i = Some st -> holding st = true -> holding (f st) = false ->
  S (nholding (upd_nth i f l)) = nholding l.
Proof.
  unfold nholding. induction l as [|x l IH]; intros i st Hn Hh Hf; [destruct i; discriminate|].
  destruct i as [|i]; cbn [nth_error upd_nth filter] in *.
  - injection Hn as ->. rewrite Hh, Hf. reflexivity.
  - destruct (holding x); cbn [List.length]; rewrite <- (IH i st Hn Hh Hf); reflexivity.
Qed.

(* ------------------------------------------------------------------ the invariant *)
Definition wr_expected (s : sstore) : list nat :=
  if manual s then [tid_reap] else match loop s with LReaping => [tid_loop] | _ => [] end.

Definition stream_ok (st : stream) : Prop :=
  s_released st = (if s_opened st && s_closed st then 1 else 0) /\
  (s_closed st = true -> s_opened st = true) /\ (s_timedout st = true -> s_closed st = true).

Record cinv (s : sstore) : Prop := {
  k_lock : linv (lk s);
  k_nr : m_nr (lk s) = Z.of_nat (nholding (strs s));
  k_hold : forall i st, nth_error (strs s) i = Some st -> holding st = true -> In (tid_stream i) (m_rd (lk s));
  k_wr : m_wr (lk s) = wr_expected s;
  k_excl : manual s = true -> loop s <> LReaping;
  k_blk : forall t k, In (t, k) (blk (lk s)) -> t = tid_loop /\ k = WW "reap" /\ loop s = LWaiting;
  k_wait : loop s = LWaiting -> In (tid_loop, WW "reap") (blk (lk s));
  k_str : forall i st, nth_error (strs s) i = Some st -> stream_ok st }.

Lemma cinv_init : cinv sinit.
Proof.
  constructor; cbn; try reflexivity; try discriminate.
  - exact mrsw_init_linv.
  - intros [|i] st H; discriminate.
  - intros t k [].
  - intros [|i] st H; discriminate.
Qed.

Lemma blk_tid : forall s, cinv s -> forall u k, In (u, k) (blk (lk s)) -> u = tid_loop.
Proof. intros s H u k Hin. apply (k_blk s H u k Hin). Qed.

Lemma stream_not_blocked : forall s i, cinv s -> is_blocked (lk s) (tid_stream i) = false.
Proof. intros s i H. apply not_blocked; [apply blk_tid; exact H|discriminate]. Qed.

Lemma reap_not_blocked : forall s, cinv s -> is_blocked (lk s) tid_reap = false.
Proof. intros s H. apply not_blocked; [apply blk_tid; exact H|discriminate]. Qed.

Lemma loop_not_blocked : forall s, cinv s -> loop s <> LWaiting -> is_blocked (lk s) tid_loop = false.
Proof.
  intros s H Hne. unfold is_blocked. apply orb_false_iff. split; apply memn_false; intros Hin;
    apply in_map_iff in Hin as ([u k] & He & Hin); cbn in He; subst u; apply Hne;
    apply (k_blk s H tid_loop k); unfold blk; apply in_or_app; [left|right]; exact Hin.
Qed.

(* releasing stream i (Close or idle fire of a stream that still holds) *)
Lemma release_cinv : forall s i st b, cinv s -> nth_error (strs s) i = Some st -> holding st = true ->
  cinv (fst (release_stream s i b)) /\ snd (release_stream s i b) = OOk.
Proof.
  intros s i st b Hc Hn Hh.
  pose proof (k_hold s Hc i st Hn Hh) as Hin.
  destruct (lock_endread (lk s) (tid_stream i) (k_lock s Hc) Hin (stream_not_blocked s i Hc))
    as (Hobs & Hlinv & Hrd & Hwr & Hnr & Hown & Hblk).
  unfold release_stream. destruct (mrsw_step_obs (lk s) (MEndRead (tid_stream i))) as [l1 o] eqn:E.
  cbn [fst snd] in *. subst o. split; [|reflexivity].
  set (f := fun st0 : stream => {| s_opened := s_opened st0; s_closed := true; s_timedout := b;
                                   s_released := S (s_released st0) |}).
  assert (Hopen : s_opened st = true /\ s_closed st = false).
  { unfold holding in Hh. apply andb_true_iff in Hh as [A B]. apply negb_true_iff in B. split; assumption. }
  destruct Hopen as [Ho Hcl].
  assert (Hf : holding (f st) = false) by (unfold holding, f; cbn; rewrite Ho; reflexivity).
  constructor; cbn [set_strs set_lk lk strs manual loop nsnap].
  - exact Hlinv.
  - rewrite Hnr, (k_nr s Hc). rewrite <- (nholding_upd f (strs s) i st Hn Hh Hf). lia.
  - intros j st' Hj Hh'. rewrite nth_error_upd in Hj. destruct (Nat.eqb j i) eqn:Ej.
    + rewrite Hn in Hj. cbn in Hj. injection Hj as <-. rewrite Hf in Hh'. discriminate.
    + rewrite Hrd. apply remove1_In_other; [apply (k_hold s Hc j st' Hj Hh')|].
      unfold tid_stream. apply Nat.eqb_neq in Ej. lia.
  - rewrite Hwr. exact (k_wr s Hc).
  - exact (k_excl s Hc).
  - intros t k Hi. apply Hblk in Hi. exact (k_blk s Hc t k Hi).
  - intros Hw. apply Hblk. exact (k_wait s Hc Hw).
  - intros j st' Hj. rewrite nth_error_upd in Hj. destruct (Nat.eqb j i) eqn:Ej.
    + rewrite Hn in Hj. cbn in Hj. injection Hj as <-.
      destruct (k_str s Hc i st Hn) as (R & _ & _). unfold stream_ok, f. cbn.
      rewrite Ho, Hcl in R. cbn in R. rewrite R, Ho. cbn. repeat split; auto.
    + exact (k_str s Hc j st' Hj).
Qed.

Lemma held_iff_wr : forall l, linv l -> (is_empty (m_owner l) = false <-> m_wr l <> []).
Proof.
  intros l Hl. split.
  - intros Hh. destruct (i_own l Hl) as [_ [t Ht]]; [rewrite Hh; reflexivity|]. rewrite Ht. discriminate.
  - intros Hne. destruct (is_empty (m_owner l)) eqn:E; [|reflexivity].
    exfalso. apply Hne. apply (i_free l Hl). rewrite E. reflexivity.
Qed.

Lemma acquire_blk : forall l t k, blk (acquire l t k) = blk l.
Proof. intros l t k. destruct k; reflexivity. Qed.

Lemma cinv_step : forall s a, cinv s -> senabled s a = true -> cinv (sstep s a).
Proof.
  intros s a Hc Hen. unfold sstep. pose proof (k_lock s Hc) as Hl.
  destruct a as [|i|i|i|i| | | | | | |]; cbn [sstep_obs senabled] in *.
  - (* Open *)
    cbn [mrsw_step_obs]. destruct (negb (is_empty (m_owner (lk s)))) eqn:Hh; cbn [fst].
    + (* conflict: an entry that never held anything *)
      constructor; cbn [set_strs set_lk lk strs manual loop nsnap]; try apply Hc.
      * rewrite nholding_app. cbn. rewrite Nat.add_0_r. apply Hc.
      * intros j st Hj Hhd. destruct (Nat.lt_ge_cases j (List.length (strs s))) as [Hlt|Hge].
        -- rewrite nth_error_app1 in Hj by exact Hlt. apply (k_hold s Hc j st Hj Hhd).
        -- rewrite nth_error_app2 in Hj by exact Hge.
           destruct (j - List.length (strs s)) as [|[|n]]; cbn in Hj; try discriminate.
           injection Hj as <-. discriminate.
      * intros j st Hj. destruct (Nat.lt_ge_cases j (List.length (strs s))) as [Hlt|Hge].
        -- rewrite nth_error_app1 in Hj by exact Hlt. apply (k_str s Hc j st Hj).
        -- rewrite nth_error_app2 in Hj by exact Hge.
           destruct (j - List.length (strs s)) as [|[|n]]; cbn in Hj; try discriminate.
           injection Hj as <-. unfold stream_ok. cbn. repeat split; auto; discriminate.
    + assert (Hl' : linv (acquire (lk s) (tid_stream (List.length (strs s))) WR)).
      { apply acquire_linv; [exact Hl|exact Hh|exact I]. }
      constructor; cbn [set_strs set_lk lk strs manual loop nsnap].
      * exact Hl'.
      * rewrite nholding_app. cbn [acquire m_nr holding s_opened s_closed andb negb]. rewrite (k_nr s Hc). lia.
      * intros j st Hj Hhd. cbn [acquire m_rd].
        destruct (Nat.lt_ge_cases j (List.length (strs s))) as [Hlt|Hge].
        -- rewrite nth_error_app1 in Hj by exact Hlt. right. apply (k_hold s Hc j st Hj Hhd).
        -- rewrite nth_error_app2 in Hj by exact Hge.
           destruct (j - List.length (strs s)) as [|[|n]] eqn:En; cbn in Hj; try discriminate.
           left. f_equal. f_equal. lia.
      * cbn [acquire m_wr]. apply Hc.
      * apply Hc.
      * intros t k Hi. rewrite acquire_blk in Hi. apply (k_blk s Hc t k Hi).
      * intros Hw. rewrite acquire_blk. apply (k_wait s Hc Hw).
      * intros j st Hj. destruct (Nat.lt_ge_cases j (List.length (strs s))) as [Hlt|Hge].
        -- rewrite nth_error_app1 in Hj by exact Hlt. apply (k_str s Hc j st Hj).
        -- rewrite nth_error_app2 in Hj by exact Hge.
           destruct (j - List.length (strs s)) as [|[|n]]; cbn in Hj; try discriminate.
           injection Hj as <-. unfold stream_ok. cbn. repeat split; auto; discriminate.
  - (* Read *)
    destruct (nth_error (strs s) i) as [st|]; [|exact Hc].
    destruct (negb (s_opened st)); [exact Hc|]. destruct (s_timedout st); [exact Hc|].
    destruct (s_closed st); exact Hc.
  - (* Close *)
    destruct (nth_error (strs s) i) as [st|] eqn:Hn; [|exact Hc].
    destruct (negb (s_opened st)) eqn:Ho; [exact Hc|]. destruct (s_closed st) eqn:Hcl; [exact Hc|].
    apply (release_cinv s i st (s_timedout st) Hc Hn). unfold holding. apply negb_false_iff in Ho.
    rewrite Ho, Hcl. reflexivity.
  - (* idle fire *)
    destruct (nth_error (strs s) i) as [st|] eqn:Hn; [|exact Hc].
    destruct (negb (s_opened st)) eqn:Ho; [exact Hc|]. destruct (s_closed st) eqn:Hcl; [exact Hc|].
    apply (release_cinv s i st true Hc Hn). unfold holding. apply negb_false_iff in Ho.
    rewrite Ho, Hcl. reflexivity.
  - (* early fire *)
    destruct (nth_error (strs s) i) as [st|]; [|exact Hc]. destruct (negb (s_opened st)); exact Hc.
  - (* Create *)
    cbn [fst]. destruct Hc. constructor; assumption.
  - (* Store.Reap enters *)
    apply negb_true_iff in Hen. cbn [mrsw_step_obs is_empty String.eqb tid_reap].
    replace (is_empty "reap") with false by reflexivity.
    destruct (negb (is_empty (m_owner (lk s)))) eqn:Hh; cbn [fst]; [exact Hc|].
    destruct (0 <? m_nr (lk s))%Z eqn:Hz; cbn [fst]; [exact Hc|].
    assert (Hl' : linv (acquire (lk s) 1 (WW "reap"))).
    { apply acquire_linv; [exact Hl| |reflexivity]. rewrite guard_WW, Hh, Hz. reflexivity. }
    assert (Hwr0 : m_wr (lk s) = []) by (apply (i_free _ Hl); exact Hh).
    assert (Hlp : loop s <> LReaping).
    { intros E. pose proof (k_wr s Hc) as W. unfold wr_expected in W. rewrite Hen, E, Hwr0 in W. discriminate. }
    constructor; cbn [set_manual set_lk lk strs manual loop nsnap].
    + exact Hl'.
    + apply Hc.
    + intros j st Hj Hhd. apply (k_hold s Hc j st Hj Hhd).
    + cbn [acquire m_wr]. unfold wr_expected. cbn [set_manual set_loop set_lk set_strs manual loop]. rewrite Hwr0. reflexivity.
    + intros _. exact Hlp.
    + intros t k Hi. rewrite acquire_blk in Hi. apply (k_blk s Hc t k Hi).
    + intros Hw. rewrite acquire_blk. apply (k_wait s Hc Hw).
    + apply Hc.
  - (* Store.Reap leaves *)
    assert (Hwr : m_wr (lk s) = [tid_reap]).
    { rewrite (k_wr s Hc). unfold wr_expected. rewrite Hen. reflexivity. }
    destruct (lock_endwrite (lk s) tid_reap Hl) as (Hobs & Hlinv & Hrd & Hwr' & Hnr & Hown & Hblk);
      [rewrite Hwr; left; reflexivity|apply reap_not_blocked; exact Hc|].
    destruct (mrsw_step_obs (lk s) (MEndWrite tid_reap)) as [l1 o] eqn:E. cbn [fst snd] in *. subst o.
    cbn [fst]. constructor; cbn [set_manual set_lk lk strs manual loop nsnap].
    + exact Hlinv.
    + rewrite Hnr. apply Hc.
    + intros j st Hj Hhd. rewrite Hrd. apply (k_hold s Hc j st Hj Hhd).
    + rewrite Hwr', Hwr. unfold wr_expected. cbn [set_manual set_loop set_lk set_strs manual loop remove1 tid_reap Nat.eqb].
      pose proof (k_excl s Hc Hen) as Hx. destruct (loop s) eqn:El; try reflexivity. congruence.
    + discriminate.
    + intros t k Hi. apply Hblk in Hi. apply (k_blk s Hc t k Hi).
    + intros Hw. apply Hblk. apply (k_wait s Hc Hw).
    + apply Hc.
  - (* reapLoop: BeginWriteBlocking *)
    assert (Hidle : loop s = LIdle) by (destruct (loop s); [reflexivity|discriminate|discriminate]).
    assert (Hnb : ~ In tid_loop (map fst (m_wait (lk s) ++ m_woken (lk s)))).
    { apply not_blocked_nin. apply loop_not_blocked; [exact Hc|rewrite Hidle; discriminate]. }
    cbn [mrsw_step_obs]. replace (is_empty "reap") with false by reflexivity.
    unfold try_blocking. destruct (guard_blocked (lk s) (WW "reap")) eqn:Hg; cbn [fst].
    + (* parks *)
      assert (Hl' : linv (park (lk s) tid_loop (WW "reap"))) by (apply park_linv; [exact Hl|exact Hg|reflexivity|exact Hnb]).
      constructor; cbn [set_loop set_lk lk strs manual loop nsnap].
      * exact Hl'.
      * apply Hc.
      * intros j st Hj Hhd. apply (k_hold s Hc j st Hj Hhd).
      * cbn [park m_wr]. rewrite (k_wr s Hc). unfold wr_expected. cbn [set_manual set_loop set_lk set_strs manual loop]. rewrite Hidle. reflexivity.
      * discriminate.
      * intros t k Hi. unfold blk in Hi. cbn [park m_wait m_woken] in Hi. rewrite <- app_assoc in Hi.
        apply in_app_or in Hi as [Hi|Hi].
        -- exfalso. destruct (k_blk s Hc t k) as (_ & _ & W); [unfold blk; apply in_or_app; left; exact Hi|].
           rewrite Hidle in W. discriminate.
        -- cbn [app] in Hi. destruct Hi as [He|Hi].
           ++ injection He as <- <-. repeat split; reflexivity.
           ++ exfalso. destruct (k_blk s Hc t k) as (_ & _ & W); [unfold blk; apply in_or_app; right; exact Hi|].
              rewrite Hidle in W. discriminate.
      * intros _. unfold blk. cbn [park m_wait m_woken]. apply in_or_app. left. apply in_or_app. right. left. reflexivity.
      * apply Hc.
    + (* acquires at once *)
      assert (Hl' : linv (acquire (lk s) tid_loop (WW "reap"))) by (apply acquire_linv; [exact Hl|exact Hg|reflexivity]).
      rewrite guard_WW in Hg. apply orb_false_iff in Hg as [Hh Hz].
      assert (Hwr0 : m_wr (lk s) = []) by (apply (i_free _ Hl); exact Hh).
      assert (Hman : manual s = false).
      { destruct (manual s) eqn:E; [|reflexivity]. pose proof (k_wr s Hc) as W. unfold wr_expected in W.
        rewrite E, Hwr0 in W. discriminate. }
      constructor; cbn [set_loop set_lk lk strs manual loop nsnap].
      * exact Hl'.
      * apply Hc.
      * intros j st Hj Hhd. apply (k_hold s Hc j st Hj Hhd).
      * cbn [acquire m_wr]. unfold wr_expected. cbn [set_manual set_loop set_lk set_strs manual loop]. rewrite Hman, Hwr0. reflexivity.
      * rewrite Hman. discriminate.
      * intros t k Hi. rewrite acquire_blk in Hi. exfalso. destruct (k_blk s Hc t k Hi) as (_ & _ & W).
        rewrite Hidle in W. discriminate.
      * discriminate.
      * apply Hc.
  - (* reapLoop: woken, re-evaluates its guard *)
    apply andb_true_iff in Hen as [Hph Hw].
    assert (Hwait : loop s = LWaiting) by (destruct (loop s); [discriminate|reflexivity|discriminate]).
    apply memn_In in Hw. destruct (find_w_some _ _ Hw) as [k Hf].
    assert (Hk : k = WW "reap").
    { apply find_w_In in Hf. destruct (k_blk s Hc tid_loop k) as (_ & K & _); [unfold blk; apply in_or_app; right; exact Hf|exact K]. }
    subst k. cbn [mrsw_step_obs]. rewrite Hf. fold (unwoken (lk s) tid_loop).
    destruct (unwoken_linv (lk s) tid_loop (WW "reap") Hl Hf) as (Hl1 & _ & Hnin).
    pose proof (remove_w_perm _ _ _ Hf) as Hperm.
    assert (Hsub : forall x, In x (blk (unwoken (lk s) tid_loop)) -> In x (blk (lk s))).
    { intros x Hx. unfold blk in *. cbn [unwoken m_wait m_woken] in Hx. apply in_app_or in Hx as [Hx|Hx];
        apply in_or_app; [left; exact Hx|right]. eapply Permutation_in; [apply Permutation_sym; exact Hperm|].
      right. exact Hx. }
    unfold try_blocking. destruct (guard_blocked (unwoken (lk s) tid_loop) (WW "reap")) eqn:Hg; cbn [fst].
    + assert (Hl' : linv (park (unwoken (lk s) tid_loop) tid_loop (WW "reap"))) by (apply park_linv; [exact Hl1|exact Hg|reflexivity|exact Hnin]).
      constructor; cbn [set_loop set_lk lk strs manual loop nsnap].
      * exact Hl'.
      * apply Hc.
      * intros j st Hj Hhd. apply (k_hold s Hc j st Hj Hhd).
      * cbn [park unwoken m_wr]. rewrite (k_wr s Hc). unfold wr_expected. cbn [set_manual set_loop set_lk set_strs manual loop]. rewrite Hwait. reflexivity.
      * discriminate.
      * intros t k Hi. unfold blk in Hi. cbn [park m_wait m_woken] in Hi. rewrite <- app_assoc in Hi.
        apply in_app_or in Hi as [Hi|Hi].
        -- destruct (k_blk s Hc t k) as (A & B & _); [apply Hsub; unfold blk; apply in_or_app; left; exact Hi|]. auto.
        -- cbn [app] in Hi. destruct Hi as [He|Hi].
           ++ injection He as <- <-. repeat split; reflexivity.
           ++ destruct (k_blk s Hc t k) as (A & B & _); [apply Hsub; unfold blk; apply in_or_app; right; exact Hi|]. auto.
      * intros _. unfold blk. cbn [park m_wait m_woken]. apply in_or_app. left. apply in_or_app. right. left. reflexivity.
      * apply Hc.
    + assert (Hl' : linv (acquire (unwoken (lk s) tid_loop) tid_loop (WW "reap"))) by (apply acquire_linv; [exact Hl1|exact Hg|reflexivity]).
      rewrite guard_WW in Hg. apply orb_false_iff in Hg as [Hh Hz]. cbn [unwoken m_owner m_nr] in Hh, Hz.
      assert (Hwr0 : m_wr (lk s) = []) by (apply (i_free _ Hl); exact Hh).
      assert (Hman : manual s = false).
      { destruct (manual s) eqn:E; [|reflexivity]. pose proof (k_wr s Hc) as W. unfold wr_expected in W.
        rewrite E, Hwr0 in W. discriminate. }
      constructor; cbn [set_loop set_lk lk strs manual loop nsnap].
      * exact Hl'.
      * apply Hc.
      * intros j st Hj Hhd. apply (k_hold s Hc j st Hj Hhd).
      * cbn [acquire unwoken m_wr]. unfold wr_expected. cbn [set_manual set_loop set_lk set_strs manual loop]. rewrite Hman, Hwr0. reflexivity.
      * rewrite Hman. discriminate.
      * intros t k Hi. rewrite acquire_blk in Hi. exfalso.
        destruct (k_blk s Hc t k (Hsub _ Hi)) as (A & B & _). subst t k.
        apply Hnin. apply (in_map fst) in Hi. exact Hi.
      * discriminate.
      * apply Hc.
  - (* reapLoop: EndWrite *)
    assert (Hre : loop s = LReaping) by (destruct (loop s); [discriminate|discriminate|reflexivity]).
    assert (Hman : manual s = false).
    { destruct (manual s) eqn:E; [|reflexivity]. exfalso. apply (k_excl s Hc E). exact Hre. }
    assert (Hwr : m_wr (lk s) = [tid_loop]).
    { rewrite (k_wr s Hc). unfold wr_expected. rewrite Hman, Hre. reflexivity. }
    destruct (lock_endwrite (lk s) tid_loop Hl) as (Hobs & Hlinv & Hrd & Hwr' & Hnr & Hown & Hblk);
      [rewrite Hwr; left; reflexivity|apply loop_not_blocked; [exact Hc|rewrite Hre; discriminate]|].
    destruct (mrsw_step_obs (lk s) (MEndWrite tid_loop)) as [l1 o] eqn:E. cbn [fst snd] in *. subst o.
    cbn [fst]. constructor; cbn [set_loop set_lk lk strs manual loop nsnap].
    + exact Hlinv.
    + rewrite Hnr. apply Hc.
    + intros j st Hj Hhd. rewrite Hrd. apply (k_hold s Hc j st Hj Hhd).
    + rewrite Hwr', Hwr. unfold wr_expected. cbn [set_manual set_loop set_lk set_strs manual loop]. rewrite Hman. reflexivity.
    + discriminate.
    + intros t k Hi. apply Hblk in Hi. exfalso. destruct (k_blk s Hc t k Hi) as (_ & _ & W). rewrite Hre in W. discriminate.
    + discriminate.
    + apply Hc.
  - (* tick *)
    exact Hc.
Qed.

Lemma cinv_reach : forall l s, run senabled sstep sinit l = Some s -> cinv s.
Proof.
  intros l s. apply (invariant_rule senabled sstep cinv); [exact cinv_init|exact cinv_step].
Qed.

(* ------------------------------------------------------------------ the property *)

(* reaping (by Store.Reap or by the reaper goroutine) and an open stream never coexist; at most
   one reaper is inside *)
Lemma reaping_excludes_streams : forall l s, run senabled sstep sinit l = Some s ->
  reaping s = true ->
  (forall i st, nth_error (strs s) i = Some st -> holding st = false) /\
  nholding (strs s) = 0 /\ ~ (manual s = true /\ loop s = LReaping).
Proof.
  intros l s Hr Hre. pose proof (cinv_reach l s Hr) as Hc. pose proof (k_lock s Hc) as Hl.
  assert (Hwr : m_wr (lk s) <> []).
  { rewrite (k_wr s Hc). unfold wr_expected. unfold reaping in Hre.
    destruct (manual s); [discriminate|]. destruct (loop s); cbn in Hre; try discriminate. }
  apply (held_iff_wr _ Hl) in Hwr.
  destruct (i_own _ Hl) as [Hrd _]; [rewrite Hwr; reflexivity|].
  split; [|split].
  - intros i st Hn. destruct (holding st) eqn:Hh; [|reflexivity].
    pose proof (k_hold s Hc i st Hn Hh) as Hin. rewrite Hrd in Hin. destruct Hin.
  - pose proof (k_nr s Hc) as Hnr. rewrite (i_nr _ Hl), Hrd in Hnr. cbn in Hnr. lia.
  - intros [A B]. apply (k_excl s Hc A B).
Qed.

(* the lock's reader count is the number of streams that are open and not yet released *)
Lemma reader_count : forall l s, run senabled sstep sinit l = Some s ->
  m_nr (lk s) = Z.of_nat (nholding (strs s)) /\ (0 <= m_nr (lk s))%Z.
Proof.
  intros l s Hr. pose proof (cinv_reach l s Hr) as Hc. split; [apply Hc|]. rewrite (k_nr s Hc). lia.
Qed.

(* no call of the protocol makes the lock panic (reader count below zero, EndWrite without a
   writer) and every stream has released exactly once iff it was opened and then closed by
   Close, by the idle timer, or by both in either order *)
Lemma step_no_panic : forall s a, cinv s -> senabled s a = true ->
  snd (sstep_obs s a) <> OPanic /\ snd (sstep_obs s a) <> OInvalid.
Proof.
  intros s a Hc Hen. pose proof (k_lock s Hc) as Hl.
  destruct a as [|i|i|i|i| | | | | | |]; cbn [sstep_obs senabled] in *.
  - cbn [mrsw_step_obs]. destruct (negb (is_empty (m_owner (lk s)))); cbn; split; discriminate.
  - destruct (nth_error (strs s) i) as [st|]; [|discriminate]. rewrite Hen. cbn [negb].
    destruct (s_timedout st); [cbn; split; discriminate|]. destruct (s_closed st); cbn; split; discriminate.
  - destruct (nth_error (strs s) i) as [st|] eqn:Hn; [|discriminate]. rewrite Hen. cbn [negb].
    destruct (s_closed st) eqn:Hcl; [cbn; split; discriminate|].
    destruct (release_cinv s i st (s_timedout st) Hc Hn) as [_ Ho]; [unfold holding; rewrite Hen, Hcl; reflexivity|].
    rewrite Ho. split; discriminate.
  - destruct (nth_error (strs s) i) as [st|] eqn:Hn; [|discriminate]. rewrite Hen. cbn [negb].
    destruct (s_closed st) eqn:Hcl; [cbn; split; discriminate|].
    destruct (release_cinv s i st true Hc Hn) as [_ Ho]; [unfold holding; rewrite Hen, Hcl; reflexivity|].
    rewrite Ho. split; discriminate.
  - destruct (nth_error (strs s) i) as [st|]; [|discriminate]. rewrite Hen. cbn. split; discriminate.
  - cbn. split; discriminate.
  - cbn [mrsw_step_obs]. replace (is_empty "reap") with false by reflexivity.
    destruct (negb (is_empty (m_owner (lk s)))); cbn; [split; discriminate|].
    destruct (0 <? m_nr (lk s))%Z; cbn; split; discriminate.
  - assert (Hwr : m_wr (lk s) = [tid_reap]).
    { rewrite (k_wr s Hc). unfold wr_expected. rewrite Hen. reflexivity. }
    destruct (lock_endwrite (lk s) tid_reap Hl) as (Hobs & _);
      [rewrite Hwr; left; reflexivity|apply reap_not_blocked; exact Hc|].
    destruct (mrsw_step_obs (lk s) (MEndWrite tid_reap)) as [l1 o]. cbn [snd] in Hobs. subst o.
    cbn. split; discriminate.
  - cbn [mrsw_step_obs]. replace (is_empty "reap") with false by reflexivity.
    unfold try_blocking. destruct (guard_blocked (lk s) (WW "reap")); cbn; split; discriminate.
  - apply andb_true_iff in Hen as [_ Hw]. apply memn_In in Hw. destruct (find_w_some _ _ Hw) as [k Hf].
    cbn [mrsw_step_obs]. rewrite Hf. unfold try_blocking.
    match goal with |- context [guard_blocked ?x k] => destruct (guard_blocked x k) end; cbn; split; discriminate.
  - assert (Hre : loop s = LReaping) by (destruct (loop s); [discriminate|discriminate|reflexivity]).
    assert (Hman : manual s = false).
    { destruct (manual s) eqn:E; [|reflexivity]. exfalso. apply (k_excl s Hc E). exact Hre. }
    assert (Hwr : m_wr (lk s) = [tid_loop]).
    { rewrite (k_wr s Hc). unfold wr_expected. rewrite Hman, Hre. reflexivity. }
    destruct (lock_endwrite (lk s) tid_loop Hl) as (Hobs & _);
      [rewrite Hwr; left; reflexivity|apply loop_not_blocked; [exact Hc|rewrite Hre; discriminate]|].
    destruct (mrsw_step_obs (lk s) (MEndWrite tid_loop)) as [l1 o]. cbn [snd] in Hobs. subst o.
    cbn. split; discriminate.
  - cbn. split; discriminate.
Qed.

Lemma release_exactly_once : forall l s, run senabled sstep sinit l = Some s ->
  (forall i st, nth_error (strs s) i = Some st ->
     s_released st = (if s_opened st && s_closed st then 1 else 0) /\ s_released st <= 1 /\
     (s_timedout st = true -> s_closed st = true)) /\
  (forall a, senabled s a = true -> snd (sstep_obs s a) <> OPanic /\ snd (sstep_obs s a) <> OInvalid).
Proof.
  intros l s Hr. pose proof (cinv_reach l s Hr) as Hc. split.
  - intros i st Hn. destruct (k_str s Hc i st Hn) as (A & _ & C). split; [exact A|]. split; [|exact C].
    rewrite A. destruct (s_opened st && s_closed st); lia.
  - intros a Hen. apply step_no_panic; assumption.
Qed.

(* once no stream holds the store (each closed, or force-closed by its idle timer) and nobody
   is reaping, Store.Reap gets in, and a reaper goroutine waiting in BeginWriteBlocking has been
   woken: its resume step is enabled and it starts reaping *)
Lemma reap_enabled_when_streams_done : forall l s, run senabled sstep sinit l = Some s ->
  nholding (strs s) = 0 -> reaping s = false ->
  senabled s AReapBegin = true /\ snd (sstep_obs s AReapBegin) = OOk /\
  (loop s = LWaiting ->
     senabled s ALoopResume = true /\ snd (sstep_obs s ALoopResume) = OOk /\
     loop (sstep s ALoopResume) = LReaping).
Proof.
  intros l s Hr Hz Hnre. pose proof (cinv_reach l s Hr) as Hc. pose proof (k_lock s Hc) as Hl.
  unfold reaping in Hnre. apply orb_false_iff in Hnre as [Hman Hlp].
  assert (Hwr : m_wr (lk s) = []).
  { rewrite (k_wr s Hc). unfold wr_expected. rewrite Hman. destruct (loop s); try reflexivity. discriminate. }
  assert (Hh : negb (is_empty (m_owner (lk s))) = false).
  { destruct (is_empty (m_owner (lk s))) eqn:E; [reflexivity|]. apply (held_iff_wr _ Hl) in E. contradiction. }
  assert (Hnr : m_nr (lk s) = 0%Z) by (rewrite (k_nr s Hc), Hz; reflexivity).
  split; [cbn; rewrite Hman; reflexivity|]. split.
  - cbn [sstep_obs mrsw_step_obs]. replace (is_empty "reap") with false by reflexivity.
    rewrite Hh, Hnr. reflexivity.
  - intros Hw. pose proof (k_wait s Hc Hw) as Hin. unfold blk in Hin.
    assert (Hg : guard_blocked (lk s) (WW "reap") = false) by (rewrite guard_WW, Hh, Hnr; reflexivity).
    assert (Hwk : In (tid_loop, WW "reap") (m_woken (lk s))).
    { apply in_app_or in Hin as [Hin|Hin]; [|exact Hin]. rewrite (i_wait _ Hl _ _ Hin) in Hg. discriminate. }
    assert (Hnd : NoDup (map fst (m_woken (lk s)))).
    { pose proof (i_nodup _ Hl) as H. rewrite map_app in H. apply nodup_app_r in H. exact H. }
    pose proof (find_w_unique _ _ _ Hnd Hwk) as Hf.
    split; [|split].
    + cbn [senabled]. rewrite Hw. cbn [lphase_eqb andb]. apply memn_In. apply (in_map fst) in Hwk. exact Hwk.
    + cbn [sstep_obs mrsw_step_obs]. rewrite Hf. unfold try_blocking.
      match goal with |- context [guard_blocked ?x (WW "reap")] =>
        change (guard_blocked x (WW "reap")) with (guard_blocked (lk s) (WW "reap")) end.
      rewrite Hg. reflexivity.
    + unfold sstep. cbn [sstep_obs mrsw_step_obs]. rewrite Hf. unfold try_blocking.
      match goal with |- context [guard_blocked ?x (WW "reap")] =>
        change (guard_blocked x (WW "reap")) with (guard_blocked (lk s) (WW "reap")) end.
      rewrite Hg. reflexivity.
Qed.

(* the idle timer of a stream that still holds the store can always fire; it force-closes the
   stream, releases its hold (one reader fewer), later reads fail with the timeout error and a
   later Close changes nothing *)
Lemma idle_fire_releases : forall l s i st, run senabled sstep sinit l = Some s ->
  nth_error (strs s) i = Some st -> holding st = true ->
  senabled s (AFire i) = true /\ snd (sstep_obs s (AFire i)) = OOk /\
  let s' := sstep s (AFire i) in
  S (nholding (strs s')) = nholding (strs s) /\
  (exists st', nth_error (strs s') i = Some st' /\ s_closed st' = true /\ s_timedout st' = true /\ s_released st' = 1) /\
  snd (sstep_obs s' (ARead i)) = OTimeoutErr /\ sstep_obs s' (AClose i) = (s', OOk).
Proof.
  intros l s i st Hr Hn Hh. pose proof (cinv_reach l s Hr) as Hc.
  assert (Hoc : s_opened st = true /\ s_closed st = false).
  { unfold holding in Hh. apply andb_true_iff in Hh as [A B]. apply negb_true_iff in B. split; assumption. }
  destruct Hoc as [Ho Hcl].
  destruct (release_cinv s i st true Hc Hn Hh) as [_ Hobs].
  destruct (k_str s Hc i st Hn) as (Hrel & _ & _). rewrite Ho, Hcl in Hrel. cbn in Hrel.
  split; [cbn; rewrite Hn; exact Ho|].
  unfold sstep. cbn [sstep_obs]. rewrite Hn, Ho, Hcl. cbn [negb].
  split; [exact Hobs|].
  unfold release_stream in *. destruct (mrsw_step_obs (lk s) (MEndRead (tid_stream i))) as [l1 o].
  cbn [fst snd set_strs set_lk strs lk].
  set (f := fun st0 : stream => {| s_opened := s_opened st0; s_closed := true; s_timedout := true;
                                   s_released := S (s_released st0) |}).
  assert (Hnth : nth_error (upd_nth i f (strs s)) i = Some (f st)).
  { rewrite nth_error_upd, Nat.eqb_refl, Hn. reflexivity. }
  split; [|split; [|split]].
  - apply (nholding_upd f (strs s) i st Hn Hh). unfold holding, f. cbn. rewrite Ho. reflexivity.
  - exists (f st). split; [exact Hnth|]. unfold f. cbn. rewrite Hrel. auto.
  - cbn [sstep_obs strs]. rewrite Hnth. unfold f. cbn. rewrite Ho. reflexivity.
  - cbn [sstep_obs strs]. rewrite Hnth. unfold f. cbn. rewrite Ho. reflexivity.
Qed.

Example c11_example :
  exists s, run senabled sstep sinit
      [AOpen; AOpen; ALoopBegin; AReapBegin; AClose 0; AFire 1; ALoopResume; AClose 1; AOpen; ALoopEnd; AOpen] = Some s
    /\ map s_released (strs s) = [1; 1; 0; 0] /\ map s_opened (strs s) = [true; true; false; true]
    /\ m_nr (lk s) = 1%Z /\ loop s = LIdle.
Proof. eexists. split; [vm_compute; reflexivity|]. repeat split; reflexivity. Qed.
