# C08 — configuration read by bin/check (see checks/registry.py)
SPEC = dict(
    title="Upgrading old snapshot formats is crash-safe",
    pkg="./snapshot", files=["snapshot/c08_verif_test.go"],
    rule="quick: 8 old-format nodes (the checked-in v7 and v8 fixtures; generated v8 directories with 1 and 3 snapshots (newest by term, not index) and with a partial older "
         "snapshot; generated v7 directories with 2-3 snapshots, older ones complete and without state.bin), real SQLite data; thorough adds 12 random v7/v8 directories with 1-3 snapshots. "
         "(a) The real start-up sequence Upgrade7To8 -> Upgrade8To10 -> NewStore runs in a child process that is SIGKILLed (strace inject) just before its K-th "
         "mkdirat/renameat/unlinkat/rmdir/fsync/ftruncate (thorough: also write/pwrite64) for EVERY K (quick: on 4 of the nodes); every 7th image (thorough: every image of the hand-picked "
         "nodes, every 3rd of the random ones) is crashed again during its recovery. (b) For every node, synthesised images: the disk just after the rename of each upgrade step (built with the "
         "real functions) with EVERY prefix of the old directory's removal unlinked, in sorted and in reverse entry order. The sequence is then run to the end. A case is non-trivial when the "
         "(first) crash is after the first mutation of the directory and before the last one; distinct by node + kill points / synthesised image",
    exhaustive=False,
    trusted=[
        "the model is the upgrade code WITH .work/fixes/C08-upgrade8to10-resume.patch; on the unfixed tree the oracle reports the crash points after the plan's rename",
        "the driver's c08OpenNode replicates the three calls of store/store.go Open (Upgrade7To8(snapshots, rsnapshots); Upgrade8To10(rsnapshots, wsnapshots); NewStore(wsnapshots))",
        "strace -e inject=<syscall>:signal=SIGKILL:when=K kills the child before its K-th such syscall; the directory left behind is the crash image (process-crash model: "
        "completed syscalls persist; loss of unsynced renames is not modelled)",
        "abstraction function c08Abs: a file is absent / complete (hash equals the file of the un-crashed run) / anything else; directories that are only removed are reduced to their entry count; "
        "removal of a stale rsnapshots.tmp is ONE model step (its partly removed states are matched to the state before the step; nothing reads that directory)",
        "gzip, SQLite's journal-mode conversion and CRC computation are inside single model steps (file written completely or not)",
    ],
    assumptions=["the old directory holds at least one snapshot and its newest snapshot is complete (v7: has state.bin); nothing else writes to the raft directory while the node starts"],
    level_text="C08_crash_safe_v7 / C08_crash_safe_v8 / C08_crash_sequence: for every size of the old directories, every micro-step and any number of crashes, the next start "
               "completes and leaves exactly the upgraded v10 store; C08_upgraded_stable: later starts do nothing; C08_newest_is_upgraded: the chosen snapshot is maximal in "
               "(term, index, id); C08_any_remainder_of_v7/_v8: whatever subset of an old directory is left when its removal is interrupted (any unlink order), every restart completes. Every crash image of the real code is one of the model's crash images and the real restart from it ends as the model's does.",
    level_note="Model = Upgrade7To8 and (fixed) Upgrade8To10 as micro-step runs over an abstract raft directory; tie = syscall-level kill of the real start-up sequence, "
               "image membership + final-state comparison; oracle = restart succeeds, one snapshot with the newest original (index, term), same rows, nothing left behind.",
    technique="Coq invariant proof over micro-step runs (crash schema of Lib/C07_Crash.v) + syscall-level crash injection into the real upgrade code",
    design_ref="6/C08",
    timeout_quick=900, timeout_thorough=14400, shard=100, coq_jobs=8,
)
