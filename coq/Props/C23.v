(* C23 — property theorems only (partial: safety for every schedule and every choice of Execute outcomes;
   "none are dropped while a leader is reachable" is proved as "a request is closed, and the next one taken,
   only after an Execute call for it returned without error", the eventual success itself is only explored). *)
From Coq Require Import List NArith ZArith Sorted.
From RQ Require Import Model.C24 Proofs.C24 Model.C23 Proofs.C23.
Import ListNotations.

Theorem C23_applied_in_order_partial : forall c, (0 < batchSize c)%nat -> forall l s, run23 c l = Some s ->
  applied_raw (calls s) = expand (rl s) /\
  Forall (fun x => (1 <= snd x)%nat) (rl s) /\
  (exists k, map fst (rl s) = filter nonempty (map b_objs (firstn k (out (q s))))) /\
  concat (map fst (rl s)) ++ pending s = flat_map fst (accepted23 l).
Proof. exact applied_in_order. Qed.
Print Assumptions C23_applied_in_order_partial.

Theorem C23_requests_are_whole_writes_in_order : forall c, (0 < batchSize c)%nat -> forall l s, run23 c l = Some s ->
  members (out (q s)) ++ in_flight (q s) = number (seq0 c) (accepted23 l) /\
  Forall (batch_ok c) (out (q s)) /\
  StronglySorted Z.lt (map b_seq (out (q s))).
Proof. exact requests_are_whole_writes_in_order. Qed.
Print Assumptions C23_requests_are_whole_writes_in_order.

Theorem C23_closed_requests_were_applied : forall c, (0 < batchSize c)%nat -> forall l s b, run23 c l = Some s ->
  In b (firstn (nclosed (q s)) (out (q s))) -> b_objs b = [] \/ In (b_objs b, OOk) (calls s).
Proof. exact closed_requests_were_applied. Qed.
Print Assumptions C23_closed_requests_were_applied.

Theorem C23_wait_returns_after_apply : forall c, (0 < batchSize c)%nat -> forall l s cid, run23 c l = Some s ->
  In cid (closedch (q s)) ->
  exists b w, In b (out (q s)) /\ In w (b_ws b) /\ q_fc w = Some cid /\
              (b_objs b = [] \/ In (b_objs b, OOk) (calls s)).
Proof. exact wait_returns_after_apply. Qed.
Print Assumptions C23_wait_returns_after_apply.
