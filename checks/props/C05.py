# C05 — configuration read by bin/check (see checks/registry.py)
SPEC = dict(
    title="WAL compaction is equivalent to the original WAL",
    pkg="./db/wal", files=["db/wal/c05_verif_test.go"],
    case_preamble="",   # every literal carries its scope; bin/check parses ids printed as n%N, so N_scope must stay closed
    rule="3 hand-picked files, then WAL files written by real SQLite for generated workloads (page sizes 512..65536; inserts, updates of pages already in the log, deletes, "
         "table drops, VACUUM, multi-statement transactions, spilled transactions rolled back, an earlier WAL generation left behind the live frames) "
         "and files built frame by frame (random page numbers incl. 0, commit markers, growing/shrinking sizes, stale-salt tails, wrong checksums, "
         "cuts inside the last frame (incl. exactly behind the frame header), trailing garbage, damaged headers, both checksum byte orders); each in full-scan and salt-only mode and at resume "
         "offsets chosen among all commit boundaries (plus some arbitrary offsets for the model tie only). A case is non-trivial when the property is "
         "claimed for it (header valid, offset at a boundary, salt-only mode only on checksum-clean files) and the valid prefix has >= 2 transactions, "
         ">= 1 page written twice, and a database size change or an invalid tail; distinct by (WAL bytes, offset, mode)",
    exhaustive=False,
    trusted=["SQLite's recovery and checkpoint are the reference for 'same database file' (run for real on every claimed case); Lib/C05_PageDB.checkpoint "
             "is validated against it per case (page images after the checkpoint)",
             "the driver's own WAL reader (salt / checksum-chain / completeness flags of every frame slot) supplies the model's input",
             "salt-only (fullScan=false) mode is claimed only for files in which every salt-matching frame has a right checksum, which is the mode's documented precondition"],
    assumptions=["frames whose 24-byte header is incomplete are not frames", "content identity of page images is SHA-256 identity"],
    level_text="C05_equiv / C05_resume_chain / C05_scan_subset / C05_open_tx_is_error (iff) / C05_scan_succeeds / C05_compact_equiv hold for every frame list, "
               "database, mode and resume offset at a transaction boundary (no bound on pages, transactions, growth or shrink); the model's run is compared "
               "with the real scanner+writer on every generated file and real SQLite decides equality of the checkpointed database files.",
    level_note="Model = ReadFrame acceptance + scan loop + offset-order selection + emission; tie = differential run incl. source frame indices and page images; "
               "oracle = byte equality of database files after real SQLite checkpoints.",
    technique="Coq proof (induction over the frame list; loop invariant of the scan) + differential run against the real scanner + SQLite checkpoint byte oracle",
    design_ref="6/C05",
    shard=80, coq_jobs=8,
    timeout_quick=600, timeout_thorough=14400,
)
