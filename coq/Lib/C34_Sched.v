(* Small scheduler library used by C34 and C11 (DESIGN.md appendix A.7).
   A system is a state type, an action type, a protocol predicate `enabled` and a total `step`.
   `run` executes an action list (a schedule: any interleaving of any number of threads) and
   fails as soon as an action is not enabled; `invariant_rule` is the induction principle all
   "for every action list" theorems are proved with. *)
From Coq Require Import List Bool.
Import ListNotations.

Section Sched.
  Variables (St Act : Type).
  Variable enabled : St -> Act -> bool.
  Variable step : St -> Act -> St.

  Fixpoint run (s : St) (l : list Act) : option St :=
    match l with
    | [] => Some s
    | a :: r => if enabled s a then run (step s a) r else None
    end.

  Lemma run_app : forall l1 l2 s,
    run s (l1 ++ l2) = match run s l1 with Some s1 => run s1 l2 | None => None end.
  Proof.
    induction l1 as [|a l1 IH]; intros l2 s; cbn [run app]; [reflexivity|].
    destruct (enabled s a); [apply IH|reflexivity].
  Qed.

  Theorem invariant_rule : forall (I : St -> Prop) (s0 : St),
    I s0 ->
    (forall s a, I s -> enabled s a = true -> I (step s a)) ->
    forall l s', run s0 l = Some s' -> I s'.
  Proof.
    intros I s0 H0 Hstep l. revert s0 H0.
    induction l as [|a l IH]; intros s0 H0 s' Hrun; cbn [run] in Hrun.
    - injection Hrun as <-. exact H0.
    - destruct (enabled s0 a) eqn:E; [|discriminate].
      eapply IH; [|exact Hrun]. apply Hstep; assumption.
  Qed.
End Sched.

Arguments run {St Act} enabled step s l.
Arguments run_app {St Act} enabled step l1 l2 s.
Arguments invariant_rule {St Act} enabled step I s0 _ _ l s' _.
