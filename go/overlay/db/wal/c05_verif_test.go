package wal

// C05 driver.  WAL files come from (a) real SQLite running generated workloads and (b) a frame-by-frame
// builder written here (own checksum code, nothing shared with writer.go).  For every file, scan mode and
// resume offset the real CompactingFrameScanner + Writer run, and
//   - the frame list they select (page, commit, source frame index, page image) goes to the Coq model,
//   - the oracle lets real SQLite checkpoint the compacted WAL and the original into copies of the same
//     base database and compares the files byte for byte; it also checks, from the property text, that an
//     unterminated trailing transaction is an error, that no frame beyond the valid prefix is emitted and
//     that the emitted file is itself a valid WAL.

import (
	"bytes"
	"crypto/sha256"
	"database/sql"
	"encoding/binary"
	"encoding/json"
	"errors"
	"fmt"
	"io"
	"math/rand"
	"os"
	"path/filepath"
	"strings"
	"testing"

	_ "github.com/mattn/go-sqlite3"
)

// ---------------------------------------------------------------- own WAL reader / builder

type c05Slot struct {
	Pgno, Commit         uint32
	SaltOK, CkOK, DataOK bool
	Data                 []byte // nil when !DataOK
}

type c05Parsed struct {
	HdrOK    bool
	PS       int
	Magic    uint32
	Seq      uint32
	Salt     [2]uint32
	HdrCk    [2]uint32
	Slots    []c05Slot
	Trailing int // bytes after the last complete frame header that do not form a slot
}

func c05Sum(be bool, s0, s1 uint32, b []byte) (uint32, uint32) {
	for i := 0; i+8 <= len(b); i += 8 {
		var x, y uint32
		if be {
			x = uint32(b[i])<<24 | uint32(b[i+1])<<16 | uint32(b[i+2])<<8 | uint32(b[i+3])
			y = uint32(b[i+4])<<24 | uint32(b[i+5])<<16 | uint32(b[i+6])<<8 | uint32(b[i+7])
		} else {
			x = uint32(b[i+3])<<24 | uint32(b[i+2])<<16 | uint32(b[i+1])<<8 | uint32(b[i])
			y = uint32(b[i+7])<<24 | uint32(b[i+6])<<16 | uint32(b[i+5])<<8 | uint32(b[i+4])
		}
		s0 += x + s1
		s1 += y + s0
	}
	return s0, s1
}

func c05U32(b []byte) uint32 { return binary.BigEndian.Uint32(b) }

func c05Parse(b []byte) c05Parsed {
	var p c05Parsed
	if len(b) < 32 {
		return p
	}
	p.Magic = c05U32(b[0:])
	if p.Magic != 0x377f0682 && p.Magic != 0x377f0683 {
		return p
	}
	be := p.Magic == 0x377f0683
	if c05U32(b[4:]) != 3007000 {
		return p
	}
	p.PS = int(c05U32(b[8:]))
	p.Seq = c05U32(b[12:])
	p.Salt = [2]uint32{c05U32(b[16:]), c05U32(b[20:])}
	s0, s1 := c05Sum(be, 0, 0, b[:24])
	if s0 != c05U32(b[24:]) || s1 != c05U32(b[28:]) {
		return p
	}
	p.HdrCk = [2]uint32{s0, s1}
	if p.PS < 512 || p.PS > 65536 || p.PS&(p.PS-1) != 0 {
		return p
	}
	p.HdrOK = true
	pos := 32
	for pos+24 <= len(b) {
		h := b[pos : pos+24]
		sl := c05Slot{Pgno: c05U32(h[0:]), Commit: c05U32(h[4:])}
		sl.SaltOK = c05U32(h[8:]) == p.Salt[0] && c05U32(h[12:]) == p.Salt[1]
		if pos+24+p.PS <= len(b) {
			sl.DataOK = true
			sl.Data = b[pos+24 : pos+24+p.PS]
			s0, s1 = c05Sum(be, s0, s1, h[:8])
			s0, s1 = c05Sum(be, s0, s1, sl.Data)
			sl.CkOK = s0 == c05U32(h[16:]) && s1 == c05U32(h[20:])
			p.Slots = append(p.Slots, sl)
			pos += 24 + p.PS
		} else {
			p.Slots = append(p.Slots, sl)
			pos = len(b)
			break
		}
	}
	p.Trailing = len(b) - pos
	return p
}

type c05F struct {
	Pgno, Commit uint32
	Data         []byte
	Stale        int  // != 0: salts of an earlier generation (1: both differ, 2: only salt-1, 3: only salt-2)
	BadCk        bool // stored checksum is wrong
}

func c05Build(ps int, magic, seq uint32, salt [2]uint32, frames []c05F) []byte {
	be := magic == 0x377f0683
	b := make([]byte, 32, 32+len(frames)*(24+ps))
	binary.BigEndian.PutUint32(b[0:], magic)
	binary.BigEndian.PutUint32(b[4:], 3007000)
	binary.BigEndian.PutUint32(b[8:], uint32(ps))
	binary.BigEndian.PutUint32(b[12:], seq)
	binary.BigEndian.PutUint32(b[16:], salt[0])
	binary.BigEndian.PutUint32(b[20:], salt[1])
	s0, s1 := c05Sum(be, 0, 0, b[:24])
	binary.BigEndian.PutUint32(b[24:], s0)
	binary.BigEndian.PutUint32(b[28:], s1)
	for _, f := range frames {
		h := make([]byte, 24)
		binary.BigEndian.PutUint32(h[0:], f.Pgno)
		binary.BigEndian.PutUint32(h[4:], f.Commit)
		sa := salt
		switch f.Stale {
		case 1:
			sa = [2]uint32{salt[0] - 1, salt[1] ^ 0x5a5a5a5a}
		case 2:
			sa = [2]uint32{salt[0] - 1, salt[1]}
		case 3:
			sa = [2]uint32{salt[0], salt[1] ^ 0x5a5a5a5a}
		}
		binary.BigEndian.PutUint32(h[8:], sa[0])
		binary.BigEndian.PutUint32(h[12:], sa[1])
		s0, s1 = c05Sum(be, s0, s1, h[:8])
		s0, s1 = c05Sum(be, s0, s1, f.Data)
		c0, c1 := s0, s1
		if f.BadCk {
			c1 ^= 0x10
		}
		binary.BigEndian.PutUint32(h[16:], c0)
		binary.BigEndian.PutUint32(h[20:], c1)
		b = append(b, h...)
		b = append(b, f.Data...)
	}
	return b
}

// ---------------------------------------------------------------- real SQLite as the oracle

var c05Dir string
var c05Seq int

func c05TmpDB() string {
	c05Seq++
	d := filepath.Join(c05Dir, fmt.Sprintf("d%d", c05Seq))
	os.MkdirAll(d, 0o755)
	return filepath.Join(d, "x.db")
}

// c05Checkpoint lets SQLite recover wal next to a copy of base and checkpoint it; returns the database file.
func c05Checkpoint(base, wal []byte) ([]byte, error) {
	p := c05TmpDB()
	defer os.RemoveAll(filepath.Dir(p))
	if err := os.WriteFile(p, base, 0o644); err != nil {
		return nil, err
	}
	if err := os.WriteFile(p+"-wal", wal, 0o644); err != nil {
		return nil, err
	}
	db, err := sql.Open("sqlite3", "file:"+p)
	if err != nil {
		return nil, err
	}
	db.SetMaxOpenConns(1)
	if _, err := db.Exec("PRAGMA synchronous=OFF"); err != nil {
		db.Close()
		return nil, err
	}
	var busy, nlog, nck int
	if err := db.QueryRow("PRAGMA wal_checkpoint(TRUNCATE)").Scan(&busy, &nlog, &nck); err != nil {
		db.Close()
		return nil, err
	}
	if err := db.Close(); err != nil {
		return nil, err
	}
	if busy != 0 {
		return nil, fmt.Errorf("checkpoint busy")
	}
	return os.ReadFile(p)
}

// ---------------------------------------------------------------- inputs

type c05Input struct {
	Kind string `json:"kind"` // "synth" | "sqlite"
	Seed int64  `json:"seed"` // regenerates the WAL file and its base database
	K    int64  `json:"k"`
	Full bool   `json:"full"`
}

type c05WAL struct {
	Kind      string
	Seed      int64
	Base      []byte
	WAL       []byte
	Tags      []string
	SQLiteGen bool
}

var c05Page1 = map[int][]byte{}

// c05Template returns a valid first page (empty schema, WAL mode) for the page size, made by SQLite.
func c05Template(ps int) []byte {
	if b, ok := c05Page1[ps]; ok {
		return b
	}
	p := c05TmpDB()
	defer os.RemoveAll(filepath.Dir(p))
	db, err := sql.Open("sqlite3", "file:"+p)
	if err != nil {
		panic(err)
	}
	db.SetMaxOpenConns(1)
	for _, q := range []string{fmt.Sprintf("PRAGMA page_size=%d", ps), "PRAGMA journal_mode=WAL", "PRAGMA user_version=7"} {
		if _, err := db.Exec(q); err != nil {
			panic(err)
		}
	}
	var a, b, c int
	if err := db.QueryRow("PRAGMA wal_checkpoint(TRUNCATE)").Scan(&a, &b, &c); err != nil {
		panic(err)
	}
	db.Close()
	f, err := os.ReadFile(p)
	if err != nil || len(f) < ps {
		panic(fmt.Sprintf("template: %v len=%d", err, len(f)))
	}
	c05Page1[ps] = f[:ps]
	return f[:ps]
}

func c05SynthWAL(seed int64) c05WAL {
	rng := rand.New(rand.NewSource(seed))
	ps := []int{512, 512, 512, 1024, 4096}[rng.Intn(5)]
	tmpl := c05Template(ps)
	page1 := func() []byte {
		b := append([]byte{}, tmpl...)
		binary.BigEndian.PutUint32(b[60:], uint32(rng.Intn(5)+1))
		return b
	}
	pool := make([][]byte, 6)
	for i := range pool {
		pool[i] = make([]byte, ps)
		if i > 0 { // pool[0] is the all-zero page
			rng.Read(pool[i])
		}
	}
	other := func() []byte {
		if rng.Intn(3) == 0 {
			return pool[rng.Intn(len(pool))]
		}
		b := make([]byte, ps)
		rng.Read(b)
		return b
	}
	w := c05WAL{Kind: "synth", Seed: seed}
	nBase := 1 + rng.Intn(8)
	w.Base = append(w.Base, page1()...)
	for i := 1; i < nBase; i++ {
		w.Base = append(w.Base, other()...)
	}
	maxPg := 3 + rng.Intn(8)
	n := rng.Intn(15)
	var fs []c05F
	dbsz := uint32(nBase)
	for i := 0; i < n; i++ {
		pg := uint32(1 + rng.Intn(maxPg))
		if rng.Intn(4) == 0 && len(fs) > 0 {
			pg = fs[rng.Intn(len(fs))].Pgno // overwrite on purpose
		}
		if rng.Intn(60) == 0 {
			pg = 0
			w.Tags = append(w.Tags, "zero-pgno")
		}
		f := c05F{Pgno: pg}
		if pg == 1 {
			f.Data = page1()
		} else {
			f.Data = other()
		}
		if rng.Intn(3) == 0 || (i == n-1 && rng.Intn(4) != 0) {
			switch rng.Intn(4) {
			case 0: // grow
				dbsz += uint32(1 + rng.Intn(4))
			case 1: // shrink
				if dbsz > 1 {
					dbsz = 1 + uint32(rng.Intn(int(dbsz)))
				}
			}
			if dbsz > 14 {
				dbsz = 14
			}
			f.Commit = dbsz
		}
		fs = append(fs, f)
	}
	// invalid tails
	switch rng.Intn(6) {
	case 0: // frames of an earlier generation behind the live ones
		m := 1 + rng.Intn(4)
		kind := 1 + rng.Intn(3)
		for i := 0; i < m; i++ {
			f := c05F{Pgno: uint32(1 + rng.Intn(maxPg)), Data: other(), Stale: kind}
			if rng.Intn(2) == 0 {
				f.Commit = uint32(1 + rng.Intn(12))
			}
			fs = append(fs, f)
		}
		w.Tags = append(w.Tags, "stale-salt-tail")
	case 1: // a wrong checksum somewhere (same salt): full scan must stop there
		if len(fs) > 0 {
			fs[rng.Intn(len(fs))].BadCk = true
			w.Tags = append(w.Tags, "bad-checksum")
		}
	}
	magic := uint32(0x377f0682)
	if rng.Intn(4) == 0 {
		magic = 0x377f0683
		w.Tags = append(w.Tags, "be-checksum")
	}
	salt := [2]uint32{rng.Uint32(), rng.Uint32()}
	w.WAL = c05Build(ps, magic, uint32(rng.Intn(5)), salt, fs)
	switch rng.Intn(8) {
	case 0: // cut inside the last frame
		if len(fs) > 0 {
			cut := 1 + rng.Intn(24+ps-1)
			switch rng.Intn(4) { // boundary cuts on purpose
			case 0:
				cut = ps // the frame header is complete, not one byte of the page
				w.Tags = append(w.Tags, "truncated-at-header-end")
			case 1:
				cut = ps - 1
			}
			w.WAL = w.WAL[:len(w.WAL)-cut]
			w.Tags = append(w.Tags, "truncated")
		}
	case 1: // garbage behind the last frame
		g := make([]byte, 1+rng.Intn(2*(24+ps)))
		rng.Read(g)
		w.WAL = append(w.WAL, g...)
		w.Tags = append(w.Tags, "trailing-garbage")
	case 2: // damaged header
		if rng.Intn(3) == 0 {
			switch rng.Intn(3) {
			case 0:
				w.WAL = w.WAL[:rng.Intn(32)]
			case 1:
				w.WAL[25] ^= 0xff
			case 2:
				w.WAL[3] ^= 0x40
			}
			w.Tags = append(w.Tags, "bad-header")
		}
	}
	w.Tags = append(w.Tags, fmt.Sprintf("synth-ps=%d", ps))
	return w
}

// c05CorpusWAL: hand-picked files, run before the generated ones.
func c05CorpusWAL(i int64) c05WAL {
	const ps = 512
	rng := rand.New(rand.NewSource(77 + i))
	tmpl := c05Template(ps)
	pg := func() []byte {
		b := make([]byte, ps)
		rng.Read(b)
		return b
	}
	w := c05WAL{Kind: "corpus", Seed: i}
	w.Base = append(append(append([]byte{}, tmpl...), pg()...), pg()...)
	salt := [2]uint32{0x01020304, 0x0a0b0c0d}
	switch i {
	case 0:
		// tx1 commits page 2; tx2 rewrites page 2 and its commit frame is cut right behind the frame header
		b := c05Build(ps, 0x377f0682, 0, salt, []c05F{{Pgno: 2, Commit: 3, Data: pg()}, {Pgno: 2, Data: pg()}, {Pgno: 3, Commit: 3, Data: pg()}})
		w.WAL = b[:len(b)-ps]
		w.Tags = []string{"corpus:commit-frame-cut-at-header-end", "truncated", "truncated-at-header-end"}
	case 1:
		// overwritten pages, growth to 6 pages, shrink to 2, then frames of an earlier generation
		w.WAL = c05Build(ps, 0x377f0682, 1, salt, []c05F{{Pgno: 2, Data: pg()}, {Pgno: 5, Data: pg()}, {Pgno: 6, Commit: 6, Data: pg()},
			{Pgno: 2, Data: pg()}, {Pgno: 2, Commit: 2, Data: pg()}, {Pgno: 4, Commit: 9, Data: pg(), Stale: 1}, {Pgno: 2, Data: pg(), Stale: 1}})
		w.Tags = []string{"corpus:grow-shrink-stale-tail", "stale-salt-tail"}
	default:
		w.WAL = c05Build(ps, 0x377f0683, 2, salt, nil)
		w.Tags = []string{"corpus:header-only"}
	}
	return w
}

func c05MustExec(db *sql.DB, q string, args ...any) {
	if _, err := db.Exec(q, args...); err != nil {
		panic(fmt.Sprintf("%s: %v", q, err))
	}
}

func c05SQLiteWAL(seed int64) c05WAL {
	rng := rand.New(rand.NewSource(seed))
	sizes := []int{512, 1024, 2048, 4096, 8192, 16384, 32768, 65536}
	ps := sizes[rng.Intn(len(sizes))]
	w := c05WAL{Kind: "sqlite", Seed: seed, SQLiteGen: true}
	p := c05TmpDB()
	defer os.RemoveAll(filepath.Dir(p))
	db, err := sql.Open("sqlite3", "file:"+p)
	if err != nil {
		panic(err)
	}
	defer db.Close()
	db.SetMaxOpenConns(1)
	c05MustExec(db, fmt.Sprintf("PRAGMA page_size=%d", ps))
	c05MustExec(db, "PRAGMA journal_mode=WAL")
	c05MustExec(db, "PRAGMA wal_autocheckpoint=0")
	c05MustExec(db, "PRAGMA synchronous=OFF")
	scale := 1
	if ps >= 16384 {
		scale = 3
	}
	blob := func() []byte {
		b := make([]byte, ps/8+rng.Intn(ps*3/2))
		rng.Read(b)
		return b
	}
	ntab := 0
	live := []int{}
	newTable := func() {
		c05MustExec(db, fmt.Sprintf("CREATE TABLE t%d (id INTEGER PRIMARY KEY, v BLOB)", ntab))
		live = append(live, ntab)
		ntab++
	}
	insert := func(n int) {
		t := live[rng.Intn(len(live))]
		for i := 0; i < n; i++ {
			c05MustExec(db, fmt.Sprintf("INSERT INTO t%d(v) VALUES(?)", t), blob())
		}
	}
	ckpt := func(mode string) {
		var a, b, c int
		if err := db.QueryRow("PRAGMA wal_checkpoint("+mode+")").Scan(&a, &b, &c); err != nil || a != 0 {
			panic(fmt.Sprintf("checkpoint %s: %v busy=%d", mode, err, a))
		}
	}
	work := func(ntx int) {
		for i := 0; i < ntx; i++ {
			if len(live) == 0 {
				newTable()
			}
			switch r := rng.Intn(20); {
			case r < 6:
				insert((1+rng.Intn(6))/scale + 1)
			case r < 10: // rewrite pages already in the log
				t := live[rng.Intn(len(live))]
				c05MustExec(db, fmt.Sprintf("UPDATE t%d SET v=? WHERE id %% %d = 0", t, 1+rng.Intn(3)), blob())
			case r < 12:
				t := live[rng.Intn(len(live))]
				c05MustExec(db, fmt.Sprintf("DELETE FROM t%d WHERE id %% 2 = %d", t, rng.Intn(2)))
			case r < 13:
				newTable()
			case r < 15:
				if len(live) > 1 {
					j := rng.Intn(len(live))
					c05MustExec(db, fmt.Sprintf("DROP TABLE t%d", live[j]))
					live = append(live[:j], live[j+1:]...)
					w.Tags = append(w.Tags, "drop")
				}
			case r < 17:
				c05MustExec(db, "VACUUM")
				w.Tags = append(w.Tags, "vacuum")
			case r < 19: // several statements in one transaction
				c05MustExec(db, "BEGIN")
				insert(1 + rng.Intn(3))
				t := live[rng.Intn(len(live))]
				c05MustExec(db, fmt.Sprintf("UPDATE t%d SET v=? WHERE id = (SELECT max(id) FROM t%d)", t, t), blob())
				c05MustExec(db, "COMMIT")
			default: // a transaction that spills to the log and is rolled back
				c05MustExec(db, "PRAGMA cache_size=2")
				c05MustExec(db, "BEGIN")
				insert(40 / scale)
				c05MustExec(db, "ROLLBACK")
				c05MustExec(db, "PRAGMA cache_size=-2000")
				w.Tags = append(w.Tags, "spill-rollback")
			}
		}
	}
	newTable()
	insert(4/scale + 1)
	ckpt("TRUNCATE")
	if rng.Intn(3) == 0 {
		// leave a longer earlier generation in the file: FULL backfills everything without
		// truncating, the next writer restarts the log with new salts
		work(6 + rng.Intn(6))
		ckpt("FULL")
		w.Tags = append(w.Tags, "earlier-generation")
	}
	w.Base, err = os.ReadFile(p)
	if err != nil {
		panic(err)
	}
	work(2 + rng.Intn(10)/scale)
	w.WAL, err = os.ReadFile(p + "-wal")
	if err != nil {
		panic(err)
	}
	w.Tags = append(w.Tags, fmt.Sprintf("sqlite-ps=%d", ps))
	return w
}

// ---------------------------------------------------------------- one case

type c05Ids struct{ m map[[32]byte]uint64 }

func (t *c05Ids) id(b []byte) uint64 {
	zero := true
	for _, x := range b {
		if x != 0 {
			zero = false
			break
		}
	}
	if zero {
		return 0
	}
	h := sha256.Sum256(b)
	if v, ok := t.m[h]; ok {
		return v
	}
	v := uint64(len(t.m) + 1)
	t.m[h] = v
	return v
}

func (t *c05Ids) pages(db []byte, ps int) []string {
	var out []string
	for i := 0; i+ps <= len(db); i += ps {
		out = append(out, coqN(t.id(db[i:i+ps])))
	}
	return out
}

func c05Frame(pg, cm uint32, ct uint64) string {
	return fmt.Sprintf("{| pg := %s; cm := %s; ct := %s |}", coqN(uint64(pg)), coqN(uint64(cm)), coqN(ct))
}

func c05Run(w *vWriter, wf c05WAL, k int64, full bool) {
	in := c05Input{Kind: wf.Kind, Seed: wf.Seed, K: k, Full: full}
	P := c05Parse(wf.WAL)
	ids := &c05Ids{m: map[[32]byte]uint64{}}
	tags := append([]string{}, wf.Tags...)
	if full {
		tags = append(tags, "mode=full")
	} else {
		tags = append(tags, "mode=fast")
	}
	sum := sha256.Sum256(wf.WAL)
	key := fmt.Sprintf("%x/k=%d/full=%v", sum[:8], k, full)

	// ---- what the specification says about this file (own reader, property text)
	validN := 0
	for _, s := range P.Slots {
		if !(s.SaltOK && s.CkOK && s.DataOK) {
			break
		}
		validN++
	}
	trusted := true // every salt-matching frame before the first salt mismatch is checksum-valid and complete
	for _, s := range P.Slots {
		if !s.SaltOK {
			break
		}
		if !s.CkOK || !s.DataOK {
			trusted = false
		}
	}
	boundary := k == 0 || (k <= int64(validN) && P.Slots[k-1].Commit != 0)
	claimed := P.HdrOK && boundary && (full || trusted)
	if P.HdrOK && !full && !trusted {
		tags = append(tags, "fast-on-untrusted(tie-only)")
	}
	if P.HdrOK && !boundary {
		tags = append(tags, "k-not-at-boundary(tie-only)")
	}

	// ---- the real scanner and writer
	resKind, resCoq := "", ""
	var compacted []byte
	var outIdx []int64
	oracle, sig := "", ""
	fail := func(s, msg string) {
		if oracle == "" {
			oracle, sig = msg, s
		}
	}
	s, err := NewCompactingFrameScanner(bytes.NewReader(wf.WAL), k, full)
	switch {
	case err == nil:
	case errors.Is(err, ErrOpenTransaction):
		resKind, resCoq = "opentx", "ErrOpenTx"
	case errors.Is(err, ErrZeroPageNumber):
		resKind, resCoq = "zeropage", "ErrZeroPage"
	case !P.HdrOK:
		resKind, resCoq = "header", "ErrHeader"
	default:
		resKind, resCoq = "other", "ErrHeader"
		fail("C05:unexpected-scanner-error", "scanner failed with "+err.Error())
	}
	if err == nil && !P.HdrOK {
		fail("C05:bad-header-accepted", "scanner accepted a WAL whose header is invalid")
		w.Emit(VCase{Input: in, Key: key, Tags: tags, OracleFail: oracle, Sig: sig})
		return
	}
	if err == nil {
		fsz := int64(24 + P.PS)
		type sel struct {
			pg, cm uint32
			idx    int64
		}
		var sels []sel
		for _, cf := range s.frames {
			if (cf.Offset-32)%fsz != 0 {
				fail("C05:misaligned-offset", fmt.Sprintf("selected frame at offset %d", cf.Offset))
			}
			sels = append(sels, sel{cf.Pgno, cf.Commit, (cf.Offset - 32) / fsz})
		}
		viaBytes, errB := s.Bytes()
		var buf bytes.Buffer
		var n int64
		ww, errW := NewWriter(s)
		if errW == nil {
			n, errW = ww.WriteTo(&buf)
		}
		switch {
		case errW == nil:
			compacted = buf.Bytes()
			resKind = "ok"
			if n != int64(len(compacted)) {
				fail("C05:writer-count", fmt.Sprintf("WriteTo returned %d for %d bytes", n, len(compacted)))
			}
			if errB != nil || !bytes.Equal(viaBytes, compacted) {
				fail("C05:bytes-differs-from-writer", fmt.Sprintf("Bytes() (err=%v) and Writer output differ", errB))
			}
			// the emitted file must itself be a valid WAL with the same header fields and these frames
			Q := c05Parse(compacted)
			if !Q.HdrOK || Q.PS != P.PS || Q.Magic != P.Magic || Q.Seq != P.Seq || Q.Salt != P.Salt || Q.Trailing != 0 || len(Q.Slots) != len(sels) {
				fail("C05:writer-output-invalid", "emitted WAL: header differs from the original's or frame count wrong")
			}
			var items []string
			for i, se := range sels {
				outIdx = append(outIdx, se.idx)
				ct := uint64(999999)
				if i < len(Q.Slots) {
					q := Q.Slots[i]
					if !(q.SaltOK && q.CkOK && q.DataOK) {
						fail("C05:writer-output-invalid", fmt.Sprintf("emitted frame %d has wrong salt or checksum", i))
					}
					if q.Pgno != se.pg || q.Commit != se.cm {
						fail("C05:writer-output-invalid", fmt.Sprintf("emitted frame %d header differs from the selected frame", i))
					}
					if q.DataOK {
						ct = ids.id(q.Data)
					}
				}
				items = append(items, coqPair(coqNat(int(se.idx)), c05Frame(se.pg, se.cm, ct)))
			}
			resCoq = "(Ok " + coqList(items) + ")"
		case errors.Is(errW, io.ErrUnexpectedEOF) || errors.Is(errW, io.EOF):
			resKind, resCoq = "short", "ErrShortRead"
		default:
			resKind, resCoq = "other", "ErrHeader"
			fail("C05:unexpected-writer-error", "writer failed with "+errW.Error())
		}
	}
	tags = append(tags, "result="+resKind)

	// ---- model case
	var slots []string
	for i, sl := range P.Slots {
		ct := uint64(900000 + i)
		if sl.DataOK {
			ct = ids.id(sl.Data)
		}
		slots = append(slots, fmt.Sprintf("{| rf := %s; salt_ok := %s; ck_ok := %s; data_ok := %s |}",
			c05Frame(sl.Pgno, sl.Commit, ct), coqBool(sl.SaltOK), coqBool(sl.CkOK), coqBool(sl.DataOK)))
	}
	base := wf.Base
	final := "None"

	// ---- the property, on the real code
	if claimed {
		X := P.Slots[k:validN]
		hasZero := false
		for _, sl := range X {
			if sl.Pgno == 0 {
				hasZero = true
			}
		}
		open := len(X) > 0 && X[len(X)-1].Commit == 0
		switch {
		case hasZero:
			if resKind == "ok" {
				fail("C05:zero-page-accepted", "a frame with page number 0 was compacted")
			}
		case open:
			if resKind != "opentx" {
				fail("C05:open-tx-not-reported", fmt.Sprintf("valid prefix ends inside a transaction, result %s", resKind))
			}
		default:
			if resKind != "ok" {
				fail("C05:spurious-error", fmt.Sprintf("valid prefix from %d ends committed, result %s", k, resKind))
			}
		}
		if resKind == "ok" {
			for _, ix := range outIdx {
				if ix < k || ix >= int64(validN) {
					fail("C05:frame-beyond-valid-prefix", fmt.Sprintf("emitted source frame %d, valid range [%d,%d)", ix, k, validN))
				}
			}
			// committed part of the valid prefix
			nc := 0
			for i := 0; i < validN; i++ {
				if P.Slots[i].Commit != 0 {
					nc = i + 1
				}
			}
			fsz := 24 + P.PS
			var ref, got []byte
			var e1, e2 error
			if k == 0 {
				ref, e1 = c05Checkpoint(wf.Base, wf.WAL) // the original file as it is
				got, e2 = c05Checkpoint(wf.Base, compacted)
			} else if wf.SQLiteGen {
				// resume form: the first k frames are already in the database
				base, e1 = c05Checkpoint(wf.Base, wf.WAL[:32+int(k)*fsz])
				if e1 == nil {
					ref, e1 = c05Checkpoint(wf.Base, wf.WAL)
					got, e2 = c05Checkpoint(base, compacted)
				}
				tags = append(tags, "oracle=resume-chain")
			} else {
				var fs []c05F
				for i := int(k); i < nc; i++ {
					fs = append(fs, c05F{Pgno: P.Slots[i].Pgno, Commit: P.Slots[i].Commit, Data: P.Slots[i].Data})
				}
				ref, e1 = c05Checkpoint(wf.Base, c05Build(P.PS, P.Magic, P.Seq, P.Salt, fs))
				got, e2 = c05Checkpoint(wf.Base, compacted)
				tags = append(tags, "oracle=same-base-from-k")
			}
			switch {
			case e1 != nil:
				w.Emit(VCase{Input: in, Key: key, Tags: tags, Inconcl: "SQLite refused the reference: " + e1.Error()})
				return
			case e2 != nil:
				fail("C05:sqlite-rejects-compacted", "SQLite could not checkpoint the compacted WAL: "+e2.Error())
			case !bytes.Equal(ref, got):
				d := 0
				for d < len(ref) && d < len(got) && ref[d] == got[d] {
					d++
				}
				fail("C05:checkpointed-db-differs", fmt.Sprintf("database after compacted WAL differs from database after original (sizes %d/%d, first difference at byte %d = page %d)", len(got), len(ref), d, d/P.PS+1))
			}
			if e2 == nil {
				final = "(Some " + coqList(ids.pages(got, P.PS)) + ")"
			}
		}
	}

	// ---- a file cut inside its last frame (and otherwise clean) read in salt-only mode: the cut frame
	// passes the salt test, so it is either the open end of a transaction or a selected frame whose
	// page cannot be delivered; both must surface as an error, never as a shorter "successful" WAL
	if P.HdrOK && !full && boundary {
		cutAt := -1
		clean := true
		for i, sl := range P.Slots {
			if !sl.SaltOK {
				break
			}
			if !sl.DataOK {
				cutAt = i
				break
			}
			if !sl.CkOK {
				clean = false
			}
		}
		if clean && cutAt >= 0 && int64(cutAt) >= k && resKind == "ok" {
			// the property-level statement of this failure takes precedence over the consistency checks above
			oracle, sig = fmt.Sprintf("frame %d has a complete header and an incomplete page; compaction from %d reported success and emitted %d of %d selected frames", cutAt, k, len(c05Parse(compacted).Slots), len(outIdx)), "C05:truncated-frame-silently-dropped"
		}
	}

	// ---- non-trivial rule: >= 2 transactions, a page written twice, and a size change or an invalid tail
	ntx, twice, sizeChange := 0, false, false
	seen := map[uint32]bool{}
	lastSz := uint32(0)
	if P.PS > 0 {
		lastSz = uint32(len(wf.Base) / P.PS)
	}
	for i := 0; i < validN; i++ {
		sl := P.Slots[i]
		if seen[sl.Pgno] {
			twice = true
		}
		seen[sl.Pgno] = true
		if sl.Commit != 0 {
			ntx++
			if sl.Commit != lastSz {
				sizeChange = true
			}
			lastSz = sl.Commit
		}
	}
	invalidTail := validN < len(P.Slots) || P.Trailing > 0
	if sizeChange {
		tags = append(tags, "size-change")
	}
	if invalidTail {
		tags = append(tags, "invalid-tail")
	}
	if k > 0 {
		tags = append(tags, "k>0")
	}
	c := VCase{Input: in, Key: key, Tags: tags, OracleFail: oracle, Sig: sig,
		Nontrivial: claimed && ntx >= 2 && twice && (sizeChange || invalidTail)}
	var bl []string
	if P.PS > 0 {
		bl = ids.pages(base, P.PS)
	}
	c.Coq = fmt.Sprintf("{| c_hdr_ok := %s; c_full := %s; c_k := %s; c_wal := %s; c_res := %s; c_base := %s; c_final := %s |}",
		coqBool(P.HdrOK), coqBool(full), coqNat(int(k)), coqList(slots), resCoq, coqList(bl), final)
	w.Emit(c)
}

// c05All runs one WAL file in both modes and at several resume offsets.
func c05All(w *vWriter, wf c05WAL, rng *rand.Rand) {
	P := c05Parse(wf.WAL)
	c05Run(w, wf, 0, true)
	c05Run(w, wf, 0, false)
	if !P.HdrOK {
		return
	}
	var bounds []int64
	for i, s := range P.Slots {
		if !(s.SaltOK && s.CkOK && s.DataOK) {
			break
		}
		if s.Commit != 0 {
			bounds = append(bounds, int64(i+1))
		}
	}
	rng.Shuffle(len(bounds), func(i, j int) { bounds[i], bounds[j] = bounds[j], bounds[i] })
	max := 3
	if vTier() == "thorough" {
		max = 8
	}
	for i, k := range bounds {
		if i >= max {
			break
		}
		c05Run(w, wf, k, false)
	}
	if n := len(P.Slots); n > 0 && rng.Intn(3) == 0 {
		c05Run(w, wf, int64(rng.Intn(n+2)), false) // any offset: model tie only unless it is a boundary
	}
}

func TestVerif_C05(t *testing.T) {
	w := vOpen()
	defer w.Close()
	c05Dir = t.TempDir()
	gen := func(kind string, seed int64) c05WAL {
		if kind == "sqlite" {
			return c05SQLiteWAL(seed)
		}
		if kind == "corpus" {
			return c05CorpusWAL(seed)
		}
		return c05SynthWAL(seed)
	}
	if raw := vReplayInput(); raw != nil {
		var in c05Input
		if err := json.Unmarshal(raw, &in); err != nil {
			t.Fatal(err)
		}
		c05Run(w, gen(in.Kind, in.Seed), in.K, in.Full)
		return
	}
	rng := vRand()
	base := vSeed() * 1000003
	nSynth, nSQLite := vN(130, 4000), vN(22, 800)
	if s := os.Getenv("VERIF_N"); s != "" && strings.TrimSpace(s) != "" {
		nSQLite = nSynth / 5
	}
	for i := int64(0); i < 3; i++ {
		c05All(w, gen("corpus", i), rng)
	}
	// SQLite-made files (large cases) are spread evenly among the synthetic ones
	every := 1
	if nSQLite > 0 {
		every = nSynth/nSQLite + 1
	}
	js, jq := 0, 0
	for js < nSynth || jq < nSQLite {
		if jq < nSQLite && (js >= nSynth || (js+jq)%(every+1) == 0) {
			c05All(w, gen("sqlite", base+int64(jq)), rng)
			jq++
		} else {
			c05All(w, gen("synth", base+int64(js)), rng)
			js++
		}
	}
}
