package snapshot

// C07 driver: reaping is crash-safe.
//
// Generated stores with real SQLite data (older snapshots, the newest full with its own WALs,
// incrementals with 1..m WALs) -> the REAL plan built by reapInternal -> the plan is stepped
// through the plan package's Visitor seam with the real Executor, a crash image (copy of the
// store directory) being taken after every micro-step of Model/C07.v (between operations,
// between the WALs of the checkpoint operation, and -- synthesised on a copy -- inside the
// non-atomic operations) -> the image is put back and the real NewStore (check()) is run on
// it; optionally a second crash is taken during that recovery.
//   oracle : the store opens, its newest snapshot has the (index, term) of the original
//            newest and restores to the same rows as the original did (and as the un-crashed
//            real Reap() does)
//   model  : every crash image, read through the abstraction function c07Abs, equals the
//            model state at that micro-step; the final observables equal the model's.

import (
	"bytes"
	"crypto/sha256"
	"encoding/binary"
	"encoding/hex"
	"encoding/json"
	"fmt"
	"math/rand"
	"os"
	"path/filepath"
	"sort"
	"strings"
	"testing"

	"github.com/hashicorp/raft"
	"github.com/rqlite/rqlite/v10/db"
	"github.com/rqlite/rqlite/v10/internal/fsutil"
	"github.com/rqlite/rqlite/v10/internal/rsum"
	"github.com/rqlite/rqlite/v10/snapshot/plan"
	"github.com/rqlite/rqlite/v10/snapshot/sidecar"
)

// ---------------------------------------------------------------- input

type c07Old struct {
	Inc  bool `json:"inc"`  // an older incremental (WALs only) instead of an older full
	Wals int  `json:"wals"` // WAL files in that directory
}

type c07Input struct {
	Older    []c07Old `json:"older"`
	FullWals int      `json:"full_wals"`
	Incs     []int    `json:"incs"` // WAL files per incremental
	Seed     int64    `json:"seed"` // data seed
	Crash    []int    `json:"crash"` // image numbers: reap run, then recovery runs
}

func (in c07Input) shapeKey() string {
	o := ""
	for _, x := range in.Older {
		if x.Inc {
			o += fmt.Sprintf("i%d", x.Wals)
		} else {
			o += fmt.Sprintf("f%d", x.Wals)
		}
	}
	return fmt.Sprintf("older=%s full+%d incs=%v seed=%d", o, in.FullWals, in.Incs, in.Seed)
}

// ---------------------------------------------------------------- small helpers

func c07Exists(p string) bool { _, err := os.Lstat(p); return err == nil }

// c07HasWAL: a WAL with content sits at p.  VerifyDB (db.Open + integrity check) leaves a
// zero-length data.db-wal and a data.db-shm behind; an empty WAL is no WAL for SQLite and is
// read as "absent" by the abstraction function.
func c07HasWAL(p string) bool { fi, err := os.Lstat(p); return err == nil && fi.Size() > 0 }

// c07CopyDir makes dst an exact copy of the directory tree src (a crash image, or putting one back).
func c07CopyDir(src, dst string) error {
	os.RemoveAll(dst)
	return filepath.Walk(src, func(p string, fi os.FileInfo, err error) error {
		if err != nil {
			return err
		}
		rel, _ := filepath.Rel(src, p)
		to := filepath.Join(dst, rel)
		if fi.IsDir() {
			return os.MkdirAll(to, 0755)
		}
		b, err := os.ReadFile(p)
		if err != nil {
			return err
		}
		return os.WriteFile(to, b, 0644)
	})
}

// c07TempDir: scratch space for stores and images, on tmpfs when there is one (the real
// code fsyncs a lot), removed when the test ends.
func c07TempDir(t *testing.T) string {
	if fi, err := os.Stat("/dev/shm"); err == nil && fi.IsDir() {
		if d, err := os.MkdirTemp("/dev/shm", "verif-c07-"); err == nil {
			t.Cleanup(func() { os.RemoveAll(d) })
			return d
		}
	}
	return t.TempDir()
}

func c07Hash(b []byte) string { h := sha256.Sum256(b); return hex.EncodeToString(h[:8]) }

func c07WriteWithCRC(path string, data []byte) error {
	if err := os.WriteFile(path, data, 0644); err != nil {
		return err
	}
	sum, err := rsum.CRC32(path)
	if err != nil {
		return err
	}
	return sidecar.WriteFile(path+crcSuffix, sum)
}

type c07Frame struct {
	Pg   int // 0-based page number
	Data []byte
}

// c07ParseWAL returns the committed frames of a WAL file in log order and the database size
// (pages) recorded by the last commit frame.
func c07ParseWAL(b []byte) (frames []c07Frame, size int, pageSize int, err error) {
	if len(b) < 32 {
		return nil, 0, 0, fmt.Errorf("short WAL")
	}
	pageSize = int(binary.BigEndian.Uint32(b[8:12]))
	s1, s2 := binary.BigEndian.Uint32(b[16:20]), binary.BigEndian.Uint32(b[20:24])
	var pend []c07Frame
	for off := 32; off+24+pageSize <= len(b); off += 24 + pageSize {
		h := b[off : off+24]
		if binary.BigEndian.Uint32(h[8:12]) != s1 || binary.BigEndian.Uint32(h[12:16]) != s2 {
			break
		}
		pg := int(binary.BigEndian.Uint32(h[0:4]))
		commit := int(binary.BigEndian.Uint32(h[4:8]))
		pend = append(pend, c07Frame{Pg: pg - 1, Data: b[off+24 : off+24+pageSize]})
		if commit != 0 {
			frames = append(frames, pend...)
			pend = nil
			size = commit
		}
	}
	return frames, size, pageSize, nil
}

// c07ApplyFrames writes the first j frames into the database file (page writes of a checkpoint).
func c07ApplyFrames(dbPath string, frames []c07Frame, j int) error {
	f, err := os.OpenFile(dbPath, os.O_RDWR, 0644)
	if err != nil {
		return err
	}
	defer f.Close()
	for _, fr := range frames[:j] {
		if _, err := f.WriteAt(fr.Data, int64(fr.Pg)*int64(len(fr.Data))); err != nil {
			return err
		}
	}
	return nil
}

// ---------------------------------------------------------------- data generation

type c07Stage struct {
	DB  []byte // database file after this stage (checkpointed)
	WAL []byte // the WAL that leads from the previous stage to this one
}

func c07RandText(rng *rand.Rand) string {
	n := 5 + rng.Intn(40)
	if rng.Intn(4) == 0 {
		n = 1500 + rng.Intn(4000) // spills over several pages
	}
	const al = "abcdefghijklmnopqrstuvwxyz0123456789"
	b := make([]byte, n)
	for i := range b {
		b[i] = al[rng.Intn(len(al))]
	}
	return string(b)
}

func c07Exec(d *db.DB, q string) error {
	r, err := d.ExecuteStringStmt(q)
	if err != nil {
		return err
	}
	for _, x := range r {
		if e := x.GetError(); e != "" {
			return fmt.Errorf("%s: %s", q, e)
		}
	}
	return nil
}

// c07GenStages produces n+1 successive states of one database: stage 0 is the initial file,
// stage i>0 carries the WAL that turns stage i-1 into stage i.
func c07GenStages(dir string, rng *rand.Rand, n int) ([]c07Stage, error) {
	path := filepath.Join(dir, "gen.db")
	d, err := db.Open(path, false, true)
	if err != nil {
		return nil, err
	}
	defer d.Close()
	if err := c07Exec(d, "CREATE TABLE t (id INTEGER PRIMARY KEY, v TEXT)"); err != nil {
		return nil, err
	}
	if err := c07Exec(d, "CREATE TABLE u (k TEXT, n INTEGER)"); err != nil {
		return nil, err
	}
	next := 1
	mutate := func() error {
		ntx := 1 + rng.Intn(3)
		for i := 0; i < ntx; i++ {
			if err := c07Exec(d, fmt.Sprintf("INSERT INTO t(id, v) VALUES(%d, '%s')", next, c07RandText(rng))); err != nil {
				return err
			}
			next++
			switch rng.Intn(4) {
			case 0:
				if err := c07Exec(d, fmt.Sprintf("UPDATE t SET v='%s' WHERE id=%d", c07RandText(rng), 1+rng.Intn(next))); err != nil {
					return err
				}
			case 1:
				if err := c07Exec(d, fmt.Sprintf("DELETE FROM t WHERE id=%d", 1+rng.Intn(next))); err != nil {
					return err
				}
			case 2:
				if err := c07Exec(d, fmt.Sprintf("INSERT INTO u(k, n) VALUES('%s', %d)", c07RandText(rng)[:5], rng.Intn(1000))); err != nil {
					return err
				}
			}
		}
		return nil
	}
	var out []c07Stage
	for i := 0; i <= n; i++ {
		if err := mutate(); err != nil {
			return nil, err
		}
		wal, err := os.ReadFile(path + "-wal")
		if err != nil {
			return nil, err
		}
		if _, err := d.Checkpoint(db.CheckpointTruncate); err != nil {
			return nil, err
		}
		b, err := os.ReadFile(path)
		if err != nil {
			return nil, err
		}
		out = append(out, c07Stage{DB: b, WAL: wal})
	}
	return out, nil
}

// ---------------------------------------------------------------- the store under test

type c07Dir struct {
	Name  string
	Index uint64
	Term  uint64
}

type c07Env struct {
	in     c07Input
	tmpl   string // pristine store directory
	P      string // the path the store lives at (plans hold absolute paths)
	imgDir string
	base   string

	full     c07Dir
	dirs     []c07Dir // incrementals (oldest first), then older snapshots (oldest first) = plan order
	ninc     int
	walRel   []string // WAL paths of full + incrementals, relative to the store, plan order
	walOwner []int
	walHash  map[string]int
	walFr    [][]c07Frame
	walSize  []int
	pageIDs  map[string]int
	pageSize int

	plan    *plan.Plan
	fullNew string

	wantNewest [2]uint64
	wantRows   string
}

func c07Meta(id string, index, term uint64) *raft.SnapshotMeta {
	return &raft.SnapshotMeta{ID: id, Index: index, Term: term, Version: 1, ConfigurationIndex: 1,
		Configuration: raft.Configuration{Servers: []raft.Server{{ID: "1", Address: "localhost:1"}}}}
}

func c07Build(t *testing.T, in c07Input) (*c07Env, error) {
	base := c07TempDir(t)
	e := &c07Env{in: in, base: base, tmpl: filepath.Join(base, "tmpl"), P: filepath.Join(base, "store"), imgDir: filepath.Join(base, "img"),
		walHash: map[string]int{}, pageIDs: map[string]int{}}
	os.MkdirAll(e.tmpl, 0755)
	os.MkdirAll(e.imgDir, 0755)
	rng := rand.New(rand.NewSource(in.Seed))
	nst := 1 + in.FullWals
	for _, o := range in.Older {
		nst += 1 + o.Wals
	}
	for _, w := range in.Incs {
		nst += w
	}
	gen := filepath.Join(base, "gen")
	os.MkdirAll(gen, 0755)
	st, err := c07GenStages(gen, rng, nst)
	if err != nil {
		return nil, err
	}
	cur := 0
	idx := uint64(10)
	ts := 1700000000000
	mk := func(term uint64, dbStage int, wals []int) (c07Dir, []string, error) {
		idx += uint64(1 + rng.Intn(20))
		ts += 1000
		name := fmt.Sprintf("%d-%d-%d", term, idx, ts)
		dir := filepath.Join(e.tmpl, name)
		if err := os.MkdirAll(dir, 0755); err != nil {
			return c07Dir{}, nil, err
		}
		if dbStage >= 0 {
			if err := c07WriteWithCRC(filepath.Join(dir, dbfileName), st[dbStage].DB); err != nil {
				return c07Dir{}, nil, err
			}
		}
		var rels []string
		for i, ws := range wals {
			wn := fmt.Sprintf("%020d.wal", i+1)
			if err := c07WriteWithCRC(filepath.Join(dir, wn), st[ws].WAL); err != nil {
				return c07Dir{}, nil, err
			}
			rels = append(rels, filepath.Join(name, wn))
		}
		if err := writeMeta(dir, c07Meta(name, idx, term)); err != nil {
			return c07Dir{}, nil, err
		}
		return c07Dir{Name: name, Index: idx, Term: term}, rels, nil
	}
	take := func(n int) []int {
		var r []int
		for i := 0; i < n; i++ {
			cur++
			r = append(r, cur)
		}
		return r
	}
	var olders []c07Dir
	for i, o := range in.Older {
		dbStage := -1
		if !o.Inc || i == 0 { // the oldest snapshot is always a full
			if i > 0 {
				cur++
			}
			dbStage = cur
		}
		ws := take(o.Wals)
		d, _, err := mk(1, dbStage, ws)
		if err != nil {
			return nil, err
		}
		olders = append(olders, d)
	}
	if len(in.Older) > 0 {
		cur++
	}
	fullStage := cur // read before take() advances it (operand order is unspecified in one call expression)
	fullWals := take(in.FullWals)
	full, rels, err := mk(2, fullStage, fullWals)
	if err != nil {
		return nil, err
	}
	e.full = full
	for range rels {
		e.walOwner = append(e.walOwner, 0)
	}
	e.walRel = append(e.walRel, rels...)
	for i, w := range in.Incs {
		term := uint64(2)
		if i >= 1 && rng.Intn(2) == 0 {
			term = 3
		}
		if i > 0 && e.dirs[i-1].Term == 3 {
			term = 3
		}
		ws := take(w)
		d, rels, err := mk(term, -1, ws)
		if err != nil {
			return nil, err
		}
		e.dirs = append(e.dirs, d)
		for range rels {
			e.walOwner = append(e.walOwner, i+1)
		}
		e.walRel = append(e.walRel, rels...)
	}
	e.ninc = len(in.Incs)
	e.dirs = append(e.dirs, olders...)
	for k, rel := range e.walRel {
		b, err := os.ReadFile(filepath.Join(e.tmpl, rel))
		if err != nil {
			return nil, err
		}
		e.walHash[c07Hash(b)] = k
		fr, sz, ps, err := c07ParseWAL(b)
		if err != nil {
			return nil, err
		}
		e.walFr = append(e.walFr, fr)
		e.walSize = append(e.walSize, sz)
		e.pageSize = ps
	}
	if e.pageSize == 0 {
		e.pageSize = 4096
	}
	return e, nil
}

func (e *c07Env) pageID(b []byte) uint64 {
	h := c07Hash(b)
	if id, ok := e.pageIDs[h]; ok {
		return uint64(id)
	}
	id := len(e.pageIDs) + 1
	e.pageIDs[h] = id
	return uint64(id)
}

func (e *c07Env) pagesOf(path string) []uint64 {
	b, err := os.ReadFile(path)
	if err != nil {
		return nil
	}
	var r []uint64
	for off := 0; off < len(b); off += e.pageSize {
		end := off + e.pageSize
		if end > len(b) {
			end = len(b)
		}
		r = append(r, e.pageID(b[off:end]))
	}
	return r
}

// ---------------------------------------------------------------- abstraction function

type c07Obs struct {
	Wals    []int // -1 = file gone, else index of its content in the WAL table
	Dirs    []int // -1 = directory gone, else number of entries other than planned WAL files
	New     bool
	MetaOK  bool
	Meta    [2]uint64
	DB      []uint64
	DBWal   int
	Plan    bool
	PlanTmp bool
}

func (e *c07Env) walIndexOf(path string) int {
	b, err := os.ReadFile(path)
	if err != nil {
		return -1
	}
	if k, ok := e.walHash[c07Hash(b)]; ok {
		return k
	}
	return -2 // a file that is none of the original WALs
}

func (e *c07Env) abs(root string) c07Obs {
	var o c07Obs
	planned := map[string]bool{}
	for _, rel := range e.walRel {
		p := filepath.Join(root, rel)
		if c07Exists(p) {
			o.Wals = append(o.Wals, e.walIndexOf(p))
			planned[rel] = true
		} else {
			o.Wals = append(o.Wals, -1)
		}
	}
	for _, d := range e.dirs {
		ents, err := os.ReadDir(filepath.Join(root, d.Name))
		if err != nil {
			o.Dirs = append(o.Dirs, -1)
			continue
		}
		n := 0
		for _, en := range ents {
			if !planned[filepath.Join(d.Name, en.Name())] {
				n++
			}
		}
		o.Dirs = append(o.Dirs, n)
	}
	fdir := filepath.Join(root, e.full.Name)
	if !c07Exists(fdir) && e.fullNew != "" && c07Exists(filepath.Join(root, e.fullNew)) {
		o.New = true
		fdir = filepath.Join(root, e.fullNew)
	}
	if m, err := readRaftMeta(metaPath(fdir)); err == nil {
		o.MetaOK = true
		o.Meta = [2]uint64{m.Index, m.Term}
	}
	o.DB = e.pagesOf(filepath.Join(fdir, dbfileName))
	o.DBWal = -1
	if p := filepath.Join(fdir, dbfileName+"-wal"); c07HasWAL(p) {
		o.DBWal = e.walIndexOf(p)
	}
	o.Plan = c07Exists(filepath.Join(root, reapPlanFile))
	o.PlanTmp = c07Exists(filepath.Join(root, reapPlanFile+tmpSuffix))
	return o
}

// ---------------------------------------------------------------- stepping

type c07Image struct {
	K     int
	Dir   string
	Label string
}

// c07Stepper counts the model's micro-steps and takes the images asked for.
type c07Stepper struct {
	e    *c07Env
	ctr  int
	want func(k int) bool
	pfx  string
	imgs []c07Image
	real *plan.Executor
	err  error
}

// point marks the state after one micro-step.  mutate == nil: the store itself is in that
// state.  Otherwise the state is produced on the copy (inside a non-atomic operation).
func (s *c07Stepper) point(label string, mutate func(root string) error) {
	s.ctr++
	if s.want != nil && !s.want(s.ctr) {
		return
	}
	dir := filepath.Join(s.e.imgDir, fmt.Sprintf("%s%04d", s.pfx, s.ctr))
	if err := c07CopyDir(s.e.P, dir); err != nil {
		s.err = err
		return
	}
	if mutate != nil {
		if err := mutate(dir); err != nil {
			s.err = fmt.Errorf("synthesising %s: %v", label, err)
			return
		}
	}
	s.imgs = append(s.imgs, c07Image{K: s.ctr, Dir: dir, Label: label})
}

func (s *c07Stepper) rel(abs string) string {
	r, err := filepath.Rel(s.e.P, abs)
	if err != nil {
		return abs
	}
	return r
}

func (s *c07Stepper) Rename(src, dst string) error {
	did := c07Exists(src)
	err := s.real.Rename(src, dst)
	if err == nil && did {
		s.point("op:rename", nil)
	}
	return err
}
func (s *c07Stepper) Remove(path string) error { return s.real.Remove(path) }
func (s *c07Stepper) RemoveAll(path string) error {
	if !c07Exists(path) {
		return s.real.RemoveAll(path)
	}
	rel := s.rel(path)
	ents, _ := os.ReadDir(path)
	var owned, rest []string
	isPlanned := map[string]bool{}
	for _, w := range s.e.walRel {
		isPlanned[w] = true
	}
	for _, w := range s.e.walRel { // slot order
		if filepath.Dir(w) == rel && c07Exists(filepath.Join(s.e.P, w)) {
			owned = append(owned, w)
		}
	}
	for _, en := range ents {
		if !isPlanned[filepath.Join(rel, en.Name())] {
			rest = append(rest, filepath.Join(rel, en.Name()))
		}
	}
	sort.Strings(rest)
	rm := func(n int) func(root string) error {
		return func(root string) error {
			all := append(append([]string{}, owned...), rest...)
			for _, f := range all[:n] {
				if err := os.RemoveAll(filepath.Join(root, f)); err != nil {
					return err
				}
			}
			return nil
		}
	}
	for i := 1; i <= len(owned)+len(rest); i++ {
		s.point("in:remove_all", rm(i))
	}
	err := s.real.RemoveAll(path)
	if err == nil {
		s.point("op:remove_all", nil)
	}
	return err
}

func (s *c07Stepper) Checkpoint(dbPath string, wals []string) (int, error) {
	walPath := dbPath + "-wal"
	dbRel, walRel := s.rel(dbPath), s.rel(walPath)
	if c07HasWAL(walPath) {
		k := s.e.walIndexOf(walPath)
		if k < 0 {
			return 0, fmt.Errorf("driver: unknown WAL in checkpoint position")
		}
		for j := 1; j <= len(s.e.walFr[k]); j++ {
			jj := j
			s.point("in:checkpoint-leftover-pages", func(root string) error {
				return c07ApplyFrames(filepath.Join(root, dbRel), s.e.walFr[k], jj)
			})
		}
		if _, err := s.real.Checkpoint(dbPath, nil); err != nil {
			return 0, err
		}
		s.point("in:checkpoint-leftover-done", nil)
	}
	var existing []string
	for _, w := range wals {
		if c07Exists(w) {
			existing = append(existing, w)
		}
	}
	if len(existing) == 0 || !c07Exists(dbPath) {
		return s.real.Checkpoint(dbPath, wals)
	}
	n := 0
	for _, w := range existing {
		k := s.e.walIndexOf(w)
		if k < 0 {
			return 0, fmt.Errorf("driver: unknown WAL %s", w)
		}
		wr := s.rel(w)
		move := func(root string) error { return os.Rename(filepath.Join(root, wr), filepath.Join(root, walRel)) }
		s.point("in:checkpoint-wal-moved", move)
		for j := 1; j <= len(s.e.walFr[k]); j++ {
			jj := j
			s.point("in:checkpoint-pages", func(root string) error {
				if err := move(root); err != nil {
					return err
				}
				return c07ApplyFrames(filepath.Join(root, dbRel), s.e.walFr[k], jj)
			})
		}
		m, err := s.real.Checkpoint(dbPath, []string{w})
		if err != nil {
			return n, err
		}
		n += m
		s.point("in:checkpoint-wal-done", nil)
	}
	return n, nil
}

func (s *c07Stepper) WriteMeta(dir string, data []byte) error {
	if !c07Exists(dir) {
		return s.real.WriteMeta(dir, data)
	}
	rel := s.rel(filepath.Join(dir, metaFileName))
	s.point("in:write_meta", func(root string) error { return os.WriteFile(filepath.Join(root, rel), nil, 0644) })
	err := s.real.WriteMeta(dir, data)
	if err == nil {
		s.point("op:write_meta", nil)
	}
	return err
}
func (s *c07Stepper) MkdirAll(path string) error     { return s.real.MkdirAll(path) }
func (s *c07Stepper) CopyFile(src, dst string) error { return s.real.CopyFile(src, dst) }
func (s *c07Stepper) CalcCRC32(dataPath, crcPath string) error {
	if !c07Exists(dataPath) {
		return s.real.CalcCRC32(dataPath, crcPath)
	}
	rel := s.rel(crcPath)
	s.point("in:calc_crc32", func(root string) error { return os.WriteFile(filepath.Join(root, rel), nil, 0644) })
	err := s.real.CalcCRC32(dataPath, crcPath)
	if err == nil {
		s.point("op:calc_crc32", nil)
	}
	return err
}
func (s *c07Stepper) VerifyDB(path string) error { return s.real.VerifyDB(path) }

// firstRun steps the reap of the store at e.P: plan written, plan executed, plan removed.
func (e *c07Env) firstRun(want func(int) bool) (*c07Stepper, error) {
	s := &c07Stepper{e: e, want: want, pfx: "a", real: plan.NewExecutor()}
	if e.plan == nil {
		return s, nil
	}
	planPath := filepath.Join(e.P, reapPlanFile)
	js, _ := json.Marshal(e.plan)
	s.point("plan-tmp-partly-written", func(root string) error {
		return os.WriteFile(filepath.Join(root, reapPlanFile+tmpSuffix), js[:len(js)/2], 0644)
	})
	if err := plan.WriteToFile(e.plan, planPath); err != nil {
		return s, err
	}
	s.point("plan-written", nil)
	if err := e.plan.Execute(s); err != nil {
		return s, err
	}
	if err := fsutil.SyncDirMaybe(e.P); err != nil {
		return s, err
	}
	os.Remove(planPath)
	s.point("plan-removed", nil)
	return s, s.err
}

// recoveryRun steps what check() does on the store at e.P (the real check() is what the
// final restart of every case runs; this stepped twin exists to crash inside a recovery).
func (e *c07Env) recoveryRun(want func(int) bool, pfx string) (*c07Stepper, error) {
	s := &c07Stepper{e: e, want: want, pfx: pfx, real: plan.NewExecutor()}
	planPath := filepath.Join(e.P, reapPlanFile)
	if c07Exists(planPath + tmpSuffix) {
		os.Remove(planPath + tmpSuffix)
		s.point("rec:plan-tmp-removed", nil)
	}
	if !c07Exists(planPath) {
		return s, s.err
	}
	p, err := plan.ReadFromFile(planPath)
	if err != nil {
		return s, err
	}
	done, err := p.LastOpDone(plan.NewChecker())
	if err != nil {
		return s, err
	}
	if !done {
		if err := p.Execute(s); err != nil {
			return s, err
		}
		if err := fsutil.SyncDirMaybe(e.P); err != nil {
			return s, err
		}
	}
	os.Remove(planPath)
	s.point("rec:plan-removed", nil)
	return s, s.err
}

// realPlan lets the real reapInternal build its plan for the store at e.P without executing
// it: the plan path is pointed at a non-empty directory, so WriteToFile's final rename fails
// after the plan has been serialised next to it.
func (e *c07Env) realPlan(t *testing.T) error {
	s, err := NewStore(e.P)
	if err != nil {
		return err
	}
	defer s.Close()
	s.fatalFn = nil
	blk := filepath.Join(e.base, "blocked")
	os.MkdirAll(filepath.Join(blk, "x"), 0755)
	s.reapPlanPath = blk
	_, _, rerr := s.Reap()
	s.reapPlanPath = filepath.Join(e.P, reapPlanFile)
	b, err := os.ReadFile(blk + ".tmp")
	if err != nil {
		if rerr == nil {
			return nil // nothing to reap
		}
		return fmt.Errorf("reap did not get as far as writing a plan: %v", rerr)
	}
	p := plan.New()
	if err := json.Unmarshal(b, p); err != nil {
		return err
	}
	e.plan = p
	for _, op := range p.Ops {
		if op.Type == plan.OpRename {
			e.fullNew = filepath.Base(op.Dst)
		}
	}
	return nil
}

// ---------------------------------------------------------------- observing a restarted store

type c07Final struct {
	Open   bool
	Err    string
	Newest [2]uint64
	HasNew bool
	NSnap  int
	Rows   string
	Pages  []uint64
}

func c07Rows(path string) (string, error) {
	d, err := db.Open(path, false, true)
	if err != nil {
		return "", err
	}
	defer d.Close()
	var sb strings.Builder
	for _, q := range []string{"SELECT id, v FROM t ORDER BY id", "SELECT k, n FROM u ORDER BY rowid", "PRAGMA integrity_check"} {
		r, err := d.QueryStringStmt(q)
		if err != nil {
			return "", err
		}
		b, _ := json.Marshal(r)
		sb.Write(b)
	}
	return c07Hash([]byte(sb.String())), nil
}

// restart opens the store at e.P with the real NewStore and restores its newest snapshot.
func (e *c07Env) restart(t *testing.T) c07Final {
	var f c07Final
	s, err := NewStore(e.P)
	if err != nil {
		f.Err = "NewStore: " + err.Error()
		return f
	}
	defer s.Close()
	s.fatalFn = nil
	metas, err := s.ListAll()
	if err != nil {
		f.Err = "List: " + err.Error()
		return f
	}
	f.NSnap = len(metas)
	if len(metas) == 0 {
		f.Err = "store is empty"
		return f
	}
	f.HasNew = true
	f.Newest = [2]uint64{metas[0].Index, metas[0].Term}
	_, rc, err := s.Open(metas[0].ID)
	if err != nil {
		f.Err = "Open: " + err.Error()
		return f
	}
	rdir, err := os.MkdirTemp(e.base, "restore-")
	if err != nil {
		rc.Close()
		f.Err = err.Error()
		return f
	}
	defer os.RemoveAll(rdir)
	dst := filepath.Join(rdir, "restored.db")
	_, err = Restore(rc, dst)
	rc.Close()
	if err != nil {
		f.Err = "Restore: " + err.Error()
		return f
	}
	f.Pages = e.pagesOf(dst)
	rows, err := c07Rows(dst)
	if err != nil {
		f.Err = "query restored db: " + err.Error()
		return f
	}
	f.Rows = rows
	for _, n := range []string{reapPlanFile, reapPlanFile + tmpSuffix} {
		if c07Exists(filepath.Join(e.P, n)) {
			f.Err = "left behind: " + n
			return f
		}
	}
	f.Open = true
	return f
}

// ---------------------------------------------------------------- Gallina

func c07CoqPages(p []uint64) string {
	it := make([]string, len(p))
	for i, x := range p {
		it[i] = coqN(x)
	}
	return coqList(it)
}

func c07CoqOptNat(v int) string {
	if v < 0 {
		return "None"
	}
	return "(Some " + coqNat(v) + ")"
}

func c07CoqMeta(m [2]uint64) string { return coqPair(coqN(m[0]), coqN(m[1])) }

func (e *c07Env) coqObs(o c07Obs) string {
	ws := make([]string, len(o.Wals))
	for i, w := range o.Wals {
		if w == -2 {
			w = 9999 // unknown content: never equal to a table entry
		}
		ws[i] = c07CoqOptNat(w)
	}
	ds := make([]string, len(o.Dirs))
	for i, d := range o.Dirs {
		ds[i] = c07CoqOptNat(d)
	}
	dw := o.DBWal
	if dw == -2 {
		dw = 9999
	}
	return fmt.Sprintf("{| o_wals := %s; o_dirs := %s; o_new := %s; o_meta := %s; o_db := %s; o_dbwal := %s; o_plan := %s; o_plantmp := %s |}",
		coqList(ws), coqList(ds), coqBool(o.New), coqOpt(o.MetaOK, c07CoqMeta(o.Meta)), c07CoqPages(o.DB), c07CoqOptNat(dw), coqBool(o.Plan), coqBool(o.PlanTmp))
}

func (e *c07Env) coqCase(path []int, obs []c07Obs, f c07Final) string {
	ws := make([]string, len(e.walRel))
	for k := range e.walRel {
		fr := make([]string, len(e.walFr[k]))
		for i, x := range e.walFr[k] {
			fr[i] = coqPair(coqNat(x.Pg), coqN(e.pageID(x.Data)))
		}
		ws[k] = coqPair(coqNat(e.walOwner[k]), fmt.Sprintf("{| cw_frames := %s; cw_size := %s |}", coqList(fr), coqNat(e.walSize[k])))
	}
	tmplObs := e.abs(e.tmpl)
	ds := make([]string, len(e.dirs))
	for i, d := range e.dirs {
		ds[i] = coqPair(c07CoqMeta([2]uint64{d.Index, d.Term}), coqNat(tmplObs.Dirs[i]))
	}
	cr := make([]string, len(path))
	for i := range path {
		cr[i] = coqPair(coqNat(path[i]), e.coqObs(obs[i]))
	}
	return fmt.Sprintf("{| c_db := %s; c_meta := %s; c_wals := %s; c_dirs := %s; c_ninc := %s; c_crash := %s; c_open := %s; c_newest := %s; c_nsnap := %s; c_final_db := %s |}",
		c07CoqPages(tmplObs.DB), c07CoqMeta([2]uint64{e.full.Index, e.full.Term}), coqList(ws), coqList(ds), coqNat(e.ninc),
		coqList(cr), coqBool(f.Open), coqOpt(f.HasNew, c07CoqMeta(f.Newest)), coqNat(f.NSnap), c07CoqPages(f.Pages))
}

// ---------------------------------------------------------------- one shape

func (e *c07Env) reset(from string) error { return c07CopyDir(from, e.P) }

func (e *c07Env) kind(label string) string {
	if i := strings.Index(label, " "); i > 0 {
		return label[:i]
	}
	return label
}

func (e *c07Env) emit(w *vWriter, path []int, labels []string, obs []c07Obs, f c07Final) {
	in := e.in
	in.Crash = append([]int{}, path...)
	nontriv := (len(e.in.Incs) >= 2 || len(e.in.Older) >= 1) && len(path) > 0 && e.plan != nil
	for _, l := range labels {
		if l == "start" || l == "plan-tmp-partly-written" || l == "plan-removed" || l == "rec:plan-removed" {
			nontriv = false
		}
	}
	c := VCase{Input: in, Coq: e.coqCase(path, obs, f), Nontrivial: nontriv,
		Key:  fmt.Sprintf("%s crash=%v", e.in.shapeKey(), path),
		Tags: []string{fmt.Sprintf("crashes=%d", len(path)), fmt.Sprintf("incs=%d", len(e.in.Incs)), fmt.Sprintf("older=%d", len(e.in.Older))}}
	for _, l := range labels {
		c.Tags = append(c.Tags, "at:"+l)
	}
	at := "none"
	if len(labels) > 0 {
		at = labels[len(labels)-1]
	}
	switch {
	case !f.Open:
		c.OracleFail = fmt.Sprintf("%s, crash images %v (%v): restart fails: %s", e.in.shapeKey(), path, labels, f.Err)
		c.Sig = "C07:restart-fails:" + at
	case f.Newest != e.wantNewest:
		c.OracleFail = fmt.Sprintf("%s, crash images %v (%v): newest snapshot is (index,term)=%v, was %v", e.in.shapeKey(), path, labels, f.Newest, e.wantNewest)
		c.Sig = "C07:newest-index-term-differs:" + at
	case f.Rows != e.wantRows:
		c.OracleFail = fmt.Sprintf("%s, crash images %v (%v): restored database differs from the one the original newest snapshot resolved to", e.in.shapeKey(), path, labels)
		c.Sig = "C07:restored-content-differs:" + at
	}
	w.Emit(c)
}

// c07Shape explores one store shape.  crash == nil: every first-level image (and, per
// `second`, second-level images); otherwise exactly that crash path.
func c07Shape(t *testing.T, w *vWriter, in c07Input, second func(k1, n2 int) []int) {
	e, err := c07Build(t, in)
	if err != nil {
		t.Fatalf("building store %s: %v", in.shapeKey(), err)
	}
	// what the original newest snapshot is and resolves to
	if err := e.reset(e.tmpl); err != nil {
		t.Fatal(err)
	}
	orig := e.restart(t)
	if !orig.Open {
		t.Fatalf("generated store does not open: %s (%s)", orig.Err, in.shapeKey())
	}
	e.wantNewest, e.wantRows = orig.Newest, orig.Rows
	if err := e.reset(e.tmpl); err != nil {
		t.Fatal(err)
	}
	if err := e.realPlan(t); err != nil {
		t.Fatalf("obtaining the real plan: %v", err)
	}
	if !bytes.Equal([]byte(vJSON(e.abs(e.P))), []byte(vJSON(e.abs(e.tmpl)))) {
		t.Fatalf("building the plan modified the store")
	}

	// the un-crashed real Reap()
	{
		s, err := NewStore(e.P)
		if err != nil {
			t.Fatal(err)
		}
		s.fatalFn = nil
		_, _, rerr := s.Reap()
		s.Close()
		f := e.restart(t)
		if rerr != nil {
			f.Open, f.Err = false, "Reap: "+rerr.Error()
		}
		if in.Crash == nil || len(in.Crash) == 0 {
			c := VCase{Input: in, Key: in.shapeKey() + " uncrashed", Tags: []string{"uncrashed"}}
			if !f.Open {
				c.OracleFail, c.Sig = in.shapeKey()+": un-crashed Reap: "+f.Err, "C07:uncrashed-reap-fails"
			} else if f.Newest != e.wantNewest || f.Rows != e.wantRows {
				c.OracleFail, c.Sig = in.shapeKey()+": un-crashed Reap changed the newest snapshot's (index,term) or content", "C07:uncrashed-reap-changes-newest"
			} else if e.plan != nil && f.NSnap != 1 {
				c.OracleFail, c.Sig = fmt.Sprintf("%s: %d snapshots left after Reap", in.shapeKey(), f.NSnap), "C07:uncrashed-reap-leaves-snapshots"
			}
			// the model on the empty crash path: recovery of the untouched store
			if err := e.reset(e.tmpl); err != nil {
				t.Fatal(err)
			}
			w.Emit(c)
			e.emit(w, nil, nil, nil, e.restart(t))
		}
	}

	if len(in.Crash) > 0 {
		e.replay(t, w, in.Crash)
		return
	}

	// first level: every image of the reap run
	if err := e.reset(e.tmpl); err != nil {
		t.Fatal(err)
	}
	startImg := filepath.Join(e.imgDir, "a0000")
	c07CopyDir(e.P, startImg)
	st, err := e.firstRun(func(int) bool { return true })
	if err != nil {
		w.Emit(VCase{Input: in, Key: in.shapeKey() + " stepped", OracleFail: in.shapeKey() + ": stepped reap run failed: " + err.Error(), Sig: "C07:stepped-reap-fails"})
		return
	}
	imgs := append([]c07Image{{K: 0, Dir: startImg, Label: "start"}}, st.imgs...)
	for _, im := range imgs {
		o1 := e.abs(im.Dir)
		if err := e.reset(im.Dir); err != nil {
			t.Fatal(err)
		}
		e.emit(w, []int{im.K}, []string{im.Label}, []c07Obs{o1}, e.restart(t))
		if second == nil {
			continue
		}
		// second level: crash again during the recovery from this image
		if err := e.reset(im.Dir); err != nil {
			t.Fatal(err)
		}
		cnt, err := e.recoveryRun(func(int) bool { return false }, "n")
		if err != nil {
			continue // the first-level case already reports the failing restart
		}
		sel := map[int]bool{}
		for _, k := range second(im.K, cnt.ctr) {
			sel[k] = true
		}
		if len(sel) == 0 {
			continue
		}
		if err := e.reset(im.Dir); err != nil {
			t.Fatal(err)
		}
		rs, err := e.recoveryRun(func(k int) bool { return sel[k] }, fmt.Sprintf("b%04d-", im.K))
		if err != nil {
			continue
		}
		for _, im2 := range rs.imgs {
			o2 := e.abs(im2.Dir)
			if err := e.reset(im2.Dir); err != nil {
				t.Fatal(err)
			}
			e.emit(w, []int{im.K, im2.K}, []string{im.Label, im2.Label}, []c07Obs{o1, o2}, e.restart(t))
			os.RemoveAll(im2.Dir)
		}
	}
}

// replay runs exactly one crash path.
func (e *c07Env) replay(t *testing.T, w *vWriter, path []int) {
	if err := e.reset(e.tmpl); err != nil {
		t.Fatal(err)
	}
	var labels []string
	var obs []c07Obs
	for lvl, k := range path {
		var st *c07Stepper
		var err error
		start := filepath.Join(e.imgDir, fmt.Sprintf("r%d-0000", lvl))
		c07CopyDir(e.P, start)
		kk := k
		if lvl == 0 {
			st, err = e.firstRun(func(x int) bool { return x == kk })
		} else {
			st, err = e.recoveryRun(func(x int) bool { return x == kk }, fmt.Sprintf("r%d-", lvl))
		}
		img := c07Image{K: 0, Dir: start, Label: "start"}
		if k > 0 {
			if len(st.imgs) == 0 {
				t.Fatalf("crash path %v: run %d has no image %d (%v)", path, lvl, k, err)
			}
			img = st.imgs[0]
		}
		labels = append(labels, img.Label)
		obs = append(obs, e.abs(img.Dir))
		if err := e.reset(img.Dir); err != nil {
			t.Fatal(err)
		}
	}
	e.emit(w, path, labels, obs, e.restart(t))
}

// ---------------------------------------------------------------- shapes

func c07Corpus() []c07Input {
	return []c07Input{
		{FullWals: 0, Incs: []int{1}, Seed: 11},
		{Older: []c07Old{{}}, FullWals: 0, Incs: nil, Seed: 12},                           // only older snapshots to remove
		{Older: []c07Old{{}}, FullWals: 1, Incs: []int{1, 2}, Seed: 13},                    // everything at once
		{FullWals: 2, Incs: []int{2, 1, 1}, Seed: 14},                                       // multi-WAL full and incrementals
		{Older: []c07Old{{}, {Inc: true, Wals: 1}}, FullWals: 0, Incs: []int{1, 1}, Seed: 15}, // older full with its incremental
		{Older: []c07Old{{Wals: 1}, {}}, FullWals: 1, Incs: nil, Seed: 16},                 // full with own WALs, no incrementals
		{FullWals: 0, Incs: nil, Seed: 17},                                                  // single snapshot: nothing to reap
		{Older: []c07Old{{}, {}, {}}, FullWals: 0, Incs: []int{3}, Seed: 18},
	}
}

func c07RandomShape(rng *rand.Rand, maxOlder, maxIncs, maxWals int) c07Input {
	in := c07Input{Seed: rng.Int63n(1 << 30)}
	for i, n := 0, rng.Intn(maxOlder+1); i < n; i++ {
		in.Older = append(in.Older, c07Old{Inc: i > 0 && rng.Intn(3) == 0, Wals: rng.Intn(2)})
		if in.Older[i].Inc && in.Older[i].Wals == 0 {
			in.Older[i].Wals = 1
		}
	}
	in.FullWals = rng.Intn(maxWals + 1)
	if rng.Intn(2) == 0 {
		in.FullWals = 0
	}
	for i, n := 0, rng.Intn(maxIncs+1); i < n; i++ {
		in.Incs = append(in.Incs, 1+rng.Intn(maxWals))
	}
	return in
}

func TestVerif_C07(t *testing.T) {
	w := vOpen()
	defer w.Close()
	rng := vRand()
	if raw := vReplayInput(); raw != nil {
		var in c07Input
		if err := json.Unmarshal(raw, &in); err != nil {
			t.Fatal(err)
		}
		c07Shape(t, w, in, nil)
		return
	}
	thorough := vTier() == "thorough"
	// second-level crash points: quick = two sampled per first-level image; thorough = all
	second := func(k1, n2 int) []int {
		if n2 == 0 {
			return nil
		}
		if thorough {
			r := make([]int, n2)
			for i := range r {
				r[i] = i + 1
			}
			return r
		}
		if k1%3 != 0 {
			return nil
		}
		return []int{1 + rng.Intn(n2)}
	}
	for _, in := range c07Corpus() {
		c07Shape(t, w, in, second)
	}
	n := vN(2, 24)
	for i := 0; i < n; i++ {
		if thorough {
			c07Shape(t, w, c07RandomShape(rng, 3, 4, 3), second)
		} else {
			c07Shape(t, w, c07RandomShape(rng, 2, 3, 2), second)
		}
	}
}
