# C21 — configuration read by bin/check (see checks/registry.py)
SPEC = dict(
    title="Backups are complete, point-in-time consistent copies",
    pkg="./http", files=["http/c21_verif_test.go"],
    rule="12 format/flag combinations (binary|sql|delete x vacuum x compress) x {leader's API, another node forwarding through the real cluster client/service} x 2 (quick) / 40 (thorough) "
         "repetitions while a writer commits transactions that each move value between two tables, append to a log AND change the schema (create an index / view / trigger / table+row+index whose name carries the "
         "transaction number, drop the object created 3 transactions earlier), so the committed version k determines rows and schema exactly (non-trivial: at least one transaction was in flight during the backup); then the deterministic "
         "stalled-consumer family: Store.Backup into a harness writer that stalls after the first chunk (sql: after the first row), for {WAL empty at start, WAL non-empty} x {binary, binary+compress, "
         "vacuum, delete, sql, sql+compress} x 1 (quick) / 10 (thorough): while stalled one transaction commits and Store.Snapshot(0) is called (refused by the gate / succeeded / other error recorded, "
         "together with the owner of snapshotCAS), then the writer is released and the result judged like any backup (non-trivial: the consumer did stall); then the failing-destination family on the "
         "quiescent database: for the 8 valid combinations Store.Backup and the HTTP handler (ServeHTTP into a harness ResponseWriter) write into a destination that accepts N bytes and then fails like a full "
         "disk, N = stream length minus {1,2,4,8,9,12,16,17,64,256,1024,2048,4095,4096,5000} plus {0,1,10,4096} and 'never' (quick; sparser for uncompressed and for the handler) / the last 300 positions, "
         "every 64th of the last 9000 and 100 random ones (thorough) (non-trivial: the destination fails before the end); then for the 8 valid "
         "combinations the inter-node reply is cut after N bytes: 12 positions (quick: inside the header, right after it, 0.1%..99.9% of the stream, the last byte, no cut) / 207 (thorough: every 0.5%) "
         "(non-trivial: the cut falls inside the reply); distinct by scenario + flags + repetition / cut position",
    exhaustive=False,
    case_preamble="Open Scope N_scope.\n",
    trusted=["SQLite: WAL mode (the main file changes only at a checkpoint), snapshot isolation of a read transaction, sqlite3_backup_step(-1) copies one committed version — the small-step model's rules",
             "compress/gzip: a strict prefix of a complete stream is not complete (explicit hypothesis of C21_cut_stream_is_error / C21_client_rule)",
             "net/http: the status line is committed with the first body byte; panic(http.ErrAbortHandler) aborts the connection",
             "the 'other node' of the remote path is an http.Service whose store answers ErrNotLeader (MockStore); proxy, cluster.Client, cluster.Service, the leader's Store are the real ones; "
             "the harness owns the inter-node net.Conn and ends it after N bytes"],
    assumptions=["schedules are interleavings of backup steps, writer commits and checkpoints (one writer node; no leader change during a backup)",
                 "a backup whose pre-backup snapshot is skipped (error ignored by Store.Backup) is a version not older than the main file, possibly older than the request"],
    level_text="C21_binary_is_version_partial / C21_dump_is_version_partial / C21_online_is_version_partial hold for every schedule (any length) of commits, checkpoints and backup steps, any number of "
               "chunks/tables; C21_gate_held_during_copy (every reachable copying state of the binary backup holds the gate, whatever the WAL held at the start: a checkpoint attempt is refused and changes nothing), "
               "C21_dump_never_holds_gate / C21_online_never_holds_gate; C21_destination_failure_is_error / _never_success (producer side: for every split of the stream into copy-loop writes and "
               "gzip-Close writes and every room, success iff everything fitted); C21_cut_stream_is_error / C21_client_rule for every header, stream and cut position under the gzip hypothesis; C21_cut_is_never_200; "
               "the dump is a list of queries (table list, rows per table, schema objects) with an explicit transaction bracket; C21_dump_last_query_outside_transaction_refuted is the witness for a bracket closed one query early; "
               "partial = SQLite's isolation rules are the model's hypotheses. The *_refuted theorems document the code before the three fixes.",
    level_note="Model = Store.Backup/db.Dump/db.Backup as phase machines against an adversarial schedule + stream framing + HTTP status rule, for the tree with the fixes "
               ".work/fixes/C21-*.patch applied; tie = real single-node store, cluster service/client, two HTTP services; oracle = scratch SQLite load of every successful backup.",
    technique="Coq invariant proofs over all schedules + live differential run with concurrent writer and harness-cut connection",
    design_ref="6/C21",
    timeout_quick=400, timeout_thorough=3600,
)
