# C14 — configuration read by bin/check (see checks/registry.py)
SPEC = dict(
    title="Non-deterministic SQL is fully and faithfully rewritten",
    pkg="./command/sql", files=["command/sql/c14_verif_test.go"],
    rule="hand-picked corpus (implicit-now forms, spaced/commented/quoted call syntax, subquery/CTE/ISNULL positions, RETURNING, ORDER BY, look-alikes, "
         "unparsable and multi-statement strings) plus generated SELECT/INSERT/UPDATE/DELETE/UPSERT/RETURNING/CTE statements (q: 1000, t: 20000) with 0..n calls of "
         "random/randomblob/date/time/datetime/julianday/unixepoch/strftime/timediff at every arity and letter case; a statement is non-trivial when it has "
         ">= 1 non-deterministic call and (more than one call or a nested call), or a look-alike / spaced call syntax; distinct by flags + text",
    exhaustive=False,
    trusted=["github.com/rqlite/sql parser and printer (the model works on the parser's tree; print/re-parse fidelity is checked on every case by the re-parse and by SQLite)",
             "SQLite's date/time and random functions are as documented at sqlite.org/lang_datefunc.html and lang_corefunc.html (nondet_call is written from there)",
             "Go strings.ToLower/EqualFold/unicode.IsSpace modelled for ASCII statements only"],
    assumptions=["statements are ASCII; one statement per string; no column is named now; parameters are not inspected",
                 "a rewritten call has one value per statement (rqlite's documented behaviour), so DISTINCT/UNION/GROUP BY over such a value are outside 'same meaning'"],
    level_text="rewrite_complete / rewrite_faithful / untouched_if_clean / order_by_random_kept hold for every statement tree, text and flag setting (no bound); "
               "completeness is conditional on the parser accepting the statement and on scan_sound (every call the parser sees is visible to the pre-filter), "
               "which check_case evaluates on every driver case.",
    level_note="Model = pre-filters + Rewriter.Visit over a generic tagged tree; tie = real Process vs model on generated statements (trees from the real parser), "
               "static oracle from SQLite's documentation, dynamic oracle = real SQLite evaluation twice 1.2 s apart and against the original.",
    technique="Coq proof over all statement trees + differential run against real Process + SQLite evaluation oracle",
    design_ref="6/C14",
    case_preamble="Open Scope string_scope.\n",
    shard=200, coq_jobs=8,
    timeout_quick=300, timeout_thorough=3600,
)
