(* C21 — specification and proofs about Model/C21.v *)
From Coq Require Import List Arith NArith Bool Lia.
From Coq Require Import ZifyBool ZifyNat ZifyN.
From RQ Require Import Model.C21.
Import ListNotations.
Open Scope N_scope.

(* ---- the property: every piece of the backup shows one committed state v, and that state was the
   committed state at some moment between the request (k0 commits) and the reply (k w commits) *)
Definition point_in_time (k0 : N) (w : world) (pieces : nat) : Prop :=
  exists v, out w = repeat v pieces /\ k0 <= v <= k w.

Lemma run_inv {P} (step : world * P -> world * P) (I : world * P -> Prop) :
  (forall s, I s -> I (step s)) ->
  (forall e s, I s -> I (env_step e (fst s), snd s)) ->
  forall sched s, I s -> I (run step sched s).
Proof.
  intros Hs He sched. unfold run. induction sched as [|e sched IH]; intros s Hi; [exact Hi|].
  cbn [fold_left]. apply IH. destruct e; [apply He | apply He | apply Hs]; exact Hi.
Qed.

Ltac sw := unfold emit, set_gate, set_m, set_k, set_snap; cbn -[N.add N.le N.lt repeat Nat.sub Nat.le].

Lemma repeat_snoc {A} (x : A) n : repeat x n ++ [x] = repeat x (S n).
Proof. induction n as [|n IH]; [reflexivity|]. cbn [repeat app]. rewrite IH. reflexivity. Qed.

(* ================================================================== binary backup *)
Section Binary.
  Variables (snap_ok : bool) (chunks : nat) (k0 m0 : N).

  Definition binv (s : world * bphase) : Prop :=
    let '(w, ph) := s in
    m0 <= m w /\ m w <= k w /\ k0 <= k w /\
    match ph with
    | BSnap => gate w = false /\ out w = []
    | BGate => gate w = false /\ out w = [] /\ (snap_ok = true -> k0 <= m w)
    | BCopy j => gate w = true /\ (j <= chunks)%nat /\ out w = repeat (m w) (chunks - j) /\ (snap_ok = true -> k0 <= m w)
    | BDone => exists v, out w = repeat v chunks /\ m0 <= v <= k w /\ (snap_ok = true -> k0 <= v)
    end.

  Lemma binv_step s : binv s -> binv (bin_step true snap_ok chunks s).
  Proof.
    destruct s as [w ph]. destruct ph as [| |j|]; cbn [binv bin_step].
    - intros (H1 & H2 & H3 & Hg & Ho). rewrite Hg. destruct snap_ok; cbn [andb negb]; sw;
        repeat split; try assumption; try lia; intros X; try discriminate X; lia.
    - intros (H1 & H2 & H3 & Hg & Ho & Hs). sw. repeat split; try assumption; try lia.
      rewrite Nat.sub_diag. exact Ho.
    - destruct j as [|j]; intros (H1 & H2 & H3 & Hg & Hj & Ho & Hs).
      + sw. repeat split; try assumption. exists (m w).
        rewrite Nat.sub_0_r in Ho. repeat split; try assumption; lia.
      + sw. repeat split; try assumption; try lia.
        rewrite Ho, repeat_snoc. f_equal. lia.
    - intros H. exact H.
  Qed.

  Lemma binv_env e s : binv s -> binv (env_step e (fst s), snd s).
  Proof.
    destruct s as [w ph]. cbn [fst snd]. destruct e; cbn [env_step]; [| |intros H; exact H].
    - (* commit *) destruct ph; cbn [binv]; sw.
      + intros (H1 & H2 & H3 & H4). repeat split; try lia; tauto.
      + intros (H1 & H2 & H3 & H4). repeat split; try lia; tauto.
      + intros (H1 & H2 & H3 & Hg & Hj & Ho & Hs). repeat split; try assumption; lia.
      + intros (H1 & H2 & H3 & v & Ho & Hv & Hs). repeat split; try lia. exists v. repeat split; try assumption; lia.
    - (* checkpoint *) destruct ph; cbn [binv].
      + intros (H1 & H2 & H3 & Hg & Ho). rewrite Hg. sw. repeat split; try assumption; lia.
      + intros (H1 & H2 & H3 & Hg & Ho & Hs). rewrite Hg. sw. repeat split; try assumption; lia.
      + intros (H1 & H2 & H3 & Hg & R). rewrite Hg. sw. repeat split; try assumption; tauto.
      + intros (H1 & H2 & H3 & v & Ho & Hv & Hs). destruct (gate w); sw.
        * repeat split; try assumption. exists v. repeat split; try assumption; lia.
        * repeat split; try lia. exists v. repeat split; try assumption; lia.
  Qed.

  (* whatever the writer and the background checkpoints do, the copied file is one version of the
     database, not older than the main file at the start, and not older than the request when the
     pre-backup snapshot succeeded *)
  Theorem binary_is_version sched w0 w :
    m w0 = m0 -> k w0 = k0 -> m0 <= k0 -> gate w0 = false -> out w0 = [] ->
    run (bin_step true snap_ok chunks) sched (w0, BSnap) = (w, BDone) ->
    exists v, out w = repeat v chunks /\ m0 <= v <= k w /\ (snap_ok = true -> k0 <= v).
  Proof.
    intros Hm Hk Hmk Hg Ho Hrun.
    assert (I : binv (w, BDone)).
    { rewrite <- Hrun. apply run_inv; [apply binv_step | apply binv_env |].
      cbn [binv]. repeat split; try assumption; lia. }
    cbn [binv] in I. destruct I as (_ & _ & _ & v & H). exists v. exact H.
  Qed.
End Binary.

(* without the gate a checkpoint between two chunks mixes two versions of the file *)
Example ungated_copy_mixes :
  let w0 := {| k := 5; m := 5; gate := false; snap := None; out := [] |} in
  out (fst (run (bin_step false true 2) [EStep; EStep; EStep; ECommit; ECheckpoint; EStep; EStep] (w0, BSnap))) = [5; 6].
Proof. vm_compute. reflexivity. Qed.

Example gated_copy_ex :
  let w0 := {| k := 5; m := 3; gate := false; snap := None; out := [] |} in
  run (bin_step true true 2) [ECommit; EStep; EStep; EStep; ECommit; ECheckpoint; EStep; EStep] (w0, BSnap)
  = ({| k := 7; m := 6; gate := false; snap := None; out := [6; 6] |}, BDone).
Proof. vm_compute. reflexivity. Qed.

(* ================================================================== SQL dump *)
Section Dump.
  Variables (tables : nat) (k0 : N).
  Hypothesis Htab : tables <> O.

  Definition dinv (s : world * dphase) : Prop :=
    let '(w, ph) := s in
    k0 <= k w /\
    match ph with
    | DBegin => snap w = None /\ out w = []
    | DRead j =>
        (j <= tables)%nat /\
        ((snap w = Some None /\ out w = [] /\ j = tables)
         \/ exists v, snap w = Some (Some v) /\ out w = repeat v (tables - j) /\ k0 <= v <= k w)
    | DDone => tables = O /\ out w = [] \/ exists v, out w = repeat v tables /\ k0 <= v <= k w
    end.

  Lemma dinv_step s : dinv s -> dinv (dump_step tables tables s).
  Proof.
    destruct s as [w ph]. destruct ph as [|j|]; cbn [dinv dump_step].
    - intros (H1 & Hs & Ho). replace (0 <? tables)%nat with true by (symmetry; apply Nat.ltb_lt; lia).
      sw. repeat split; try assumption; try lia. left. repeat split; assumption.
    - destruct j as [|j]; intros (H1 & Hj & [(Hs & Ho & E) | (v & Hs & Ho & Hv)]).
      + sw. split; [assumption|]. left. split; [symmetry; exact E | exact Ho].
      + sw. split; [assumption|]. right. exists v.
        rewrite Nat.sub_0_r in Ho. split; assumption.
      + replace (tables - S j <? tables)%nat with true by (symmetry; apply Nat.ltb_lt; lia).
        unfold read_version. rewrite Hs. sw. repeat split; try assumption; try lia.
        right. exists (k w). rewrite Ho. split; [reflexivity|]. split; [|lia].
        subst tables. replace (S j - j)%nat with 1%nat by lia. reflexivity.
      + replace (tables - S j <? tables)%nat with true by (symmetry; apply Nat.ltb_lt; lia).
        unfold read_version. rewrite Hs. sw. repeat split; try assumption; try lia.
        right. exists v. split; [assumption|]. split; [|assumption].
        rewrite Ho, repeat_snoc. f_equal. lia.
    - intros H. exact H.
  Qed.

  Lemma dinv_env e s : dinv s -> dinv (env_step e (fst s), snd s).
  Proof.
    destruct s as [w ph]. cbn [fst snd]. destruct e; cbn [env_step]; [| |intros H; exact H].
    - destruct ph as [|j|]; cbn [dinv]; sw.
      + intros (H1 & H2). split; [lia | assumption].
      + intros (H1 & Hj & [H | (v & Hs & Ho & Hv)]); repeat split; try assumption; try lia.
        * left. assumption.
        * right. exists v. repeat split; try assumption; lia.
      + intros (H1 & [H | (v & Ho & Hv)]); (split; [lia|]); [left; assumption | right].
        exists v. repeat split; try assumption; lia.
    - destruct (gate w); [intros H; exact H|]. destruct ph as [|j|]; cbn [dinv]; sw; intros H; exact H.
  Qed.

  (* inside one read transaction every table of the dump is read at the same committed state
     (hypothesis of the model: a SQLite read transaction keeps the snapshot of its first read) *)
  Theorem dump_is_version sched w0 w :
    k w0 = k0 -> snap w0 = None -> out w0 = [] ->
    run (dump_step tables tables) sched (w0, DBegin) = (w, DDone) ->
    point_in_time k0 w tables.
  Proof.
    intros Hk Hs Ho Hrun.
    assert (I : dinv (w, DDone)).
    { rewrite <- Hrun. apply run_inv; [apply dinv_step | apply dinv_env |].
      cbn [dinv]. repeat split; try assumption; lia. }
    cbn [dinv] in I. destruct I as (_ & [[E _] | H]); [contradiction | exact H].
  Qed.
End Dump.

(* the dump as it was before the fix (autocommit): a commit between two reads shows in the output *)
Theorem dump_without_transaction_refuted :
  exists sched w0, k w0 = 0 /\ snap w0 = None /\ out w0 = [] /\
    let '(w, ph) := run (dump_step 0 2) sched (w0, DBegin) in
    ph = DDone /\ ~ point_in_time 0 w 2.
Proof.
  exists [EStep; EStep; ECommit; EStep; EStep], {| k := 0; m := 0; gate := false; snap := None; out := [] |}.
  repeat split. intros (v & Ho & _). vm_compute in Ho. inversion Ho; subst. discriminate.
Qed.

Example dump_ex :
  let w0 := {| k := 4; m := 0; gate := false; snap := None; out := [] |} in
  out (fst (run (dump_step 3 3) [EStep; ECommit; EStep; ECommit; EStep; ECheckpoint; EStep; ECommit; EStep] (w0, DBegin))) = [5; 5; 5].
Proof. vm_compute. reflexivity. Qed.

(* the bracket closed before the last query (the one listing indexes, triggers and views): the tables and rows
   are one version, the schema objects a later one *)
Theorem dump_last_query_outside_transaction_refuted :
  exists sched w0, k w0 = 0 /\ snap w0 = None /\ out w0 = [] /\
    let '(w, ph) := run (dump_step 2 3) sched (w0, DBegin) in
    ph = DDone /\ out w = [0; 0; 1] /\ ~ point_in_time 0 w 3.
Proof.
  exists [EStep; EStep; EStep; ECommit; EStep; EStep], {| k := 0; m := 0; gate := false; snap := None; out := [] |}.
  repeat split. intros (v & Ho & _). vm_compute in Ho. inversion Ho; subst. discriminate.
Qed.

(* ================================================================== vacuum / DELETE format *)
Theorem online_is_version k0 sched w0 w :
  k w0 = k0 -> out w0 = [] ->
  run online_step sched (w0, OStep) = (w, ODone) -> point_in_time k0 w 1.
Proof.
  intros Hk Ho Hrun.
  set (I := fun s : world * ophase => let '(w, ph) := s in k0 <= k w /\
              match ph with OStep => out w = [] | ODone => exists v, out w = [v] /\ k0 <= v <= k w end).
  assert (X : I (w, ODone)).
  { rewrite <- Hrun. apply run_inv.
    - intros [w1 ph]. destruct ph; unfold I, online_step; sw.
      + intros (H1 & H2). rewrite H2. split; [assumption|]. exists (k w1). cbn [app]. split; [reflexivity | split; [assumption | apply N.le_refl]].
      + tauto.
    - intros e [w1 ph]. cbn [fst snd]. destruct e; cbn [env_step]; [| |tauto].
      + destruct ph; unfold I; sw.
        * intros (H1 & H2). split; [lia | assumption].
        * intros (H1 & v & H2 & H3). split; [lia|]. exists v. split; [assumption | lia].
      + destruct (gate w1); [tauto|]. destruct ph; unfold I; sw; tauto.
    - unfold I. split; [lia | assumption]. }
  cbn in X. destruct X as (_ & v & H1 & H2). exists v. split; assumption.
Qed.

(* ================================================================== the gate while copying *)
(* While the binary backup copies the main file it holds the gate — for every schedule, whether or not the
   pre-backup snapshot ran or succeeded (i.e. whatever the WAL held at the start) — so a checkpoint attempted
   in that window is refused and leaves the file alone. *)
Theorem gate_held_during_copy snap_ok chunks sched w0 w j :
  run (bin_step true snap_ok chunks) sched (w0, BSnap) = (w, BCopy j) ->
  checkpoint_refused w = true /\ env_step ECheckpoint w = w.
Proof.
  intros Hrun.
  set (Inv := fun s : world * bphase => match snd s with BCopy _ => gate (fst s) = true | _ => True end).
  assert (X : Inv (w, BCopy j)).
  { rewrite <- Hrun. apply run_inv.
    - intros [w1 ph] H. unfold Inv in *. destruct ph as [| |[|i]|]; cbn [bin_step snd fst] in *.
      + exact Logic.I.
      + reflexivity.
      + exact Logic.I.
      + exact H.
      + exact H.
    - intros e [w1 ph] H. unfold Inv in *. cbn [fst snd] in *. destruct ph; try exact Logic.I.
      destruct e; cbn [env_step]; [exact H | rewrite H; exact H | exact H].
    - exact Logic.I. }
  unfold Inv in X. cbn [fst snd] in X. unfold checkpoint_refused. split; [exact X|].
  cbn [env_step]. rewrite X. reflexivity.
Qed.

(* the other formats never take the gate: a checkpoint attempted while they run is not refused by them *)
Theorem dump_never_holds_gate covered queries sched w0 w ph :
  gate w0 = false -> run (dump_step covered queries) sched (w0, DBegin) = (w, ph) -> checkpoint_refused w = false.
Proof.
  intros Hg Hrun. set (I := fun s : world * dphase => gate (fst s) = false).
  assert (X : I (w, ph)).
  { rewrite <- Hrun. apply run_inv.
    - intros [w1 p]. unfold I. cbn [fst]. destruct p as [|[|i]|]; cbn [dump_step fst]; intros H;
        try destruct (0 <? covered)%nat; try destruct (queries - S i <? covered)%nat;
        destruct (snap w1) as [[v|]|]; sw; exact H.
    - intros e [w1 p]. unfold I. cbn [fst snd]. destruct e; cbn [env_step]; intros H; sw; try exact H.
      rewrite H. sw. first [exact H | reflexivity].
    - exact Hg. }
  exact X.
Qed.

Theorem online_never_holds_gate sched w0 w ph :
  gate w0 = false -> run online_step sched (w0, OStep) = (w, ph) -> checkpoint_refused w = false.
Proof.
  intros Hg Hrun. set (I := fun s : world * ophase => gate (fst s) = false).
  assert (X : I (w, ph)).
  { rewrite <- Hrun. apply run_inv.
    - intros [w1 p]. unfold I. cbn [fst]. destruct p; cbn [online_step fst]; intros H; sw; exact H.
    - intros e [w1 p]. unfold I. cbn [fst snd]. destruct e; cbn [env_step]; intros H; sw; try exact H.
      rewrite H. sw. first [exact H | reflexivity].
    - exact Hg. }
  exact X.
Qed.

(* the schedule the tie forces: first chunk, commit, snapshot attempt, remaining chunks *)
Example stalled_consumer_ex :
  let w0 := {| k := 5; m := 5; gate := false; snap := None; out := [] |} in
  (* WAL empty at the start (no pre-backup snapshot): the file stays at version 5 *)
  out (fst (run (bin_step true false 3) [EStep; EStep; EStep; ECommit; ECheckpoint; EStep; EStep; EStep] (w0, BSnap))) = [5; 5; 5]
  (* a backup that takes the gate only when the WAL was not empty mixes versions on that schedule *)
  /\ out (fst (run (bin_step false false 3) [EStep; EStep; EStep; ECommit; ECheckpoint; EStep; EStep; EStep] (w0, BSnap))) = [5; 6; 6].
Proof. vm_compute. split; reflexivity. Qed.

(* the judgement the tie applies to a loaded backup is the property *)
Theorem obs_ok_spec lo w n v :
  out w = repeat v n -> n <> O -> (obs_ok lo (k w) (out w) = true <-> lo <= v <= k w).
Proof.
  intros Ho Hn. rewrite Ho. destruct n as [|n]; [congruence|]. cbn [repeat obs_ok].
  assert (F : forallb (N.eqb v) (repeat v n) = true).
  { clear. induction n as [|n IH]; [reflexivity|]. cbn [repeat forallb]. rewrite N.eqb_refl. exact IH. }
  rewrite F. cbn [andb]. lia.
Qed.

(* ================================================================== the inter-node stream *)
Section Stream.
  (* gzip as seen by gzip.Reader with Multistream(false): [complete s] = the reader reaches the trailer and
     the checks pass, having consumed exactly s.  Hypothesis: no strict prefix of a complete stream is complete. *)
  Variable complete : list N -> bool.
  Hypothesis prefix_free : forall s n, complete s = true -> (n < length s)%nat -> complete (firstn n s) = false.

  (* the client on the bytes it received: header, then follow the gzip framing to the trailer *)
  Definition client (hdr : nat) (received : list N) : bool :=
    (hdr <=? length received)%nat && complete (skipn hdr received).

  Theorem cut_stream_is_error (hdr gzs : list N) (cut : nat) :
    complete gzs = true -> (length hdr + length gzs > cut)%nat ->
    client (length hdr) (firstn cut (hdr ++ gzs)) = false.
  Proof.
    intros Hc Hcut. unfold client.
    destruct (Nat.leb_spec (length hdr) (length (firstn cut (hdr ++ gzs)))) as [Hl|Hl]; [|reflexivity].
    cbn [andb]. rewrite firstn_length, app_length in Hl.
    assert (Hge : (length hdr <= cut)%nat) by lia.
    rewrite firstn_app. rewrite skipn_app.
    rewrite firstn_length. replace (length hdr - Nat.min cut (length hdr))%nat with O by lia.
    rewrite skipn_all2 by (rewrite firstn_length; lia). cbn [app skipn].
    apply prefix_free; [assumption | lia].
  Qed.

  Theorem complete_stream_is_accepted (hdr gzs : list N) (cut : nat) :
    complete gzs = true -> (length hdr + length gzs <= cut)%nat ->
    client (length hdr) (firstn cut (hdr ++ gzs)) = true.
  Proof.
    intros Hc Hcut. unfold client. rewrite firstn_all2 by (rewrite app_length; lia).
    rewrite app_length. replace (length hdr <=? length hdr + length gzs)%nat with true by (symmetry; apply Nat.leb_le; lia).
    rewrite skipn_app, skipn_all, Nat.sub_diag. cbn [app skipn andb]. exact Hc.
  Qed.

  (* the byte-count function the tie evaluates agrees with the client on every stream and cut position *)
  Theorem client_ok_spec (hdr gzs : list N) (cut : nat) :
    complete gzs = true ->
    client (length hdr) (firstn cut (hdr ++ gzs)) = client_ok (N.of_nat (length hdr)) (N.of_nat (length gzs)) (N.of_nat cut).
  Proof.
    intros Hc. unfold client_ok. destruct (Nat.le_gt_cases (length hdr + length gzs) cut) as [H|H].
    - rewrite complete_stream_is_accepted by assumption. symmetry. apply N.leb_le. lia.
    - rewrite cut_stream_is_error by (assumption || lia). symmetry. apply N.leb_gt. lia.
  Qed.
End Stream.

(* ================================================================== the destination fails *)
Definition total_len (writes : list N) : N := fold_right N.add 0 writes.

Lemma write_all_spec writes : forall room, write_all writes room = (total_len writes <=? room).
Proof.
  induction writes as [|n r IH]; intros room; cbn [write_all total_len fold_right].
  - symmetry. apply N.leb_le. lia.
  - destruct (N.leb_spec n room) as [H|H].
    + rewrite IH. fold (total_len r). destruct (N.leb_spec (total_len r) (room - n)); symmetry; [apply N.leb_le | apply N.leb_gt]; lia.
    + symmetry. apply N.leb_gt. fold (total_len r). lia.
Qed.

Lemma total_len_app a b : total_len (a ++ b) = total_len a + total_len b.
Proof. induction a as [|x a IH]; cbn [app total_len fold_right]; [reflexivity|]. fold (total_len (a ++ b)) (total_len a). lia. Qed.

(* however the stream is split into writes (copy loop, then Close), a destination that cannot take all of it
   makes the backup fail, and one that can lets it succeed: the rule the tie evaluates *)
Theorem destination_failure_is_error copy_writes close_writes room :
  backup_result copy_writes close_writes room
  = producer_ok (total_len copy_writes + total_len close_writes) room.
Proof. unfold backup_result, producer_ok. rewrite write_all_spec, total_len_app. reflexivity. Qed.

Corollary destination_failure_never_success copy_writes close_writes room :
  room < total_len copy_writes + total_len close_writes -> backup_result copy_writes close_writes room = false.
Proof. intros H. rewrite destination_failure_is_error. unfold producer_ok. apply N.leb_gt. exact H. Qed.

(* a backup that looks only at the copy loop's writes (the error of Close dropped) reports success for a
   destination that failed during the final flush *)
Theorem close_error_dropped_refuted :
  exists copy_writes close_writes room,
    room < total_len copy_writes + total_len close_writes /\ write_all copy_writes room = true.
Proof. exists [10; 32768], [4000; 8], 36000. split; vm_compute; reflexivity. Qed.

(* a stream cut anywhere is never answered with 200 *)
Theorem cut_is_never_200 hdr gz cut written :
  cut < hdr + gz -> http_status (client_ok hdr gz cut) written <> H200.
Proof.
  intros H. unfold client_ok. replace (hdr + gz <=? cut) with false by lia.
  unfold http_status. destruct (written =? 0); discriminate.
Qed.

(* the client as it was before the fix, for compress=true: copy until EOF, report success *)
Definition old_client_compressed (hdr : nat) (received : list N) : bool := (hdr <=? length received)%nat.
Theorem old_client_refuted :
  exists hdr gzs cut, (cut < length hdr + length gzs)%nat /\ old_client_compressed (length hdr) (firstn cut (hdr ++ gzs)) = true.
Proof. exists [0; 0], [31; 139; 8; 0], 4%nat. split; [cbn; lia | reflexivity]. Qed.
