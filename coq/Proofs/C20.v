(* C20 — specification and proofs about Model.C20 (forwarding to the leader), composed with
   Model.C18 (what the leader does with the forwarded command) and Model.C16 (what a follower's
   store answers). *)
From Coq Require Import List String Bool NArith Lia.
From RQ Require Import Lib.AList Model.C19 Model.C18 Model.C20 Proofs.C18.
From RQ Require Model.C16.
Import ListNotations.
Open Scope string_scope.

(* the leader-side call a forwarded request must result in — from the property: "executed once on the leader" *)
Definition call_name (k : kind) : string :=
  match k with
  | KExecute => "Execute" | KQuery => "Query" | KRequest => "Request" | KBackup => "Backup"
  | KLoad => "Load" | KRemove => "Remove" | KStepdown => "Stepdown"
  end.

(* the leader's credential store authorizes (u, p) for what the command requires *)
Definition leader_authorizes (k : kind) (e : env) (u p : string) : bool :=
  match required (cmd_name k) with
  | Some g => holds (authz (l_store e) u p) true g
  | None => true
  end.

Lemma term_cmd k : exists h, term_of (cmd_name k) = Some h.
Proof. destruct k; eexists; reflexivity. Qed.

(* the leader's handler, reduced to the one boolean that matters *)
Definition remote_outcome (k : kind) (d : dbres) : pres :=
  match d, k with
  | DOk, _ => PRemote
  | DErr, _ => PRemoteErr
  | DErrUnauthorizedText, KBackup => PRemoteErr
  | DErrUnauthorizedText, KLoad => PRemoteErr
  | DErrUnauthorizedText, _ => PUnauthorized
  end.

Lemma remote_cases k e u p :
  remote k e u p =
  if leader_authorizes k e u p
  then (remote_outcome k (l_db e), [(call_name k, u, p)])
  else (PUnauthorized, []).
Proof.
  unfold remote, leader_authorizes, remote_outcome.
  destruct (term_cmd k) as [h Hh]. rewrite Hh.
  rewrite (run_konst _ h _ false true Hh).
  destruct k; cbn [cmd_name] in *;
    (injection Hh as <-);
    match goal with |- context [required ?n] => change (required n) with (ltac:(let v := eval vm_compute in (required n) in exact v)) end;
    cbv beta iota;
    match goal with |- context [holds ?a ?v ?g] => destruct (holds a v g) end;
    vm_compute; destruct (l_db e); reflexivity.
Qed.

(* ---- the theorems ---- *)

(* A request the local store refuses with ErrNotLeader, without redirect, leader known: it is
   executed by exactly one call on the leader, under exactly the caller's credentials, and the
   client receives the leader's results and the leader's index, marked as served by the leader.
   The local store operation ran once (and refused). *)
Theorem forward_transparent k e u p :
  f_local e = LNotLeader -> f_addr e = AKnown ->
  leader_authorizes k e u p = true -> l_db e = DOk ->
  serve k e false u p =
  ({| h_body := match k with KRemove | KStepdown => BEmpty | KLoad => BOther | _ => BResults end;
      h_status := 200;
      h_results := if has_results k then SLeader else SNobody;
      h_index := if json_errors k then SLeader else SNobody;
      h_served_by := match k with KBackup => SNobody | _ => SLeader end |},
   {| t_local := 1; t_addr := 1; t_remote := [(call_name k, u, p)] |}).
Proof.
  intros Hl Ha Hz Hd. unfold serve, proxy. rewrite Hl, Ha, remote_cases, Hz, Hd. destruct k; reflexivity.
Qed.

(* The client asked for a redirect: nothing is forwarded, nothing is executed anywhere, the answer is
   the redirect (or an error when the leader's API address cannot be found). *)
Theorem redirect_not_forwarded k e u p :
  f_local e = LNotLeader ->
  serve k e true u p =
  ({| h_body := BAny; h_status := if l_api_known e then 301 else 500;
      h_results := SNobody; h_index := SNobody; h_served_by := SNobody |},
   {| t_local := 1; t_addr := 0; t_remote := [] |}).
Proof. intros Hl. unfold serve, proxy. rewrite Hl. reflexivity. Qed.

(* Credentials the leader does not accept: the leader executes nothing and the client gets 401. *)
Theorem forward_unauthorized k e u p :
  f_local e = LNotLeader -> f_addr e = AKnown -> leader_authorizes k e u p = false ->
  serve k e false u p =
  ({| h_body := BAny; h_status := 401; h_results := SNobody; h_index := SNobody; h_served_by := SNobody |},
   {| t_local := 1; t_addr := 1; t_remote := [] |}).
Proof. intros Hl Ha Hz. unfold serve, proxy. rewrite Hl, Ha, remote_cases, Hz. reflexivity. Qed.

(* Transparency for errors: the forwarded-to node executed the call and answered with an error (it
   has just lost leadership: "not leader"; "leader not found"; a stale read; an execution error):
   exactly one call there, and the client receives an error response carrying THAT error's text —
   status 200 with a JSON error for execute/query/request, 500 otherwise — never a redirect it did
   not ask for, never nothing. *)
Theorem forward_error_transparent k e u p :
  f_local e = LNotLeader -> f_addr e = AKnown ->
  leader_authorizes k e u p = true -> l_db e = DErr ->
  serve k e false u p =
  ({| h_body := match k with KBackup => BAny | _ => BRemoteError end;
      h_status := if json_errors k then 200 else 500;
      h_results := SNobody; h_index := SNobody; h_served_by := SNobody |},
   {| t_local := 1; t_addr := 1; t_remote := [(call_name k, u, p)] |}).
Proof.
  intros Hl Ha Hz Hd. unfold serve, proxy. rewrite Hl, Ha, remote_cases, Hz, Hd. reflexivity.
Qed.

(* The handler rule: a 301 is written only when the client asked for a redirect; and a request that
   did not ask for one is never answered with nothing — an empty body only for a remove / stepdown
   that somebody executed. *)
Theorem redirect_only_if_requested k e u p :
  let o := fst (serve k e false u p) in
  h_status o <> 301%N /\
  (h_body o = BEmpty -> (k = KRemove \/ k = KStepdown) /\ h_status o = 200%N /\ h_served_by o <> SNobody).
Proof.
  unfold serve, proxy.
  destruct (f_local e);
    [ | destruct (f_addr e);
        [ rewrite remote_cases; destruct (leader_authorizes k e u p); [destruct (l_db e)|] | | ] | ];
  destruct k; cbn; (split; [discriminate|]); intros H; try discriminate H;
  (split; [auto|split; [reflexivity|discriminate]]).
Qed.

(* In every situation: the local store operation is tried exactly once (never again after a
   forward), at most one call reaches the leader, only for a refused request without redirect, and
   always under the caller's credentials; and whoever's results the client sees did execute it. *)
Theorem at_most_once k e nf u p :
  let '(o, t) := serve k e nf u p in
  t_local t = 1 /\ (List.length (t_remote t) <= 1)%nat /\
  (forall c, In c (t_remote t) -> c = (call_name k, u, p) /\ f_local e = LNotLeader /\ nf = false) /\
  (h_results o = SLeader \/ h_index o = SLeader \/ h_served_by o = SLeader -> t_remote t = [(call_name k, u, p)]) /\
  (h_results o = SFollower \/ h_index o = SFollower \/ h_served_by o = SFollower -> f_local e = LOk /\ t_remote t = []).
Proof.
  unfold serve, proxy.
  assert (T : forall (P : Prop), P -> P) by auto.
  destruct (f_local e) eqn:Hl;
    [ | destruct nf; [ | destruct (f_addr e);
          [ rewrite remote_cases; destruct (leader_authorizes k e u p); [destruct (l_db e); destruct k|] | | ] ] | ];
  cbn; repeat split; try lia; try contradiction;
  try (intros c [<-|[]]; auto; fail);
  try (intro HH; reflexivity);
  try (intro HH; split; [exact Hl | reflexivity]);
  try (intro HH; exfalso; destruct HH as [HH|[HH|HH]]; revert HH;
       try destruct k; try destruct (l_api_known e); cbn; discriminate);
  try (match goal with H : In _ _ |- _ => destruct H as [<-|[]]; auto end; fail);
  try (exfalso; match goal with H : _ \/ _ \/ _ |- _ =>
         destruct H as [H|[H|H]]; revert H; try destruct k; try destruct (l_api_known e); cbn; discriminate end).
  all: match goal with H : _ = ?c \/ False |- ?c = _ => destruct H as [<-|[]]; reflexivity end.
Qed.

(* ---- the follower's pooled connections: no forwarded request is answered with another's answer ---- *)

Definition clean (st : pstate) : Prop :=
  Forall (fun c : pconn => c = []) (pl_pool st) /\ pl_reused st = false.

Lemma clean_concat (l : list pconn) : Forall (fun c : pconn => c = []) l -> List.concat l = [].
Proof. induction 1 as [|c l Hc _ IH]; [reflexivity|]. cbn [List.concat]. now rewrite Hc, IH. Qed.

Lemma forward_clean st s :
  clean st ->
  let '(r, st') := forward false st s in
  clean st' /\ (r = Some (ps_id s) \/ (r = None /\ ps_slow s = true)).
Proof.
  intros [Hp Hr]. unfold forward. rewrite Hr.
  assert (E : exists rest, (match pl_pool st with c :: rest => (c, rest) | [] => ([], []) end) = ([], rest)
                           /\ Forall (fun c : pconn => c = []) rest).
  { destruct (pl_pool st) as [|c rest]; [exists []; auto|].
    inversion Hp as [|? ? Hc Hrest]; subst. exists rest. auto. }
  destruct E as (rest & -> & Hrest). cbn [orb attempt].
  destruct (ps_slow s) eqn:Hs.
  - destruct (ps_retry s); cbn [attempt]; rewrite ?Hs; cbn [put]; (split; [split; [exact Hrest | reflexivity] | right; auto]).
  - cbn [put]. split; [|left; reflexivity]. split; [|reflexivity].
    apply Forall_app. split; [exact Hrest | constructor; [reflexivity | constructor]].
Qed.

(* With the client rule (a connection whose exchange failed is never pooled again): every
   forwarded request either fails with a timeout — only when the leader was slower than its
   deadline — or receives the answer to ITSELF; no connection with an owed answer is ever reused,
   and none is left in the pool. *)
Theorem pool_transparent ss : forall st, clean st ->
  let '(rs, st') := forward_all false st ss in
  Forall2 (fun s r => r = Some (ps_id s) \/ (r = None /\ ps_slow s = true)) ss rs
  /\ pl_reused st' = false /\ owed st' = 0%nat.
Proof.
  induction ss as [|s r IH]; intros st Hc; cbn [forward_all].
  - destruct Hc as [Hp Hr]. repeat split; [constructor | exact Hr |].
    unfold owed. now rewrite (clean_concat _ Hp).
  - pose proof (forward_clean st s Hc) as H. destruct (forward false st s) as [x st1].
    destruct H as [Hc1 Hx]. specialize (IH st1 Hc1).
    destruct (forward_all false st1 r) as [xs st2]. destruct IH as (Hf & Hr & Ho).
    repeat split; [constructor; assumption | exact Hr | exact Ho].
Qed.

Lemma clean0 : clean pstate0. Proof. split; [constructor | reflexivity]. Qed.

Theorem pool_transparent0 ss :
  let '(rs, st') := forward_all false pstate0 ss in
  Forall2 (fun s r => r = Some (ps_id s) \/ (r = None /\ ps_slow s = true)) ss rs
  /\ pl_reused st' = false /\ owed st' = 0%nat.
Proof. exact (pool_transparent ss pstate0 clean0). Qed.

(* what the rule buys: without it the next requests are answered with the timed-out request's answer *)
Example ex_pool :
  let ss := [ {| ps_id := 1; ps_slow := true; ps_retry := true |};
              {| ps_id := 2; ps_slow := false; ps_retry := true |};
              {| ps_id := 3; ps_slow := false; ps_retry := true |} ]%N in
  fst (forward_all false pstate0 ss) = [None; Some 2; Some 3]%N
  /\ fst (forward_all true pstate0 ss) = [None; Some 1; Some 1]%N
  /\ pl_reused (snd (forward_all true pstate0 ss)) = true.
Proof. vm_compute. auto. Qed.

(* ---- the follower's store (Model.C16, tied to store.Store by C16's check) ---- *)

Import C16.

(* requests that need the leader: strong and weak reads (AUTO on a voter is WEAK), and unified
   requests containing a write at any of these levels or NONE *)
Definition needs_leader (n : node_obs) (r : req) : bool :=
  match resolve_auto n (r_level r) with
  | LStrong | LWeak => true
  | LNone => match r_entry r with ERequest => negb (r_nrw r =? 0)%N | EQuery => false end
  | _ => false
  end.

Definition lres_of (o : outcome) : lres :=
  match o with
  | Local _ | ViaLog _ _ => LOk
  | ErrNotLeader => LNotLeader
  | _ => LErr
  end.

Lemma follower_refuses n r :
  n_leader n = false -> needs_leader n r = true -> dispatch n r = ErrNotLeader.
Proof.
  intros Hn Hr. unfold needs_leader in Hr. unfold dispatch, query_dispatch, request_dispatch.
  destruct (resolve_auto n (r_level r)) eqn:Hl; try discriminate; cbn [lin_step level_eqb];
    rewrite ?Hn; cbn [negb andb]; destruct (r_entry r); try discriminate;
    try destruct (r_nrw r =? 0)%N; cbn [negb andb] in *; try discriminate; try reflexivity.
Qed.

(* Never local: a request that needs the leader, arriving at a follower, is not executed against
   the follower's database and never goes through the follower's log; the client never sees
   follower results; what it gets is the redirect or the leader's answer. *)
Theorem never_local_on_follower n r k e nf u p :
  n_leader n = false -> needs_leader n r = true ->
  f_local e = lres_of (dispatch n r) ->
  (match dispatch n r with Local _ | ViaLog _ _ => False | _ => True end) /\
  let '(o, t) := serve k e nf u p in
  h_results o <> SFollower /\ h_index o <> SFollower /\ h_served_by o <> SFollower /\ t_local t = 1.
Proof.
  intros Hn Hr Hl. rewrite (follower_refuses n r Hn Hr) in *. split; [exact I|].
  pose proof (at_most_once k e nf u p) as H.
  destruct (serve k e nf u p) as [o t]. destruct H as (H1 & _ & _ & _ & H5).
  cbn [lres_of] in Hl.
  repeat split; try exact H1; intros E;
    (destruct H5 as [H5 _]; [auto|]; rewrite Hl in H5; discriminate).
Qed.

(* ---- non-vacuity ---- *)
Example ex_leader_file := [ {| username := "u1"; password := "pw1"; perms := ["execute"; "query"] |} ].
Example ex_env := {| f_local := LNotLeader; f_addr := AKnown; l_store := Some (load ex_leader_file);
                     l_db := DOk; l_api_known := true |}.
Example ex_forward :
  serve KExecute ex_env false "u1" "pw1" =
    ({| h_body := BResults; h_status := 200; h_results := SLeader; h_index := SLeader; h_served_by := SLeader |},
     {| t_local := 1; t_addr := 1; t_remote := [("Execute", "u1", "pw1")] |})
  /\ fst (serve KExecute ex_env true "u1" "pw1") = {| h_body := BAny; h_status := 301; h_results := SNobody; h_index := SNobody; h_served_by := SNobody |}
  /\ fst (serve KBackup ex_env false "u1" "pw1") = {| h_body := BAny; h_status := 401; h_results := SNobody; h_index := SNobody; h_served_by := SNobody |}
  /\ leader_authorizes KExecute ex_env "u1" "pw1" = true /\ leader_authorizes KBackup ex_env "u1" "pw1" = false.
Proof. vm_compute. auto. Qed.
