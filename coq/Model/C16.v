(* C16 — model of store/state.go IsStaleRead, Store.isStaleRead and of the consistency-level
   dispatch of Store.Query and Store.Request (store/store.go).  The linearizable wait is
   Model/C02_ReadIndex.v.  Executable definitions only; proofs are in Proofs/C16.v. *)
From Coq Require Import List NArith ZArith Bool.
From RQ Require Export Model.C02_ReadIndex.
Import ListNotations.
Local Open Scope Z_scope.

(* ---------- staleness ---------- *)

(* what IsStaleRead is given, with the two durations it derives already taken:
   so_since = time.Since(leaderLastContact), so_delta = lastFSMUpdateTime - lastAppendedAtTime (ns) *)
Record stale_obs := {
  so_since : Z;
  so_delta : Z;
  so_appended_zero : bool;   (* lastAppendedAtTime.IsZero() *)
  so_fsm_idx : N;
  so_cmd_commit : N          (* raftTn.CommandCommitIndex() *)
}.

Definition is_stale (o : stale_obs) (fresh : Z) (strict : bool) : bool :=
  if fresh =? 0 then false
  else if so_since o >? fresh then true
  else if negb strict then false
  else if so_appended_zero o then false
  else if (so_fsm_idx o =? so_cmd_commit o)%N then false
  else so_delta o >? fresh.

(* Store.isStaleRead *)
Definition store_is_stale (leader : bool) (o : stale_obs) (fresh : Z) (strict : bool) : bool :=
  if leader then false else is_stale o fresh strict.

(* ---------- dispatch ---------- *)

Inductive level := LNone | LWeak | LStrong | LAuto | LLin.
Inductive entry := EQuery | ERequest.

Definition level_eqb (a b : level) : bool :=
  match a, b with
  | LNone, LNone | LWeak, LWeak | LStrong, LStrong | LAuto, LAuto | LLin, LLin => true
  | _, _ => false
  end.

(* the node as the request finds it *)
Record node_obs := {
  n_leader : bool;        (* raft.State() == Leader *)
  n_voter : bool;         (* IsVoter() *)
  n_ready : bool;         (* Ready() *)
  n_stale : stale_obs;
  n_lin : lin_obs         (* what waitForLinearizableRead would read *)
}.

Record req := {
  r_entry : entry;
  r_level : level;
  r_fresh : Z;
  r_strict : bool;
  r_nrw : N;              (* Request only: statements classified read-write *)
  r_nro : N               (* Request only: statements classified read-only *)
}.

Inductive outcome :=
  | Local (l : level)                    (* executed on the local database, no log entry; l = level in force *)
  | ViaLog (l : level) (sets_srt : bool) (* raft.Apply; strongReadTerm := read term when sets_srt *)
  | ErrNotLeader | ErrNotReady | ErrStale | ErrVerify | ErrFsmTimeout.

Definition resolve_auto (n : node_obs) (l : level) : level :=
  match l with
  | LAuto => if n_voter n then LWeak else LNone
  | _ => l
  end.

(* the part of both entry points dealing with LINEARIZABLE: Some level = continue at that level *)
Definition lin_step (n : node_obs) (l : level) : level + outcome :=
  match l with
  | LLin => match wait_lin (n_lin n) with
            | LinOk => inl LLin
            | LinStrongNeeded => inl LStrong
            | LinNotLeader => inr ErrNotLeader
            | LinNotReady => inr ErrNotReady
            | LinVerifyFailed => inr ErrVerify
            | LinTermChanged => inr ErrStale
            | LinTimeout => inr ErrFsmTimeout
            end
  | _ => inl l
  end.

Definition query_dispatch (n : node_obs) (r : req) : outcome :=
  match lin_step n (resolve_auto n (r_level r)) with
  | inr e => e
  | inl l =>
      if level_eqb l LStrong then
        if negb (n_leader n) then ErrNotLeader
        else if negb (n_ready n) then ErrNotReady
        else ViaLog LStrong true
      else if level_eqb l LWeak && negb (n_leader n) then ErrNotLeader
      else if level_eqb l LNone && store_is_stale (n_leader n) (n_stale n) (r_fresh r) (r_strict r) then ErrStale
      else Local l
  end.

Definition request_dispatch (n : node_obs) (r : req) : outcome :=
  match lin_step n (resolve_auto n (r_level r)) with
  | inr e => e
  | inl l =>
      if (r_nrw r =? 0)%N && negb (level_eqb l LStrong) then
        if level_eqb l LNone && store_is_stale (n_leader n) (n_stale n) (r_fresh r) (r_strict r) then ErrStale
        else if level_eqb l LWeak && negb (n_leader n) then ErrNotLeader
        else Local l
      else if negb (n_leader n) then ErrNotLeader
      else if negb (n_ready n) then ErrNotReady
      else ViaLog l (negb (r_nro r =? 0)%N)
  end.

Definition dispatch (n : node_obs) (r : req) : outcome :=
  match r_entry r with EQuery => query_dispatch n r | ERequest => request_dispatch n r end.

(* strongReadTerm after the call *)
Definition srt_after (n : node_obs) (r : req) : N :=
  match dispatch n r with
  | ViaLog _ true => lo_term (n_lin n)
  | _ => lo_srt (n_lin n)
  end.

(* ---------- correspondence ---------- *)

(* what the driver sees of a call *)
Inductive err_class := ENone | ENotLeader | ENotReady | EStale | EVerify | EFsmTimeout | EOther.

Record seen := {
  s_err : err_class;
  s_via_log : bool;          (* the node's raft log grew during the call *)
  s_level : option level;    (* level reported by Query on success; None for Request / errors *)
  s_srt_after : N;
  s_verified : bool          (* a VerifyLeader call was counted during the call *)
}.

Definition expect_err (o : outcome) : err_class :=
  match o with
  | Local _ | ViaLog _ _ => ENone
  | ErrNotLeader => ENotLeader | ErrNotReady => ENotReady | ErrStale => EStale
  | ErrVerify => EVerify | ErrFsmTimeout => EFsmTimeout
  end.
Definition expect_via_log (o : outcome) : bool := match o with ViaLog _ _ => true | _ => false end.
Definition expect_level (r : req) (o : outcome) : option level :=
  match r_entry r, o with
  | EQuery, Local l => Some l
  | EQuery, ViaLog l _ => Some l
  | _, _ => None
  end.
Definition expect_verified (n : node_obs) (r : req) : bool :=
  match resolve_auto n (r_level r) with LLin => lin_calls_verify (n_lin n) | _ => false end.

Definition err_eqb (a b : err_class) : bool :=
  match a, b with
  | ENone, ENone | ENotLeader, ENotLeader | ENotReady, ENotReady | EStale, EStale
  | EVerify, EVerify | EFsmTimeout, EFsmTimeout | EOther, EOther => true
  | _, _ => false
  end.
Definition olevel_eqb (a b : option level) : bool :=
  match a, b with Some x, Some y => level_eqb x y | None, None => true | _, _ => false end.

Inductive case :=
  | CStale (leader : bool) (o : stale_obs) (fresh : Z) (strict : bool) (impl : bool)
  | CDispatch (n : node_obs) (r : req) (s : seen).

Definition check_case (c : case) : bool :=
  match c with
  | CStale leader o fresh strict impl => Bool.eqb (store_is_stale leader o fresh strict) impl
  | CDispatch n r s =>
      let o := dispatch n r in
      err_eqb (expect_err o) (s_err s)
      && Bool.eqb (expect_via_log o) (s_via_log s)
      && olevel_eqb (expect_level r o) (s_level s)
      && (srt_after n r =? s_srt_after s)%N
      && Bool.eqb (expect_verified n r) (s_verified s)
  end.
