(* C15 — proofs, part 1 (one token): sqlToken of the guard model reads exactly the token that the
   SQLite model's sqlite3GetToken reads.  Part 2 is Proofs/C15.v.
   C15 — proofs: the guard model (Model/C15.v, from the Go code) flags every text that the
   SQLite reading model (Model/C15_Sqlite.v, from SQLite's lexical rules and grammar) says has
   an effect on a critical setting. *)
From Coq Require Import List NArith Bool String Lia ZifyBool ZifyNat ZifyN Btauto Arith.
From RQ Require Import Model.C15_Sqlite Model.C15.
Import ListNotations.
Local Open Scope N_scope.

(* ---------- bytes: closed boolean facts by enumeration below 256, by arithmetic above ---------- *)

Lemma forall_byte (P : N -> bool) :
  forallb P (map N.of_nat (seq 0 256)) = true -> forall c, c < 256 -> P c = true.
Proof.
  intros H c Hc. rewrite forallb_forall in H. apply H.
  rewrite <- (N2Nat.id c). apply in_map. apply in_seq. lia.
Qed.

Ltac big_byte c :=
  repeat match goal with
         | |- context [N.eqb c ?k] => replace (N.eqb c k) with false by (symmetry; apply N.eqb_neq; lia)
         | |- context [N.leb ?k c] => replace (N.leb k c) with true by (symmetry; apply N.leb_le; lia)
         | |- context [N.leb c ?k] => replace (N.leb c k) with false by (symmetry; apply N.leb_gt; lia)
         end.

(* proves  forall c, P c = true  for P built from comparisons of c with literals *)
Ltac byte_tac :=
  let c := fresh "c" in
  intro c; destruct (N.lt_ge_cases c 256) as [Hlt|Hge];
  [ revert c Hlt; apply forall_byte; vm_compute; reflexivity
  | cbv beta delta [g_is_space g_is_idchar sq_isspace sq_idchar sq_isxdigit ai_class to_lower]; big_byte c; reflexivity ].

Lemma is_space_eq : forall c, Bool.eqb (g_is_space c) (sq_isspace c) = true.
Proof. byte_tac. Qed.
Lemma is_idchar_eq : forall c, Bool.eqb (g_is_idchar c) (sq_idchar c) = true.
Proof. byte_tac. Qed.

Lemma g_is_space_eq c : g_is_space c = sq_isspace c.
Proof. apply eqb_prop, is_space_eq. Qed.
Lemma g_is_idchar_eq c : g_is_idchar c = sq_idchar c.
Proof. apply eqb_prop, is_idchar_eq. Qed.

Definition cc_eqb (a b : cc) : bool :=
  match a, b with
  | CC_SPACE, CC_SPACE | CC_MINUS, CC_MINUS | CC_SLASH, CC_SLASH | CC_QUOTE, CC_QUOTE
  | CC_QUOTE2, CC_QUOTE2 | CC_SEMI, CC_SEMI | CC_DOT, CC_DOT | CC_EQ, CC_EQ | CC_LP, CC_LP
  | CC_RP, CC_RP | CC_VAR, CC_VAR | CC_X, CC_X | CC_IDSTART, CC_IDSTART | CC_DIGIT, CC_DIGIT
  | CC_BOM, CC_BOM | CC_SINGLE, CC_SINGLE => true
  | _, _ => false
  end.
Lemma cc_eqb_eq a b : cc_eqb a b = true -> a = b.
Proof. destruct a, b; cbn; congruence. Qed.

(* the guard's first-byte tests against aiClass *)
Definition var_cond (c : N) := (c =? 36) || (c =? 64) || (c =? 58) || (c =? 35).
Definition quote_cond (c : N) := (c =? 39) || (c =? 34) || (c =? 96).

Lemma class_space : forall c, implb (negb (c =? 11) && g_is_space c) (cc_eqb (ai_class c) CC_SPACE) = true.
Proof. byte_tac. Qed.
Lemma class_quote : forall c, implb (quote_cond c) (cc_eqb (ai_class c) CC_QUOTE) = true.
Proof. unfold quote_cond. byte_tac. Qed.
Lemma class_var : forall c, implb (var_cond c) (cc_eqb (ai_class c) CC_VAR) = true.
Proof. unfold var_cond. byte_tac. Qed.
Lemma class_id : forall c,
  implb (g_is_idchar c && negb (var_cond c))
        (match ai_class c with
         | CC_X => (c =? 120) || (c =? 88)
         | CC_DIGIT => (48 <=? c) && (c <=? 57)
         | CC_BOM => (c =? 239)
         | CC_IDSTART => negb ((c =? 120) || (c =? 88)) && negb ((48 <=? c) && (c <=? 57)) && negb (c =? 239)
         | _ => false
         end) = true.
Proof. unfold var_cond. byte_tac. Qed.
Lemma class_rest : forall c,
  implb (negb (negb (c =? 11) && g_is_space c) && negb (quote_cond c) && negb (c =? 91) && negb (c =? 59)
         && negb (c =? 46) && negb (c =? 40) && negb (c =? 61) && negb (var_cond c) && negb (g_is_idchar c))
        (match ai_class c with
         | CC_SINGLE | CC_RP => true
         | CC_MINUS => c =? 45
         | CC_SLASH => c =? 47
         | _ => false
         end) = true.
Proof. unfold var_cond, quote_cond. byte_tac. Qed.
Lemma xdigit_not_quote : forall c, implb (sq_isxdigit c) (negb (c =? 39)) = true.
Proof. byte_tac. Qed.
Lemma lower_eq : forall c, ((if (65 <=? c) && (c <=? 90) then c + 97 - 65 else c) =? to_lower c) = true.
Proof.
  intro c. unfold to_lower. destruct ((65 <=? c) && (c <=? 90)) eqn:E; apply N.eqb_eq; lia.
Qed.

Lemma g_ascii_lower_eq s : g_ascii_lower s = map to_lower s.
Proof. unfold g_ascii_lower. apply map_ext. intro c. apply N.eqb_eq, lower_eq. Qed.

(* ---------- the guard's scanning loops against the C loops ---------- *)

Lemma drop_while_ext p q l : (forall c, p c = q c) -> drop_while p l = drop_while q l.
Proof. intro H. induction l as [|c r IH]; cbn; [reflexivity|]. rewrite H, IH. reflexivity. Qed.
Lemma take_while_ext p q l : (forall c, p c = q c) -> take_while p l = take_while q l.
Proof. intro H. induction l as [|c r IH]; cbn; [reflexivity|]. rewrite H, IH. reflexivity. Qed.

Lemma run_skipn p l : skipn (g_run p l) l = drop_while p l.
Proof. induction l as [|c r IH]; cbn; [reflexivity|]. destruct (p c); cbn; [exact IH|reflexivity]. Qed.
Lemma run_firstn p l : firstn (g_run p l) l = take_while p l.
Proof. induction l as [|c r IH]; cbn; [reflexivity|]. destruct (p c); cbn; [now rewrite IH|reflexivity]. Qed.
Lemma run_le p l : (g_run p l <= List.length l)%nat.
Proof. induction l as [|c r IH]; cbn; [lia|]. destruct (p c); cbn; lia. Qed.

Definition idx_or_len (o : option nat) (l : bytes) : nat := match o with Some n => n | None => List.length l end.

(* strings.IndexByte: skipping up to the first c (or everything) *)
Lemma index_byte_skipn c l :
  skipn (idx_or_len (g_index_byte c l) l) l = drop_while (fun x => negb (x =? c)) l.
Proof.
  induction l as [|x r IH]; cbn; [reflexivity|].
  destruct (x =? c) eqn:E; cbn; [reflexivity|].
  destruct (g_index_byte c r) as [n|]; cbn in *; exact IH.
Qed.
Lemma index_byte_some c l n : g_index_byte c l = Some n ->
  (n < List.length l)%nat /\ skipn n l = c :: skipn (S n) l.
Proof.
  revert n. induction l as [|x r IH]; cbn; intros n H; [discriminate|].
  destruct (N.eqb_spec x c) as [->|Hne].
  - injection H as <-. cbn. split; [lia|reflexivity].
  - destruct (g_index_byte c r) as [m|]; cbn in H; [|discriminate]. injection H as <-.
    destruct (IH m eq_refl) as [Hl Hs]. split; [lia|]. exact Hs.
Qed.
Lemma index_byte_none c l : g_index_byte c l = None -> drop_while (fun x => negb (x =? c)) l = [].
Proof.
  induction l as [|x r IH]; cbn; [reflexivity|].
  destruct (x =? c); cbn; [discriminate|]. destruct (g_index_byte c r); cbn; [discriminate|]. auto.
Qed.

Lemma skipn_S_tl {A} n (l : list A) : skipn (S n) l = tl (skipn n l).
Proof.
  revert l. induction n as [|n IH]; intros [|x r]; try reflexivity.
  change (skipn (S (S n)) (x :: r)) with (skipn (S n) r). rewrite IH. reflexivity.
Qed.

(* "/*" comment: strings.Index(s[2:], "*/") against the C loop *)
Lemma block_comment_skipn : forall l c,
  skipn (match g_index2 42 47 (c :: l) with Some n => n + 2 | None => List.length (c :: l) end)%nat (c :: l)
  = c_block_comment c l.
Proof.
  induction l as [|x r IH]; intro c.
  - reflexivity.
  - specialize (IH x).
    change (g_index2 42 47 (c :: x :: r))
      with (if (c =? 42) && (x =? 47) then Some 0%nat else option_map S (g_index2 42 47 (x :: r))).
    cbn [c_block_comment]. destruct ((c =? 42) && (x =? 47)) eqn:E.
    + reflexivity.
    + destruct (g_index2 42 47 (x :: r)) as [n|]; cbn [option_map].
      * change (S n + 2)%nat with (S (n + 2)). cbn [skipn]. exact IH.
      * cbn [List.length skipn] in *. exact IH.
Qed.

Lemma index2_bound : forall l c n, g_index2 42 47 (c :: l) = Some n -> (n + 2 <= List.length (c :: l))%nat.
Proof.
  induction l as [|y t IH]; intros c n En; [cbn in En; discriminate|].
  change (g_index2 42 47 (c :: y :: t))
    with (if (c =? 42) && (y =? 47) then Some 0%nat else option_map S (g_index2 42 47 (y :: t))) in En.
  destruct ((c =? 42) && (y =? 47)).
  - injection En as <-. cbn. lia.
  - destruct (g_index2 42 47 (y :: t)) as [m|] eqn:Em; cbn in En; [|discriminate].
    injection En as <-. specialize (IH y m Em). cbn [List.length] in *. lia.
Qed.

(* quotes *)
Lemma quote_loop_spec d : forall n l, (List.length l <= n)%nat ->
  match g_quote_loop d l with
  | (true, k) => (1 <= k)%nat /\ (k <= List.length l)%nat /\ c_quoted d l = Some (firstn (k - 1) l, skipn k l)
  | (false, k) => k = List.length l /\ c_quoted d l = None
  end.
Proof.
  induction n as [|n IH]; intros l Hl.
  - destruct l; [|cbn in Hl; lia]. cbn. auto.
  - destruct l as [|x r]; [cbn; auto|]. cbn [g_quote_loop c_quoted]. cbn in Hl.
    destruct (x =? d) eqn:Ex.
    + destruct r as [|y r'].
      * cbn. repeat split; lia.
      * destruct (y =? d) eqn:Ey.
        -- assert (Hr : (List.length r' <= n)%nat) by (cbn in Hl; lia).
           specialize (IH r' Hr). destruct (g_quote_loop d r') as [[|] k].
           ++ destruct IH as (H1 & H2 & H3). rewrite H3. cbn [List.length]. repeat split; try lia.
              destruct k as [|k]; [lia|]. cbn [Nat.sub firstn skipn]. rewrite Nat.sub_0_r.
              destruct k; reflexivity.
           ++ destruct IH as (H1 & H3). rewrite H3. cbn [List.length]. split; [lia|reflexivity].
        -- cbn. repeat split; lia.
    + assert (Hr : (List.length r <= n)%nat) by lia.
      specialize (IH r Hr). destruct (g_quote_loop d r) as [[|] k].
      * destruct IH as (H1 & H2 & H3). rewrite H3. cbn [List.length]. repeat split; try lia.
        destruct k as [|k]; [lia|]. cbn [Nat.sub firstn skipn]. rewrite Nat.sub_0_r. reflexivity.
      * destruct IH as (H1 & H3). rewrite H3. cbn [List.length]. split; [lia|reflexivity].
Qed.

(* [x] *)
Lemma bracket_spec : forall l,
  match g_index_byte 93 l with
  | Some n => (n < List.length l)%nat /\ c_bracket l = Some (firstn n l, skipn (S n) l)
  | None => c_bracket l = None
  end.
Proof.
  induction l as [|x r IH]; cbn; [reflexivity|].
  destruct (x =? 93) eqn:E; cbn.
  - split; [lia|reflexivity].
  - destruct (g_index_byte 93 r) as [n|]; cbn.
    + destruct IH as [H1 H2]. rewrite H2. split; [lia|reflexivity].
    + rewrite IH. reflexivity.
Qed.

(* $name(...) *)
Lemma var_paren_skipn : forall r,
  let k := g_run (fun b => negb (g_is_space b) && negb (b =? 41)) r in
  skipn (match skipn k r with y :: _ => if y =? 41 then S k else k | [] => k end) r = c_var_paren r.
Proof.
  induction r as [|c r IH]; cbn -[skipn]; [reflexivity|].
  rewrite <- g_is_space_eq. destruct (g_is_space c) eqn:Es; cbn -[skipn].
  - cbn [skipn]. destruct (N.eqb_spec c 41) as [->|_]; [vm_compute in Es; discriminate|reflexivity].
  - destruct (c =? 41) eqn:E; cbn -[skipn].
    + cbn. rewrite E. reflexivity.
    + cbn [skipn]. cbn zeta in IH.
      destruct (skipn (g_run (fun b => negb (g_is_space b) && negb (b =? 41)) r) r) as [|y t] eqn:Hs.
      * exact IH.
      * destruct (y =? 41); exact IH.
Qed.

Lemma var_loop_skipn : forall n l ids, (List.length l <= n)%nat ->
  skipn (g_var_loop ids l) l = c_variable ids l /\ (g_var_loop ids l <= List.length l)%nat.
Proof.
  induction n as [|n IH]; intros l ids Hl.
  - destruct l; [|cbn in Hl; lia]. cbn. auto.
  - destruct l as [|x r]; [cbn; auto|]. cbn in Hl.
    cbn [g_var_loop c_variable]. rewrite <- g_is_idchar_eq.
    destruct (g_is_idchar x) eqn:Ei.
    + destruct (IH r true ltac:(lia)) as [H1 H2]. cbn [skipn List.length]. split; [exact H1|lia].
    + destruct ((x =? 40) && ids) eqn:Ep.
      * pose proof (var_paren_skipn r) as Hp. cbn zeta in Hp.
        pose proof (run_le (fun b => negb (g_is_space b) && negb (b =? 41)) r) as Hle.
        set (k := g_run (fun b => negb (g_is_space b) && negb (b =? 41)) r) in *.
        destruct (skipn k r) as [|y t] eqn:Hs.
        -- cbn [skipn]. split; [exact Hp|cbn; lia].
        -- assert (Hk : (k < List.length r)%nat).
           { destruct (Nat.lt_ge_cases k (List.length r)) as [|Hge]; [assumption|].
             rewrite skipn_all2 in Hs by lia. discriminate. }
           destruct (y =? 41); cbn [skipn List.length]; (split; [exact Hp|lia]).
      * cbn [g_has_prefix]. destruct (x =? 58) eqn:E58.
        -- rewrite N.eqb_sym in E58. rewrite E58. cbn [andb].
           destruct r as [|y r'].
           ++ cbn. auto.
           ++ rewrite (N.eqb_sym 58 y). destruct (y =? 58) eqn:Ey; cbn [andb].
              ** destruct (IH r' ids ltac:(cbn in Hl; lia)) as [H1 H2]. cbn [skipn List.length]. split; [exact H1|lia].
              ** cbn. split; [reflexivity|lia].
        -- rewrite N.eqb_sym in E58. rewrite E58. cbn. split; [reflexivity|lia].
Qed.

(* x'...' *)
Lemma blob_skipn l :
  skipn (match g_index_byte 39 l with Some n => S n | None => List.length l end) l = c_blob l.
Proof.
  unfold c_blob.
  assert (H : drop_while (fun c => negb (c =? 39)) (drop_while sq_isxdigit l) = drop_while (fun c => negb (c =? 39)) l).
  { induction l as [|c r IH]; cbn; [reflexivity|].
    pose proof (xdigit_not_quote c) as Hx. destruct (sq_isxdigit c); cbn in *.
    - rewrite Hx. exact IH.
    - reflexivity. }
  rewrite H. rewrite <- index_byte_skipn.
  destruct (g_index_byte 39 l) as [n|] eqn:E; cbn [idx_or_len].
  - destruct (index_byte_some _ _ _ E) as [_ Hs]. rewrite Hs. reflexivity.
  - rewrite !skipn_all. reflexivity.
Qed.

(* ---------- one token: sqlToken (Go) against sqlite3GetToken (C) ---------- *)

Lemma has_prefix_app : forall p l, g_has_prefix p l = true -> exists r, l = p ++ r.
Proof.
  induction p as [|a p IH]; intros l H; cbn in *.
  - exists l. reflexivity.
  - destruct l as [|x l']; [discriminate|]. apply andb_true_iff in H as [H1 H2].
    apply N.eqb_eq in H1. subst x. destruct (IH _ H2) as [r ->]. exists r. reflexivity.
Qed.

Lemma inner_cons c k r : (1 <= k <= List.length r)%nat -> g_inner (firstn (S k) (c :: r)) = firstn (k - 1) r.
Proof.
  intro H. unfold g_inner. cbn [firstn skipn List.length]. rewrite firstn_length_le by lia.
  replace (S k - 2)%nat with (k - 1)%nat by lia. rewrite firstn_firstn. f_equal. lia.
Qed.

Definition krel (k : gkind) (tok : bytes) (t : stok) : Prop :=
  match t with
  | SSpace => k = TkSpace
  | SSemi => k = TkSemi
  | SDot => k = TkDot
  | SEq => k = TkEq
  | SLp => k = TkLP
  | SRp | SOther => k = TkOther
  | SWord w => k = TkWord /\ tok = w
  | SQuoted q raw => k = TkQuoted /\ g_inner tok = raw /\ (quote_cond q = true \/ q = 91)
  end.

Definition tok_ok (s : bytes) (k : gkind) (n : nat) : Prop :=
  exists t rest, sq_token s = Some (t, rest) /\ skipn n s = rest /\ krel k (firstn n s) t
                 /\ (1 <= n <= List.length s)%nat.

Lemma sq_token_ident c r :
  g_is_idchar c = true -> var_cond c = false ->
  ((c =? 120) || (c =? 88)) && Nat.ltb 1 (List.length (c :: r)) && (nth 1 (c :: r) 0 =? 39) = false ->
  g_has_prefix [239; 187; 191] (c :: r) = false ->
  sq_token (c :: r) = Some (if (48 <=? c) && (c <=? 57) then SOther else SWord (c :: take_while sq_idchar r),
                            drop_while sq_idchar r).
Proof.
  intros Hid Hv Hx Hbom. pose proof (class_id c) as H. rewrite Hid, Hv in H. cbn [andb negb implb] in H.
  unfold sq_token. destruct (ai_class c) eqn:Hc; try discriminate H.
  - (* CC_X *) rewrite H in Hx.
    assert (Hd : (48 <=? c) && (c <=? 57) = false).
    { apply orb_true_iff in H as [H|H]; apply N.eqb_eq in H; subst c; reflexivity. }
    rewrite Hd. destruct r as [|c1 r1]; [reflexivity|].
    cbn [andb List.length nth] in Hx. change (Nat.ltb 1 (S (S (List.length r1)))) with true in Hx.
    cbn [andb] in Hx. rewrite Hx. reflexivity.
  - (* CC_IDSTART *) apply andb_true_iff in H as [H _]. apply andb_true_iff in H as [_ H].
    apply negb_true_iff in H. rewrite H. reflexivity.
  - (* CC_DIGIT *) rewrite H. reflexivity.
  - (* CC_BOM *) apply N.eqb_eq in H. subst c. change ((48 <=? 239) && (239 <=? 57)) with false. cbn iota.
    destruct r as [|c1 [|c2 r2]]; try reflexivity.
    cbn [g_has_prefix] in Hbom. change (239 =? 239) with true in Hbom. cbn [andb] in Hbom.
    rewrite (N.eqb_sym 187 c1), (N.eqb_sym 191 c2), andb_true_r in Hbom. rewrite Hbom. reflexivity.
Qed.

Lemma tok_sim : forall s, s <> [] -> tok_ok s (fst (g_token s)) (snd (g_token s)).
Proof.
  intros [|c r] Hs; [congruence|clear Hs]. unfold tok_ok, g_token.
  destruct (negb (c =? 11) && g_is_space c) eqn:Hsp.
  { unfold sq_token. pose proof (class_space c) as H. rewrite Hsp in H. apply cc_eqb_eq in H. rewrite H.
    eexists _, _. split; [reflexivity|]. cbn [fst snd skipn]. rewrite run_skipn.
    split; [apply drop_while_ext, g_is_space_eq|]. split; [reflexivity|].
    pose proof (run_le g_is_space r). cbn [List.length]. lia. }
  destruct (g_has_prefix [239; 187; 191] (c :: r)) eqn:Hbom.
  { unfold sq_token. apply has_prefix_app in Hbom as [r2 E]. cbn in E. injection E as -> ->.
    eexists _, _. split; [reflexivity|]. cbn. repeat split; lia. }
  destruct (g_has_prefix [45; 45] (c :: r)) eqn:Hdd.
  { unfold sq_token. apply has_prefix_app in Hdd as [r1 E]. cbn in E. injection E as -> ->.
    change (ai_class 45) with CC_MINUS. cbn iota beta. change (45 =? 45) with true. cbn iota.
    pose proof (index_byte_skipn 10 (45 :: 45 :: r1)) as Hk. unfold idx_or_len in Hk.
    assert (Hn : Nat.le 2 (match g_index_byte 10 (45 :: 45 :: r1) with Some n => n | None => List.length (45 :: 45 :: r1) end)
                 /\ Nat.le (match g_index_byte 10 (45 :: 45 :: r1) with Some n => n | None => List.length (45 :: 45 :: r1) end)
                           (List.length (45 :: 45 :: r1))).
    { cbn [g_index_byte]. change (45 =? 10) with false. cbn iota.
      destruct (g_index_byte 10 r1) as [m|] eqn:Em; cbn [option_map List.length].
      - destruct (index_byte_some _ _ _ Em). lia.
      - lia. }
    destruct (g_index_byte 10 (45 :: 45 :: r1)) as [n|]; cbn [fst snd];
      (eexists _, _; split; [reflexivity|]; split; [exact Hk|]; split; [reflexivity|lia]). }
  destruct (g_has_prefix [47; 42] (c :: r) && Nat.ltb 2 (List.length (c :: r))) eqn:Hbc.
  { unfold sq_token. apply andb_true_iff in Hbc as [Hp Hl]. apply has_prefix_app in Hp as [z2 E]. cbn in E. injection E as -> ->.
    apply Nat.ltb_lt in Hl. destruct z2 as [|c2 r2]; [cbn in Hl; lia|].
    change (ai_class 47) with CC_SLASH. cbn iota beta. change (42 =? 42) with true. cbn iota.
    change (skipn 2 (47 :: 42 :: c2 :: r2)) with (c2 :: r2).
    pose proof (block_comment_skipn r2 c2) as Hk.
    destruct (g_index2 42 47 (c2 :: r2)) as [n|] eqn:En; cbn [fst snd].
    - eexists _, _. split; [reflexivity|]. replace (n + 4)%nat with (S (S (n + 2))) by lia. cbn [skipn].
      split; [exact Hk|]. split; [reflexivity|].
      pose proof (index2_bound r2 c2 n En).
      cbn [List.length] in *. lia.
    - eexists _, _. split; [reflexivity|]. split; [exact Hk|]. split; [reflexivity|cbn [List.length]; lia]. }
  fold (quote_cond c). destruct (quote_cond c) eqn:Hq.
  { unfold sq_token. pose proof (class_quote c) as H. rewrite Hq in H. apply cc_eqb_eq in H. rewrite H.
    pose proof (quote_loop_spec c (List.length r) r (le_n _)) as Hl.
    destruct (g_quote_loop c r) as [[|] k].
    - destruct Hl as (H1 & H2 & H3). rewrite H3. cbn [fst snd].
      eexists _, _. split; [reflexivity|]. cbn [skipn]. split; [reflexivity|].
      split; [|cbn [List.length]; lia].
      split; [reflexivity|]. split; [|left; exact Hq].
      apply inner_cons. lia.
    - destruct Hl as (H1 & H3). rewrite H3. cbn [fst snd]. subst k.
      eexists _, _. split; [reflexivity|]. split; [apply skipn_all|]. split; [reflexivity|cbn [List.length]; lia]. }
  destruct (c =? 91) eqn:H91.
  { unfold sq_token. apply N.eqb_eq in H91. subst c. change (ai_class 91) with CC_QUOTE2. cbn iota beta.
    cbn [g_index_byte]. change (91 =? 93) with false. cbn iota.
    pose proof (bracket_spec r) as Hb.
    destruct (g_index_byte 93 r) as [n|]; cbn [option_map fst snd].
    - destruct Hb as [H1 H2]. rewrite H2. eexists _, _. split; [reflexivity|].
      split; [reflexivity|]. split; [|cbn [List.length]; lia].
      split; [reflexivity|]. split; [|right; reflexivity].
      rewrite (inner_cons 91 (S n) r) by lia. cbn [Nat.sub]. rewrite Nat.sub_0_r. reflexivity.
    - rewrite Hb. eexists _, _. split; [reflexivity|]. split; [apply skipn_all|]. split; [reflexivity|cbn [List.length]; lia]. }
  destruct (c =? 59) eqn:H59.
  { unfold sq_token. apply N.eqb_eq in H59. subst c. eexists _, _. split; [reflexivity|]. cbn. repeat split; lia. }
  destruct (c =? 46) eqn:H46.
  { unfold sq_token. apply N.eqb_eq in H46. subst c. eexists _, _. split; [reflexivity|]. cbn. repeat split; lia. }
  destruct (c =? 40) eqn:H40.
  { unfold sq_token. apply N.eqb_eq in H40. subst c. eexists _, _. split; [reflexivity|]. cbn. repeat split; lia. }
  destruct (c =? 61) eqn:H61.
  { unfold sq_token. apply N.eqb_eq in H61. subst c. change (ai_class 61) with CC_EQ. cbn iota beta.
    destruct r as [|c1 r1]; [eexists _, _; split; [reflexivity|]; cbn; repeat split; lia|].
    cbn [g_has_prefix]. change (61 =? 61) with true. rewrite (N.eqb_sym 61 c1). cbn [andb].
    destruct (c1 =? 61); cbn [andb]; eexists _, _; (split; [reflexivity|]); cbn; repeat split; lia. }
  fold (var_cond c). destruct (var_cond c) eqn:Hv.
  { unfold sq_token. pose proof (class_var c) as H. rewrite Hv in H. apply cc_eqb_eq in H. rewrite H.
    destruct (var_loop_skipn (List.length r) r false (le_n _)) as [H1 H2].
    eexists _, _. split; [reflexivity|]. cbn [fst snd skipn]. split; [exact H1|].
    split; [reflexivity|cbn [List.length]; lia]. }
  destruct (g_is_idchar c) eqn:Hid.
  { destruct (((c =? 120) || (c =? 88)) && Nat.ltb 1 (List.length (c :: r)) && (nth 1 (c :: r) 0 =? 39)) eqn:Hx.
    - unfold sq_token. apply andb_true_iff in Hx as [Hx H39]. apply andb_true_iff in Hx as [Hx Hl].
      destruct r as [|c1 r1]; [cbn in Hl; discriminate|]. cbn [nth] in H39. apply N.eqb_eq in H39. subst c1.
      assert (Hc : ai_class c = CC_X).
      { apply orb_true_iff in Hx as [Hx|Hx]; apply N.eqb_eq in Hx; subst c; reflexivity. }
      rewrite Hc. cbn iota beta. change (39 =? 39) with true. cbn iota.
      change (skipn 2 (c :: 39 :: r1)) with r1.
      pose proof (blob_skipn r1) as Hb.
      destruct (g_index_byte 39 r1) as [n|] eqn:En; cbn [fst snd].
      + eexists _, _. split; [reflexivity|]. replace (n + 3)%nat with (S (S (S n))) by lia.
        split; [exact Hb|]. split; [reflexivity|]. destruct (index_byte_some _ _ _ En). cbn [List.length]. lia.
      + eexists _, _. split; [reflexivity|]. split; [exact Hb|]. split; [reflexivity|cbn [List.length]; lia].
    - rewrite (sq_token_ident c r Hid Hv Hx Hbom).
      pose proof (run_le g_is_idchar r) as Hle.
      destruct ((48 <=? c) && (c <=? 57)); cbn [fst snd]; eexists _, _; (split; [reflexivity|]);
        cbn [skipn firstn]; rewrite run_skipn, ?run_firstn;
        (split; [apply drop_while_ext, g_is_idchar_eq|]).
      + split; [reflexivity|cbn [List.length]; lia].
      + split; [split; [reflexivity|f_equal; apply take_while_ext, g_is_idchar_eq]|cbn [List.length]; lia]. }
  (* every remaining byte is a one-byte token on both sides *)
  unfold sq_token.
  pose proof (class_rest c) as H. fold (quote_cond c) (var_cond c) in H.
  rewrite Hsp, Hq, H91, H59, H46, H40, H61, Hv, Hid in H. cbn [andb negb implb] in H.
  cbn [fst snd].
  destruct (ai_class c) eqn:Hc; try discriminate H.
  - (* CC_MINUS *) apply N.eqb_eq in H. subst c.
    destruct r as [|c1 r1]; [eexists _, _; split; [reflexivity|]; cbn; repeat split; lia|].
    cbn [g_has_prefix] in Hdd. change (45 =? 45) with true in Hdd. cbn [andb] in Hdd.
    rewrite (N.eqb_sym 45 c1), andb_true_r in Hdd. rewrite Hdd.
    eexists _, _. split; [reflexivity|]. cbn. repeat split; lia.
  - (* CC_SLASH *) apply N.eqb_eq in H. subst c.
    destruct r as [|c1 [|c2 r2]]; try (eexists _, _; split; [reflexivity|]; cbn; repeat split; lia).
    cbn [g_has_prefix List.length] in Hbc. change (47 =? 47) with true in Hbc.
    change (Nat.ltb 2 (S (S (S (List.length r2))))) with true in Hbc. cbn [andb] in Hbc.
    rewrite (N.eqb_sym 42 c1), !andb_true_r in Hbc. rewrite Hbc.
    eexists _, _. split; [reflexivity|]. cbn. repeat split; lia.
  - (* CC_RP *) eexists _, _. split; [reflexivity|]. cbn. repeat split; lia.
  - (* CC_SINGLE *) eexists _, _. split; [reflexivity|]. cbn. repeat split; lia.
Qed.

