# C17 — configuration read by bin/check (see checks/registry.py)
SPEC = dict(
    title="Reads never modify data; databases change only through the log",
    pkg="./store", files=["store/c17_verif_test.go"],
    rule="10 hand-picked + 70 (quick) / 1000 (thorough) generated requests of 1-3 texts, each text 0-4 SQL statements (read-only head + writing tail, writing head, "
         "read-only only, prepare error, empty; SELECT, EXPLAIN, PRAGMA read/write, ATTACH, CTE write, RETURNING, CREATE TABLE, temp table, no-op UPDATE; comments and "
         "semicolons in literals/identifiers between statements), each request sent to 14 endpoints: db.Query / db.Request / db.Execute on the node's database object and "
         "Store.Query and Store.Request at levels none, weak, linearizable, strong, auto, and Store.Execute, on a real single-node Store; "
         "a case is non-trivial when a text contains a writing statement that is not its first statement, or ATTACH / temp table / PRAGMA; distinct by JSON of the input",
    trusted=["SQLite: a mode=ro + query_only connection changes nothing (`ro_pool_inert`), a statement sqlite3_stmt_readonly calls read-only changes nothing (`honest`) - premises of the theorems; "
             "the driver checks both on every generated statement (flag asked of the vendored driver directly, effect measured by running the statement alone on a scratch database)",
             "vendored go-sqlite3: Query steps only the LAST statement of a multi-statement text, Exec all of them (read in sqlite3.go, modelled as q_text / e_text, confirmed by the differential run)",
             "contents = rows of t, existence of tables u1..u3, user_version; observed from a separate read-only connection together with PRAGMA data_version",
             "single-node cluster: 'every node' is the node that applies the entry (CommandProcessor.Process is the same code on every node); followers/non-voters and leader changes are not run",
             "raft, snapshot install and boot are events of the model (EvApply/EvSnapshot/EvBoot), not run by the driver"],
    assumptions=["no user-defined SQL functions or virtual tables with side effects are loaded", "PRAGMAs that change rqlite-critical settings (query_only, journal_mode ...) are C15's subject and not generated"],
    level_text="Proved for every request, level, contents and event sequence: the query endpoint never changes any database, whether served locally or logged and applied (C17_query_endpoint_never_writes); "
               "a unified request served without the log never writes (C17_unified_local_never_writes_partial); a node's database stays the same over any sequence of client calls, loads and "
               "log appends - it changes only by applying a log entry, installing a snapshot or boot, and a load is a log entry (C17_db_changes_only_via_log_snapshot_boot_load, C17_load_is_logged). "
               "The unified-endpoint half of the property is FALSE for the pinned code and recorded as an open finding: C17_unified_ro_never_writes_refuted exhibits 'SELECT 1; DELETE ...' "
               "(classified by its first statement, executed by its last, on the read-write connection, on every node when logged); C17_unified_ro_never_writes_partial proves it for texts whose last statement is read-only (all single-statement texts).",
    level_note="Model = q_text/e_text (driver), classify (StmtReadOnlyWithConn), db_query/db_execute/db_request, RORWCount, Store.Query/Request/Execute routing per level, CommandProcessor.Process, cluster events; "
               "tie = differential run (final contents, whether the log grew, Store.Request's read-write count) on 14 endpoints per request + Go oracle on contents and data_version.",
    technique="Coq proofs over all requests/event sequences with SQLite's guarantees as premises + refutation witness + differential run on a live single-node Store",
    design_ref="6/C17",
    timeout_quick=600, timeout_thorough=7200,
)
