From Coq Require Import List NArith Arith Bool Lia.
From RQ Require Import Model.C04 Proofs.C04 Model.C22.
Import ListNotations.
Open Scope N_scope.

(* ---- specification, from the property text ----
   the database of the cluster: a write overrides the cells it names; a successful load (file or SQL text)
   or boot installs the loaded database; everything else -- snapshots, restarts, joins, rejected loads, a boot
   refused because the cluster has several nodes -- changes nothing.  The number of nodes is tracked because
   a boot is only accepted by a single-node cluster. *)
Definition cspec_step (x : cells * nat) (o : cop) : cells * nat :=
  let '(d, k) := x in
  match o with
  | CWrite ks v => (apply_frames d (map (fun q => (q, v)) ks), k)
  | CLoad c => (cells_of_vec c, k)
  | CLoadSQL c => (apply_frames d (sql_frames c), k)
  | CBoot c => if Nat.eqb k 1 then (cells_of_vec c, k) else (d, k)
  | CJoin => (d, S k)
  | _ => (d, k)
  end.
Definition cspec (ops : list cop) : cells * nat := fold_left cspec_step ops ([], 1%nat).

(* a node holds the database d, and so does what a restart of it, or a transfer of its newest snapshot and
   log suffix to another node, rebuilds *)
Definition node_ok (d : cells) (s : st) : Prop :=
  cells_eq (live s) d /\ exists r, rebuilt s = Some r /\ cells_eq r d.

(* ---- cluster invariant ---- *)
Definition good (d : cells) (l : list entry) (s : st) : Prop := Inv s /\ cells_eq (live s) d /\ log s = l.

Record CInv (c : cluster) (d : cells) (k : nat) : Prop := {
  ci_len : length (nodes c) = k;
  ci_leader : exists L r, nodes c = L :: r;
  ci_nodes : forall L r, nodes c = L :: r -> Forall (good d (log L)) (nodes c);
  ci_log : forall L r, nodes c = L :: r -> compacted c = false -> cells_eq (replay (log L) []) d;
  ci_snap : forall L r, nodes c = L :: r -> compacted c = true -> snaps L <> [];
}.

Lemma good_node_ok d l s : good d l s -> node_ok d s.
Proof.
  intros ((r & Hr & _ & H3 & _) & Hl & _). split; [exact Hl|].
  exists (replay (suffix s) r). unfold rebuilt. rewrite Hr. split; [reflexivity|].
  eapply cells_eq_trans; [exact H3 | exact Hl].
Qed.

(* the log of a node after one of its own steps *)
Lemma snapshot_log s o : log (fst (snapshot_step true s o)) = log s.
Proof.
  unfold snapshot_step. destruct (full_due s); [destruct o; reflexivity|].
  destruct (wal s); [reflexivity|]. destruct o; reflexivity.
Qed.

Lemma snapshot_snaps s o : snaps s <> [] -> snaps (fst (snapshot_step true s o)) <> [].
Proof.
  intros H. unfold snapshot_step. destruct (full_due s).
  - destruct o; cbn; try exact H; discriminate.
  - destruct (wal s); [exact H|]. destruct o; cbn; try exact H; discriminate.
Qed.

Lemma snap_ok_nonempty s : snd (snapshot_step true s POk) = 0 -> snaps (fst (snapshot_step true s POk)) <> [].
Proof.
  unfold snapshot_step. destruct (full_due s); [cbn; discriminate|].
  destruct (wal s); cbn; discriminate.
Qed.

Lemma restart_log s : log (fst (step s ORestart)) = log s.
Proof.
  unfold step, step_gen. destruct (restored s) as [r|]; [|reflexivity]. cbn [fst].
  destruct (phys_fold (suffix s) (set_staging (set_dbf s r []) [])) as (_ & H & _). exact H.
Qed.

Lemma restart_snaps s : snaps (fst (step s ORestart)) = snaps s.
Proof.
  unfold step, step_gen. destruct (restored s) as [r|]; [|reflexivity]. cbn [fst].
  destruct (phys_fold (suffix s) (set_staging (set_dbf s r []) [])) as (H & _). exact H.
Qed.

Lemma replay_congr0 l a b : cells_eq a b -> cells_eq (replay l a) (replay l b).
Proof. apply replay_congr. Qed.

(* one step of one node keeps it good for the same d when the operation is not a log entry *)
Lemma local_step d l s o :
  ((exists out, o = OSnap out) \/ o = ORestart) -> good d l s -> good d l (fst (step s o)).
Proof.
  intros Ho (I & Hl & Hlog).
  destruct (step_preserves s o I) as [I' Hl'].
  split; [exact I'|]. split.
  - eapply cells_eq_trans; [exact Hl'|]. destruct Ho as [[out ->] | ->]; exact Hl.
  - destruct Ho as [[out ->] | ->].
    + unfold step, step_gen. rewrite snapshot_log. exact Hlog.
    + rewrite restart_log. exact Hlog.
Qed.

Lemma at_node_good d l o : ((exists out, o = OSnap out) \/ o = ORestart) ->
  forall ns i, Forall (good d l) ns -> Forall (good d l) (at_node ns i o).
Proof.
  intros Ho ns. induction ns as [|s r IH]; intros i F; [destruct i; constructor|].
  inversion F as [|? ? Hs Hr]; subst.
  destruct i; cbn [at_node]; constructor; auto using local_step.
Qed.

Lemma at_node_length ns : forall i o, length (at_node ns i o) = length ns.
Proof. induction ns as [|s r IH]; intros [|i] o; cbn; auto. Qed.

Lemma at_node_head L r i o : exists L' r', at_node (L :: r) i o = L' :: r'
  /\ (L' = L \/ L' = fst (step L o)).
Proof. destruct i; cbn; eauto. Qed.

(* an entry applied by every node *)
Lemma entry_all d d' l e (f : st -> st) ns :
  (forall s, good d l s -> Inv (f s) /\ cells_eq (live (f s)) d' /\ log (f s) = l ++ [e]) ->
  Forall (good d l) ns -> Forall (good d' (l ++ [e])) (map f ns).
Proof.
  intros H F. induction F as [|s r Hs _ IH]; cbn; constructor; [|exact IH].
  destruct (H s Hs) as (A & B & C). split; [exact A|]. split; assumption.
Qed.

Lemma step_entry d l s o e d' :
  (forall s0, log (fst (step s0 o)) = log s0 ++ [e]) ->
  (forall a b, cells_eq a b -> cells_eq (spec_step a o) (spec_step b o)) ->
  cells_eq (spec_step d o) d' ->
  good d l s -> Inv (fst (step s o)) /\ cells_eq (live (fst (step s o))) d' /\ log (fst (step s o)) = l ++ [e].
Proof.
  intros Hlog Hc Hd (I & Hl & Hlg).
  destruct (step_preserves s o I) as [I' Hl']. split; [exact I'|]. split.
  - eapply cells_eq_trans; [exact Hl'|]. eapply cells_eq_trans; [apply Hc; exact Hl | exact Hd].
  - rewrite Hlog, Hlg. reflexivity.
Qed.

Lemma join_ok c d k : CInv c d k -> exists s L r, nodes c = L :: r /\ join_node c = Some s /\ good d (log L) s.
Proof.
  intros CI. destruct (ci_leader _ _ _ CI) as (L & r & E).
  pose proof (ci_nodes _ _ _ CI L r E) as F. rewrite E in F. inversion F as [|? ? HL _]; subst.
  destruct HL as (IL & HlL & _).
  unfold join_node. rewrite E. destruct (compacted c) eqn:Ec.
  - (* snapshot install *)
    pose proof (ci_snap _ _ _ CI L r E Ec) as Hne.
    destruct IL as (r0 & Hr & H2 & H3 & H4).
    destruct (restored_nonempty L Hne r0 Hr) as (db & ws & Hres & ->).
    destruct (snaps L) as [|x xs] eqn:Es; [congruence|]. rewrite Hres.
    set (s0 := {| dbf := apply_segs db ws; wal := []; staging := []; snaps := [SFull (newest_idx L) db ws];
                  full_needed := false; log := log L |}).
    pose proof (phys_fold (suffix L) s0) as P. cbv zeta in P. destruct P as (P1 & P2 & P3 & P4 & P5).
    set (s' := fold_left apply_phys (suffix L) s0) in *.
    exists s', L, r. split; [reflexivity|]. split; [reflexivity|].
    assert (Hsuf : suffix s' = suffix L).
    { unfold suffix, newest_idx. rewrite P1, P2. reflexivity. }
    assert (Hlive : live s' = replay (suffix L) (apply_segs db ws)).
    { rewrite P4. reflexivity. }
    split; [|split].
    + exists (apply_segs db ws). split; [|split; [|split]].
      * unfold restored. rewrite P1. reflexivity.
      * intros Hf. rewrite P3. cbn [staging s0 apply_segs fold_left].
        rewrite P5; [apply cells_eq_refl|].
        unfold full_due in Hf. apply orb_false_iff in Hf. tauto.
      * rewrite Hsuf, Hlive. apply cells_eq_refl.
      * unfold newest_idx at 1. rewrite P1, P2. cbn [s0 snaps snap_idx log]. exact H4.
    + rewrite Hlive. eapply cells_eq_trans; [exact H3 | exact HlL].
    + exact P2.
  - (* log replay from the first entry *)
    pose proof (ci_log _ _ _ CI L r E Ec) as Hrep.
    pose proof (phys_fold (log L) (blank (log L))) as P. cbv zeta in P. destruct P as (P1 & P2 & P3 & P4 & P5).
    set (s' := fold_left apply_phys (log L) (blank (log L))) in *.
    exists s', L, r. split; [reflexivity|]. split; [reflexivity|].
    assert (Hlive : live s' = replay (log L) []) by (rewrite P4; reflexivity).
    split; [|split].
    + exists []. split; [|split; [|split]].
      * unfold restored. rewrite P1. reflexivity.
      * intros Hf. unfold full_due in Hf. rewrite P1 in Hf. cbn in Hf. rewrite orb_true_r in Hf. discriminate.
      * unfold suffix, newest_idx. rewrite P1, P2. cbn. rewrite Hlive. apply cells_eq_refl.
      * unfold newest_idx. rewrite P1. cbn. lia.
    + rewrite Hlive. exact Hrep.
    + exact P2.
Qed.

Lemma Forall_good_hd d ns L r : ns = L :: r -> (forall L0 r0, ns = L0 :: r0 -> Forall (good d (log L0)) ns) -> Forall (good d (log L)) ns.
Proof. intros E H. apply (H L r E). Qed.

Lemma cstep_preserves c o d k :
  CInv c d k ->
  CInv (fst (cstep c o)) (fst (cspec_step (d, k) o)) (snd (cspec_step (d, k) o)).
Proof.
  intros CI. destruct (ci_leader _ _ _ CI) as (L & r & E).
  pose proof (ci_nodes _ _ _ CI L r E) as F.
  assert (entry_case : forall o1 e d',
    (forall s0, log (fst (step s0 o1)) = log s0 ++ [e]) ->
    (forall s0, snaps s0 <> [] -> snaps (fst (step s0 o1)) <> []) ->
    cells_eq (spec_step d o1) d' ->
    cells_eq (replay_entry d e) d' ->
    CInv (all_nodes c o1) d' k).
  { intros o1 e d' Hlog Hsn Hd He.
    assert (F' : Forall (good d' (log L ++ [e])) (map (fun s => fst (step s o1)) (nodes c))).
    { apply (entry_all d d' (log L) e); [|exact F].
      intros s Hs. apply (step_entry d (log L) s o1 e d'); auto. intros a b. apply spec_step_congr. }
    constructor; cbn [all_nodes nodes compacted].
    - rewrite map_length. apply (ci_len _ _ _ CI).
    - rewrite E. cbn. eauto.
    - intros L1 r1 E1. rewrite E in E1. cbn in E1. inversion E1; subst. rewrite Hlog. exact F'.
    - intros L1 r1 E1 Hc. rewrite E in E1. cbn in E1. inversion E1; subst. rewrite Hlog, replay_snoc.
      eapply cells_eq_trans; [|exact He]. apply replay_entry_congr. apply (ci_log _ _ _ CI L r E Hc).
    - intros L1 r1 E1 Hc. rewrite E in E1. cbn in E1. inversion E1; subst. apply Hsn. apply (ci_snap _ _ _ CI L r E Hc). }
  destruct o as [ks v|cc|cc| |cc|i o compact|i| ]; cbn [cstep cspec_step fst snd].
  - (* write *)
    apply (entry_case (OWrite ks v) (EWrite (map (fun q => (q, v)) ks))); auto using cells_eq_refl.
  - (* load *)
    apply (entry_case (OLoad cc) (ELoad (cells_of_vec cc))); auto using cells_eq_refl.
  - (* SQL-text load *)
    set (w := sql_frames cc).
    assert (F' : Forall (good (apply_frames d w) (log L ++ [EWrite w]))
                   (map (fun s => apply_phys (add_log s (EWrite w)) (EWrite w)) (nodes c))).
    { apply (entry_all d _ (log L) (EWrite w)); [|exact F].
      intros s (I & Hl & Hlg). destruct (write_frames_preserves s w I) as [I' Hl'].
      split; [exact I'|]. split.
      - rewrite Hl'. apply apply_frames_congr. exact Hl.
      - cbn. rewrite Hlg. reflexivity. }
    constructor; cbn [nodes compacted].
    + rewrite map_length. apply (ci_len _ _ _ CI).
    + rewrite E. cbn. eauto.
    + intros L1 r1 E1. rewrite E in E1. cbn in E1. inversion E1; subst. cbn [log apply_phys set_dbf add_log]. exact F'.
    + intros L1 r1 E1 Hc. rewrite E in E1. cbn in E1. inversion E1; subst. cbn [log apply_phys set_dbf add_log].
      rewrite replay_snoc. cbn [replay_entry]. apply apply_frames_congr. apply (ci_log _ _ _ CI L r E Hc).
    + intros L1 r1 E1 Hc. rewrite E in E1. cbn in E1. inversion E1; subst. cbn. apply (ci_snap _ _ _ CI L r E Hc).
  - (* rejected load *)
    apply (entry_case OLoadBad ELoadBad); auto using cells_eq_refl.
  - (* boot *)
    pose proof (ci_len _ _ _ CI) as Hk.
    destruct (nodes c) as [|s [|s2 r2]] eqn:En.
    + discriminate.
    + inversion E; subst s r. cbn in Hk. subst k. cbn [Nat.eqb fst snd].
      inversion F as [|? ? (I & Hl & _) _]; subst.
      destruct (step_preserves L (OBoot cc) I) as [I' Hl'].
      constructor; cbn [nodes compacted].
      * reflexivity.
      * eauto.
      * intros L1 r1 E1. inversion E1; subst. constructor; [|constructor].
        split; [exact I'|]. split; [|reflexivity]. eapply cells_eq_trans; [exact Hl'|]. apply cells_eq_refl.
      * discriminate.
      * intros L1 r1 E1 _. injection E1 as <- _. cbn. discriminate.
    + cbn in Hk. subst k. cbn [Nat.eqb fst snd]. exact CI.
  - (* snapshot on node i *)
    destruct (nth_error (nodes c) i) as [s|] eqn:En; cbn [fst]; [|exact CI].
    destruct (at_node_head L r i (OSnap o)) as (L' & r' & E' & HL').
    assert (HlogL : log L' = log L).
    { destruct HL' as [-> | ->]; [reflexivity|]. unfold step, step_gen. apply snapshot_log. }
    constructor; cbn [nodes compacted].
    + rewrite at_node_length. apply (ci_len _ _ _ CI).
    + rewrite E, E'. eauto.
    + intros L1 r1 E1. rewrite E, E' in E1. inversion E1; subst. rewrite HlogL.
      apply at_node_good; eauto.
    + intros L1 r1 E1 Hc. rewrite E, E' in E1. inversion E1; subst. rewrite HlogL.
      apply orb_false_iff in Hc as [Hc _]. apply (ci_log _ _ _ CI L r E Hc).
    + intros L1 r1 E1 Hc. rewrite E, E' in E1.
      apply orb_true_iff in Hc as [Hc | Hc].
      * inversion E1; subst. pose proof (ci_snap _ _ _ CI L r E Hc) as Hne.
        destruct HL' as [-> | ->]; [exact Hne|]. unfold step, step_gen. apply snapshot_snaps. exact Hne.
      * (* the leader has just taken a snapshot that compacts its log *)
        apply andb_true_iff in Hc as [Hc Hout]. apply andb_true_iff in Hc as [Hc Hres].
        apply andb_true_iff in Hc as [_ Hi]. apply PeanoNat.Nat.eqb_eq in Hi. subst i.
        destruct o; try discriminate.
        rewrite E in En. cbn in En. inversion En; subst s.
        cbn in E'. inversion E'; subst L' r'. inversion E1; subst.
        apply N.eqb_eq in Hres. unfold step, step_gen in *. apply snap_ok_nonempty. exact Hres.
  - (* restart of node i *)
    destruct (nth_error (nodes c) i) as [s|] eqn:En; cbn [fst]; [|exact CI].
    destruct (at_node_head L r i ORestart) as (L' & r' & E' & HL').
    assert (HlogL : log L' = log L).
    { destruct HL' as [-> | ->]; [reflexivity|]. apply restart_log. }
    constructor; cbn [nodes compacted].
    + rewrite at_node_length. apply (ci_len _ _ _ CI).
    + rewrite E, E'. eauto.
    + intros L1 r1 E1. rewrite E, E' in E1. inversion E1; subst. rewrite HlogL.
      apply at_node_good; eauto.
    + intros L1 r1 E1 Hc. rewrite E, E' in E1. inversion E1; subst. rewrite HlogL. apply (ci_log _ _ _ CI L r E Hc).
    + intros L1 r1 E1 Hc. rewrite E, E' in E1. inversion E1; subst.
      pose proof (ci_snap _ _ _ CI L r E Hc) as Hne.
      destruct HL' as [-> | ->]; [exact Hne|]. rewrite restart_snaps. exact Hne.
  - (* join *)
    destruct (join_ok c d k CI) as (s & L0 & r0 & E0 & Hj & Hg). rewrite Hj. cbn [fst].
    rewrite E in E0. inversion E0; subst L0 r0.
    constructor; cbn [nodes compacted].
    + rewrite app_length. cbn. rewrite (ci_len _ _ _ CI). lia.
    + rewrite E. cbn. eauto.
    + intros L1 r1 E1. rewrite E in E1. cbn in E1. inversion E1; subst. apply Forall_app. split; [exact F|].
      constructor; [exact Hg | constructor].
    + intros L1 r1 E1 Hc. rewrite E in E1. cbn in E1. inversion E1; subst. apply (ci_log _ _ _ CI L1 r E Hc).
    + intros L1 r1 E1 Hc. rewrite E in E1. cbn in E1. inversion E1; subst. apply (ci_snap _ _ _ CI L1 r E Hc).
Qed.

Lemma cinv_init : CInv cinit [] 1.
Proof.
  constructor; cbn.
  - reflexivity.
  - eauto.
  - intros L r E. inversion E; subst. constructor; [|constructor].
    split; [apply inv_init|]. split; [apply cells_eq_refl | reflexivity].
  - intros L r E _. inversion E; subst. apply cells_eq_refl.
  - discriminate.
Qed.

Lemma crun_inv ops : forall c x, CInv c (fst x) (snd x) ->
  CInv (fold_left (fun c o => fst (cstep c o)) ops c) (fst (fold_left cspec_step ops x)) (snd (fold_left cspec_step ops x)).
Proof.
  induction ops as [|o ops IH]; intros c [d k] CI; cbn [fold_left]; [exact CI|].
  apply IH. apply cstep_preserves. exact CI.
Qed.

Theorem load_everywhere ops :
  Forall (node_ok (fst (cspec ops))) (nodes (crun ops)) /\ length (nodes (crun ops)) = snd (cspec ops).
Proof.
  pose proof (crun_inv ops cinit ([], 1%nat) cinv_init) as CI. fold (crun ops) (cspec ops) in CI.
  split; [|apply (ci_len _ _ _ CI)].
  destruct (ci_leader _ _ _ CI) as (L & r & E).
  eapply Forall_impl; [|apply (ci_nodes _ _ _ CI L r E)].
  intros s. apply good_node_ok.
Qed.

(* a load of invalid data is answered with an error and leaves the database file, the WAL and the snapshots
   of every node exactly as they were -- in any cluster state whatsoever *)
Theorem invalid_load_rejected c :
  snd (cstep c CLoadBad) = 3
  /\ map dbf (nodes (fst (cstep c CLoadBad))) = map dbf (nodes c)
  /\ map wal (nodes (fst (cstep c CLoadBad))) = map wal (nodes c)
  /\ map snaps (nodes (fst (cstep c CLoadBad))) = map snaps (nodes c).
Proof.
  cbn. split; [reflexivity|]. rewrite !map_map. repeat split; apply map_ext; intros s; reflexivity.
Qed.

(* non-vacuity *)
Definition v24 (v : N) : list N := map (fun _ => v) universe.
Example ex_cluster :
  let ops := [CWrite [1; 2] 1; CSnap 0 POk false; CBoot (v24 3); CWrite [2] 4; CJoin; CLoadBad; CLoad (v24 5); CWrite [3] 7; CSnap 0 PBlocked false; CSnap 1 PNotInvoked false; CSnap 1 POk false; CSnap 0 POk true; CRestart 1; CJoin; CWrite [1] 6] in
  map (fun s => dump (live s)) (nodes (crun ops)) = [dump (fst (cspec ops)); dump (fst (cspec ops)); dump (fst (cspec ops))]
  /\ get (fst (cspec ops)) 1 = 6 /\ get (fst (cspec ops)) 2 = 5 /\ compacted (crun ops) = true.
Proof. vm_compute. auto. Qed.
