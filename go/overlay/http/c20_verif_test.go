package http

// C20 driver: HTTP requests to a "follower" built from the real pieces of the forwarding path —
// real http.Service -> real proxy.Proxy -> real cluster.Client -> TCP -> real tcp.Mux -> real
// cluster.Service with a real auth.CredentialsStore — around two mocks: the follower's store
// (answers ErrNotLeader / serves locally / fails, as the case says) and the leader's database and
// manager (record every call, answer with recognisable results and index).
// Observed per request: status, whose results / index / served-by header the client received,
// how often the follower's store operation and LeaderAddr were called, and every call that reached
// the leader together with the credentials the leader's credential store was asked about.
// Compared with Model.C20 (emitted Gallina cases) and with the property stated below (c20Oracle).

import (
	"bytes"
	"compress/gzip"
	"context"
	"encoding/base64"
	"encoding/json"
	"errors"
	"fmt"
	"io"
	"net"
	"os"
	"regexp"
	"strconv"
	"strings"
	"sync"
	"testing"
	"time"

	"github.com/rqlite/rqlite/v10/auth"
	"github.com/rqlite/rqlite/v10/cluster"
	clstrPB "github.com/rqlite/rqlite/v10/cluster/proto"
	"github.com/rqlite/rqlite/v10/command/proto"
	"github.com/rqlite/rqlite/v10/proxy"
	"github.com/rqlite/rqlite/v10/store"
	"github.com/rqlite/rqlite/v10/tcp"
)

const (
	c20LeaderIdx   = 9001
	c20FollowerIdx = 55
	c20LeaderID    = 4242
	c20FollowerID  = 1717
)

// ---------------------------------------------------------------- the leader's side (mock database/manager, real service)

type c20Call struct {
	Call string `json:"call"`
	User string `json:"user"`
	Pass string `json:"pass"`
}

type c20Leader struct {
	mu     sync.Mutex
	calls  []c20Call
	lastU  string
	lastP  string
	dbErr  string // "" = the call succeeds; else the error text the leader's store answers with
	creds  *auth.CredentialsStore
	sawReq map[string]string // last request seen per call, for the unchanged-request check

	// sequences: requests carry an id; some ids are answered only after [delay]
	slow     map[int]bool
	delay    time.Duration
	idCalls  map[int]int
	inflight sync.WaitGroup
}

const c20IdxOffset = 5000000

var c20IDRe = regexp.MustCompile(`[0-9]{6,}`)

// c20ReqID extracts the request id a sequence request carries in its SQL text / node id (0 = none).
func c20ReqID(req string) int {
	m := c20IDRe.FindString(req)
	if m == "" {
		return 0
	}
	n, _ := strconv.Atoi(m)
	return n
}

// credential store interface of cluster.Service: real decision, but remember who was asked about
func (l *c20Leader) AA(u, p, perm string) bool {
	l.mu.Lock()
	defer l.mu.Unlock()
	l.lastU, l.lastP = u, p
	return l.creds.AA(u, p, perm)
}
func (l *c20Leader) rec(call, req string) error {
	l.mu.Lock()
	l.calls = append(l.calls, c20Call{call, l.lastU, l.lastP})
	l.sawReq[call] = req
	id := c20ReqID(req)
	if id != 0 {
		l.idCalls[id]++
	}
	wait := time.Duration(0)
	if l.slow[id] {
		wait = l.delay
		l.inflight.Add(1)
	}
	dbErr := l.dbErr
	l.mu.Unlock()
	if wait > 0 {
		time.Sleep(wait)
		l.inflight.Done()
	}
	if dbErr != "" {
		return errors.New(dbErr)
	}
	return nil
}

// answers are recognisable per request: id in the results, id+offset as raft index
func c20IDOr(req string, def int64) int64 {
	if id := c20ReqID(req); id != 0 {
		return int64(id)
	}
	return def
}
func c20IdxOr(req string) uint64 {
	if id := c20ReqID(req); id != 0 {
		return uint64(id + c20IdxOffset)
	}
	return c20LeaderIdx
}
func c20TagOr(req string) string {
	if id := c20ReqID(req); id != 0 {
		return fmt.Sprintf("LEADER-ROW-%d", id)
	}
	return "LEADER-ROW"
}
func c20RowsTagged(tag string) []*proto.QueryRows {
	return []*proto.QueryRows{{Columns: []string{"c"}, Types: []string{"text"},
		Values: []*proto.Values{{Parameters: []*proto.Parameter{{Value: &proto.Parameter_S{S: tag}}}}}}}
}
func c20ExecRes(id int64) []*proto.ExecuteQueryResponse {
	return []*proto.ExecuteQueryResponse{{Result: &proto.ExecuteQueryResponse_E{E: &proto.ExecuteResult{LastInsertId: id, RowsAffected: 1}}}}
}
func c20Rows(tag string) []*proto.QueryRows {
	return []*proto.QueryRows{{Columns: []string{"c"}, Types: []string{"text"},
		Values: []*proto.Values{{Parameters: []*proto.Parameter{{Value: &proto.Parameter_S{S: tag + "-ROW"}}}}}}}
}
func c20Stmts(r *proto.Request) string {
	var ss []string
	for _, s := range r.GetStatements() {
		ss = append(ss, s.Sql)
	}
	return strings.Join(ss, ";")
}
func (l *c20Leader) Execute(_ context.Context, er *proto.ExecuteRequest) ([]*proto.ExecuteQueryResponse, uint64, error) {
	req := c20Stmts(er.Request)
	if err := l.rec("Execute", req); err != nil {
		return nil, 0, err
	}
	return c20ExecRes(c20IDOr(req, c20LeaderID)), c20IdxOr(req), nil
}
func (l *c20Leader) Query(_ context.Context, qr *proto.QueryRequest) ([]*proto.QueryRows, proto.ConsistencyLevel, uint64, error) {
	req := c20Stmts(qr.Request)
	if err := l.rec("Query", req+"|"+qr.Level.String()); err != nil {
		return nil, 0, 0, err
	}
	return c20RowsTagged(c20TagOr(req)), qr.Level, c20IdxOr(req), nil
}
func (l *c20Leader) Request(_ context.Context, rr *proto.ExecuteQueryRequest) ([]*proto.ExecuteQueryResponse, uint64, uint64, error) {
	req := c20Stmts(rr.Request)
	if err := l.rec("Request", req+"|"+rr.Level.String()); err != nil {
		return nil, 0, 0, err
	}
	return []*proto.ExecuteQueryResponse{{Result: &proto.ExecuteQueryResponse_Q{Q: c20RowsTagged(c20TagOr(req))[0]}}}, 1, c20IdxOr(req), nil
}
func (l *c20Leader) Backup(_ context.Context, br *proto.BackupRequest, dst io.Writer) error {
	if err := l.rec("Backup", br.Format.String()); err != nil {
		return err
	}
	// the service forces compressed mode on the stream
	zw := gzip.NewWriter(dst)
	zw.Write([]byte("LEADER-BACKUP"))
	return zw.Close()
}
func (l *c20Leader) Load(_ context.Context, lr *proto.LoadRequest) error {
	return l.rec("Load", fmt.Sprintf("%d bytes", len(lr.Data)))
}
func (l *c20Leader) Remove(_ context.Context, rn *proto.RemoveNodeRequest) error {
	return l.rec("Remove", rn.Id)
}
func (l *c20Leader) Stepdown(wait bool, id string) error { return l.rec("Stepdown", fmt.Sprintf("%v|%s", wait, id)) }
func (l *c20Leader) Notify(*proto.NotifyRequest) error   { return l.rec("Notify", "") }
func (l *c20Leader) Join(*proto.JoinRequest) error       { return l.rec("Join", "") }
func (l *c20Leader) LeaderAddr() (string, error)         { return "", nil }
func (l *c20Leader) CommitIndex() (uint64, error)        { return c20LeaderIdx, nil }

// ---------------------------------------------------------------- the follower's side (mock store, real service + proxy + client)

type c20Follower struct {
	mu         sync.Mutex
	local      string // "ok" | "notleader" | "notleader-wrapped" | "err"
	addr       string // "known" | "empty" | "err"
	leaderAddr string
	apiKnown   bool
	localCalls int
	addrCalls  int
}

func (f *c20Follower) op() error {
	f.mu.Lock()
	defer f.mu.Unlock()
	f.localCalls++
	switch f.local {
	case "ok":
		return nil
	case "notleader":
		return store.ErrNotLeader
	case "notleader-wrapped":
		return fmt.Errorf("follower store: %w", store.ErrNotLeader)
	}
	return errors.New("local boom")
}
func (f *c20Follower) Execute(context.Context, *proto.ExecuteRequest) ([]*proto.ExecuteQueryResponse, uint64, error) {
	if err := f.op(); err != nil {
		return nil, 0, err
	}
	return c20ExecRes(c20FollowerID), c20FollowerIdx, nil
}
func (f *c20Follower) Query(context.Context, *proto.QueryRequest) ([]*proto.QueryRows, proto.ConsistencyLevel, uint64, error) {
	if err := f.op(); err != nil {
		return nil, 0, 0, err
	}
	return c20Rows("FOLLOWER"), proto.ConsistencyLevel_NONE, c20FollowerIdx, nil
}
func (f *c20Follower) Request(context.Context, *proto.ExecuteQueryRequest) ([]*proto.ExecuteQueryResponse, uint64, uint64, error) {
	if err := f.op(); err != nil {
		return nil, 0, 0, err
	}
	return []*proto.ExecuteQueryResponse{{Result: &proto.ExecuteQueryResponse_Q{Q: c20Rows("FOLLOWER")[0]}}}, 0, c20FollowerIdx, nil
}
func (f *c20Follower) Load(context.Context, *proto.LoadRequest) error { return f.op() }
func (f *c20Follower) Backup(_ context.Context, _ *proto.BackupRequest, dst io.Writer) error {
	if err := f.op(); err != nil {
		return err
	}
	_, err := dst.Write([]byte("FOLLOWER-BACKUP"))
	return err
}
func (f *c20Follower) Remove(context.Context, *proto.RemoveNodeRequest) error { return f.op() }
func (f *c20Follower) Stepdown(bool, string) error                            { return f.op() }
func (f *c20Follower) LeaderAddr() (string, error) {
	f.mu.Lock()
	defer f.mu.Unlock()
	f.addrCalls++
	switch f.addr {
	case "known":
		return f.leaderAddr, nil
	case "empty":
		return "", nil
	}
	return "", errors.New("addr boom")
}

// http.Store
func (f *c20Follower) Leader() (*store.Server, error) {
	return &store.Server{ID: "leader", Addr: f.leaderAddr, Suffrage: proto.Suffrage_VOTER}, nil
}
func (f *c20Follower) Nodes() ([]*store.Server, error)            { return nil, nil }
func (f *c20Follower) Ready() bool                                { return true }
func (f *c20Follower) Committed(time.Duration) (uint64, error)    { return 0, nil }
func (f *c20Follower) Stats() (map[string]any, error)             { return map[string]any{}, nil }
func (f *c20Follower) Snapshot(uint64) error                      { return nil }
func (f *c20Follower) Reap() (int, int, error)                    { return 0, 0, nil }
func (f *c20Follower) ReadFrom(r io.Reader) (int64, error)        { return io.Copy(io.Discard, r) }

// http.Cluster of the follower (only used to find the leader's API address for a redirect)
type c20Meta struct{ f *c20Follower }

func (m *c20Meta) GetNodeMeta(context.Context, string, int, time.Duration) (*clstrPB.NodeMeta, error) {
	m.f.mu.Lock()
	defer m.f.mu.Unlock()
	if !m.f.apiKnown {
		return nil, errors.New("leader not reachable")
	}
	return &clstrPB.NodeMeta{Url: "http://leader-api:4001"}, nil
}
func (m *c20Meta) Stats() (map[string]any, error) { return map[string]any{}, nil }

type c20Rig struct {
	dialer   *c20Dialer
	leader   *c20Leader
	follower *c20Follower
	svc      *Service
	closers  []func()
}

func c20NewRig(t *testing.T) *c20Rig {
	r := &c20Rig{leader: &c20Leader{creds: auth.NewCredentialsStore(), sawReq: map[string]string{}, slow: map[int]bool{}, idCalls: map[int]int{}}, follower: &c20Follower{}}
	ln, err := net.Listen("tcp", "127.0.0.1:0")
	if err != nil {
		t.Fatal(err)
	}
	mux, err := tcp.NewMux(ln, nil)
	if err != nil {
		t.Fatal(err)
	}
	mux.Logger.SetOutput(io.Discard)
	lsvc := cluster.New(mux.Listen(cluster.MuxClusterHeader), r.leader, r.leader, r.leader)
	go mux.Serve()
	if err := lsvc.Open(); err != nil {
		t.Fatal(err)
	}
	r.follower.leaderAddr = ln.Addr().String()
	r.svc = New("127.0.0.1:0", r.follower, &c20Meta{r.follower}, nil, nil)
	r.resetClient()
	r.svc.logger.SetOutput(io.Discard)
	if err := r.svc.Start(); err != nil {
		t.Fatal(err)
	}
	r.closers = append(r.closers, r.svc.Close, func() { ln.Close() })
	return r
}

// c20Dialer hands cluster.Client connections that remember what happened on them.
type c20Dialer struct {
	inner *tcp.Dialer
	mu    sync.Mutex
	conns []*c20Conn
}

type c20Conn struct {
	net.Conn
	mu       sync.Mutex
	timedOut bool // a Read ended with an expired deadline: the answer it waited for is still owed
	reused   bool // ... and the connection was read from or written to again
	closed   bool
}

func (d *c20Dialer) Dial(addr string, timeout time.Duration) (net.Conn, error) {
	c, err := d.inner.Dial(addr, timeout)
	if err != nil {
		return nil, err
	}
	w := &c20Conn{Conn: c}
	d.mu.Lock()
	d.conns = append(d.conns, w)
	d.mu.Unlock()
	return w, nil
}
func (c *c20Conn) use() {
	c.mu.Lock()
	if c.timedOut {
		c.reused = true
	}
	c.mu.Unlock()
}
func (c *c20Conn) Read(b []byte) (int, error) {
	c.use()
	n, err := c.Conn.Read(b)
	if err != nil && errors.Is(err, os.ErrDeadlineExceeded) {
		c.mu.Lock()
		c.timedOut = true
		c.mu.Unlock()
	}
	return n, err
}
func (c *c20Conn) Write(b []byte) (int, error) { c.use(); return c.Conn.Write(b) }
func (c *c20Conn) Close() error {
	c.mu.Lock()
	c.closed = true
	c.mu.Unlock()
	return c.Conn.Close()
}

func (r *c20Rig) resetClient() {
	r.dialer = &c20Dialer{inner: tcp.NewDialer(cluster.MuxClusterHeader, nil)}
	client := cluster.NewClient(r.dialer, 30*time.Second)
	px := proxy.New(r.follower, client)
	px.SetAPIAddr("follower-api")
	r.svc.proxy = px
}

// ---------------------------------------------------------------- cases

type c20Entry struct {
	User  string   `json:"u"`
	Pass  string   `json:"p"`
	Perms []string `json:"perms"`
}

type c20Input struct {
	Kind     string     `json:"kind"`  // Execute Query Request Backup Load Remove Stepdown
	Local    string     `json:"local"` // ok notleader notleader-wrapped err
	Addr     string     `json:"addr"`  // known empty err
	File     []c20Entry `json:"file"`  // the leader's credentials
	LeaderErr string    `json:"leader_err"` // "" = the leader executes; else the error text its store answers with
	Retries  int        `json:"retries"`
	APIKnown bool       `json:"api_known"`
	Redirect bool       `json:"redirect"`
	Present  bool       `json:"present"`
	User     string     `json:"user"`
	Pass     string     `json:"pass"`
	Seq      []c20SeqStep `json:"seq,omitempty"` // non-empty: a sequence case; the fields above are unused
}

// one request of a sequence sent to ONE follower (one client, one connection pool)
type c20SeqStep struct {
	Kind    string `json:"kind"`    // Execute Query Request; a slow step may also be Remove or Stepdown
	ID      int    `json:"id"`      // unique; travels in the SQL text / node id and comes back in results and index
	Slow    bool   `json:"slow"`    // the leader answers after c20SeqDelay, the request carries timeout=c20SeqTimeout
	Retries int    `json:"retries"` // retries= parameter of a slow request
	User    string `json:"user"`    // u1 or u2 (both hold "all" on the leader)
}

const (
	c20SeqTimeout = 100 * time.Millisecond
	c20SeqDelay   = 500 * time.Millisecond
)

type c20Req struct{ method, target, ctype, body, expectReq string }

var c20Reqs = map[string]c20Req{
	"Execute":  {"POST", "/db/execute?raft_index", "application/json", `["INSERT INTO t VALUES(1)"]`, "INSERT INTO t VALUES(1)"},
	"Query":    {"GET", "/db/query?q=SELECT%201&level=strong&raft_index", "", "", "SELECT 1|STRONG"},
	"Request":  {"POST", "/db/request?raft_index&level=strong", "application/json", `["SELECT 1"]`, "SELECT 1|STRONG"},
	"Backup":   {"GET", "/db/backup?fmt=binary", "", "", ""},
	"Load":     {"POST", "/db/load?x", "application/octet-stream", string(c20SQLiteBytes()), "200 bytes"},
	"Remove":   {"DELETE", "/remove?x", "application/json", `{"id":"n9"}`, "n9"},
	"Stepdown": {"POST", "/leader?wait", "application/json", `{"id":"n7"}`, "true|n7"},
}

type c20Obs struct {
	status                  int
	results, index, servedB string // "nobody" "follower" "leader"
	body                    string // "BEmpty" "BResults" "BRemoteError" "BOther"
	bodyText                string
	location                string
	localCalls, addrCalls   int
	remote                  []c20Call
	leaderReq               string
}

func c20FileJSON(f []c20Entry) []byte {
	out := []map[string]any{}
	for _, e := range f {
		p := e.Perms
		if p == nil {
			p = []string{}
		}
		out = append(out, map[string]any{"username": e.User, "password": e.Pass, "perms": p})
	}
	b, _ := json.Marshal(out)
	return b
}

func c20Exchange(r *c20Rig, in c20Input) (c20Obs, error) {
	cs := auth.NewCredentialsStore()
	if err := cs.Load(bytes.NewReader(c20FileJSON(in.File))); err != nil {
		return c20Obs{}, err
	}
	l, f := r.leader, r.follower
	l.mu.Lock()
	l.creds, l.dbErr, l.calls, l.lastU, l.lastP = cs, in.LeaderErr, nil, "<never asked>", "<never asked>"
	l.sawReq = map[string]string{}
	l.slow, l.idCalls = map[int]bool{}, map[int]int{}
	l.mu.Unlock()
	f.mu.Lock()
	f.local, f.addr, f.apiKnown, f.localCalls, f.addrCalls = in.Local, in.Addr, in.APIKnown, 0, 0
	f.mu.Unlock()

	rq := c20Reqs[in.Kind]
	target := rq.target
	if in.Redirect {
		target += "&redirect"
	}
	if in.Retries > 0 {
		target += fmt.Sprintf("&retries=%d", in.Retries)
	}
	conn, err := net.DialTimeout("tcp", r.svc.Addr().String(), 5*time.Second)
	if err != nil {
		return c20Obs{}, err
	}
	defer conn.Close()
	conn.SetDeadline(time.Now().Add(20 * time.Second))
	var sb bytes.Buffer
	fmt.Fprintf(&sb, "%s %s HTTP/1.1\r\nHost: verif\r\nConnection: close\r\n", rq.method, target)
	if in.Present {
		fmt.Fprintf(&sb, "Authorization: Basic %s\r\n", base64.StdEncoding.EncodeToString([]byte(in.User+":"+in.Pass)))
	}
	if rq.ctype != "" {
		fmt.Fprintf(&sb, "Content-Type: %s\r\n", rq.ctype)
	}
	fmt.Fprintf(&sb, "Content-Length: %d\r\n\r\n%s", len(rq.body), rq.body)
	if _, err := conn.Write(sb.Bytes()); err != nil {
		return c20Obs{}, err
	}
	raw, _ := io.ReadAll(conn)
	head, body, _ := bytes.Cut(raw, []byte("\r\n\r\n"))
	o := c20Obs{results: "nobody", index: "nobody", servedB: "nobody"}
	lines := strings.Split(string(head), "\r\n")
	if _, err := fmt.Sscanf(lines[0], "HTTP/1.1 %d", &o.status); err != nil {
		return o, fmt.Errorf("no status line in %q", lines[0])
	}
	for _, ln := range lines[1:] {
		k, v, _ := strings.Cut(ln, ": ")
		switch strings.ToLower(k) {
		case "location":
			o.location = v
		case strings.ToLower(ServedByHTTPHeader):
			switch v {
			case f.leaderAddr:
				o.servedB = "leader"
			case "follower-api":
				o.servedB = "follower"
			default:
				o.servedB = "other:" + v
			}
		}
	}
	bs := string(body)
	has := func(s string) bool { return strings.Contains(bs, s) }
	switch {
	case has("LEADER-ROW") || has("LEADER-BACKUP") || has(fmt.Sprintf(`"last_insert_id":%d`, c20LeaderID)):
		o.results = "leader"
	case has("FOLLOWER-ROW") || has("FOLLOWER-BACKUP") || has(fmt.Sprintf(`"last_insert_id":%d`, c20FollowerID)):
		o.results = "follower"
	}
	switch {
	case has(fmt.Sprintf(`"raft_index":%d`, c20LeaderIdx)):
		o.index = "leader"
	case has(fmt.Sprintf(`"raft_index":%d`, c20FollowerIdx)):
		o.index = "follower"
	case has(`"raft_index"`):
		o.index = "other"
	}
	o.bodyText = bs
	if len(o.bodyText) > 200 {
		o.bodyText = o.bodyText[:200]
	}
	switch {
	case len(body) == 0:
		o.body = "BEmpty"
	case o.results != "nobody":
		o.body = "BResults"
	case in.LeaderErr != "" && has(in.LeaderErr):
		o.body = "BRemoteError"
	default:
		o.body = "BOther"
	}
	l.mu.Lock()
	o.remote = append([]c20Call{}, l.calls...)
	o.leaderReq = l.sawReq[in.Kind]
	l.mu.Unlock()
	f.mu.Lock()
	o.localCalls, o.addrCalls = f.localCalls, f.addrCalls
	f.mu.Unlock()
	return o, nil
}

func c20CoqServed(s string) string {
	switch s {
	case "leader":
		return "SLeader"
	case "follower":
		return "SFollower"
	case "nobody":
		return "SNobody"
	}
	return "SNobody (* " + s + " *)"
}

func c20Run(w *vWriter, r *c20Rig, in c20Input) {
	// Everything here is deterministic except the machine: on a heavily loaded host a dial or a read
	// between the two in-process services can time out.  A case whose oracle fails is therefore run
	// again from an empty connection pool (twice at most); a real defect fails every time.
	for attempt := 0; ; attempt++ {
		c, ok := c20Once(r, in)
		if (ok && c.OracleFail == "") || attempt == 2 {
			if attempt > 0 {
				c.Tags = append(c.Tags, fmt.Sprintf("attempts=%d", attempt+1))
			}
			w.Emit(c)
			return
		}
		r.resetClient()
	}
}

func c20Once(r *c20Rig, in c20Input) (VCase, bool) {
	o, err := c20Exchange(r, in)
	key := vJSON(in)
	if err != nil {
		return VCase{Input: in, Key: key, OracleFail: "exchange failed: " + err.Error(), Sig: "C20:exchange-failed"}, false
	}
	user, pass := in.User, in.Pass
	if !in.Present {
		user, pass = "", ""
	}
	ents := make([]string, len(in.File))
	for i, e := range in.File {
		ents[i] = fmt.Sprintf("{| username := %s; password := %s; perms := %s |}", coqStr(e.User), coqStr(e.Pass), coqStrList(e.Perms))
	}
	rem := make([]string, len(o.remote))
	for i, c := range o.remote {
		rem[i] = fmt.Sprintf("(%s, %s, %s)", coqStr(c.Call), coqStr(c.User), coqStr(c.Pass))
	}
	local := map[string]string{"ok": "LOk", "notleader": "LNotLeader", "notleader-wrapped": "LNotLeader", "err": "LErr"}[in.Local]
	addr := map[string]string{"known": "AKnown", "empty": "AEmpty", "err": "AErr"}[in.Addr]
	bad := strings.HasPrefix(o.servedB, "other") || o.index == "other"
	coq := fmt.Sprintf("COne {| c_kind := K%s; c_local := %s; c_addr := %s; c_leader_file := Some %s; c_db := %s; c_api_known := %s; c_redirect := %s; c_user := %s; c_pass := %s; "+
		"c_obs := {| h_body := %s; h_status := %s; h_results := %s; h_index := %s; h_served_by := %s |}; c_local_calls := %s; c_addr_calls := %s; c_remote := %s |}",
		in.Kind, local, addr, coqList(ents), map[string]string{"": "DOk", "unauthorized": "DErrUnauthorizedText"}[in.LeaderErr]+map[bool]string{true: "DErr"}[in.LeaderErr != "" && in.LeaderErr != "unauthorized"],
		coqBool(in.APIKnown), coqBool(in.Redirect), coqStr(user), coqStr(pass),
		o.body, coqN(uint64(o.status)), c20CoqServed(o.results), c20CoqServed(o.index), c20CoqServed(o.servedB), coqNat(o.localCalls), coqNat(o.addrCalls), coqList(rem))
	if bad {
		coq = strings.Replace(coq, "h_status := ", "h_status := 999%N + ", 1) // unattributable header/index: force a mismatch
	}
	refused := in.Local == "notleader" || in.Local == "notleader-wrapped"
	c := VCase{Input: in, Coq: coq, Key: key, Nontrivial: refused, Tags: []string{"kind=" + in.Kind, "local=" + in.Local}}
	c20Oracle(&c, in, o, user, pass)
	if in.LeaderErr != "" {
		// A failed backup stream makes the leader close the connection, and cluster.Client.Backup hands
		// that dead connection back to its pool; the next forwarded backup/remove/stepdown (no retry on
		// those paths) would fail once with a 500.  That is a robustness matter outside this property;
		// start from an empty pool so that cases do not depend on their order.
		r.resetClient()
	}
	return c, true
}

// ---------------------------------------------------------------- sequences with slow answers on one follower

var (
	c20ResIDRe = regexp.MustCompile(`"last_insert_id":([0-9]+)|LEADER-ROW-([0-9]+)`)
	c20IdxRe   = regexp.MustCompile(`"raft_index":([0-9]+)`)
)

type c20SeqObs struct {
	got     []int // per step: id found in results+index; -1 = error response; -2 = results and index disagree / unreadable
	detail  []string
	reused  bool
	unread  int
	idCalls map[int]int
}

func c20SeqRequest(st c20SeqStep) c20Req {
	q := "raft_index"
	if st.Slow {
		q += fmt.Sprintf("&timeout=%s&retries=%d", c20SeqTimeout, st.Retries)
	}
	switch st.Kind {
	case "Execute":
		return c20Req{"POST", "/db/execute?" + q, "application/json", fmt.Sprintf(`["INSERT INTO t VALUES(%d)"]`, st.ID), ""}
	case "Query":
		return c20Req{"GET", fmt.Sprintf("/db/query?q=SELECT%%20%d&level=strong&%s", st.ID, q), "", "", ""}
	case "Request":
		return c20Req{"POST", "/db/request?level=strong&" + q, "application/json", fmt.Sprintf(`["SELECT %d"]`, st.ID), ""}
	case "Remove":
		return c20Req{"DELETE", "/remove?" + q, "application/json", fmt.Sprintf(`{"id":"n%d"}`, st.ID), ""}
	}
	return c20Req{"POST", "/leader?" + q, "application/json", fmt.Sprintf(`{"id":"n%d"}`, st.ID), ""}
}

func c20RunSeqOnce(r *c20Rig, steps []c20SeqStep) (c20SeqObs, error) {
	r.resetClient() // an empty pool, a fresh recording dialer
	cs := auth.NewCredentialsStore()
	cs.Load(strings.NewReader(`[{"username":"u1","password":"pw1","perms":["all"]},{"username":"u2","password":"pw2","perms":["all"]}]`))
	l, f := r.leader, r.follower
	l.mu.Lock()
	l.creds, l.dbErr, l.calls = cs, "", nil
	l.sawReq, l.slow, l.idCalls, l.delay = map[string]string{}, map[int]bool{}, map[int]int{}, c20SeqDelay
	for _, st := range steps {
		if st.Slow {
			l.slow[st.ID] = true
		}
	}
	l.mu.Unlock()
	f.mu.Lock()
	f.local, f.addr, f.apiKnown, f.localCalls, f.addrCalls = "notleader", "known", true, 0, 0
	f.mu.Unlock()

	o := c20SeqObs{}
	for i, st := range steps {
		rq := c20SeqRequest(st)
		conn, err := net.DialTimeout("tcp", r.svc.Addr().String(), 5*time.Second)
		if err != nil {
			return o, err
		}
		conn.SetDeadline(time.Now().Add(60 * time.Second))
		pw := map[string]string{"u1": "pw1", "u2": "pw2"}[st.User]
		var sb bytes.Buffer
		fmt.Fprintf(&sb, "%s %s HTTP/1.1\r\nHost: verif\r\nConnection: close\r\nAuthorization: Basic %s\r\n", rq.method, rq.target,
			base64.StdEncoding.EncodeToString([]byte(st.User+":"+pw)))
		if rq.ctype != "" {
			fmt.Fprintf(&sb, "Content-Type: %s\r\n", rq.ctype)
		}
		fmt.Fprintf(&sb, "Content-Length: %d\r\n\r\n%s", len(rq.body), rq.body)
		conn.Write(sb.Bytes())
		raw, _ := io.ReadAll(conn)
		conn.Close()
		head, body, _ := bytes.Cut(raw, []byte("\r\n\r\n"))
		status := 0
		fmt.Sscanf(string(head), "HTTP/1.1 %d", &status)
		if status == 0 {
			return o, fmt.Errorf("request %d: no status line", i)
		}
		bs := string(body)
		got := -1
		switch {
		case status >= 400 || strings.Contains(bs, `"error"`):
			got = -1
		case st.Kind == "Remove" || st.Kind == "Stepdown":
			got = st.ID // success carries nothing that could be another request's
		default:
			got = -2
			rm, im := c20ResIDRe.FindStringSubmatch(bs), c20IdxRe.FindStringSubmatch(bs)
			if rm != nil && im != nil {
				rid, _ := strconv.Atoi(rm[1] + rm[2])
				idx, _ := strconv.Atoi(im[1])
				if idx-c20IdxOffset == rid {
					got = rid
				}
			}
		}
		o.got = append(o.got, got)
		if len(bs) > 160 {
			bs = bs[:160]
		}
		o.detail = append(o.detail, fmt.Sprintf("%d %s", status, bs))
	}
	// let the leader finish what it still owes, then look at the follower's connections
	done := make(chan struct{})
	go func() { l.inflight.Wait(); close(done) }()
	select {
	case <-done:
	case <-time.After(5 * time.Second):
	}
	time.Sleep(40 * time.Millisecond)
	r.dialer.mu.Lock()
	for _, c := range r.dialer.conns {
		c.mu.Lock()
		if c.reused {
			o.reused = true
		}
		closed := c.closed
		c.mu.Unlock()
		if !closed {
			// idle in the pool: nothing may be waiting to be read on it
			c.Conn.SetReadDeadline(time.Now().Add(5 * time.Millisecond))
			if n, _ := c.Conn.Read(make([]byte, 1)); n > 0 {
				o.unread++
			}
		}
	}
	r.dialer.mu.Unlock()
	l.mu.Lock()
	o.idCalls = l.idCalls
	l.slow = map[int]bool{}
	l.mu.Unlock()
	r.resetClient()
	return o, nil
}

func c20SeqCase(in c20Input, o c20SeqObs) VCase {
	var steps, got []string
	slow := false
	for i, st := range in.Seq {
		retry := st.Kind == "Execute" || st.Kind == "Query" || st.Kind == "Request"
		steps = append(steps, fmt.Sprintf("{| ps_id := %s; ps_slow := %s; ps_retry := %s |}", coqN(uint64(st.ID)), coqBool(st.Slow), coqBool(retry)))
		switch g := o.got[i]; {
		case g == -1:
			got = append(got, "None")
		case g < 0:
			got = append(got, "(Some 0%N)")
		default:
			got = append(got, "(Some "+coqN(uint64(g))+")")
		}
		slow = slow || st.Slow
	}
	c := VCase{Input: in, Key: vJSON(in), Nontrivial: slow, Tags: []string{"sequence", fmt.Sprintf("sequence-length=%d", len(in.Seq))},
		Coq: fmt.Sprintf("CSeq {| sq_steps := %s; sq_got := %s; sq_reused := %s; sq_unread := %s |}", coqList(steps), coqList(got), coqBool(o.reused), coqNat(o.unread))}
	fail := func(sig, msg string) {
		if c.OracleFail == "" {
			c.OracleFail = fmt.Sprintf("sequence %s forwarded by one follower: %s; per request (status body): %q; leader calls per id: %v", vJSON(in.Seq), msg, o.detail, o.idCalls)
			c.Sig = "C20:" + sig
		}
	}
	for i, st := range in.Seq {
		switch g := o.got[i]; {
		case g == st.ID:
		case g == -1 && st.Slow:
			// a timed-out request is an error
		case g == -1:
			fail("forwarded-request-failed:"+st.Kind, fmt.Sprintf("request #%d (id %d), which the leader answers at once, failed", i+1, st.ID))
		default:
			fail("answered-with-another-requests-results:"+st.Kind, fmt.Sprintf("request #%d (id %d) was answered with results/index of id %d", i+1, st.ID, g))
		}
		if !st.Slow && o.idCalls[st.ID] != 1 {
			fail("executed-count:"+st.Kind, fmt.Sprintf("request #%d (id %d) reached the leader %d times", i+1, st.ID, o.idCalls[st.ID]))
		}
	}
	if o.reused {
		fail("connection-reused-after-timeout", "a pooled connection was used again after a read on it had timed out (its answer was still owed)")
	}
	if o.unread > 0 {
		fail("owed-answer-left-in-pool", fmt.Sprintf("%d idle pooled connection(s) hold unread bytes", o.unread))
	}
	return c
}

func c20RunSeq(w *vWriter, r *c20Rig, steps []c20SeqStep) {
	in := c20Input{Seq: steps}
	for attempt := 0; ; attempt++ {
		o, err := c20RunSeqOnce(r, steps)
		if err != nil {
			if attempt == 2 {
				w.Emit(VCase{Input: in, Key: vJSON(in), OracleFail: "exchange failed: " + err.Error(), Sig: "C20:exchange-failed"})
				return
			}
			continue
		}
		c := c20SeqCase(in, o)
		if c.OracleFail == "" || attempt == 2 {
			if attempt > 0 {
				c.Tags = append(c.Tags, fmt.Sprintf("attempts=%d", attempt+1))
			}
			w.Emit(c)
			return
		}
	}
}

func c20SQLiteBytes() []byte {
	b := make([]byte, 200)
	copy(b, "SQLite format 3\x00")
	return b
}

// the documented credential rule (C19), on the leader's file
func c20Authorized(file []c20Entry, u, p, perm string) bool {
	last := func(name string) *c20Entry {
		var r *c20Entry
		for i := range file {
			if file[i].User == name {
				r = &file[i]
			}
		}
		return r
	}
	granted := func(name, pm string) bool {
		e := last(name)
		if e == nil {
			return false
		}
		for _, x := range e.Perms {
			if x == pm {
				return true
			}
		}
		return false
	}
	if granted("*", perm) || granted("*", "all") {
		return true
	}
	if u == "" {
		return false
	}
	e := last(u)
	if e == nil || e.Pass != p {
		return false
	}
	return granted(u, perm) || granted(u, "all")
}

// the documented permission per kind (for "is the caller acceptable to the leader")
var c20Need = map[string][]string{"Execute": {"execute"}, "Query": {"query"}, "Request": {"query", "execute"}, "Backup": {"backup"},
	"Load": {"load"}, "Remove": {"remove"}, "Stepdown": {"leader-ops"}}

func c20Oracle(c *VCase, in c20Input, o c20Obs, user, pass string) {
	fail := func(sig, msg string) {
		if c.OracleFail == "" {
			c.OracleFail = fmt.Sprintf("%s to a node whose store answers %q (redirect=%v, credentials present=%v %q/%q, leader file %s): %s; status=%d results=%s index=%s served-by=%s local=%d leader-calls=%v",
				in.Kind, in.Local, in.Redirect, in.Present, in.User, in.Pass, string(c20FileJSON(in.File)), msg, o.status, o.results, o.index, o.servedB, o.localCalls, o.remote)
			c.Sig = "C20:" + sig + ":" + in.Kind
		}
	}
	refused := in.Local == "notleader" || in.Local == "notleader-wrapped"
	// the handler rule: a redirect only when one was asked for, and never "nothing"
	if !in.Redirect && o.status == 301 {
		fail("redirect-not-requested", "301 although the request did not ask for a redirect")
	}
	if !in.Redirect && o.status/100 == 2 && o.body == "BEmpty" {
		executedSomewhere := (len(o.remote) == 1 && in.LeaderErr == "") || in.Local == "ok"
		if !((in.Kind == "Remove" || in.Kind == "Stepdown") && executedSomewhere) {
			fail("empty-200", "the request was neither redirected nor executed nor answered with an error: status 200, empty body")
		}
	}
	if o.localCalls > 1 {
		fail("local-retried", "the local store operation ran more than once")
	}
	if len(o.remote) > 1 {
		fail("executed-twice-on-leader", "more than one call reached the leader")
	}
	for _, rc := range o.remote {
		if rc.User != user || rc.Pass != pass {
			fail("credentials-changed", fmt.Sprintf("the leader was asked about %q/%q", rc.User, rc.Pass))
		}
		if rc.Call != in.Kind {
			fail("other-operation", "the leader executed "+rc.Call)
		}
	}
	if !refused {
		if len(o.remote) > 0 {
			fail("forwarded-needlessly", "forwarded although the local store did not answer ErrNotLeader")
		}
		return
	}
	// the local store refused: never the follower's results
	if o.results == "follower" || o.index == "follower" || o.servedB == "follower" {
		fail("local-results", "the client received the follower's own results")
	}
	if in.Redirect {
		c.Tags = append(c.Tags, "redirect")
		if len(o.remote) > 0 {
			fail("redirect-executed", "executed on the leader although a redirect was asked for")
		}
		if in.APIKnown && (o.status != 301 || !strings.HasPrefix(o.location, "http://leader-api:4001/")) {
			fail("no-redirect", "no 301 to the leader's API address (Location "+o.location+")")
		}
		return
	}
	if in.Addr != "known" {
		c.Tags = append(c.Tags, "leader-unknown")
		if len(o.remote) > 0 {
			fail("forwarded-nowhere", "forwarded without a leader address")
		}
		return
	}
	ok := true
	for _, pm := range c20Need[in.Kind] {
		if !c20Authorized(in.File, user, pass, pm) {
			ok = false
		}
	}
	if !ok {
		c.Tags = append(c.Tags, "forward:leader-rejects")
		if len(o.remote) > 0 {
			fail("executed-unauthorized", "executed on the leader with credentials it does not accept")
		}
		if o.status != 401 {
			fail("rejection-hidden", "leader's rejection not reported as 401")
		}
		return
	}
	if len(o.remote) != 1 {
		fail("not-executed", "not executed on the leader")
		return
	}
	if want := c20Reqs[in.Kind].expectReq; want != "" && o.leaderReq != want {
		fail("request-changed", fmt.Sprintf("the leader received %q, the client sent %q", o.leaderReq, want))
	}
	if in.LeaderErr != "" {
		c.Tags = append(c.Tags, "forward:leader-error", "leader-error="+in.LeaderErr)
		if o.results != "nobody" {
			fail("results-despite-error", "results although the forwarded-to node answered with an error")
		}
		// transparency for errors: the remote node's error reaches the client as an error
		isErr := o.status >= 400 || strings.Contains(o.bodyText, `"error"`)
		if !isErr {
			fail("remote-error-hidden", fmt.Sprintf("the forwarded-to node answered %q, the client got status %d body %q", in.LeaderErr, o.status, o.bodyText))
		} else if in.Kind != "Backup" && in.LeaderErr != "unauthorized" && !strings.Contains(o.bodyText, in.LeaderErr) {
			fail("remote-error-text-lost", fmt.Sprintf("the forwarded-to node answered %q, the client got status %d body %q", in.LeaderErr, o.status, o.bodyText))
		}
		return
	}
	c.Tags = append(c.Tags, "forward:ok")
	hasRes := map[string]bool{"Execute": true, "Query": true, "Request": true, "Backup": true}[in.Kind]
	hasIdx := map[string]bool{"Execute": true, "Query": true, "Request": true}[in.Kind]
	// (the served-by header of a backup is set after the body is streamed and so never sent: not part of the results)
	if o.status != 200 || (hasRes && o.results != "leader") || (hasIdx && o.index != "leader") || (in.Kind != "Backup" && o.servedB != "leader") {
		fail("not-transparent", "the leader's results / index / served-by did not reach the client unchanged")
	}
}

func TestVerif_C20(t *testing.T) {
	w := vOpen()
	defer w.Close()
	rng := vRand()
	r := c20NewRig(t)
	defer func() {
		for _, f := range r.closers {
			f()
		}
	}()
	if raw := vReplayInput(); raw != nil {
		var in c20Input
		if err := json.Unmarshal(raw, &in); err != nil {
			t.Fatal(err)
		}
		if len(in.Seq) > 0 {
			c20RunSeq(w, r, in.Seq)
		} else {
			c20Run(w, r, in)
		}
		return
	}
	kinds := []string{"Execute", "Query", "Request", "Backup", "Load", "Remove", "Stepdown"}
	files := [][]c20Entry{
		{{"u1", "pw1", []string{"all"}}},
		{{"u1", "pw1", []string{"execute", "backup", "remove"}}},
		{{"u1", "pw1", []string{"query", "load", "leader-ops"}}},
		{{"*", "", []string{"query", "execute"}}, {"u1", "pw1", []string{}}},
		{},
	}
	type pres struct {
		present    bool
		user, pass string
	}
	press := []pres{{false, "", ""}, {true, "u1", "pw1"}, {true, "u1", "bad"}}
	// exhaustive over the small dimensions
	for _, k := range kinds {
		for _, local := range []string{"notleader", "ok", "err", "notleader-wrapped"} {
			for _, redirect := range []bool{false, true} {
				for _, addr := range []string{"known", "empty", "err"} {
					for fi, file := range files {
						for _, p := range press {
							for _, lerr := range []string{"", "leader boom"} {
								dbok := lerr == ""
								for _, api := range []bool{true, false} {
									// dimensions that cannot matter are sampled, not enumerated
									if local != "notleader" && (fi > 1 || !dbok || !api && !redirect) && rng.Intn(6) != 0 {
										continue
									}
									if redirect && (addr != "known" || !dbok) && rng.Intn(4) != 0 {
										continue
									}
									if !redirect && !api && rng.Intn(3) != 0 {
										continue
									}
									if addr != "known" && (fi > 0 || !dbok) && rng.Intn(5) != 0 {
										continue
									}
									c20Run(w, r, c20Input{Kind: k, Local: local, Addr: addr, File: file, LeaderErr: lerr, APIKnown: api,
										Redirect: redirect, Present: p.present, User: p.user, Pass: p.pass})
								}
							}
						}
					}
				}
			}
		}
	}
	// the forwarded-to node answers with each error its store can answer a forwarded request with — it has
	// just lost leadership ("not leader"), knows no leader, refuses a stale read, is not ready, fails, or
	// says "unauthorized" itself — for every kind, with and without redirect, with retries
	for _, k := range kinds {
		for _, lerr := range []string{"not leader", "leader not found", "stale read", "store not ready", "leader boom", "unauthorized"} {
			for _, redirect := range []bool{false, true} {
				for _, retries := range []int{0, 1, 3} {
					for fi, file := range files[:2] {
						for _, p := range press {
							if (redirect || fi == 1 || retries == 3) && rng.Intn(3) != 0 {
								continue
							}
							local := "notleader"
							if rng.Intn(4) == 0 {
								local = "notleader-wrapped"
							}
							c20Run(w, r, c20Input{Kind: k, Local: local, Addr: "known", File: file, LeaderErr: lerr, APIKnown: rng.Intn(5) != 0,
								Redirect: redirect, Retries: retries, Present: p.present, User: p.user, Pass: p.pass})
						}
					}
				}
			}
		}
	}
	// sequences on ONE follower (one client, one pool): some requests are answered by the leader only
	// after their deadline; the following ones must still get the answer to themselves
	nextID := 700000
	mkSeq := func(kinds []string, slowAt map[int]bool, slowKind string, retries int) []c20SeqStep {
		var steps []c20SeqStep
		for i, k := range kinds {
			nextID++
			st := c20SeqStep{Kind: k, ID: nextID, User: []string{"u1", "u2"}[i%2]}
			if slowAt[i] {
				st.Slow, st.Retries = true, retries
				if slowKind != "" {
					st.Kind = slowKind
				}
			}
			steps = append(steps, st)
		}
		return steps
	}
	eqr := []string{"Execute", "Query", "Request", "Query", "Execute", "Request", "Query"}
	for _, sk := range []string{"", "Execute", "Query", "Request", "Remove", "Stepdown"} {
		for _, retries := range []int{0, 1} {
			if sk == "Remove" || sk == "Stepdown" || sk == "" {
				if retries == 1 {
					continue
				}
			}
			c20RunSeq(w, r, mkSeq(eqr[:5], map[int]bool{1: true}, sk, retries))
		}
	}
	c20RunSeq(w, r, mkSeq(eqr[:4], map[int]bool{0: true}, "", 0))
	c20RunSeq(w, r, mkSeq(eqr[:6], map[int]bool{1: true, 2: true}, "", 0))
	c20RunSeq(w, r, mkSeq(eqr[:7], map[int]bool{0: true, 3: true}, "", 1))
	c20RunSeq(w, r, mkSeq(eqr[:4], map[int]bool{}, "", 0))
	c20RunSeq(w, r, mkSeq(eqr[:3], map[int]bool{2: true}, "", 0))
	nseq := vN(8, 150)
	for i := 0; i < nseq; i++ {
		l := 3 + rng.Intn(5)
		kinds := make([]string, l)
		slowAt := map[int]bool{}
		for j := range kinds {
			kinds[j] = eqr[rng.Intn(3)]
			if rng.Intn(4) == 0 {
				slowAt[j] = true
			}
		}
		if len(slowAt) == 0 {
			slowAt[rng.Intn(l-1)] = true
		}
		c20RunSeq(w, r, mkSeq(kinds, slowAt, []string{"", "", "Remove", "Stepdown", "Execute"}[rng.Intn(5)], rng.Intn(2)))
	}
	// random leader files and presentations
	n := vN(300, 8000)
	perms := []string{"all", "execute", "query", "backup", "load", "remove", "leader-ops", "status", "join"}
	for i := 0; i < n; i++ {
		var file []c20Entry
		for _, u := range []string{"u1", "u2", "*"} {
			if rng.Intn(3) == 0 {
				continue
			}
			ps := []string{}
			for _, p := range perms {
				if rng.Intn(4) == 0 && (p != "all" || rng.Intn(3) == 0) {
					ps = append(ps, p)
				}
			}
			file = append(file, c20Entry{u, map[string]string{"u1": "pw1", "u2": "pw2", "*": ""}[u], ps})
		}
		p := []pres{{false, "", ""}, {true, "u1", "pw1"}, {true, "u1", "bad"}, {true, "u2", "pw2"}, {true, "zz", "pw1"}}[rng.Intn(5)]
		c20Run(w, r, c20Input{Kind: kinds[rng.Intn(len(kinds))], Local: []string{"notleader", "notleader", "notleader-wrapped", "ok", "err"}[rng.Intn(5)],
			Addr: []string{"known", "known", "known", "empty", "err"}[rng.Intn(5)], File: file,
			LeaderErr: []string{"", "", "", "", "leader boom", "not leader", "leader not found", "stale read", "unauthorized"}[rng.Intn(9)], APIKnown: rng.Intn(4) != 0,
			Redirect: rng.Intn(3) == 0, Retries: rng.Intn(3), Present: p.present, User: p.user, Pass: p.pass})
	}
}
