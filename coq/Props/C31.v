(* C31 — property theorems only.  Times in milliseconds since the call. *)
From Coq Require Import NArith List.
From RQ Require Import Model.C31 Proofs.C31.
Open Scope N_scope.

Theorem C31_retry_spec : forall timeout i r, 0 < i ->
  let out := begin_with_retry (fuel_for timeout i) timeout i r in
  out <> OutOfFuel /\
  (forall t, out = Acquired t -> r <= t /\ t < r + i /\ t mod i = 0) /\
  (r <= timeout -> exists t, out = Acquired t) /\
  (forall t, out = TimedOut t -> timeout < t /\ t <= timeout + i /\ t < r) /\
  (timeout + i < r -> exists t, out = TimedOut t).
Proof. exact retry_spec. Qed.
Print Assumptions C31_retry_spec.

Theorem C31_retry_closed_form : forall timeout i r, 0 < i ->
  begin_with_retry (fuel_for timeout i) timeout i r =
    if first_poll_at_or_after r i <=? first_poll_after timeout i
    then Acquired (first_poll_at_or_after r i * i)
    else TimedOut (first_poll_after timeout i * i).
Proof. exact retry_closed. Qed.
Print Assumptions C31_retry_closed_form.

Theorem C31_close :
  (9000 <= close_timeout /\ close_timeout <= 11000 /\ 0 < close_interval /\ close_interval <= 100) /\
  forall hold,
    close_gate hold <> OutOfFuel /\
    (forall t, close_gate hold = Acquired t -> hold <= t /\ t < hold + close_interval) /\
    (hold <= close_timeout -> exists t, close_gate hold = Acquired t) /\
    (forall t, close_gate hold = TimedOut t ->
       close_timeout < t /\ t <= close_timeout + close_interval /\ t < hold) /\
    (close_timeout + close_interval < hold -> exists t, close_gate hold = TimedOut t).
Proof. exact close_spec. Qed.
Print Assumptions C31_close.
