(* C17 — specification (from the property text) and proofs about Model.C17. *)
From Coq Require Import List NArith Bool Lia PeanoNat.
From RQ Require Import Model.C13 Model.C17.
Import ListNotations.

Set Implicit Arguments.

Section Spec.
  Variables D E : Type.
  Variable run : pool -> sub E -> D -> D.

  (* Assumed of SQLite: a connection opened with mode=ro and query_only changes nothing. *)
  Definition ro_pool_inert : Prop := forall s d, run RO s d = d.
  (* Assumed of SQLite: a statement for which sqlite3_stmt_readonly answers true changes nothing. *)
  Definition honest (s : sub E) : Prop := sb_ro s = true -> forall d, run RW s d = d.

  Definition subs_of (t : text E) : list (sub E) :=
    match t with TSubs _ l => l | _ => [] end.
  (* a unified request treats the text as read-only *)
  Definition treated_ro (t : text E) : Prop := classify t = Some true.
  Definition treated_ro_b (t : text E) : bool :=
    match classify t with Some true => true | _ => false end.
  (* the last SQL statement of the text is read-only (true of every single-statement text
     that is classified read-only) *)
  Definition last_ro (t : text E) : Prop :=
    match rev (subs_of t) with [] => True | s :: _ => sb_ro s = true end.

  Lemma treated_ro_b_iff t : treated_ro_b t = true <-> treated_ro t.
  Proof.
    unfold treated_ro_b, treated_ro. destruct (classify t) as [[|]|]; split; intros H; try reflexivity; try discriminate H.
  Qed.

  (* ---------------- query endpoint ---------------- *)
  Section ROPool.
    Hypothesis H : ro_pool_inert.

    Lemma q_text_ro l d : q_text run RO l d = d.
    Proof. unfold q_text. destruct (rev l); [reflexivity|apply H]. Qed.

    Lemma db_query_inert req d : db_query run req d = d.
    Proof.
      unfold db_query. revert d; induction req as [|t req IH]; intros d; [reflexivity|].
      cbn [fold_left]. rewrite IH. destruct t; try reflexivity. apply q_text_ro.
    Qed.

    (* whatever the level: served locally or logged and applied (by any node), the contents stay *)
    Theorem query_endpoint_never_writes lv req d :
      match store_query D lv req with
      | Local => serve_local run req d = d
      | ViaLog e => e = EnQuery D req /\ apply_entry run e d = d
      end.
    Proof.
      unfold store_query. destruct (is_strong lv).
      - split; [reflexivity|]. cbn [apply_entry]. apply db_query_inert.
      - apply db_query_inert.
    Qed.

    (* a unified request that is served without the log never writes, whatever its texts are *)
    Theorem unified_local_never_writes lv req d :
      store_request D lv req = Local -> serve_local run req d = d.
    Proof. intros _. apply db_query_inert. Qed.

    (* ---------------- cluster ---------------- *)
    Definition touches (ev : event D E) (i : nat) : Prop :=
      match ev with
      | EvApply j _ | EvSnapshot j _ | EvBoot j _ => j = i
      | _ => False
      end.

    Lemma set_nth_other (l : list D) i j x : i <> j -> nth_error (set_nth l i x) j = nth_error l j.
    Proof.
      revert i j; induction l as [|y l IH]; intros i j Hij; [now destruct i|].
      destruct i, j; cbn [set_nth nth_error]; try reflexivity; [congruence|].
      apply IH. congruence.
    Qed.

    Lemma set_nth_same (l : list D) i x : nth_error l i = Some x -> set_nth l i x = l.
    Proof.
      revert i; induction l as [|y l IH]; intros i Hx; [reflexivity|].
      destruct i; cbn [set_nth nth_error] in *; [congruence|]. f_equal. now apply IH.
    Qed.

    Lemma on_node_other (c : cluster D E) j f i : j <> i -> nth_error (c_dbs (on_node c j f)) i = nth_error (c_dbs c) i.
    Proof.
      intros Hji. unfold on_node. destruct (nth_error (c_dbs c) j); [|reflexivity].
      cbn [c_dbs]. now apply set_nth_other.
    Qed.

    Lemma on_node_inert (c : cluster D E) j f : (forall d, f d = d) -> c_dbs (on_node c j f) = c_dbs c.
    Proof.
      intros Hf. unfold on_node. destruct (nth_error (c_dbs c) j) as [d|] eqn:Hd; [|reflexivity].
      cbn [c_dbs]. rewrite Hf. now apply set_nth_same.
    Qed.

    Lemma do_route_client (c : cluster D E) j rt r :
      (rt = Local \/ exists e, rt = ViaLog e) -> c_dbs (do_route run c j rt r) = c_dbs c.
    Proof.
      intros _. destruct rt; cbn [do_route].
      - apply on_node_inert. intros d. apply db_query_inert.
      - reflexivity.
    Qed.

    Lemma step_untouched (c : cluster D E) ev i :
      ~ touches ev i -> nth_error (c_dbs (step run c ev)) i = nth_error (c_dbs c) i.
    Proof.
      intros Hn. destruct ev as [j lv r|j lv r|j r|j d|j k|j d|j d]; cbn [step touches] in *.
      - rewrite do_route_client; [reflexivity|]. unfold store_query. destruct (is_strong lv); eauto.
      - rewrite do_route_client; [reflexivity|]. unfold store_request.
        destruct (Nat.eqb (n_rw r) 0 && negb (is_strong lv)); eauto.
      - reflexivity.
      - reflexivity.
      - destruct (nth_error (c_log c) k); [|reflexivity]. now apply on_node_other.
      - now apply on_node_other.
      - now apply on_node_other.
    Qed.

    (* A node's database changes only by applying a log entry, installing a snapshot or an
       explicit boot (a load is a log entry): over any sequence of events none of which is
       one of these at node i, node i's database stays what it was. *)
    Theorem db_changes_only_via_log_snapshot_boot_load evs (c : cluster D E) i :
      Forall (fun ev => ~ touches ev i) evs ->
      nth_error (c_dbs (fold_left (step run) evs c)) i = nth_error (c_dbs c) i.
    Proof.
      intros Hf; revert c; induction Hf as [|ev evs Hev _ IH]; intros c; [reflexivity|].
      cbn [fold_left]. rewrite IH. now apply step_untouched.
    Qed.

    (* ... and a load reaches the databases only as a log entry *)
    Theorem load_is_logged (c : cluster D E) i d :
      step run c (EvLoad i d) = {| c_log := c_log c ++ [EnLoad E d]; c_dbs := c_dbs c |}.
    Proof. reflexivity. Qed.
  End ROPool.

  (* ---------------- unified endpoint, through the log ---------------- *)
  (* what does hold: a text treated as read-only whose last statement is read-only is inert
     (the driver's Query steps only the last statement of a text) *)
  Lemma treated_ro_text_inert t d :
    Forall honest (subs_of t) -> treated_ro t -> last_ro t -> request_text run t d = d.
  Proof.
    intros Hh Ht Hl. destruct t as [| |x l]; try reflexivity.
    unfold treated_ro in Ht. unfold request_text. rewrite Ht.
    unfold last_ro in Hl. cbn [subs_of] in *. unfold q_text.
    destruct (rev l) as [|s r] eqn:Hr; [reflexivity|].
    assert (Hin : In s l). { apply in_rev. rewrite Hr. now left. }
    rewrite Forall_forall in Hh. now apply (Hh s Hin).
  Qed.

  Theorem unified_ro_never_writes_partial req d :
    Forall (fun t => Forall honest (subs_of t)) req ->
    Forall (fun t => treated_ro t -> last_ro t) req ->
    db_request run req d = db_request run (filter (fun t => negb (treated_ro_b t)) req) d.
  Proof.
    unfold db_request. intros Hh Hl; revert d.
    induction req as [|t req IH]; intros d; [reflexivity|].
    inversion Hh as [|? ? Hh1 Hh2]; inversion Hl as [|? ? Hl1 Hl2]; subst.
    cbn [fold_left filter]. destruct (treated_ro_b t) eqn:Ht; cbn [negb].
    - apply treated_ro_b_iff in Ht. rewrite (treated_ro_text_inert d Hh1 Ht (Hl1 Ht)). now apply IH.
    - cbn [fold_left]. now apply IH.
  Qed.

  (* single-statement texts: classification and execution look at the same statement *)
  Corollary single_statement_ro_inert x s d :
    honest s -> treated_ro (TSubs x [s]) -> request_text run (TSubs x [s]) d = d.
  Proof.
    intros Hs Ht. apply treated_ro_text_inert; [now constructor|assumption|].
    unfold last_ro; cbn. unfold treated_ro in Ht; cbn in Ht. congruence.
  Qed.
End Spec.

(* ---------------- histories of API calls on a live node ---------------- *)
Section HistorySpec.
  Variables D E : Type.
  Variable run_at : bool -> pool -> sub E -> D -> D.
  (* Assumed of SQLite: a mode=ro connection that HAS query_only set changes nothing.
     Nothing is assumed of a connection that lost the flag. *)
  Hypothesis H_inert : ro_pool_inert (run_at true).

  (* Whatever prefix of its read-only-pool footprint an operation completes before it
     returns, the pooled connection goes back with query_only set. *)
  Lemma footprint_keeps_flag (op : hop E) exit :
    flag_after (firstn exit (ro_footprint op)) true = true.
  Proof.
    destruct op as [r|r|r|lv r|lv r|r| |f v|]; try destruct f; try destruct v;
      destruct exit as [|[|exit]]; reflexivity.
  Qed.

  Theorem ro_pool_invariant (ops : list (nat * hop E)) (st : hstate D) :
    h_ok st = true -> h_ok (hrun run_at st ops) = true.
  Proof.
    revert st; induction ops as [|[exit op] ops IH]; intros st Hok; [exact Hok|].
    cbn [hrun]. apply IH. unfold hstep.
    destruct (hop_effect run_at (h_ok st) op (h_db st)) as [d' app]. cbn [fst h_ok].
    rewrite Hok. apply footprint_keeps_flag.
  Qed.

  (* operations that are allowed to change the contents: writes that go through the log
     (and direct calls on the read-write connection, which are not an API of the node) *)
  Definition may_write (op : hop E) : bool :=
    match op with
    | HExecute _ | HDbRequest _ | HDbExecute _ => true
    | HRequest lv r => match store_request D lv r with ViaLog _ => true | Local => false end
    | _ => false
    end.

  Lemma hop_effect_inert (op : hop E) d :
    may_write op = false -> fst (hop_effect run_at true op d) = d.
  Proof.
    destruct op as [r|r|r|lv r|lv r|r| |f v|]; cbn [may_write hop_effect]; intros Hm; try discriminate Hm; try reflexivity.
    - apply (db_query_inert H_inert).
    - pose proof (query_endpoint_never_writes H_inert lv r d) as Q.
      destruct (store_query D lv r) as [|e]; cbn [fst]; [exact Q|exact (proj2 Q)].
    - destruct (store_request D lv r) as [|e]; [|discriminate Hm]. cbn [fst]. apply (db_query_inert H_inert).
  Qed.

  (* For ANY history of API calls starting from a pristine pool: query-endpoint requests at
     every level, locally served unified requests, refused requests, backups of every format
     (successful or not, wherever they stop) and snapshots leave the contents alone. *)
  Theorem history_reads_never_write (ops : list (nat * hop E)) (st : hstate D) :
    h_ok st = true ->
    Forall (fun eo => may_write (snd eo) = false) ops ->
    h_db (hrun run_at st ops) = h_db st.
  Proof.
    intros Hok Hf; revert st Hok; induction Hf as [|[exit op] ops Hop _ IH]; intros st Hok; [reflexivity|].
    cbn [hrun]. cbn [snd] in Hop.
    assert (Hok' : h_ok (fst (hstep run_at exit st op)) = true).
    { apply (ro_pool_invariant [(exit, op)] st Hok). }
    rewrite (IH _ Hok'). unfold hstep. rewrite Hok.
    pose proof (hop_effect_inert op (h_db st) Hop) as Hd.
    destruct (hop_effect run_at true op (h_db st)) as [d' app]. exact Hd.
  Qed.

  (* ... and inside any history (writes included) the same holds step by step: an operation
     that may not write leaves the contents of the state it meets. *)
  Theorem history_step_inert (ops : list (nat * hop E)) (st : hstate D) exit (op : hop E) :
    h_ok st = true -> may_write op = false ->
    h_db (fst (hstep run_at exit (hrun run_at st ops) op)) = h_db (hrun run_at st ops).
  Proof.
    intros Hok Hop. pose proof (ro_pool_invariant ops st Hok) as Hk.
    unfold hstep. rewrite Hk.
    pose proof (hop_effect_inert op (h_db (hrun run_at st ops)) Hop) as Hd.
    destruct (hop_effect run_at true op (h_db (hrun run_at st ops))) as [d' app]. exact Hd.
  Qed.

  (* A Store operation that did not grow the log did not change the contents. *)
  Definition store_op (op : hop E) : bool :=
    match op with HDbQuery _ | HDbRequest _ | HDbExecute _ => false | _ => true end.

  Theorem change_needs_log_entry (op : hop E) d :
    store_op op = true -> snd (hop_effect run_at true op d) = false ->
    fst (hop_effect run_at true op d) = d.
  Proof.
    destruct op as [r|r|r|lv r|lv r|r| |f v|]; cbn [store_op hop_effect]; intros Hs Ha; try discriminate Hs; try reflexivity.
    - pose proof (query_endpoint_never_writes H_inert lv r d) as Q.
      destruct (store_query D lv r) as [|e]; cbn [fst]; [exact Q|exact (proj2 Q)].
    - destruct (store_request D lv r) as [|e]; cbn [fst snd] in *; [apply (db_query_inert H_inert)|discriminate Ha].
    - unfold store_execute in Ha. cbn [snd] in Ha. discriminate Ha.
  Qed.
End HistorySpec.

(* ---------------- the full statement for the unified endpoint is false ---------------- *)
Open Scope N_scope.

Lemma t_run_ro_pool_inert : ro_pool_inert t_run.
Proof. intros s d. reflexivity. Qed.

Definition ex_select : sub (list rowop) := {| sb_ro := true; sb_eff := [] |}.
Definition ex_delete : sub (list rowop) := {| sb_ro := false; sb_eff := [(1, None)] |}.
Definition ex_text : text (list rowop) := TSubs false [ex_select; ex_delete].   (* "SELECT 1; DELETE FROM t WHERE id = 1" *)
Definition ex_db : table := [(1, 101); (2, 102)].

Lemma ex_honest : Forall (honest t_run) (subs_of ex_text).
Proof.
  unfold ex_text, subs_of. constructor; [|constructor; [|constructor]].
  - intros _ d. reflexivity.
  - intros H. discriminate H.
Qed.

(* "No statement a unified request treats as read-only changes the database" would be:
     forall run, ro_pool_inert run -> forall t d, Forall (honest run) (subs_of t) ->
       treated_ro t -> request_text run t d = d.
   It fails for the code as it is: *)
Theorem unified_ro_never_writes_refuted :
  exists (run : pool -> sub (list rowop) -> table -> table) (t : text (list rowop)) (d : table),
    ro_pool_inert run /\ Forall (honest run) (subs_of t) /\ treated_ro t /\
    request_text run t d <> d /\
    (* and it reaches every node when the request goes through the log: strong level, or next to a write *)
    store_request table LvStrong [t] = ViaLog (EnExecuteQuery table [t]) /\
    apply_entry run (EnExecuteQuery table [t]) d <> d.
Proof.
  exists t_run, ex_text, ex_db.
  split; [exact t_run_ro_pool_inert|]. split; [exact ex_honest|]. split; [reflexivity|].
  split; [vm_compute; discriminate|]. split; [reflexivity|]. vm_compute; discriminate.
Qed.

(* concrete instances of the theorems that hold *)
Example ex_query_endpoint :
  db_query t_run [ex_text] ex_db = ex_db /\
  store_query table LvStrong [ex_text] = ViaLog (EnQuery table [ex_text]) /\
  store_query table LvNone [ex_text] = Local.
Proof. repeat split. Qed.

Example ex_unified_local :
  store_request table LvNone [ex_text] = Local /\ serve_local t_run [ex_text] ex_db = ex_db.
Proof. split; reflexivity. Qed.

Example ex_partial :
  (* SELECT; DELETE; SELECT  — treated as read-only, last statement read-only: inert *)
  let t := TSubs false [ex_select; ex_delete; ex_select] in
  treated_ro t /\ last_ro t /\ request_text t_run t ex_db = ex_db.
Proof. repeat split. Qed.

Example ex_cluster :
  let c := {| c_log := []; c_dbs := [ex_db; ex_db] |} in
  let evs := [EvRequest 0%nat LvStrong [ex_text]; EvQuery 1%nat LvNone [ex_text]; EvLoad 0%nat [(9, 9)]; EvApply 0%nat 0%nat] in
  Forall (fun ev => ~ touches ev 1%nat) evs /\
  c_dbs (fold_left (step t_run) evs c) = [[(2, 102)]; ex_db].
Proof.
  split; [|reflexivity].
  repeat constructor; cbn; intros H; try exact H; discriminate H.
Qed.

Lemma t_run_at_inert : ro_pool_inert (t_run_at true).
Proof. intros s d. reflexivity. Qed.

Example ex_history :
  (* failed vacuumed backup, refused PRAGMA, strong query with a writing tail, snapshot, local unified read *)
  let ops : list (nat * hop (list rowop)) :=
    [(0%nat, HBackup BfBinary true); (0%nat, HRefused); (1%nat, HQuery LvStrong [ex_text]);
     (0%nat, HSnapshot); (1%nat, HRequest LvNone [ex_text])] in
  Forall (fun eo => may_write table (snd eo) = false) ops /\
  hrun t_run_at {| h_db := ex_db; h_ok := true |} ops = {| h_db := ex_db; h_ok := true |}.
Proof. split; [repeat constructor|reflexivity]. Qed.
