# C06 — configuration read by bin/check (see checks/registry.py)
SPEC = dict(
    title="Incremental WAL segments stay correct under busy and partial checkpoints",
    pkg="./db", files=["db/c06_verif_test.go"],
    case_preamble="",   # every literal carries its scope (bin/check parses ids printed as n%N)
    rule="11 hand-picked schedules, then random schedules of 5-14 steps (thorough: same, many more) over {write transaction of varying size (insert/update/delete "
         "on two tables, 0-32 extra rows), read transaction start/stop on up to 5 extra connections, incremental snapshot attempt through the real "
         "CheckpointManager with a 3 ms busy timeout}; 80% get a steering episode spliced in at a random position: reader parked at the end of a log with "
         "unmoved frames -> all-moved-not-truncated, then 1-4 rounds of {reader leaves, short write restarts the log in place, new reader parks, attempt "
         "again | append behind the mark, attempt (busy) | append, re-park at the new end, attempt}, appends while readers stay parked, final release and "
         "truncating attempt. A schedule is non-trivial when >= 1 attempt ends all-moved-not-truncated and a later attempt detects a reset or resumes at a "
         "non-zero frame; distinct by the schedule text",
    exhaustive=False,
    trusted=["SQLite's WAL locking rules (read marks, read lock 0, backfill limit, restart/truncate conditions) are MODELLED in Model/C06.step, not proved; "
             "every generated schedule checks them against real SQLite (outcome triple, log restarted or appended, frames appended)",
             "salts never repeat between generations (SQLite increments salt-1 on every restart; 2^32 wrap-around ignored)",
             "the scanner emits keep_last of the frames from the resume index (C05; re-checked here on every kept segment)",
             "the store's rule 'staged segment survives iff Checkpoint returned no error' (store/store.go fsmSnapshot) is transcribed in the driver, not executed",
             "SQLite writes every page it adds to the file (hypothesis `covers` of C06_segments_partial), checked by the replay oracle on every schedule"],
    assumptions=["attempts are serialised with writes (CheckpointManager's documented contract)", "readers do not start or stop while an attempt runs",
                 "only incremental attempts (w != nil) between two full snapshots; write transactions commit (a rolled-back spilled transaction is the recorded observation, DESIGN section 7)"],
    level_text="C06_segments_partial / C06_failed_leaves_nothing / C06_reset_detected hold for every schedule of any length over the modelled SQLite rules; "
               "partial because those rules are validated by the tie, not derived from SQLite's source.",
    level_note="Model = explicit WAL state machine + Checkpoint's four exits + WALResetWatch; tie = per-event differential run on a real database; "
               "oracle = base + kept segments replayed by real SQLite vs live database bytes, and salt-based reset detection.",
    technique="Coq invariant proof over all schedules + differential run against real SQLite and the real CheckpointManager + replay byte oracle",
    design_ref="6/C06",
    shard=30, coq_jobs=8,
    timeout_quick=600, timeout_thorough=14400,
)
