# C15 — configuration read by bin/check (see checks/registry.py)
SPEC = dict(
    title="No request can change rqlite-critical SQLite settings",
    pkg="./store", files=["store/c15_verif_test.go"],
    rule="texts from a grammar of PRAGMA statements (EXPLAIN prefix, case, separators incl. comments/BOM, schema prefix, four quoting styles, "
         "'=' '==' '(..)' bare and broken forms, values) embedded at a random position among harmless statements (one text in 12 starts with an EXPLAIN statement) with prefixes, Unicode white space "
         "after ';' and trailers, one quarter byte-mutated; a text is non-trivial when it sets a critical PRAGMA (or runs a checkpoint) and that "
         "PRAGMA is not the first token of the text (comment/BOM/empty statement before it, EXPLAIN prefix, or a later statement); distinct by text",
    exhaustive=False,
    trusted=["SQLite's tokenizer/parser and go-sqlite3's statement loop enter through Model/C15_Sqlite.v (hand model, over-approximating; validated per case: every change observed on real SQLite must be predicted)",
             "Go strings.TrimLeftFunc(unicode.IsSpace)/IndexByte/Index/HasPrefix semantics as transcribed in Model/C15.v"],
    assumptions=["the settings can only be changed through the PRAGMA statement (pragma_* table-valued functions of these PRAGMAs take no argument; probed in the corpus)"],
    level_text="C15_guard_complete holds for every byte string: whenever the SQLite reading model yields an effect, the guard model returns true; "
               "C15_applied_everywhere lifts it to every request through Execute/Query/Request. Guard model vs real IsBreakingPragma and effects model vs real SQLite "
               "(three db.DB entry points, both pools) are compared on every generated text; a live Store is exercised on a sample with requests built by the real command/sql.Process (SqlExplain/ForceQuery flags as in production).",
    level_note="Model = new token-based guard transcribed from Go + independent model of SQLite's reading; tie = differential + real-SQLite oracle.",
    technique="Coq simulation proof (guard state machine vs SQLite tokenizer/grammar model) + differential run + real-SQLite oracle",
    design_ref="6/C15",
    shard=300,
    timeout_quick=600,
)
