# C10 — configuration read by bin/check (see checks/registry.py)
SPEC = dict(
    title="Snapshot transfer installs exactly the source data or nothing",
    pkg="./snapshot", files=["snapshot/c10_verif_test.go"],
    rule="7 snapshot shapes (3 hand-framed tiny ones; 4 streamed by the real Store.Open: full, full+incremental, full+3 incrementals "
         "incl. a multi-WAL one, and a full+WAL snapshot installed into a second real store) x {Sink, Restore}; intact stream in every "
         "2-split (tiny), byte-by-byte, boundary +-1 and random splits, with and without the zstd transport (declared size =, <, > length); "
         "mutations: flip/drop/insert/truncate at every byte position (tiny) or at every header byte, every artifact boundary and random "
         "payload positions (real), appends, and 22 re-encoded header mutations; a case is non-trivial when the stream fed to the "
         "receiver differs from the source stream (not only the split); distinct by shape+mutation+split",
    exhaustive=False,
    shard=60, coq_jobs=8,
    trusted=["protobuf decoding of SnapshotHeader: a parameter of the model; the driver gives the model the header the real decoder produced for each stream",
             "zstd frame codec: parameter with hypothesis zdec (zenc x) = Some x; tied by running the real Compressor/Decompressor",
             "hash/crc32 (Castagnoli): re-implemented in Coq (crc32c_upd) and compared on every installed file",
             "db.ReplayWAL (SQLite checkpoint) is outside the model: Restore's result is 'database + WALs handed to ReplayWAL'; the oracle compares the restored database with an independent ReplayWAL of the streamed files"],
    assumptions=["the caller never calls Sink.Write with an empty slice (io.Copy/io.CopyN contract) and cancels the sink on the first failed Write (hashicorp/raft does)",
                 "file-system errors (create/sync/rename failing) are not modelled"],
    level_text="C10_split_invariant, C10_install_exact, C10_restore_exact, C10_no_truncation_no_extension hold for every byte stream, every chunking into non-empty writes and every header decoder; "
               "C10_transfer for every source whose files pass the SQLite magic checks; the model is run against the real Sink/Restore on every driver stream.",
    level_note="Model = Sink.Write/processHeader, FullSink.Write loop/advance/Close, Restore (with fix C10-restore-eof), Compressor/Decompressor framing, transcribed; protobuf, zstd and SQLite checkpoint are parameters.",
    technique="Coq proof (write-split invariance by induction over the artifact list; acceptance = exact frame) + differential run of model and implementation on mutated real snapshot streams + reference acceptance oracle",
    design_ref="6/C10",
    timeout_quick=600, timeout_thorough=7200,
)
