(* C09 — model of the snapshot catalog (snapshot/store.go, sink.go, snapshot.go, staging.go),
   WITH the fix C09-full-needed-recheck (Sink.Close re-checks FULL_NEEDED for an incremental and
   only a full install clears the flag).

   State = what is on disk in the store directory (complete snapshot directories, temporary
   directories with what has been put into them, the FULL_NEEDED file) plus the open sinks of the
   running process.  Operations = the snapshot-store API; Sink.Close is a list of micro-steps, and
   a close can be cut after any number of them (an I/O error: the process lives on; or a crash:
   followed by a restart, i.e. NewStore -> check()).
   Executable definitions only; proofs are in Proofs/C09.v. *)
From Coq Require Import List NArith Bool.
Import ListNotations.
Open Scope N_scope.

(* a directory under the store root *)
Record dirc := {
  d_term : N; d_index : N;
  d_seq : N;            (* stands for the millisecond timestamp in the directory name *)
  d_meta : bool;        (* meta.json written *)
  d_db : bool;          (* data.db present *)
  d_nwal : N;           (* *.wal files directly in the directory *)
  d_incoming : bool     (* a wal-incoming sub-directory is (still) there *)
}.

Definition set_content (d : dirc) (meta db : bool) (nwal : N) (inc : bool) : dirc :=
  {| d_term := d_term d; d_index := d_index d; d_seq := d_seq d;
     d_meta := meta; d_db := db; d_nwal := nwal; d_incoming := inc |}.

(* what the sink has learnt from the bytes written to it *)
Inductive hdrst :=
| HNone                      (* no complete header yet *)
| HFullOK (nwal : N)         (* full-snapshot header and exactly the data it describes *)
| HFullBad                   (* full-snapshot header, data incomplete or not matching *)
| HInc (nwal : N)            (* incremental-file header naming a WAL directory with nwal files *)
| HRejected.                 (* header refused by Write (full snapshot needed) *)

(* an open sink and its temporary directory *)
Record sinkm := { k_id : N (* how many sinks were created before it *); k_dir : dirc; k_hdr : hdrst }.

Record store := {
  snaps : list dirc;    (* directories without the .tmp suffix, newest installed first *)
  tmps : list dirc;     (* *.tmp directories no open sink owns (left behind by a failed Close) *)
  sinks : list sinkm;   (* open sinks of the running process, each with its *.tmp directory *)
  flag : bool;          (* FULL_NEEDED exists *)
  clock : N;            (* time *)
  nsinks : N            (* sinks created so far *)
}.

Definition empty_store : store := {| snaps := []; tmps := []; sinks := []; flag := false; clock := 0; nsinks := 0 |}.

(* ---------------------------------------------------------------- catalog (snapshot.go) *)

(* Snapshot.Less: (term, index, id) *)
Definition dlt (a b : dirc) : bool :=
  if d_term a =? d_term b then
    if d_index a =? d_index b then d_seq a <? d_seq b else d_index a <? d_index b
  else d_term a <? d_term b.

(* oldest first *)
Fixpoint insert (x : dirc) (l : list dirc) : list dirc :=
  match l with
  | [] => [x]
  | y :: r => if dlt x y then x :: l else y :: insert x r
  end.
Definition sorted_of (l : list dirc) : list dirc := fold_right insert [] l.

(* loadSnapshot: a directory that is not a complete snapshot makes the whole Scan fail *)
Definition loadable (d : dirc) : bool := d_meta d && (d_db d || (0 <? d_nwal d)).
Definition is_full (d : dirc) : bool := d_db d.

(* Scan: None = error *)
Definition scan (s : store) : option (list dirc) :=
  if forallb loadable (snaps s) then Some (sorted_of (snaps s)) else None.

(* ListAll: newest first *)
Definition list_all (s : store) : option (list dirc) := option_map (@rev dirc) (scan s).

(* DueNext: FULL_NEEDED, or no snapshot directory at all *)
Definition due_full (s : store) : bool := flag s || match snaps s with [] => true | _ :: _ => false end.

(* ResolveFiles on an oldest-first list: position of the snapshot -> (the full it is based on,
   total number of WAL files); None = error *)
Fixpoint resolve_in (l : list dirc) (base : option dirc) (acc : N) (seq : N) : option (dirc * N) :=
  match l with
  | [] => None
  | d :: r =>
    let '(base', acc') := if is_full d then (Some d, d_nwal d) else (base, acc + d_nwal d) in
    if d_seq d =? seq then
      match base' with Some b => Some (b, acc') | None => None end
    else resolve_in r base' acc' seq
  end.
Definition resolve (s : store) (seq : N) : option (dirc * N) :=
  match scan s with Some l => resolve_in l None 0 seq | None => None end.

(* ---------------------------------------------------------------- operations *)

Inductive closemode :=
| CNormal
| CFail (k : nat)       (* an I/O error after k micro-steps; the process continues *)
| CCrash (k : nat).     (* the process dies after k micro-steps and the node restarts *)

Inductive op :=
| OCreate (term index : N)
| OWriteFull (i : N) (nwal : N) (ok : bool)   (* i = the sink's k_id *)
| OWriteInc (i : N) (nwal : N)
| OClose (i : N) (m : closemode)
| OCancel (i : N)
| OSetFull
| OReap
| OReopen.

(* what an operation reports *)
Inductive outcome :=
| ROk
| RInstalledFull | RInstalledInc
| RNothing            (* Close returned nil without installing (no usable header) *)
| RFullNeeded         (* ErrFullNeeded *)
| RError              (* any other error *)
| RReaped (n c : N)
| RSkipped.           (* operation not applicable in this state; not executed *)

Definition find_sink (s : store) (i : N) : option sinkm :=
  find (fun k => k_id k =? i) (sinks s).
Definition drop_sink (l : list sinkm) (i : N) : list sinkm := filter (fun k => negb (k_id k =? i)) l.

Definition upd (s : store) sn tm sk fl : store :=
  {| snaps := sn; tmps := tm; sinks := sk; flag := fl; clock := clock s; nsinks := nsinks s |}.

(* micro-steps of Sink.Close *)
Inductive mstep :=
| MRecheck       (* incremental: DueNext() again; Full -> remove tmp, ErrFullNeeded *)
| MMove          (* rename the WAL directory to tmp/wal-incoming *)
| MDistribute    (* StagingDir.MoveWALFilesTo(tmp) *)
| MRmIncoming    (* remove tmp/wal-incoming *)
| MFullClose     (* FullSink.Close: completeness, SQLite magic, CRCs, sidecars *)
| MMeta          (* writeMeta *)
| MRename        (* rename tmp -> final: the snapshot becomes visible *)
| MClearFlag.    (* SetDueNext(Incremental), full snapshots only *)

Definition close_steps (h : hdrst) : list mstep :=
  match h with
  | HInc _ => [MRecheck; MMove; MDistribute; MRmIncoming; MMeta; MRename]
  | HFullOK _ | HFullBad => [MFullClose; MMeta; MRename; MClearFlag]
  | HNone | HRejected => []
  end.

(* one micro-step on the sink's directory d; None = the step fails (Close returns an error) *)
Definition micro (h : hdrst) (s : store) (d : dirc) (m : mstep) : option (store * dirc) :=
  match m with
  | MRecheck => if due_full s then None else Some (s, d)
  | MMove => Some (s, set_content d (d_meta d) (d_db d) (d_nwal d) true)
  | MDistribute => Some (s, set_content d (d_meta d) (d_db d) (match h with HInc n => n | _ => d_nwal d end) true)
  | MRmIncoming => Some (s, set_content d (d_meta d) (d_db d) (d_nwal d) false)
  | MFullClose => match h with HFullOK _ => Some (s, d) | _ => None end
  | MMeta => Some (s, set_content d true (d_db d) (d_nwal d) (d_incoming d))
  | MRename => Some (upd s (d :: snaps s) (tmps s) (sinks s) (flag s), d)
  | MClearFlag => Some (upd s (snaps s) (tmps s) (sinks s) false, d)
  end.

(* run at most [fuel] micro-steps; returns the state, the directory, whether a step failed,
   and whether all steps were run *)
Fixpoint run_micro (h : hdrst) (s : store) (d : dirc) (ms : list mstep) (fuel : nat)
  : store * dirc * bool * bool :=
  match ms, fuel with
  | [], _ => (s, d, false, true)
  | _ :: _, O => (s, d, false, false)
  | m :: r, S f =>
    match micro h s d m with
    | None => (s, d, true, false)
    | Some (s', d') => run_micro h s' d' r f
    end
  end.

(* NewStore -> check(): temporary directories are removed; the process' sinks are gone *)
Definition reopen (s : store) : store := upd s (snaps s) [] [] (flag s).

(* reapInternal on the catalog (the reap itself is C07's subject and atomic here) *)
(* PartitionAtFull / BeforeID on an oldest-first list: (older, newest full, newer) *)
Fixpoint split_go (l older : list dirc) (best : option (list dirc * dirc * list dirc)) :=
  match l with
  | [] => best
  | d :: r => split_go r (older ++ [d]) (if is_full d then Some (older, d, r) else best)
  end.
Definition split_at_full (l : list dirc) : option (list dirc * dirc * list dirc) := split_go l [] None.

Definition sum_wals (l : list dirc) : N := fold_right (fun d a => d_nwal d + a) 0 l.
Definition blen (l : list dirc) : N := N.of_nat (length l).

Definition reap (s : store) : store * outcome :=
  match scan s with
  | None => (s, RError)
  | Some [] => (s, RReaped 0 0)
  | Some l =>
    match split_at_full l with
    | None => (s, RError)                                  (* no full snapshot found *)
    | Some (older, f, newer) =>
      match l with
      | [_] => (s, RReaped 0 0)
      | _ =>
        let wals := d_nwal f + sum_wals newer in
        if match newer with [] => (wals =? 0) | _ :: _ => false end then
          (upd s (f :: nil) (tmps s) (sinks s) (flag s), RReaped (blen older) 0)
        else if 0 <? wals then
          let newest := last newer f in
          let c := {| d_term := d_term newest; d_index := d_index newest; d_seq := clock s;
                      d_meta := true; d_db := true; d_nwal := 0; d_incoming := false |} in
          ({| snaps := [c]; tmps := tmps s; sinks := sinks s; flag := flag s; clock := clock s + 1; nsinks := nsinks s |},
           RReaped (blen newer + blen older) wals)
        else (s, RReaped 0 0)
      end
    end
  end.

Definition step (s : store) (o : op) : store * outcome :=
  match o with
  | OCreate t i =>
    let d := {| d_term := t; d_index := i; d_seq := clock s; d_meta := false; d_db := false; d_nwal := 0; d_incoming := false |} in
    ({| snaps := snaps s; tmps := tmps s; sinks := {| k_id := nsinks s; k_dir := d; k_hdr := HNone |} :: sinks s;
        flag := flag s; clock := clock s + 1; nsinks := nsinks s + 1 |}, ROk)
  | OWriteFull i n ok =>
    match find_sink s i with
    | Some k =>
      match k_hdr k with
      | HNone =>
        (* FullSink creates data.db at once and the WAL files as their data arrives *)
        let d' := set_content (k_dir k) false true (if ok then n else 0) false in
        (upd s (snaps s) (tmps s)
             ({| k_id := i; k_dir := d'; k_hdr := if ok then HFullOK n else HFullBad |} :: drop_sink (sinks s) i) (flag s), ROk)
      | _ => (s, RSkipped)
      end
    | None => (s, RSkipped)
    end
  | OWriteInc i n =>
    match find_sink s i with
    | Some k =>
      match k_hdr k with
      | HNone =>
        if n =? 0 then (s, RSkipped)      (* an incremental payload carries at least one WAL file *)
        else if due_full s
        then (upd s (snaps s) (tmps s) ({| k_id := i; k_dir := k_dir k; k_hdr := HRejected |} :: drop_sink (sinks s) i) (flag s), RFullNeeded)
        else (upd s (snaps s) (tmps s) ({| k_id := i; k_dir := k_dir k; k_hdr := HInc n |} :: drop_sink (sinks s) i) (flag s), ROk)
      | _ => (s, RSkipped)
      end
    | None => (s, RSkipped)
    end
  | OClose i m =>
    match find_sink s i with
    | Some k =>
      let h := k_hdr k in
      let d := k_dir k in
      let s0 := upd s (snaps s) (tmps s) (drop_sink (sinks s) i) (flag s) in   (* s.opened = false *)
      match close_steps h with
      | [] => (s0, RNothing)                       (* RemoveAll(tmp), nil *)
      | ms =>
        let fuel := match m with CNormal => length ms | CFail k | CCrash k => k end in
        let '(s1, d1, failed, complete) := run_micro h s0 d ms fuel in
        let renamed := existsb (fun x => d_seq x =? d_seq d) (snaps s1) in
        let full_needed := failed && match h with HInc _ => true | _ => false end in
        (* what was done to the directory stays on disk as an orphan, unless it was renamed into
           place or removed (ErrFullNeeded) *)
        let s2 := if renamed || full_needed then s1
                  else upd s1 (snaps s1) (d1 :: tmps s1) (sinks s1) (flag s1) in
        let res := if failed then (if full_needed then RFullNeeded else RError)
                   else if complete then (match h with HInc _ => RInstalledInc | _ => RInstalledFull end)
                   else RError in
        match m with
        | CCrash _ => if complete then (s2, res) else (reopen s2, res)
        | _ => (s2, res)
        end
      end
    | None => (s, RSkipped)
    end
  | OCancel i =>
    match find_sink s i with
    | Some k =>
      match k_hdr k with
      | HFullBad =>
        (* Cancel closes the FullSink first; with data missing that fails (ErrIncomplete) and the
           temporary directory is left behind until the next restart *)
        (upd s (snaps s) (k_dir k :: tmps s) (drop_sink (sinks s) i) (flag s), RError)
      | _ => (upd s (snaps s) (tmps s) (drop_sink (sinks s) i) (flag s), ROk)
      end
    | None => (s, RSkipped)
    end
  | OSetFull => (upd s (snaps s) (tmps s) (sinks s) true, ROk)
  | OReap => reap s
  | OReopen => (reopen s, ROk)
  end.

Fixpoint run (s : store) (ops : list op) : store :=
  match ops with [] => s | o :: r => run (fst (step s o)) r end.

(* ---------------------------------------------------------------- correspondence interface *)

(* what the driver observes after each operation *)
Record view := {
  v_out : N * N * N;                  (* outcome code, and the two counts of a reap *)
  v_list : option (list (N * N * bool * N));   (* ListAll, newest first: term, index, full?, #wal; None = error *)
  v_tmps : list (N * N);              (* (term, index) of the *.tmp directories, sorted *)
  v_flag : bool;                      (* FULL_NEEDED exists *)
  v_due_full : bool;                  (* DueNext() = Full *)
  v_resolve : list (option (N * N * N)) (* per listed snapshot: (term, index) of its base full and the WAL count; None = error *)
}.

Definition out_code (o : outcome) : N * N * N :=
  match o with
  | ROk => (0, 0, 0) | RInstalledFull => (1, 0, 0) | RInstalledInc => (2, 0, 0) | RNothing => (3, 0, 0)
  | RFullNeeded => (4, 0, 0) | RError => (5, 0, 0) | RReaped n c => (6, n, c) | RSkipped => (7, 0, 0)
  end.

Definition proj (d : dirc) : N * N * bool * N := (d_term d, d_index d, is_full d, d_nwal d).

Definition pair_lt (a b : N * N) : bool :=
  if fst a =? fst b then snd a <? snd b else fst a <? fst b.
Fixpoint pins (x : N * N) (l : list (N * N)) : list (N * N) :=
  match l with [] => [x] | y :: r => if pair_lt x y then x :: l else y :: pins x r end.

Definition view_of (s : store) (o : outcome) : view :=
  {| v_out := out_code o;
     v_list := option_map (map proj) (list_all s);
     v_tmps := fold_right pins [] (map (fun d => (d_term d, d_index d)) (tmps s ++ map k_dir (sinks s)));
     v_flag := flag s;
     v_due_full := due_full s;
     v_resolve := match list_all s with
                  | None => []
                  | Some l => map (fun d => match resolve s (d_seq d) with
                                            | Some (b, n) => Some (d_term b, d_index b, n)
                                            | None => None end) l
                  end |}.

Definition triple_eqb (a b : N * N * N) : bool :=
  (fst (fst a) =? fst (fst b)) && (snd (fst a) =? snd (fst b)) && (snd a =? snd b).
Definition ent_eqb (a b : N * N * bool * N) : bool :=
  triple_eqb (fst (fst (fst a)), snd (fst (fst a)), snd a) (fst (fst (fst b)), snd (fst (fst b)), snd b)
  && Bool.eqb (snd (fst a)) (snd (fst b)).
Fixpoint list_eqb {A} (f : A -> A -> bool) (a b : list A) : bool :=
  match a, b with
  | [], [] => true
  | x :: a', y :: b' => f x y && list_eqb f a' b'
  | _, _ => false
  end.
Definition opt_eqb {A} (f : A -> A -> bool) (a b : option A) : bool :=
  match a, b with Some x, Some y => f x y | None, None => true | _, _ => false end.

Definition view_eqb (a b : view) : bool :=
  triple_eqb (v_out a) (v_out b)
  && opt_eqb (list_eqb ent_eqb) (v_list a) (v_list b)
  && list_eqb (fun x y => (fst x =? fst y) && (snd x =? snd y)) (v_tmps a) (v_tmps b)
  && Bool.eqb (v_flag a) (v_flag b)
  && Bool.eqb (v_due_full a) (v_due_full b)
  && list_eqb (opt_eqb triple_eqb) (v_resolve a) (v_resolve b).

(* a case: the operations and what was observed after each of them *)
Record case := { c_ops : list op; c_views : list view }.

Fixpoint check_from (s : store) (ops : list op) (vs : list view) : bool :=
  match ops, vs with
  | [], [] => true
  | o :: r, v :: vr =>
    let '(s', out) := step s o in
    view_eqb (view_of s' out) v && check_from s' r vr
  | _, _ => false
  end.

Definition check_case (c : case) : bool := check_from empty_store (c_ops c) (c_views c).
