(* C01 — property theorems only. *)
From Coq Require Import List String.
From RQ Require Import Lib.C33_Log Model.C14 Proofs.C14 Model.C01 Proofs.C01.

(* For every SQL program within the property's quantifier (every statement parsed, its calls visible to the
   pre-filter, no random()/randomblob() inside ORDER BY), every snapshot point k and every assignment of clocks and
   random generators to the applications of the log entries: restart (database reused or restored), manual
   recovery, snapshot install and live apply at another time all hold the database the leader's live apply holds.
   Partial: SQLite enters as `sem` applied to the statement with its environment-reading calls instantiated (Model.C01.inst);
   snapshot/restore fidelity (C04, C10) is a premise. *)
Theorem C01_converge_partial : forall (db image : Type) (sem : db -> node -> db) (init : db)
    (snapshot : db -> image) (restore : image -> db),
  (forall d, restore (snapshot d) = d) ->
  forall p, Forall in_quantifier p ->
  forall k envs envs' envs0,
    let l := committed p in
    restart_fast db sem init k envs envs' l = live db sem init envs0 l
    /\ restart_slow db sem init image snapshot restore k envs envs' l = live db sem init envs0 l
    /\ recovered db sem init image snapshot restore k envs envs' l = live db sem init envs0 l
    /\ installed db sem init image snapshot restore k envs envs' l = live db sem init envs0 l
    /\ live db sem init envs l = live db sem init envs0 l.
Proof. exact C01_converge_thm. Qed.
Print Assumptions C01_converge_partial.

(* the apply paths agree on any log of environment-free statements *)
Theorem C01_paths_agree : forall (db image : Type) (sem : db -> node -> db) (init : db)
    (snapshot : db -> image) (restore : image -> db),
  (forall d, restore (snapshot d) = d) ->
  forall l, Forall (fun t => env_free t = true) l ->
  forall k envs envs' envs0,
    restart_fast db sem init k envs envs' l = live db sem init envs0 l
    /\ restart_slow db sem init image snapshot restore k envs envs' l = live db sem init envs0 l
    /\ recovered db sem init image snapshot restore k envs envs' l = live db sem init envs0 l
    /\ installed db sem init image snapshot restore k envs envs' l = live db sem init envs0 l.
Proof. exact paths_agree. Qed.
Print Assumptions C01_paths_agree.

(* after rewriting, evaluation does not read the clock or the random generator *)
Theorem C01_env_independent : forall (db : Type) (sem : db -> node -> db) text t,
  scan_sound text t = true -> ord_clean t = true ->
  forall e1 e2 d,
    exec db sem e1 d (replicated (processed full_cfg text (Some t)) t)
    = exec db sem e2 d (replicated (processed full_cfg text (Some t)) t).
Proof. exact env_independent_replicated. Qed.
Print Assumptions C01_env_independent.
