(* C04 — model of the snapshot chain of one node: store/store.go fsmSnapshot / OnRelease / fsmRestore /
   fsmApply(LOAD) / ReadFrom / Open, snapshot/sink.go Close, snapshot/snapshot.go ResolveFiles,
   snapshot/restore.go Restore, snapshot/store.go reapInternal.
   Executable definitions only; proofs are in Proofs/C04.v.

   Abstraction: the database is a map key -> value (0 = absent); a WAL / staged segment is the list of
   (key, value) assignments since the previous checkpoint; a checkpoint and a WAL replay are "override".
   (That a compacted WAL checkpoints like the original is C05; the SQLite page level is below this model.) *)
From Coq Require Import List NArith Bool.
Import ListNotations.
Open Scope N_scope.

Definition cells := list (N * N).          (* newest binding first *)
Definition frames := list (N * N).         (* in write order *)

Fixpoint get (d : cells) (k : N) : N :=
  match d with
  | [] => 0
  | (k', v) :: r => if k' =? k then v else get r k
  end.

Definition apply_frames (d : cells) (w : frames) : cells := rev w ++ d.
Definition apply_segs (d : cells) (ws : list frames) : cells := fold_left apply_frames ws d.

Fixpoint vec_cells (k : N) (v : list N) : cells :=
  match v with
  | [] => []
  | x :: r => (k, x) :: vec_cells (k + 1) r
  end.
Definition cells_of_vec (v : list N) : cells := vec_cells 1 v.

(* ---- raft log (entries issued through the log; the index of an entry is its position, from 1) ---- *)
Inductive entry :=
| EWrite (w : frames)
| ELoad (c : cells)
| ELoadBad            (* a load whose data is rejected by the swap *)
| ENoop.

Definition replay_entry (d : cells) (e : entry) : cells :=
  match e with
  | EWrite w => apply_frames d w
  | ELoad c => c
  | ELoadBad => d
  | ENoop => d
  end.
Definition replay (l : list entry) (d : cells) : cells := fold_left replay_entry l d.

(* ---- snapshot catalog, newest first ---- *)
Inductive snap :=
| SFull (idx : N) (db : cells) (wals : list frames)
| SInc (idx : N) (wals : list frames).

Definition snap_idx (x : snap) : N := match x with SFull i _ _ => i | SInc i _ => i end.

(* ResolveFiles for the newest snapshot: walk back to the nearest full, collect the WAL files in order *)
Fixpoint resolve (l : list snap) : option (cells * list frames) :=
  match l with
  | [] => None
  | SFull _ db ws :: _ => Some (db, ws)
  | SInc _ ws :: r => match resolve r with
                      | Some (db, ws0) => Some (db, ws0 ++ ws)
                      | None => None
                      end
  end.

(* a snapshot the FSM has created (fsmSnapshot returned) and raft's snapshot goroutine has not yet persisted;
   entries are applied meanwhile.  A full snapshot holds the database file as it was (the streamer keeps the
   old file open across a swap); an incremental one only names the staging directory. *)
Inductive pend :=
| PendFull (idx : N) (img : cells) (swapped : bool)
| PendInc (idx : N) (swapped : bool).     (* swapped: the database was replaced (load) since the snapshot was created *)

Record st := {
  dbf : cells;                 (* database file: content as of the last checkpoint / swap *)
  wal : frames;                (* live WAL *)
  staging : list frames;       (* wal-staging directory *)
  snaps : list snap;
  full_needed : bool;          (* FULL_NEEDED flag file *)
  log : list entry;
  mnewer : bool;               (* the database file is newer than Store.dbModifiedTime (the dbModified() guard) *)
  pending : option pend;       (* snapshot created but not yet persisted / released *)
}.

Definition init : st :=
  {| dbf := []; wal := []; staging := []; snaps := []; full_needed := false; log := []; mnewer := false; pending := None |}.

Definition live (s : st) : cells := apply_frames (dbf s) (wal s).
Definition applied (s : st) : N := N.of_nat (length (log s)).
Definition newest_idx (s : st) : N := match snaps s with [] => 0 | x :: _ => snap_idx x end.

(* Restore(Open(newest)); an empty store restores to the empty database *)
Definition restored (s : st) : option cells :=
  match snaps s with
  | [] => Some []
  | _ => match resolve (snaps s) with
         | Some (db, ws) => Some (apply_segs db ws)
         | None => None
         end
  end.

Definition suffix (s : st) : list entry := skipn (N.to_nat (newest_idx s)) (log s).

(* newest snapshot + log entries after it *)
Definition rebuilt (s : st) : option cells :=
  match restored s with Some r => Some (replay (suffix s) r) | None => None end.

(* Store.snapshotDueNext: FULL_NEEDED, or an empty snapshot store, or the dbModified() guard *)
Definition full_due (s : st) : bool :=
  full_needed s || match snaps s with [] => true | _ => false end || mnewer s.

Inductive outcome := POk | PNotInvoked | PFailBefore | PFailAfter.

Inductive op :=
| OWrite (ks : list N) (v : N)
| OSnapBegin                 (* fsmSnapshot: full/incremental decision, checkpoint, staging; the snapshot is now in flight *)
| OSnapPersist (o : outcome) (* raft's snapshot goroutine: Create, Persist, sink.Close, Release -- with outcome o *)
| OSnapBlocked               (* fsmSnapshot fails: the TRUNCATE checkpoint (full or incremental) is busy because of a reader *)
| OLoad (c : list N)
| OLoadBad
| OBoot (c : list N)
| OInstall (c : list N) (segs : list (list N * N))
                         (* install of a sender's chain: full snapshot c plus the WAL files of its un-reaped incrementals *)
| OReap
| ORestart.

Definition set_dbf s d w := {| dbf := d; wal := w; staging := staging s; snaps := snaps s; full_needed := full_needed s; log := log s; mnewer := mnewer s; pending := pending s |}.
Definition set_staging s g := {| dbf := dbf s; wal := wal s; staging := g; snaps := snaps s; full_needed := full_needed s; log := log s; mnewer := mnewer s; pending := pending s |}.
Definition set_snaps s l := {| dbf := dbf s; wal := wal s; staging := staging s; snaps := l; full_needed := full_needed s; log := log s; mnewer := mnewer s; pending := pending s |}.
Definition set_full s b := {| dbf := dbf s; wal := wal s; staging := staging s; snaps := snaps s; full_needed := b; log := log s; mnewer := mnewer s; pending := pending s |}.
Definition add_log s e := {| dbf := dbf s; wal := wal s; staging := staging s; snaps := snaps s; full_needed := full_needed s; log := log s ++ [e]; mnewer := mnewer s; pending := pending s |}.
Definition set_mnewer s b := {| dbf := dbf s; wal := wal s; staging := staging s; snaps := snaps s; full_needed := full_needed s; log := log s; mnewer := b; pending := pending s |}.
Definition set_pending s p := {| dbf := dbf s; wal := wal s; staging := staging s; snaps := snaps s; full_needed := full_needed s; log := log s; mnewer := mnewer s; pending := p |}.

Definition mark_swapped (p : option pend) : option pend :=
  match p with
  | Some (PendFull i img _) => Some (PendFull i img true)
  | Some (PendInc i _) => Some (PendInc i true)
  | None => None
  end.
Definition was_swapped (p : pend) : bool := match p with PendFull _ _ b => b | PendInc _ b => b end.

(* fsmSnapshot.  [clear] = the staging directory is emptied when a full snapshot starts a new series (repair 1).
   Every attempt that gets as far as the decision ends by recording the file's modification time. *)
Definition snap_begin (clear : bool) (s : st) : st * N :=
  match pending s with
  | Some _ => (s, 8)                                   (* raft takes one snapshot at a time *)
  | None =>
      if full_due s then
        (* full: Checkpoint(nil) TRUNCATE; the database file then holds everything; streamer opened on it *)
        let s1 := set_mnewer (set_dbf s (apply_frames (dbf s) (wal s)) []) false in
        let s2 := if clear then set_staging s1 [] else s1 in
        (set_pending s2 (Some (PendFull (applied s2) (dbf s2) false)), 0)
      else
        match wal s with
        | [] => (set_mnewer s false, 1)                (* ErrNoWALToSnapshot *)
        | _ =>
            (* incremental: compacted WAL written into the staging dir, then checkpoint *)
            let s1 := set_mnewer (set_staging (set_dbf s (apply_frames (dbf s) (wal s)) []) (staging s ++ [wal s])) false in
            (set_pending s1 (Some (PendInc (applied s1) false)), 0)
        end
  end.

(* fsmSnapshot fails because the checkpoint is busy.  Nothing is staged, cleared or persisted: the segment the
   attempt was writing is cancelled, and every segment ALREADY in the staging directory (left by earlier
   attempts that were not persisted) stays, because its frames are in the database file and nowhere else.
   Only the recorded modification time is refreshed. *)
Definition snap_blocked (s : st) : st * N :=
  match pending s with
  | Some _ => (s, 8)
  | None =>
      if full_due s then (set_mnewer s false, 7)
      else match wal s with [] => (set_mnewer s false, 1) | _ => (set_mnewer s false, 7) end
  end.

(* raft's takeSnapshot after fsmSnapshot: Create, Persist, sink.Close, Release (OnRelease).
   [reset] = a snapshot that finds the database swapped since it was created asks for a full snapshot again
   when it is released (repair 2); without it the close of an older full snapshot erases the load's FULL_NEEDED. *)
Definition snap_persist (reset : bool) (s : st) (o : outcome) : st * N :=
  match pending s with
  | None => (s, 8)
  | Some p =>
      let s0 := set_pending s None in
      let '(s1, res) :=
        match p with
        | PendFull i img _ =>
            match o with
            | POk => (set_full (set_snaps s0 (SFull i img [] :: snaps s0)) false, 0)   (* Sink.Close clears FULL_NEEDED *)
            | PNotInvoked => (s0, 0)
            | PFailBefore =>
                (* OnRelease(invoked, failed): FULL_NEEDED iff the staging directory is gone *)
                (match staging s0 with [] => set_full s0 true | _ => s0 end, 0)
            | PFailAfter => (set_full (set_staging s0 []) true, 0)
            end
        | PendInc i _ =>
            match o with
            | POk =>
                if full_needed s0 then (s0, 10)        (* Sink.Write: "full snapshot needed before incremental can be applied" *)
                else (set_full (set_staging (set_snaps s0 (SInc i (staging s0) :: snaps s0)) []) false, 0)
            | PNotInvoked | PFailBefore => (s0, 0)     (* staged WALs kept for the next snapshot *)
            | PFailAfter => (set_full (set_staging s0 []) true, 0)
            end
        end in
      (if reset && was_swapped p then set_full s1 true else s1, res)
  end.

(* replay of one log entry by fsmApply (also at start-up) *)
Definition apply_phys (s : st) (e : entry) : st :=
  match e with
  | EWrite w => set_dbf s (dbf s) (wal s ++ w)
  | ELoad c => set_pending (set_mnewer (set_full (set_dbf s c []) true) true) (mark_swapped (pending s))
  | ELoadBad => set_pending (set_full s true) (mark_swapped (pending s))
  | ENoop => s
  end.

Definition step_gen (clear reset : bool) (s : st) (o : op) : st * N :=
  match o with
  | OWrite ks v => (apply_phys (add_log s (EWrite (map (fun k => (k, v)) ks))) (EWrite (map (fun k => (k, v)) ks)), 0)
  | OSnapBegin => snap_begin clear s
  | OSnapPersist out => snap_persist reset s out
  | OSnapBlocked => snap_blocked s
  | OLoad c => (apply_phys (add_log s (ELoad (cells_of_vec c))) (ELoad (cells_of_vec c)), 0)
  | OLoadBad => (apply_phys (add_log s ELoadBad) ELoadBad, 3)
  | OBoot c =>
      (* Noop through the log, swap, SetDueNext(Full), Snapshot(1) (which waits for a snapshot in flight: not modelled) *)
      match pending s with
      | Some _ => (s, 8)
      | None =>
          let s1 := set_mnewer (set_full (set_dbf (add_log s ENoop) (cells_of_vec c) []) true) true in
          snap_persist reset (fst (snap_begin clear s1)) POk
      end
  | OInstall c segs =>
      (* sink.Close of the incoming snapshot (database + WAL files in one full snapshot directory; clears
         FULL_NEEDED), then fsmRestore of it (which records the new file's modification time) *)
      match pending s with
      | Some _ => (s, 8)
      | None =>
          let d := cells_of_vec c in
          let ws := map (fun '(ks, v) => map (fun k => (k, v)) ks) segs in
          let s1 := set_full (set_snaps s (SFull (applied s) d ws :: snaps s)) false in
          let s2 := set_mnewer (set_dbf s1 (apply_segs d ws) []) false in
          (if clear then set_staging s2 [] else s2, 0)
      end
  | OReap =>
      match snaps s with
      | [] | [_] => (s, 0)
      | _ => match resolve (snaps s) with
             | Some (db, ws) => (set_snaps s [SFull (newest_idx s) (apply_segs db ws) []], 0)
             | None => (s, 2)
             end
      end
  | ORestart =>
      (* a new process: the snapshot in flight is gone, nothing is recorded about the file's time; Open: staging
         dir removed, WAL discarded, database = newest snapshot, log suffix replayed *)
      match restored s with
      | Some r => (fold_left apply_phys (suffix s) (set_pending (set_mnewer (set_staging (set_dbf s r []) []) false) None), 0)
      | None => (s, 2)
      end
  end.

Definition step := step_gen true true.
Definition run_gen (clear reset : bool) (ops : list op) : st := fold_left (fun s o => fst (step_gen clear reset s o)) ops init.
Definition run := run_gen true true.

(* ---- correspondence ---- *)
Definition universe : list N := map N.of_nat (seq 1 24).
Definition dump (d : cells) : list N := map (get d) universe.
Definition dump_opt (d : option cells) : list N := match d with Some c => dump c | None => map (fun _ => 888888) universe end.

Record obs := {
  o_res : N;                        (* 0 done, 1 nothing to snapshot, 3 load rejected, 7 checkpoint blocked, 8 not possible now
                                       (snapshot in flight / none in flight), 10 incremental persist refused (full needed) *)
  o_pend : N;                       (* snapshot in flight: 0 none, 1 full, 2 incremental *)
  o_staged : N;
  o_cat : list (bool * N * N);      (* newest first: is-full, index (number of log entries covered), WAL files *)
  o_chain : list (N * N);           (* resolved WAL files of the newest snapshot, in replay order *)
  o_full : bool;
  o_restored : list N;
  o_rebuilt : list N;
  o_live : list N;
}.

Definition cat_of (x : snap) : bool * N * N :=
  match x with
  | SFull i _ ws => (true, i, N.of_nat (length ws))
  | SInc i ws => (false, i, N.of_nat (length ws))
  end.

(* the WAL files ResolveFiles returns for the newest snapshot, in replay order, each named by the snapshot it
   belongs to (0 = newest, 1 = the one before ...) and its position inside that snapshot *)
Definition labels (depth : N) (n : nat) : list (N * N) := map (fun j => (depth, N.of_nat j)) (seq 0 n).
Fixpoint chain_labels (l : list snap) (depth : N) : list (N * N) :=
  match l with
  | [] => []
  | SFull _ _ ws :: _ => labels depth (length ws)
  | SInc _ ws :: r => chain_labels r (depth + 1) ++ labels depth (length ws)
  end.

Definition observe (s : st) (res : N) : obs :=
  {| o_res := res; o_pend := match pending s with None => 0 | Some (PendFull _ _ _) => 1 | Some (PendInc _ _) => 2 end; o_staged := N.of_nat (length (staging s)); o_cat := map cat_of (snaps s); o_chain := chain_labels (snaps s) 0; o_full := full_needed s;
     o_restored := dump_opt (restored s); o_rebuilt := dump_opt (rebuilt s); o_live := dump (live s) |}.

Fixpoint list_eqb {A} (f : A -> A -> bool) (a b : list A) : bool :=
  match a, b with
  | [], [] => true
  | x :: a', y :: b' => f x y && list_eqb f a' b'
  | _, _ => false
  end.

Definition cat_eqb (a b : bool * N * N) : bool :=
  let '(f1, i1, n1) := a in let '(f2, i2, n2) := b in Bool.eqb f1 f2 && (i1 =? i2) && (n1 =? n2).

Definition obs_eqb (a b : obs) : bool :=
  (o_res a =? o_res b) && (o_pend a =? o_pend b) && (o_staged a =? o_staged b) && list_eqb cat_eqb (o_cat a) (o_cat b)
  && list_eqb (fun x y => (fst x =? fst y) && (snd x =? snd y)) (o_chain a) (o_chain b)
  && Bool.eqb (o_full a) (o_full b) && list_eqb N.eqb (o_restored a) (o_restored b)
  && list_eqb N.eqb (o_rebuilt a) (o_rebuilt b) && list_eqb N.eqb (o_live a) (o_live b).

(* the table of the driver is created by a first log entry that touches no cell *)
Definition init_driver : st := fst (step init (OWrite [] 0)).

Fixpoint trace (s : st) (ops : list op) : list obs :=
  match ops with
  | [] => []
  | o :: r => let '(s', res) := step s o in observe s' res :: trace s' r
  end.

Record case := { c_ops : list op; c_obs : list obs }.
Definition check_case (c : case) : bool := list_eqb obs_eqb (trace init_driver (c_ops c)) (c_obs c).
