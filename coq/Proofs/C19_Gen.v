(* C19 — the source-derived Check / HasPerm / HasAnyPerm / AA (Gen/Auth.v, regenerated from
   auth/credential_store.go on every run) are the hand model Model.C19.check / has_perm /
   has_any_perm / aa.  Adapter: the hand model keeps a user's permissions as the list from the
   credentials file, the Go code as a map[string]bool built from that list by Load; rep builds
   the Go-side store from the model's.  A nil *CredentialsStore is None. *)
From Coq Require Import List String Bool ZArith Lia.
From RQ Require Import Lib.AList.
From RQ Require Import Lib.GoLib.
From RQ Require Import Lib.GenTac.
From RQ Require Import Model.C19.
From RQ Require Import Gen.Auth.
Import ListNotations.
Local Open Scope string_scope.

Definition perm_map (l : list string) : alist bool := map (fun p => (p, true)) l.
Definition rep (c : cstore) : CredentialsStore :=
  mk_CredentialsStore (st_pw c) (map (fun e => (fst e, perm_map (snd e))) (st_perms c)).

Lemma lookup_perm_map : forall l p, isSome (lookup (perm_map l) p) = mem p l.
Proof.
  induction l as [|x l IH]; intros p; cbn; [reflexivity|].
  rewrite (String.eqb_sym p x). destruct (String.eqb x p); cbn; [reflexivity|apply IH].
Qed.

Lemma lookup_rep_perms : forall m u,
  lookup (map (fun e => (fst e, perm_map (snd e))) m) u = option_map perm_map (lookup m u).
Proof.
  induction m as [|[k v] m IH]; intros u; cbn; [reflexivity|].
  destruct (String.eqb k u); [reflexivity|apply IH].
Qed.

Lemma gen_Check_eq : forall c u p, CredentialsStore_Check (rep c) u p = check c u p.
Proof. unfold CredentialsStore_Check, check, rep. gen_cases. Qed.

Lemma gen_HasPerm_eq : forall c u p, CredentialsStore_HasPerm (rep c) u p = has_perm c u p.
Proof.
  unfold CredentialsStore_HasPerm, has_perm, rep, Auth.AllUsers, C19.AllUsers; intros; aux; cbn.
  rewrite !lookup_rep_perms.
  destruct (lookup (st_perms c) u), (lookup (st_perms c) "*"); cbn;
    rewrite ?lookup_perm_map; gen_cases.
Qed.

Lemma gen_HasAnyPerm_eq : forall c u ps, CredentialsStore_HasAnyPerm (rep c) u ps = has_any_perm c u ps.
Proof.
  unfold CredentialsStore_HasAnyPerm, has_any_perm; intros; aux; cbn.
  induction ps as [|x ps IH]; cbn; [reflexivity|].
  rewrite gen_HasPerm_eq, IH. gen_cases.
Qed.

Lemma gen_AA_eq : forall c u p perm, CredentialsStore_AA (Some (rep c)) u p perm = aa c u p perm.
Proof.
  unfold CredentialsStore_AA, aa, Auth.AllUsers, C19.AllUsers, Auth.PermAll, C19.PermAll; intros; aux.
  rewrite !gen_HasAnyPerm_eq, gen_Check_eq. gen_cases.
Qed.

Lemma gen_AA_nil : forall u p perm, CredentialsStore_AA None u p perm = true.
Proof. reflexivity. Qed.

Lemma gen_auth_eq :
  (forall c u p, CredentialsStore_Check (rep c) u p = check c u p) /\
  (forall c u p, CredentialsStore_HasPerm (rep c) u p = has_perm c u p) /\
  (forall c u ps, CredentialsStore_HasAnyPerm (rep c) u ps = has_any_perm c u ps) /\
  (forall c u p perm, CredentialsStore_AA (Some (rep c)) u p perm = aa c u p perm) /\
  (forall u p perm, CredentialsStore_AA None u p perm = true).
Proof. exact (conj gen_Check_eq (conj gen_HasPerm_eq (conj gen_HasAnyPerm_eq (conj gen_AA_eq gen_AA_nil)))). Qed.
