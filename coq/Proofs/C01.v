(* C01 — replicas converge: every apply path, at any time, yields the same database. *)
From Coq Require Import List String Bool NArith Lia.
From RQ Require Import Lib.C33_Log Model.C14 Proofs.C14 Model.C01.
Import ListNotations.
Open Scope string_scope.

(* ------------------------------------------------------------------ statements that do not read the environment *)

Lemma kids_id e (P : node -> Prop) :
  forall l path i,
  Forall (fun x => env_free x = true -> forall p, inst e p x = x) l -> forallb env_free l = true ->
  (fix kids (i : nat) (l : list node) : list node :=
     match l with [] => [] | x :: r => inst e (path ++ [i])%list x :: kids (S i) r end) i l = l.
Proof.
  induction l as [|x l IH]; intros path i HF Hb; [reflexivity|].
  inversion HF as [|? ? Hx HF']; subst. cbn [forallb] in Hb. apply andb_true_iff in Hb as [Hbx Hbl].
  rewrite (Hx Hbx), (IH path (S i) HF' Hbl). reflexivity.
Qed.

(* an environment-free statement is evaluated as it stands *)
Lemma inst_env_free e t : env_free t = true -> forall p, inst e p t = t.
Proof.
  induction t as [k s|n f a ex IHa IHe|tg cs IH|cs IH|tg cs IH] using node_ind2; intros H p; cbn [inst env_free] in *.
  - reflexivity.
  - apply andb_true_iff in H as [H He]. apply andb_true_iff in H as [Hn Ha]. apply negb_true_iff in Hn. rewrite Hn.
    rewrite (kids_id e (fun _ => True) a p 0 IHa Ha), (kids_id e (fun _ => True) ex p (List.length a) IHe He). reflexivity.
  - rewrite (kids_id e (fun _ => True) cs p 0 IH H). reflexivity.
  - rewrite (kids_id e (fun _ => True) cs p 0 IH H). reflexivity.
  - rewrite (kids_id e (fun _ => True) cs p 0 IH H). reflexivity.
Qed.

Section Paths.
  Variables (db image : Type).
  Variable sem : db -> node -> db.
  Variable init : db.
  Variable snapshot : db -> image.
  Variable restore : image -> db.
  Hypothesis restore_snapshot : forall d, restore (snapshot d) = d.

  (* evaluation does not read clock or generator *)
  Theorem env_independent t : env_free t = true -> forall e1 e2 d, exec db sem e1 d t = exec db sem e2 d t.
  Proof. intros H e1 e2 d. unfold exec. rewrite !inst_env_free by exact H. reflexivity. Qed.

  Lemma apply_from_det l : Forall (fun t => env_free t = true) l ->
    forall envs i d, apply_from db sem envs i l d = fold_left sem l d.
  Proof.
    induction 1 as [|t l Ht _ IH]; intros envs i d; cbn [apply_from fold_left]; [reflexivity|].
    rewrite IH. unfold exec. rewrite inst_env_free by exact Ht. reflexivity.
  Qed.

  Lemma Forall_firstn {A} (P : A -> Prop) k l : Forall P l -> Forall P (firstn k l).
  Proof. intros H. revert k. induction H; intros [|k]; cbn [firstn]; constructor; auto. Qed.
  Lemma Forall_skipn {A} (P : A -> Prop) k l : Forall P l -> Forall P (skipn k l).
  Proof. intros H. revert k. induction H as [|x l Hx H IH]; intros [|k]; cbn [skipn]; auto. Qed.

  (* live apply, restart (both ways), manual recovery and snapshot install agree, whenever and under whatever
     clock / generator each of them runs *)
  Theorem paths_agree l : Forall (fun t => env_free t = true) l ->
    forall k envs envs' envs0,
      restart_fast db sem init k envs envs' l = live db sem init envs0 l
      /\ restart_slow db sem init image snapshot restore k envs envs' l = live db sem init envs0 l
      /\ recovered db sem init image snapshot restore k envs envs' l = live db sem init envs0 l
      /\ installed db sem init image snapshot restore k envs envs' l = live db sem init envs0 l.
  Proof.
    intros H k envs envs' envs0.
    unfold restart_fast, restart_slow, recovered, installed, live.
    rewrite !restore_snapshot.
    rewrite (apply_from_det l H), (apply_from_det _ (Forall_firstn _ k l H)), (apply_from_det _ (Forall_skipn _ k l H)).
    rewrite <- fold_left_app, firstn_skipn. auto.
  Qed.
End Paths.

(* ------------------------------------------------------------------ rewritten statements are environment-free *)

Lemma tv_now_names e : tv_now e = names_now e.
Proof. reflexivity. Qed.

Lemma reads_env_spec n a : reads_env n a = nondet_call false n a.
Proof.
  unfold reads_env, nondet_call. rewrite fn_in_time5. cbn [negb andb].
  destruct a as [|x [|y r]]; try reflexivity.
  destruct x as [k s| | | |]; try reflexivity. destruct k; reflexivity.
Qed.

Lemma nondet_call_ctx n a : is_random n = false -> is_randomblob n = false -> nondet_call true n a = nondet_call false n a.
Proof.
  intros H1 H2. unfold nondet_call. fold (is_random n) (is_randomblob n). rewrite H1, H2. reflexivity.
Qed.

Lemma existsb_false_all {A} (f : A -> bool) l : existsb f l = false -> forall x, In x l -> f x = false.
Proof.
  induction l as [|y l IH]; cbn [existsb]; intros H x []; apply orb_false_iff in H as [H1 H2]; subst; auto.
Qed.

Lemma forallb_in {A} (f : A -> bool) l : forallb f l = true -> forall x, In x l -> f x = true.
Proof. intros H. apply forallb_forall. exact H. Qed.

Lemma forallb_from {A} (f : A -> bool) l : (forall x, In x l -> f x = true) -> forallb f l = true.
Proof. intros H. apply forallb_forall. exact H. Qed.

(* outside ORDER BY "no non-deterministic call"; inside ORDER BY no random call at all: nothing reads the environment *)
Lemma nd_free_env_free t : forall o,
  nd_free o t = true -> ord_clean t = true -> (o = true -> has_rand t = false) -> env_free t = true.
Proof.
  induction t as [k s|n f a e IHa IHe|tg cs IH|cs IH|tg cs IH] using node_ind2; intros o Hn Hc Hr;
    cbn [nd_free ord_clean has_rand env_free] in *.
  - reflexivity.
  - apply andb_true_iff in Hn as [Hn Hne]. apply andb_true_iff in Hn as [Hn Hna]. apply negb_true_iff in Hn.
    apply andb_true_iff in Hc as [Hca Hce].
    assert (Hre : reads_env n a = false).
    { rewrite reads_env_spec. destruct o; [|exact Hn].
      specialize (Hr eq_refl). apply orb_false_iff in Hr as [Hr _]. apply orb_false_iff in Hr as [Hr _].
      apply orb_false_iff in Hr as [H1 H2]. rewrite <- (nondet_call_ctx n a H1 H2). exact Hn. }
    rewrite Hre. cbn [negb andb]. apply andb_true_iff. split; apply forallb_from; intros x Hx.
    + rewrite Forall_forall in IHa. apply (IHa x Hx o).
      * apply (forallb_in _ _ Hna x Hx).
      * apply (forallb_in _ _ Hca x Hx).
      * intros ->. specialize (Hr eq_refl). apply orb_false_iff in Hr as [Hr _]. apply orb_false_iff in Hr as [_ Hr].
        apply (existsb_false_all _ _ Hr x Hx).
    + rewrite Forall_forall in IHe. apply (IHe x Hx o).
      * apply (forallb_in _ _ Hne x Hx).
      * apply (forallb_in _ _ Hce x Hx).
      * intros ->. specialize (Hr eq_refl). apply orb_false_iff in Hr as [_ Hr].
        apply (existsb_false_all _ _ Hr x Hx).
  - apply andb_true_iff in Hc as [Hcr Hc]. apply negb_true_iff in Hcr.
    apply forallb_from. intros x Hx. rewrite Forall_forall in IH. apply (IH x Hx true).
    + apply (forallb_in _ _ Hn x Hx).
    + apply (forallb_in _ _ Hc x Hx).
    + intros _. apply (existsb_false_all _ _ Hcr x Hx).
  - apply forallb_from. intros x Hx. rewrite Forall_forall in IH. apply (IH x Hx o).
    + apply (forallb_in _ _ Hn x Hx).
    + apply (forallb_in _ _ Hc x Hx).
    + intros ->. apply (existsb_false_all _ _ (Hr eq_refl) x Hx).
  - apply forallb_from. intros x Hx. rewrite Forall_forall in IH. apply (IH x Hx o).
    + apply (forallb_in _ _ Hn x Hx).
    + apply (forallb_in _ _ Hc x Hx).
    + intros ->. apply (existsb_false_all _ _ (Hr eq_refl) x Hx).
Qed.

(* the rewriter does not create random calls ... *)
Lemma existsb_map {A B} (f : B -> bool) (g : A -> B) l : existsb f (map g l) = existsb (fun x => f (g x)) l.
Proof. induction l as [|x l IH]; [reflexivity|]. cbn [map existsb]. rewrite IH. reflexivity. Qed.

Lemma existsb_ext_false {A} (f : A -> bool) l : Forall (fun x => f x = false) l -> existsb f l = false.
Proof. induction 1 as [|x l Hx _ IH]; [reflexivity|]. cbn [existsb]. rewrite Hx, IH. reflexivity. Qed.

Lemma has_rand_leaf_now a : is_now a || is_subsec a = true -> has_rand a = false.
Proof. destruct a as [k s| | | |]; try discriminate. reflexivity. Qed.

Lemma has_rand_time_value l i : existsb has_rand l = false -> existsb has_rand (time_value l i) = false.
Proof.
  revert i. induction l as [|a r IH]; intros [|i] H; try reflexivity.
  - cbn [time_value]. cbn [existsb] in H. apply orb_false_iff in H as [Ha Hr].
    destruct (is_now a); [cbn [existsb has_rand JD]; exact Hr|].
    destruct (is_subsec a); cbn [existsb]; rewrite ?Ha, ?Hr; reflexivity.
  - cbn [time_value existsb] in *. apply orb_false_iff in H as [Ha Hr]. rewrite Ha, IH by exact Hr. reflexivity.
Qed.

Lemma has_rand_rw c t : forall o, has_rand t = false -> has_rand (rw c o t) = false.
Proof.
  induction t as [k s|n f a e IHa IHe|tg cs IH|cs IH|tg cs IH] using node_ind2; intros o H; cbn [has_rand rw] in *.
  - reflexivity.
  - apply orb_false_iff in H as [H He]. apply orb_false_iff in H as [Hn Ha].
    assert (Ha' : existsb has_rand (map (rw c o) a) = false).
    { rewrite existsb_map. apply existsb_ext_false. rewrite Forall_forall in *. intros x Hx. apply (IHa x Hx o), (existsb_false_all _ _ Ha x Hx). }
    assert (He' : existsb has_rand (map (rw c o) e) = false).
    { rewrite existsb_map. apply existsb_ext_false. rewrite Forall_forall in *. intros x Hx. apply (IHe x Hx o), (existsb_false_all _ _ He x Hx). }
    destruct (pick c o n a) eqn:Hp; cbn [has_rand]; rewrite ?Hn, ?He'; cbn [orb].
    + rewrite has_rand_time_value by exact Ha'. reflexivity.
    + rewrite has_rand_time_value by exact Ha'. reflexivity.
    + apply pick_timediff in Hp as [_ (x & y & r & ->)]. cbn [map timediff_args existsb] in *.
      apply orb_false_iff in Ha' as [Hx Ha']. apply orb_false_iff in Ha' as [Hy Hr].
      unfold now_to_jd. destruct (is_now (rw c o x) || is_subsec (rw c o x)); destruct (is_now (rw c o y) || is_subsec (rw c o y));
        cbn [has_rand JD orb]; rewrite ?Hx, ?Hy, ?Hr; reflexivity.
    + reflexivity.
    + apply pick_randomblob in Hp as (_ & _ & s & -> & _). reflexivity.
    + rewrite Ha'. reflexivity.
  - rewrite existsb_map. apply existsb_ext_false. rewrite Forall_forall in *. intros x Hx. apply (IH x Hx true), (existsb_false_all _ _ H x Hx).
  - rewrite existsb_map. apply existsb_ext_false. rewrite Forall_forall in *. intros x Hx. apply (IH x Hx o), (existsb_false_all _ _ H x Hx).
  - rewrite existsb_map. apply existsb_ext_false. rewrite Forall_forall in *. intros x Hx. apply (IH x Hx o), (existsb_false_all _ _ H x Hx).
Qed.

Lemma ord_clean_leaf_now a : is_now a || is_subsec a = true -> ord_clean a = true.
Proof. destruct a as [k s| | | |]; try discriminate. reflexivity. Qed.

Lemma ord_clean_time_value l i : forallb ord_clean l = true -> forallb ord_clean (time_value l i) = true.
Proof.
  revert i. induction l as [|a r IH]; intros [|i] H; try reflexivity.
  - cbn [time_value]. cbn [forallb] in H. apply andb_true_iff in H as [Ha Hr].
    destruct (is_now a); [cbn [forallb ord_clean JD]; exact Hr|].
    destruct (is_subsec a); cbn [forallb]; rewrite ?Ha, ?Hr; reflexivity.
  - cbn [time_value forallb] in *. apply andb_true_iff in H as [Ha Hr]. rewrite Ha, IH by exact Hr. reflexivity.
Qed.

(* ... and keeps ORDER BY terms free of them *)
Lemma ord_clean_rw c t : forall o, ord_clean t = true -> ord_clean (rw c o t) = true.
Proof.
  induction t as [k s|n f a e IHa IHe|tg cs IH|cs IH|tg cs IH] using node_ind2; intros o H; cbn [ord_clean rw] in *.
  - reflexivity.
  - apply andb_true_iff in H as [Ha He].
    assert (Ha' : forallb ord_clean (map (rw c o) a) = true).
    { rewrite forallb_map. apply forallb_from. rewrite Forall_forall in IHa. intros x Hx. apply (IHa x Hx o), (forallb_in _ _ Ha x Hx). }
    assert (He' : forallb ord_clean (map (rw c o) e) = true).
    { rewrite forallb_map. apply forallb_from. rewrite Forall_forall in IHe. intros x Hx. apply (IHe x Hx o), (forallb_in _ _ He x Hx). }
    destruct (pick c o n a) eqn:Hp; cbn [ord_clean]; rewrite ?He'; rewrite ?andb_true_r.
    + apply ord_clean_time_value. exact Ha'.
    + apply ord_clean_time_value. exact Ha'.
    + apply pick_timediff in Hp as [_ (x & y & r & ->)]. cbn [map timediff_args forallb] in *.
      apply andb_true_iff in Ha' as [Hx Ha']. apply andb_true_iff in Ha' as [Hy Hr].
      unfold now_to_jd. destruct (is_now (rw c o x) || is_subsec (rw c o x)); destruct (is_now (rw c o y) || is_subsec (rw c o y));
        cbn [ord_clean JD andb]; rewrite ?Hx, ?Hy, ?Hr; reflexivity.
    + reflexivity.
    + apply pick_randomblob in Hp as (_ & _ & s & -> & _). reflexivity.
    + exact Ha'.
  - apply andb_true_iff in H as [Hr Hc]. apply negb_true_iff in Hr. apply andb_true_iff. split.
    + apply negb_true_iff. rewrite existsb_map. apply existsb_ext_false. rewrite Forall_forall. intros x Hx.
      apply has_rand_rw, (existsb_false_all _ _ Hr x Hx).
    + rewrite forallb_map. apply forallb_from. rewrite Forall_forall in IH. intros x Hx. apply (IH x Hx true), (forallb_in _ _ Hc x Hx).
  - rewrite forallb_map. apply forallb_from. rewrite Forall_forall in IH. intros x Hx. apply (IH x Hx o), (forallb_in _ _ H x Hx).
  - rewrite forallb_map. apply forallb_from. rewrite Forall_forall in IH. intros x Hx. apply (IH x Hx o), (forallb_in _ _ H x Hx).
Qed.

(* what Process replicates for a statement of the property's quantifier reads neither clock nor generator *)
Theorem replicated_env_free text t :
  scan_sound text t = true -> ord_clean t = true ->
  env_free (replicated (processed full_cfg text (Some t)) t) = true.
Proof.
  intros Hs Hc.
  apply (nd_free_env_free _ false).
  - apply (rewrite_complete text t Hs).
  - unfold replicated, processed. destruct (negb (gate full_cfg text)); cbn [r_out]; [exact Hc|].
    destruct (modif full_cfg false t); [apply ord_clean_rw; exact Hc | exact Hc].
  - discriminate.
Qed.

Theorem env_independent_replicated (db : Type) (sem : db -> node -> db) text t :
  scan_sound text t = true -> ord_clean t = true ->
  forall e1 e2 d,
    exec db sem e1 d (replicated (processed full_cfg text (Some t)) t)
    = exec db sem e2 d (replicated (processed full_cfg text (Some t)) t).
Proof. intros Hs Hc. apply env_independent. apply replicated_env_free; assumption. Qed.

Definition in_quantifier (st : string * node) : Prop := scan_sound (fst st) (snd st) = true /\ ord_clean (snd st) = true.

Lemma committed_env_free p : Forall in_quantifier p -> Forall (fun t => env_free t = true) (committed p).
Proof.
  induction 1 as [|st p [H1 H2] _ IH]; cbn [committed map]; constructor; [|exact IH].
  apply replicated_env_free; assumption.
Qed.

(* ------------------------------------------------------------------ the property *)

Theorem C01_converge_thm (db image : Type) (sem : db -> node -> db) (init : db)
        (snapshot : db -> image) (restore : image -> db) :
  (forall d, restore (snapshot d) = d) ->
  forall p, Forall in_quantifier p ->
  forall k envs envs' envs0,
    let l := committed p in
    restart_fast db sem init k envs envs' l = live db sem init envs0 l
    /\ restart_slow db sem init image snapshot restore k envs envs' l = live db sem init envs0 l
    /\ recovered db sem init image snapshot restore k envs envs' l = live db sem init envs0 l
    /\ installed db sem init image snapshot restore k envs envs' l = live db sem init envs0 l
    /\ live db sem init envs l = live db sem init envs0 l.
Proof.
  intros Hrs p Hp k envs envs' envs0 l.
  pose proof (committed_env_free p Hp) as Hl. fold l in Hl.
  destruct (paths_agree db image sem init snapshot restore Hrs l Hl k envs envs' envs0) as (H1 & H2 & H3 & H4).
  repeat split; try assumption.
  unfold live. rewrite !(apply_from_det db sem l Hl). reflexivity.
Qed.

(* ------------------------------------------------------------------ examples *)
(* a toy SQLite: the database is the list of statements it has executed, as evaluated *)
Example toy_sem (d : list node) (t : node) : list node := (d ++ [t])%list.
Example ex_prog : program :=
  [ ("INSERT INTO t(a) VALUES (julianday())", Nd "Insert" [Leaf KIdent "t"; Call "julianday" "" [] []]);
    ("INSERT INTO t(a) SELECT random() FROM u ORDER BY id", Nd "Insert" [Leaf KIdent "t"; Call "random" "" [] []; Ord "asc" [Leaf KIdent "id"]]) ].
Example ex_in_q : Forall in_quantifier ex_prog.
Proof. repeat constructor. Qed.
Example ex_e1 : env := fun _ n => (n ++ "@noon")%string.
Example ex_e2 : env := fun _ n => (n ++ "@midnight")%string.
(* without the rewrite the two environments give different databases; the committed log does not *)
Example ex_diverge :
  apply_from _ toy_sem (fun _ => ex_e1) 1 (map snd ex_prog) [] <> apply_from _ toy_sem (fun _ => ex_e2) 1 (map snd ex_prog) []
  /\ apply_from _ toy_sem (fun _ => ex_e1) 1 (committed ex_prog) [] = apply_from _ toy_sem (fun _ => ex_e2) 1 (committed ex_prog) [].
Proof. split; [vm_compute; discriminate | vm_compute; reflexivity]. Qed.
