From Coq Require Import List NArith Bool Lia.
From RQ Require Import Model.C04.
Import ListNotations.
Open Scope N_scope.

(* ---- specification, from the property text: the state a node has applied ----
   a write overrides the cells it names; a load, a boot and a snapshot install replace the database;
   snapshots (whatever their persist outcome), reaps, restarts and rejected loads change nothing. *)
Definition cells_eq (a b : cells) : Prop := forall k, get a k = get b k.

Definition spec_step (d : cells) (o : op) (res : N) : cells :=
  match o with
  | OWrite ks v => apply_frames d (map (fun k => (k, v)) ks)
  | OLoad c => cells_of_vec c
  | OBoot c => if res =? 0 then cells_of_vec c else d       (* a boot / install that is refused changes nothing *)
  | OInstall c segs =>
      if res =? 0 then apply_segs (cells_of_vec c) (map (fun '(ks, v) => map (fun k => (k, v)) ks) segs) else d
  | _ => d
  end.

(* the history is run on the model and on the specification side by side; the specification only takes the
   result code of each operation from the model (the driver compares those codes with the real ones) *)
Definition both_step (x : st * cells) (o : op) : st * cells :=
  let '(s, d) := x in let '(s', res) := step s o in (s', spec_step d o res).
Definition both (ops : list op) : st * cells := fold_left both_step ops (init, []).
Definition spec_state (ops : list op) : cells := snd (both ops).

(* the two halves of the chain invariant *)
Definition chain_ok (s : st) : Prop :=
  exists r, restored s = Some r
    /\ (full_due s = false -> cells_eq (apply_segs r (staging s ++ [wal s])) (live s))
    /\ cells_eq (replay (suffix s) r) (live s).

(* ---- cells ---- *)
Lemma cells_eq_refl a : cells_eq a a.
Proof. intros k; reflexivity. Qed.
Lemma cells_eq_sym a b : cells_eq a b -> cells_eq b a.
Proof. intros H k; symmetry; apply H. Qed.
Lemma cells_eq_trans a b c : cells_eq a b -> cells_eq b c -> cells_eq a c.
Proof. intros H1 H2 k; rewrite H1; apply H2. Qed.

Lemma app_congr x a b : cells_eq a b -> cells_eq (x ++ a) (x ++ b).
Proof.
  intros H k. induction x as [|[k' v] x IH]; cbn [app get]; [apply H|].
  destruct (k' =? k); [reflexivity | exact IH].
Qed.

Lemma apply_frames_congr a b w : cells_eq a b -> cells_eq (apply_frames a w) (apply_frames b w).
Proof. unfold apply_frames. apply app_congr. Qed.

Lemma apply_frames_nil d : apply_frames d [] = d.
Proof. reflexivity. Qed.

Lemma apply_frames_app d w1 w2 : apply_frames d (w1 ++ w2) = apply_frames (apply_frames d w1) w2.
Proof. unfold apply_frames. rewrite rev_app_distr, app_assoc. reflexivity. Qed.

Lemma apply_segs_app d a b : apply_segs d (a ++ b) = apply_segs (apply_segs d a) b.
Proof. unfold apply_segs. apply fold_left_app. Qed.

Lemma apply_segs_congr ws : forall a b, cells_eq a b -> cells_eq (apply_segs a ws) (apply_segs b ws).
Proof.
  induction ws as [|w ws IH]; intros a b H; cbn [apply_segs fold_left]; [exact H|].
  apply IH. apply apply_frames_congr. exact H.
Qed.

Lemma replay_entry_congr e a b : cells_eq a b -> cells_eq (replay_entry a e) (replay_entry b e).
Proof. destruct e; cbn [replay_entry]; intros H; auto using apply_frames_congr, cells_eq_refl. Qed.

Lemma replay_congr l : forall a b, cells_eq a b -> cells_eq (replay l a) (replay l b).
Proof.
  induction l as [|e l IH]; intros a b H; cbn [replay fold_left]; [exact H|].
  apply IH. apply replay_entry_congr. exact H.
Qed.

Lemma replay_snoc l e d : replay (l ++ [e]) d = replay_entry (replay l d) e.
Proof. unfold replay. rewrite fold_left_app. reflexivity. Qed.

Lemma spec_step_congr o res a b : cells_eq a b -> cells_eq (spec_step a o res) (spec_step b o res).
Proof. destruct o; cbn [spec_step]; intros H; try destruct (res =? 0); auto using apply_frames_congr, cells_eq_refl. Qed.

(* ---- the inductive invariant ---- *)
(* what is known about a snapshot in flight: replaying the log after its index over its content gives the live
   database; a full one that saw no swap still is the database file and the mtime guard is quiet *)
Definition pend_ok (s : st) (r : cells) : Prop :=
  match pending s with
  | None => True
  | Some (PendFull i img sw) =>
      (N.to_nat i <= length (log s))%nat
      /\ cells_eq (replay (skipn (N.to_nat i) (log s)) img) (live s)
      /\ staging s = []
      /\ (sw = false -> cells_eq img (dbf s) /\ mnewer s = false)
  | Some (PendInc i sw) =>
      (N.to_nat i <= length (log s))%nat
      /\ cells_eq (replay (skipn (N.to_nat i) (log s)) (apply_segs r (staging s))) (live s)
      /\ snaps s <> []
  end.

Definition Inv (s : st) : Prop :=
  exists r, restored s = Some r
    /\ (full_due s = false -> cells_eq (apply_segs r (staging s)) (dbf s))
    /\ cells_eq (replay (suffix s) r) (live s)
    /\ (N.to_nat (newest_idx s) <= length (log s))%nat
    /\ (mnewer s = true -> full_needed s = true)
    /\ pend_ok s r.

Ltac st := cbn [snap_idx dbf wal staging snaps full_needed log mnewer pending set_dbf set_staging set_snaps set_full add_log set_mnewer set_pending apply_phys fst snd].
Ltac split4 := split; [|split; [|split]].
Ltac split5 := split; [|split; [|split; [|split]]].
Ltac split6 := split; [|split; [|split; [|split; [|split]]]].
Ltac split7 := split; [|split; [|split; [|split; [|split; [|split]]]]].

Lemma skipn_len {A} (l : list A) : skipn (length l) l = [].
Proof. apply skipn_all. Qed.

Lemma skipn_snoc {A} n (l : list A) e : (n <= length l)%nat -> skipn n (l ++ [e]) = skipn n l ++ [e].
Proof.
  intros H. rewrite skipn_app. replace (n - length l)%nat with 0%nat by lia. reflexivity.
Qed.

Lemma applied_nat s : N.to_nat (applied s) = length (log s).
Proof. unfold applied. apply Nnat.Nat2N.id. Qed.

(* a snapshot that has just become the newest, with the database file as its content, nothing in flight *)
Lemma inv_new_full s d ws l fn :
  Inv {| dbf := apply_segs d ws; wal := []; staging := []; snaps := SFull (N.of_nat (length l)) d ws :: snaps s;
         full_needed := fn; log := l; mnewer := false; pending := None |}.
Proof.
  exists (apply_segs d ws). split6.
  - reflexivity.
  - intros _. apply cells_eq_refl.
  - unfold suffix, newest_idx; cbn. rewrite Nnat.Nat2N.id, skipn_len. cbn. apply cells_eq_refl.
  - unfold newest_idx; cbn. rewrite Nnat.Nat2N.id. lia.
  - cbn. discriminate.
  - exact I.
Qed.

Lemma restored_nonempty s : snaps s <> [] -> forall r, restored s = Some r ->
  exists db ws, resolve (snaps s) = Some (db, ws) /\ r = apply_segs db ws.
Proof.
  intros E r H. unfold restored in H. destruct (snaps s) as [|x l] eqn:Es; [congruence|].
  destruct (resolve (x :: l)) as [[db ws]|]; [|discriminate].
  exists db, ws. split; [reflexivity|]. congruence.
Qed.

Lemma full_due_false s : full_due s = false -> full_needed s = false /\ snaps s <> [] /\ mnewer s = false.
Proof.
  unfold full_due. intros H. apply orb_false_iff in H as [H H3]. apply orb_false_iff in H as [H1 H2].
  split; [exact H1|]. split; [|exact H3]. destruct (snaps s); [discriminate|discriminate].
Qed.

Lemma full_due_true_flag s : full_needed s = true -> full_due s = true.
Proof. intros H. unfold full_due. rewrite H. reflexivity. Qed.

Lemma full_needed_sticky l : forall s, full_needed s = true -> full_needed (fold_left apply_phys l s) = true.
Proof.
  induction l as [|e l IH]; intros s H; cbn [fold_left]; [exact H|].
  apply IH. destruct e; cbn; auto.
Qed.

(* replay of the log suffix at start-up (nothing is in flight in a new process) *)
Lemma phys_fold l : forall s, pending s = None ->
  let s' := fold_left apply_phys l s in
  snaps s' = snaps s /\ log s' = log s /\ staging s' = staging s
  /\ live s' = replay l (live s)
  /\ (full_needed s' = false -> dbf s' = dbf s)
  /\ pending s' = None
  /\ ((mnewer s = true -> full_needed s = true) -> mnewer s' = true -> full_needed s' = true).
Proof.
  induction l as [|e l IH]; intros s Hp; cbn [fold_left replay].
  - split7; auto.
  - assert (Hp' : pending (apply_phys s e) = None) by (destruct e; cbn; rewrite ?Hp; reflexivity).
    specialize (IH (apply_phys s e) Hp'). cbv zeta in IH.
    destruct IH as (H1 & H2 & H3 & H4 & H5 & H6 & H7).
    rewrite H1, H2, H3, H4.
    destruct e; cbn [apply_phys set_dbf set_full set_mnewer set_pending snaps log staging replay_entry] in *.
    + split7; try reflexivity.
      * unfold live; st. rewrite apply_frames_app. reflexivity.
      * exact H5.
      * exact H6.
      * exact H7.
    + split7; try reflexivity.
      * intros Hf. exfalso.
        (* a load in the suffix leaves FULL_NEEDED set: it is never cleared by later entries *)
        rewrite full_needed_sticky in Hf; [discriminate | reflexivity].
      * exact H6.
      * intros _ _. apply full_needed_sticky. reflexivity.
    + split7; try reflexivity.
      * intros Hf. exfalso.
        rewrite full_needed_sticky in Hf; [discriminate | reflexivity].
      * exact H6.
      * intros _ _. apply full_needed_sticky. reflexivity.
    + split7; try reflexivity.
      * exact H5.
      * exact H6.
      * exact H7.
Qed.

(* flag set: the staging condition and the guard condition are vacuous *)
Lemma inv_flag_true s r :
  restored s = Some r -> full_needed s = true ->
  cells_eq (replay (suffix s) r) (live s) -> (N.to_nat (newest_idx s) <= length (log s))%nat ->
  pend_ok s r -> Inv s.
Proof.
  intros Hr Hf H3 H4 HP. exists r. split6; auto.
  intros Hd. rewrite full_due_true_flag in Hd by exact Hf. discriminate.
Qed.

(* one entry applied through the log *)
Lemma entry_preserves s e :
  Inv s ->
  let s' := apply_phys (add_log s e) e in
  Inv s' /\ cells_eq (live s') (replay_entry (live s) e).
Proof.
  intros (r & Hr & H2 & H3 & H4 & HG & HP). cbv zeta.
  assert (Hsuf : forall x, cells_eq (replay (skipn (N.to_nat (newest_idx s)) (log s ++ [e])) x)
                                    (replay_entry (replay (suffix s) x) e)).
  { intros x. rewrite skipn_snoc by exact H4. rewrite replay_snoc. apply cells_eq_refl. }
  assert (Hpend : forall i x, (N.to_nat i <= length (log s))%nat ->
            cells_eq (replay (skipn (N.to_nat i) (log s)) x) (live s) ->
            cells_eq (replay (skipn (N.to_nat i) (log s ++ [e])) x) (replay_entry (live s) e)).
  { intros i x Hi Hx. rewrite skipn_snoc by exact Hi. rewrite replay_snoc. apply replay_entry_congr. exact Hx. }
  assert (Hlen : forall i, (N.to_nat i <= length (log s))%nat -> (N.to_nat i <= length (log s ++ [e]))%nat).
  { intros i Hi. rewrite app_length. cbn. lia. }
  destruct e as [w|c| |].
  - (* write *)
    assert (Hl : live (apply_phys (add_log s (EWrite w)) (EWrite w)) = apply_frames (live s) w).
    { unfold live; st. rewrite apply_frames_app. reflexivity. }
    assert (Hl2 : forall X, cells_eq X (apply_frames (live s) w) ->
                            cells_eq X (live (apply_phys (add_log s (EWrite w)) (EWrite w)))).
    { intros X HX. rewrite Hl. exact HX. }
    split; [|rewrite Hl; apply cells_eq_refl].
    exists r. split6.
    + exact Hr.
    + exact H2.
    + apply Hl2. unfold suffix, newest_idx in *; st. eapply cells_eq_trans; [apply Hsuf|].
      cbn [replay_entry]. apply apply_frames_congr. exact H3.
    + unfold newest_idx in *; st. apply Hlen. exact H4.
    + exact HG.
    + unfold pend_ok in *; st. destruct (pending s) as [[i img sw|i sw]|]; [| |exact I].
      * destruct HP as (P1 & P2 & P3 & P4). split4; [apply Hlen; exact P1 | | exact P3 | exact P4].
        apply Hl2. apply (Hpend i img P1 P2).
      * destruct HP as (P1 & P2 & P3). split; [apply Hlen; exact P1|]. split; [|exact P3].
        apply Hl2. apply (Hpend i _ P1 P2).
  - (* load *)
    split; [|apply cells_eq_refl].
    apply (inv_flag_true _ r).
    + exact Hr.
    + reflexivity.
    + unfold suffix, newest_idx in *; st. eapply cells_eq_trans; [apply Hsuf|]. apply cells_eq_refl.
    + unfold newest_idx in *; st. apply Hlen. exact H4.
    + unfold pend_ok in *; st. destruct (pending s) as [[i img sw|i sw]|]; cbn [mark_swapped]; [| |exact I].
      * destruct HP as (P1 & P2 & P3 & P4). split4; [apply Hlen; exact P1 | | exact P3 | discriminate].
        rewrite skipn_snoc by exact P1. rewrite replay_snoc. apply cells_eq_refl.
      * destruct HP as (P1 & P2 & P3). split; [apply Hlen; exact P1|]. split; [|exact P3].
        rewrite skipn_snoc by exact P1. rewrite replay_snoc. apply cells_eq_refl.
  - (* rejected load *)
    split; [|apply cells_eq_refl].
    apply (inv_flag_true _ r).
    + exact Hr.
    + reflexivity.
    + unfold suffix, newest_idx in *; st. eapply cells_eq_trans; [apply Hsuf|]. exact H3.
    + unfold newest_idx in *; st. apply Hlen. exact H4.
    + unfold pend_ok in *; st. destruct (pending s) as [[i img sw|i sw]|]; cbn [mark_swapped]; [| |exact I].
      * destruct HP as (P1 & P2 & P3 & P4). split4; [apply Hlen; exact P1 | | exact P3 | discriminate].
        apply (Hpend i img P1 P2).
      * destruct HP as (P1 & P2 & P3). split; [apply Hlen; exact P1|]. split; [|exact P3].
        apply (Hpend i _ P1 P2).
  - (* no-op entry *)
    split; [|apply cells_eq_refl].
    exists r. split6.
    + exact Hr.
    + exact H2.
    + unfold suffix, newest_idx in *; st. eapply cells_eq_trans; [apply Hsuf|]. exact H3.
    + unfold newest_idx in *; st. apply Hlen. exact H4.
    + exact HG.
    + unfold pend_ok in *; st. destruct (pending s) as [[i img sw|i sw]|]; [| |exact I].
      * destruct HP as (P1 & P2 & P3 & P4). split4; [apply Hlen; exact P1 | | exact P3 | exact P4].
        apply (Hpend i img P1 P2).
      * destruct HP as (P1 & P2 & P3). split; [apply Hlen; exact P1|]. split; [|exact P3].
        apply (Hpend i _ P1 P2).
Qed.

(* an entry of arbitrary frames written through the log (a write batch, or the statements of a SQL dump) *)
Lemma write_frames_preserves s w :
  Inv s ->
  let s' := apply_phys (add_log s (EWrite w)) (EWrite w) in
  Inv s' /\ live s' = apply_frames (live s) w.
Proof.
  intros I. split; [apply (entry_preserves s (EWrite w) I)|].
  unfold live; st. rewrite apply_frames_app. reflexivity.
Qed.

Lemma begin_preserves s : Inv s -> Inv (fst (snap_begin true s)) /\ live (fst (snap_begin true s)) = live s.
Proof.
  intros (r & Hr & H2 & H3 & H4 & HG & HP). unfold snap_begin.
  destruct (pending s) as [p|] eqn:Ep.
  { cbn [fst]. split; [|reflexivity]. exists r. split6; auto. }
  destruct (full_due s) eqn:Hd.
  - (* full *)
    cbn [fst]. split; [|reflexivity].
    assert (Hflag : (full_needed s || match snaps s with [] => true | _ => false end)%bool = true).
    { unfold full_due in Hd. destruct (mnewer s) eqn:Em; [rewrite HG by reflexivity; reflexivity|].
      rewrite orb_false_r in Hd. exact Hd. }
    exists r. split6.
    + exact Hr.
    + intros Hf. unfold full_due in Hf. cbn in Hf. rewrite Hflag in Hf. discriminate.
    + exact H3.
    + exact H4.
    + st. discriminate.
    + unfold pend_ok; st. split4.
      * rewrite applied_nat. st. lia.
      * rewrite applied_nat. st. rewrite skipn_len. cbn [replay fold_left]. apply cells_eq_refl.
      * reflexivity.
      * intros _. split; [apply cells_eq_refl | reflexivity].
  - (* incremental *)
    destruct (full_due_false s Hd) as (Hfn & Hne & Hm).
    assert (H2' : cells_eq (apply_segs r (staging s)) (dbf s)) by (apply H2; reflexivity).
    destruct (wal s) as [|f w0] eqn:Ew.
    + cbn [fst]. split; [|unfold live; st; rewrite Ew; reflexivity].
      exists r. split6.
      * exact Hr.
      * intros _. exact H2'.
      * exact H3.
      * exact H4.
      * st. discriminate.
      * unfold pend_ok in *; st. rewrite Ep. exact I.
    + rewrite <- Ew in *. cbn [fst]. split; [|reflexivity].
      assert (Hst : cells_eq (apply_segs r (staging s ++ [wal s])) (apply_frames (dbf s) (wal s))).
      { rewrite apply_segs_app. cbn [apply_segs fold_left]. apply apply_frames_congr. exact H2'. }
      exists r. split6.
      * exact Hr.
      * intros _. exact Hst.
      * exact H3.
      * exact H4.
      * st. discriminate.
      * unfold pend_ok; st. split; [rewrite applied_nat; st; lia|]. split; [|exact Hne].
        rewrite applied_nat. st. rewrite skipn_len. cbn [replay fold_left]. exact Hst.
Qed.

Lemma mnewer_false_preserves s : pending s = None -> Inv s -> Inv (set_mnewer s false).
Proof.
  intros Ep (r & Hr & H2 & H3 & H4 & HG & HP). exists r. split6.
  - exact Hr.
  - intros Hf. apply H2. unfold full_due in *. cbn in Hf.
    destruct (mnewer s) eqn:Em; [|exact Hf].
    rewrite HG in Hf by reflexivity. discriminate.
  - exact H3.
  - exact H4.
  - cbn. discriminate.
  - unfold pend_ok in *; st. rewrite Ep. exact I.
Qed.

Lemma blocked_preserves s : Inv s -> Inv (fst (snap_blocked s)) /\ live (fst (snap_blocked s)) = live s.
Proof.
  intros I. unfold snap_blocked. destruct (pending s) eqn:Ep; [split; [exact I | reflexivity]|].
  destruct (full_due s); [|destruct (wal s)]; cbn [fst]; (split; [apply mnewer_false_preserves; assumption | reflexivity]).
Qed.

Lemma drop_pending s : Inv s -> Inv (set_pending s None).
Proof. intros (r & Hr & H2 & H3 & H4 & HG & HP). exists r. split6; auto. exact I. Qed.

Lemma persist_preserves s o : Inv s -> Inv (fst (snap_persist true s o)) /\ live (fst (snap_persist true s o)) = live s.
Proof.
  intros I0. pose proof I0 as (r & Hr & H2 & H3 & H4 & HG & HP). unfold snap_persist.
  destruct (pending s) as [p|] eqn:Ep; [|split; [exact I0 | reflexivity]].
  pose proof (drop_pending s I0) as I1.
  assert (Hfin : forall s1 (res : N), live s1 = live s ->
            (was_swapped p = false -> Inv s1) ->
            (exists r1, restored s1 = Some r1 /\ cells_eq (replay (suffix s1) r1) (live s1)
                        /\ (N.to_nat (newest_idx s1) <= length (log s1))%nat /\ pending s1 = None) ->
            Inv (fst (if (true && was_swapped p)%bool then set_full s1 true else s1, res))
            /\ live (fst (if (true && was_swapped p)%bool then set_full s1 true else s1, res)) = live s).
  { intros s1 res Hl Hu (r1 & C1 & C2 & C3 & C4). cbn [andb]. destruct (was_swapped p); cbn [fst].
    - split; [|exact Hl]. apply (inv_flag_true _ r1); auto. unfold pend_ok; st. rewrite C4. exact I.
    - split; [apply Hu; reflexivity | exact Hl]. }
  assert (Hcore0 : exists r1, restored (set_pending s None) = Some r1
             /\ cells_eq (replay (suffix (set_pending s None)) r1) (live (set_pending s None))
             /\ (N.to_nat (newest_idx (set_pending s None)) <= length (log (set_pending s None)))%nat
             /\ pending (set_pending s None) = None).
  { exists r. auto. }
  unfold pend_ok in HP. rewrite Ep in HP.
  destruct p as [i img sw|i sw]; cbn [was_swapped] in *.
  - (* full snapshot in flight *)
    destruct HP as (P1 & P2 & P3 & P4).
    destruct o.
    + (* ok: visible, FULL_NEEDED cleared by the sink *)
      cbv beta iota zeta; apply Hfin; [reflexivity | |].
      * intros Hsw. destruct (P4 Hsw) as [Pd Pm].
        exists (apply_segs img []). split6.
        -- reflexivity.
        -- intros _. st. rewrite P3. cbn [apply_segs fold_left]. exact Pd.
        -- unfold suffix, newest_idx; st. exact P2.
        -- unfold newest_idx; st. exact P1.
        -- st. rewrite Pm. discriminate.
        -- exact I.
      * exists (apply_segs img []). split4; [reflexivity | | | reflexivity].
        -- unfold suffix, newest_idx; st. exact P2.
        -- unfold newest_idx; st. exact P1.
    + cbv beta iota zeta; apply Hfin; [reflexivity | intros _; exact I1 | exact Hcore0].
    + (* failed before: the staging directory is gone (it was emptied when the snapshot began) *)
      cbv beta iota zeta. change (staging (set_pending s None)) with (staging s). rewrite P3. apply Hfin; [reflexivity | | ].
      * intros _. apply (inv_flag_true _ r); auto. exact I.
      * exists r. auto.
    + cbv beta iota zeta; apply Hfin; [reflexivity | | ].
      * intros _. apply (inv_flag_true _ r); auto. exact I.
      * exists r. auto.
  - (* incremental snapshot in flight *)
    destruct HP as (P1 & P2 & P3).
    destruct o.
    + st. destruct (full_needed s) eqn:Ef.
      * cbv beta iota zeta; apply Hfin; [reflexivity | intros _; exact I1 | exact Hcore0].
      * (* the staged WALs become the newest snapshot *)
        destruct (restored_nonempty s P3 r Hr) as (db & ws & Hres & ->).
        assert (Hm : mnewer s = false) by (destruct (mnewer s); [discriminate (HG eq_refl) | reflexivity]).
        assert (Hd : full_due s = false).
        { unfold full_due. rewrite Ef, Hm. destruct (snaps s); [congruence | reflexivity]. }
        assert (Hres' : restored (set_full (set_staging (set_snaps (set_pending s None) (SInc i (staging s) :: snaps s)) []) false)
                        = Some (apply_segs db (ws ++ staging s))).
        { unfold restored; st. cbn [resolve]. rewrite Hres. reflexivity. }
        cbv beta iota zeta; apply Hfin; [reflexivity | |].
        -- intros _. exists (apply_segs db (ws ++ staging s)). split6.
           ++ exact Hres'.
           ++ intros _. st. cbn [apply_segs fold_left]. rewrite apply_segs_app. apply H2. exact Hd.
           ++ unfold suffix, newest_idx; st. rewrite apply_segs_app. exact P2.
           ++ unfold newest_idx; st. exact P1.
           ++ st. rewrite Hm. discriminate.
           ++ exact I.
        -- exists (apply_segs db (ws ++ staging s)). split4; [exact Hres' | | | reflexivity].
           ++ unfold suffix, newest_idx; st. rewrite apply_segs_app. exact P2.
           ++ unfold newest_idx; st. exact P1.
    + cbv beta iota zeta; apply Hfin; [reflexivity | intros _; exact I1 | exact Hcore0].
    + cbv beta iota zeta; apply Hfin; [reflexivity | intros _; exact I1 | exact Hcore0].
    + cbv beta iota zeta; apply Hfin; [reflexivity | | ].
      * intros _. apply (inv_flag_true _ r); auto. exact I.
      * exists r. auto.
Qed.

Lemma step_preserves s o :
  Inv s ->
  let s' := fst (step s o) in
  Inv s' /\ cells_eq (live s') (spec_step (live s) o (snd (step s o))).
Proof.
  intros I0. pose proof I0 as (r & Hr & H2 & H3 & H4 & HG & HP).
  destruct o as [ks v| |out| |c| |c|c segs| |]; unfold step, step_gen; cbn [spec_step].
  - (* write *)
    cbn [fst]. apply (entry_preserves s (EWrite (map (fun k => (k, v)) ks)) I0).
  - (* snapshot begins *)
    destruct (begin_preserves s I0) as [Hi Hl]. split; [exact Hi | rewrite Hl; apply cells_eq_refl].
  - (* snapshot persisted / released *)
    destruct (persist_preserves s out I0) as [Hi Hl]. split; [exact Hi | rewrite Hl; apply cells_eq_refl].
  - (* snapshot attempt blocked *)
    destruct (blocked_preserves s I0) as [Hi Hl]. split; [exact Hi | rewrite Hl; apply cells_eq_refl].
  - (* load *)
    cbn [fst]. apply (entry_preserves s (ELoad (cells_of_vec c)) I0).
  - (* rejected load *)
    cbn [fst]. apply (entry_preserves s ELoadBad I0).
  - (* boot *)
    destruct (pending s) eqn:Ep; cbn [fst snd].
    { split; [exact I0 | apply cells_eq_refl]. }
    unfold snap_begin, snap_persist; st. rewrite Ep. cbn. split; [|apply cells_eq_refl].
    exact (inv_new_full s (cells_of_vec c) [] (log s ++ [ENoop]) false).
  - (* install *)
    destruct (pending s) eqn:Ep; cbn [fst snd].
    { split; [exact I0 | apply cells_eq_refl]. }
    split; [|apply cells_eq_refl].
    unfold set_staging, set_mnewer, set_dbf, set_full, set_snaps, applied; st. rewrite Ep.
    exact (inv_new_full s (cells_of_vec c) _ (log s) false).
  - (* reap *)
    destruct (snaps s) as [|x [|y l]] eqn:Es; cbn [fst].
    + split; [exact I0 | apply cells_eq_refl].
    + split; [exact I0 | apply cells_eq_refl].
    + assert (Hne : snaps s <> []) by (rewrite Es; discriminate).
      destruct (restored_nonempty s Hne r Hr) as (db & ws & Hres & ->).
      rewrite Es in Hres. rewrite Hres. cbn [fst]. split; [|apply cells_eq_refl].
      exists (apply_segs db ws). unfold set_snaps; st. split6.
      * reflexivity.
      * intros Hf. apply H2. unfold full_due in *. cbn in Hf. rewrite Es. exact Hf.
      * exact H3.
      * exact H4.
      * exact HG.
      * unfold pend_ok in *; st. destruct (pending s) as [[i img sw|i sw]|]; [exact HP | | exact I].
        destruct HP as (P1 & P2 & P3). split; [exact P1|]. split; [exact P2 | discriminate].
  - (* restart *)
    rewrite Hr. cbn [fst snd].
    set (s0 := set_pending (set_mnewer (set_staging (set_dbf s r []) []) false) None).
    pose proof (phys_fold (suffix s) s0 eq_refl) as P. cbv zeta in P.
    destruct P as (P1 & P2 & P3 & P4 & P5 & P6 & P7).
    set (s' := fold_left apply_phys (suffix s) s0) in *.
    assert (Hsuf : suffix s' = suffix s).
    { unfold suffix, newest_idx. rewrite P1, P2. reflexivity. }
    assert (Hlive : live s' = replay (suffix s) r).
    { rewrite P4. unfold live, s0; cbn. reflexivity. }
    split.
    + exists r. split6.
      * unfold restored. rewrite P1. exact Hr.
      * intros Hf. rewrite P3. cbn [staging s0 set_pending set_mnewer set_staging apply_segs fold_left].
        rewrite P5; [apply cells_eq_refl|].
        unfold full_due in Hf. apply orb_false_iff in Hf as [Hf _]. apply orb_false_iff in Hf. tauto.
      * rewrite Hsuf, Hlive. apply cells_eq_refl.
      * unfold newest_idx. rewrite P1, P2. exact H4.
      * apply P7. cbn. discriminate.
      * unfold pend_ok. rewrite P6. exact I.
    + rewrite Hlive. exact H3.
Qed.

(* a snapshot attempt whose checkpoint is busy changes nothing but the recorded modification time; in
   particular the staging directory keeps every segment it had (a failed attempt leaves nothing NEW behind and
   removes nothing OLD) *)
Theorem blocked_keeps_staging s :
  let s' := fst (step s OSnapBlocked) in
  staging s' = staging s /\ dbf s' = dbf s /\ wal s' = wal s /\ snaps s' = snaps s
  /\ full_needed s' = full_needed s /\ log s' = log s /\ pending s' = pending s.
Proof.
  unfold step, step_gen, snap_blocked. destruct (pending s) eqn:Ep.
  - cbn. rewrite Ep. repeat split.
  - destruct (full_due s); [|destruct (wal s) eqn:Ew]; cbn; rewrite ?Ew, ?Ep; repeat split.
Qed.

Lemma inv_init : Inv init.
Proof.
  exists []. split6; [reflexivity | intros _; apply cells_eq_refl | apply cells_eq_refl | cbn; lia | cbn; discriminate | exact I].
Qed.

Lemma both_fst ops : forall s d, fst (fold_left both_step ops (s, d)) = fold_left (fun s o => fst (step s o)) ops s.
Proof.
  induction ops as [|o ops IH]; intros s d; cbn [fold_left]; [reflexivity|].
  replace (both_step (s, d) o) with (fst (step s o), spec_step d o (snd (step s o))).
  - apply IH.
  - unfold both_step. destruct (step s o); reflexivity.
Qed.

Lemma run_inv ops : forall s d, Inv s -> cells_eq (live s) d ->
  Inv (fst (fold_left both_step ops (s, d)))
  /\ cells_eq (live (fst (fold_left both_step ops (s, d)))) (snd (fold_left both_step ops (s, d))).
Proof.
  induction ops as [|o ops IH]; intros s d Hi Hl; cbn [fold_left]; [cbn; tauto|].
  destruct (step_preserves s o Hi) as [Hi' Hl'].
  replace (both_step (s, d) o) with (fst (step s o), spec_step d o (snd (step s o)))
    by (unfold both_step; destruct (step s o); reflexivity).
  apply IH; [exact Hi'|].
  eapply cells_eq_trans; [exact Hl'|]. apply spec_step_congr. exact Hl.
Qed.

Lemma run_both ops : run ops = fst (both ops).
Proof. unfold run, run_gen, both. rewrite both_fst. reflexivity. Qed.

Lemma inv_chain_ok s : Inv s -> chain_ok s.
Proof.
  intros (r & Hr & H2 & H3 & _). exists r. split; [exact Hr|]. split; [|exact H3].
  intros Hf. rewrite apply_segs_app. cbn [apply_segs fold_left].
  apply apply_frames_congr. apply H2. exact Hf.
Qed.

Theorem chain_invariant ops : chain_ok (run ops).
Proof.
  apply inv_chain_ok. rewrite run_both. apply (run_inv ops init [] inv_init (cells_eq_refl _)).
Qed.

Theorem rebuild ops :
  exists d, rebuilt (run ops) = Some d
    /\ cells_eq d (spec_state ops)
    /\ cells_eq (live (run ops)) (spec_state ops).
Proof.
  destruct (run_inv ops init [] inv_init (cells_eq_refl _)) as [(r & Hr & _ & H3 & _) Hl].
  change (fold_left both_step ops (init, [])) with (both ops) in *.
  rewrite run_both. unfold spec_state.
  exists (replay (suffix (fst (both ops))) r). unfold rebuilt. rewrite Hr.
  split; [reflexivity|]. split.
  - eapply cells_eq_trans; [exact H3 | exact Hl].
  - exact Hl.
Qed.

(* what check_case compares: the dump vectors of the rebuilt and of the live database coincide *)
Lemma dump_congr a b : cells_eq a b -> dump a = dump b.
Proof. intros H. unfold dump. apply map_ext. intros k. apply H. Qed.

Theorem rebuild_dump ops : o_rebuilt (observe (run ops) 0) = o_live (observe (run ops) 0).
Proof.
  destruct (rebuild ops) as (d & Hd & H1 & H2). cbn [observe o_rebuilt o_live]. rewrite Hd. cbn [dump_opt].
  apply dump_congr. eapply cells_eq_trans; [exact H1 | apply cells_eq_sym; exact H2].
Qed.

(* the observations of check_case's trace are those of the states reached by run *)
Lemma trace_run ops : forall s,
  map o_live (trace s ops) =
  map (fun k => dump (live (fold_left (fun s o => fst (step s o)) (firstn (S k) ops) s))) (seq 0 (length ops)).
Proof.
  induction ops as [|o ops IH]; intros s; [reflexivity|].
  cbn [trace length seq map]. destruct (step s o) as [s' res] eqn:E.
  cbn [map]. f_equal.
  - cbn [firstn fold_left observe o_live]. rewrite E. reflexivity.
  - rewrite IH. rewrite <- seq_shift, map_map. apply map_ext. intros k.
    cbn [firstn fold_left]. rewrite E. reflexivity.
Qed.

(* ---- the unrepaired code violates the property ---- *)
Definition all24 (v : N) : list N := map (fun _ => v) universe.
Definition snap (o : outcome) : list op := [OSnapBegin; OSnapPersist o].

(* repair 1 missing (staging directory never emptied): a staged WAL survives a load and a full snapshot *)
Definition witness : list op :=
  [OWrite [1; 2] 1] ++ snap POk ++ [OWrite [1] 2] ++ snap PNotInvoked ++ [OLoad (all24 3)] ++ snap POk ++ [OWrite [2] 4] ++ snap POk.

Theorem unfixed_refuted :
  exists ops d, rebuilt (run_gen false true ops) = Some d /\ get d 1 <> get (spec_state ops) 1.
Proof.
  exists witness. eexists. split; [vm_compute; reflexivity|]. vm_compute. discriminate.
Qed.

(* repair 2 missing (FULL_NEEDED not asked for again): a load is applied while a full snapshot of the old
   database is in flight; the close of that snapshot erases the load's FULL_NEEDED; one skipped attempt later
   the mtime guard is quiet too and an incremental snapshot is chained onto the full snapshot of the old database *)
Definition witness_inflight : list op :=
  [OWrite [1; 2] 1; OSnapBegin; OLoad (all24 3); OSnapPersist POk; OWrite [2] 4] ++ snap PNotInvoked ++ [OWrite [3] 5] ++ snap POk.

Theorem inflight_unfixed_refuted :
  exists ops d, rebuilt (run_gen true false ops) = Some d /\ get d 1 <> get (spec_state ops) 1.
Proof.
  exists witness_inflight. eexists. split; [vm_compute; reflexivity|]. vm_compute. discriminate.
Qed.

(* non-vacuity: the same histories on the repaired model *)
Example ex_fixed :
  dump_opt (rebuilt (run witness)) = dump (spec_state witness)
  /\ map (fun x => fst x) (map cat_of (snaps (run witness))) = [(false, 4); (true, 3); (true, 1)]
  /\ get (spec_state witness) 1 = 3 /\ get (spec_state witness) 2 = 4
  /\ dump_opt (rebuilt (run witness_inflight)) = dump (spec_state witness_inflight)
  /\ map (fun x => fst x) (map cat_of (snaps (run witness_inflight))) = [(true, 4); (true, 1)]
  /\ get (spec_state witness_inflight) 1 = 3.
Proof. vm_compute. auto 10. Qed.
