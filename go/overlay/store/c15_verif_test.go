package store

// C15 driver.  For every generated SQL text:
//   (a) the real db.IsBreakingPragma is recorded (compared with Model.C15.guard by bin/check);
//   (b) the text is executed by REAL SQLite — through db.DB's Execute (RW connection), Query
//       (read-only pool) and Request entry points — on a scratch WAL-mode database with pending
//       WAL frames, and journal_mode / wal_autocheckpoint / synchronous / query_only of both
//       pools plus "main file changed or WAL reset" are read back.  Oracle (independent of the
//       Coq models): a text that changed anything must have been flagged by the real guard.
//       The observations are also what Model.C15_Sqlite.sqlite_effects must predict;
//   (c) for a sample (always when the text starts with an EXPLAIN statement), the request
//       [harmless; text; harmless] is built the way http.Service builds it — the real
//       command/sql.Process is run over the proto.Statements (rewriting on for /db/execute and
//       /db/request, off for a level=none /db/query), so Sql, SqlExplain and ForceQuery are what
//       production sends — and handed to a live single-node Store's Execute, Query and Request:
//       refused iff the guard flags a statement, and the settings of both connection pools of the
//       node's database must be unchanged afterwards.
// Everywhere the text that is judged is the text AFTER command/sql.Process (what reaches the Store).

import (
	"bytes"
	"context"
	"crypto/sha1"
	"encoding/json"
	"fmt"
	"math/rand"
	"os"
	"path/filepath"
	"sort"
	"strings"
	"testing"
	"time"

	"github.com/rqlite/rqlite/v10/command/proto"
	csql "github.com/rqlite/rqlite/v10/command/sql"
	sql "github.com/rqlite/rqlite/v10/db"
)

type c15Input struct {
	Text  []byte   `json:"text"`
	Tags  []string `json:"tags,omitempty"`
	Class string   `json:"class,omitempty"` // which variation hides the PRAGMA (for the finding signature)
	NT    bool     `json:"nt,omitempty"`    // dangerous PRAGMA is not the first token of the text
	Store bool     `json:"store,omitempty"` // also through a live Store
}

// c15Process builds the statements as http.Service does: one proto.Statement per submitted text, then the
// real command/sql.Process (unless the client asked for noparse, which is not the default).
func c15Process(texts []string, rewrite bool) []*proto.Statement {
	stmts := make([]*proto.Statement, len(texts))
	for i, t := range texts {
		stmts[i] = &proto.Statement{Sql: t}
	}
	csql.Process(stmts, rewrite, rewrite)
	return stmts
}

func c15StmtsCoq(stmts []*proto.Statement) string {
	it := make([]string, len(stmts))
	for i, st := range stmts {
		it[i] = fmt.Sprintf("{| st_sql := %s; st_explain := %s; st_force_query := %s |}", coqBytes([]byte(st.Sql)), coqBool(st.SqlExplain), coqBool(st.ForceQuery))
	}
	return coqList(it)
}

// ---------------------------------------------------------------- scratch database (real SQLite)

type c15Scratch struct {
	dir  string
	n    int
	d    *sql.DB
	last *c15State // state after the previous text, if the database is being reused
}

func (sc *c15Scratch) fresh() {
	if sc.d != nil {
		sc.d.Close()
	}
	sc.n++
	p := filepath.Join(sc.dir, fmt.Sprintf("s%d.db", sc.n))
	d, err := sql.Open(p, false, true)
	if err != nil {
		panic(err)
	}
	sc.d = d
	sc.last = nil
	if _, err := d.ExecuteStringStmt("CREATE TABLE foo(id INTEGER PRIMARY KEY, v TEXT)"); err != nil {
		panic(err)
	}
	for i := 0; i < 3; i++ {
		d.ExecuteStringStmt("INSERT INTO foo(v) VALUES('seed')")
	}
}

type c15State struct {
	RW   [4]string // journal_mode, wal_autocheckpoint, synchronous, query_only on the RW connection
	RO   [2]string // synchronous, query_only on the read-only pool
	Main string    // hash of the main database file
	WAL  int64
}

var c15Pragmas = []string{"PRAGMA journal_mode", "PRAGMA wal_autocheckpoint", "PRAGMA synchronous", "PRAGMA query_only"}

func c15First(rows *proto.QueryRows) string {
	if rows == nil {
		return "nil"
	}
	if rows.Error != "" {
		return "ERR:" + rows.Error
	}
	if len(rows.Values) == 0 || len(rows.Values[0].Parameters) == 0 {
		return "empty"
	}
	switch v := rows.Values[0].Parameters[0].GetValue().(type) {
	case *proto.Parameter_I:
		return fmt.Sprint(v.I)
	case *proto.Parameter_S:
		return v.S
	case *proto.Parameter_D:
		return fmt.Sprint(v.D)
	case *proto.Parameter_B:
		return fmt.Sprint(v.B)
	default:
		return fmt.Sprint(v)
	}
}

type c15Requester interface {
	Request(req *proto.Request, xTime bool) ([]*proto.ExecuteQueryResponse, error)
}

func c15ReadRW(d c15Requester) (out [4]string) {
	stmts := make([]*proto.Statement, len(c15Pragmas))
	for i, p := range c15Pragmas {
		// ForceQuery: "PRAGMA journal_mode" is not a read-only statement for SQLite, and its row is wanted
		stmts[i] = &proto.Statement{Sql: p, ForceQuery: true}
	}
	resp, err := d.Request(&proto.Request{Statements: stmts}, false)
	for i := range out {
		switch {
		case err != nil:
			out[i] = "ERR:" + err.Error()
		case i >= len(resp):
			out[i] = "missing"
		case resp[i].GetQ() != nil:
			out[i] = c15First(resp[i].GetQ())
		default:
			out[i] = "ERR:" + resp[i].GetError()
		}
	}
	return
}

func (sc *c15Scratch) state() (st c15State) {
	st.RW = c15ReadRW(sc.d)
	for i, p := range []string{"PRAGMA synchronous", "PRAGMA query_only"} {
		r, err := sc.d.QueryStringStmt(p)
		if err != nil || len(r) == 0 {
			st.RO[i] = fmt.Sprint("ERR:", err)
		} else {
			st.RO[i] = c15First(r[0])
		}
	}
	b, _ := os.ReadFile(sc.d.Path())
	st.Main = fmt.Sprintf("%x", sha1.Sum(b))
	if fi, err := os.Stat(sc.d.WALPath()); err == nil {
		st.WAL = fi.Size()
	} else {
		st.WAL = -1
	}
	return
}

type c15Obs struct{ J, A, S, Q, F bool }

func (o c15Obs) any() bool { return o.J || o.A || o.S || o.Q || o.F }
func (o c15Obs) kinds() string {
	var k []string
	for _, x := range []struct {
		b bool
		n string
	}{{o.J, "journal_mode"}, {o.A, "wal_autocheckpoint"}, {o.S, "synchronous"}, {o.Q, "query_only"}, {o.F, "checkpoint"}} {
		if x.b {
			k = append(k, x.n)
		}
	}
	return strings.Join(k, "+")
}
func (o c15Obs) coq() string {
	return fmt.Sprintf("{| o_journal := %s; o_autockpt := %s; o_sync := %s; o_qonly := %s; o_file := %s |}",
		coqBool(o.J), coqBool(o.A), coqBool(o.S), coqBool(o.Q), coqBool(o.F))
}

func c15Diff(a, b c15State) c15Obs {
	return c15Obs{
		J: a.RW[0] != b.RW[0],
		A: a.RW[1] != b.RW[1],
		S: a.RW[2] != b.RW[2] || a.RO[0] != b.RO[0],
		Q: a.RW[3] != b.RW[3] || a.RO[1] != b.RO[1],
		F: a.Main != b.Main || b.WAL < a.WAL,
	}
}

var c15Modes = []string{"execute", "query", "request"}

// run the (processed) statement by real SQLite through one db.DB entry point and report what changed
func (sc *c15Scratch) observe(mode string, st *proto.Statement) c15Obs {
	if sc.d == nil {
		sc.fresh()
	}
	// pending WAL frames, so that a checkpoint is visible in the main file
	if _, err := sc.d.ExecuteStringStmt("INSERT INTO foo(v) VALUES('pending')"); err != nil {
		sc.fresh()
		sc.d.ExecuteStringStmt("INSERT INTO foo(v) VALUES('pending')")
	}
	var before c15State
	if sc.last != nil {
		// only the WAL grew since the last look (the INSERT above)
		before = *sc.last
		if fi, err := os.Stat(sc.d.WALPath()); err == nil {
			before.WAL = fi.Size()
		}
	} else {
		before = sc.state()
	}
	req := &proto.Request{Statements: []*proto.Statement{{Sql: st.Sql, ForceQuery: st.ForceQuery, SqlExplain: st.SqlExplain}}}
	switch mode {
	case "execute":
		sc.d.Execute(req, false)
	case "query":
		sc.d.Query(req, false)
	case "request":
		sc.d.Request(req, false)
	}
	after := sc.state()
	o := c15Diff(before, after)
	bad := o.any()
	for _, v := range after.RW {
		if strings.HasPrefix(v, "ERR:") {
			bad = true
		}
	}
	if bad {
		sc.fresh() // never reuse a database whose settings moved
	} else {
		sc.last = &after
	}
	return o
}

// ---------------------------------------------------------------- live Store

type c15Live struct {
	t        *testing.T
	s        *Store
	cl       func()
	restarts int // restarts forced by a node whose settings were changed
}

func (l *c15Live) start() {
	if l.cl != nil {
		l.cl()
	}
	s, ln := mustNewStore(l.t)
	if err := s.Open(); err != nil {
		panic(err)
	}
	if err := s.Bootstrap(NewServer(s.ID(), s.Addr(), true)); err != nil {
		panic(err)
	}
	if _, err := s.WaitForLeader(10 * time.Second); err != nil {
		panic(err)
	}
	l.s = s
	l.cl = func() { s.Close(true); ln.Close() }
	er := executeRequestFromStrings([]string{"CREATE TABLE foo(id INTEGER PRIMARY KEY, v TEXT)", "INSERT INTO foo(v) VALUES('seed')"}, false, false)
	if _, _, err := s.Execute(context.Background(), er); err != nil {
		panic(err)
	}
}

type c15LiveState struct {
	RW [4]string
	RO [2]string // synchronous, query_only on the node's read-only pool
	Sz int64
}

func (l *c15Live) state() (st c15LiveState) {
	st.RW = c15ReadRW(l.s.db)
	for i, p := range []string{"PRAGMA synchronous", "PRAGMA query_only"} {
		r, err := l.s.db.QueryStringStmt(p)
		if err != nil || len(r) == 0 {
			st.RO[i] = fmt.Sprint("ERR:", err)
		} else {
			st.RO[i] = c15First(r[0])
		}
	}
	st.Sz, _ = l.s.db.FileSize()
	return
}

// Sends [SELECT 1; text; SELECT 1], processed as by http.Service, through Store.Execute, Query and Request.
// Returns the three requests as sent, refused[3], whether a statement the real guard flags was accepted, and,
// if the settings of the node's database moved, a description.
func (l *c15Live) run(text string) (reqs [][]*proto.Statement, refused []bool, moved string) {
	if l.s == nil {
		l.start()
	}
	raw := []string{"SELECT 1", text, "SELECT 1"}
	isRefusal := func(err error) bool { return err != nil && err.Error() == "disallowed pragma" }
	for _, ent := range []string{"Execute", "Query", "Request"} {
		// /db/query at level none (served locally from the read-only pool) does not rewrite
		stmts := c15Process(raw, ent != "Query")
		reqs = append(reqs, stmts)
	}
	for i, ent := range []string{"Execute", "Query", "Request"} {
		// the Store gets its own copy: what was sent is what is reported
		stmts := make([]*proto.Statement, len(reqs[i]))
		for j, st := range reqs[i] {
			stmts[j] = &proto.Statement{Sql: st.Sql, ForceQuery: st.ForceQuery, SqlExplain: st.SqlExplain}
		}
		before := l.state()
		var err error
		ctx, cancel := context.WithTimeout(context.Background(), 10*time.Second)
		switch ent {
		case "Execute":
			_, _, err = l.s.Execute(ctx, &proto.ExecuteRequest{Request: &proto.Request{Statements: stmts}})
		case "Query":
			_, _, _, err = l.s.Query(ctx, &proto.QueryRequest{Request: &proto.Request{Statements: stmts}, Level: proto.ConsistencyLevel_NONE})
		case "Request":
			_, _, _, err = l.s.Request(ctx, &proto.ExecuteQueryRequest{Request: &proto.Request{Statements: stmts}, Level: proto.ConsistencyLevel_WEAK})
		}
		cancel()
		refused = append(refused, isRefusal(err))
		after := l.state()
		if before != after {
			names := []string{"journal_mode", "wal_autocheckpoint", "synchronous", "query_only"}
			what := "checkpoint"
			for k := range before.RW {
				if before.RW[k] != after.RW[k] {
					what = names[k]
					break
				}
			}
			if before.RW == after.RW && before.RO != after.RO {
				what = "read-only-pool"
			}
			moved = ent + ":" + what + "|" + fmt.Sprintf("Store.%s: node's database RW %v -> %v, read-only pool %v -> %v, main file size %d -> %d",
				ent, before.RW, after.RW, before.RO, after.RO, before.Sz, after.Sz)
			l.restarts++
			l.start()
			for len(refused) < 3 {
				refused = append(refused, false)
			}
			return
		}
	}
	return
}

// ---------------------------------------------------------------- generator

var c15Critical = []string{"journal_mode", "wal_autocheckpoint", "synchronous", "query_only", "wal_checkpoint"}
var c15OtherNames = []string{"foreign_keys", "cache_size", "table_info", "optimize", "journal_modes", "xsynchronous", "query", "wal", "journal_size_limit", "main", "busy_timeout"}
var c15Values = map[string][]string{
	"journal_mode":       {"DELETE", "delete", "TRUNCATE", "PERSIST", "MEMORY", "OFF", "WAL", "'delete'", "\"Delete\"", "[off]"},
	"wal_autocheckpoint": {"1", "7", "1000", "+5", "-1", "0x10", ".5", "1e2", "'3'", "on"},
	"synchronous":        {"1", "2", "3", "NORMAL", "FULL", "EXTRA", "on", "true", "'full'", "+2", "0"},
	"query_only":         {"1", "ON", "true", "yes", "'on'", "+1", "0", "off"},
	"wal_checkpoint":     {"PASSIVE", "FULL", "RESTART", "TRUNCATE", "1", "'full'"},
}
var c15Seps = []string{" ", "  ", "\t", "\n", "\r\n", "\f", " \v", "/**/", "/* c */", "/* ; ' */", "-- c\n", "--\n", "\xef\xbb\xbf", " /*x*/ -- y\n "}
var c15Harmless = []string{
	"SELECT 1", "SELECT * FROM foo", "INSERT INTO foo(v) VALUES('a;b')", "SELECT 'PRAGMA journal_mode=DELETE'",
	"SELECT \"a\"\"b\" FROM foo", "SELECT $a(;')", "SELECT @v(;\"), 1", "SELECT :a::b(x;y)", "SELECT x''", "SELECT X'ab''cd'", "SELECT 1e5, 1.5e-3, .5, 0x1F",
	"SELECT [a;b] FROM foo", "SELECT `v` FROM foo", "SELECT 1 /* ; PRAGMA synchronous=2; */", "SELECT 1 -- ; PRAGMA synchronous=2",
	"SELECT '--', '/*'", "UPDATE foo SET v='it''s' WHERE id=1", "PRAGMA foreign_keys", "PRAGMA table_info(foo)", "SELECT 5 - -1, 4/2, 3->>'$'",
	"SELECT 'PRAGMA' || ';' || 'query_only=1'", "SELECT 1 WHERE 2 >= 1 AND 3 <> 4 AND 1 != 2 AND 1 == 1",
}
var c15ExplainFirst = []string{
	"EXPLAIN SELECT 1", "explain select * from foo", "EXPLAIN QUERY PLAN SELECT * FROM foo", "Explain Query Plan SELECT v FROM foo WHERE id=1",
	"EXPLAIN INSERT INTO foo(v) VALUES('x')", "EXPLAIN QUERY PLAN DELETE FROM foo", "/* c */ EXPLAIN SELECT 1", "EXPLAIN UPDATE foo SET v='y' RETURNING id",
	"EXPLAIN SELECT random()", "EXPLAIN PRAGMA foreign_keys",
}
var c15UniSpace = []string{"\u00a0", "\u0085", "\u1680", "\u2000", "\u2003", "\u200a", "\u2028", "\u2029", "\u202f", "\u205f", "\u3000", "\v", "\u00a0 \t", "\u200b", "\u180e", "\ufeff", "\xc2", "\xe2\x80"}

func c15Pick(r *rand.Rand, l []string) string { return l[r.Intn(len(l))] }

func c15MixCase(r *rand.Rand, s string) string {
	switch r.Intn(4) {
	case 0:
		return strings.ToUpper(s)
	case 1:
		return strings.ToLower(s)
	}
	b := []byte(s)
	for i := range b {
		if r.Intn(2) == 0 {
			b[i] = byte(strings.ToUpper(string(b[i]))[0])
		} else {
			b[i] = byte(strings.ToLower(string(b[i]))[0])
		}
	}
	return string(b)
}

func c15Quote(r *rand.Rand, s string) (string, string) {
	switch r.Intn(8) {
	case 0:
		return `"` + s + `"`, "dq"
	case 1:
		return `'` + s + `'`, "sq"
	case 2:
		return "[" + s + "]", "bracket"
	case 3:
		return "`" + s + "`", "backtick"
	}
	return s, "bare"
}

// sep returns an optional separator; must = at least one byte that separates two words
func c15Sep(r *rand.Rand, must bool) (string, bool) {
	if !must && r.Intn(2) == 0 {
		return "", false
	}
	s := c15Pick(r, c15Seps)
	if must && s == "\xef\xbb\xbf" && r.Intn(2) == 0 {
		s = " "
	}
	return s, strings.ContainsAny(s, "/-")
}

// one PRAGMA statement; returns text, tags, class, dangerous (sets a critical pragma or runs a checkpoint)
func c15PragmaStmt(r *rand.Rand) (string, []string, string, bool) {
	var sb strings.Builder
	var tags []string
	class := ""
	setClass := func(c string) {
		if class == "" {
			class = c
		}
	}
	switch r.Intn(6) {
	case 0:
		s, _ := c15Sep(r, true)
		sb.WriteString(c15MixCase(r, "explain") + s)
		tags = append(tags, "explain")
		setClass("explain-prefix")
	case 1:
		s1, _ := c15Sep(r, true)
		s2, _ := c15Sep(r, true)
		s3, _ := c15Sep(r, true)
		sb.WriteString(c15MixCase(r, "explain") + s1 + c15MixCase(r, "query") + s2 + c15MixCase(r, "plan") + s3)
		tags = append(tags, "explain-query-plan")
		setClass("explain-prefix")
	}
	sb.WriteString(c15MixCase(r, "pragma"))
	critical := r.Intn(10) < 7
	var name string
	if critical {
		name = c15Pick(r, c15Critical)
	} else {
		name = c15Pick(r, c15OtherNames)
	}
	tags = append(tags, "pragma="+name)
	sep, cm := c15Sep(r, true)
	if cm {
		tags = append(tags, "inner-comment")
		setClass("inner-comment")
	}
	sb.WriteString(sep)
	if r.Intn(3) == 0 {
		schema := c15Pick(r, []string{"main", "temp", "MAIN", "nosuch", "wal_checkpoint"})
		q, how := c15Quote(r, schema)
		s1, _ := c15Sep(r, false)
		s2, _ := c15Sep(r, false)
		sb.WriteString(q + s1 + "." + s2)
		tags = append(tags, "schema="+schema+":"+how)
		setClass("schema-prefix")
	}
	q, how := c15Quote(r, c15MixCase(r, name))
	sb.WriteString(q)
	if how != "bare" {
		tags = append(tags, "quoted:"+how)
		setClass("quoted-name")
	}
	vals := c15Values[name]
	if vals == nil {
		vals = []string{"1", "foo", "'x'", "ON"}
	}
	dangerous := false
	s1, _ := c15Sep(r, false)
	s2, _ := c15Sep(r, false)
	switch r.Intn(7) {
	case 0, 1:
		sb.WriteString(s1 + "=" + s2 + c15Pick(r, vals))
		tags = append(tags, "form:eq")
		dangerous = critical
	case 2:
		sb.WriteString(s1 + "==" + s2 + c15Pick(r, vals))
		tags = append(tags, "form:eqeq")
		dangerous = critical
	case 3, 4:
		s3, _ := c15Sep(r, false)
		sb.WriteString(s1 + "(" + s2 + c15Pick(r, vals) + s3 + ")")
		tags = append(tags, "form:call")
		setClass("call-syntax")
		dangerous = critical
	case 5:
		tags = append(tags, "form:bare")
		dangerous = name == "wal_checkpoint"
	case 6: // broken forms
		sb.WriteString(s1 + c15Pick(r, []string{"=", "(", "=;", "()", "= )", "(1", "= 1 garbage", "(1) garbage", "1", "!= 1", "<= 1", ". = 1"}))
		tags = append(tags, "form:broken")
		dangerous = critical
	}
	return sb.String(), tags, class, dangerous
}

func c15Gen(r *rand.Rand) c15Input {
	var parts []string
	var tags []string
	class := ""
	nt := false
	n := 1 + r.Intn(3)
	pos := r.Intn(n)
	dangerous := false
	explainFirst := r.Intn(12) == 0
	if explainFirst {
		// a text whose FIRST statement is an EXPLAIN (the HTTP layer flags the whole text SqlExplain) and whose PRAGMA comes later
		n = 2 + r.Intn(2)
		pos = 1 + r.Intn(n-1)
	}
	for i := 0; i < n; i++ {
		if i == 0 && explainFirst {
			parts = append(parts, c15Pick(r, c15ExplainFirst))
			tags = append(tags, "explain-first-statement")
			continue
		}
		if i == pos {
			s, tg, cl, d := c15PragmaStmt(r)
			parts = append(parts, s)
			tags = append(tags, tg...)
			class, dangerous = cl, d
		} else {
			parts = append(parts, c15Pick(r, c15Harmless))
		}
	}
	var sb strings.Builder
	// prefix of the whole text
	prefixKind := r.Intn(6)
	if explainFirst {
		prefixKind = 5 + r.Intn(2)*(-5) // none, or a plain separator
	}
	switch prefixKind {
	case 0:
		s := c15Pick(r, c15Seps)
		sb.WriteString(s)
		tags = append(tags, "prefix")
		if pos == 0 {
			if strings.ContainsAny(s, "/-") {
				class = "leading-comment"
			} else if s == "\xef\xbb\xbf" {
				class = "leading-bom"
			}
			nt = nt || strings.ContainsAny(s, "/-\xef")
		}
	case 1:
		sb.WriteString(c15Pick(r, []string{";", " ; ;", ";/**/;"}))
		tags = append(tags, "prefix:empty-statements")
		if pos == 0 {
			class = "second-statement"
			nt = true
		}
	}
	for i, p := range parts {
		if i > 0 {
			s1, _ := c15Sep(r, false)
			sb.WriteString(s1 + ";")
			switch r.Intn(5) {
			case 0:
				u := c15Pick(r, c15UniSpace)
				sb.WriteString(u)
				tags = append(tags, "unicode-space-after-semicolon")
				if i == pos {
					class = "unicode-tail"
				}
			case 1, 2:
				s2, _ := c15Sep(r, false)
				sb.WriteString(s2)
			}
		}
		sb.WriteString(p)
	}
	if pos > 0 {
		tags = append(tags, "position:later")
		if class == "" || class == "call-syntax" || class == "quoted-name" || class == "schema-prefix" || class == "inner-comment" {
			class = "second-statement"
		}
		nt = true
	} else {
		tags = append(tags, "position:first")
	}
	for _, t := range tags {
		if strings.HasPrefix(t, "explain") {
			nt = true
		}
	}
	switch r.Intn(6) {
	case 0:
		sb.WriteString(";")
	case 1:
		sb.WriteString(c15Pick(r, []string{" ; ", ";;", "; -- end", " /* unterminated", "; /*", "\x00; PRAGMA journal_mode=DELETE", " '"}))
		tags = append(tags, "trailer")
	}
	if n > 1 {
		tags = append(tags, "multi-statement")
	}
	if !dangerous {
		class = ""
		nt = false
		tags = append(tags, "harmless")
	} else {
		tags = append(tags, "dangerous")
	}
	return c15Input{Text: []byte(sb.String()), Tags: tags, Class: class, NT: nt && dangerous, Store: explainFirst}
}

var c15MutBytes = []byte("'\"`[];/*-\n\x00\v\xef\xbb\xbf\xc2\xa0$()@:#=. xX\\!<>|\x01\x7f\xff0e+")

func c15Mutate(r *rand.Rand, in c15Input) c15Input {
	b := append([]byte{}, in.Text...)
	k := 1 + r.Intn(3)
	for i := 0; i < k && len(b) > 0; i++ {
		p := r.Intn(len(b))
		switch r.Intn(5) {
		case 0:
			b = append(b[:p], b[p+1:]...)
		case 1:
			b = append(b[:p], append([]byte{c15MutBytes[r.Intn(len(c15MutBytes))]}, b[p:]...)...)
		case 2:
			b[p] = c15MutBytes[r.Intn(len(c15MutBytes))]
		case 3:
			q := r.Intn(len(b))
			b[p], b[q] = b[q], b[p]
		case 4:
			b = append(b[:p], append([]byte{b[p]}, b[p:]...)...)
		}
	}
	return c15Input{Text: b, Tags: []string{"mutated"}, Class: "", NT: false, Store: in.Store}
}

var c15Corpus = []struct{ text, class string }{
	{"PRAGMA journal_mode=DELETE", ""},
	{"pragma Journal_Mode = truncate", ""},
	{"PRAGMA wal_autocheckpoint=1000", ""},
	{"PRAGMA synchronous=FULL", ""},
	{"PRAGMA query_only=1", ""},
	{"PRAGMA wal_checkpoint", ""},
	{"PRAGMA main.wal_checkpoint(TRUNCATE)", ""},
	{"/* hi */ PRAGMA journal_mode=DELETE", "leading-comment"},
	{"-- hi\nPRAGMA synchronous=2", "leading-comment"},
	{"\xef\xbb\xbfPRAGMA synchronous=2", "leading-bom"},
	{"SELECT 1; PRAGMA synchronous=FULL", "second-statement"},
	{";PRAGMA query_only=1", "second-statement"},
	{"SELECT 1; PRAGMA synchronous=FULL", "unicode-tail"},
	{"SELECT 1;\vPRAGMA wal_autocheckpoint=7", "unicode-tail"},
	{"PRAGMA journal_mode(DELETE)", "call-syntax"},
	{"PRAGMA synchronous(2)", "call-syntax"},
	{"PRAGMA \"journal_mode\"=DELETE", "quoted-name"},
	{"PRAGMA 'query_only'=1", "quoted-name"},
	{"PRAGMA [wal_autocheckpoint]=9", "quoted-name"},
	{"PRAGMA `synchronous`=3", "quoted-name"},
	{"PRAGMA main.wal_autocheckpoint=55", "schema-prefix"},
	{"PRAGMA \"main\".synchronous=1", "schema-prefix"},
	{"PRAGMA main . query_only = 1", "schema-prefix"},
	{"EXPLAIN SELECT 1; PRAGMA synchronous=2", "second-statement"},
	{"EXPLAIN QUERY PLAN SELECT * FROM foo; PRAGMA wal_autocheckpoint=7", "second-statement"},
	{"explain select 1; PRAGMA wal_checkpoint(TRUNCATE)", "second-statement"},
	{"EXPLAIN SELECT 1; PRAGMA query_only=0", "second-statement"},
	{"EXPLAIN SELECT 1; SELECT 2; PRAGMA main.query_only(1)", "second-statement"},
	{"EXPLAIN SELECT 1", ""},
	{"INSERT INTO foo(v) VALUES('r') RETURNING id; PRAGMA synchronous=2", "second-statement"},
	{"SELECT random(); PRAGMA synchronous=2", ""},
	{"EXPLAIN PRAGMA synchronous=FULL", "explain-prefix"},
	{"EXPLAIN QUERY PLAN PRAGMA query_only=1", "explain-prefix"},
	{"explain pragma wal_autocheckpoint=77", "explain-prefix"},
	{"PRAGMA/**/synchronous/**/=/**/FULL", "inner-comment"},
	{"PRAGMA synchronous -- c\n = 3", "inner-comment"},
	{"PRAGMA journal_mode==DELETE", ""},
	{"PRAGMA synchronous=FULL garbage here", ""},
	{"PRAGMA wal_autocheckpoint=77 garbage", ""},
	{"SELECT $a(;'); PRAGMA synchronous=FULL", "second-statement"},
	{"SELECT @a(;'); PRAGMA query_only=1", "second-statement"},
	{"SELECT x''; PRAGMA synchronous=FULL", "second-statement"},
	{"SELECT 'a''';PRAGMA synchronous=FULL", "second-statement"},
	{"PRAGMA synchronous=FULL\x00'", ""},
	{"SELECT 1 \x00; PRAGMA synchronous=FULL", ""},
	{"PRAGMA wal_autocheckpoint=.5; PRAGMA wal_autocheckpoint=+5", ""},
	{"PRAGMA synchronous", ""},
	{"PRAGMA journal_mode", ""},
	{"PRAGMA synchronous=", ""},
	{"PRAGMA synchronous(FULL", ""},
	{"PRAGMA temp.synchronous=FULL", ""},
	{"PRAGMA nosuch.synchronous=FULL", ""},
	{"SELECT 'PRAGMA journal_mode=DELETE'", ""},
	{"SELECT \"PRAGMA wal_autocheckpoint = 1000\" FROM foo", ""},
	{"/* PRAGMA journal_mode=DELETE */ SELECT 1", ""},
	{"SELECT 1 /* unterminated ; PRAGMA synchronous=2", ""},
	{"SELECT 'unterminated ; PRAGMA synchronous=2", ""},
	{"/*/ PRAGMA synchronous=2", ""},
	{"/**/PRAGMA synchronous=2", "leading-comment"},
	{"/*", ""},
	{"X PRAGMA journal_mode=DELETE", ""},
	{"SELECT * FROM pragma_journal_mode", ""},
	{"SELECT * FROM pragma_synchronous('main')", ""},
	{"PRAGMA locking_mode=NORMAL", ""},
	{"PRAGMA wal_checkpoint = 1", ""},
	{"CREATE TRIGGER tr AFTER INSERT ON foo BEGIN PRAGMA synchronous=2; END", ""},
	{"PRAGMA main.synchronous.x=2", ""},
	{" PRAGMA synchronous=FULL", ""},
	{"", ""},
	{";;;", ""},
}

// ---------------------------------------------------------------- one case

func c15Run(w *vWriter, sc *c15Scratch, live *c15Live, in c15Input) {
	raw := string(in.Text)
	// what /db/execute hands to the Store for this text
	st := c15Process([]string{raw}, true)[0]
	text := st.Sql
	flagged := sql.IsBreakingPragma(text)
	var obs []c15Obs
	fail, sig := "", ""
	for _, m := range c15Modes {
		o := sc.observe(m, st)
		obs = append(obs, o)
		if o.any() && !flagged && fail == "" {
			fail = fmt.Sprintf("text %q is not flagged by IsBreakingPragma but changed %s when run by SQLite (db.DB %s)", text, o.kinds(), m)
			if in.Class != "" {
				sig = "C15:" + in.Class
			} else {
				sig = "C15:unflagged:" + o.kinds()
			}
		}
	}
	var refused []bool
	var reqs [][]*proto.Statement
	if in.Store && live != nil && live.restarts < 8 { // a broken guard is reported long before; keep the run short
		var moved string
		reqs, refused, moved = live.run(raw)
		if moved != "" && fail == "" {
			k := strings.SplitN(moved, "|", 2)
			fail = fmt.Sprintf("request [SELECT 1; %q; SELECT 1] (SqlExplain=%v) changed the node's database: %s", raw, reqs[0][1].SqlExplain, k[1])
			sig = "C15:store:" + k[0]
		}
		for i, ent := range []string{"Execute", "Query", "Request"} {
			for _, s := range reqs[i] {
				if sql.IsBreakingPragma(s.Sql) && !refused[i] && fail == "" {
					fail = fmt.Sprintf("Store.%s accepted a request whose statement %q (SqlExplain=%v, ForceQuery=%v, as set by command/sql.Process) is a breaking PRAGMA",
						ent, s.Sql, s.SqlExplain, s.ForceQuery)
					sig = "C15:guard-not-applied:" + ent
					if s.SqlExplain {
						sig += ":sql-explain-flag"
					}
				}
			}
		}
	}
	oc := make([]string, len(obs))
	for i, o := range obs {
		oc[i] = o.coq()
	}
	rc := make([]string, len(refused))
	for i, b := range refused {
		rc[i] = coqBool(b)
	}
	qc := make([]string, len(reqs))
	for i, r := range reqs {
		qc[i] = c15StmtsCoq(r)
	}
	tags := append([]string{}, in.Tags...)
	if flagged {
		tags = append(tags, "flagged")
	}
	if text != raw {
		tags = append(tags, "rewritten-by-sql.Process")
	}
	if st.SqlExplain {
		tags = append(tags, "SqlExplain-flag")
	}
	if st.ForceQuery {
		tags = append(tags, "ForceQuery-flag")
	}
	if len(reqs) > 0 {
		tags = append(tags, "through-live-store")
	}
	for _, o := range obs {
		if o.any() {
			tags = append(tags, "changes-settings")
			break
		}
	}
	sort.Strings(tags)
	c := VCase{
		Input:      in,
		Coq:        fmt.Sprintf("{| c_text := %s; c_guard := %s; c_obs := %s; c_reqs := %s; c_refused := %s |}", coqBytes([]byte(text)), coqBool(flagged), coqList(oc), coqList(qc), coqList(rc)),
		Nontrivial: in.NT,
		Key:        fmt.Sprintf("%q", raw),
		Tags:       tags,
		OracleFail: fail,
		Sig:        sig,
	}
	w.Emit(c)
}

func TestVerif_C15(t *testing.T) {
	w := vOpen()
	defer w.Close()
	sc := &c15Scratch{dir: t.TempDir()}
	defer func() {
		if sc.d != nil {
			sc.d.Close()
		}
	}()
	live := &c15Live{t: t}
	defer func() {
		if live.cl != nil {
			live.cl()
		}
	}()
	if raw := vReplayInput(); raw != nil {
		var in c15Input
		if err := json.Unmarshal(raw, &in); err != nil {
			t.Fatal(err)
		}
		in.Store = true
		c15Run(w, sc, live, in)
		return
	}
	rng := vRand()
	for _, c := range c15Corpus {
		nt := c.class != "" && c.class != "call-syntax" && c.class != "quoted-name" && c.class != "schema-prefix" && c.class != "inner-comment"
		c15Run(w, sc, live, c15Input{Text: []byte(c.text), Tags: []string{"corpus"}, Class: c.class, NT: nt, Store: true})
	}
	n := vN(800, 30000)
	storeEvery := 10
	if vTier() == "thorough" {
		storeEvery = 20
	}
	for i := 0; i < n; i++ {
		in := c15Gen(rng)
		if i%4 == 3 {
			in = c15Mutate(rng, in)
		}
		in.Store = in.Store || i%storeEvery == 0
		if bytes.IndexByte(in.Text, 0) >= 0 {
			in.Tags = append(in.Tags, "contains-NUL")
		}
		c15Run(w, sc, live, in)
	}
}
