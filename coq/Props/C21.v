(* C21 — property theorems only. *)
From Coq Require Import List NArith Bool.
From RQ Require Import Model.C21 Proofs.C21.

(* binary backup under the snapshot gate: one version of the file under every schedule of commits and checkpoints (partial:
   SQLite's WAL discipline — the main file changes only at a checkpoint — is the model's hypothesis) *)
Theorem C21_binary_is_version_partial : forall snap_ok chunks k0 m0 sched w0 w,
  m w0 = m0 -> k w0 = k0 -> (m0 <= k0)%N -> gate w0 = false -> out w0 = nil ->
  run (bin_step true snap_ok chunks) sched (w0, BSnap) = (w, BDone) ->
  exists v, out w = repeat v chunks /\ (m0 <= v <= k w)%N /\ (snap_ok = true -> (k0 <= v)%N).
Proof. exact binary_is_version. Qed.
Print Assumptions C21_binary_is_version_partial.

(* SQL dump inside one read transaction (partial: snapshot isolation of a SQLite read transaction is the model's hypothesis) *)
Theorem C21_dump_is_version_partial : forall tables k0, tables <> O -> forall sched w0 w,
  k w0 = k0 -> snap w0 = None -> out w0 = nil ->
  run (dump_step tables tables) sched (w0, DBegin) = (w, DDone) ->
  point_in_time k0 w tables.
Proof. exact dump_is_version. Qed.
Print Assumptions C21_dump_is_version_partial.

(* vacuum / DELETE format through the online backup API (partial: one Step(-1) = one committed version) *)
Theorem C21_online_is_version_partial : forall k0 sched w0 w,
  k w0 = k0 -> out w0 = nil ->
  run online_step sched (w0, OStep) = (w, ODone) -> point_in_time k0 w 1.
Proof. exact online_is_version. Qed.
Print Assumptions C21_online_is_version_partial.

Theorem C21_judgement_is_property : forall lo w n v,
  out w = repeat v n -> n <> O -> (obs_ok lo (k w) (out w) = true <-> (lo <= v <= k w)%N).
Proof. exact obs_ok_spec. Qed.
Print Assumptions C21_judgement_is_property.

(* a stream cut at any position is an error at the client (gzip framing as explicit hypothesis) ... *)
Theorem C21_cut_stream_is_error : forall complete : list N -> bool,
  (forall (s : list N) (n : nat), complete s = true -> (n < length s)%nat -> complete (firstn n s) = false) ->
  forall (hdr gzs : list N) (cut : nat),
  complete gzs = true -> (length hdr + length gzs > cut)%nat ->
  client complete (length hdr) (firstn cut (hdr ++ gzs)) = false.
Proof. exact cut_stream_is_error. Qed.
Print Assumptions C21_cut_stream_is_error.

(* ... a complete one is accepted, and the byte-count rule evaluated on driver cases is that client *)
Theorem C21_client_rule : forall complete : list N -> bool,
  (forall (s : list N) (n : nat), complete s = true -> (n < length s)%nat -> complete (firstn n s) = false) ->
  forall (hdr gzs : list N) (cut : nat),
  complete gzs = true ->
  client complete (length hdr) (firstn cut (hdr ++ gzs)) = client_ok (N.of_nat (length hdr)) (N.of_nat (length gzs)) (N.of_nat cut).
Proof. exact client_ok_spec. Qed.
Print Assumptions C21_client_rule.

(* ... and never answered with 200 by the HTTP API *)
Theorem C21_cut_is_never_200 : forall hdr gz cut written,
  (cut < hdr + gz)%N -> http_status (client_ok hdr gz cut) written <> H200.
Proof. exact cut_is_never_200. Qed.
Print Assumptions C21_cut_is_never_200.

(* the code before the fixes (kept as documentation of what the fixes repair) *)
Theorem C21_dump_without_transaction_refuted :
  exists sched w0, k w0 = 0%N /\ snap w0 = None /\ out w0 = nil /\
    let '(w, ph) := run (dump_step 0 2) sched (w0, DBegin) in
    ph = DDone /\ ~ point_in_time 0 w 2.
Proof. exact dump_without_transaction_refuted. Qed.
Print Assumptions C21_dump_without_transaction_refuted.

Theorem C21_copy_until_eof_refuted :
  exists (hdr gzs : list N) (cut : nat), (cut < length hdr + length gzs)%nat /\ old_client_compressed (length hdr) (firstn cut (hdr ++ gzs)) = true.
Proof. exact old_client_refuted. Qed.
Print Assumptions C21_copy_until_eof_refuted.

(* the binary backup holds the snapshot gate for the whole copy, whatever the WAL held at the start: a
   checkpoint requested in that window is refused and leaves the file alone *)
Theorem C21_gate_held_during_copy : forall snap_ok chunks sched w0 w j,
  run (bin_step true snap_ok chunks) sched (w0, BSnap) = (w, BCopy j) ->
  checkpoint_refused w = true /\ env_step ECheckpoint w = w.
Proof. exact gate_held_during_copy. Qed.
Print Assumptions C21_gate_held_during_copy.

Theorem C21_dump_never_holds_gate : forall covered queries sched w0 w ph,
  gate w0 = false -> run (dump_step covered queries) sched (w0, DBegin) = (w, ph) -> checkpoint_refused w = false.
Proof. exact dump_never_holds_gate. Qed.
Print Assumptions C21_dump_never_holds_gate.

Theorem C21_online_never_holds_gate : forall sched w0 w ph,
  gate w0 = false -> run online_step sched (w0, OStep) = (w, ph) -> checkpoint_refused w = false.
Proof. exact online_never_holds_gate. Qed.
Print Assumptions C21_online_never_holds_gate.

(* producer side: however Store.Backup splits the stream into writes (copy loop, then gzip Close), a destination
   that fails at any position before the end makes the backup an error; one with room for everything does not *)
Theorem C21_destination_failure_is_error : forall copy_writes close_writes room,
  backup_result copy_writes close_writes room
  = producer_ok (total_len copy_writes + total_len close_writes) room.
Proof. exact destination_failure_is_error. Qed.
Print Assumptions C21_destination_failure_is_error.

Theorem C21_destination_failure_never_success : forall copy_writes close_writes room,
  (room < total_len copy_writes + total_len close_writes)%N -> backup_result copy_writes close_writes room = false.
Proof. exact destination_failure_never_success. Qed.
Print Assumptions C21_destination_failure_never_success.

Theorem C21_close_error_dropped_refuted :
  exists copy_writes close_writes room,
    (room < total_len copy_writes + total_len close_writes)%N /\ write_all copy_writes room = true.
Proof. exact close_error_dropped_refuted. Qed.
Print Assumptions C21_close_error_dropped_refuted.

(* the transaction bracket of the dump must include the last query (indexes, triggers, views): closed one query
   early, the schema objects come from a later version than the tables *)
Theorem C21_dump_last_query_outside_transaction_refuted :
  exists sched w0, k w0 = 0%N /\ snap w0 = None /\ out w0 = nil /\
    let '(w, ph) := run (dump_step 2 3) sched (w0, DBegin) in
    ph = DDone /\ out w = (0 :: 0 :: 1 :: nil)%N /\ ~ point_in_time 0 w 3.
Proof. exact dump_last_query_outside_transaction_refuted. Qed.
Print Assumptions C21_dump_last_query_outside_transaction_refuted.
