(* C38 — model of the progress of the FSM index relative to the Raft log on a leader, and of
   the linearizable read (Model/C02_ReadIndex.v) issued against it.
   Executable definitions only; proofs are in Proofs/C38.v. *)
From Coq Require Import List NArith Bool.
From RQ Require Export Model.C02_ReadIndex.
Import ListNotations.
Local Open Scope N_scope.

(* The leader's log as a zipper around the FSM position and the commit index:
     n_done : entries 1 .. fsmIdx          (everything FSM.Apply / FSM.Restore has got past)
     n_todo : entries fsmIdx+1 .. commit   (committed; raft's runFSM hands them over in order,
                                            calling FSM.Apply for Command entries only)
     n_rest : entries commit+1 ..          (appended, not yet committed)
   None = the entry is no longer in the log store (compacted after a snapshot).
   fsmIdx and fsmTarget move together (fsmApply and fsmRestore store one and signal the other). *)
Record node := {
  n_done : list (option kind);
  n_todo : list (option kind);
  n_rest : list (option kind)
}.

Definition n_fsm (n : node) : N := N.of_nat (length (n_done n)).
Definition n_commit (n : node) : N := n_fsm n + N.of_nat (length (n_todo n)).
Definition n_log (n : node) : list (option kind) := n_done n ++ n_todo n ++ n_rest n.

(* what fsmTarget (the ReadyTarget linearizable reads subscribe to) has recorded: fsmApply and
   fsmRestore call fsmTarget.Signal(index) right after fsmIdx.Store(index), whether or not
   anybody is subscribed at that moment, so the recorded target is the FSM index.  A read that
   subscribes after the FSM passed its target relies on exactly this ("a signal without a
   waiter must still be remembered"). *)
Definition n_target (n : node) : N := n_fsm n.

Definition okind_is_cmd (k : option kind) : bool :=
  match k with Some k => is_cmd k | None => false end.

(* the committed entries up to and including the next Command entry, and what follows *)
Fixpoint split_cmd (ks : list (option kind)) : option (list (option kind) * list (option kind)) :=
  match ks with
  | [] => None
  | k :: r =>
      if okind_is_cmd k then Some ([k], r)
      else match split_cmd r with
           | Some (pre, post) => Some (k :: pre, post)
           | None => None
           end
  end.

(* one FSM.Apply: the next committed Command entry is applied (fsmApply: fsmIdx := its index,
   fsmTarget.Signal(index)); entries before it are skipped by raft without a call *)
Definition fsm_step (n : node) : node :=
  match split_cmd (n_todo n) with
  | Some (pre, post) => {| n_done := n_done n ++ pre; n_todo := post; n_rest := n_rest n |}
  | None => n
  end.

Fixpoint fsm_run (k : nat) (n : node) : node :=
  match k with O => n | S k => fsm_run k (fsm_step n) end.

(* the other things that happen to a leader's log *)
Inductive event :=
  | EvAppend (k : kind)       (* raft appends an entry of any kind *)
  | EvCommit                  (* the commit index advances over the next appended entry *)
  | EvFsm.                    (* the FSM goroutine applies the next committed command *)

Definition step (n : node) (e : event) : node :=
  match e with
  | EvAppend k => {| n_done := n_done n; n_todo := n_todo n; n_rest := n_rest n ++ [Some k] |}
  | EvCommit => match n_rest n with
                | [] => n
                | k :: r => {| n_done := n_done n; n_todo := n_todo n ++ [k]; n_rest := r |}
                end
  | EvFsm => fsm_step n
  end.

Definition run (n : node) (es : list event) : node := fold_left step es n.

Definition empty_node : node := {| n_done := []; n_todo := []; n_rest := [] |}.

(* what a linearizable read started now on this node reads, on a leader in good standing
   in term t (strong read done in t, ready, quorum answers, term stays) when the highest
   index the FSM signals before the timeout is [reached] *)
Definition healthy_obs (t : N) (n : node) (reached : N) : lin_obs :=
  {| lo_term := t; lo_srt := t; lo_leader := true; lo_ready := true;
     lo_commit := n_commit n; lo_verify := VOk; lo_term_after := t;
     lo_fsm_idx := n_fsm n; lo_kinds := n_todo n; lo_reached := reached |}.

(* the FSM goroutine given time to apply what is committed, nothing else happening *)
Definition drained (n : node) : node := fsm_run (length (n_todo n)) n.

(* ---------- correspondence ---------- *)

(* what the driver sees of a linearizable Query on a live leader *)
Inductive read_seen :=
  | RLocal                (* served from the local database at level linearizable, no log entry *)
  | RUpgraded             (* turned into a strong read through the log *)
  | RErr (r : lin_result) (* refused: the class of the error *).

Record case := {
  c_node : node;          (* the leader's log around fsmIdx / commit index when the read starts *)
  c_term : N;
  c_srt : N;
  c_leader : bool;
  c_ready : bool;
  c_seen : read_seen;
  c_target : comparison   (* fsmTarget's recorded value compared with fsmIdx, system quiet: Eq | Lt | Gt *)
}.

(* the read as the model predicts it: the FSM applies the committed commands (no further
   entry is appended), leadership is confirmed, the wait is the model's *)
Definition predict (c : case) : read_seen :=
  let n := c_node c in
  let o := {| lo_term := c_term c; lo_srt := c_srt c; lo_leader := c_leader c; lo_ready := c_ready c;
              lo_commit := n_commit n; lo_verify := VOk; lo_term_after := c_term c;
              lo_fsm_idx := n_fsm n; lo_kinds := n_todo n; lo_reached := n_target (drained n) |} in
  match wait_lin o with
  | LinOk => RLocal
  | LinStrongNeeded => if c_leader c && c_ready c then RUpgraded else
                       if c_leader c then RErr LinNotReady else RErr LinNotLeader
  | r => RErr r
  end.

Definition lin_result_eqb (a b : lin_result) : bool :=
  match a, b with
  | LinOk, LinOk | LinStrongNeeded, LinStrongNeeded | LinNotLeader, LinNotLeader | LinNotReady, LinNotReady
  | LinVerifyFailed, LinVerifyFailed | LinTermChanged, LinTermChanged | LinTimeout, LinTimeout => true
  | _, _ => false
  end.

Definition seen_eqb (a b : read_seen) : bool :=
  match a, b with
  | RLocal, RLocal | RUpgraded, RUpgraded => true
  | RErr x, RErr y => lin_result_eqb x y
  | _, _ => false
  end.

Definition comparison_eqb (a b : comparison) : bool :=
  match a, b with Eq, Eq | Lt, Lt | Gt, Gt => true | _, _ => false end.

Definition check_case (c : case) : bool :=
  seen_eqb (predict c) (c_seen c)
  && comparison_eqb (N.compare (n_target (c_node c)) (n_fsm (c_node c))) (c_target c).
