(* C34 — executable models of internal/rsync: CheckAndSet (cas.go), MultiRSW (multir_singlew.go),
   ReadyTarget (ready_target.go).  Each method body runs under the primitive's mutex, so it is one
   atomic action; the blocking forms of MultiRSW are modelled with the condition variable's
   wait-set, Broadcast (wait-set -> woken) and a separate Resume action (a woken goroutine
   re-acquires the mutex and re-evaluates its loop guard).  Threads are natural numbers; any number
   of them.  Fields marked "ghost" are bookkeeping of which thread is inside which critical
   section; no model of a method reads them.  No proofs here. *)
From Coq Require Import List String Bool ZArith NArith Arith.
From RQ Require Import Lib.C34_Sched.
Import ListNotations.
Open Scope string_scope.

(* what a call returns / does *)
Inductive obs := Ok | Conflict | Panic | Blocked | Invalid.
Definition obs_eqb (a b : obs) : bool :=
  match a, b with
  | Ok, Ok | Conflict, Conflict | Panic, Panic | Blocked, Blocked | Invalid, Invalid => true
  | _, _ => false
  end.

Definition is_empty (s : string) : bool := String.eqb s "".

(* remove the first occurrence *)
Fixpoint remove1 (t : nat) (l : list nat) : list nat :=
  match l with
  | [] => []
  | x :: r => if Nat.eqb x t then r else x :: remove1 t r
  end.
Definition memn (t : nat) (l : list nat) : bool := existsb (Nat.eqb t) l.

(* ------------------------------------------------------------------ CheckAndSet *)
Record cas := { c_state : bool; c_owner : string; c_holders : list nat (* ghost *) }.
Definition cas_init : cas := {| c_state := false; c_owner := ""; c_holders := [] |}.
Inductive cas_act := CBegin (t : nat) (o : string) | CEnd (t : nat).

Definition cas_step_obs (s : cas) (a : cas_act) : cas * obs :=
  match a with
  | CBegin t o =>
      if c_state s then (s, Conflict)
      else ({| c_state := true; c_owner := o; c_holders := t :: c_holders s |}, Ok)
  | CEnd t => ({| c_state := false; c_owner := ""; c_holders := remove1 t (c_holders s) |}, Ok)
  end.
Definition cas_step (s : cas) (a : cas_act) : cas := fst (cas_step_obs s a).
(* client protocol: only a holder calls End *)
Definition cas_enabled (s : cas) (a : cas_act) : bool :=
  match a with CBegin _ _ => true | CEnd t => memn t (c_holders s) end.

(* ------------------------------------------------------------------ MultiRSW *)
Inductive wkind := WR | WW (o : string).
Record mrsw := {
  m_owner : string; m_nr : Z;
  m_wait : list (nat * wkind);    (* goroutines parked in cond.Wait *)
  m_woken : list (nat * wkind);   (* woken by Broadcast, have not yet re-acquired the mutex *)
  m_rd : list nat; m_wr : list nat (* ghost: read holds (multiset), write holds *) }.
Definition mrsw_init : mrsw :=
  {| m_owner := ""; m_nr := 0%Z; m_wait := []; m_woken := []; m_rd := []; m_wr := [] |}.

Inductive mact :=
| MBeginRead (t : nat) | MBeginReadB (t : nat) | MEndRead (t : nat)
| MBeginWrite (t : nat) (o : string) | MBeginWriteB (t : nat) (o : string) | MEndWrite (t : nat)
| MUpgrade (t : nat) (o : string) | MResume (t : nat).

(* loop condition of BeginReadBlocking / BeginWriteBlocking *)
Definition guard_blocked (s : mrsw) (k : wkind) : bool :=
  match k with
  | WR => negb (is_empty (m_owner s))
  | WW _ => negb (is_empty (m_owner s)) || (0 <? m_nr s)%Z
  end.

Definition acquire (s : mrsw) (t : nat) (k : wkind) : mrsw :=
  match k with
  | WR => {| m_owner := m_owner s; m_nr := (m_nr s + 1)%Z; m_wait := m_wait s; m_woken := m_woken s;
             m_rd := t :: m_rd s; m_wr := m_wr s |}
  | WW o => {| m_owner := o; m_nr := m_nr s; m_wait := m_wait s; m_woken := m_woken s;
               m_rd := m_rd s; m_wr := t :: m_wr s |}
  end.

Definition park (s : mrsw) (t : nat) (k : wkind) : mrsw :=
  {| m_owner := m_owner s; m_nr := m_nr s; m_wait := m_wait s ++ [(t, k)]; m_woken := m_woken s;
     m_rd := m_rd s; m_wr := m_wr s |}.

Definition broadcast (s : mrsw) : mrsw :=
  {| m_owner := m_owner s; m_nr := m_nr s; m_wait := []; m_woken := m_woken s ++ m_wait s;
     m_rd := m_rd s; m_wr := m_wr s |}.

(* the `for guard { cond.Wait() }; acquire` of the blocking forms, entered with the mutex held *)
Definition try_blocking (s : mrsw) (t : nat) (k : wkind) : mrsw * obs :=
  if guard_blocked s k then (park s t k, Blocked) else (acquire s t k, Ok).

Fixpoint find_w (t : nat) (l : list (nat * wkind)) : option wkind :=
  match l with
  | [] => None
  | (u, k) :: r => if Nat.eqb u t then Some k else find_w t r
  end.
Fixpoint remove_w (t : nat) (l : list (nat * wkind)) : list (nat * wkind) :=
  match l with
  | [] => []
  | (u, k) :: r => if Nat.eqb u t then r else (u, k) :: remove_w t r
  end.

Definition mrsw_step_obs (s : mrsw) (a : mact) : mrsw * obs :=
  match a with
  | MBeginRead t =>
      if negb (is_empty (m_owner s)) then (s, Conflict) else (acquire s t WR, Ok)
  | MBeginReadB t => try_blocking s t WR
  | MEndRead t =>
      let s1 := {| m_owner := m_owner s; m_nr := (m_nr s - 1)%Z; m_wait := m_wait s; m_woken := m_woken s;
                   m_rd := remove1 t (m_rd s); m_wr := m_wr s |} in
      if (m_nr s1 <? 0)%Z then (s1, Panic)
      else if (m_nr s1 =? 0)%Z then (broadcast s1, Ok) else (s1, Ok)
  | MBeginWrite t o =>
      if is_empty o then (s, Panic)
      else if negb (is_empty (m_owner s)) then (s, Conflict)
      else if (0 <? m_nr s)%Z then (s, Conflict)
      else (acquire s t (WW o), Ok)
  | MBeginWriteB t o =>
      if is_empty o then (s, Panic) else try_blocking s t (WW o)
  | MEndWrite t =>
      if is_empty (m_owner s) then (s, Panic)
      else (broadcast {| m_owner := ""; m_nr := m_nr s; m_wait := m_wait s; m_woken := m_woken s;
                         m_rd := m_rd s; m_wr := remove1 t (m_wr s) |}, Ok)
  | MUpgrade t o =>
      if negb (is_empty (m_owner s)) then (s, Conflict)
      else if (1 <? m_nr s)%Z then (s, Conflict)
      else if (m_nr s =? 0)%Z then (s, Panic)
      else ({| m_owner := o; m_nr := 0%Z; m_wait := m_wait s; m_woken := m_woken s;
               m_rd := remove1 t (m_rd s); m_wr := t :: m_wr s |}, Ok)
  | MResume t =>
      match find_w t (m_woken s) with
      | None => (s, Invalid)
      | Some k =>
          try_blocking {| m_owner := m_owner s; m_nr := m_nr s; m_wait := m_wait s;
                          m_woken := remove_w t (m_woken s); m_rd := m_rd s; m_wr := m_wr s |} t k
      end
  end.
Definition mrsw_step (s : mrsw) (a : mact) : mrsw := fst (mrsw_step_obs s a).

Definition is_blocked (s : mrsw) (t : nat) : bool :=
  memn t (map fst (m_wait s)) || memn t (map fst (m_woken s)).

(* client protocol: a parked goroutine does nothing else; EndRead/Upgrade only by a read holder,
   EndWrite only by the write holder; owner names are non-empty *)
Definition mrsw_enabled (s : mrsw) (a : mact) : bool :=
  match a with
  | MBeginRead t | MBeginReadB t => negb (is_blocked s t)
  | MBeginWrite t o | MBeginWriteB t o => negb (is_blocked s t) && negb (is_empty o)
  | MEndRead t => negb (is_blocked s t) && memn t (m_rd s)
  | MEndWrite t => negb (is_blocked s t) && memn t (m_wr s)
  | MUpgrade t o => negb (is_blocked s t) && memn t (m_rd s) && negb (is_empty o)
  | MResume t => memn t (map fst (m_woken s))
  end.

(* ------------------------------------------------------------------ ReadyTarget *)
(* channels are numbered in order of creation (the k-th Subscribe returns channel k) *)
Record rt := { r_cur : N; r_subs : list (nat * N); r_closed : list nat; r_next : nat }.
Definition rt_init : rt := {| r_cur := 0%N; r_subs := []; r_closed := []; r_next := 0 |}.
Inductive ract := RSub (tg : N) | RUnsub (ch : nat) | RSignal (i : N) | RReset.

Fixpoint remove_sub (ch : nat) (l : list (nat * N)) : list (nat * N) :=
  match l with
  | [] => []
  | (c, tg) :: r => if Nat.eqb c ch then r else (c, tg) :: remove_sub ch r
  end.

Definition rt_step (s : rt) (a : ract) : rt :=
  match a with
  | RSub tg =>
      if (tg <=? r_cur s)%N
      then {| r_cur := r_cur s; r_subs := r_subs s; r_closed := r_next s :: r_closed s; r_next := S (r_next s) |}
      else {| r_cur := r_cur s; r_subs := r_subs s ++ [(r_next s, tg)]; r_closed := r_closed s; r_next := S (r_next s) |}
  | RUnsub ch =>
      {| r_cur := r_cur s; r_subs := remove_sub ch (r_subs s); r_closed := r_closed s; r_next := r_next s |}
  | RSignal i =>
      if (i <=? r_cur s)%N then s
      else {| r_cur := i;
              r_subs := filter (fun p => negb (snd p <=? i)%N) (r_subs s);
              r_closed := map fst (filter (fun p => (snd p <=? i)%N) (r_subs s)) ++ r_closed s;
              r_next := r_next s |}
  | RReset => {| r_cur := 0%N; r_subs := []; r_closed := r_closed s; r_next := r_next s |}
  end.
Definition rt_enabled (s : rt) (a : ract) : bool := true.

Inductive wstat := Waiting | Woken | Dropped | Unborn.
Definition wstat_eqb (a b : wstat) : bool :=
  match a, b with
  | Waiting, Waiting | Woken, Woken | Dropped, Dropped | Unborn, Unborn => true
  | _, _ => false
  end.
Definition rt_status (s : rt) (ch : nat) : wstat :=
  if memn ch (r_closed s) then Woken
  else if memn ch (map fst (r_subs s)) then Waiting
  else if Nat.ltb ch (r_next s) then Dropped else Unborn.

(* ------------------------------------------------------------------ correspondence *)
(* CheckAndSet: per step the action, what the call returned, and Owner() afterwards *)
Fixpoint cas_exec (s : cas) (l : list (cas_act * obs * string)) : bool :=
  match l with
  | [] => true
  | (a, o, ow) :: r =>
      let '(s1, o1) := cas_step_obs s a in
      obs_eqb o1 o && String.eqb (c_owner s1) ow && cas_exec s1 r
  end.

(* MultiRSW: per step the action, what the call did (Ok / Conflict / Panic / Blocked), the
   goroutines that were parked before the step and had returned once the system was quiescent
   again, and the white-box owner / numReaders then.  The model resumes the returned goroutines
   (each must acquire), then every other woken goroutine (each must park again). *)
Fixpoint resume_all (s : mrsw) (ts : list nat) (want : obs) : mrsw * bool :=
  match ts with
  | [] => (s, true)
  | t :: r =>
      let '(s1, o1) := mrsw_step_obs s (MResume t) in
      let '(s2, b) := resume_all s1 r want in (s2, obs_eqb o1 want && b)
  end.

Definition mrsw_quiesce (s : mrsw) (returned : list nat) : mrsw * bool :=
  let '(s1, b1) := resume_all s returned Ok in
  let '(s2, b2) := resume_all s1 (map fst (m_woken s1)) Blocked in
  (s2, b1 && b2 && match m_woken s2 with [] => true | _ => false end).

Record mobs := { mo_act : mact; mo_obs : obs; mo_returned : list nat; mo_owner : string; mo_nr : Z }.

Fixpoint mrsw_exec (s : mrsw) (l : list mobs) : bool :=
  match l with
  | [] => true
  | x :: r =>
      let '(s1, o1) := mrsw_step_obs s (mo_act x) in
      let '(s2, b) := mrsw_quiesce s1 (mo_returned x) in
      obs_eqb o1 (mo_obs x) && b && String.eqb (m_owner s2) (mo_owner x) && (m_nr s2 =? mo_nr x)%Z
      && mrsw_exec s2 r
  end.

(* ReadyTarget: per step the action, Len() afterwards and which of the channels created so far
   are closed (channel k at position k) *)
Fixpoint rt_exec (s : rt) (l : list (ract * nat * list bool)) : bool :=
  match l with
  | [] => true
  | (a, len, cl) :: r =>
      let s1 := rt_step s a in
      Nat.eqb (List.length (r_subs s1)) len
      && (if list_eq_dec Bool.bool_dec (map (fun ch => memn ch (r_closed s1)) (seq 0 (r_next s1))) cl then true else false)
      && rt_exec s1 r
  end.

Inductive case :=
| CaseCAS (l : list (cas_act * obs * string))
| CaseMRSW (l : list mobs)
| CaseRT (l : list (ract * nat * list bool)).

Definition check_case (c : case) : bool :=
  match c with
  | CaseCAS l => cas_exec cas_init l
  | CaseMRSW l => mrsw_exec mrsw_init l
  | CaseRT l => rt_exec rt_init l
  end.
