(* C25 — model of the CDC delivery pipeline of one node:
     db/cdc.go       CDCStreamer.Reset / CommitHook (group per commit, labelled with the entry's index -
                     with fix C25-keep-index-across-commits also after the first commit)
     cdc/service.go  writeToBatcher (drop at or below the high watermark), the batcher (queue.Queue: cut at
                     MaxBatchSz, on flush), mainLoop (FIFO keyed by the batch's highest index), leaderLoop
                     (read FIFO, skip at or below HWM, retry forever, HWM := index sent), leaderHWMLoop
                     (prune), followerLoop (HWM updates from the cluster), NewService (HWM := first key - 1)
     cdc/fifo.go     in closed form (Proofs.C26: the offered head is always seek cursor bucket)
   Executable definitions only; proofs are in Proofs/C25.v. *)
From Coq Require Import List String Bool NArith.
Import ListNotations.
Local Open Scope N_scope.

(* one row change as the endpoint sees it (table, operation, row id): an opaque token *)
Definition rowev := string.

(* proto.CDCIndexedEventGroup *)
Record group := { g_idx : N; g_evs : list rowev }.
Definition batch := list group.

(* the log: for an index, the row changes of each commit made while that entry was applied *)
Definition log := list (N * list (list rowev)).
Fixpoint commits_of (l : log) (i : N) : list (list rowev) :=
  match l with
  | [] => []
  | (k, c) :: r => if k =? i then c else commits_of r i
  end.

(* the streamer while entry i is applied: Reset i; every commit with pending events sends a group *)
Definition groups_of (l : log) (i : N) : list group :=
  map (fun evs => {| g_idx := i; g_evs := evs |})
      (filter (fun evs => match evs with [] => false | _ => true end) (commits_of l i)).

Record node := {
  hwm : N;                        (* Service.highWatermark *)
  buf : list group;               (* objects queued in the batcher *)
  items : list (N * batch);       (* FIFO bucket, by key *)
  fhigh : N;                      (* FIFO highest key ever *)
  cursor : N;                     (* FIFO nextFrom *)
  leader : bool;
  inflight : option (N * batch);  (* the FIFO event the leader loop is sending / retrying *)
  fpers : N;                      (* followerLoop's hwmPersisted *)
  sent : list (N * batch)         (* what the endpoint accepted from this node, oldest first *)
}.

Definition init : node :=
  {| hwm := 0; buf := []; items := []; fhigh := 0; cursor := 0; leader := false; inflight := None; fpers := 0; sent := [] |}.

Definition set_buf (s : node) (b : list group) : node :=
  {| hwm := hwm s; buf := b; items := items s; fhigh := fhigh s; cursor := cursor s; leader := leader s;
     inflight := inflight s; fpers := fpers s; sent := sent s |}.

(* ---- FIFO in closed form ---- *)
Fixpoint seek (k : N) (l : list (N * batch)) : option (N * batch) :=
  match l with
  | [] => None
  | it :: r => if k <=? fst it then Some it else seek k r
  end.
Definition fifo_delete (i : N) (l : list (N * batch)) : list (N * batch) := filter (fun it => i <? fst it) l.
Definition cursor_after_delete (c i : N) : N := if negb (c =? 0) && (c <=? i) then i + 1 else c.

(* ---- mainLoop: a batch arrives from the batcher ---- *)
Definition hi_idx (b : batch) : N := fold_left (fun m g => N.max m (g_idx g)) b 0.

(* A flush object (snapshot sync) has index 0 and no events; it is not marshalled and a batch that holds
   nothing else is skipped.  Its only effect is to make the batcher cut, which is how Flush is modelled. *)
Definition enqueue_batch (s : node) (b : batch) : node :=
  let k := hi_idx b in
  if k <=? fhigh s then s       (* Queue: enqueue at or below the highest key is ignored *)
  else {| hwm := hwm s; buf := buf s; items := items s ++ [(k, b)]; fhigh := k; cursor := cursor s;
          leader := leader s; inflight := inflight s; fpers := fpers s; sent := sent s |}.

(* the batcher cuts the first n queued objects *)
Definition cut (s : node) (n : nat) : node :=
  match firstn n (buf s) with
  | [] => s
  | b => enqueue_batch (set_buf s (skipn n (buf s))) b
  end.

(* writeToBatcher for one group, batch size bsz: queue it, cut when the batch is full *)
Definition offer (bsz : nat) (s : node) (g : group) : node :=
  if negb (g_idx g =? 0) && (g_idx g <=? hwm s) then s
  else
    let s1 := set_buf s (buf s ++ [g]) in
    if Nat.eqb (List.length (buf s1)) bsz then cut s1 bsz else s1.

(* ---- events of a schedule ---- *)
Inductive ev :=
| Apply (i : N)        (* log entry i is applied: its groups reach writeToBatcher *)
| Flush                (* snapshot sync: the batcher is flushed *)
| Cut (n : nat)        (* the batcher's timer fires (or any other cut of the first n objects) *)
| Take                 (* leader loop receives from FIFO.C *)
| SendOK               (* the endpoint accepts the request *)
| SendFail             (* the endpoint fails; the leader loop will retry *)
| Prune                (* leaderHWMLoop tick *)
| Gain                 (* this node becomes leader *)
| Lose                 (* this node stops being leader *)
| HWMUpdate (h : N)    (* a high watermark broadcast arrives *)
| Restart.             (* process restart; the entries after the last snapshot are applied again by later Apply events *)

Definition step (l : log) (bsz : nat) (s : node) (e : ev) : node :=
  match e with
  | Apply i => fold_left (offer bsz) (groups_of l i) s
  | Flush => cut s (List.length (buf s))
  | Cut n => cut s n
  | Take =>
      if leader s then
        match inflight s with
        | Some _ => s
        | None =>
            match seek (cursor s) (items s) with
            | None => s
            | Some (k, b) =>
                {| hwm := hwm s; buf := buf s; items := items s; fhigh := fhigh s; cursor := k + 1; leader := true;
                   inflight := if k <=? hwm s then None else Some (k, b); fpers := fpers s; sent := sent s |}
            end
        end
      else s
  | SendOK =>
      match inflight s with
      | Some (k, b) =>
          {| hwm := k; buf := buf s; items := items s; fhigh := fhigh s; cursor := cursor s; leader := leader s;
             inflight := None; fpers := fpers s; sent := sent s ++ [(k, b)] |}
      | None => s
      end
  | SendFail => s
  | Prune =>
      if leader s && negb (hwm s =? 0) then
        {| hwm := hwm s; buf := buf s; items := fifo_delete (hwm s) (items s); fhigh := fhigh s;
           cursor := cursor_after_delete (cursor s) (hwm s); leader := leader s; inflight := inflight s;
           fpers := fpers s; sent := sent s |}
      else s
  | Gain => if leader s then s else
      {| hwm := hwm s; buf := buf s; items := items s; fhigh := fhigh s; cursor := cursor s; leader := true;
         inflight := None; fpers := fpers s; sent := sent s |}
  | Lose => if leader s then
      {| hwm := hwm s; buf := buf s; items := items s; fhigh := fhigh s; cursor := cursor s; leader := false;
         inflight := None; fpers := 0; sent := sent s |}
      else s
  | HWMUpdate h =>
      if leader s then s
      else if (h <=? fpers s) || (h =? 0) then s
      else {| hwm := h; buf := buf s; items := fifo_delete h (items s); fhigh := fhigh s;
              cursor := cursor_after_delete (cursor s) h; leader := false; inflight := None; fpers := h; sent := sent s |}
  | Restart =>
      let first := match items s with [] => 0 | it :: _ => fst it end in
      {| hwm := if first =? 0 then 0 else first - 1; buf := []; items := items s; fhigh := fhigh s; cursor := 0;
         leader := false; inflight := None; fpers := 0; sent := sent s |}
  end.

Definition run (l : log) (bsz : nat) (s : node) (es : list ev) : node := fold_left (step l bsz) es s.

(* ---- scenario level (what the driver does): after every action the service is left alone until it is
        quiescent; with the endpoint up a leader sends everything it is offered, then prunes ---- *)
Inductive action :=
| AApply (i : N)
| AFlush
| ALeader (b : bool)
| AEndpoint (up : bool)
| AHWM (h : N)
| ARestart.

Fixpoint settle (l : log) (bsz : nat) (fuel : nat) (up : bool) (s : node) : node :=
  match fuel with
  | O => s
  | S f =>
      if leader s then
        match inflight s with
        | Some _ => if up then settle l bsz f up (step l bsz s SendOK) else s
        | None =>
            match seek (cursor s) (items s) with
            | Some _ => settle l bsz f up (step l bsz s Take)
            | None => s
            end
        end
      else s
  end.

Definition act (l : log) (bsz : nat) (st : node * bool) (a : action) : node * bool :=
  let '(s, up) := st in
  let '(s1, up1) :=
    match a with
    | AApply i => (step l bsz s (Apply i), up)
    | AFlush => (step l bsz s Flush, up)
    | ALeader true => (step l bsz s Gain, up)
    | ALeader false => (step l bsz s Lose, up)
    | AEndpoint u => (s, u)
    | AHWM h => (step l bsz s (HWMUpdate h), up)
    | ARestart => (step l bsz s Restart, up)
    end in
  let s2 := settle l bsz (S (S (List.length (items s1))) * 2) up1 s1 in
  (step l bsz s2 Prune, up1).

Definition play (l : log) (bsz : nat) (acts : list action) : node := fst (fold_left (act l bsz) acts (init, true)).

(* ---- correspondence ---- *)
Definition group_eqb (a b : group) : bool :=
  (g_idx a =? g_idx b)
  && (fix go (x y : list rowev) : bool :=
        match x, y with
        | [], [] => true
        | p :: x', q :: y' => String.eqb p q && go x' y'
        | _, _ => false
        end) (g_evs a) (g_evs b).
Fixpoint list_eqb {A} (f : A -> A -> bool) (a b : list A) : bool :=
  match a, b with
  | [], [] => true
  | x :: a', y :: b' => f x y && list_eqb f a' b'
  | _, _ => false
  end.
Definition item_eqb (a b : N * batch) : bool := (fst a =? fst b) && list_eqb group_eqb (snd a) (snd b).

(* a case: the log, the batch size, the actions, and what was observed at the end:
   the requests the endpoint accepted (FIFO key and groups), the keys left in the FIFO, the high watermark *)
Record case := { c_log : log; c_bsz : nat; c_acts : list action;
                 c_sent : list (N * batch); c_keys : list N; c_hwm : N }.
Definition check_case (c : case) : bool :=
  let s := play (c_log c) (c_bsz c) (c_acts c) in
  list_eqb item_eqb (sent s) (c_sent c)
  && list_eqb N.eqb (map fst (items s)) (c_keys c)
  && (hwm s =? c_hwm c).
