(* C18 — property theorems only. *)
From Coq Require Import List String.
From RQ Require Import Model.C19 Model.C18 Proofs.C19 Proofs.C18.
Import ListNotations.
Open Scope string_scope.

(* An endpoint acts (state-changing or content-reading call) or streams database bytes only if the
   credential store grants its documented requirement to the presented credentials; an endpoint
   without a requirement does neither.  `partial`: HIGHWATER_MARK_UPDATE excluded (C18_hwm_refuted). *)
Theorem C18_enforced_partial : forall name h perm_ok voter pnil mok,
  term_of name = Some h -> name <> hwm ->
  sensitive (run (holds perm_ok voter) pnil mok h) = true ->
  match required name with
  | Some g => holds perm_ok voter g = true
  | None => False
  end.
Proof. exact enforced_partial. Qed.
Print Assumptions C18_enforced_partial.

(* The same in terms of the credentials file (C19's documented rule). *)
Theorem C18_enforced_file_partial : forall name h file u p perm voter pnil mok,
  term_of name = Some h -> required name = Some (GPerm perm) ->
  sensitive (run (holds (authz (Some (load file)) u p) voter) pnil mok h) = true ->
  authorized file u p perm.
Proof. exact enforced_file_partial. Qed.
Print Assumptions C18_enforced_file_partial.

(* Not authorized: no call into store or manager, and the wire carries exactly one error response —
   nothing before it, nothing after it. *)
Theorem C18_unauthorized_is_silent : forall name h g perm_ok voter pnil mok,
  term_of name = Some h -> required name = Some g -> holds perm_ok voter g = false ->
  let r := run (holds perm_ok voter) pnil mok h in
  s_calls r = [] /\ s_crash r = false /\ exists m, m <> "" /\ s_out r = [OFrame m].
Proof. exact unauthorized_is_silent. Qed.
Print Assumptions C18_unauthorized_is_silent.

(* The full statement fails for the high-water-mark broadcast: it acts under a store that grants
   nothing to anybody. *)
Theorem C18_hwm_refuted :
  exists h, term_of hwm = Some h /\
  (forall u p perm, authz (Some (load [])) u p perm = false) /\
  forall u p, sensitive (run (holds (authz (Some (load [])) u p) true) false true h) = true.
Proof. exact hwm_refuted. Qed.
Print Assumptions C18_hwm_refuted.

(* A connection does exactly what its requests do when each is run alone against the same store:
   the model carries no authorization state from one request to the next (the tie checks the real
   services on multi-request connections against this). *)
Theorem C18_connection_is_map : forall st qs cs os,
  conn_loop st qs [] [] = Some (cs, os) ->
  exists hs, map (run_request st) qs = map Some hs /\
             cs = List.concat (map s_calls hs) /\ os = List.concat (map s_out hs).
Proof. exact connection_is_map. Qed.
Print Assumptions C18_connection_is_map.
