(* C11 — proofs.  Property text: reaping waits until no stream is open; a stalled stream is
   force-closed after its idle timeout so reaping can proceed; each stream releases its hold
   exactly once however it is closed; an open stream never coexists with a reap. *)
From Coq Require Import List String Bool ZArith Arith Lia Permutation.
From Coq Require Import ZifyBool ZifyNat.
From RQ Require Import Lib.C34_Sched Model.C34 Proofs.C34 Model.C11.
Import ListNotations.
Open Scope string_scope.

Definition blk (l : mrsw) : list (nat * wkind) := (m_wait l ++ m_woken l)%list.

(* ------------------------------------------------------------------ effects of lock calls *)
Lemma remove1_In_other : forall a b l, In a l -> a <> b -> In a (remove1 b l).
Proof.
  induction l as [|x l IH]; intros Hin Hne; [destruct Hin|].
  cbn [remove1]. destruct (Nat.eqb x b) eqn:E.
  - apply Nat.eqb_eq in E. subst x. destruct Hin as [->|H]; [contradiction|exact H].
  - destruct Hin as [->|H]; [left; reflexivity|right; apply IH; assumption].
Qed.

Lemma remove1_In_sub : forall a b l, In a (remove1 b l) -> In a l.
Proof.
  induction l as [|x l IH]; intros Hin; [destruct Hin|].
  cbn [remove1] in Hin. destruct (Nat.eqb x b); [right; exact Hin|].
  destruct Hin as [->|H]; [left; reflexivity|right; apply IH; exact H].
Qed.

Lemma not_blocked : forall l t, (forall u k, In (u, k) (blk l) -> u = tid_loop) -> t <> tid_loop ->
  is_blocked l t = false.
Proof.
  intros l t H Hne. unfold is_blocked. apply orb_false_iff. split; apply memn_false; intros Hin;
    apply in_map_iff in Hin as ([u k] & He & Hin); cbn in He; subst u; apply Hne; apply (H t k);
    unfold blk; apply in_or_app; [left|right]; exact Hin.
Qed.

Lemma lock_endread : forall l t, linv l -> In t (m_rd l) -> is_blocked l t = false ->
  let r := mrsw_step_obs l (MEndRead t) in
  snd r = Ok /\ linv (fst r) /\ m_rd (fst r) = remove1 t (m_rd l) /\ m_wr (fst r) = m_wr l /\
  m_nr (fst r) = (m_nr l - 1)%Z /\ m_owner (fst r) = m_owner l /\
  (forall x, In x (blk (fst r)) <-> In x (blk l)).
Proof.
  intros l t Hinv Hin Hnb r.
  assert (Hen : mrsw_enabled l (MEndRead t) = true).
  { cbn [mrsw_enabled]. rewrite Hnb. apply memn_In in Hin. now rewrite Hin. }
  pose proof (mrsw_linv_step l _ Hinv Hen) as Hinv'. unfold mrsw_step in Hinv'. fold r in Hinv'.
  pose proof (remove1_length t (m_rd l) Hin) as Hlen. pose proof (i_nr l Hinv) as Hnr.
  subst r. cbn [mrsw_step_obs] in *. cbn [m_nr] in *.
  destruct (m_nr l - 1 <? 0)%Z eqn:E1; [lia|].
  destruct (m_nr l - 1 =? 0)%Z eqn:E2; cbn [fst snd broadcast m_rd m_wr m_nr m_owner m_wait m_woken] in *.
  - split; [reflexivity|]. split; [exact Hinv'|]. do 4 (split; [reflexivity|]).
    intros x. unfold blk, broadcast; cbn [m_wait m_woken app]. split; intros Hx;
      apply in_app_or in Hx; apply in_or_app; tauto.
  - split; [reflexivity|]. split; [exact Hinv'|]. do 4 (split; [reflexivity|]).
    intros x. split; intros Hx; exact Hx.
Qed.

Lemma lock_endwrite : forall l t, linv l -> In t (m_wr l) -> is_blocked l t = false ->
  let r := mrsw_step_obs l (MEndWrite t) in
  snd r = Ok /\ linv (fst r) /\ m_rd (fst r) = m_rd l /\ m_wr (fst r) = remove1 t (m_wr l) /\
  m_nr (fst r) = m_nr l /\ m_owner (fst r) = "" /\
  (forall x, In x (blk (fst r)) <-> In x (blk l)).
Proof.
  intros l t Hinv Hin Hnb r.
  assert (Hen : mrsw_enabled l (MEndWrite t) = true).
  { cbn [mrsw_enabled]. rewrite Hnb. apply memn_In in Hin. now rewrite Hin. }
  pose proof (mrsw_linv_step l _ Hinv Hen) as Hinv'. unfold mrsw_step in Hinv'. fold r in Hinv'.
  assert (Hh : is_empty (m_owner l) = false).
  { destruct (is_empty (m_owner l)) eqn:E; [|reflexivity].
    rewrite (i_free l Hinv) in Hin; [destruct Hin|]. rewrite E. reflexivity. }
  subst r. cbn [mrsw_step_obs] in *. rewrite Hh in *.
  cbn [fst snd broadcast m_rd m_wr m_nr m_owner m_wait m_woken] in *.
  split; [reflexivity|]. split; [exact Hinv'|]. do 4 (split; [reflexivity|]).
  intros x. unfold blk, broadcast; cbn [m_wait m_woken app]. split; intros Hx;
    apply in_app_or in Hx; apply in_or_app; tauto.
Qed.

(* ------------------------------------------------------------------ list helpers *)
Lemma nholding_app : forall l st, nholding (l ++ [st]) = nholding l + (if holding st then 1 else 0).
Proof.
  intros l st. unfold nholding. rewrite filter_app, app_length. cbn [filter].
  destruct (holding st); cbn; lia.
Qed.

Lemma nth_error_upd : forall f l i j,
  nth_error (upd_nth i f l) j = if Nat.eqb j i then option_map f (nth_error l i) else nth_error l j.
Proof.
  induction l as [|x l IH]; intros i j.
  - cbn [upd_nth]. destruct (Nat.eqb j i) eqn:E; destruct i, j; cbn; try reflexivity; discriminate.
  - destruct i as [|i]; destruct j as [|j]; cbn [upd_nth nth_error Nat.eqb option_map]; try reflexivity.
    apply IH.
Qed.

Lemma nholding_upd : forall f l i st, nth_error l i = Some st -> holding st = true -> holding (f st) = false ->
  S (nholding (upd_nth i f l)) = nholding l.
Proof.
  unfold nholding. induction l as [|x l IH]; intros i st Hn Hh Hf; [destruct i; discriminate|].
  destruct i as [|i]; cbn [nth_error upd_nth filter] in *.
  - injection Hn as ->. rewrite Hh, Hf. reflexivity.
  - destruct (holding x); cbn [List.length]; rewrite <- (IH i st Hn Hh Hf); reflexivity.
Qed.

(* ------------------------------------------------------------------ the invariant *)
Definition wr_expected (s : sstore) : list nat :=
  if manual s then [tid_reap] else match loop s with LReaping => [tid_loop] | _ => [] end.

Definition stream_ok (st : stream) : Prop :=
  s_released st = (if s_opened st && s_closed st then 1 else 0) /\
  (s_closed st = true -> s_opened st = true) /\ (s_timedout st = true -> s_closed st = true).

Record cinv (s : sstore) : Prop := {
  k_lock : linv (lk s);
  k_nr : m_nr (lk s) = Z.of_nat (nholding (strs s));
  k_hold : forall i st, nth_error (strs s) i = Some st -> holding st = true -> In (tid_stream i) (m_rd (lk s));
  k_wr : m_wr (lk s) = wr_expected s;
  k_excl : manual s = true -> loop s <> LReaping;
  k_blk : forall t k, In (t, k) (blk (lk s)) -> t = tid_loop /\ k = WW "reap" /\ loop s = LWaiting;
  k_wait : loop s = LWaiting -> In (tid_loop, WW "reap") (blk (lk s));
  k_str : forall i st, nth_error (strs s) i = Some st -> stream_ok st }.

Lemma cinv_init : cinv sinit.
Proof.
  constructor; cbn; try reflexivity; try discriminate.
  - exact mrsw_init_linv.
  - intros [|i] st H; discriminate.
  - intros t k [].
  - intros [|i] st H; discriminate.
Qed.

Lemma blk_tid : forall s, cinv s -> forall u k, In (u, k) (blk (lk s)) -> u = tid_loop.
Proof. intros s H u k Hin. apply (k_blk s H u k Hin). Qed.

Lemma stream_not_blocked : forall s i, cinv s -> is_blocked (lk s) (tid_stream i) = false.
Proof. intros s i H. apply not_blocked; [apply blk_tid; exact H|discriminate]. Qed.

Lemma reap_not_blocked : forall s, cinv s -> is_blocked (lk s) tid_reap = false.
Proof. intros s H. apply not_blocked; [apply blk_tid; exact H|discriminate]. Qed.

Lemma loop_not_blocked : forall s, cinv s -> loop s <> LWaiting -> is_blocked (lk s) tid_loop = false.
Proof.
  intros s H Hne. unfold is_blocked. apply orb_false_iff. split; apply memn_false; intros Hin;
    apply in_map_iff in Hin as ([u k] & He & Hin); cbn in He; subst u; apply Hne;
    apply (k_blk s H tid_loop k); unfold blk; apply in_or_app; [left|right]; exact Hin.
Qed.

(* releasing stream i (Close or idle fire of a stream that still holds) *)
Lemma release_cinv : forall s i st b, cinv s -> nth_error (strs s) i = Some st -> holding st = true ->
  cinv (fst (release_stream s i b)) /\ snd (release_stream s i b) = OOk.
Proof.
  intros s i st b Hc Hn Hh.
  pose proof (k_hold s Hc i st Hn Hh) as Hin.
  destruct (lock_endread (lk s) (tid_stream i) (k_lock s Hc) Hin (stream_not_blocked s i Hc))
    as (Hobs & Hlinv & Hrd & Hwr & Hnr & Hown & Hblk).
  unfold release_stream. destruct (mrsw_step_obs (lk s) (MEndRead (tid_stream i))) as [l1 o] eqn:E.
  cbn [fst snd] in *. subst o. split; [|reflexivity].
  set (f := fun st0 : stream => {| s_opened := s_opened st0; s_closed := true; s_timedout := b;
                                   s_released := S (s_released st0) |}).
  assert (Hopen : s_opened st = true /\ s_closed st = false).
  { unfold holding in Hh. apply andb_true_iff in Hh as [A B]. apply negb_true_iff in B. split; assumption. }
  destruct Hopen as [Ho Hcl].
  assert (Hf : holding (f st) = false) by (unfold holding, f; cbn; rewrite Ho; reflexivity).
  constructor; cbn [set_strs set_lk lk strs manual loop nsnap].
  - exact Hlinv.
  - rewrite Hnr, (k_nr s Hc). rewrite <- (nholding_upd f (strs s) i st Hn Hh Hf). lia.
  - intros j st' Hj Hh'. rewrite nth_error_upd in Hj. destruct (Nat.eqb j i) eqn:Ej.
    + rewrite Hn in Hj. cbn in Hj. injection Hj as <-. rewrite Hf in Hh'. discriminate.
    + rewrite Hrd. apply remove1_In_other; [apply (k_hold s Hc j st' Hj Hh')|].
      unfold tid_stream. apply Nat.eqb_neq in Ej. lia.
  - rewrite Hwr. exact (k_wr s Hc).
  - exact (k_excl s Hc).
  - intros t k Hi. apply Hblk in Hi. exact (k_blk s Hc t k Hi).
  - intros Hw. apply Hblk. exact (k_wait s Hc Hw).
  - intros j st' Hj. rewrite nth_error_upd in Hj. destruct (Nat.eqb j i) eqn:Ej.
    + rewrite Hn in Hj. cbn in Hj. injection Hj as <-.
      destruct (k_str s Hc i st Hn) as (R & _ & _). unfold stream_ok, f. cbn.
      rewrite Ho, Hcl in R. cbn in R. rewrite R, Ho. cbn. repeat split; auto.
    + exact (k_str s Hc j st' Hj).
Qed.

Lemma held_iff_wr : forall l, linv l -> (is_empty (m_owner l) = false <-> m_wr l <> []).
Proof.
  intros l Hl. split.
  - intros Hh. destruct (i_own l Hl) as [_ [t Ht]]; [rewrite Hh; reflexivity|]. rewrite Ht. discriminate.
  - intros Hne. destruct (is_empty (m_owner l)) eqn:E; [|reflexivity].
    exfalso. apply Hne. apply (i_free l Hl). rewrite E. reflexivity.
Qed.

Lemma acquire_blk : forall l t k, blk (acquire l t k) = blk l.
Proof. intros l t k. destruct k; reflexivity. Qed.

Lemma cinv_step : forall s a, cinv s -> senabled s a = true -> cinv (sstep s a).
Proof.
  intros s a Hc Hen. unfold sstep. pose proof (k_lock s Hc) as Hl.
  destruct a as [|i|i|i|i| | | | | | |]; cbn [sstep_obs senabled] in *.
  - (* Open *)
    cbn [mrsw_step_obs]. destruct (negb (is_empty (m_owner (lk s)))) eqn:Hh; cbn [fst].
    + (* conflict: an entry that never held anything *)
      constructor; cbn [set_strs set_lk lk strs manual loop nsnap]; try apply Hc.
      * rewrite nholding_app. cbn. rewrite Nat.add_0_r. apply Hc.
      * intros j st Hj Hhd. destruct (Nat.lt_ge_cases j (List.length (strs s))) as [Hlt|Hge].
        -- rewrite nth_error_app1 in Hj by exact Hlt. apply (k_hold s Hc j st Hj Hhd).
        -- rewrite nth_error_app2 in Hj by exact Hge.
           destruct (j - List.length (strs s)) as [|[|n]]; cbn in Hj; try discriminate.
           injection Hj as <-. discriminate.
      * intros j st Hj. destruct (Nat.lt_ge_cases j (List.length (strs s))) as [Hlt|Hge].
        -- rewrite nth_error_app1 in Hj by exact Hlt. apply (k_str s Hc j st Hj).
        -- rewrite nth_error_app2 in Hj by exact Hge.
           destruct (j - List.length (strs s)) as [|[|n]]; cbn in Hj; try discriminate.
           injection Hj as <-. unfold stream_ok. cbn. repeat split; auto; discriminate.
    + assert (Hl' : linv (acquire (lk s) (tid_stream (List.length (strs s))) WR)).
      { apply acquire_linv; [exact Hl|exact Hh|exact I]. }
      constructor; cbn [set_strs set_lk lk strs manual loop nsnap].
      * exact Hl'.
      * rewrite nholding_app. cbn [acquire m_nr holding s_opened s_closed andb negb]. rewrite (k_nr s Hc). lia.
      * intros j st Hj Hhd. cbn [acquire m_rd].
        destruct (Nat.lt_ge_cases j (List.length (strs s))) as [Hlt|Hge].
        -- rewrite nth_error_app1 in Hj by exact Hlt. right. apply (k_hold s Hc j st Hj Hhd).
        -- rewrite nth_error_app2 in Hj by exact Hge.
           destruct (j - List.length (strs s)) as [|[|n]] eqn:En; cbn in Hj; try discriminate.
           left. f_equal. f_equal. lia.
      * cbn [acquire m_wr]. apply Hc.
      * apply Hc.
      * intros t k Hi. rewrite acquire_blk in Hi. apply (k_blk s Hc t k Hi).
      * intros Hw. rewrite acquire_blk. apply (k_wait s Hc Hw).
      * intros j st Hj. destruct (Nat.lt_ge_cases j (List.length (strs s))) as [Hlt|Hge].
        -- rewrite nth_error_app1 in Hj by exact Hlt. apply (k_str s Hc j st Hj).
        -- rewrite nth_error_app2 in Hj by exact Hge.
           destruct (j - List.length (strs s)) as [|[|n]]; cbn in Hj; try discriminate.
           injection Hj as <-. unfold stream_ok. cbn. repeat split; auto; discriminate.
  - (* Read *)
    destruct (nth_error (strs s) i) as [st|]; [|exact Hc].
    destruct (negb (s_opened st)); [exact Hc|]. destruct (s_timedout st); [exact Hc|].
    destruct (s_closed st); exact Hc.
  - (* Close *)
    destruct (nth_error (strs s) i) as [st|] eqn:Hn; [|exact Hc].
    destruct (negb (s_opened st)) eqn:Ho; [exact Hc|]. destruct (s_closed st) eqn:Hcl; [exact Hc|].
    apply (release_cinv s i st (s_timedout st) Hc Hn). unfold holding. apply negb_false_iff in Ho.
    rewrite Ho, Hcl. reflexivity.
  - (* idle fire *)
    destruct (nth_error (strs s) i) as [st|] eqn:Hn; [|exact Hc].
    destruct (negb (s_opened st)) eqn:Ho; [exact Hc|]. destruct (s_closed st) eqn:Hcl; [exact Hc|].
    apply (release_cinv s i st true Hc Hn). unfold holding. apply negb_false_iff in Ho.
    rewrite Ho, Hcl. reflexivity.
  - (* early fire *)
    destruct (nth_error (strs s) i) as [st|]; [|exact Hc]. destruct (negb (s_opened st)); exact Hc.
  - (* Create *)
    cbn [fst]. destruct Hc. constructor; assumption.
  - (* Store.Reap enters *)
    apply negb_true_iff in Hen. cbn [mrsw_step_obs is_empty String.eqb tid_reap].
    replace (is_empty "reap") with false by reflexivity.
    destruct (negb (is_empty (m_owner (lk s)))) eqn:Hh; cbn [fst]; [exact Hc|].
    destruct (0 <? m_nr (lk s))%Z eqn:Hz; cbn [fst]; [exact Hc|].
    assert (Hl' : linv (acquire (lk s) 1 (WW "reap"))).
    { apply acquire_linv; [exact Hl| |reflexivity]. rewrite guard_WW, Hh, Hz. reflexivity. }
    assert (Hwr0 : m_wr (lk s) = []) by (apply (i_free _ Hl); exact Hh).
    assert (Hlp : loop s <> LReaping).
    { intros E. pose proof (k_wr s Hc) as W. unfold wr_expected in W. rewrite Hen, E, Hwr0 in W. discriminate. }
    constructor; cbn [set_manual set_lk lk strs manual loop nsnap].
    + exact Hl'.
    + apply Hc.
    + intros j st Hj Hhd. apply (k_hold s Hc j st Hj Hhd).
    + cbn [acquire m_wr]. unfold wr_expected. cbn [manual]. rewrite Hwr0. reflexivity.
    + intros _. exact Hlp.
    + intros t k Hi. rewrite acquire_blk in Hi. apply (k_blk s Hc t k Hi).
    + intros Hw. rewrite acquire_blk. apply (k_wait s Hc Hw).
    + apply Hc.
  - (* Store.Reap leaves *)
    assert (Hwr : m_wr (lk s) = [tid_reap]).
    { rewrite (k_wr s Hc). unfold wr_expected. rewrite Hen. reflexivity. }
    destruct (lock_endwrite (lk s) tid_reap Hl) as (Hobs & Hlinv & Hrd & Hwr' & Hnr & Hown & Hblk);
      [rewrite Hwr; left; reflexivity|apply reap_not_blocked; exact Hc|].
    destruct (mrsw_step_obs (lk s) (MEndWrite tid_reap)) as [l1 o] eqn:E. cbn [fst snd] in *. subst o.
    cbn [fst]. constructor; cbn [set_manual set_lk lk strs manual loop nsnap].
    + exact Hlinv.
    + rewrite Hnr. apply Hc.
    + intros j st Hj Hhd. rewrite Hrd. apply (k_hold s Hc j st Hj Hhd).
    + rewrite Hwr', Hwr. unfold wr_expected. cbn [manual remove1 tid_reap Nat.eqb].
      pose proof (k_excl s Hc Hen) as Hx. destruct (loop s); try reflexivity. contradiction.
    + discriminate.
    + intros t k Hi. apply Hblk in Hi. apply (k_blk s Hc t k Hi).
    + intros Hw. apply Hblk. apply (k_wait s Hc Hw).
    + apply Hc.
  - (* reapLoop: BeginWriteBlocking *)
    assert (Hidle : loop s = LIdle) by (destruct (loop s); [reflexivity|discriminate|discriminate]).
    assert (Hnb : ~ In tid_loop (map fst (m_wait (lk s) ++ m_woken (lk s)))).
    { apply not_blocked_nin. apply loop_not_blocked; [exact Hc|rewrite Hidle; discriminate]. }
    cbn [mrsw_step_obs]. replace (is_empty "reap") with false by reflexivity.
    unfold try_blocking. destruct (guard_blocked (lk s) (WW "reap")) eqn:Hg; cbn [fst].
    + (* parks *)
      assert (Hl' : linv (park (lk s) tid_loop (WW "reap"))) by (apply park_linv; [exact Hl|exact Hg|reflexivity|exact Hnb]).
      constructor; cbn [set_loop set_lk lk strs manual loop nsnap].
      * exact Hl'.
      * apply Hc.
      * intros j st Hj Hhd. apply (k_hold s Hc j st Hj Hhd).
      * cbn [park m_wr]. rewrite (k_wr s Hc). unfold wr_expected. cbn [manual loop]. rewrite Hidle. reflexivity.
      * discriminate.
      * intros t k Hi. unfold blk in Hi. cbn [park m_wait m_woken] in Hi. rewrite <- app_assoc in Hi.
        apply in_app_or in Hi as [Hi|Hi].
        -- exfalso. destruct (k_blk s Hc t k) as (_ & _ & W); [unfold blk; apply in_or_app; left; exact Hi|].
           rewrite Hidle in W. discriminate.
        -- cbn [app] in Hi. destruct Hi as [He|Hi].
           ++ injection He as <- <-. repeat split; reflexivity.
           ++ exfalso. destruct (k_blk s Hc t k) as (_ & _ & W); [unfold blk; apply in_or_app; right; exact Hi|].
              rewrite Hidle in W. discriminate.
      * intros _. unfold blk. cbn [park m_wait m_woken]. apply in_or_app. left. apply in_or_app. right. left. reflexivity.
      * apply Hc.
    + (* acquires at once *)
      assert (Hl' : linv (acquire (lk s) tid_loop (WW "reap"))) by (apply acquire_linv; [exact Hl|exact Hg|reflexivity]).
      rewrite guard_WW in Hg. apply orb_false_iff in Hg as [Hh Hz].
      assert (Hwr0 : m_wr (lk s) = []) by (apply (i_free _ Hl); exact Hh).
      assert (Hman : manual s = false).
      { destruct (manual s) eqn:E; [|reflexivity]. pose proof (k_wr s Hc) as W. unfold wr_expected in W.
        rewrite E, Hwr0 in W. discriminate. }
      constructor; cbn [set_loop set_lk lk strs manual loop nsnap].
      * exact Hl'.
      * apply Hc.
      * intros j st Hj Hhd. apply (k_hold s Hc j st Hj Hhd).
      * cbn [acquire m_wr]. unfold wr_expected. cbn [manual loop]. rewrite Hman, Hwr0. reflexivity.
      * rewrite Hman. discriminate.
      * intros t k Hi. rewrite acquire_blk in Hi. exfalso. destruct (k_blk s Hc t k Hi) as (_ & _ & W).
        rewrite Hidle in W. discriminate.
      * discriminate.
      * apply Hc.
  - (* reapLoop: woken, re-evaluates its guard *)
    apply andb_true_iff in Hen as [Hph Hw].
    assert (Hwait : loop s = LWaiting) by (destruct (loop s); [discriminate|reflexivity|discriminate]).
    apply memn_In in Hw. destruct (find_w_some _ _ Hw) as [k Hf].
    assert (Hk : k = WW "reap").
    { apply find_w_In in Hf. destruct (k_blk s Hc tid_loop k) as (_ & K & _); [unfold blk; apply in_or_app; right; exact Hf|exact K]. }
    subst k. cbn [mrsw_step_obs]. rewrite Hf. fold (unwoken (lk s) tid_loop).
    destruct (unwoken_linv (lk s) tid_loop (WW "reap") Hl Hf) as (Hl1 & _ & Hnin).
    pose proof (remove_w_perm _ _ _ Hf) as Hperm.
    assert (Hsub : forall x, In x (blk (unwoken (lk s) tid_loop)) -> In x (blk (lk s))).
    { intros x Hx. unfold blk in *. cbn [unwoken m_wait m_woken] in Hx. apply in_app_or in Hx as [Hx|Hx];
        apply in_or_app; [left; exact Hx|right]. eapply Permutation_in; [apply Permutation_sym; exact Hperm|].
      right. exact Hx. }
    unfold try_blocking. destruct (guard_blocked (unwoken (lk s) tid_loop) (WW "reap")) eqn:Hg; cbn [fst].
    + assert (Hl' : linv (park (unwoken (lk s) tid_loop) tid_loop (WW "reap"))) by (apply park_linv; [exact Hl1|exact Hg|reflexivity|exact Hnin]).
      constructor; cbn [set_loop set_lk lk strs manual loop nsnap].
      * exact Hl'.
      * apply Hc.
      * intros j st Hj Hhd. apply (k_hold s Hc j st Hj Hhd).
      * cbn [park unwoken m_wr]. rewrite (k_wr s Hc). unfold wr_expected. cbn [manual loop]. rewrite Hwait. reflexivity.
      * discriminate.
      * intros t k Hi. unfold blk in Hi. cbn [park m_wait m_woken] in Hi. rewrite <- app_assoc in Hi.
        apply in_app_or in Hi as [Hi|Hi].
        -- destruct (k_blk s Hc t k) as (A & B & _); [apply Hsub; unfold blk; apply in_or_app; left; exact Hi|]. auto.
        -- cbn [app] in Hi. destruct Hi as [He|Hi].
           ++ injection He as <- <-. repeat split; reflexivity.
           ++ destruct (k_blk s Hc t k) as (A & B & _); [apply Hsub; unfold blk; apply in_or_app; right; exact Hi|]. auto.
      * intros _. unfold blk. cbn [park m_wait m_woken]. apply in_or_app. left. apply in_or_app. right. left. reflexivity.
      * apply Hc.
    + assert (Hl' : linv (acquire (unwoken (lk s) tid_loop) tid_loop (WW "reap"))) by (apply acquire_linv; [exact Hl1|exact Hg|reflexivity]).
      rewrite guard_WW in Hg. apply orb_false_iff in Hg as [Hh Hz]. cbn [unwoken m_owner m_nr] in Hh, Hz.
      assert (Hwr0 : m_wr (lk s) = []) by (apply (i_free _ Hl); exact Hh).
      assert (Hman : manual s = false).
      { destruct (manual s) eqn:E; [|reflexivity]. pose proof (k_wr s Hc) as W. unfold wr_expected in W.
        rewrite E, Hwr0 in W. discriminate. }
      constructor; cbn [set_loop set_lk lk strs manual loop nsnap].
      * exact Hl'.
      * apply Hc.
      * intros j st Hj Hhd. apply (k_hold s Hc j st Hj Hhd).
      * cbn [acquire unwoken m_wr]. unfold wr_expected. cbn [manual loop]. rewrite Hman, Hwr0. reflexivity.
      * rewrite Hman. discriminate.
      * intros t k Hi. rewrite acquire_blk in Hi. exfalso.
        destruct (k_blk s Hc t k (Hsub _ Hi)) as (A & B & _). subst t k.
        apply Hnin. apply (in_map fst) in Hi. exact Hi.
      * discriminate.
      * apply Hc.
  - (* reapLoop: EndWrite *)
    assert (Hre : loop s = LReaping) by (destruct (loop s); [discriminate|discriminate|reflexivity]).
    assert (Hman : manual s = false).
    { destruct (manual s) eqn:E; [|reflexivity]. exfalso. apply (k_excl s Hc E). exact Hre. }
    assert (Hwr : m_wr (lk s) = [tid_loop]).
    { rewrite (k_wr s Hc). unfold wr_expected. rewrite Hman, Hre. reflexivity. }
    destruct (lock_endwrite (lk s) tid_loop Hl) as (Hobs & Hlinv & Hrd & Hwr' & Hnr & Hown & Hblk);
      [rewrite Hwr; left; reflexivity|apply loop_not_blocked; [exact Hc|rewrite Hre; discriminate]|].
    destruct (mrsw_step_obs (lk s) (MEndWrite tid_loop)) as [l1 o] eqn:E. cbn [fst snd] in *. subst o.
    cbn [fst]. constructor; cbn [set_loop set_lk lk strs manual loop nsnap].
    + exact Hlinv.
    + rewrite Hnr. apply Hc.
    + intros j st Hj Hhd. rewrite Hrd. apply (k_hold s Hc j st Hj Hhd).
    + rewrite Hwr', Hwr. unfold wr_expected. cbn [manual loop]. rewrite Hman. reflexivity.
    + discriminate.
    + intros t k Hi. apply Hblk in Hi. exfalso. destruct (k_blk s Hc t k Hi) as (_ & _ & W). rewrite Hre in W. discriminate.
    + discriminate.
    + apply Hc.
  - (* tick *)
    exact Hc.
Qed.

Lemma cinv_reach : forall l s, run senabled sstep sinit l = Some s -> cinv s.
Proof.
  intros l s. apply (invariant_rule senabled sstep cinv); [exact cinv_init|exact cinv_step].
Qed.
