package store

// C22 driver: histories mixing writes, loads of generated WAL-/DELETE-mode databases, SQL-text loads, loads of
// invalid data (empty, truncated, header only, header + garbage, intact first pages + garbage, not SQLite), boots, snapshots and restarts of
// any node (also with failing persist outcomes, a checkpoint blocked by a reader, log compaction, unclean stops) and nodes that join later, on an in-process cluster of one voter and up to two read-only nodes.
// After every step every node's database, FULL_NEEDED flag and snapshot catalog are observed.  The Coq model
// (Model/C22.v) runs the same history; the oracle (property text) is written below in Go.

import (
	"context"
	"encoding/json"
	"fmt"
	"math/rand"
	"os"
	"path/filepath"
	"strings"
	"testing"
	"time"

	"github.com/hashicorp/raft"
	"github.com/rqlite/rqlite/v10/command/proto"
)

type c22Op struct {
	Kind    string `json:"kind"`              // write | load | loadsql | loadbad | boot | snap | restart | join
	Keys    []int  `json:"keys,omitempty"`    // write
	Val     int    `json:"val,omitempty"`     // write
	Data    []int  `json:"data,omitempty"`    // load / loadsql / boot
	Wal     bool   `json:"wal,omitempty"`     // load / boot: journal mode of the generated file
	Bad     string `json:"bad,omitempty"`     // loadbad: empty | truncated | header | garbage | pagegarbage | nonsqlite
	Node    int    `json:"node,omitempty"`    // snap / restart
	Out     string `json:"out,omitempty"`     // snap: "" (ok) | notinvoked | failbefore | blocked (checkpoint blocked by a reader)
	Compact bool   `json:"compact,omitempty"` // snap of node 0: raft keeps one trailing log entry (later joiners need a snapshot install)
	Force   bool   `json:"force,omitempty"`   // restart: unclean stop, the database is rebuilt from the snapshot store
}

type c22Input struct {
	Ops []c22Op `json:"ops"`
}

type c22Run struct {
	base    string
	scratch string
	nodes   []*vsNode
	entries []c04Entry       // only the raft indices are used (projection of snapshot indices)
	pend    map[int]*c22Pend // per node: snapshot created (fsmSnapshot) and not yet persisted / released
	spec    []int
}

type c22Pend struct {
	f         raft.FSMSnapshot
	idx, term uint64
}

func (r *c22Run) leader() *vsNode { return r.nodes[0] }

func (r *c22Run) project(idx uint64) int {
	c := 0
	for _, e := range r.entries {
		if e.Idx <= idx {
			c++
		}
	}
	return c
}

// wait until every node's FSM has applied every entry issued so far (raft's AppliedIndex runs ahead of the
// FSM goroutine, so the store's own fsmIdx is polled)
func (r *c22Run) settle() error {
	l := r.leader().s
	if err := l.raft.Barrier(90 * time.Second).Error(); err != nil {
		return err
	}
	var want uint64
	for _, e := range r.entries {
		if e.Idx > want {
			want = e.Idx
		}
	}
	if li := l.fsmIdx.Load(); li < want {
		want = li // the recorded index of a load is an upper bound
	}
	dl := time.Now().Add(90 * time.Second)
	last := l.raft.LastIndex()
	for _, n := range r.nodes[1:] {
		// configuration entries too: a snapshot is refused while one is committed but not yet applied
		for n.s.raft.AppliedIndex() < last {
			if time.Now().After(dl) {
				return fmt.Errorf("node %s did not catch up (applied %d, want %d)", n.id, n.s.raft.AppliedIndex(), last)
			}
			time.Sleep(10 * time.Millisecond)
		}
		for n.s.fsmIdx.Load() < want {
			if time.Now().After(dl) {
				return fmt.Errorf("node %s did not catch up (fsm index %d, want %d)", n.id, n.s.fsmIdx.Load(), want)
			}
			time.Sleep(10 * time.Millisecond)
		}
	}
	return nil
}

func (r *c22Run) join(i int) error {
	id := fmt.Sprintf("n%d", i)
	n := vsNewNode(filepath.Join(r.base, id), id)
	if err := n.s.Open(); err != nil {
		return err
	}
	if i < len(r.nodes) {
		r.nodes[i] = n
	} else {
		r.nodes = append(r.nodes, n)
	}
	// read-only node: the voter stays the leader whatever the others do
	return r.leader().s.Join(&proto.JoinRequest{Id: id, Address: n.s.Addr(), Voter: false})
}

func c22BadData(kind string, valid []byte, rng *rand.Rand) []byte {
	switch kind {
	case "empty":
		return []byte{}
	case "truncated":
		return append([]byte{}, valid[:len(valid)*6/10]...)
	case "header":
		return append([]byte{}, valid[:100]...)
	case "pagegarbage":
		// header, schema page and the table's root page intact, every later page overwritten: SQLite opens it
		b := append([]byte{}, valid[:8192]...)
		g := make([]byte, len(valid)-8192)
		rng.Read(g)
		return append(b, g...)
	case "garbage":
		b := append([]byte{}, valid[:100]...)
		g := make([]byte, len(valid)-100)
		rng.Read(g)
		return append(b, g...)
	default:
		return []byte("this is not a SQLite database, it only pretends to be a file with some length to it\n")
	}
}

// returns the model's result code (0, 1, 3, 5, 6) or an error for the harness
func (r *c22Run) step(op c22Op, rng *rand.Rand) (int, string, error) {
	l := r.leader()
	switch op.Kind {
	case "write":
		stmts := vsCellStmts(op.Keys, op.Val)
		idx, err := l.exec(stmts)
		if err != nil {
			return 0, "", err
		}
		r.entries = append(r.entries, c04Entry{Idx: idx})
		for _, k := range op.Keys {
			r.spec[k-1] = op.Val
		}
	case "loadsql":
		stmts := []string{"DROP TABLE IF EXISTS t", vsTableDDL}
		for i, v := range op.Data {
			if v != 0 {
				stmts = append(stmts, vsCellStmts([]int{i + 1}, v)...)
			}
		}
		idx, err := l.exec(stmts)
		if err != nil {
			return 0, "", err
		}
		r.entries = append(r.entries, c04Entry{Idx: idx})
		copy(r.spec, op.Data)
	case "load", "loadbad":
		p := filepath.Join(r.scratch, "load.db")
		data := op.Data
		if op.Kind == "loadbad" {
			data = make([]int, vsKeys)
			for i := range data {
				data[i] = 7
			}
		}
		if err := vsMakeDB(p, data, op.Wal || op.Kind == "loadbad"); err != nil {
			return 0, "", err
		}
		b, _ := os.ReadFile(p)
		if op.Kind == "loadbad" {
			b = c22BadData(op.Bad, b, rng)
		}
		err := l.s.Load(context.Background(), &proto.LoadRequest{Data: b})
		r.entries = append(r.entries, c04Entry{Idx: l.s.raft.AppliedIndex()})
		if op.Kind == "loadbad" {
			if err == nil {
				return 0, "load of invalid data (" + op.Bad + ") was accepted", nil
			}
			return 3, "", nil
		}
		if err != nil {
			return 0, "", err
		}
		copy(r.spec, op.Data)
	case "boot":
		if r.pend[0] != nil && len(r.nodes) == 1 {
			return 8, "", nil // ReadFrom's own snapshot would wait for the one in flight: not a case of the model
		}
		p := filepath.Join(r.scratch, "boot.db")
		if err := vsMakeDB(p, op.Data, op.Wal); err != nil {
			return 0, "", err
		}
		f, err := os.Open(p)
		if err != nil {
			return 0, "", err
		}
		defer f.Close()
		_, err = l.s.ReadFrom(f)
		if len(r.nodes) > 1 {
			if err == ErrNotSingleNode {
				return 5, "", nil
			}
			return 0, fmt.Sprintf("boot on a %d-node cluster returned %v", len(r.nodes), err), nil
		}
		if err != nil {
			return 0, "", err
		}
		r.entries = append(r.entries, c04Entry{Idx: l.s.raft.AppliedIndex()})
		copy(r.spec, op.Data)
	case "snap":
		if op.Node >= len(r.nodes) {
			return 6, "", nil
		}
		s := r.nodes[op.Node].s
		noWAL := func(err error) bool {
			return err == ErrNoWALToSnapshot || err == ErrNothingNewToSnapshot || strings.Contains(err.Error(), ErrNoWALToSnapshot.Error())
		}
		if r.pend[op.Node] != nil {
			return 8, "", nil // raft takes one snapshot at a time
		}
		switch op.Out {
		case "", "ok":
			trailing := uint64(0)
			if op.Compact && op.Node == 0 {
				trailing = 1
			}
			if err := s.Snapshot(trailing); err != nil {
				if noWAL(err) {
					return 1, "", nil
				}
				if strings.Contains(err.Error(), "wait until the configuration entry") {
					return 9, "", nil // raft skipped the persist (membership change in flight): retried by nobody, not a case
				}
				return 0, "", err
			}
		case "blocked":
			release, err := vsStallReader(s)
			if err != nil {
				return 0, "", err
			}
			err = s.Snapshot(0)
			release()
			switch {
			case err == nil:
				return 9, "", nil // the reader did not block the checkpoint
			case noWAL(err):
				return 1, "", nil
			}
			return 7, "", nil
		default: // notinvoked, failbefore: as raft does while a membership change is pending / when the sink fails
			f, err := NewFSM(s).Snapshot()
			if err != nil {
				if noWAL(err) {
					return 1, "", nil
				}
				return 0, "", err
			}
			if op.Out == "failbefore" {
				if f.Persist(&c04failSink{}) == nil {
					return 0, "", fmt.Errorf("persist to a failing sink succeeded")
				}
			}
			f.Release()
		}
	case "begin":
		if op.Node >= len(r.nodes) {
			return 6, "", nil
		}
		if r.pend[op.Node] != nil {
			return 8, "", nil
		}
		s := r.nodes[op.Node].s
		f, err := NewFSM(s).Snapshot()
		if err != nil {
			if err == ErrNoWALToSnapshot {
				return 1, "", nil
			}
			return 0, "", err
		}
		r.pend[op.Node] = &c22Pend{f: f, idx: s.raft.AppliedIndex(), term: s.raft.CurrentTerm()}
	case "persist":
		if op.Node >= len(r.nodes) {
			return 6, "", nil
		}
		pd := r.pend[op.Node]
		if pd == nil {
			return 8, "", nil
		}
		delete(r.pend, op.Node)
		s := r.nodes[op.Node].s
		switch op.Out {
		case "", "ok":
			cf := s.raft.GetConfiguration()
			if err := cf.Error(); err != nil {
				pd.f.Release()
				return 0, "", err
			}
			time.Sleep(3 * time.Millisecond)
			sink, err := s.snapshotStore.Create(raft.SnapshotVersionMax, pd.idx, pd.term, cf.Configuration(), 1, nil)
			if err != nil {
				pd.f.Release()
				return 0, "", err
			}
			if err := pd.f.Persist(sink); err != nil {
				sink.Cancel()
				pd.f.Release()
				if strings.Contains(err.Error(), "full snapshot needed") {
					return 10, "", nil
				}
				return 0, "", err
			}
			if err := sink.Close(); err != nil {
				pd.f.Release()
				return 0, "", err
			}
		case "failbefore":
			if pd.f.Persist(&c04failSink{}) == nil {
				return 0, "", fmt.Errorf("persist to a failing sink succeeded")
			}
		}
		pd.f.Release()
	case "restart":
		if op.Node >= len(r.nodes) {
			return 6, "", nil
		}
		delete(r.pend, op.Node) // the snapshot in flight dies with the process
		n := r.nodes[op.Node]
		if op.Node == 0 {
			if err := n.restartForce(op.Force); err != nil {
				return 0, "", err
			}
		} else {
			if err := n.s.Close(true); err != nil {
				return 0, "", err
			}
			if op.Force {
				if err := n.s.ForceSnapshotRestore(); err != nil {
					return 0, "", err
				}
			}
			n.ln.Close()
			if err := r.join(op.Node); err != nil { // same directory and id, new listener: re-join with the new address
				return 0, "", err
			}
		}
	case "join":
		if len(r.nodes) >= 3 {
			return 6, "", nil
		}
		if err := r.join(len(r.nodes)); err != nil {
			return 0, "", err
		}
	default:
		return 0, "", fmt.Errorf("unknown op %q", op.Kind)
	}
	return 0, "", nil
}

type c22NodeObs struct {
	Pend   int
	Live   []int
	Full   bool
	Cat    []vsSnap
	CatIdx []int
}

func (r *c22Run) observe() []c22NodeObs {
	var out []c22NodeObs
	for ni, n := range r.nodes {
		o := c22NodeObs{Live: n.dump(), Full: vsFileExists(filepath.Join(n.s.snapshotDir, "FULL_NEEDED")), Cat: vsCatalog(n.s.snapshotDir)}
		for _, c := range o.Cat {
			o.CatIdx = append(o.CatIdx, r.project(c.Index))
		}
		if pd := r.pend[ni]; pd != nil {
			o.Pend = 2
			if pd.f.(*FSMSnapshot).Type.IsFull() {
				o.Pend = 1
			}
		}
		out = append(out, o)
	}
	return out
}

func c22CoqOp(op c22Op) string {
	switch op.Kind {
	case "write":
		return fmt.Sprintf("(CWrite %s %s)", vsCoqNList(op.Keys), coqN(uint64(op.Val)))
	case "load":
		return "(CLoad " + vsCoqNList(op.Data) + ")"
	case "loadsql":
		return "(CLoadSQL " + vsCoqNList(op.Data) + ")"
	case "loadbad":
		return "CLoadBad"
	case "boot":
		return "(CBoot " + vsCoqNList(op.Data) + ")"
	case "snap":
		if op.Out == "blocked" {
			return fmt.Sprintf("(CSnapBlocked %d%%nat)", op.Node)
		}
		out := map[string]string{"": "POk", "ok": "POk", "notinvoked": "PNotInvoked", "failbefore": "PFailBefore"}[op.Out]
		return fmt.Sprintf("(CSnap %d%%nat %s %s)", op.Node, out, coqBool(op.Compact && op.Node == 0))
	case "begin":
		return fmt.Sprintf("(CSnapBegin %d%%nat)", op.Node)
	case "persist":
		out := map[string]string{"": "POk", "ok": "POk", "notinvoked": "PNotInvoked", "failbefore": "PFailBefore"}[op.Out]
		return fmt.Sprintf("(CSnapPersist %d%%nat %s)", op.Node, out)
	case "restart":
		return fmt.Sprintf("(CRestart %d%%nat)", op.Node)
	}
	return "CJoin"
}

func c22RunCase(in c22Input, base string, seq int) VCase {
	return vsRetry(func(attempt int) VCase { return c22RunOnce(in, base, seq*2+attempt) })
}

func c22RunOnce(in c22Input, base string, seq int) VCase {
	key := vJSON(in)
	rng := rand.New(rand.NewSource(int64(seq) + 77))
	root := filepath.Join(base, fmt.Sprintf("c%d", seq))
	scratch := filepath.Join(root, "scratch")
	os.MkdirAll(scratch, 0755)
	defer os.RemoveAll(root)
	r := &c22Run{base: root, scratch: scratch, spec: make([]int, vsKeys), pend: map[int]*c22Pend{}}
	n0 := vsNewNode(filepath.Join(root, "n0"), "n0")
	r.nodes = []*vsNode{n0}
	defer func() {
		for i := len(r.nodes) - 1; i >= 0; i-- {
			r.nodes[i].s.Close(true)
			r.nodes[i].ln.Close()
		}
	}()
	if err := n0.openSingle(true); err != nil {
		return VCase{Input: in, Key: key, Inconcl: "node did not start: " + err.Error()}
	}
	idx, err := n0.exec([]string{vsTableDDL})
	if err != nil {
		return VCase{Input: in, Key: key, Inconcl: "create table: " + err.Error()}
	}
	r.entries = append(r.entries, c04Entry{Idx: idx})

	fail, sig := "", ""
	var coqObs []string
	tags := map[string]bool{}
	loaded, snapAfter, nontrivial := false, false, false
	for i, op := range in.Ops {
		res, viol, err := r.step(op, rng)
		if err != nil && fail == "" && vsTransient(err) {
			return VCase{Input: in, Key: key, Inconcl: fmt.Sprintf("step %d (%s): %v", i, op.Kind, err)}
		}
		if err != nil {
			if fail != "" {
				return VCase{Input: in, Key: key, OracleFail: fail + fmt.Sprintf(" (then step %d (%s) failed: %v)", i, op.Kind, err), Sig: sig}
			}
			return VCase{Input: in, Key: key, OracleFail: fmt.Sprintf("step %d (%s) failed: %v", i, op.Kind, err), Sig: "C22:step-error:" + op.Kind}
		}
		if res == 9 {
			return VCase{Input: in, Key: key, Inconcl: fmt.Sprintf("step %d (%s%s): raft skipped the persist because a membership change was in flight, or the reader did not block", i, op.Kind, op.Out)}
		}
		if err := r.settle(); err != nil {
			return VCase{Input: in, Key: key, Inconcl: fmt.Sprintf("step %d (%s): %v", i, op.Kind, err)}
		}
		obs := r.observe()
		tags[op.Kind+op.Bad+op.Out] = true
		if op.Force {
			tags["restart-from-snapshot-store"] = true
		}
		tags[fmt.Sprintf("nodes=%d", len(r.nodes))] = true
		switch {
		case op.Kind == "load" || op.Kind == "boot" || op.Kind == "loadsql":
			if res == 0 {
				loaded, snapAfter = true, false
			}
		case op.Kind == "snap" && res == 0 && loaded && (op.Out == "" || op.Out == "ok"):
			snapAfter = true
		case (op.Kind == "restart" || op.Kind == "join") && res == 0 && loaded && snapAfter:
			nontrivial = true
		}
		if fail == "" && viol != "" {
			fail, sig = fmt.Sprintf("step %d: %s", i, viol), "C22:invalid-load-accepted:"+op.Bad
		}
		nodeObs := make([]string, len(obs))
		for j, o := range obs {
			if fail == "" && !c04Eq(o.Live, r.spec) {
				if op.Kind == "loadbad" {
					fail = fmt.Sprintf("after step %d (rejected load of %s data): node %d has %v, before the load it had %v", i, op.Bad, j, o.Live, r.spec)
					sig = "C22:header-valid-garbage-destroys-live-db"
					if op.Bad != "garbage" {
						sig = "C22:rejected-load-changes-node:" + op.Bad
					}
				} else {
					fail = fmt.Sprintf("after step %d (%s): node %d has %v, loaded database plus later writes is %v", i, op.Kind, j, o.Live, r.spec)
					sig = "C22:node-differs-from-loaded-state:after-" + op.Kind
				}
			}
			cat := make([]string, len(o.Cat))
			for k, c := range o.Cat {
				cat[k] = fmt.Sprintf("(%s, %s, %s)", coqBool(c.Full), coqN(uint64(o.CatIdx[k])), coqN(uint64(c.NWal)))
			}
			nodeObs[j] = fmt.Sprintf("{| no_live := %s; no_full := %s; no_cat := %s; no_pend := %s |}", vsCoqNList(o.Live), coqBool(o.Full), coqList(cat), coqN(uint64(o.Pend)))
		}
		coqObs = append(coqObs, fmt.Sprintf("{| co_res := %s; co_nodes := %s |}", coqN(uint64(res)), coqList(nodeObs)))
	}
	coqOps := make([]string, len(in.Ops))
	for i, op := range in.Ops {
		coqOps[i] = c22CoqOp(op)
	}
	c := VCase{Input: in, Key: key, Nontrivial: nontrivial,
		Coq: fmt.Sprintf("{| c_ops := %s; c_obs := %s |}", coqList(coqOps), coqList(coqObs))}
	for t := range tags {
		c.Tags = append(c.Tags, t)
	}
	if fail != "" {
		c.OracleFail, c.Sig = fail, sig
	}
	return c
}

var c22BadKinds = []string{"empty", "truncated", "header", "garbage", "pagegarbage", "nonsqlite"}

func c22Gen(rng *rand.Rand, maxOps int) c22Input {
	var ops []c22Op
	val := 1
	nodes := 1
	cur := make([]int, vsKeys)
	fullDue, wroteSince := false, false // (leader) a load made a full snapshot due / a write followed it
	first := c04RandKeys(rng)
	for _, k := range first {
		cur[k-1] = 1
	}
	ops = append(ops, c22Op{Kind: "write", Keys: first, Val: 1})
	n := 4 + rng.Intn(maxOps-3)
	for len(ops) < n {
		switch x := rng.Intn(22); {
		case x < 5:
			val++
			ks := c04RandKeys(rng)
			for _, k := range ks {
				cur[k-1] = val
			}
			wroteSince = true
			ops = append(ops, c22Op{Kind: "write", Keys: ks, Val: val})
		case x < 8:
			val += 10
			copy(cur, c04RandCells(rng, val))
			fullDue, wroteSince = true, false
			ops = append(ops, c22Op{Kind: "load", Data: append([]int{}, cur...), Wal: rng.Intn(2) == 0})
		case x < 10:
			val += 10
			copy(cur, c04RandCells(rng, val))
			ops = append(ops, c22Op{Kind: "loadsql", Data: append([]int{}, cur...)})
		case x < 12:
			ops = append(ops, c22Op{Kind: "loadbad", Bad: c22BadKinds[rng.Intn(len(c22BadKinds))]})
		case x < 14:
			if nodes == 1 || rng.Intn(4) == 0 {
				val += 10
				d := c04RandCells(rng, val)
				if nodes == 1 {
					copy(cur, d)
					fullDue = false
				}
				ops = append(ops, c22Op{Kind: "boot", Data: d, Wal: rng.Intn(2) == 0})
			}
		case x < 15 && rng.Intn(2) == 0:
			// a snapshot of some node in flight while the cluster goes on: fsmSnapshot, then writes / loads, then the persist
			nd := rng.Intn(nodes)
			ops = append(ops, c22Op{Kind: "begin", Node: nd})
			for k := rng.Intn(3); k >= 0; k-- {
				val++
				if rng.Intn(2) == 0 {
					val += 10
					copy(cur, c04RandCells(rng, val))
					ops = append(ops, c22Op{Kind: "load", Data: append([]int{}, cur...), Wal: rng.Intn(2) == 0})
				} else {
					ks := c04RandKeys(rng)
					for _, kk := range ks {
						cur[kk-1] = val
					}
					ops = append(ops, c22Op{Kind: "write", Keys: ks, Val: val})
				}
			}
			ops = append(ops, c22Op{Kind: "persist", Node: nd, Out: []string{"ok", "ok", "notinvoked", "failbefore"}[rng.Intn(4)]})
			fullDue, wroteSince = false, false
		case x < 17:
			nd := rng.Intn(nodes)
			op := c22Op{Kind: "snap", Node: nd}
			switch y := rng.Intn(10); {
			case y < 2:
				op.Out = "notinvoked"
			case y < 3:
				op.Out = "failbefore"
			case y < 5 && nd == 0 && fullDue && wroteSince:
				op.Out = "blocked" // only while a load has made a full snapshot due and a write followed (the reader then blocks for sure)
			default:
				op.Compact = nd == 0 && rng.Intn(3) == 0
				if nd == 0 {
					fullDue = false
				}
			}
			if nd == 0 && op.Out != "blocked" {
				wroteSince = false // every other attempt checkpoints the WAL: a reader then has nothing to block
			}
			ops = append(ops, op)
		case x < 20:
			nd := rng.Intn(nodes)
			if nd == 0 && nodes > 1 {
				nd = 1 // the voter is only restarted while it is alone
			}
			ops = append(ops, c22Op{Kind: "restart", Node: nd, Force: rng.Intn(2) == 0})
		default:
			if nodes < 3 {
				nodes++
				ops = append(ops, c22Op{Kind: "join"})
			}
		}
	}
	return c22Input{Ops: ops}
}

func c22Corpus() []c22Input {
	all := func(v int) []int {
		c := make([]int, vsKeys)
		for i := range c {
			c[i] = v
		}
		return c
	}
	keys := func(a, b int) []int {
		var ks []int
		for k := a; k <= b; k++ {
			ks = append(ks, k)
		}
		return ks
	}
	W := func(a, b, v int) c22Op { return c22Op{Kind: "write", Keys: keys(a, b), Val: v} }
	S := func(n int) c22Op { return c22Op{Kind: "snap", Node: n} }
	R := func(n int) c22Op { return c22Op{Kind: "restart", Node: n} }
	J := c22Op{Kind: "join"}
	var out []c22Input
	// every kind of invalid data against a node with data, then the node must still work and restart
	var bad []c22Op
	bad = append(bad, W(1, 12, 1), S(0))
	for _, k := range c22BadKinds {
		bad = append(bad, c22Op{Kind: "loadbad", Bad: k}, W(3, 4, 2))
	}
	bad = append(bad, S(0), R(0))
	out = append(out, c22Input{Ops: bad})
	out = append(out,
		// load through the log on three nodes, snapshots everywhere, follower restart, late joiner
		c22Input{Ops: []c22Op{W(1, 6, 1), J, {Kind: "load", Data: all(3), Wal: true}, W(2, 3, 4), S(0), S(1), R(1), J, W(5, 5, 6), {Kind: "loadbad", Bad: "garbage"}, S(2), R(2)}},
		// boot on a single node, then joiners must receive the booted database by snapshot install
		c22Input{Ops: []c22Op{W(1, 6, 1), S(0), {Kind: "boot", Data: all(3), Wal: false}, W(2, 3, 4), S(0), R(0), J, W(7, 9, 5), S(1), R(1), {Kind: "boot", Data: all(9)}, J}},
		// boot right after a restart of a node that already has snapshots (nothing but the boot itself says "full")
		c22Input{Ops: []c22Op{W(1, 6, 1), S(0), R(0), {Kind: "boot", Data: all(3), Wal: true}, W(2, 3, 4), S(0), R(0), J, {Kind: "loadbad", Bad: "pagegarbage"}, S(1)}},
		// a load, then snapshot attempts that fail after fsmSnapshot refreshed its in-memory "file modified" time
		// (blocked checkpoint, persist not invoked), then a successful snapshot that compacts the log; the database
		// is then rebuilt from the snapshot store: unclean restart of the leader, late joiner by install
		c22Input{Ops: []c22Op{W(1, 12, 1), S(0), {Kind: "load", Data: all(3), Wal: true}, W(2, 3, 4), {Kind: "snap", Out: "blocked"}, W(4, 4, 5),
			{Kind: "snap", Compact: true}, {Kind: "restart", Force: true}, J, W(5, 5, 6), S(1), {Kind: "restart", Node: 1, Force: true}}},
		c22Input{Ops: []c22Op{W(1, 12, 1), S(0), J, {Kind: "load", Data: all(3), Wal: false}, W(2, 3, 4), {Kind: "snap", Out: "notinvoked"}, {Kind: "snap", Node: 1, Out: "notinvoked"},
			W(4, 4, 5), {Kind: "snap", Compact: true}, S(1), {Kind: "restart", Node: 1, Force: true}, J}},
		c22Input{Ops: []c22Op{W(1, 12, 1), S(0), {Kind: "load", Data: all(3), Wal: true}, W(2, 3, 4), {Kind: "snap", Out: "blocked"}, {Kind: "snap", Out: "failbefore"}, {Kind: "snap", Out: "notinvoked"},
			W(4, 4, 5), S(0), {Kind: "restart", Force: true}, {Kind: "snap", Compact: true}, J}},
		// a load is applied while a full snapshot of the old database is in flight; its close clears FULL_NEEDED; then a
		// skipped attempt and further snapshots (one compacting the log); rebuilds: unclean restart, joiner by install
		c22Input{Ops: []c22Op{W(1, 24, 1), {Kind: "begin"}, {Kind: "load", Data: all(3), Wal: true}, {Kind: "persist", Out: "ok"}, W(2, 3, 4), {Kind: "snap", Out: "notinvoked"},
			W(4, 5, 5), {Kind: "snap", Compact: true}, {Kind: "restart", Force: true}, J, W(6, 6, 7), S(1), {Kind: "restart", Node: 1, Force: true}}},
		c22Input{Ops: []c22Op{W(1, 24, 1), S(0), J, {Kind: "load", Data: all(2), Wal: false}, W(1, 2, 9), {Kind: "begin"}, {Kind: "begin", Node: 1}, W(3, 4, 8), {Kind: "load", Data: all(3), Wal: true},
			{Kind: "persist", Out: "ok"}, {Kind: "persist", Node: 1, Out: "ok"}, W(2, 3, 4), S(0), S(1), W(4, 5, 5), {Kind: "snap", Compact: true}, S(1), {Kind: "restart", Node: 1, Force: true}, J}},
		// an incremental snapshot whose persist is skipped leaves a staged WAL; a boot replaces the database; the next
		// incremental must not package the stale WAL: rebuild by unclean restart and by a joiner that gets the snapshot
		c22Input{Ops: []c22Op{W(1, 24, 1), S(0), W(1, 24, 2), {Kind: "snap", Out: "notinvoked"}, {Kind: "boot", Data: all(3), Wal: true}, W(2, 3, 4), S(0),
			{Kind: "restart", Force: true}, J, W(5, 5, 6), S(1), {Kind: "restart", Node: 1, Force: true}}},
		c22Input{Ops: []c22Op{W(1, 24, 1), S(0), W(5, 20, 2), {Kind: "snap", Out: "failbefore"}, W(1, 9, 5), {Kind: "snap", Out: "notinvoked"}, {Kind: "boot", Data: all(3), Wal: false}, W(21, 22, 4),
			{Kind: "snap", Compact: true}, J, {Kind: "restart", Force: true}}},
		// SQL-text load and DELETE-mode file load
		c22Input{Ops: []c22Op{W(1, 6, 1), S(0), {Kind: "loadsql", Data: all(2)}, S(0), J, {Kind: "load", Data: all(5), Wal: false}, S(0), S(1), R(1), W(1, 2, 6), R(0)}},
	)
	return out
}

func TestVerif_C22(t *testing.T) {
	w := vOpen()
	defer w.Close()
	rng := vRand()
	base, err := os.MkdirTemp("", "c22-")
	if err != nil {
		t.Fatal(err)
	}
	defer os.RemoveAll(base)
	if raw := vReplayInput(); raw != nil {
		var in c22Input
		if err := json.Unmarshal(raw, &in); err != nil {
			t.Fatal(err)
		}
		w.Emit(c22RunCase(in, base, 0))
		return
	}
	ins := c22Corpus()
	n := vN(12, 500)
	maxOps := 9
	if vTier() == "thorough" {
		maxOps = 20
	}
	for i := 0; i < n; i++ {
		ins = append(ins, c22Gen(rng, maxOps))
	}
	out := make([]VCase, len(ins))
	sem := make(chan struct{}, 5)
	done := make(chan int, len(ins))
	for i := range ins {
		go func(i int) {
			sem <- struct{}{}
			defer func() { <-sem; done <- i }()
			out[i] = c22RunCase(ins[i], base, i)
		}(i)
	}
	for range ins {
		<-done
	}
	for _, c := range out {
		w.Emit(c)
	}
}
