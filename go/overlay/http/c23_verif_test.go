package http

// C23 driver: a real http.Service (real queue, real runQueue, real proxy) over a store stub that
// records every Execute call and injects failures (no leader / error / error-after-apply) from a
// plan.  Concurrent HTTP clients POST sequence-tagged statements to /db/execute?queue[&wait].
// Judged (a) by c23Oracle: the property text written directly in Go, and (b) by Model.C23 through
// a schedule reconstructed from the observation.

import (
	"context"
	"encoding/json"
	"errors"
	"fmt"
	"io"
	"math/rand"
	nethttp "net/http"
	"reflect"
	"sort"
	"strconv"
	"strings"
	"sync"
	"testing"
	"time"

	command "github.com/rqlite/rqlite/v10/command/proto"
	"github.com/rqlite/rqlite/v10/proxy"
	"github.com/rqlite/rqlite/v10/store"
)

type c23Input struct {
	BatchSize int      `json:"batch_size"`
	Cap       int      `json:"cap"`
	TimeoutMs int      `json:"timeout_ms"`
	Tx        bool     `json:"tx"`
	Clients   int      `json:"clients"`
	PerClient int      `json:"per_client"`
	WaitPct   int      `json:"wait_pct"`   // % of requests with &wait
	Plan      []string `json:"plan"`       // outcome of the k-th Execute call: ok | noleader | err | errapplied (ok when exhausted)
	Malformed int      `json:"malformed"`  // extra requests with a body that does not parse
	Checkpt   bool     `json:"checkpoint"` // single client, all wait, some requests with no statements
	// Stall > 0: the "consumer stalled, then nothing more arrives" scenario.  One client; the first Stall Execute
	// calls fail (leader known, execution fails: 1 s retry delay each).  A full batch is taken by runQueue and
	// keeps failing; Backlog more full batches queue up behind it (the first parks in the queue's one-slot output
	// channel); then TrailShort (< batch size) requests arrive, the last one with &wait if TrailWait, their batch
	// timeout fires during the stall; then the failures stop and NO further request is sent.
	Stall      int  `json:"stall,omitempty"`
	Backlog    int  `json:"backlog,omitempty"`
	TrailShort int  `json:"trail_short,omitempty"`
	TrailWait  bool `json:"trail_wait,omitempty"`
	Seed       int64 `json:"seed"`
}

type c23Call struct {
	stmts   []uint64
	outcome string
	tx      bool
	at      time.Time // when the stub returned
}

// c23Store: the Store / proxy.Store stub
type c23Store struct {
	*MockStore
	mu     sync.Mutex
	plan   []string
	calls  []c23Call
	noLdr  bool
	others []string // statements that are not sequence-tagged
}

func c23StmtID(sql string) (uint64, bool) {
	// INSERT INTO t VALUES(<id>)
	i := strings.Index(sql, "VALUES(")
	if i < 0 || !strings.HasSuffix(sql, ")") {
		return 0, false
	}
	n, err := strconv.ParseUint(sql[i+7:len(sql)-1], 10, 64)
	return n, err == nil
}

func (m *c23Store) Execute(ctx context.Context, er *command.ExecuteRequest) ([]*command.ExecuteQueryResponse, uint64, error) {
	m.mu.Lock()
	defer m.mu.Unlock()
	c := c23Call{outcome: "ok", tx: er.Request.Transaction}
	for _, s := range er.Request.Statements {
		if id, ok := c23StmtID(s.Sql); ok {
			c.stmts = append(c.stmts, id)
		} else {
			m.others = append(m.others, s.Sql)
		}
	}
	if len(m.calls) < len(m.plan) {
		c.outcome = m.plan[len(m.calls)]
	}
	m.noLdr = c.outcome == "noleader" // the leader is gone until the next attempt
	c.at = time.Now()
	m.calls = append(m.calls, c)
	switch c.outcome {
	case "noleader":
		return nil, 0, store.ErrNotLeader // proxy then asks LeaderAddr(), finds none: ErrLeaderNotFound
	case "err":
		return nil, 0, errors.New("injected failure")
	case "errapplied":
		return nil, 0, errors.New("leadership lost while committing log")
	}
	return make([]*command.ExecuteQueryResponse, len(er.Request.Statements)), 1, nil
}

func (m *c23Store) Leader() (*store.Server, error) {
	m.mu.Lock()
	defer m.mu.Unlock()
	if m.noLdr {
		return nil, store.ErrLeaderNotFound
	}
	return &store.Server{ID: "1", Addr: "127.0.0.1:4002"}, nil
}

func (m *c23Store) LeaderAddr() (string, error) {
	m.mu.Lock()
	defer m.mu.Unlock()
	if m.noLdr {
		return "", nil
	}
	return "127.0.0.1:4002", nil
}

type c23Req struct {
	id      int
	client  int
	order   int
	stmts   []uint64
	wait    bool
	bad     bool // body does not parse
	status  int
	seq     int64
	sentAt  time.Time
	doneAt  time.Time
	errText string
}

type c23Result struct {
	in    c23Input
	reqs  []*c23Req
	calls []c23Call
	other []string
	base  int64
	slow  bool
}

func c23Exec(in c23Input) *c23Result {
	st := &c23Store{MockStore: &MockStore{}, plan: in.Plan}
	cl := &mockClusterService{}
	s := New("127.0.0.1:0", st, cl, proxy.New(st, cl), nil)
	s.DefaultQueueCap = in.Cap
	s.DefaultQueueBatchSz = in.BatchSize
	s.DefaultQueueTimeout = time.Duration(in.TimeoutMs) * time.Millisecond
	s.DefaultQueueTx = in.Tx
	s.logger.SetOutput(io.Discard)
	if err := s.Start(); err != nil {
		panic(err)
	}
	res := &c23Result{in: in}
	// the queue's initial sequence number (time.Now().UnixNano() at construction; unexported, read-only access)
	res.base = reflect.ValueOf(s.stmtQueue).Elem().FieldByName("seqNum").Int()
	host := "http://" + s.Addr().String()
	client := &nethttp.Client{Timeout: 90 * time.Second}
	rng := rand.New(rand.NewSource(in.Seed))

	var mu sync.Mutex
	var wg sync.WaitGroup
	nextID := 0
	mk := func(c, o int) *c23Req {
		mu.Lock()
		defer mu.Unlock()
		r := &c23Req{id: nextID, client: c, order: o}
		nextID++
		res.reqs = append(res.reqs, r)
		return r
	}
	waitTO := "60s"
	if in.Stall > 0 {
		waitTO = fmt.Sprintf("%ds", in.Stall+20) // the stall lasts in.Stall seconds; 20 s beyond it is >= 100 queue timeouts + retry delays
	}
	post := func(r *c23Req) {
		var body string
		if r.bad {
			body = fmt.Sprintf(`["INSERT INTO t VALUES(%d)", 5]`, r.stmts[0])
		} else {
			ss := make([]string, len(r.stmts))
			for i, id := range r.stmts {
				ss[i] = fmt.Sprintf(`"INSERT INTO t VALUES(%d)"`, id)
			}
			body = "[" + strings.Join(ss, ",") + "]"
		}
		url := host + "/db/execute?queue"
		if r.wait {
			url += "&wait&timeout=" + waitTO
		}
		r.sentAt = time.Now()
		resp, err := client.Post(url, "application/json", strings.NewReader(body))
		r.doneAt = time.Now()
		if err != nil {
			r.status = -1
			r.errText = err.Error()
			return
		}
		defer resp.Body.Close()
		b, _ := io.ReadAll(resp.Body)
		r.status = resp.StatusCode
		if resp.StatusCode == 200 {
			var jr struct {
				Seq int64 `json:"sequence_number"`
			}
			if err := json.Unmarshal(b, &jr); err != nil {
				r.errText = "unparseable response: " + string(b)
			}
			r.seq = jr.Seq - res.base
		} else {
			r.errText = strings.TrimSpace(string(b))
		}
	}
	type plan struct {
		n     int
		wait  bool
		bad   bool
		sleep time.Duration
	}
	nClients := in.Clients
	if in.Checkpt {
		nClients = 1
	}
	plans := make([][]plan, nClients)
	for c := range plans {
		for i := 0; i < in.PerClient; i++ {
			p := plan{n: 1 + rng.Intn(3), wait: rng.Intn(100) < in.WaitPct}
			if in.Checkpt {
				p.wait = true
				if rng.Intn(3) == 0 {
					p.n = 0
				}
			}
			if rng.Intn(5) == 0 {
				p.sleep = time.Duration(rng.Intn(2*in.TimeoutMs+1)) * time.Millisecond
			}
			plans[c] = append(plans[c], p)
		}
		for i := 0; i < in.Malformed && c == 0; i++ {
			at := rng.Intn(len(plans[c]) + 1)
			plans[c] = append(plans[c][:at], append([]plan{{n: 1, bad: true, wait: rng.Intn(2) == 0}}, plans[c][at:]...)...)
		}
	}
	if in.Stall > 0 {
		nClients = 0
		order := 0
		one := func(wait bool) *c23Req {
			r := mk(0, order)
			r.wait = wait
			for k := 0; k < 1+rng.Intn(2); k++ {
				r.stmts = append(r.stmts, 1000000+uint64(order)*100+uint64(k)+1)
			}
			order++
			return r
		}
		for i := 0; i < in.BatchSize; i++ { // the batch runQueue will be stuck on
			post(one(false))
		}
		time.Sleep(time.Duration(in.TimeoutMs+150) * time.Millisecond)
		for i := 0; i < in.Backlog*in.BatchSize; i++ {
			post(one(false))
		}
		for i := 0; i < in.TrailShort; i++ {
			r := one(in.TrailWait && i == in.TrailShort-1)
			if r.wait {
				wg.Add(1)
				go func() { defer wg.Done(); post(r) }()
			} else {
				post(r)
			}
		}
	}
	for c := 0; c < nClients; c++ {
		wg.Add(1)
		go func(c int) {
			defer wg.Done()
			for i, p := range plans[c] {
				if p.sleep > 0 {
					time.Sleep(p.sleep)
				}
				r := mk(c, i)
				r.wait, r.bad = p.wait, p.bad
				for k := 0; k < p.n; k++ {
					r.stmts = append(r.stmts, uint64(c+1)*1000000+uint64(i)*100+uint64(k)+1)
				}
				post(r)
			}
		}(c)
	}
	wg.Wait()
	// let the queue drain: every statement of an accepted request has been part of an "ok" call
	want := map[uint64]bool{}
	for _, r := range res.reqs {
		if r.status == 200 && !r.bad {
			for _, id := range r.stmts {
				want[id] = true
			}
		}
	}
	deadline := time.Now().Add(time.Duration(len(in.Plan)+20) * time.Second)
	for {
		st.mu.Lock()
		left := len(want)
		for _, c := range st.calls {
			if c.outcome == "ok" {
				for _, id := range c.stmts {
					if want[id] {
						left--
					}
				}
			}
		}
		st.mu.Unlock()
		if left <= 0 {
			break
		}
		if time.Now().After(deadline) {
			res.slow = true
			break
		}
		time.Sleep(2 * time.Millisecond)
	}
	time.Sleep(time.Duration(2*in.TimeoutMs+5) * time.Millisecond)
	cd := make(chan struct{})
	go func() { s.Close(); close(cd) }()
	select {
	case <-cd:
	case <-time.After(20 * time.Second):
		res.slow = true
	}
	st.mu.Lock()
	res.calls = append([]c23Call{}, st.calls...)
	res.other = append([]string{}, st.others...)
	st.mu.Unlock()
	return res
}

func c23Applies(o string) bool { return o == "ok" || o == "errapplied" }

// ---------------------------------------------------------------------------------------------
// The property on what was observed.
func c23Oracle(res *c23Result) []string {
	var fails []string
	add := func(sig, f string, a ...any) { fails = append(fails, sig+"|"+fmt.Sprintf(f, a...)) }
	in := res.in
	owner := map[uint64]*c23Req{}
	var acc []*c23Req
	seqSeen := map[int64]int{}
	lastSeq := map[int]int64{}
	for _, r := range res.reqs {
		for _, id := range r.stmts {
			owner[id] = r
		}
		switch {
		case r.bad:
			if r.status == 200 {
				add("C23:malformed-request-answered-200-and-dropped", "request %d with body [\"INSERT ...\", 5] (not a valid statement list) got 200 and sequence number %d; its statement is never applied", r.id, r.seq)
			}
		case r.status == 200:
			acc = append(acc, r)
			if o, dup := seqSeen[r.seq]; dup {
				add("C23:sequence-number-returned-twice", "requests %d and %d both got sequence number %d", o, r.id, r.seq)
			}
			seqSeen[r.seq] = r.id
			if l, ok := lastSeq[r.client]; ok && r.seq <= l {
				add("C23:sequence-not-increasing-for-a-client", "client %d: request %d got %d after %d", r.client, r.id, r.seq, l)
			}
			lastSeq[r.client] = r.seq
		case r.status == 503:
			// no leader at acceptance time: rejected, must never be applied
		case r.status == 408 && r.wait:
			add("C23:wait-timed-out-although-node-running-and-leader-back", "request %d (&wait, statements %v) got 408 %q after %v: its batch was not applied within %s although Execute succeeds again and nothing else is queued", r.id, r.stmts, r.errText, r.doneAt.Sub(r.sentAt).Round(time.Millisecond), "the wait timeout")
		default:
			add("C23:unexpected-http-status", "request %d: status %d %s", r.id, r.status, r.errText)
		}
	}
	sort.Slice(acc, func(i, j int) bool { return acc[i].seq < acc[j].seq })
	if len(res.other) > 0 {
		add("C23:unknown-statement-applied", "store saw statement %q that no client sent", res.other[0])
	}
	// every call: whole requests, consecutive in sequence order, at most batch-size of them, Transaction flag
	pos := map[int]int{}
	for i, r := range acc {
		pos[r.id] = i
	}
	var collapsed [][]uint64
	var prev []uint64
	prevOK := true
	for ci, c := range res.calls {
		if len(c.stmts) == 0 {
			add("C23:empty-execute", "call %d carries no statements", ci)
			continue
		}
		same := fmt.Sprint(c.stmts) == fmt.Sprint(prev)
		if !prevOK && !same {
			add("C23:retry-is-a-different-batch", "call %d follows a failed call but carries %v instead of %v", ci, c.stmts, prev)
		}
		if prevOK && same {
			add("C23:batch-executed-again-after-success", "call %d repeats %v although the previous call succeeded", ci, c.stmts)
		}
		// split into requests
		var reqIdx []int
		i := 0
		for i < len(c.stmts) {
			r := owner[c.stmts[i]]
			if r == nil || r.status != 200 || r.bad {
				st := -2
				if r != nil {
					st = r.status
				}
				add("C23:statement-of-unaccepted-request-applied", "call %d carries statement %d of a request that was not accepted (status %d)", ci, c.stmts[i], st)
				i++
				continue
			}
			if i+len(r.stmts) > len(c.stmts) || fmt.Sprint(c.stmts[i:i+len(r.stmts)]) != fmt.Sprint(r.stmts) {
				add("C23:request-not-contiguous", "call %d: statements of request %d (seq %d) %v are not together and in order in %v", ci, r.id, r.seq, r.stmts, c.stmts)
				i++
				continue
			}
			reqIdx = append(reqIdx, pos[r.id])
			i += len(r.stmts)
		}
		for k := 1; k < len(reqIdx); k++ {
			if reqIdx[k] != reqIdx[k-1]+1 {
				add("C23:requests-out-of-acceptance-order", "call %d: request with sequence %d follows request with sequence %d", ci, acc[reqIdx[k]].seq, acc[reqIdx[k-1]].seq)
			}
		}
		if len(reqIdx) > in.BatchSize {
			add("C23:batch-larger-than-batch-size", "call %d merges %d requests, batch size %d", ci, len(reqIdx), in.BatchSize)
		}
		if c23Applies(c.outcome) {
			if !(same && len(collapsed) > 0 && fmt.Sprint(collapsed[len(collapsed)-1]) == fmt.Sprint(c.stmts)) {
				collapsed = append(collapsed, c.stmts)
			}
		}
		prev = c.stmts
		prevOK = c.outcome == "ok"
	}
	// applied sequence, immediate repeats collapsed == accepted requests in sequence order
	var got, want []uint64
	for _, b := range collapsed {
		got = append(got, b...)
	}
	for _, r := range acc {
		want = append(want, r.stmts...)
	}
	if fmt.Sprint(got) != fmt.Sprint(want) && len(fails) == 0 {
		// classify
		seen := map[uint64]bool{}
		for _, id := range got {
			if seen[id] {
				add("C23:statement-applied-twice-not-by-retry", "statement %d applied twice (not an immediate retry of its batch)", id)
				break
			}
			seen[id] = true
		}
		if len(fails) == 0 {
			for _, id := range want {
				if !seen[id] {
					add("C23:accepted-statement-never-applied", "statement %d of request %d (sequence %d, status 200) was never applied although the node kept running and the leader came back", id, owner[id].id, owner[id].seq)
					break
				}
			}
		}
		if len(fails) == 0 {
			add("C23:applied-order-differs-from-acceptance-order", "applied %v, accepted (by sequence number) %v", got, want)
		}
	}
	// wait: answered only after an ok call that carries its statements
	for _, r := range acc {
		if !r.wait || len(r.stmts) == 0 {
			continue
		}
		var okAt time.Time
		for _, c := range res.calls {
			if c.outcome != "ok" {
				continue
			}
			for _, id := range c.stmts {
				if id == r.stmts[len(r.stmts)-1] {
					okAt = c.at
				}
			}
		}
		if okAt.IsZero() {
			add("C23:wait-answered-but-never-applied", "request %d (&wait) answered 200 but no successful Execute carried its statements", r.id)
		} else if r.doneAt.Before(okAt) {
			add("C23:wait-answered-before-apply", "request %d (&wait) answered 200 %v before the successful Execute of its statements", r.id, okAt.Sub(r.doneAt))
		}
	}
	if res.slow && len(fails) == 0 {
		add("C23:queue-did-not-drain", "accepted statements still not applied %d s after the last injected failure (or Close hung)", 20)
	}
	return fails
}

// ---------------------------------------------------------------------------------------------
func c23Outcome(o string) string {
	switch o {
	case "ok":
		return "OOk"
	case "noleader":
		return "ONoLeader"
	case "err":
		return "OErr"
	}
	return "OErrApplied"
}

func c23NList(ids []uint64) string {
	s := make([]string, len(ids))
	for i, id := range ids {
		s[i] = coqN(id)
	}
	return coqList(s)
}

// c23Case reconstructs a model schedule: requests in sequence order; a request is taken by the queue loop
// right after it was written; batch boundaries are those of the Execute calls (every request has statements,
// except in checkpoint runs where every request is alone in its batch); a batch smaller than the batch size
// was cut by the timer.
func c23Case(res *c23Result) (string, int, int) {
	in := res.in
	var acc []*c23Req
	for _, r := range res.reqs {
		if r.status == 200 {
			if r.bad { // (defect) a body that does not parse was accepted: the queue got a write without statements
				r = &c23Req{id: r.id, wait: r.wait, seq: r.seq, status: 200}
			}
			acc = append(acc, r)
		}
	}
	sort.Slice(acc, func(i, j int) bool { return acc[i].seq < acc[j].seq })
	owner := map[uint64]*c23Req{}
	for _, r := range acc {
		for _, id := range r.stmts {
			owner[id] = r
		}
	}
	// distinct batches in call order, with the outcomes of their attempts
	type batch struct {
		stmts    []uint64
		outcomes []string
		nreq     int
	}
	var bs []*batch
	for _, c := range res.calls {
		if len(bs) > 0 && fmt.Sprint(bs[len(bs)-1].stmts) == fmt.Sprint(c.stmts) {
			bs[len(bs)-1].outcomes = append(bs[len(bs)-1].outcomes, c.outcome)
			continue
		}
		b := &batch{stmts: c.stmts, outcomes: []string{c.outcome}}
		seen := map[int]bool{}
		for _, id := range c.stmts {
			if r := owner[id]; r != nil && !seen[r.id] {
				seen[r.id] = true
				b.nreq++
			}
		}
		bs = append(bs, b)
	}
	var acts, calls, seqs, rel []string
	nShort, nFull := 0, 0
	ai := 0
	emit := func(n int, outcomes []string) {
		for k := 0; k < n && ai < len(acc); k++ {
			r := acc[ai]
			ai++
			acts = append(acts, fmt.Sprintf("HWrite %s %s", c23NList(r.stmts), coqOpt(r.wait, coqN(uint64(r.id)))), "QTake")
			seqs = append(seqs, "Some "+coqZ(r.seq))
			if r.wait {
				rel = append(rel, coqN(uint64(r.id)))
			}
		}
		if n < in.BatchSize {
			acts = append(acts, "QTimer")
			nShort++
		} else {
			nFull++
		}
		acts = append(acts, "RRecv")
		for _, o := range outcomes {
			acts = append(acts, "RExec "+c23Outcome(o))
		}
		acts = append(acts, "RFinish")
	}
	if in.Checkpt {
		bi := 0
		for range acc {
			r := acc[ai]
			if len(r.stmts) == 0 {
				emit(1, nil)
			} else if bi < len(bs) {
				emit(1, bs[bi].outcomes)
				bi++
			} else {
				emit(1, nil)
			}
		}
	} else {
		for _, b := range bs {
			emit(b.nreq, b.outcomes)
		}
	}
	for _, c := range res.calls {
		calls = append(calls, fmt.Sprintf("(%s, %s)", c23NList(c.stmts), c23Outcome(c.outcome)))
	}
	// wait requests answered 200 are exactly the released ones (a 60 s wait timeout never fires in a run)
	coq := fmt.Sprintf("{| c_cfg := {| maxSize := %s; batchSize := %s; timed := true; seq0 := 0%%Z |}; c_acts := %s; c_calls := %s; c_released := %s; c_seqs := %s |}",
		coqNat(in.Cap), coqNat(in.BatchSize), coqList(acts), coqList(calls), coqList(rel), coqList(seqs))
	return coq, nShort, nFull
}

func c23RunCase(w *vWriter, in c23Input) {
	res := c23Exec(in)
	fails := c23Oracle(res)
	coq, nShort, nFull := c23Case(res)
	nWait, nRetry, n503 := 0, 0, 0
	for _, r := range res.reqs {
		if r.wait && r.status == 200 {
			nWait++
		}
		if r.status == 503 {
			n503++
		}
	}
	for _, c := range res.calls {
		if c.outcome != "ok" {
			nRetry++
		}
	}
	tags := []string{fmt.Sprintf("batch_size=%d", in.BatchSize)}
	if nRetry > 0 {
		tags = append(tags, "execute-failures-injected")
	}
	if n503 > 0 {
		tags = append(tags, "request-rejected-no-leader")
	}
	if nShort > 0 {
		tags = append(tags, "timer-batch")
	}
	if nFull > 0 {
		tags = append(tags, "full-batch")
	}
	if in.Checkpt {
		tags = append(tags, "checkpoint-requests")
	}
	if in.Stall > 0 {
		tags = append(tags, "consumer-stalled-then-quiet")
	}
	if in.Malformed > 0 {
		tags = append(tags, "malformed-request")
	}
	sizes := []int{}
	for _, c := range res.calls {
		sizes = append(sizes, len(c.stmts))
	}
	c := VCase{Input: in, Coq: coq, Nontrivial: nShort+nFull >= 2 && nWait >= 1, Key: vJSON(in) + fmt.Sprint(sizes), Tags: tags}
	if len(fails) > 0 {
		p := strings.SplitN(fails[0], "|", 2)
		c.Sig, c.OracleFail = p[0], p[1]
		if len(fails) > 1 {
			c.OracleFail += fmt.Sprintf(" (+%d more: %s)", len(fails)-1, strings.SplitN(fails[1], "|", 2)[0])
		}
	}
	w.Emit(c)
	w.mu.Lock()
	w.w.Flush()
	w.mu.Unlock()
}

func c23Gen(rng *rand.Rand, i int) c23Input {
	in := c23Input{BatchSize: 1 + rng.Intn(6), Cap: []int{1, 4, 64, 1024}[rng.Intn(4)], TimeoutMs: []int{1, 5, 20}[rng.Intn(3)],
		Tx: rng.Intn(2) == 0, Clients: 2 + rng.Intn(4), PerClient: 5 + rng.Intn(30), WaitPct: []int{0, 20, 50, 100}[rng.Intn(4)], Seed: rng.Int63()}
	nf := rng.Intn(4)
	if i%3 == 0 {
		nf = 0
	}
	at := 0
	for k := 0; k < nf; k++ {
		at += rng.Intn(4)
		for len(in.Plan) < at {
			in.Plan = append(in.Plan, "ok")
		}
		in.Plan = append(in.Plan, []string{"noleader", "err", "errapplied"}[rng.Intn(3)])
		at++
	}
	if i%7 == 3 {
		in.Checkpt = true
		in.PerClient = 5 + rng.Intn(10)
	}
	if i%5 == 1 {
		in.Malformed = 1 + rng.Intn(2)
	}
	if i%6 == 5 {
		in = c23Input{BatchSize: 2 + rng.Intn(3), Cap: []int{8, 64, 1024}[rng.Intn(3)], TimeoutMs: []int{10, 20, 50}[rng.Intn(3)], Tx: rng.Intn(2) == 0,
			Stall: 2 + rng.Intn(2), Backlog: 1 + rng.Intn(2), TrailWait: rng.Intn(3) > 0, Seed: rng.Int63()}
		in.TrailShort = 1 + rng.Intn(in.BatchSize-1)
		for k := 0; k < in.Stall; k++ {
			in.Plan = append(in.Plan, []string{"err", "err", "errapplied"}[rng.Intn(3)])
		}
	}
	return in
}

func TestVerif_C23(t *testing.T) {
	w := vOpen()
	defer w.Close()
	rng := vRand()
	if raw := vReplayInput(); raw != nil {
		var in c23Input
		if err := json.Unmarshal(raw, &in); err != nil {
			t.Fatal(err)
		}
		for i := 0; i < 5; i++ {
			c23RunCase(w, in)
		}
		return
	}
	var ins []c23Input
	ins = append(ins,
		c23Input{BatchSize: 3, Cap: 16, TimeoutMs: 5, Clients: 4, PerClient: 40, WaitPct: 20, Plan: []string{"ok", "noleader", "ok", "errapplied", "err"}, Seed: 1},
		c23Input{BatchSize: 1, Cap: 1, TimeoutMs: 1, Clients: 4, PerClient: 40, WaitPct: 50, Tx: true, Plan: []string{"err", "err"}, Seed: 2},
		c23Input{BatchSize: 128, Cap: 1024, TimeoutMs: 20, Clients: 4, PerClient: 40, WaitPct: 0, Seed: 3},
		c23Input{BatchSize: 2, Cap: 8, TimeoutMs: 5, PerClient: 12, Checkpt: true, Plan: []string{"ok", "errapplied"}, Seed: 4},
		c23Input{BatchSize: 4, Cap: 8, TimeoutMs: 5, Clients: 2, PerClient: 6, WaitPct: 50, Malformed: 2, Seed: 5},
		c23Input{BatchSize: 2, Cap: 64, TimeoutMs: 50, Stall: 2, Backlog: 1, TrailShort: 1, TrailWait: true, Plan: []string{"err", "err"}, Seed: 6},
		c23Input{BatchSize: 2, Cap: 64, TimeoutMs: 50, Stall: 3, Backlog: 1, TrailShort: 1, Plan: []string{"err", "errapplied", "err"}, Seed: 7},
		c23Input{BatchSize: 3, Cap: 1024, TimeoutMs: 20, Stall: 2, Backlog: 1, TrailShort: 2, TrailWait: true, Plan: []string{"err", "err"}, Seed: 8},
		c23Input{BatchSize: 2, Cap: 8, TimeoutMs: 30, Stall: 2, Backlog: 2, TrailShort: 1, TrailWait: true, Plan: []string{"err", "err"}, Seed: 9},
	)
	n := vN(24, 400)
	for i := 0; i < n; i++ {
		ins = append(ins, c23Gen(rng, i))
	}
	// scenarios are independent services on their own ports: run 8 at a time (every injected failure costs the 1 s retry delay)
	sem := make(chan struct{}, 8)
	var wg sync.WaitGroup
	for _, in := range ins {
		wg.Add(1)
		sem <- struct{}{}
		go func(in c23Input) {
			defer wg.Done()
			defer func() { <-sem }()
			c23RunCase(w, in)
		}(in)
	}
	wg.Wait()
}
