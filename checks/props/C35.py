# C35 — configuration read by bin/check (see checks/registry.py)
SPEC = dict(
    title="Arbitrary bytes on the inter-node port cannot crash a node",
    pkg="./cluster", files=["cluster/c35_verif_test.go"],
    rule="byte streams sent over TCP to a cluster.Service behind a tcp.Mux running in a child process: hand-picked corpus (empty, foreign mux byte, "
         "short prefix, every Command_Type x {right, missing, foreign payload} x credentials x 6 credential files, declared lengths 2^31-1, 2^31, 2^32, 2^40, "
         "2^63-1, 2^63, 2^64-1, 64 MiB, 1 GiB followed by 0-20 bytes, truncated protobufs and frames; the Command envelope at its numeric boundaries as well-formed frames: "
         "type field 0, len(enum), len(enum)+1, MaxInt32, 2^31, 2^32-1 (= -1), -1/-2/-14/MinInt32 as 10-byte varints, 2^32, 2^63, MaxInt64, overlong and over-long/unterminated varints, "
         "each x {no payload, credentials, another type's payload}; the type given twice; unknown field numbers (incl. the largest, groups, reserved wire types, field 0); known fields with the wrong wire type; "
         "payload under the wrong oneof / several oneofs; credentials twice / empty / with a length past the end; each alone and followed by a valid command) plus random streams of 1-5 frames "
         "(valid, random bytes, bit-flipped, truncated, inconsistent length); a stream is non-trivial when one of its payloads decodes to a command "
         "or a declared length exceeds the bytes that follow; distinct by (bytes, credential file)",
    exhaustive=False,
    trusted=["google.golang.org/protobuf Unmarshal is a parameter of the model (`decode`); per case it is the table of what the real Unmarshal returned",
             "bytes.Buffer/io.CopyN growth is abstracted by buf_cap n = 2n+512 (an upper bound of the buffer's capacity); memory of the decoded message (protobuf) is outside the model",
             "TCP segmentation, read deadlines, the connection limiter and write errors are outside the model (the client always reads and half-closes)",
             "Model.C18's handler terms (checked against the real service by C18 and again here)"],
    assumptions=["only the cluster listener is registered on the mux in the harness (raft's listener is hashicorp/raft's)",
                 "memory is observed as runtime.MemStats.TotalAlloc growth of the child while the stream is served"],
    case_preamble="From RQ Require Import Model.C19 Model.C18.\nFrom RQ Require Import Model.C35.\nOpen Scope string_scope.\n",
    level_text="C35_no_crash, C35_alloc_bounded, C35_no_state_change_without_perm_partial, C35_oversize_rejected hold for every byte sequence, every credential store and "
               "every protobuf decoder (an unconstrained parameter: the command type it yields is any integer Z, dispatched by the total function type_name); C35_state_change_refuted exhibits HIGHWATER_MARK_UPDATE.",
    level_note="frame reader modelled on bytes; handlers are C18's terms; tie = differential run of generated streams against a child-process node.",
    technique="Coq proof (induction over the connection's bytes) + child-process differential run with crash / memory / liveness oracle",
    design_ref="6/C35",
    timeout_quick=600, shard=150,
)
