From Coq Require Import List Arith Bool Lia.
From RQ Require Import Model.C03.
Import ListNotations.

(* ---- specification, from the property text ----
   After a crash at any moment and a restart, the database holds exactly the entries of the durable log
   (each once, in log order); every acknowledged write is among them.  [seqN m] is "entries 1..m, once each". *)
Definition crash_safe_at (s : st) : Prop :=
  let r := restart true s in
  content r = seqN (n s) /\ gap r = false /\ acked s <= n s.

(* ---- the invariant ("a fingerprint that matches the file says which state the file holds") ---- *)
Record Inv (s : st) : Prop := {
  inv_db : exists d, dbc s = seqN d /\ walc s = seq (S d) (applied s - d) /\ d <= applied s;
  inv_app : applied s <= n s;
  inv_snaps : Forall (fun x => snd x = seqN (fst x) /\ fst x <= n s) (snaps s);
  inv_tmp : forall i c, tmp s = Some (i, c) -> c = seqN i /\ i <= n s /\ (insnap s = true -> i = sidx s);
  inv_fp : forall v oi, fp s = Some (v, oi) -> exists i, oi = Some i /\ v <= ver s /\ (v = ver s -> dbc s = seqN i);
  inv_first : first s <= S (newest_idx s);
  inv_insnap : insnap s = true -> dbc s = seqN (sidx s) /\ sidx s <= n s /\ newest_idx s <= sidx s;
  inv_gap : gap s = false;
  inv_ack : acked s <= n s;
}.

Lemma list_eqb_eq (a : list nat) : forall b, list_eqb Nat.eqb a b = true -> a = b.
Proof.
  induction a as [|x a IH]; intros [|y b] H; cbn in H; try discriminate; [reflexivity|].
  apply andb_true_iff in H as [H1 H2]. apply Nat.eqb_eq in H1. subst. f_equal. apply IH. exact H2.
Qed.

Lemma seqN_app a b : seqN a ++ seq (S a) b = seqN (a + b).
Proof. unfold seqN. rewrite seq_app. reflexivity. Qed.

Lemma Forall_mono_n (l : list (nat * list nat)) a b : a <= b ->
  Forall (fun x => snd x = seqN (fst x) /\ fst x <= a) l -> Forall (fun x => snd x = seqN (fst x) /\ fst x <= b) l.
Proof. intros Hab H. eapply Forall_impl; [|exact H]. cbn. intros x [H1 H2]. split; [exact H1 | lia]. Qed.

Lemma inv_init : Inv init.
Proof.
  constructor; cbn; try discriminate; try lia; auto.
  exists 0. repeat split; auto.
Qed.

Lemma newest_in s i c l : snaps s = (i, c) :: l -> Inv s -> c = seqN i /\ i <= n s.
Proof.
  intros E I. pose proof (inv_snaps s I) as F. rewrite E in F. inversion F as [|x l' Hx _]; subst. exact Hx.
Qed.

Ltac inv_db_t := match goal with [ Hd : dbc ?s = seqN ?d |- exists _, _ /\ _ /\ _ ] => solve [exists d; repeat split; auto; lia] end.
Ltac inv_tmp_t := match goal with [ Htmp : forall i c, tmp ?s = Some (i, c) -> _ |- forall i c, _ = Some (i, c) -> _ ] =>
      solve [let i := fresh in let c := fresh in let H := fresh in
             intros i c H; destruct (Htmp i c H) as (?&?&?); repeat split; auto; try lia; try discriminate] end.
Ltac inv_fp_t := match goal with [ Hfp : forall v oi, fp ?s = Some (v, oi) -> _ |- forall v oi, _ = Some (v, oi) -> _ ] =>
      solve [let v := fresh in let oi := fresh in let H := fresh in let j := fresh in
             intros v oi H; destruct (Hfp v oi H) as (j&?&?&?); exists j; split; [assumption|]; split; [lia|]; first [assumption | intros; lia]] end.
Ltac inv_ins_t := match goal with [ Hins : insnap ?s = true -> _ |- _ = true -> _ ] =>
      solve [let H := fresh in intros H; destruct (Hins H) as (?&?&?); repeat split; auto; lia] end.
Ltac inv_first_t := match goal with [ E : snaps ?s = _, Hf : first ?s <= S (newest_idx ?s) |- _ <= _ ] =>
      solve [unfold newest_idx in *; cbn in *; rewrite E in *; cbn in *; lia] end.
Ltac inv_auto := first [inv_db_t | inv_tmp_t | inv_fp_t | inv_ins_t | inv_first_t | idtac].
Ltac start := constructor; cbn; try discriminate; auto; try lia; inv_auto.
Ltac open_inv I d := destruct I as [[d (Hd & Hw & Hda)] Happ Hsn Htmp Hfp Hfirst Hins Hgap Hack].

Lemma restart_inv s : Inv s -> Inv (restart true s) /\ content (restart true s) = seqN (n s).
Proof.
  intros I. open_inv I d.
  unfold restart. destruct (snaps s) as [|[i c] l] eqn:Es.
  - (* empty store *)
    assert (Hf1 : first s <= 1) by (unfold newest_idx in Hfirst; rewrite Es in Hfirst; exact Hfirst).
    split.
    + start.
      * exists 0. repeat split; [|lia]. f_equal. lia.
      * rewrite Hgap. cbn. destruct (Nat.leb_spec (first s) 1); [reflexivity | lia].
    + unfold content; cbn. reflexivity.
  - assert (Hic : c = seqN i /\ i <= n s).
    { inversion Hsn as [|x l' Hx _]; subst. exact Hx. }
    destruct Hic as [-> Hin].
    assert (Hfi : first s <= S i) by (unfold newest_idx in Hfirst; rewrite Es in Hfirst; exact Hfirst).
    assert (Hg : (gap s || (negb (first s <=? S i) && negb (n s <=? i)))%bool = false).
    { rewrite Hgap. cbn. destruct (Nat.leb_spec (first s) (S i)); [reflexivity | lia]. }
    assert (Hmax : Nat.max i (n s) = n s) by lia.
    destruct (fast_path s i) eqn:Hfast.
    + (* fast path: the fingerprint matches the file and names the newest snapshot *)
      unfold fast_path in Hfast. destruct (fp s) as [[v oi]|] eqn:Efp; [|discriminate].
      destruct (Hfp v oi eq_refl) as (j & -> & Hle & Hsame).
      apply andb_true_iff in Hfast as [Hv Hj].
      apply Nat.eqb_eq in Hv. apply Nat.eqb_eq in Hj. subst j.
      specialize (Hsame Hv).
      split.
      * start.
      * unfold content; cbn. rewrite Hsame, seqN_app. f_equal. lia.
    + (* restore of the newest snapshot *)
      split.
      * start.
        -- exists i. rewrite Hmax. repeat split; auto.
        -- intros v' oi' Hv'. inversion Hv'; subst. exists i. repeat split; auto.
      * unfold content; cbn. rewrite seqN_app. f_equal. lia.
Qed.

Lemma exec1_inv s m : Inv s -> Inv (exec1 true s m).
Proof.
  intros I.
  destruct m; cbn [exec1]; try (apply restart_inv; exact I).
  - (* MAppend *)
    open_inv I d. start.
    apply (Forall_mono_n _ (n s)); [lia | exact Hsn].
  - (* MApply *)
    destruct (Nat.ltb_spec (applied s) (n s)) as [Hlt|]; [|exact I].
    open_inv I d.
    assert (Hx : seq (S d) (applied s - d) ++ [S (applied s)] = seq (S d) (S (applied s) - d)).
    { replace (S (applied s) - d) with (S (applied s - d)) by lia. rewrite seq_S. f_equal. f_equal. lia. }
    start.
    exists d. split; [exact Hd|]. split; [rewrite Hw; exact Hx | lia].
  - (* MAck *)
    destruct (Nat.ltb_spec (acked s) (applied s)) as [Hlt|]; [|exact I].
    open_inv I d. start.
  - (* MCheckpoint *)
    destruct (Nat.leb_spec (newest_idx s) (applied s)) as [Hle|].
    + open_inv I d.
      assert (Hfull : dbc s ++ walc s = seqN (applied s)).
      { rewrite Hd, Hw, seqN_app. f_equal. lia. }
      assert (Hn0 : snaps s = [] -> first s <= 1) by (intros E0; unfold newest_idx in Hfirst; rewrite E0 in Hfirst; exact Hfirst).
      destruct (snaps s) as [|x l] eqn:Es; destruct (walc s) as [|w0 wl] eqn:Ew.
      * rewrite app_nil_r in Hfull. start.
        -- exists d. rewrite Ew. auto.
        -- intros _. repeat split; auto; lia.
      * rewrite <- Ew in *. start.
        -- exists (applied s). rewrite Nat.sub_diag. repeat split; auto.
        -- intros _. repeat split; auto; lia.
      * start. exists d. rewrite Ew. auto.
      * rewrite <- Ew in *. start.
        -- exists (applied s). rewrite Nat.sub_diag. repeat split; auto.
        -- intros _. repeat split; auto; unfold newest_idx in Hle; rewrite Es in Hle; exact Hle.
    + open_inv I d. start.
  - (* MStream *)
    destruct (insnap s) eqn:Ei; [|exact I].
    open_inv I d. destruct (Hins Ei) as (H1 & H2 & H3). start.
    intros i c Hi. inversion Hi; subst. repeat split; auto.
  - (* MFingerprint *)
    destruct (insnap s) eqn:Ei; [|exact I].
    destruct (tmp s) as [[i c]|] eqn:Et; [|exact I].
    open_inv I d. destruct (Hins Ei) as (H1 & H2 & H3).
    destruct (Htmp i c Et) as (T1 & T2 & T3). specialize (T3 Ei). subst i. start.
    + intros i c0 Hi. inversion Hi; subst. repeat split; auto.
    + intros v oi Hv. inversion Hv; subst. exists (sidx s). repeat split; auto.
  - (* MSinkClose *)
    destruct (insnap s) eqn:Ei; [|exact I].
    destruct (tmp s) as [[i c]|] eqn:Et; [|exact I].
    open_inv I d. destruct (Hins Ei) as (H1 & H2 & H3).
    destruct (Htmp i c Et) as (T1 & T2 & T3). specialize (T3 Ei). subst i. start.
  - (* MCompact *)
    destruct (insnap s) eqn:Ei; [|exact I].
    open_inv I d.
    destruct (snaps s) as [|[i c] l] eqn:Es.
    + start.
    + assert (Hc : (if t <? n s then Nat.max (first s) (S (Nat.min i (n s - t))) else first s) <= S i).
      { unfold newest_idx in Hfirst; rewrite Es in Hfirst. destruct (t <? n s); lia. }
      start.
  - (* MRelease *)
    open_inv I d. start.
  - (* MInstallClose *)
    open_inv I d. start.
    constructor; [cbn; auto | apply (Forall_mono_n _ (n s)); [lia | exact Hsn]].
  - (* MRestoreRmFp *)
    open_inv I d. start.
  - (* MRestoreSwap *)
    destruct (snaps s) as [|[i c] l] eqn:Es; [exact I|].
    destruct (newest_in s i c l Es I) as [-> Hin].
    open_inv I d. start.
    + exists i. rewrite Nat.sub_diag. repeat split; auto.
    + rewrite <- Es. exact Hsn.
  - (* MRestoreFp *)
    destruct (snaps s) as [|[i c] l] eqn:Es; [exact I|].
    destruct (list_eqb Nat.eqb (dbc s) c) eqn:Eq; [|exact I].
    apply list_eqb_eq in Eq.
    destruct (newest_in s i c l Es I) as [-> Hin].
    open_inv I d. start.
    + rewrite <- Es. exact Hsn.
    + intros v oi Hv. inversion Hv; subst. exists i. repeat split; auto.
    + intros Hi. destruct (Hins Hi) as (H1 & H2 & H3). unfold newest_idx in H3. rewrite Es in H3. repeat split; auto.
Qed.

Lemma exec_inv ms : forall s, Inv s -> Inv (exec true ms s).
Proof.
  induction ms as [|m ms IH]; intros s I; cbn [exec fold_left]; [exact I|].
  apply IH. apply exec1_inv. exact I.
Qed.

(* every schedule of micro-steps, crash after it, restart *)
Theorem crash_safe_any ms : crash_safe_at (exec true ms init).
Proof.
  pose proof (exec_inv ms init inv_init) as I.
  destruct (restart_inv _ I) as [I' Hc].
  unfold crash_safe_at. cbv zeta. split; [exact Hc|]. split; [apply (inv_gap _ I') | apply (inv_ack _ I)].
Qed.

(* the property: every history, every crash index *)
Theorem crash_safe h k : crash_safe_at (crashed true h k).
Proof. unfold crashed. apply crash_safe_any. Qed.

(* the DESIGN invariant in its own words: a fingerprint that matches the file and names the newest snapshot
   implies that the file holds exactly the state at that snapshot's index *)
Theorem fingerprint_invariant h k :
  let s := crashed true h k in
  forall i c l, snaps s = (i, c) :: l -> fast_path s i = true -> dbc s = seqN i /\ c = seqN i.
Proof.
  cbv zeta. intros i c l Es Hf.
  pose proof (exec_inv (firstn k (flatten h)) init inv_init) as I. fold (crashed true h k) in I.
  destruct (newest_in _ i c l Es I) as [Hc _]. split; [|exact Hc].
  unfold fast_path in Hf. destruct (fp (crashed true h k)) as [[v oi]|] eqn:Efp; [|discriminate].
  destruct (inv_fp _ I v oi Efp) as (j & -> & _ & Hsame).
  apply andb_true_iff in Hf as [Hv Hj]. apply Nat.eqb_eq in Hv. apply Nat.eqb_eq in Hj. subst j. auto.
Qed.

(* ---- the code before the repair: fingerprint without a snapshot index ---- *)
Definition witness_fp : list hop := [HWrite; HSnap None; HWrite; HWrite; HSnap None].
Definition witness_install : list hop := [HWrite; HSnap None; HWrite; HInstall 2].

(* crash between the fingerprint write and sink.Close of the second snapshot: entries 2,3 applied twice;
   crash between the Close of an incoming snapshot and its restore: entries 2..4 missing *)
Theorem unfixed_refuted :
  content (recovered false witness_fp 17) = [1; 2; 3; 2; 3]
  /\ content (recovered false witness_install 12) = [1] /\ n (crashed false witness_install 12) = 4.
Proof. vm_compute. auto. Qed.

(* non-vacuity: the same crash points on the repaired model *)
Example ex_fixed :
  content (recovered true witness_fp 17) = [1; 2; 3] /\ took_fast (crashed true witness_fp 17) = false
  /\ content (recovered true witness_install 12) = [1; 2; 3; 4]
  /\ took_fast (crashed true witness_fp 18) = true /\ content (recovered true witness_fp 18) = [1; 2; 3].
Proof. vm_compute. auto. Qed.
