From RQ Require Import Model.C11 Proofs.C11.
Theorem C11_stub : True. Proof. exact stub11. Qed.
Print Assumptions C11_stub.
