(* Tactics for the equivalence lemmas between source-derived definitions (coq/Gen) and the
   hand-written models: unfold, case-split on every scrutinee, close each leaf by computation,
   congruence or linear arithmetic.  The scripts never mention a local variable, a branch
   order or a statement order of the Go source, so equivalent rewrites of the source keep
   checking and behaviour changes do not. *)
From Coq Require Import List String ZArith NArith Bool Lia ZifyBool ZifyNat ZifyN.
From RQ Require Import Lib.GoLib.

(* unfold the helpers the translator added for the listed functions (Hint Unfold ... : gen_aux in coq/Gen) *)
Ltac aux := autounfold with gen_aux in *.

(* all integer comparisons as ltb / leb *)
Ltac norm_cmp := rewrite ?Z.gtb_ltb, ?Z.geb_leb in *.

(* one case split on an innermost scrutinee of the goal *)
Ltac split_one :=
  match goal with
  | |- context [if ?c then _ else _] =>
      lazymatch c with
      | context [if _ then _ else _] => fail
      | context [match _ with Some _ => _ | None => _ end] => fail
      | _ => idtac
      end;
      let E := fresh "E" in destruct c eqn:E
  | |- context [match ?c with Some _ => _ | None => _ end] =>
      lazymatch c with
      | context [if _ then _ else _] => fail
      | context [match _ with Some _ => _ | None => _ end] => fail
      | _ => idtac
      end;
      let E := fresh "E" in destruct c eqn:E
  | |- context [match ?c with Ret _ => _ | Panic _ => _ end] =>
      let E := fresh "E" in destruct c eqn:E
  | |- context [let '(_, _) := ?c in _] =>
      let E := fresh "E" in destruct c eqn:E
  end.

Ltac leaf :=
  try reflexivity; try congruence; try (exfalso; congruence);
  try lia; try (exfalso; lia);
  try (f_equal; (reflexivity || congruence || lia)).

Ltac gen_cases := intros; aux; norm_cmp; cbn; repeat (split_one; cbn in *; subst; norm_cmp); leaf.
