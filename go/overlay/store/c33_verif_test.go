package store

// C33 driver: histories of writes (foreign-key violating ones included), snapshots and loads on a single node,
// shutdown, a generated peers.json, re-open.  Observed: logical dump and configuration after the re-open.
// Oracle (independent of the model): the dump equals the dump taken just before shutdown, and the configuration
// is the peers file; a peers file rqlite documents as invalid is refused and leaves the node as it was.

import (
	"encoding/json"
	"errors"
	"fmt"
	"io"
	"log"
	"math/rand"
	"net"
	"os"
	"os/exec"
	"path/filepath"
	"strings"
	"sync"
	"testing"
	"time"

	"github.com/hashicorp/raft"
	"github.com/rqlite/rqlite/v10/snapshot"
	rlog "github.com/rqlite/rqlite/v10/store/log"
)

type c33Input struct {
	FK            bool       `json:"fk"`
	NoSnapOnClose bool       `json:"no_snapshot_on_close"`
	Steps         []vfStep   `json:"steps"`
	PeersKind     string     `json:"peers_kind"`
	Peers         []vfServer `json:"peers"`               // "SELF" in an address stands for the node's real address
	PeersRaw      string     `json:"peers_raw,omitempty"` // written verbatim instead (malformed file)
	Faults        []c33Fault `json:"faults,omitempty"`    // recovery attempts that fail / die before the one that is allowed to complete
}

// one failed recovery attempt: RecoverNode is called the way Store.Open calls it, over a snapshot store and a log
// store that fail (an I/O error is returned: RecoverNode's deferred clean-up runs) or at which the process dies
// (the data directory as it is at that moment is what the next start finds) at a given point
type c33Fault struct {
	Kind string `json:"kind"` // error | crash
	At   string `json:"at"`   // c33Points
}

// the points, in the order RecoverNode reaches them on the pinned tree
var c33Points = []string{"list", "open-snapshot", "getlog-first", "getlog-last", "create", "sink-write", "sink-close",
	"after-sink-close", "first-index", "delete-range", "after-delete-range"}
var c33ErrPoints = []string{"list", "open-snapshot", "getlog-first", "getlog-last", "create", "sink-write", "sink-close", "first-index", "delete-range"}

// validity of a peers file as documented: id and host:port address on every server, no duplicates, a voter
func c33PeersValid(l []vfServer) (bool, string) {
	ids, addrs, voters := map[string]bool{}, map[string]bool{}, 0
	for _, s := range l {
		if s.ID == "" {
			return false, "empty-id"
		}
		if s.Address == "" {
			return false, "empty-address"
		}
		if strings.Contains(s.Address, "://") {
			return false, "protocol-in-address"
		}
		if _, _, err := net.SplitHostPort(s.Address); err != nil {
			return false, "not-host-port"
		}
		if ids[s.ID] {
			return false, "duplicate-id"
		}
		if addrs[s.Address] {
			return false, "duplicate-address"
		}
		ids[s.ID], addrs[s.Address] = true, true
		if !s.NonVoter {
			voters++
		}
	}
	if voters == 0 {
		return false, "no-voter"
	}
	return true, ""
}

func c33GenSteps(r *rand.Rand) []vfStep {
	steps := []vfStep{{Kind: "schema"}}
	n := 2 + r.Intn(9)
	id := func() int64 { return int64(1 + r.Intn(4)) }
	pid := func() int64 {
		if r.Intn(4) == 0 {
			return 9
		}
		return id()
	}
	for i := 0; i < n; i++ {
		switch k := r.Intn(20); {
		case k < 3:
			steps = append(steps, vfStep{Kind: "snap", Trail: uint64(r.Intn(3))})
		case k < 4 && r.Intn(2) == 0:
			steps = append(steps, vfStep{Kind: "badload", Bad: vfBadKinds[r.Intn(len(vfBadKinds))]})
		case k < 4:
			var d vfDB
			for p := int64(1); p <= 4; p++ {
				if r.Intn(2) == 0 {
					d.P = append(d.P, p)
				}
			}
			for c := int64(1); c <= 3; c++ {
				if r.Intn(2) == 0 {
					d.C = append(d.C, [2]int64{c, pid()})
				}
			}
			steps = append(steps, vfStep{Kind: "load", Load: &d})
		default:
			st := vfStep{Kind: "req", Tx: r.Intn(4) == 0}
			for j := 0; j <= r.Intn(3); j++ {
				switch r.Intn(10) {
				case 0, 1, 2:
					st.Stmts = append(st.Stmts, vfStmt{K: "insp", ID: id()})
				case 3, 4, 5, 6:
					st.Stmts = append(st.Stmts, vfStmt{K: "insc", ID: id(), PID: pid()})
				case 7:
					st.Stmts = append(st.Stmts, vfStmt{K: "delp", ID: id()})
				case 8:
					st.Stmts = append(st.Stmts, vfStmt{K: "delc", ID: id()})
				default:
					st.Stmts = append(st.Stmts, vfStmt{K: "updc", ID: id(), PID: pid()})
				}
			}
			steps = append(steps, st)
		}
	}
	return steps
}

func c33GenPeers(r *rand.Rand, in *c33Input) {
	self := vfServer{ID: "n0", Address: "SELF"}
	other := func(i int) vfServer {
		return vfServer{ID: fmt.Sprintf("n%d", i), Address: fmt.Sprintf("10.0.0.%d:4002", i), NonVoter: r.Intn(3) == 0}
	}
	kinds := []string{"self", "self", "self+others", "self+others", "moved", "others-only", "self-nonvoter+voter",
		"duplicate-id", "duplicate-address", "no-voter", "empty-id", "empty-address", "protocol-in-address", "no-port", "too-many-colons", "empty-list", "malformed-json"}
	in.PeersKind = kinds[r.Intn(len(kinds))]
	switch in.PeersKind {
	case "self":
		in.Peers = []vfServer{self}
	case "self+others":
		in.Peers = []vfServer{self, other(1), other(2)}
		if r.Intn(2) == 0 {
			in.Peers = []vfServer{other(2), self}
		}
	case "moved":
		in.Peers = []vfServer{{ID: "n0", Address: "localhost:4999"}, other(1)}
	case "others-only":
		o := other(1)
		o.NonVoter = false
		in.Peers = []vfServer{o, other(2)}
	case "self-nonvoter+voter":
		o := other(1)
		o.NonVoter = false
		in.Peers = []vfServer{{ID: "n0", Address: "SELF", NonVoter: true}, o}
	case "duplicate-id":
		in.Peers = []vfServer{self, {ID: "n0", Address: "10.0.0.9:4002"}}
	case "duplicate-address":
		in.Peers = []vfServer{self, {ID: "n7", Address: "SELF"}}
	case "no-voter":
		in.Peers = []vfServer{{ID: "n0", Address: "SELF", NonVoter: true}, {ID: "n1", Address: "10.0.0.1:4002", NonVoter: true}}
	case "empty-id":
		in.Peers = []vfServer{self, {ID: "", Address: "10.0.0.1:4002"}}
	case "empty-address":
		in.Peers = []vfServer{self, {ID: "n1", Address: ""}}
	case "protocol-in-address":
		in.Peers = []vfServer{self, {ID: "n1", Address: "http://10.0.0.1:4002"}}
	case "no-port":
		in.Peers = []vfServer{self, {ID: "n1", Address: "10.0.0.1"}}
	case "too-many-colons":
		in.Peers = []vfServer{self, {ID: "n1", Address: "10.0.0.1:4002:7"}}
	case "empty-list":
		in.Peers = []vfServer{}
	case "malformed-json":
		in.PeersRaw = []string{`[{"id": "n0", "address": "SELF"`, `{"id": "n0"}`, `not json`, ``}[r.Intn(4)]
	}
}

func c33GenFault(r *rand.Rand) c33Fault {
	if r.Intn(2) == 0 {
		return c33Fault{Kind: "error", At: c33ErrPoints[r.Intn(len(c33ErrPoints))]}
	}
	return c33Fault{Kind: "crash", At: c33Points[r.Intn(len(c33Points))]}
}

func c33Gen(r *rand.Rand) c33Input {
	in := c33Input{FK: r.Intn(10) < 6, NoSnapOnClose: r.Intn(4) != 0, Steps: c33GenSteps(r)}
	c33GenPeers(r, &in)
	switch k := r.Intn(10); {
	case k < 4:
		in.Faults = []c33Fault{c33GenFault(r)}
	case k < 6:
		in.Faults = []c33Fault{c33GenFault(r), c33GenFault(r)}
	}
	return in
}

// the case of DESIGN.md section 7 row 23 and relatives
func c33Corpus() []c33Input {
	self := []vfServer{{ID: "n0", Address: "SELF"}}
	fkViol := []vfStep{{Kind: "schema"},
		{Kind: "req", Stmts: []vfStmt{{K: "insp", ID: 1}, {K: "insc", ID: 1, PID: 1}}},
		{Kind: "req", Stmts: []vfStmt{{K: "insc", ID: 2, PID: 99}}}}
	delParent := []vfStep{{Kind: "schema"},
		{Kind: "req", Stmts: []vfStmt{{K: "insp", ID: 1}, {K: "insp", ID: 2}, {K: "insc", ID: 1, PID: 1}}},
		{Kind: "snap", Trail: 1},
		{Kind: "req", Tx: true, Stmts: []vfStmt{{K: "insp", ID: 3}, {K: "delp", ID: 1}}},
		{Kind: "req", Stmts: []vfStmt{{K: "updc", ID: 1, PID: 7}, {K: "insc", ID: 2, PID: 2}}}}
	var out []c33Input
	for _, fk := range []bool{true, false} {
		for _, nos := range []bool{true, false} {
			out = append(out, c33Input{FK: fk, NoSnapOnClose: nos, Steps: fkViol, PeersKind: "self", Peers: self})
			out = append(out, c33Input{FK: fk, NoSnapOnClose: nos, Steps: delParent, PeersKind: "self", Peers: self})
		}
	}
	// a recovery attempt fails at every reachable point, then recovery is repeated (with and without a snapshot on disk)
	for _, steps := range [][]vfStep{delParent, fkViol} {
		for _, p := range c33ErrPoints {
			out = append(out, c33Input{FK: false, NoSnapOnClose: true, Steps: steps, PeersKind: "self", Peers: self, Faults: []c33Fault{{Kind: "error", At: p}}})
		}
		for _, p := range c33Points {
			out = append(out, c33Input{FK: true, NoSnapOnClose: true, Steps: steps, PeersKind: "self", Peers: self, Faults: []c33Fault{{Kind: "crash", At: p}}})
		}
	}
	// a load every node refused, at each position relative to the newest snapshot, the log really replayed
	for i, bad := range vfBadKinds {
		after := []vfStep{{Kind: "schema"},
			{Kind: "req", Stmts: []vfStmt{{K: "insp", ID: 1}, {K: "insc", ID: 1, PID: 1}}},
			{Kind: "snap", Trail: uint64(i % 2)},
			{Kind: "req", Stmts: []vfStmt{{K: "insp", ID: 2}}},
			{Kind: "badload", Bad: bad},
			{Kind: "req", Stmts: []vfStmt{{K: "insc", ID: 2, PID: 2}}}}
		before := []vfStep{{Kind: "schema"},
			{Kind: "req", Stmts: []vfStmt{{K: "insp", ID: 1}}},
			{Kind: "badload", Bad: bad},
			{Kind: "snap", Trail: 1},
			{Kind: "req", Stmts: []vfStmt{{K: "insc", ID: 1, PID: 1}}}}
		noSnap := []vfStep{{Kind: "schema"}, {Kind: "req", Stmts: []vfStmt{{K: "insp", ID: 3}}}, {Kind: "badload", Bad: bad}}
		for _, st := range [][]vfStep{after, before, noSnap} {
			out = append(out, c33Input{FK: i%2 == 0, NoSnapOnClose: true, Steps: st, PeersKind: "self", Peers: self})
		}
	}
	// the newest snapshot is an incremental one when the attempt fails
	twoSnaps := []vfStep{{Kind: "schema"},
		{Kind: "req", Stmts: []vfStmt{{K: "insp", ID: 1}, {K: "insc", ID: 1, PID: 1}}},
		{Kind: "snap"},
		{Kind: "req", Stmts: []vfStmt{{K: "insp", ID: 2}}},
		{Kind: "snap"},
		{Kind: "req", Stmts: []vfStmt{{K: "insc", ID: 2, PID: 2}, {K: "insc", ID: 3, PID: 9}}}}
	for _, f := range []c33Fault{{Kind: "error", At: "create"}, {Kind: "crash", At: "sink-write"}, {Kind: "error", At: "getlog-last"}} {
		out = append(out, c33Input{FK: true, NoSnapOnClose: true, Steps: twoSnaps, PeersKind: "self", Peers: self, Faults: []c33Fault{f}})
	}
	out = append(out, c33Input{FK: true, NoSnapOnClose: true, Steps: fkViol, PeersKind: "no-voter", Peers: []vfServer{{ID: "n0", Address: "SELF", NonVoter: true}}})
	out = append(out, c33Input{FK: true, NoSnapOnClose: true, Steps: []vfStep{{Kind: "schema"}}, PeersKind: "self", Peers: self})
	return out
}

var errC33Injected = errors.New("injected fault: no space left on device")

type c33Hook struct {
	f     c33Fault
	dir   string // the node's data directory
	img   string // where the crash image goes
	fired bool
	imgOK bool
	nget  int
	last  uint64
}

func (h *c33Hook) hit(point string) error {
	if h.fired || point != h.f.At {
		return nil
	}
	h.fired = true
	if h.f.Kind == "crash" {
		if out, err := exec.Command("cp", "-a", h.dir, h.img).CombinedOutput(); err != nil {
			return fmt.Errorf("crash image: %v %s", err, out)
		}
		h.imgOK = true
		return errors.New("process died here (crash image taken)")
	}
	return errC33Injected
}

type c33Snaps struct {
	*snapshot.Store
	h *c33Hook
}

func (s *c33Snaps) List() ([]*raft.SnapshotMeta, error) {
	if err := s.h.hit("list"); err != nil {
		return nil, err
	}
	return s.Store.List()
}
func (s *c33Snaps) Open(id string) (*raft.SnapshotMeta, io.ReadCloser, error) {
	if err := s.h.hit("open-snapshot"); err != nil {
		return nil, nil, err
	}
	return s.Store.Open(id)
}
func (s *c33Snaps) Create(v raft.SnapshotVersion, index, term uint64, c raft.Configuration, ci uint64, tn raft.Transport) (raft.SnapshotSink, error) {
	if err := s.h.hit("create"); err != nil {
		return nil, err
	}
	sk, err := s.Store.Create(v, index, term, c, ci, tn)
	if err != nil {
		return nil, err
	}
	return &c33Sink{SnapshotSink: sk, h: s.h}, nil
}

type c33Sink struct {
	raft.SnapshotSink
	h *c33Hook
}

func (k *c33Sink) Write(p []byte) (int, error) {
	if len(p) > 1 {
		// part of the data reaches the disk before the fault
		n, _ := k.SnapshotSink.Write(p[:len(p)/2])
		if err := k.h.hit("sink-write"); err != nil {
			return n, err
		}
		m, err := k.SnapshotSink.Write(p[len(p)/2:])
		return n + m, err
	}
	return k.SnapshotSink.Write(p)
}
func (k *c33Sink) Close() error {
	if err := k.h.hit("sink-close"); err != nil {
		k.SnapshotSink.Cancel()
		return err
	}
	if err := k.SnapshotSink.Close(); err != nil {
		return err
	}
	return k.h.hit("after-sink-close")
}

type c33Logs struct {
	raft.LogStore
	h *c33Hook
}

func (l *c33Logs) LastIndex() (uint64, error) {
	n, err := l.LogStore.LastIndex()
	l.h.last = n
	return n, err
}
func (l *c33Logs) GetLog(i uint64, out *raft.Log) error {
	l.h.nget++
	if l.h.nget == 1 {
		if err := l.h.hit("getlog-first"); err != nil {
			return err
		}
	}
	if i == l.h.last {
		if err := l.h.hit("getlog-last"); err != nil {
			return err
		}
	}
	return l.LogStore.GetLog(i, out)
}
func (l *c33Logs) FirstIndex() (uint64, error) {
	if err := l.h.hit("first-index"); err != nil {
		return 0, err
	}
	return l.LogStore.FirstIndex()
}
func (l *c33Logs) DeleteRange(a, b uint64) error {
	if err := l.h.hit("delete-range"); err != nil {
		return err
	}
	if err := l.LogStore.DeleteRange(a, b); err != nil {
		return err
	}
	return l.h.hit("after-delete-range")
}

// c33FailedAttempt runs one recovery attempt that does not complete. It returns the directory the node lives in
// afterwards (the crash image for a crash), whether the fault point was reached, and RecoverNode's error.
func c33FailedAttempt(dir string, fk bool, f c33Fault, n int) (string, bool, error, error) {
	s := vfNewStore("n0", dir, fk, nil)
	defer s.ly.Close()
	conf, err := raft.ReadConfigJSON(s.peersPath)
	if err != nil {
		return dir, false, nil, fmt.Errorf("peers: %w", err)
	}
	sstr, err := snapshot.NewStore(s.snapshotDir)
	if err != nil {
		return dir, false, nil, err
	}
	defer sstr.Close()
	// no reaping in the background of this attempt: a crash image copied while the reaper rewrites the snapshot
	// directory is not a state the disk was ever in
	sstr.SetReapThreshold(1 << 30)
	bolt, err := rlog.New(s.raftDBPath, false)
	if err != nil {
		return dir, false, nil, err
	}
	defer bolt.Close()
	cache, err := raft.NewLogCache(raftLogCacheSize, bolt)
	if err != nil {
		return dir, false, nil, err
	}
	h := &c33Hook{f: f, dir: dir, img: fmt.Sprintf("%s-img%d", dir, n)}
	// as Store.Open does before it calls RecoverNode
	os.Remove(s.cleanSnapshotPath)
	lg := log.New(io.Discard, "", 0)
	rerr := RecoverNode(s.raftDir, nil, fk, lg, &c33Logs{LogStore: cache, h: h}, bolt, &c33Snaps{Store: sstr, h: h}, nil, conf)
	if h.f.Kind == "crash" && h.fired {
		if !h.imgOK {
			return dir, true, rerr, fmt.Errorf("crash image failed: %v", rerr)
		}
		return h.img, true, rerr, nil
	}
	return dir, h.fired, rerr, nil
}

// A refusal to repeat the recovery that does not show again when the very same case is run once more (an I/O hiccup or a
// timeout on a loaded machine) is not a finding; a defect of the recovery code shows every time.
func c33Run(w *vWriter, in c33Input) {
	var got VCase
	c33Once(func(v VCase) { got = v }, in)
	if strings.HasPrefix(got.Sig, "C33:recovery-retry-fails") || got.Sig == "C33:valid-peers-refused" || got.Sig == "C33:refused-recovery-broke-node" {
		var again VCase
		c33Once(func(v VCase) { again = v }, in)
		if again.OracleFail == "" && again.Inconcl == "" {
			again.Tags = append(again.Tags, "not-reproduced-on-rerun:"+got.Sig)
			got = again
		}
	}
	w.Emit(got)
}

func c33Once(emit func(VCase), in c33Input) {
	vc := VCase{Input: in, Key: vJSON(in), Tags: []string{"peers:" + in.PeersKind, fmt.Sprintf("fk=%v", in.FK), fmt.Sprintf("nosnap-on-close=%v", in.NoSnapOnClose)}}
	fail := func(format string, a ...any) {
		vc.Inconcl = fmt.Sprintf(format, a...)
		emit(vc)
	}
	dir, err := os.MkdirTemp("", "c33-")
	if err != nil {
		fail("tempdir: %v", err)
		return
	}
	defer os.RemoveAll(dir)
	s := vfNewStore("n0", dir, in.FK, nil)
	defer s.ly.Close()
	if err := s.Open(); err != nil {
		fail("open: %v", err)
		return
	}
	closed := false
	defer func() {
		if !closed {
			s.Close(true)
		}
	}()
	if err := s.Bootstrap(NewServer(s.ID(), s.Addr(), true)); err != nil {
		fail("bootstrap: %v", err)
		return
	}
	if _, err := s.WaitForLeader(10 * time.Second); err != nil {
		fail("leader: %v", err)
		return
	}
	cmds := map[uint64]vfStep{}
	nsnap, nload, nrej := 0, 0, 0
	for _, st := range in.Steps {
		if st.Kind == "snap" {
			if err := s.Snapshot(st.Trail); err != nil && err != ErrNothingNewToSnapshot && err != ErrNoWALToSnapshot {
				fail("snapshot: %v", err)
				return
			}
			nsnap++
			continue
		}
		idx, err := vfExec(s, st)
		if err != nil {
			fail("exec %v: %v", st, err)
			return
		}
		if st.Kind == "load" {
			nload++
		}
		if st.Kind == "badload" {
			vc.Tags = append(vc.Tags, "rejected-load:"+st.Bad)
		}
		cmds[idx] = st
	}
	live, err := vfDump(s)
	if err != nil {
		fail("dump: %v", err)
		return
	}
	conf0, err := vfConfig(s)
	if err != nil {
		fail("config: %v", err)
		return
	}
	addr := s.Addr()
	s.NoSnapshotOnClose = in.NoSnapOnClose
	if err := s.Close(true); err != nil {
		fail("close: %v", err)
		return
	}
	closed = true
	disk, err := vfReadDisk(s.raftDir)
	if err != nil {
		fail("read disk: %v", err)
		return
	}
	if err := disk.checkLog(cmds); err != nil {
		fail("log differs from the driver's record: %v", err)
		return
	}
	last := disk.Last
	if disk.SnapIndex > last {
		last = disk.SnapIndex
	}
	// the peers file
	peers := make([]vfServer, len(in.Peers))
	for i, p := range in.Peers {
		p.Address = strings.ReplaceAll(p.Address, "SELF", addr)
		peers[i] = p
	}
	raw := strings.ReplaceAll(in.PeersRaw, "SELF", addr)
	if in.PeersKind != "malformed-json" {
		raw = vfPeersJSON(peers)
	}
	if err := os.WriteFile(s.peersPath, []byte(raw), 0644); err != nil {
		fail("write peers: %v", err)
		return
	}
	valid, why := c33PeersValid(peers)
	if in.PeersKind == "malformed-json" {
		valid, why = false, "malformed-json"
	}

	// recovery attempts that fail or die; the node afterwards lives in `cur` (a crash image replaces the directory)
	cur := dir
	var attempts []string // per fault: reached / completed
	defer func() {
		if m, _ := filepath.Glob(dir + "-img*"); len(m) > 0 {
			for _, d := range m {
				os.RemoveAll(d)
			}
		}
	}()
	var faultsCoq []string
	if valid {
		for i, f := range in.Faults {
			nd, fired, rerr, err := c33FailedAttempt(cur, in.FK, f, i)
			if err != nil {
				fail("failed attempt %v: %v", f, err)
				return
			}
			if fired && f.Kind == "error" && rerr == nil {
				vc.OracleFail = fmt.Sprintf("RecoverNode reported success although %s failed", f.At)
				vc.Sig = "C33:recovery-ignores-error:" + f.At
				emit(vc)
				return
			}
			if !fired && rerr != nil {
				vc.OracleFail = fmt.Sprintf("recovery attempt %d (after %v) fails without an injected fault: %v", i+1, attempts, rerr)
				vc.Sig = "C33:recovery-retry-fails:" + c33ErrClass(rerr)
				emit(vc)
				return
			}
			cur = nd
			st := "reached"
			if !fired {
				st = "not-reached"
			}
			attempts = append(attempts, f.Kind+"@"+f.At+":"+st)
			vc.Tags = append(vc.Tags, "fault:"+f.Kind+"@"+f.At+":"+st)
			faultsCoq = append(faultsCoq, fmt.Sprintf("(%s, %s)", c33PointCoq(f.At), coqBool(f.Kind == "crash")))
		}
	}

	sf := vfNewStore("n0", cur, in.FK, nil)
	defer sf.ly.Close()
	sf.NoSnapshotOnClose = true
	openErr := sf.Open()
	var after vfDB
	var conf []vfServer
	var lastSnap uint64
	if openErr == nil {
		after, err = vfDump(sf)
		if err == nil {
			conf, err = vfConfig(sf)
		}
		if cerr := sf.Close(true); err == nil {
			err = cerr
		}
		if err != nil {
			fail("after recovery: %v", err)
			return
		}
		d2, err := vfReadDisk(sf.raftDir)
		if err != nil {
			fail("read disk after recovery: %v", err)
			return
		}
		lastSnap = d2.SnapIndex
		if fileExistsC33(sf.peersPath) {
			vc.OracleFail = "peers.json is still in place after a successful recovery"
			vc.Sig = "C33:peers-file-not-renamed"
			emit(vc)
			return
		}
	} else {
		// a failed Open leaves its file handles behind; release them and look at the node again without the file
		if sf.boltStore != nil {
			sf.boltStore.Close()
		}
		if sf.snapshotStore != nil {
			sf.snapshotStore.Close()
		}
		if sf.raftTn != nil {
			sf.raftTn.Close()
		}
		if valid && len(attempts) > 0 {
			vc.OracleFail = fmt.Sprintf("after the failed attempt(s) %v the recovery cannot be repeated: %v", attempts, openErr)
			vc.Sig = "C33:recovery-retry-fails:" + c33ErrClass(openErr)
			emit(vc)
			return
		}
		os.Remove(sf.peersPath)
		s2 := vfNewStore("n0", cur, in.FK, nil)
		defer s2.ly.Close()
		s2.NoSnapshotOnClose = true
		if err := s2.Open(); err != nil {
			vc.OracleFail = fmt.Sprintf("peers file (%s) refused with %q, and the node does not open any more: %v", in.PeersKind, openErr, err)
			vc.Sig = "C33:refused-recovery-broke-node"
			emit(vc)
			return
		}
		// the entries after the newest snapshot are applied once the node leads again
		if _, err = s2.WaitForLeader(10 * time.Second); err == nil {
			err = s2.raft.Barrier(10 * time.Second).Error()
		}
		if err == nil {
			after, err = vfDump(s2)
		}
		if err == nil {
			conf, err = vfConfig(s2)
		}
		s2.Close(true)
		if err != nil {
			fail("after refused recovery: %v", err)
			return
		}
	}

	hasTrunc := disk.First > 1
	rejected := false
	// statements the live node rejected: the dump of a history replayed without foreign keys would differ
	for _, st := range in.Steps {
		for _, x := range st.Stmts {
			if (x.K == "insc" || x.K == "updc") && x.PID == 9 {
				rejected = true
			}
		}
	}
	if rejected && in.FK {
		nrej++
	}
	vc.Tags = append(vc.Tags, fmt.Sprintf("snapshots-on-disk=%d", disk.NSnaps), fmt.Sprintf("log-truncated=%v", hasTrunc), fmt.Sprintf("loads=%d", nload))
	if nrej > 0 {
		vc.Tags = append(vc.Tags, "fk-violating-write")
	}
	replayed := disk.Last > disk.SnapIndex
	if replayed {
		vc.Tags = append(vc.Tags, "entries-after-snapshot")
	}
	vc.Nontrivial = valid && replayed && len(cmds) > 1
	retried := ""
	if len(attempts) > 0 {
		retried = ":after-failed-attempt"
		vc.Tags = append(vc.Tags, fmt.Sprintf("failed-attempts=%d", len(attempts)))
	}
	vc.Coq = fmt.Sprintf("{| c_node := %s; c_hist := %s; c_live := %s; c_peers := %s; c_faults := %s; c_ok := %s; c_db := %s; c_conf := %s; c_last := %d%%nat |}",
		disk.coqNode(in.FK, cmds, conf0), vfEntries(cmds, 1, last), live.coq(), vfServersCoq(peers), coqList(faultsCoq), coqBool(openErr == nil), after.coq(), vfServersCoq(conf), lastSnap)
	if in.PeersKind == "malformed-json" {
		vc.Coq = "" // the model starts from a parsed file
	}
	fkTag := "fk-off"
	if in.FK {
		fkTag = "fk-on"
	}
	switch {
	case valid && openErr != nil:
		vc.OracleFail = fmt.Sprintf("valid peers file %s refused: %v", raw, openErr)
		vc.Sig = "C33:valid-peers-refused"
	case !valid && openErr == nil:
		vc.OracleFail = fmt.Sprintf("invalid peers file (%s) %s accepted", why, raw)
		vc.Sig = "C33:invalid-peers-accepted:" + why
	case !after.equal(live):
		what := "recovered"
		if openErr != nil {
			what = "refused-recovery"
		}
		kind := "rows-differ"
		if len(after.P)+len(after.C) > len(live.P)+len(live.C) {
			kind = "extra-rows"
		} else if len(after.P)+len(after.C) < len(live.P)+len(live.C) {
			kind = "missing-rows"
		}
		vc.OracleFail = fmt.Sprintf("node held %s before shutdown and %s after the re-open (%s, %s, peers %s)", live, after, what, fkTag, in.PeersKind)
		if retried != "" {
			vc.OracleFail += fmt.Sprintf(" after the failed attempt(s) %v", attempts)
		}
		vc.Sig = fmt.Sprintf("C33:%s-data-differs:%s:%s%s", what, kind, fkTag, retried)
		for _, st := range in.Steps {
			if st.Kind == "badload" {
				vc.Sig += ":rejected-load-in-history"
				break
			}
		}
	case valid && vJSON(conf) != vJSON(peers):
		vc.OracleFail = fmt.Sprintf("configuration after recovery %s, peers file %s", vJSON(conf), raw)
		vc.Sig = "C33:configuration-differs-from-peers-file"
	case !valid && vJSON(conf) != vJSON(conf0):
		vc.OracleFail = fmt.Sprintf("refused peers file changed the configuration from %s to %s", vJSON(conf0), vJSON(conf))
		vc.Sig = "C33:refused-recovery-changed-configuration"
	case valid && lastSnap != last:
		vc.OracleFail = fmt.Sprintf("newest snapshot after recovery is at index %d, the node had applied up to %d", lastSnap, last)
		vc.Sig = "C33:recovery-snapshot-index"
	}
	emit(vc)
}

func fileExistsC33(p string) bool { _, err := os.Stat(p); return err == nil }

func c33ErrClass(err error) string {
	switch m := err.Error(); {
	case strings.Contains(m, "existing WAL"):
		return "stale-recovery-wal"
	case strings.Contains(m, "failed to get log"):
		return "log-entry-missing"
	case strings.Contains(m, "snapshot"):
		return "snapshot"
	default:
		return "other"
	}
}

func c33PointCoq(at string) string {
	return map[string]string{"list": "PList", "open-snapshot": "POpenSnapshot", "getlog-first": "PGetLogFirst", "getlog-last": "PGetLogLast",
		"create": "PCreate", "sink-write": "PSinkWrite", "sink-close": "PSinkClose", "after-sink-close": "PAfterSinkClose",
		"first-index": "PFirstIndex", "delete-range": "PDeleteRange", "after-delete-range": "PAfterDeleteRange"}[at]
}

func TestVerif_C33(t *testing.T) {
	w := vOpen()
	defer w.Close()
	if raw := vReplayInput(); raw != nil {
		var in c33Input
		if err := json.Unmarshal(raw, &in); err != nil {
			t.Fatal(err)
		}
		c33Run(w, in)
		return
	}
	rng := vRand()
	ins := c33Corpus()
	n := vN(55, 1500)
	for i := 0; i < n; i++ {
		ins = append(ins, c33Gen(rng))
	}
	ch := make(chan c33Input)
	var wg sync.WaitGroup
	for k := 0; k < 8; k++ {
		wg.Add(1)
		go func() {
			defer wg.Done()
			for in := range ch {
				c33Run(w, in)
			}
		}()
	}
	for _, in := range ins {
		ch <- in
	}
	close(ch)
	wg.Wait()
	_ = filepath.Join
}
