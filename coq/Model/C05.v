(* C05 — model of db/wal: Reader.ReadFrame (valid-prefix detection), CompactingFrameScanner.scan
   (latest committed frame per page, offset order, open transaction = error), Next/Writer.WriteTo
   (emission of the selected frames).  Executable definitions only; proofs are in Proofs/C05.v. *)
From Coq Require Import List NArith Bool.
From RQ Require Export Lib.C05_PageDB.
Import ListNotations.
Local Open Scope N_scope.

(* A frame slot of a WAL file as the reader meets it: the frame, whether its salts equal the
   header's, whether its checksum continues the chain, whether its page image is completely
   present in the file (false only for a file cut inside the last frame's page). A slot whose
   24-byte frame header is incomplete is not a slot at all (ReadFrame: io.EOF). *)
Record rframe := { rf : frame; salt_ok : bool; ck_ok : bool; data_ok : bool }.

(* Reader.ReadFrame(data): salt comparison always; page read + checksum only when data != nil
   (fullScan).  With data == nil the page is skipped by Seek, which cannot fail. *)
Definition acceptable (full : bool) (r : rframe) : bool :=
  salt_ok r && (if full then data_ok r && ck_ok r else true).

(* the frames the scan loop receives before ReadFrame answers io.EOF *)
Fixpoint vprefix (full : bool) (w : list rframe) : list rframe :=
  match w with
  | [] => []
  | r :: t => if acceptable full r then r :: vprefix full t else []
  end.

(* Go maps pgno -> *cFrame as last-write-wins association lists pgno -> frame index *)
Definition amap := list (N * nat).
Fixpoint lookup (m : amap) (p : N) : option nat :=
  match m with [] => None | (q, i) :: r => if N.eqb q p then Some i else lookup r p end.
Definition upd (m : amap) (p : N) (i : nat) : amap := (p, i) :: m.
(* maps.Copy(frames, txFrames): entries of tx override *)
Definition merge (frames tx : amap) : amap := tx ++ frames.

Record sc := { fr : amap; tx : amap; waiting : bool }.
Definition sc0 := {| fr := []; tx := []; waiting := false |}.

(* one iteration of the loop in scan() *)
Definition sstep (s : sc) (x : nat * frame) : sc :=
  let '(i, f) := x in
  let tx' := upd (tx s) (pg f) i in
  if is_commit f then {| fr := merge (fr s) tx'; tx := []; waiting := false |}
  else {| fr := fr s; tx := tx'; waiting := true |}.

Fixpoint indexed_from {A : Type} (n : nat) (w : list A) : list (nat * A) :=
  match w with [] => [] | f :: r => (n, f) :: indexed_from (S n) r end.

(* frame i (for page p) is the one the map holds for p *)
Definition sel (m : amap) (i : nat) (p : N) : bool :=
  match lookup m p with Some j => Nat.eqb j i | None => false end.

(* the map's values sorted by offset == the input frames the map points at, in input order *)
Definition select_i (m : amap) (iw : list (nat * frame)) : list (nat * frame) :=
  filter (fun x => sel m (fst x) (pg (snd x))) iw.

Inductive result :=
| Ok (l : list (nat * frame))   (* emitted frames with their source frame index *)
| ErrOpenTx                     (* ErrOpenTransaction *)
| ErrZeroPage                   (* ErrZeroPageNumber *)
| ErrShortRead                  (* Next(): page image not completely in the file *)
| ErrHeader.                    (* ReadHeader failed *)

Definition zero_pg (r : rframe) : bool := pg (rf r) =? 0.

(* NewCompactingFrameScanner(r, k, full) followed by NewWriter(s).WriteTo *)
Definition run (full : bool) (k : nat) (w : list rframe) : result :=
  let v := vprefix full (skipn k w) in
  if existsb zero_pg v then ErrZeroPage else
  let iw := indexed_from k (map rf v) in
  let s := fold_left sstep iw sc0 in
  if waiting s then ErrOpenTx else
  if existsb (fun x => negb (data_ok (snd x)) && sel (fr s) (fst x) (pg (rf (snd x))))
             (indexed_from k v)
  then ErrShortRead
  else Ok (select_i (fr s) iw).

(* ---- correspondence ---- *)

Record case := {
  c_hdr_ok : bool;            (* 32-byte header present, known magic and version, checksum right *)
  c_full : bool;              (* fullScan *)
  c_k : nat;                  (* startFrame *)
  c_wal : list rframe;        (* the file's frame slots, parsed by the driver's own reader *)
  c_res : result;             (* what the real scanner + writer did *)
  c_base : list N;            (* page images of the database the compacted WAL was checkpointed into *)
  c_final : option (list N)   (* page images of that database after real SQLite's checkpoint *)
}.

Definition model_run (c : case) : result :=
  if c_hdr_ok c then run (c_full c) (c_k c) (c_wal c) else ErrHeader.

Definition frame_eqb (a b : frame) : bool :=
  (pg a =? pg b) && (cm a =? cm b) && (ct a =? ct b).

Fixpoint out_eqb (a b : list (nat * frame)) : bool :=
  match a, b with
  | [], [] => true
  | (i, f) :: a', (j, g) :: b' => Nat.eqb i j && frame_eqb f g && out_eqb a' b'
  | _, _ => false
  end.

Definition result_eqb (a b : result) : bool :=
  match a, b with
  | Ok x, Ok y => out_eqb x y
  | ErrOpenTx, ErrOpenTx | ErrZeroPage, ErrZeroPage
  | ErrShortRead, ErrShortRead | ErrHeader, ErrHeader => true
  | _, _ => false
  end.

Definition check_case (c : case) : bool :=
  result_eqb (model_run c) (c_res c)
  && match model_run c, c_final c with
     | Ok out, Some obs =>
         list_N_eqb (db_pages (checkpoint (db_of_list (c_base c)) (map snd out))) obs
     | _, _ => true
     end.
