# C37 — configuration read by bin/check (see checks/registry.py)
SPEC = dict(
    title="Automatic backups upload every change",
    pkg="./auto/backup", files=["auto/backup/c37_verif_test.go"],
    case_preamble="Open Scope N_scope.\n",
    rule="histories of 2..13 events (writes, and upload rounds with writes landing before the index read / between index read and data copy, "
         "LastIndex/Provide/CurrentID failures, storage failures before or after reading) against a scripted provider+storage with 6 kinds of initial "
         "storage id, plus histories on a real single-node store through the real store.Provider in all four vacuum/compress configurations; "
         "in the non-vacuum configurations rounds that find the store's snapshot gate held by a real user backup (a write committed just before exists only in the WAL) or race user snapshots; a history is non-trivial when it has a failed upload followed later by a round that uploads a change and then by a round that finds nothing to do; "
         "distinct by the JSON of the history",
    exhaustive=False,
    trusted=["SQLite/raft/gzip inside Store.Backup are not modelled: Provide is 'a copy of the database as it is when Provide runs' (checked on the real store by opening every uploaded object)",
             "the object found in storage by a new uploader is labelled honestly for this database (premise `honest`; the uploader cannot check it)",
             "a failed StorageClient.Upload leaves the stored object unchanged (the scripted storage behaves so)"],
    assumptions=["raft indexes of committed changes are strictly increasing (premises incr / wf_evs)",
                 "one uploader, rounds do not overlap (Uploader.Start runs them sequentially)"],
    level_text="All theorems hold for every world, every failure combination and every history of any length (invariant over histories); "
               "the same round/step functions are evaluated on every driver history and compared call by call (LastIndex, Provide, CurrentID, Upload label+content), "
               "error result, lastIndex, stored object and number of Provide attempts with the real Uploader and Provider.",
    level_note="Model = Uploader.upload + Provider.LastIndex/Provide transcribed over an abstract database of change indexes; tie = differential run, fake and real store; Store.Backup internals trusted but sampled.",
    technique="Coq invariant proof over histories + model/implementation differential run with fault injection; uploaded objects opened as SQLite databases",
    design_ref="6/C37",
    timeout_quick=600, timeout_thorough=7200,
)
