(* C34 — property theorems only.  `run enabled step init l = Some s`: s is reached by the
   schedule l (any interleaving, any number of threads) in which every action respects the
   client protocol `enabled`. *)
From Coq Require Import List String ZArith NArith.
From RQ Require Import Lib.C34_Sched Model.C34 Proofs.C34.
Import ListNotations.
Open Scope string_scope.

Theorem C34_cas_mutex : forall l s, run cas_enabled cas_step cas_init l = Some s ->
  List.length (c_holders s) <= 1 /\ (c_state s = true <-> c_holders s <> []).
Proof. exact cas_mutex. Qed.
Print Assumptions C34_cas_mutex.

Theorem C34_cas_begin_exact : forall l s t o, run cas_enabled cas_step cas_init l = Some s ->
  (snd (cas_step_obs s (CBegin t o)) = Ok <-> c_holders s = []) /\
  (snd (cas_step_obs s (CBegin t o)) = Ok ->
     c_holders (cas_step s (CBegin t o)) = [t] /\ c_owner (cas_step s (CBegin t o)) = o) /\
  (snd (cas_step_obs s (CBegin t o)) <> Ok ->
     snd (cas_step_obs s (CBegin t o)) = Conflict /\ cas_step s (CBegin t o) = s).
Proof. exact cas_begin_exact. Qed.
Print Assumptions C34_cas_begin_exact.

Theorem C34_mrsw_exclusion : forall l s, run mrsw_enabled mrsw_step mrsw_init l = Some s ->
  m_nr s = Z.of_nat (List.length (m_rd s)) /\ (0 <= m_nr s)%Z /\
  (m_owner s <> "" -> m_nr s = 0%Z /\ m_rd s = [] /\ exists t, m_wr s = [t]) /\
  (m_owner s = "" -> m_wr s = []) /\
  (m_rd s <> [] -> m_wr s = [] /\ m_owner s = "").
Proof. exact mrsw_exclusion. Qed.
Print Assumptions C34_mrsw_exclusion.

Theorem C34_mrsw_no_panic : forall l s a, run mrsw_enabled mrsw_step mrsw_init l = Some s ->
  mrsw_enabled s a = true ->
  snd (mrsw_step_obs s a) <> Panic /\ snd (mrsw_step_obs s a) <> Invalid.
Proof. exact mrsw_no_panic. Qed.
Print Assumptions C34_mrsw_no_panic.

Theorem C34_mrsw_no_lost_wakeup : forall l s t k, run mrsw_enabled mrsw_step mrsw_init l = Some s ->
  In (t, k) (m_wait s ++ m_woken s) -> guard_blocked s k = false ->
  In (t, k) (m_woken s) /\ mrsw_enabled s (MResume t) = true /\
  mrsw_step_obs s (MResume t) = (acquire (unwoken s t) t k, Ok).
Proof. exact mrsw_no_lost_wakeup. Qed.
Print Assumptions C34_mrsw_no_lost_wakeup.

Theorem C34_mrsw_released_enables : forall l s t k, run mrsw_enabled mrsw_step mrsw_init l = Some s ->
  In (t, k) (m_wait s ++ m_woken s) -> m_rd s = [] -> m_wr s = [] ->
  mrsw_enabled s (MResume t) = true /\
  mrsw_step_obs s (MResume t) = (acquire (unwoken s t) t k, Ok).
Proof. exact mrsw_released_enables. Qed.
Print Assumptions C34_mrsw_released_enables.

Theorem C34_mrsw_reader_enabled_without_writer : forall l s t,
  run mrsw_enabled mrsw_step mrsw_init l = Some s ->
  In (t, WR) (m_wait s ++ m_woken s) -> m_wr s = [] ->
  mrsw_enabled s (MResume t) = true /\
  mrsw_step_obs s (MResume t) = (acquire (unwoken s t) t WR, Ok).
Proof. exact mrsw_reader_enabled_without_writer. Qed.
Print Assumptions C34_mrsw_reader_enabled_without_writer.

Theorem C34_mrsw_upgrade : forall l s t o, run mrsw_enabled mrsw_step mrsw_init l = Some s ->
  mrsw_enabled s (MUpgrade t o) = true ->
  (snd (mrsw_step_obs s (MUpgrade t o)) = Ok <-> m_rd s = [t]) /\
  (snd (mrsw_step_obs s (MUpgrade t o)) = Ok ->
     let s' := mrsw_step s (MUpgrade t o) in
     m_owner s' = o /\ m_nr s' = 0%Z /\ m_rd s' = [] /\ m_wr s' = [t]) /\
  (snd (mrsw_step_obs s (MUpgrade t o)) <> Ok ->
     snd (mrsw_step_obs s (MUpgrade t o)) = Conflict /\ mrsw_step s (MUpgrade t o) = s).
Proof. exact mrsw_upgrade. Qed.
Print Assumptions C34_mrsw_upgrade.

Theorem C34_ready_exact : forall h s ch, run rt_enabled rt_step rt_init h = Some s ->
  rt_status s ch = spec_status h ch 0 0%N.
Proof. exact ready_exact. Qed.
Print Assumptions C34_ready_exact.

Theorem C34_ready_never_before : forall h s ch tg, run rt_enabled rt_step rt_init h = Some s ->
  In (ch, tg) (r_subs s) -> (r_cur s < tg)%N /\ memn ch (r_closed s) = false.
Proof. exact ready_never_before. Qed.
Print Assumptions C34_ready_never_before.
