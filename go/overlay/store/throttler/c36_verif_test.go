package throttler

// C36 driver: random operation sequences on the real Throttler (white-box level read),
// short idle timeouts, Delay timing with cancelled / expiring contexts.
//
// Every case is compared (a) with the Coq model through the emitted Gallina term and (b) with
// c36Ref below, a reference written from the property text, which also steers the generator
// away from timing ties (every timed expectation is >= 5x away from the alternative).

import (
	"context"
	"encoding/json"
	"fmt"
	"math"
	"math/rand"
	"strings"
	"sync"
	"testing"
	"time"
)

type c36Op struct {
	K   string `json:"k"`             // sig | rel | rst | sleep | delay
	Us  int64  `json:"us,omitempty"`  // sleep: duration; delay: the context ends this long after the call
	Ctx string `json:"ctx,omitempty"` // delay: never | timeout | cancel | precancelled | expired
}

type c36Input struct {
	DelaysUs []int64 `json:"delays_us"`
	Rate     int     `json:"rate"`
	IdleUs   int64   `json:"idle_us"`
	Timed    bool    `json:"timed,omitempty"` // contains sleeps / idle-timer expectations
	Ops      []c36Op `json:"ops"`
	Conc     *c36Conc `json:"concurrent,omitempty"` // a concurrent scenario instead of a sequence
}

// c36Conc: request A is being delayed (delays_us[1], level 1); while it sleeps a pressure
// signal arrives (op), and shortly after it request B calls Delay with a context that ends
// after CtxUs (0 = never).  Oracle-only (the model is sequential):
//   - the signal returns at once (it must not wait for sleepers),
//   - B waits no longer than the delay of the level the signal left (+ slack), and returns when
//     its context ends,
//   - A is not disturbed, and the level afterwards is what the signal rules say.
type c36Conc struct {
	Op    string `json:"op"` // sig | rel | rst
	CtxUs int64  `json:"ctx_us,omitempty"`
}

func c36ConcOnce(in c36Input) (fail, sig string) {
	tbl := in.DelaysUs
	delays := make([]time.Duration, len(tbl))
	for i, d := range tbl {
		delays[i] = time.Duration(d) * time.Microsecond
	}
	th := New(delays, in.Rate, 0)
	th.Signal() // level 1
	ref := c36NewRef(in)
	ref.apply(c36Op{K: "sig"})
	aDone := make(chan c36Obs, 1)
	go func() {
		t0 := time.Now()
		err := th.Delay(context.Background())
		aDone <- c36Obs{Elapsed: c36Us(time.Since(t0)), Err: c36ErrCode(err)}
	}()
	time.Sleep(50 * time.Millisecond) // A is asleep in Delay now
	// the pressure signal
	wDone := make(chan time.Duration, 1)
	go func() {
		t0 := time.Now()
		switch in.Conc.Op {
		case "sig":
			th.Signal()
		case "rel":
			th.Release()
		default:
			th.Reset()
		}
		wDone <- time.Since(t0)
	}()
	ref.apply(c36Op{K: in.Conc.Op})
	time.Sleep(20 * time.Millisecond)
	// request B
	wantB := ref.tbl[ref.level]
	wantErr := 0
	ctx, cancel := context.Background(), context.CancelFunc(func() {})
	tb := time.Now()
	if in.Conc.CtxUs > 0 {
		ctx, cancel = context.WithTimeout(ctx, time.Duration(in.Conc.CtxUs)*time.Microsecond)
		if wantB > 0 && in.Conc.CtxUs < wantB {
			wantB, wantErr = in.Conc.CtxUs, 2
		}
	}
	errB := th.Delay(ctx)
	elB := c36Us(time.Since(tb))
	cancel()
	wEl := <-wDone
	a := <-aDone
	lvl := int64(th.Level())
	const slack = 150000 // us
	switch {
	case c36Us(wEl) > slack:
		return fmt.Sprintf("%s took %dus to return while another request was sleeping in Delay (delay %dus)", in.Conc.Op, c36Us(wEl), tbl[1]), "C36:concurrent:signal-blocked-behind-delay"
	case elB > 5*wantB+100000 && wantErr != 0:
		return fmt.Sprintf("second request: context ended after %dus but Delay returned after %dus (first request sleeping %dus, %s pending)", wantB, elB, tbl[1], in.Conc.Op), "C36:concurrent:delay-ignores-context"
	case elB > 5*wantB+100000:
		return fmt.Sprintf("second request waited %dus, the current delay after %s is %dus (first request sleeping %dus)", elB, in.Conc.Op, wantB, tbl[1]), "C36:concurrent:delay-too-long"
	case elB < wantB:
		return fmt.Sprintf("second request waited %dus, expected %dus", elB, wantB), "C36:concurrent:delay-too-short"
	case c36ErrCode(errB) != wantErr:
		return fmt.Sprintf("second request: error code %d, expected %d", c36ErrCode(errB), wantErr), "C36:concurrent:delay-wrong-error"
	case a.Err != 0 || a.Elapsed < tbl[1] || a.Elapsed > 5*tbl[1]+100000:
		return fmt.Sprintf("first request: waited %dus (error code %d) with a delay of %dus", a.Elapsed, a.Err, tbl[1]), "C36:concurrent:first-delay-disturbed"
	case lvl != ref.level:
		return fmt.Sprintf("level %d after signal, %s; the rules give %d", lvl, in.Conc.Op, ref.level), "C36:concurrent:level"
	}
	return "", ""
}

// timing failures must repeat three times in a row (jitter only adds time)
func c36ConcCase(in c36Input) VCase {
	var fail, sig string
	for attempt := 0; attempt < 3; attempt++ {
		if fail, sig = c36ConcOnce(in); fail == "" {
			break
		}
	}
	js, _ := json.Marshal(in)
	c := VCase{Input: in, Key: string(js), Nontrivial: true, Tags: []string{"concurrent", "concurrent-" + in.Conc.Op}}
	if fail != "" {
		c.OracleFail, c.Sig = fail, sig
	}
	return c
}

// table: level 1 sleeps 1 s (request A), level 2 is a 100 ms delay (what B meets after a Signal)
func c36ConcInputs() []c36Input {
	var out []c36Input
	for _, op := range []string{"sig", "rel", "rst"} {
		for _, ctxUs := range []int64{0, 60000} {
			out = append(out, c36Input{DelaysUs: []int64{0, 1000000, 100000}, Rate: 1, Timed: true, Conc: &c36Conc{Op: op, CtxUs: ctxUs}})
		}
	}
	// after a Signal the second request meets a long delay and a short context
	out = append(out, c36Input{DelaysUs: []int64{0, 1000000, 900000}, Rate: 1, Timed: true, Conc: &c36Conc{Op: "sig", CtxUs: 60000}})
	return out
}

// what was seen after one operation
type c36Obs struct {
	Level   int64
	Delay   int64 // GetDelay in microseconds
	HasRet  bool
	Elapsed int64 // Delay: microseconds blocked
	Err     int   // 0 nil, 1 Canceled, 2 DeadlineExceeded, 9 something else
}

// ---- reference from the property text ----

type c36Ref struct {
	tbl      []int64
	rate     int64
	idle     int64
	level    int64
	now      int64
	armed    bool
	deadline int64
}

func c36NewRef(in c36Input) *c36Ref {
	r := &c36Ref{tbl: in.DelaysUs, rate: int64(in.Rate), idle: in.IdleUs}
	if len(r.tbl) == 0 {
		r.tbl = []int64{0}
	}
	if r.rate < 1 {
		r.rate = 1
	}
	return r
}
func (r *c36Ref) top() int64 { return int64(len(r.tbl)) - 1 }
func (r *c36Ref) arm() {
	if r.idle > 0 {
		r.armed, r.deadline = true, r.now+r.idle
	}
}
func (r *c36Ref) advance(dt int64) (fired bool) {
	r.now += dt
	if r.armed && r.now >= r.deadline {
		r.armed, r.level = false, 0
		return true
	}
	return false
}

// expected (blocked time, error) of Delay at the current level
func (r *c36Ref) delay(o c36Op) (int64, int) {
	d := r.tbl[r.level]
	if d == 0 {
		return 0, 0
	}
	if o.Ctx == "never" || o.Us >= d {
		return d, 0
	}
	if o.Ctx == "timeout" || o.Ctx == "expired" {
		return o.Us, 2
	}
	return o.Us, 1
}

// apply: returns whether the idle timer fired during the operation and the expected Delay result
func (r *c36Ref) apply(o c36Op) (fired bool, e int64, err int) {
	switch o.K {
	case "sig":
		if r.level < r.top() {
			r.level++
		}
		r.arm()
	case "rel":
		r.level -= r.rate
		if r.level < 0 {
			r.level = 0
		}
		r.arm()
	case "rst":
		r.level, r.armed = 0, false
	case "sleep":
		fired = r.advance(o.Us)
	case "delay":
		e, err = r.delay(o)
		fired = r.advance(e)
	}
	return
}

// ---- running a case on the real throttler ----

func c36ErrCode(err error) int {
	switch err {
	case nil:
		return 0
	case context.Canceled:
		return 1
	case context.DeadlineExceeded:
		return 2
	}
	return 9
}

func c36Us(d time.Duration) int64 { return int64(d / time.Microsecond) }

type c36Result struct {
	obs     []c36Obs
	fail    string
	sig     string
	inconcl string
	tags    map[string]bool
	nontriv bool
}

func c36RunOnce(in c36Input) (res c36Result) {
	res.tags = map[string]bool{}
	delays := make([]time.Duration, len(in.DelaysUs))
	for i, d := range in.DelaysUs {
		delays[i] = time.Duration(d) * time.Microsecond
	}
	if in.DelaysUs == nil {
		delays = nil
	}
	th := New(delays, in.Rate, time.Duration(in.IdleUs)*time.Microsecond)
	ref := c36NewRef(in)
	idle := time.Duration(in.IdleUs) * time.Microsecond
	setFail := func(sig, msg string) {
		if res.fail == "" {
			res.fail, res.sig = msg, sig
		}
	}
	var touchBefore time.Time // real time just before the most recent Signal/Release
	satTop, satBottom := false, false
	for i, o := range in.Ops {
		prev := ref.level
		// --- the real operation
		var ob c36Obs
		var fired bool
		var wantE int64
		var wantErr int
		switch o.K {
		case "sig":
			if prev == ref.top() && ref.top() >= 1 {
				satTop = true
			}
			touchBefore = time.Now()
			th.Signal()
		case "rel":
			if prev > 0 && prev < ref.rate {
				satBottom = true
			}
			touchBefore = time.Now()
			th.Release()
		case "rst":
			th.Reset()
		case "sleep":
			time.Sleep(time.Duration(o.Us) * time.Microsecond)
		case "delay":
			ctx, cancel := context.Background(), context.CancelFunc(func() {})
			t0 := time.Now()
			switch o.Ctx {
			case "timeout":
				ctx, cancel = context.WithTimeout(ctx, time.Duration(o.Us)*time.Microsecond)
			case "expired":
				ctx, cancel = context.WithDeadline(ctx, t0.Add(-time.Second))
			case "precancelled":
				ctx, cancel = context.WithCancel(ctx)
				cancel()
			case "cancel":
				ctx, cancel = context.WithCancel(ctx)
				tm := time.AfterFunc(time.Duration(o.Us)*time.Microsecond, cancel)
				defer tm.Stop()
			}
			var err error
			panicked := func() (p bool) {
				defer func() {
					if recover() != nil {
						p = true
					}
				}()
				err = th.Delay(ctx)
				return false
			}()
			el := time.Since(t0)
			cancel()
			if panicked {
				setFail("C36:level-out-of-range:panic", fmt.Sprintf("op %d: Delay panicked (delay index outside the table)", i))
				return
			}
			ob.HasRet, ob.Elapsed, ob.Err = true, c36Us(el), c36ErrCode(err)
		}
		fired, wantE, wantErr = ref.apply(o)
		if fired {
			res.tags["idle-timer-fired"] = true
		}
		// --- observe (white-box field and the accessor)
		th.mu.RLock()
		lv := th.delayFactor
		th.mu.RUnlock()
		if lv < 0 || lv >= len(th.delays) {
			ob.Level = int64(lv)
			res.obs = append(res.obs, ob)
			setFail("C36:level-out-of-range", fmt.Sprintf("op %d (%s): level %d outside [0,%d]", i, o.K, lv, len(th.delays)-1))
			return
		}
		if acc := th.Level(); acc != lv {
			setFail("C36:level-accessor", fmt.Sprintf("op %d: Level()=%d, field=%d", i, acc, lv))
		}
		ob.Level = int64(lv)
		ob.Delay = c36Us(th.GetDelay())
		after := time.Now()
		res.obs = append(res.obs, ob)

		// --- was this observation point evaluable?  (timers never fire early: if less than the
		// idle timeout has passed since just before the last Signal/Release, it cannot have fired)
		if ref.armed && in.IdleUs > 0 && after.Sub(touchBefore) >= idle*9/10 {
			res.inconcl = fmt.Sprintf("op %d: machine too slow to decide whether the idle timer may have fired", i)
			return
		}
		// --- the property
		if ob.Level != ref.level {
			switch {
			case fired:
				setFail("C36:idle-no-reset", fmt.Sprintf("op %d: idle timeout passed without a signal but level is %d", i, ob.Level))
			case o.K == "sleep" || o.K == "delay":
				setFail("C36:level-changed-without-signal", fmt.Sprintf("op %d (%s): level went %d -> %d with the idle timeout not reached", i, o.K, prev, ob.Level))
			default:
				setFail("C36:"+o.K+"-step", fmt.Sprintf("op %d (%s): level %d -> %d, the rule gives %d (table %d entries, rate %d)", i, o.K, prev, ob.Level, ref.level, len(ref.tbl), ref.rate))
			}
		}
		if ob.Delay != ref.tbl[ob.Level] {
			setFail("C36:getdelay", fmt.Sprintf("op %d: GetDelay=%dus at level %d, table says %dus", i, ob.Delay, ob.Level, ref.tbl[ob.Level]))
		}
		if ob.HasRet {
			d := ref.tbl[prev]
			switch {
			case ob.Elapsed < wantE:
				setFail("C36:delay-too-short", fmt.Sprintf("op %d: Delay returned after %dus, expected %dus (delay %dus, ctx %s/%dus)", i, ob.Elapsed, wantE, d, o.Ctx, o.Us))
			case ob.Elapsed > 5*wantE+100000 && wantErr != 0:
				setFail("C36:delay-ignores-context", fmt.Sprintf("op %d: context ended after %dus but Delay returned after %dus (delay %dus)", i, wantE, ob.Elapsed, d))
			case ob.Elapsed > 5*wantE+100000:
				setFail("C36:delay-too-long", fmt.Sprintf("op %d: Delay blocked %dus with a current delay of %dus", i, ob.Elapsed, d))
			case ob.Err != wantErr:
				setFail("C36:delay-wrong-error", fmt.Sprintf("op %d: Delay error code %d, expected %d (delay %dus, ctx %s/%dus)", i, ob.Err, wantErr, d, o.Ctx, o.Us))
			}
			if wantErr != 0 {
				res.tags["delay-cut-by-context"] = true
			} else if wantE > 0 {
				res.tags["delay-full"] = true
			} else {
				res.tags["delay-zero"] = true
			}
		}
	}
	res.nontriv = satTop && satBottom
	if satTop {
		res.tags["saturated-top"] = true
	}
	if satBottom {
		res.tags["floored-at-zero"] = true
	}
	return
}

func c36Coq(in c36Input, obs []c36Obs) string {
	z := func(n int64) string {
		if n < 0 {
			return fmt.Sprintf("(%d)", n)
		}
		return fmt.Sprintf("%d", n)
	}
	ds := make([]string, len(in.DelaysUs))
	for i, d := range in.DelaysUs {
		ds[i] = z(d)
	}
	ops := make([]string, len(in.Ops))
	for i, o := range in.Ops {
		switch o.K {
		case "sig":
			ops[i] = "OpSignal"
		case "rel":
			ops[i] = "OpRelease"
		case "rst":
			ops[i] = "OpReset"
		case "sleep":
			ops[i] = "OpSleep " + z(o.Us)
		case "delay":
			switch o.Ctx {
			case "never":
				ops[i] = "OpDelay CtxNever"
			case "timeout", "expired":
				ops[i] = fmt.Sprintf("OpDelay (CtxEnds %s true)", z(o.Us))
			default:
				ops[i] = fmt.Sprintf("OpDelay (CtxEnds %s false)", z(o.Us))
			}
		}
	}
	os := make([]string, len(obs))
	for i, o := range obs {
		ret := "None"
		if o.HasRet {
			ret = fmt.Sprintf("Some (%s, %d)", z(o.Elapsed), o.Err)
		}
		os[i] = fmt.Sprintf("{| i_level := %s; i_delay := Some %s; i_ret := %s |}", z(o.Level), z(o.Delay), ret)
	}
	return fmt.Sprintf("{| k_cfg := {| c_delays := %s; c_rate := %s; c_idle := %s |}; k_ops := %s; k_impl := %s |}",
		coqList(ds), z(int64(in.Rate)), z(in.IdleUs), coqList(ops), coqList(os))
}

// c36Case runs a case; anything that depends on wall-clock time must fail three times in a row
// to count (scheduling jitter only ever adds time, a wrong implementation fails every time).
func c36Case(in c36Input) VCase {
	if in.Conc != nil {
		return c36ConcCase(in)
	}
	var res c36Result
	for attempt := 0; attempt < 3; attempt++ {
		res = c36RunOnce(in)
		if res.fail == "" && res.inconcl == "" {
			break
		}
		if !in.Timed && !strings.HasPrefix(res.sig, "C36:delay") {
			break
		}
	}
	js, _ := json.Marshal(in)
	c := VCase{Input: in, Key: string(js)}
	idleKind := "idle=off"
	if in.IdleUs > 0 && in.Timed {
		idleKind = "idle=short"
	} else if in.IdleUs > 0 {
		idleKind = "idle=long"
	}
	c.Tags = []string{fmt.Sprintf("tbl=%d", len(in.DelaysUs)), idleKind}
	if in.Rate < 1 {
		c.Tags = append(c.Tags, "rate<1")
	}
	for _, k := range vSortedKeys(res.tags) {
		c.Tags = append(c.Tags, k)
	}
	if res.inconcl != "" {
		c.Inconcl = res.inconcl
		return c
	}
	c.Coq = c36Coq(in, res.obs)
	c.Nontrivial = res.nontriv
	if res.fail != "" {
		c.OracleFail, c.Sig = res.fail, res.sig
	}
	return c
}

// ---- generation ----

var c36DelayChoices = []int64{0, 1000, 3000, 10000, 150000, 300000, 1000000}
var c36RateChoices = []int{-3, 0, 1, 1, 2, 2, 3, 3, 5, 100, math.MaxInt}

func c36GenTable(rng *rand.Rand) []int64 {
	n := rng.Intn(9)
	if rng.Intn(10) == 0 {
		n = rng.Intn(2) // empty and single-entry tables on purpose
	}
	t := make([]int64, n)
	for i := range t {
		t[i] = c36DelayChoices[rng.Intn(len(c36DelayChoices))]
		if i == 0 && rng.Intn(4) != 0 {
			t[i] = 0
		}
	}
	if n == 0 && rng.Intn(2) == 0 {
		return nil
	}
	return t
}

// a Delay call at current delay d whose outcome is unambiguous by a factor >= 5 (+100ms), and
// that costs at most maxCost microseconds of wall time; ok=false if none is wanted
func c36GenDelay(rng *rand.Rand, d int64, maxCost int64) (c36Op, bool) {
	small := []int64{1000, 3000, 5000, 10000}
	kinds := []string{"never", "timeout", "cancel", "precancelled", "expired"}
	k := kinds[rng.Intn(len(kinds))]
	o := c36Op{K: "delay", Ctx: k}
	switch {
	case d == 0:
		if k == "timeout" || k == "cancel" {
			o.Us = small[rng.Intn(len(small))]
		}
		return o, true
	case d <= 10000:
		// the delay wins: the context ends (if at all) far later
		if k == "precancelled" || k == "expired" {
			o.Ctx = "never"
		}
		if o.Ctx != "never" {
			o.Us = 5*d + 100000 + int64(rng.Intn(200000))
		}
		return o, d <= maxCost
	default:
		// the context wins unless it never ends
		if k == "never" {
			return o, d <= maxCost
		}
		if k == "timeout" || k == "cancel" {
			o.Us = small[rng.Intn(len(small))]
			if 5*o.Us+100000 > d {
				o.Us = 1000
			}
		}
		if 5*o.Us+100000 > d {
			return o, false
		}
		return o, true
	}
}

func c36GenUntimed(rng *rand.Rand, maxOps int) c36Input {
	in := c36Input{DelaysUs: c36GenTable(rng), Rate: c36RateChoices[rng.Intn(len(c36RateChoices))]}
	switch rng.Intn(3) {
	case 0:
		in.IdleUs = 0
	case 1:
		in.IdleUs = -1000000
	default:
		in.IdleUs = 3600 * 1000000
	}
	ref := c36NewRef(in)
	n := 1 + rng.Intn(maxOps)
	// phases biased towards climbing or descending so that both ends are reached
	up := 60
	for i := 0; i < n; i++ {
		if rng.Intn(8) == 0 {
			up = []int{15, 50, 85}[rng.Intn(3)]
		}
		var o c36Op
		switch x := rng.Intn(100); {
		case x < 10:
			var ok bool
			o, ok = c36GenDelay(rng, ref.tbl[ref.level], 10000)
			if !ok {
				o = c36Op{K: "sig"}
			}
		case x < 14:
			o = c36Op{K: "rst"}
		case x < 14+up*86/100:
			o = c36Op{K: "sig"}
		default:
			o = c36Op{K: "rel"}
		}
		ref.apply(o)
		in.Ops = append(in.Ops, o)
	}
	return in
}

// timed sequences: a short idle timeout; every observation point is either at most half an idle
// timeout after the last signal (timer cannot have fired) or at least five idle timeouts after it
func c36GenTimed(rng *rand.Rand, maxOps int) c36Input {
	idle := int64(30000 + 10000*rng.Intn(4))
	tbl := []int64{0}
	nt := 1 + rng.Intn(5)
	if rng.Intn(3) == 0 {
		nt = 10 + rng.Intn(8) // long tables: an idle reset from a high level is one step, not several releases
	}
	for n := nt; n > 0; n-- {
		tbl = append(tbl, []int64{1000, 3000, 10000, 300000, 400000}[rng.Intn(5)])
	}
	in := c36Input{DelaysUs: tbl, Rate: 1 + rng.Intn(3), IdleUs: idle, Timed: true}
	ref := c36NewRef(in)
	okElapsed := func(e int64) bool {
		if !ref.armed {
			return true
		}
		t := ref.now + e
		return t <= ref.deadline-idle/2-idle/4 || t >= ref.deadline+4*idle
	}
	if nt >= 10 {
		in.Rate = 1
		ref = c36NewRef(in)
		for k := 8 + rng.Intn(nt-7); k > 0; k-- {
			o := c36Op{K: "sig"}
			ref.apply(o)
			in.Ops = append(in.Ops, o)
		}
	}
	n := 3 + rng.Intn(maxOps-2)
	for i := 0; i < n; i++ {
		var o c36Op
		for try := 0; ; try++ {
			switch x := rng.Intn(100); {
			case x < 25 || (nt >= 10 && x < 32 && ref.level < ref.top()):
				o = c36Op{K: "sig"}
			case x < 35:
				o = c36Op{K: "rel"}
			case x < 38:
				o = c36Op{K: "rst"}
			case x < 50:
				o = c36Op{K: "sleep", Us: idle / 8}
			case x < 70:
				o = c36Op{K: "sleep", Us: 5*idle + int64(rng.Intn(int(idle)))}
			default:
				var ok bool
				o, ok = c36GenDelay(rng, ref.tbl[ref.level], 500000)
				if !ok {
					continue
				}
			}
			if try > 20 {
				o = c36Op{K: "sig"}
			}
			e := int64(0)
			if o.K == "sleep" {
				e = o.Us
			} else if o.K == "delay" {
				e, _ = ref.delay(o)
			}
			if (o.K != "sleep" && o.K != "delay") || okElapsed(e) {
				break
			}
		}
		ref.apply(o)
		in.Ops = append(in.Ops, o)
	}
	return in
}

// a Signal or Release in the middle of an idle period restarts it: observed 0.6 idle timeouts
// after the restart (1.2 after the first signal: must still be throttled) and 5 after it (zero)
func c36GenRestart(rng *rand.Rand) c36Input {
	idle := int64(500000)
	tbl := []int64{0}
	for n := 3 + rng.Intn(5); n > 0; n-- {
		tbl = append(tbl, []int64{1000, 3000, 10000}[rng.Intn(3)])
	}
	in := c36Input{DelaysUs: tbl, Rate: 1, IdleUs: idle, Timed: true}
	for k := 2 + rng.Intn(len(tbl)-1); k > 0; k-- {
		in.Ops = append(in.Ops, c36Op{K: "sig"})
	}
	in.Ops = append(in.Ops, c36Op{K: "sleep", Us: idle * 6 / 10})
	in.Ops = append(in.Ops, c36Op{K: []string{"sig", "rel"}[rng.Intn(2)]})
	in.Ops = append(in.Ops, c36Op{K: "sleep", Us: idle * 6 / 10}, c36Op{K: "delay", Ctx: "never"}, c36Op{K: "sleep", Us: idle * 44 / 10})
	return in
}

func c36Corpus() []c36Input {
	def := []int64{0, 100000, 200000, 500000, 1000000, 2000000, 5000000}
	rep := func(k string, n int) []c36Op {
		o := make([]c36Op, n)
		for i := range o {
			o[i] = c36Op{K: k}
		}
		return o
	}
	cat := func(a ...[]c36Op) []c36Op {
		var r []c36Op
		for _, x := range a {
			r = append(r, x...)
		}
		return r
	}
	return []c36Input{
		// the default throttler: climb past the top, release by 3 down past zero
		{DelaysUs: def, Rate: 3, IdleUs: 30000000, Ops: cat(rep("sig", 9), rep("rel", 1), rep("sig", 1), rep("rel", 4))},
		// empty / nil / single-entry tables
		{DelaysUs: nil, Rate: 1, IdleUs: 0, Ops: cat(rep("sig", 3), []c36Op{{K: "delay", Ctx: "never"}}, rep("rel", 2))},
		{DelaysUs: []int64{}, Rate: 0, IdleUs: 0, Ops: cat(rep("sig", 2), rep("rel", 2))},
		{DelaysUs: []int64{300000}, Rate: 1, IdleUs: 0, Ops: cat(rep("sig", 2), []c36Op{{K: "delay", Ctx: "precancelled"}, {K: "delay", Ctx: "timeout", Us: 3000}}, rep("rel", 1))},
		// release rates below one are raised to one; a negative rate must not climb
		{DelaysUs: []int64{0, 1000, 3000}, Rate: 0, IdleUs: 0, Ops: cat(rep("sig", 3), rep("rel", 4))},
		{DelaysUs: []int64{0, 1000, 3000}, Rate: -3, IdleUs: 0, Ops: cat(rep("sig", 1), rep("rel", 4), rep("sig", 3), rep("rel", 1))},
		{DelaysUs: []int64{0, 1000, 3000, 10000}, Rate: math.MaxInt, IdleUs: 0, Ops: cat(rep("sig", 5), rep("rel", 2), rep("sig", 1))},
		// Delay at a high level: full wait, deadline, cancellation, already ended
		{DelaysUs: []int64{0, 10000, 300000}, Rate: 2, IdleUs: 0, Ops: []c36Op{{K: "delay", Ctx: "precancelled"}, {K: "sig"}, {K: "delay", Ctx: "never"}, {K: "delay", Ctx: "cancel", Us: 200000},
			{K: "sig"}, {K: "delay", Ctx: "timeout", Us: 5000}, {K: "delay", Ctx: "cancel", Us: 10000}, {K: "delay", Ctx: "expired"}, {K: "delay", Ctx: "precancelled"}, {K: "sig"}, {K: "rel"}, {K: "rel"}}},
		// idle timeout: fires after signals and after releases, not before; Reset stops it
		{DelaysUs: []int64{0, 1000, 3000}, Rate: 1, IdleUs: 40000, Timed: true, Ops: []c36Op{{K: "sig"}, {K: "sig"}, {K: "sleep", Us: 5000}, {K: "sleep", Us: 250000}, {K: "sig"}, {K: "sig"}, {K: "sig"}, {K: "rel"},
			{K: "sleep", Us: 5000}, {K: "sleep", Us: 250000}, {K: "sig"}, {K: "rst"}, {K: "sleep", Us: 200000}, {K: "sig"}, {K: "sleep", Us: 5000}}},
		// a Release restarts the idle period (0.5s idle; release at 0.3s; still throttled at 0.6s; zero at 2.8s)
		{DelaysUs: []int64{0, 1000, 3000, 10000}, Rate: 1, IdleUs: 500000, Timed: true, Ops: []c36Op{{K: "sig"}, {K: "sig"}, {K: "sig"}, {K: "sleep", Us: 300000}, {K: "rel"}, {K: "sleep", Us: 300000}, {K: "sleep", Us: 2200000}}},
		// ... and so does a Signal
		{DelaysUs: []int64{0, 1000, 3000, 10000}, Rate: 1, IdleUs: 500000, Timed: true, Ops: []c36Op{{K: "sig"}, {K: "sleep", Us: 300000}, {K: "sig"}, {K: "sleep", Us: 300000}, {K: "sleep", Us: 2200000}}},
		// from a high level the idle timeout goes to zero in one step, not release by release
		{DelaysUs: []int64{0, 1000, 1000, 1000, 1000, 1000, 1000, 1000, 3000, 3000, 3000, 3000, 3000, 3000, 3000, 3000}, Rate: 1, IdleUs: 40000, Timed: true,
			Ops: cat(rep("sig", 15), []c36Op{{K: "sleep", Us: 200000}, {K: "sig"}, {K: "sleep", Us: 200000}})},
		// the timer fires while a request is being delayed
		{DelaysUs: []int64{0, 400000}, Rate: 1, IdleUs: 40000, Timed: true, Ops: []c36Op{{K: "sig"}, {K: "delay", Ctx: "never"}, {K: "sig"}, {K: "delay", Ctx: "timeout", Us: 3000}, {K: "sleep", Us: 300000}}},
	}
}

func c36RunAll(w *vWriter, ins []c36Input, workers int) {
	out := make([]VCase, len(ins))
	var wg sync.WaitGroup
	ch := make(chan int)
	for k := 0; k < workers; k++ {
		wg.Add(1)
		go func() {
			defer wg.Done()
			for i := range ch {
				out[i] = c36Case(ins[i])
			}
		}()
	}
	for i := range ins {
		ch <- i
	}
	close(ch)
	wg.Wait()
	for _, c := range out {
		w.Emit(c)
	}
}

func TestVerif_C36(t *testing.T) {
	w := vOpen()
	defer w.Close()
	rng := vRand()
	if raw := vReplayInput(); raw != nil {
		var in c36Input
		if err := json.Unmarshal(raw, &in); err != nil {
			t.Fatal(err)
		}
		w.Emit(c36Case(in))
		return
	}
	corpus := c36Corpus()
	var untimed, timed []c36Input
	for _, in := range corpus {
		if in.Timed {
			timed = append(timed, in)
		} else {
			untimed = append(untimed, in)
		}
	}
	maxOps := 50
	if vTier() == "thorough" {
		maxOps = 80
	}
	for i, n := 0, vN(1000, 30000); i < n; i++ {
		untimed = append(untimed, c36GenUntimed(rng, maxOps))
	}
	nt := 40
	if vTier() == "thorough" {
		nt = 600
	}
	for i := 0; i < nt; i++ {
		timed = append(timed, c36GenTimed(rng, 12))
	}
	for i, n := 0, vN(4, 48); i < n; i++ {
		timed = append(timed, c36GenRestart(rng))
	}
	c36RunAll(w, untimed, 8)
	timed = append(timed, c36ConcInputs()...)
	c36RunAll(w, timed, 16)
}
