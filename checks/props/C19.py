# C19 — configuration read by bin/check (see checks/registry.py)
SPEC = dict(
    title="Credential decisions follow the documented rule",
    pkg="./auth", files=["auth/c19_verif_test.go"],
    rule="every credentials file of length <= 2 (quick) / <= 3 (thorough) over 3 users x 3 passwords x 4 permission sets, plus random files of length 3-6, "
         "each with all 36 (user,password,perm) queries; a file is non-trivial when a user is defined twice or a JSON field is omitted; distinct by JSON text",
    exhaustive=True,
    trusted=["encoding/json decoding of the credentials file is outside the model (the driver feeds the model the entries it wrote)"],
    assumptions=["credentials are compared as byte strings; JSON decoding is Go's"],
    level_text="Theorems C19_decision_rule / C19_last_definition_wins / C19_redefinition_hides hold for every file, user, password and permission (no bound); "
               "the model's Load+AA is run against the real Load+AA on the exhaustive small universe and random longer files.",
    level_note="Model = Load/Check/HasPerm/HasAnyPerm/AA transcribed; tie = differential run on the whole bounded universe; JSON parsing trusted.",
    technique="Coq proof of decision rule (iff) over all files + exhaustive model/implementation differential run",
    design_ref="6/C19",
    timeout_quick=300,
)
