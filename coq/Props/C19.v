(* C19 — property theorems only. *)
From Coq Require Import List String.
From RQ Require Import Model.C19 Proofs.C19.

Theorem C19_decision_rule : forall file u p perm,
  aa (load file) u p perm = true <-> authorized file u p perm.
Proof. exact aa_spec. Qed.
Print Assumptions C19_decision_rule.

Theorem C19_last_definition_wins : forall file1 file2 u p perm,
  (forall v, last_def file1 v = last_def file2 v) ->
  aa (load file1) u p perm = aa (load file2) u p perm.
Proof. exact aa_last_wins. Qed.
Print Assumptions C19_last_definition_wins.

Theorem C19_redefinition_hides : forall pre e post u,
  username e = u -> (forall x, In x post -> username x <> u) ->
  last_def (pre ++ e :: post) u = Some e.
Proof. exact redefinition_hides. Qed.
Print Assumptions C19_redefinition_hides.
